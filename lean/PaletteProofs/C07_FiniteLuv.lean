/-
  C07, `Xyz ← Luv` continued: the finding **luv-vprime-zero-C07** as a characterisation.

  `C07_Finite.lean` has one witness (`luvToXyz_poison`, `L = 10`) and `luvToXyz_finite_partial` (finite where `v′ ≠ 0`).  Here:

  * `luvToXyz_finite_iff`: for `L ≥ 1e-5` (above the early return) and a usable white point the result is finite **iff** `v′ ≠ 0`
    — the locus `v = −13·L·v′ₙ` is exactly where the unchanged code divides by zero;
  * `luvToXyz_locus_poison`: every point of the locus is poison (X and Z), for every white point, lightness `≥ 1e-5` and `u`;
  * `luv_vprime_zero_box`: for D65 the locus crosses the documented box `0..100 × −84..176 × −135..108` for every
    `L ∈ [1e-5, 22]` and every `u` in range (rational witnesses `v = −(117/19.21696)·L`; `L = 1` is the colour of the known finding:
    `−117/19.21696 = −6.0883719381…` at ℝ; the harness searches ±3 ulps around the rounded `−13·L·v′ₙ` in `f32` and in `f64`, and the
    value quoted in known_findings.json, `−6.088371753692627`, is an `f32` within one ulp of it at which the *rounded* `v′` is exactly
    `0` — the locus moves by rounding, it does not disappear);
  * the explicit guard: `luvToXyz_finite_of_guard` — finite whenever `L < 1e-5` or `v > −13·L·v′ₙ` (i.e. `v′ > 0`; every real colour
    has `v′ = 9Y/(X + 15Y + 3Z) > 0`), for D65 `v > −6.0884·L` (`luvToXyz_finite_d65`);
  * the chain: `Xyz → Luv → Xyz` is finite for **every** real XYZ colour (`xyz_luv_xyz_finite`): the image of `Luv ← Xyz` never meets
    the locus, because there `v′ = 9Y/(X + 15Y + 3Z)` and a colour with `Y ≤ 0` has `L ≤ 0` and takes the early return.
-/
import PaletteProofs.C07_Finite

set_option linter.unusedSimpArgs false
set_option linter.unusedVariables false

namespace C07
open PReal

/-- `v′ₙ = 9·Yₙ/(Xₙ + 15Yₙ + 3Zₙ)` as the code forms it (`9 · Yₙ · recip(…)`) -/
noncomputable def vRefOf (w : V3 ℝ) : ℝ := 9 * w.c1 * (1 / (w.c0 + 15 * w.c1 + 3 * w.c2))

/-- `v′ = v/(13 L) + v′ₙ`, the divisor of `X` and `Z` in `Xyz ← Luv` -/
noncomputable def vPrimeOf (w c : V3 ℝ) : ℝ := c.c2 / (13 * c.c0) + vRefOf w

theorem vPrimeOf_eq (w c : V3 ℝ) : vPrimeOf w c = c.c2 / (13 * c.c0) + 9 * w.c1 * (1 / (w.c0 + 15 * w.c1 + 3 * w.c2)) := rfl

/-- **on the locus `v′ = 0` the unchanged code divides by zero**: `X` and `Z` are poison (`±inf` or NaN in `f32`/`f64`) -/
theorem luvToXyz_vprime_zero_poison (w c : V3 ℝ) (hd : w.c0 + 15 * w.c1 + 3 * w.c2 ≠ 0) (hl : ¬ c.c0 < 1e-5)
    (hv : vPrimeOf w c = 0) :
    (Cie.luvToXyz w.lift c.lift).c0 = poison ∧ (Cie.luvToXyz w.lift c.lift).c2 = poison := by
  have hl' : ¬ c.c0 < (1 / 100000 : ℝ) := by norm_num at hl ⊢; exact hl
  have h13 : (13 : ℝ) * c.c0 ≠ 0 := by
    have : (0:ℝ) < c.c0 := lt_of_lt_of_le (by norm_num) (not_lt.mp hl')
    positivity
  have hv' : c.c2 / (13 * c.c0) + 9 * w.c1 * (w.c0 + 15 * w.c1 + 3 * w.c2)⁻¹ = 0 := by
    rw [vPrimeOf_eq] at hv; simpa [one_div] using hv
  unfold Cie.luvToXyz Cie.recip Cie.cube V3.lift
  norm_num [hl', div_some_of_ne _ _ hd, div_some_of_ne _ _ h13]
  split_ifs <;> simp only [div_zero_of_eq _ _ hv', and_self]

/-- **exact domain of definition above the early return**: finite iff `v′ ≠ 0` -/
theorem luvToXyz_finite_iff (w c : V3 ℝ) (hd : w.c0 + 15 * w.c1 + 3 * w.c2 ≠ 0) (hl : ¬ c.c0 < 1e-5) :
    (Cie.luvToXyz w.lift c.lift).Finite ↔ vPrimeOf w c ≠ 0 := by
  constructor
  · intro hf hv
    have := (luvToXyz_vprime_zero_poison w c hd hl hv).1
    exact ((V3.finite_iff _).mp hf).1 this
  · intro hv
    exact luvToXyz_finite_partial w c hd (Or.inr (by rw [vPrimeOf_eq] at hv; exact hv))

/-- every point of the locus `v = −13·L·v′ₙ`, `L ≥ 1e-5`, any `u`, any usable white point -/
theorem luvToXyz_locus_poison (w : V3 ℝ) (hd : w.c0 + 15 * w.c1 + 3 * w.c2 ≠ 0) (L u : ℝ) (hL : 1e-5 ≤ L) :
    (Cie.luvToXyz w.lift (⟨L, u, -(13 * L * vRefOf w)⟩ : V3 ℝ).lift).c0 = poison := by
  have hl : ¬ L < 1e-5 := not_lt.mpr hL
  have hL0 : (0:ℝ) < L := lt_of_lt_of_le (by norm_num) hL
  refine (luvToXyz_vprime_zero_poison w ⟨L, u, -(13 * L * vRefOf w)⟩ hd hl ?_).1
  unfold vPrimeOf
  have : (13:ℝ) * L ≠ 0 := by positivity
  simp only []
  field_simp
  ring

/-- D65: `v′ₙ = 9/19.21696` -/
theorem vRefOf_d65 : vRefOf d65 = 9 / 19.21696 := by
  unfold vRefOf d65; norm_num

/-- **finding luv-vprime-zero-C07 as a family of rational witnesses inside the documented box** (`Luv<D65>`): for every
    `L ∈ [1e-5, 22]` and every `u ∈ [−84, 176]` the colour `Luv(L, u, −(117/19.21696)·L)` lies in `0..100 × −84..176 × −135..108`
    and its `X` is poison.  (`L = 22` gives `v = −133.9`; beyond `L ≈ 22.17` the locus leaves the box through `v = −135`.) -/
theorem luv_vprime_zero_box (L u : ℝ) (hL0 : 1e-5 ≤ L) (hL1 : L ≤ 22) (hu0 : -84 ≤ u) (hu1 : u ≤ 176) :
    let c : V3 ℝ := ⟨L, u, -(117 / 19.21696 * L)⟩
    (0 ≤ c.c0 ∧ c.c0 ≤ 100) ∧ (-84 ≤ c.c1 ∧ c.c1 ≤ 176) ∧ (-135 ≤ c.c2 ∧ c.c2 ≤ 108) ∧
      (Cie.luvToXyz (Color.whitePoint "D65") c.lift).c0 = poison := by
  intro c
  have hL : (0:ℝ) ≤ L := le_trans (by norm_num) hL0
  refine ⟨⟨hL, by linarith⟩, ⟨hu0, hu1⟩, ⟨?_, ?_⟩, ?_⟩
  · show -135 ≤ -(117 / 19.21696 * L); norm_num; nlinarith
  · show -(117 / 19.21696 * L) ≤ 108; norm_num; nlinarith
  · rw [whitePoint_D65]
    have e : c = ⟨L, u, -(13 * L * vRefOf d65)⟩ := by
      show (⟨L, u, -(117 / 19.21696 * L)⟩ : V3 ℝ) = _
      rw [vRefOf_d65]; congr 1; ring
    rw [e]
    exact luvToXyz_locus_poison d65 (by norm_num [d65]) L u hL0

/-- the colour of the known finding: `Luv<D65>(1, 0, −117/19.21696)`, `−117/19.21696 = −6.0883719381…`; far from every bound of the box
    (more than `1e-9` of each range), so it is in the property's domain -/
theorem luv_vprime_zero_witness :
    (Cie.luvToXyz (Color.whitePoint "D65") (⟨1, 0, -(117 / 19.21696)⟩ : V3 ℝ).lift).c0 = poison ∧
    (-6.08837194 : ℝ) < -(117 / 19.21696) ∧ -(117 / 19.21696) < (-6.08837193 : ℝ) := by
  refine ⟨?_, by norm_num, by norm_num⟩
  have := (luv_vprime_zero_box 1 0 (by norm_num) (by norm_num) (by norm_num) (by norm_num)).2.2.2
  simpa using this

/-! ## the guard that is missing, as a condition on the input -/

/-- **explicit guard**: `Xyz ← Luv` is finite whenever `L < 1e-5` (the early return) or `v > −13·L·v′ₙ`, i.e. `v′ > 0` — which every
    real colour satisfies (`v′ = 9Y/(X + 15Y + 3Z)`).  White point with `Yₙ > 0` and `Xₙ + 15Yₙ + 3Zₙ > 0`. -/
theorem luvToXyz_finite_of_guard (w c : V3 ℝ) (hd : 0 < w.c0 + 15 * w.c1 + 3 * w.c2)
    (h : c.c0 < 1e-5 ∨ -(13 * c.c0 * vRefOf w) < c.c2) : (Cie.luvToXyz w.lift c.lift).Finite := by
  by_cases hl : c.c0 < 1e-5
  · exact luvToXyz_finite_partial w c hd.ne' (Or.inl hl)
  · have hg := h.resolve_left hl
    have hL0 : (0:ℝ) < c.c0 := lt_of_lt_of_le (by norm_num) (not_lt.mp hl)
    apply luvToXyz_finite_partial w c hd.ne' (Or.inr _)
    rw [← vPrimeOf_eq]
    unfold vPrimeOf
    have h13 : (0:ℝ) < 13 * c.c0 := by positivity
    have : -(vRefOf w) < c.c2 / (13 * c.c0) := by
      rw [lt_div_iff₀ h13]; linarith
    intro h0; linarith

/-- the same for D65 in numbers: `v > −(117/19.21696)·L ≈ −6.0884·L` -/
theorem luvToXyz_finite_d65 (c : V3 ℝ) (h : c.c0 < 1e-5 ∨ -(117 / 19.21696 * c.c0) < c.c2) :
    (Cie.luvToXyz (Color.whitePoint "D65") c.lift).Finite := by
  rw [whitePoint_D65]
  apply luvToXyz_finite_of_guard d65 c (by norm_num [d65])
  rw [vRefOf_d65]
  rcases h with h | h
  · exact Or.inl h
  · right; have : 13 * c.c0 * (9 / 19.21696) = 117 / 19.21696 * c.c0 := by ring
    rw [this]; exact h

/-- the guard is satisfiable by an ordinary colour (`Luv(50, 20, −30)`) and excludes exactly the locus -/
example : (Cie.luvToXyz (Color.whitePoint "D65") (⟨50, 20, -30⟩ : V3 ℝ).lift).Finite :=
  luvToXyz_finite_d65 ⟨50, 20, -30⟩ (Or.inr (by norm_num))

/-- in the documented box every colour with `v ≥ 0` (the upper half of the `v` range) is covered, whatever `L` and `u` are -/
theorem luvToXyz_finite_v_nonneg (c : V3 ℝ) (hL : 0 ≤ c.c0) (hv : 0 ≤ c.c2) :
    (Cie.luvToXyz (Color.whitePoint "D65") c.lift).Finite := by
  by_cases hl : c.c0 < 1e-5
  · exact luvToXyz_finite_d65 c (Or.inl hl)
  · have hL0 : (0:ℝ) < c.c0 := lt_of_lt_of_le (by norm_num) (not_lt.mp hl)
    apply luvToXyz_finite_d65 c (Or.inr _)
    have : 0 < 117 / 19.21696 * c.c0 := by positivity
    linarith

/-! ## the chain `Xyz → Luv → Xyz` never meets the locus -/

/-- the value of `Luv ← Xyz` at `PReal` off the early return: a real colour `(L, 13L(u′ − u′ₙ), 13L(v′ − v′ₙ))` whose lightness is
    below `1e-5` unless `Y > 0` -/
theorem xyzToLuv_value (w c : V3 ℝ) (h1 : 0 < w.c1) (hd : w.c0 + 15 * w.c1 + 3 * w.c2 ≠ 0) (hz : c.c0 + 15 * c.c1 + 3 * c.c2 ≠ 0) :
    ∃ l : ℝ, (l < 1e-5 ∨ 0 < c.c1) ∧ Cie.xyzToLuv w.lift c.lift =
      (⟨l, 13 * l * (4 * c.c0 * (1 / (c.c0 + 15 * c.c1 + 3 * c.c2)) - 4 * w.c0 * (1 / (w.c0 + 15 * w.c1 + 3 * w.c2))),
           13 * l * (9 * c.c1 * (1 / (c.c0 + 15 * c.c1 + 3 * c.c2)) - 9 * w.c1 * (1 / (w.c0 + 15 * w.c1 + 3 * w.c2)))⟩ : V3 ℝ).lift := by
  have hw1 : w.c1 ≠ 0 := h1.ne'
  unfold Cie.xyzToLuv Cie.recip Cie.cube V3.lift
  norm_num
  simp only [hz, if_false, div_some_of_ne _ _ hz, div_some_of_ne _ _ hd, div_some_of_ne _ _ hw1, mul_some, sub_some, lt_some]
  split_ifs with hy
  · -- cube-root branch: Y/Yₙ > ε > 0, L = 116·(Y/Yₙ)^(1/3) − 16
    have hpos : 0 < c.c1 / w.c1 := lt_trans (by norm_num) hy
    have hY : 0 < c.c1 := by
      rcases (div_pos_iff.mp hpos) with ⟨a, _⟩ | ⟨_, b⟩
      · exact a
      · linarith
    rw [powf_some_of_pos _ _ hpos]
    simp only [mul_some, sub_some]
    exact ⟨116 * (c.c1 / w.c1) ^ ((1:ℝ) / 3) - 16, Or.inr hY, by simp only [one_div]⟩
  · -- linear branch: L = κ·Y/Yₙ; `L ≥ 1e-5` forces `Y > 0`
    refine ⟨24389 / 27 * (c.c1 / w.c1), ?_, by simp only [one_div]⟩
    by_cases hY : 0 < c.c1
    · exact Or.inr hY
    · left
      have : c.c1 / w.c1 ≤ 0 := div_nonpos_of_nonpos_of_nonneg (not_lt.mp hY) h1.le
      have : (24389:ℝ) / 27 * (c.c1 / w.c1) ≤ 0 := mul_nonpos_of_nonneg_of_nonpos (by norm_num) this
      linarith [show (0:ℝ) < 1 / 100000 by norm_num]

/-- `Luv ← Xyz` at `PReal` returns a real colour whose lightness is either below the early-return threshold of `Xyz ← Luv` or comes
    with `v′ = 9Y/(X + 15Y + 3Z) ≠ 0` -/
theorem xyzToLuv_image (w c : V3 ℝ) (h1 : 0 < w.c1) (hd : 0 < w.c0 + 15 * w.c1 + 3 * w.c2) :
    ∃ r : V3 ℝ, Cie.xyzToLuv w.lift c.lift = r.lift ∧ (r.c0 < 1e-5 ∨ vPrimeOf w r ≠ 0) := by
  by_cases hz : c.c0 + 15 * c.c1 + 3 * c.c2 = 0
  · refine ⟨⟨0, 0, 0⟩, ?_, Or.inl (by norm_num)⟩
    unfold Cie.xyzToLuv V3.lift
    norm_num [hz]
  · obtain ⟨l, hl, e⟩ := xyzToLuv_value w c h1 hd.ne' hz
    refine ⟨_, e, ?_⟩
    by_cases hl5 : l < 1e-5
    · exact Or.inl hl5
    · right
      have hy := hl.resolve_left hl5
      have hl0 : (0:ℝ) < l := lt_of_lt_of_le (by norm_num) (not_lt.mp hl5)
      have h13 : (13:ℝ) * l ≠ 0 := by positivity
      have e2 : vPrimeOf w ⟨l, 13 * l * (4 * c.c0 * (1 / (c.c0 + 15 * c.c1 + 3 * c.c2)) - 4 * w.c0 * (1 / (w.c0 + 15 * w.c1 + 3 * w.c2))),
           13 * l * (9 * c.c1 * (1 / (c.c0 + 15 * c.c1 + 3 * c.c2)) - 9 * w.c1 * (1 / (w.c0 + 15 * w.c1 + 3 * w.c2)))⟩
          = 9 * c.c1 / (c.c0 + 15 * c.c1 + 3 * c.c2) := by
        unfold vPrimeOf vRefOf
        show 13 * l * (9 * c.c1 * (1 / (c.c0 + 15 * c.c1 + 3 * c.c2)) - 9 * w.c1 * (1 / (w.c0 + 15 * w.c1 + 3 * w.c2))) / (13 * l)
            + 9 * w.c1 * (1 / (w.c0 + 15 * w.c1 + 3 * w.c2)) = _
        rw [mul_div_cancel_left₀ _ h13]; ring
      rw [e2]
      exact div_ne_zero (by positivity) hz

/-- **`Xyz → Luv → Xyz` is finite for every real XYZ colour** (any sign, any magnitude), for every white point with `Yₙ > 0` and
    `Xₙ + 15Yₙ + 3Zₙ > 0`: the image of the first edge lies in the hypothesis set of the second (`comp_finite`) -/
theorem xyz_luv_xyz_finite (w c : V3 ℝ) (h1 : 0 < w.c1) (hd : 0 < w.c0 + 15 * w.c1 + 3 * w.c2) :
    (Cie.luvToXyz w.lift (Cie.xyzToLuv w.lift c.lift)).Finite := by
  obtain ⟨r, hr, hv⟩ := xyzToLuv_image w c h1 hd
  rw [hr]
  exact luvToXyz_finite_partial w r hd.ne' (hv.imp id (fun h => by rw [vPrimeOf_eq] at h; exact h))

/-- instantiated for D65 -/
theorem xyz_luv_xyz_finite_d65 (c : V3 ℝ) :
    (runEdges [Cie.xyzToLuv (Color.whitePoint "D65"), Cie.luvToXyz (Color.whitePoint "D65")] c.lift).Finite := by
  simp only [runEdges, whitePoint_D65]
  exact xyz_luv_xyz_finite d65 c (by norm_num [d65]) (by norm_num [d65])

end C07
