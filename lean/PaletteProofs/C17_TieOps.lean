/-
  C17 — at `Mask = bool` the mask-generic bodies are the hand model's functions.

  (a) `model_<name>`: `Gen.BodyV.<name>` (re-translated from the Rust text on every run) at the scalar representation *is* the hand
      model function the driver executes and C01/C02/C05/C08 reason about — `TieV.tieV_<name>` composed with `Tie.tie_<name>`.
  (b) the hand-written mask-generic bodies of `PaletteModel/SimdOps.lean` (trait-dispatched glue, operators, blending pipeline) at the
      scalar representation — with `Clamp::clamp` = `f32::clamp` (`Scalar.clamp`) — are the functions of `Color/RgbFamily.lean`,
      `Color/Ok.lean`, `Color/Cie.lean`, `Ops.lean`, `Blend.lean`.
  All law-free: every `[Scalar α]`, hence `Float32`, `Float`, `ℝ` alike; unfolding, `if decide p = true …` = `if p …`, list induction.
-/
import PaletteModel.SimdOps
import PaletteProofs.C17_TieV

namespace TieV
open Simd
variable {α : Type} [Scalar α]

/-! ## (a) translated bodies: mask-generic reading at `bool` = hand model -/

theorem model_normalizeUnsigned : @Gen.BodyV.angleNormalizeUnsigned α Bool _ = RgbFam.normalizeUnsigned := rfl
theorem model_hueIntoPositiveDegrees : @Gen.BodyV.hueIntoPositiveDegrees α Bool _ = RgbFam.normalizeUnsigned := rfl
theorem model_xyzToYxy : @Gen.BodyV.xyzToYxy α Bool _ = Cie.xyzToYxy := tieV_xyzToYxy.trans Tie.tie_xyzToYxy
theorem model_yxyToXyz : @Gen.BodyV.yxyToXyz α Bool _ = Cie.yxyToXyz := tieV_yxyToXyz.trans Tie.tie_yxyToXyz
theorem model_xyzToLab : @Gen.BodyV.xyzToLab α Bool _ = Cie.xyzToLab := tieV_xyzToLab.trans Tie.tie_xyzToLab
theorem model_labToXyz : @Gen.BodyV.labToXyz α Bool _ = Cie.labToXyz := tieV_labToXyz.trans Tie.tie_labToXyz
theorem model_rgbToHsvMask : @Gen.BodyV.rgbToHsvMask α Bool _ = RgbFam.rgbToHsvMask := tieV_rgbToHsvMask.trans Tie.tie_rgbToHsvMask
theorem model_rgbToHslMask : @Gen.BodyV.rgbToHslMask α Bool _ = RgbFam.rgbToHslMask := tieV_rgbToHslMask.trans Tie.tie_rgbToHslMask
theorem model_hsvToRgb : @Gen.BodyV.hsvToRgb α Bool _ = RgbFam.hsvToRgb := tieV_hsvToRgb.trans Tie.tie_hsvToRgb
theorem model_hslToRgb : @Gen.BodyV.hslToRgb α Bool _ = RgbFam.hslToRgb := tieV_hslToRgb.trans Tie.tie_hslToRgb
theorem model_hslToHsv : @Gen.BodyV.hslToHsv α Bool _ = RgbFam.hslToHsv := tieV_hslToHsv.trans Tie.tie_hslToHsv
theorem model_hsvToHsl : @Gen.BodyV.hsvToHsl α Bool _ = RgbFam.hsvToHsl := tieV_hsvToHsl.trans Tie.tie_hsvToHsl
theorem model_hsvToHwb : @Gen.BodyV.hsvToHwb α Bool _ = RgbFam.hsvToHwb := tieV_hsvToHwb.trans Tie.tie_hsvToHwb
theorem model_hwbToHsv : @Gen.BodyV.hwbToHsv α Bool _ = RgbFam.hwbToHsv := tieV_hwbToHsv.trans Tie.tie_hwbToHsv
theorem model_srgbIntoLinear : @Gen.BodyV.srgbIntoLinear α Bool _ _ = Transfer.srgbIntoLinear := tieV_srgbIntoLinear.trans Tie.tie_srgbIntoLinear
theorem model_srgbFromLinear : @Gen.BodyV.srgbFromLinear α Bool _ _ = Transfer.srgbFromLinear := tieV_srgbFromLinear.trans Tie.tie_srgbFromLinear
theorem model_recIntoLinear : @Gen.BodyV.recIntoLinear α Bool _ _ = Transfer.recIntoLinear := tieV_recIntoLinear.trans Tie.tie_recIntoLinear
theorem model_recFromLinear : @Gen.BodyV.recFromLinear α Bool _ _ = Transfer.recFromLinear := tieV_recFromLinear.trans Tie.tie_recFromLinear
theorem model_adobeIntoLinear : @Gen.BodyV.adobeIntoLinear α Bool _ = Transfer.adobeIntoLinear := tieV_adobeIntoLinear.trans Tie.tie_adobeIntoLinear
theorem model_adobeFromLinear : @Gen.BodyV.adobeFromLinear α Bool _ = Transfer.adobeFromLinear := tieV_adobeFromLinear.trans Tie.tie_adobeFromLinear
theorem model_p3IntoLinear : @Gen.BodyV.p3IntoLinear α Bool _ = Transfer.p3IntoLinear := tieV_p3IntoLinear.trans Tie.tie_p3IntoLinear
theorem model_p3FromLinear : @Gen.BodyV.p3FromLinear α Bool _ = Transfer.p3FromLinear := tieV_p3FromLinear.trans Tie.tie_p3FromLinear
theorem model_prophotoIntoLinear : @Gen.BodyV.prophotoIntoLinear α Bool _ = Transfer.prophotoIntoLinear := tieV_prophotoIntoLinear.trans Tie.tie_prophotoIntoLinear
theorem model_prophotoFromLinear : @Gen.BodyV.prophotoFromLinear α Bool _ = Transfer.prophotoFromLinear := tieV_prophotoFromLinear.trans Tie.tie_prophotoFromLinear
theorem model_gammaIntoLinear : @Gen.BodyV.gammaIntoLinear α Bool _ = Transfer.gammaIntoLinear := tieV_gammaIntoLinear.trans Tie.tie_gammaIntoLinear
theorem model_gammaFromLinear : @Gen.BodyV.gammaFromLinear α Bool _ = Transfer.gammaFromLinear := tieV_gammaFromLinear.trans Tie.tie_gammaFromLinear
theorem model_matMulVec : @Gen.BodyV.matMulVec α Bool _ = M3.mulVec := tieV_matMulVec.trans Tie.tie_matMulVec
theorem model_xyzToOklab : @Gen.BodyV.xyzToOklab α Bool _ = Ok.xyzToOklab := tieV_xyzToOklab.trans Tie.tie_xyzToOklab
theorem model_oklabToXyz : @Gen.BodyV.oklabToXyz α Bool _ = Ok.oklabToXyz := tieV_oklabToXyz.trans Tie.tie_oklabToXyz
theorem model_linSrgbToOklab : @Gen.BodyV.linSrgbToOklab α Bool _ = Ok.linSrgbToOklab := tieV_linSrgbToOklab.trans Tie.tie_linSrgbToOklab
theorem model_oklabToLinSrgb : @Gen.BodyV.oklabToLinSrgb α Bool _ = Ok.oklabToLinSrgb := tieV_oklabToLinSrgb.trans Tie.tie_oklabToLinSrgb
theorem model_okhsvToOkhwb : @Gen.BodyV.okhsvToOkhwb α Bool _ = Ok.okhsvToOkhwb := tieV_okhsvToOkhwb.trans Tie.tie_okhsvToOkhwb
theorem model_okhwbToOkhsv : @Gen.BodyV.okhwbToOkhsv α Bool _ = Ok.okhwbToOkhsv := tieV_okhwbToOkhsv.trans Tie.tie_okhwbToOkhsv
section angle
variable [Angle α]
theorem model_hueFromCartesian : @Gen.BodyV.hueFromCartesian α Bool _ _ = Cie.hueFromCartesian := tieV_hueFromCartesian.trans Tie.tie_hueFromCartesian
theorem model_hueIntoCartesian : @Gen.BodyV.hueIntoCartesian α Bool _ _ = Ok.hueIntoCartesian := tieV_hueIntoCartesian.trans Tie.tie_hueIntoCartesian
theorem model_labToLch : @Gen.BodyV.labToLch α Bool _ _ = Cie.labToLch := tieV_labToLch.trans Tie.tie_labToLch
theorem model_lchToLab : @Gen.BodyV.lchToLab α Bool _ _ = Cie.lchToLab := tieV_lchToLab.trans Tie.tie_lchToLab
theorem model_luvToLchuv : @Gen.BodyV.luvToLchuv α Bool _ _ = Cie.luvToLchuv := tieV_luvToLchuv.trans Tie.tie_luvToLchuv
theorem model_lchuvToLuv : @Gen.BodyV.lchuvToLuv α Bool _ _ = Cie.lchuvToLuv := tieV_lchuvToLuv.trans Tie.tie_lchuvToLuv
theorem model_oklabToOklch : @Gen.BodyV.oklabToOklch α Bool _ _ = Ok.oklabToOklch := tieV_oklabToOklch.trans Tie.tie_oklabToOklch
theorem model_oklchToOklab : @Gen.BodyV.oklchToOklab α Bool _ _ = Ok.oklchToOklab := tieV_oklchToOklab.trans Tie.tie_oklchToOklab
end angle

/-! ## (b) glue -/

theorem model_m3OfK : @m3OfK α Bool _ = M3.ofK := by
  funext l
  rcases l with _ | ⟨a, _ | ⟨b, _ | ⟨c, _ | ⟨d, _ | ⟨e, _ | ⟨f, _ | ⟨g, _ | ⟨h, _ | ⟨i, _ | ⟨j, t⟩⟩⟩⟩⟩⟩⟩⟩⟩⟩ <;> rfl
theorem model_v3OfK : @v3OfK α Bool _ = Color.v3OfK := by
  funext l
  rcases l with _ | ⟨a, _ | ⟨b, _ | ⟨c, _ | ⟨d, t⟩⟩⟩⟩ <;> rfl
theorem model_kAt : @kAtV α Bool _ = Ok.kAt := rfl

theorem model_intoLinear : @SimdOps.intoLinear α Bool _ _ = Transfer.intoLinear := by
  funext tf; cases tf
  · exact model_srgbIntoLinear
  · exact model_recIntoLinear
  · exact model_adobeIntoLinear
  · exact model_p3IntoLinear
  · exact model_prophotoIntoLinear
  · exact model_gammaIntoLinear
  · rfl
theorem model_fromLinear : @SimdOps.fromLinear α Bool _ _ = Transfer.fromLinear := by
  funext tf; cases tf
  · exact model_srgbFromLinear
  · exact model_recFromLinear
  · exact model_adobeFromLinear
  · exact model_p3FromLinear
  · exact model_prophotoFromLinear
  · exact model_gammaFromLinear
  · rfl

theorem model_rgbIntoLinear : @SimdOps.rgbIntoLinear α Bool _ _ = RgbFam.intoLinear := by
  funext tf c; unfold SimdOps.rgbIntoLinear RgbFam.intoLinear; rw [model_intoLinear]
theorem model_rgbFromLinear : @SimdOps.rgbFromLinear α Bool _ _ = RgbFam.fromLinear := by
  funext tf c; unfold SimdOps.rgbFromLinear RgbFam.fromLinear; rw [model_fromLinear]
theorem model_rgbToXyz : @SimdOps.rgbToXyz α Bool _ _ = RgbFam.rgbToXyz := by
  funext m tf c; unfold SimdOps.rgbToXyz RgbFam.rgbToXyz; rw [model_matMulVec, model_m3OfK, model_rgbIntoLinear]
theorem model_xyzToRgb : @SimdOps.xyzToRgb α Bool _ _ = RgbFam.xyzToRgb := by
  funext m tf c; unfold SimdOps.xyzToRgb RgbFam.xyzToRgb; rw [model_matMulVec, model_m3OfK, model_rgbFromLinear]
theorem model_rgbToRgb : @SimdOps.rgbToRgb α Bool _ _ = RgbFam.rgbToRgb := by
  funext s d c; unfold SimdOps.rgbToRgb RgbFam.rgbToRgb; rw [model_rgbToXyz, model_xyzToRgb, model_rgbIntoLinear, model_rgbFromLinear]
theorem model_xyzToLms : @SimdOps.xyzToLms α Bool _ = Cie.xyzToLms := by
  funext l c; unfold SimdOps.xyzToLms Cie.xyzToLms; rw [model_matMulVec, model_m3OfK]
theorem model_lmsToXyz : @SimdOps.lmsToXyz α Bool _ = Cie.lmsToXyz := by
  funext l c; unfold SimdOps.lmsToXyz Cie.lmsToXyz; rw [model_matMulVec, model_m3OfK]
section oklab
theorem model_rgbToOklab : @SimdOps.rgbToOklab α Bool _ _ = Ok.rgbToOklab := by
  funext sp tf c; unfold SimdOps.rgbToOklab Ok.rgbToOklab Ok.rgbToXyzHard
  rw [model_linSrgbToOklab, model_xyzToOklab, model_matMulVec, model_m3OfK, model_intoLinear]
theorem model_oklabToRgb : @SimdOps.oklabToRgb α Bool _ _ = Ok.oklabToRgb := by
  funext sp tf c; unfold SimdOps.oklabToRgb Ok.oklabToRgb Ok.xyzToRgbHard
  rw [model_oklabToLinSrgb, model_oklabToXyz, model_matMulVec, model_m3OfK, model_fromLinear]
end oklab
/-! Luma edges -/
theorem model_whitePoint : @SimdOps.whitePoint α Bool _ = Color.whitePoint := by
  funext name; unfold SimdOps.whitePoint Color.whitePoint
  cases Gen.Mat.whitePoints.find? (·.1 == name) with
  | none => rfl
  | some p => show v3OfK p.2 = Color.v3OfK p.2; rw [model_v3OfK]
theorem model_lumaToLuma : @SimdOps.lumaToLuma α Bool _ _ = RgbFam.lumaToLuma := by
  funext s d c; unfold SimdOps.lumaToLuma RgbFam.lumaToLuma; rw [model_intoLinear, model_fromLinear]; rfl
theorem model_xyzToLuma : @SimdOps.xyzToLuma α Bool _ _ = RgbFam.xyzToLuma := by
  funext d c; unfold SimdOps.xyzToLuma RgbFam.xyzToLuma; rw [model_fromLinear]; rfl
theorem model_yxyToLuma : @SimdOps.yxyToLuma α Bool _ _ = RgbFam.yxyToLuma := by
  funext d c; unfold SimdOps.yxyToLuma RgbFam.yxyToLuma; rw [model_fromLinear]; rfl
theorem model_lumaToXyz : @SimdOps.lumaToXyz α Bool _ _ = RgbFam.lumaToXyz := by
  funext s c; unfold SimdOps.lumaToXyz RgbFam.lumaToXyz; rw [model_intoLinear, model_whitePoint]
theorem model_lumaToYxy : @SimdOps.lumaToYxy α Bool _ _ = RgbFam.lumaToYxy := by
  funext s c; unfold SimdOps.lumaToYxy RgbFam.lumaToYxy; rw [model_intoLinear, model_whitePoint, model_xyzToYxy]
theorem model_lumaToRgb : @SimdOps.lumaToRgb α Bool _ _ = RgbFam.lumaToRgb := by
  funext s d c; unfold SimdOps.lumaToRgb RgbFam.lumaToRgb; rw [model_intoLinear, model_rgbFromLinear]

/-- `Hwb ← Rgb` through the mask-generic `Hsv ← Rgb` -/
theorem model_rgbToHwb (c : V3 α) : @SimdOps.rgbToHwb α Bool _ c = RgbFam.hsvToHwb (RgbFam.rgbToHsvMask c) := by
  unfold SimdOps.rgbToHwb; rw [model_hsvToHwb, model_rgbToHsvMask]
theorem model_hwbToRgb (c : V3 α) : @SimdOps.hwbToRgb α Bool _ c = RgbFam.hsvToRgb (RgbFam.hwbToHsv c) := by
  unfold SimdOps.hwbToRgb; rw [model_hsvToRgb, model_hwbToHsv]

/-! ## (b) operators -/

theorem model_addC : @SimdOps.addC α Bool _ = Ops.addC := by
  funext a b; induction a generalizing b with
  | nil => rfl
  | cons x xs ih => cases b with
    | nil => rfl
    | cons y ys => show (x + y) :: SimdOps.addC xs ys = (x + y) :: Ops.addC xs ys; rw [ih]
theorem model_subC : @SimdOps.subC α Bool _ = Ops.subC := by
  funext a b; induction a generalizing b with
  | nil => rfl
  | cons x xs ih => cases b with
    | nil => rfl
    | cons y ys => show (x - y) :: SimdOps.subC xs ys = (x - y) :: Ops.subC xs ys; rw [ih]
theorem model_mulC : @SimdOps.mulC α Bool _ = Ops.mulC := by
  funext a b; induction a generalizing b with
  | nil => rfl
  | cons x xs ih => cases b with
    | nil => rfl
    | cons y ys => show (x * y) :: SimdOps.mulC xs ys = (x * y) :: Ops.mulC xs ys; rw [ih]
theorem model_divC : @SimdOps.divC α Bool _ = Ops.divC := by
  funext a b; induction a generalizing b with
  | nil => rfl
  | cons x xs ih => cases b with
    | nil => rfl
    | cons y ys => show (x / y) :: SimdOps.divC xs ys = (x / y) :: Ops.divC xs ys; rw [ih]
theorem model_addS : @SimdOps.addS α Bool _ = Ops.addS := rfl
theorem model_subS : @SimdOps.subS α Bool _ = Ops.subS := rfl
theorem model_mulS : @SimdOps.mulS α Bool _ = Ops.mulS := rfl
theorem model_divS : @SimdOps.divS α Bool _ = Ops.divS := rfl

/-- `Mix::mix` for the linear colour types, with the scalar `clamp` -/
theorem model_mixLin : @SimdOps.mixLin α Bool _ Scalar.clamp = Ops.mixLin := by
  funext a b f; unfold SimdOps.mixLin Ops.mixLin; rw [model_addC, model_subC, model_mulS]; rfl

theorem model_diffC : @SimdOps.diffC α Bool _ = Ops.diffC := by
  funext r a b; cases r <;> rfl
theorem model_diffs : @SimdOps.diffs α Bool _ = Ops.diffs := by
  funext r a b; induction r generalizing a b with
  | nil => cases a <;> cases b <;> rfl
  | cons r rs ih => cases a with
    | nil => rfl
    | cons x xs => cases b with
      | nil => rfl
      | cons y ys => show SimdOps.diffC r x y :: SimdOps.diffs rs xs ys = Ops.diffC r x y :: Ops.diffs rs xs ys; rw [ih, model_diffC]
/-- `Mix::mix` for the hue types -/
theorem model_mixHue : @SimdOps.mixHue α Bool _ Scalar.clamp = Ops.mixHue := by
  funext r a b f; unfold SimdOps.mixHue Ops.mixHue; rw [model_diffs]; rfl

theorem model_incDelta : @SimdOps.incDelta α Bool _ = Ops.incDelta := by
  funext hi c f; unfold SimdOps.incDelta Ops.incDelta; tie_v
theorem model_incDeltas : @SimdOps.incDeltas α Bool _ = Ops.incDeltas := by
  funext s c f; induction s generalizing c with
  | nil => cases c <;> rfl
  | cons s ss ih => cases c with
    | nil => cases s <;> rfl
    | cons x xs => cases s with
      | increase lo hi => show SimdOps.incDelta hi x f :: SimdOps.incDeltas ss xs f = Ops.incDelta hi x f :: Ops.incDeltas ss xs f; rw [ih, model_incDelta]
      | other => show x :: SimdOps.incDeltas ss xs f = x :: Ops.incDeltas ss xs f; rw [ih]
theorem model_incBuild : @SimdOps.incBuild α Bool _ Scalar.clamp = Ops.incBuild := by
  funext s c d; induction s generalizing c d with
  | nil => cases c <;> cases d <;> rfl
  | cons s ss ih => cases c with
    | nil => cases s <;> cases d <;> rfl
    | cons x xs => cases d with
      | nil => cases s <;> rfl
      | cons y ys => cases s with
        | increase lo hi => show Scalar.clamp (x + y) lo hi :: SimdOps.incBuild Scalar.clamp ss xs ys = Scalar.clamp (x + y) lo hi :: Ops.incBuild ss xs ys; rw [ih]
        | other => show x :: SimdOps.incBuild Scalar.clamp ss xs ys = x :: Ops.incBuild ss xs ys; rw [ih]
/-- `Lighten::lighten`, `Saturate::saturate` … -/
theorem model_incValue : @SimdOps.incValue α Bool _ Scalar.clamp = Ops.incValue := by
  funext s c f; unfold SimdOps.incValue Ops.incValue; rw [model_incBuild, model_incDeltas]
/-- … `Darken::darken`, `Desaturate::desaturate` -/
theorem model_decValue : @SimdOps.decValue α Bool _ Scalar.clamp = Ops.decValue := by
  funext s c f; unfold SimdOps.decValue Ops.decValue; rw [model_incValue]
/-- `impl_lighten_hwb!::lighten` -/
theorem model_hwbLighten : @SimdOps.hwbLighten α Bool _ = Ops.hwbLighten := by
  funext l w b f; unfold SimdOps.hwbLighten Ops.hwbLighten; tie_v
theorem model_shiftHue : @SimdOps.shiftHue α Bool _ = Ops.shiftHue := rfl

/-! ## (b) blending and compositing -/

theorem model_modeFn : @SimdOps.modeFn α Bool _ = Blend.Mode.fn := by
  funext m; cases m
  · exact tieV_multiplyBlend
  · exact tieV_screenBlend
  · exact tieV_overlayBlend
  · exact tieV_darkenBlend
  · exact tieV_lightenBlend
  · exact tieV_dodgeBlend
  · exact tieV_burnBlend
  · exact tieV_hardLightBlend
  · exact tieV_softLightBlend
  · exact tieV_differenceBlend
  · exact tieV_exclusionBlend

theorem model_blendAlpha : @SimdOps.blendAlpha α Bool _ Scalar.clamp = Blend.blendAlpha := rfl
theorem model_premultiply : @SimdOps.premultiply α Bool _ = Blend.premultiply := rfl
theorem model_unpremulC : @SimdOps.unpremulC α Bool _ = Blend.unpremulC := rfl
theorem model_unpremultiply : @SimdOps.unpremultiply α Bool _ = Blend.unpremultiply := rfl
theorem model_blendComp : @SimdOps.blendComp α Bool _ = Blend.blendComp := rfl
theorem model_blendList : @SimdOps.blendList α Bool _ = Blend.blendList := by
  funext f sa da a b c d; induction a generalizing b c d with
  | nil => rfl
  | cons x xs ih =>
    cases b with
    | nil => rfl
    | cons y ys => cases c with
      | nil => rfl
      | cons z zs => cases d with
        | nil => rfl
        | cons w ws =>
          show SimdOps.blendComp f sa da x y z w :: SimdOps.blendList f sa da xs ys zs ws = Blend.blendComp f sa da x y z w :: Blend.blendList f sa da xs ys zs ws
          rw [ih]; rfl

/-- the mask-generic `BlendInput` and the hand model's are the same record -/
def toBI (b : SimdOps.BlendInput α) : Blend.BlendInput α := ⟨b.color, b.colorPre, b.alpha⟩

theorem model_blendSeparable (f : α → α → α) (s d : SimdOps.BlendInput α) :
    @SimdOps.blendSeparable α Bool _ Scalar.clamp f s d = Blend.blendSeparable f (toBI s) (toBI d) := by
  unfold SimdOps.blendSeparable Blend.blendSeparable toBI; rw [model_blendList]; rfl
/-- `impl Blend for PreAlpha<C>` -/
theorem model_blendPre (f : α → α → α) (s d : List α × α) : @SimdOps.blendPre α Bool _ Scalar.clamp f s d = Blend.blendPre f s d := by
  unfold SimdOps.blendPre Blend.blendPre; rw [model_blendSeparable]; rfl
/-- `impl Blend for C` -/
theorem model_blendOpaque (f : α → α → α) (s d : List α) : @SimdOps.blendOpaque α Bool _ Scalar.clamp f s d = Blend.blendOpaque f s d := by
  unfold SimdOps.blendOpaque Blend.blendOpaque; rw [model_blendSeparable]; rfl
/-- `impl Blend for Alpha<C, T>` -/
theorem model_blendStraight (f : α → α → α) (s d : List α × α) : @SimdOps.blendStraight α Bool _ Scalar.clamp f s d = Blend.blendStraight f s d := by
  unfold SimdOps.blendStraight Blend.blendStraight; rw [model_blendSeparable]; rfl

theorem model_opComp : @SimdOps.opComp α Bool _ = Blend.Op.comp := by
  funext op; cases op <;> rfl
theorem model_opAlpha : @SimdOps.opAlpha α Bool _ Scalar.clamp = Blend.Op.alpha := by
  funext op; cases op <;> rfl
theorem model_composeList : @SimdOps.composeList α Bool _ = Blend.composeList := by
  funext op sa da a b; induction a generalizing b with
  | nil => rfl
  | cons x xs ih => cases b with
    | nil => rfl
    | cons y ys =>
      show SimdOps.opComp op sa da x y :: SimdOps.composeList op sa da xs ys = Blend.Op.comp op sa da x y :: Blend.composeList op sa da xs ys
      rw [ih, model_opComp]
/-- `impl Compose for PreAlpha<C>` -/
theorem model_composePre : @SimdOps.composePre α Bool _ Scalar.clamp = Blend.composePre := by
  funext op s d; unfold SimdOps.composePre Blend.composePre; rw [model_composeList, model_opAlpha]
/-- `impl Compose for Alpha<C, T>` -/
theorem model_composeStraight : @SimdOps.composeStraight α Bool _ Scalar.clamp = Blend.composeStraight := by
  funext op s d; unfold SimdOps.composeStraight Blend.composeStraight Blend.viaStraight; rw [model_composePre]; rfl
/-- `impl Compose for C` -/
theorem model_composeOpaque : @SimdOps.composeOpaque α Bool _ Scalar.clamp = Blend.composeOpaque := by
  funext op s d; unfold SimdOps.composeOpaque Blend.composeOpaque Blend.viaOpaque; rw [model_composePre]; rfl

end TieV
