/-
  C03 — one bounds contract for clamp / checked / unclamped.

  Order-only statements are proved over an arbitrary `LinearOrder`, so they hold with no rounding residual for the
  integer component types and for non-NaN floats; the HWB statements over an arbitrary linearly ordered field.
-/
import PaletteModel.Clamp
import PaletteModel.Gen.Bounds
import Mathlib.Order.Basic
import Mathlib.Algebra.Order.Field.Basic
import Mathlib.Tactic.Linarith
import Mathlib.Tactic.FieldSimp
import Mathlib.Tactic.Positivity
import Mathlib.Tactic.NormNum
import Mathlib.Tactic.Ring

namespace C03
open Clamp

section order
variable {α : Type} [LinearOrder α]

/-- a bound is well-formed when `lo ≤ hi` (true of every accessor pair; checked against the running crate by the harness) -/
def Bound.WF : Bound α → Prop
  | .both lo hi => lo ≤ hi
  | _ => True

theorem within_clampC (v : α) (b : Bound α) (h : Bound.WF b) : withinC (clampC v b) b = true := by
  cases b with
  | both lo hi =>
    simp only [Bound.WF] at h
    simp only [clampC, clampV, withinC]
    split_ifs with h1 h2 <;> simp only [Bool.and_eq_true, decide_eq_true_eq]
    · exact ⟨le_refl _, h⟩
    · exact ⟨h, le_refl _⟩
    · exact ⟨not_lt.mp h1, not_lt.mp h2⟩
  | minOnly lo =>
    simp only [clampC, clampMinV, withinC]
    split_ifs with h1 <;> simp only [decide_eq_true_eq]
    · exact le_refl _
    · exact not_lt.mp h1
  | untouched => rfl

theorem clampC_of_within (v : α) (b : Bound α) (h : withinC v b = true) : clampC v b = v := by
  cases b with
  | both lo hi =>
    simp only [withinC, Bool.and_eq_true, decide_eq_true_eq] at h
    simp only [clampC, clampV, if_neg (not_lt.mpr h.1), if_neg (not_lt.mpr h.2)]
  | minOnly lo =>
    simp only [withinC, decide_eq_true_eq] at h
    simp only [clampC, clampMinV, if_neg (not_lt.mpr h)]
  | untouched => rfl

/-- **clamping returns a colour that reports itself as within bounds** (any number of components, any bounds table) -/
theorem within_clampAll : ∀ (vs : List α) (bs : List (Bound α)), (∀ b ∈ bs, Bound.WF b) → withinAll (clampAll vs bs) bs = true
  | [], _, _ => by cases ‹List (Bound α)› <;> simp [clampAll, withinAll]
  | v :: vs, [], _ => by simp [clampAll, withinAll]
  | v :: vs, b :: bs, h => by
    simp only [clampAll, withinAll, Bool.and_eq_true]
    exact ⟨within_clampC v b (h b (List.mem_cons_self ..)), within_clampAll vs bs (fun b' hb' => h b' (List.mem_cons_of_mem _ hb'))⟩

/-- **an in-bounds colour is left unchanged** -/
theorem clampAll_of_within : ∀ (vs : List α) (bs : List (Bound α)), withinAll vs bs = true → clampAll vs bs = vs
  | [], bs, _ => by cases bs <;> simp [clampAll]
  | v :: vs, [], _ => by simp [clampAll]
  | v :: vs, b :: bs, h => by
    simp only [withinAll, Bool.and_eq_true] at h
    simp only [clampAll, clampC_of_within v b h.1, clampAll_of_within vs bs h.2]

/-- **idempotent** -/
theorem clampAll_idem (vs : List α) (bs : List (Bound α)) (h : ∀ b ∈ bs, Bound.WF b) :
    clampAll (clampAll vs bs) bs = clampAll vs bs :=
  clampAll_of_within _ _ (within_clampAll vs bs h)

/-- components that are not listed in the macro invocation are untouched, and the length never changes -/
theorem clampAll_length : ∀ (vs : List α) (bs : List (Bound α)), (clampAll vs bs).length = vs.length
  | [], bs => by cases bs <;> simp [clampAll]
  | v :: vs, [] => by simp [clampAll]
  | v :: vs, b :: bs => by simp [clampAll, clampAll_length vs bs]

theorem clampC_untouched (v : α) : clampC v (.untouched : Bound α) = v := rfl

/-- the clamped value lies between the documented bounds -/
theorem clampC_mem (v lo hi : α) (h : lo ≤ hi) : lo ≤ clampC v (.both lo hi) ∧ clampC v (.both lo hi) ≤ hi := by
  have := within_clampC v (.both lo hi) h
  simpa [withinC] using this

/-- **checked conversion**: succeeds exactly when the unclamped result is within bounds, returns that same value, and otherwise
    hands the same value back inside the error -/
theorem tryFrom_ok_iff (u : List α) (bs : List (Bound α)) : tryFrom u bs = .ok u ↔ withinAll u bs = true := by
  unfold tryFrom; split <;> simp_all
theorem tryFrom_err_iff (u : List α) (bs : List (Bound α)) : tryFrom u bs = .error u ↔ withinAll u bs = false := by
  unfold tryFrom; split <;> simp_all
theorem tryFrom_total (u : List α) (bs : List (Bound α)) : tryFrom u bs = .ok u ∨ tryFrom u bs = .error u := by
  unfold tryFrom; split <;> simp

/-- **clamping conversion = unclamped conversion followed by clamping** (definitional in the model; that the code has this
    shape for every type pair is what the correspondence/oracle run checks), and its result is within bounds -/
theorem fromColor_eq (u : List α) (bs : List (Bound α)) : fromColor u bs = clampAll u bs := rfl
theorem fromColor_within (u : List α) (bs : List (Bound α)) (h : ∀ b ∈ bs, Bound.WF b) : withinAll (fromColor u bs) bs = true :=
  within_clampAll u bs h

/-- slices: `clamp_assign` on `[T]` is `map clamp`; Alpha: colour and alpha are clamped separately — i.e. the bounds table of
    `Alpha<C>` is the table of `C` with one more `both 0 max` entry, and all theorems above apply to it unchanged -/
theorem alpha_clamp (vs : List α) (a : α) (bs : List (Bound α)) (lo hi : α) (hl : vs.length = bs.length) :
    clampAll (vs ++ [a]) (bs ++ [.both lo hi]) = clampAll vs bs ++ [clampV a lo hi] := by
  induction vs generalizing bs with
  | nil => cases bs with
    | nil => simp [clampAll, clampC]
    | cons b bs => simp at hl
  | cons v vs ih => cases bs with
    | nil => simp at hl
    | cons b bs => simp only [List.cons_append, clampAll, ih bs (by simpa using hl)]

/-- non-vacuity: a concrete out-of-range colour, clamped, within, fixed point -/
example : clampAll [300, 7, 0] [Bound.both (0:Int) 255, .minOnly 10, .untouched] = [255, 10, 0] := by decide
example : withinAll [255, 10, 0] [Bound.both (0:Int) 255, .minOnly 10, .untouched] = true := by decide
end order

/-! ## both macros are invoked with the same component lists and the same bound expressions (decided on the extracted table) -/

/-- for every bounded type: `impl_is_within_bounds!` and `impl_clamp!` list the same components, in the same order, with the
    same `min` and `max` expressions (`None` ⇔ lower bound only) -/
theorem same_bounds_both_sides : Gen.Bounds.entries.all (fun e => e.2.1 == e.2.2) = true := by decide +kernel

theorem bounded_types_present : Gen.Bounds.entries.length ≥ 20 ∧
    Gen.Bounds.hwbEntries = [("Hwb@hwb.rs", true, true), ("Okhwb@okhwb/properties.rs", true, true)] := by decide +kernel

/-- the macro bodies the model transcribes (normalised text, regenerated from `macros/clamp.rs` on every run) -/
theorem macro_bodies :
    Gen.Bounds.clampBody = "Self { $($component: _clamp_value!(self.$component, $get_min $(, $get_max)?),)+ $($($other: self.$other,)+)? }" ∧
    Gen.Bounds.withinBody = "$( self.$component.gt_eq(&$get_min) & Option::from($get_max).map_or(crate::BoolMask::from_bool(true), |max|self.$component.lt_eq(&max)) )&+" ∧
    Gen.Bounds.hwbWithinBody = "self.blackness.gt_eq(&Self::min_blackness()) & self.blackness.lt_eq(&Self::max_blackness()) & self.whiteness.gt_eq(&Self::min_whiteness()) & self.whiteness.lt_eq(&Self::max_blackness()) & (self.whiteness.clone() + self.blackness.clone()).lt_eq(&T::max_intensity())" := by
  decide +kernel

/-! ## HWB / Okhwb: whiteness + blackness coupled — over any linearly ordered field -/

section hwb
variable {F : Type} [Field F] [LinearOrder F] [IsStrictOrderedRing F]

theorem hwbWithin_iff (w b : F) : hwbWithin (0:F) 1 w b = true ↔ (0 ≤ b ∧ b ≤ 1 ∧ 0 ≤ w ∧ w ≤ 1 ∧ w + b ≤ 1) := by
  simp only [hwbWithin, Bool.and_eq_true, decide_eq_true_eq]; tauto

/-- the part of `hwbClamp` after the two `clamp_min`s -/
def hwbCore (w' b' : F) : F × F :=
  let sum := b' + w'
  let d := if 1 < sum then sum else 1
  (w' / d, if 1 < sum then clampMaxV (b' / d) (1 - w' / d) else b' / d)

theorem hwbClamp_eq (w b : F) : hwbClamp (0:F) 1 w b = hwbCore (clampMinV w 0) (clampMinV b 0) := rfl

theorem clampMinV_nonneg (x : F) : (0:F) ≤ clampMinV x 0 := by
  unfold clampMinV; split_ifs with h; exacts [le_refl _, not_lt.mp h]

theorem hwbCore_hi (w' b' : F) (hs : (1:F) < b' + w') :
    hwbCore w' b' = (w' / (b' + w'), clampMaxV (b' / (b' + w')) (1 - w' / (b' + w'))) := by
  unfold hwbCore; simp only [if_pos hs]
theorem hwbCore_lo (w' b' : F) (hs : ¬ (1:F) < b' + w') : hwbCore w' b' = (w', b') := by
  unfold hwbCore; simp only [if_neg hs, div_one]

theorem hwbCore_within (w' b' : F) (hw : 0 ≤ w') (hb : 0 ≤ b') :
    hwbWithin (0:F) 1 (hwbCore w' b').1 (hwbCore w' b').2 = true := by
  rw [hwbWithin_iff]
  by_cases hs : (1:F) < b' + w'
  · have hpos : (0:F) < b' + w' := lt_trans one_pos hs
    have e : w' / (b' + w') + b' / (b' + w') = 1 := by field_simp; ring
    have hw2 : 0 ≤ w' / (b' + w') := div_nonneg hw hpos.le
    have hb2 : 0 ≤ b' / (b' + w') := div_nonneg hb hpos.le
    have hmin : ¬ (1 - w' / (b' + w') < b' / (b' + w')) := by rw [not_lt]; linarith
    rw [hwbCore_hi w' b' hs]
    simp only [clampMaxV, if_neg hmin]
    refine ⟨hb2, ?_, hw2, ?_, ?_⟩ <;> linarith
  · have hle : b' + w' ≤ 1 := not_lt.mp hs
    rw [hwbCore_lo w' b' hs]
    refine ⟨hb, ?_, hw, ?_, ?_⟩ <;> linarith

/-- **clamped HWB colours are within bounds** (whiteness, blackness ∈ [0,1] and whiteness + blackness ≤ 1), every input -/
theorem hwb_clamp_within (w b : F) : hwbWithin (0:F) 1 (hwbClamp 0 1 w b).1 (hwbClamp 0 1 w b).2 = true := by
  rw [hwbClamp_eq]; exact hwbCore_within _ _ (clampMinV_nonneg w) (clampMinV_nonneg b)

/-- **in-bounds HWB colours are unchanged** -/
theorem hwb_clamp_of_within (w b : F) (h : hwbWithin (0:F) 1 w b = true) : hwbClamp 0 1 w b = (w, b) := by
  rw [hwbWithin_iff] at h
  obtain ⟨hb0, _, hw0, _, hs⟩ := h
  have hs' : ¬ (1:F) < b + w := by rw [not_lt]; linarith
  have ew : clampMinV w (0:F) = w := by unfold clampMinV; rw [if_neg (not_lt.mpr hw0)]
  have eb : clampMinV b (0:F) = b := by unfold clampMinV; rw [if_neg (not_lt.mpr hb0)]
  rw [hwbClamp_eq, ew, eb, hwbCore_lo w b hs']

theorem hwb_clamp_idem (w b : F) :
    hwbClamp 0 1 (hwbClamp (0:F) 1 w b).1 (hwbClamp (0:F) 1 w b).2 = hwbClamp 0 1 w b :=
  hwb_clamp_of_within _ _ (hwb_clamp_within w b)

/-- D1 (repaired in /repo): with the divisor taken from the *unclamped* sum, as the by-value form did, the theorem is false -/
theorem d1_witness : hwbWithin (0:ℚ) 1 (hwbClampOld 0 1 (3/2) (-1/5)).1 (hwbClampOld 0 1 (3/2) (-1/5)).2 = false := by
  simp only [hwbClampOld, hwbWithin, clampMinV]; norm_num
/-- the same input under the repaired definition -/
example : hwbClamp (0:ℚ) 1 (3/2) (-1/5) = (1, 0) := by
  simp only [hwbClamp, clampMinV, clampMaxV]; norm_num
end hwb

end C03
