/-
  C17 — every place where the two representations run *different code*, and what relates the two.

  Lane = scalar is a theorem of `C17_Edges*` as long as both representations run the same generic text with operations that act lane
  by lane.  The places where they do not are finite, and listed here with the agreement of each pair in exact arithmetic (ℝ) and, where
  the kernel can evaluate it, a float witness of the difference:

  (1) `Rgb → Hsv`, `Rgb → Hsl`: `TypeId::of::<T::Mask>() == TypeId::of::<bool>()` selects a branching algorithm for `f32`/`f64` and a
      branch-free one otherwise.  `rust2lean.py` translates both branches of both functions (`Gen.Body.rgbToHsv` /
      `Gen.Body.rgbToHsvMask`, …; the only bodies registered twice), `rust2lean_simd.py` the mask-generic reading of the second.
      Here: the two *tied* bodies agree at ℝ for **every** rgb — same saturation, same value / lightness, hue equal up to the unsigned
      normal form — by reduction to `C17.hsv_mask_eq_scalar` / `hsl_mask_eq_scalar` (which are about `Simd.lean`'s own transcription).
      In floats they differ by rounding in the hue (oracle: ≤ 0.72 ε of 360°) and in the representative (−60° vs 300°: `magenta_hues`).
  (2) the angle helpers: `impl_angle_float!` (angle.rs) and `impl_angle_wide_float!` (angle/wide.rs) are two texts; their readings are
      *equal* for every `Scalar` (`TieV.tieV_angleNormalizeUnsigned`, `TieV.tieV_angleNormalizeSigned`: `rfl`) — no difference at all.
  (3) `Clamp::clamp`: `f32::clamp` (comparisons) vs `self.min(max).max(min)`: equal at ℝ iff-free whenever `lo ≤ hi`; in floats they
      differ on NaN (`clamp_nan_witness`).
  (4) `Neg`: IEEE negation vs `wide`'s `0 − x`: equal at ℝ; in floats they differ in the sign of a zero (`neg_zero_witness`), which is
      what makes `LabHue::from_cartesian(+0, +0)` = `π + atan2(−0, −0)` 0° in scalar code and `π + atan2(+0, +0)` = 180° in a SIMD lane
      (libm's `atan2(−0, −0) = −π`, `atan2(+0, +0) = +0`; chroma is 0 in both, the colour is the same).
  (5) `Hypot`: `f32::hypot` vs `(a·a + b·b).sqrt()`: the same function at ℝ (`hypot_pair_real`); in floats the second overflows /
      underflows earlier and rounds three times (oracle tolerance).
  (6) `MulAdd`: fused for `f32`/`f64`, `(x·m) + a` for `wide` without the `fma` target feature: equal at ℝ, one rounding apart in floats
      (`mulAdd_witness`).
  (7) `powf sin cos atan2 exp ln`, `to_degrees`/`to_radians`, `round`: `wide`'s own algorithms — nothing to prove, they are parameters
      (`withApprox`); their accuracy is measured by the oracle.
  Summary `wideFormula_agree_real`: at ℝ, the interpretation "scalar operations with (3)–(6) replaced by `wide`'s formulas" agrees with
  the scalar one on **every** operation, so for every mask-generic body the SIMD reading and the scalar reading are the same real
  function (`eval_wideFormula_real`).
-/
import PaletteProofs.C17_HueBranch
import PaletteProofs.C17_EdgesOps
import PaletteProofs.RealAngle

namespace C17
open Simd

/-! ## (1) the two `Rgb → Hsv` / `Rgb → Hsl` bodies -/

section lawfree
variable {α : Type} [Scalar α]
/-- the hand model of the scalar branch (`RgbFam.rgbToHsv`, tied to the Rust text by `Tie.tie_rgbToHsv`) is `Simd.lean`'s
    transcription of the same branch — law-free -/
theorem rgbToHsv_eq_scalar : @RgbFam.rgbToHsv α _ = Simd.rgbToHsvScalar := by
  funext c
  unfold RgbFam.rgbToHsv Simd.rgbToHsvScalar RgbFam.maxMinSep RgbFam.max0 Simd.hsvOfParts
  simp only []
  tie_cases
theorem rgbToHsl_eq_scalar : @RgbFam.rgbToHsl α _ = Simd.rgbToHslScalar := by
  funext c
  unfold RgbFam.rgbToHsl Simd.rgbToHslScalar RgbFam.maxMinSep RgbFam.max0 Simd.hslOfParts
  simp only []
  tie_cases
end lawfree

theorem const_neg4 : (VScalar.const (-4.0) : ℝ) = -(4.0 : ℝ) := by
  show (K.eval (-4.0) : ℝ) = _
  simp only [RealScalar.eval_neg]; rfl

/-- the mask-generic body re-translated from the Rust text is `Simd.lean`'s transcription (they spell `T::from_f64(-4.0)` as `-(4.0)`
    and as `const (-4.0)`: the same real number) -/
theorem bodyV_rgbToHsvMask_real (c : V3 ℝ) : Gen.BodyV.rgbToHsvMask c = Simd.rgbToHsvMask c := by
  unfold Gen.BodyV.rgbToHsvMask Simd.rgbToHsvMask Simd.maskHue
  simp -zeta only [const_neg4]
  rfl
theorem bodyV_rgbToHslMask_real (c : V3 ℝ) : Gen.BodyV.rgbToHslMask c = Simd.rgbToHslMask c := by
  unfold Gen.BodyV.rgbToHslMask Simd.rgbToHslMask Simd.maskHue
  simp -zeta only [const_neg4]
  rfl

/-- **Rgb → Hsv: the two hand-model functions that are tied to the two branches of the Rust function agree for every rgb** -/
theorem rgbToHsv_pair (c : V3 ℝ) : HsxAgree (RgbFam.rgbToHsv c) (RgbFam.rgbToHsvMask c) := by
  rw [rgbToHsv_eq_scalar, ← TieV.model_rgbToHsvMask, bodyV_rgbToHsvMask_real]
  exact hsv_mask_eq_scalar c
/-- **Rgb → Hsl** -/
theorem rgbToHsl_pair (c : V3 ℝ) : HsxAgree (RgbFam.rgbToHsl c) (RgbFam.rgbToHslMask c) := by
  rw [rgbToHsl_eq_scalar, ← TieV.model_rgbToHslMask, bodyV_rgbToHslMask_real]
  exact hsl_mask_eq_scalar c

/-- … stated on the translated texts themselves: the `T::Mask == bool` branch and the other branch of `hsv.rs` / `hsl.rs` -/
theorem body_rgbToHsv_pair (c : V3 ℝ) : HsxAgree (Gen.Body.rgbToHsv c) (Gen.Body.rgbToHsvMask c) := by
  rw [Tie.tie_rgbToHsv, Tie.tie_rgbToHsvMask]; exact rgbToHsv_pair c
theorem body_rgbToHsl_pair (c : V3 ℝ) : HsxAgree (Gen.Body.rgbToHsl c) (Gen.Body.rgbToHslMask c) := by
  rw [Tie.tie_rgbToHsl, Tie.tie_rgbToHslMask]; exact rgbToHsl_pair c

/-- **every lane of the SIMD conversion agrees with the scalar conversion of that lane's colour**, although the two run different
    algorithms: same saturation and value, hue in `[0°, 360°)` equal to the scalar hue or the scalar hue + 360° -/
theorem rgbToHsv_lanes_vs_scalar {n : Nat} (c : V3 (Lanes n ℝ)) (i : Fin n) :
    HsxAgree (RgbFam.rgbToHsv (unpack c i)) (unpack (Gen.BodyV.rgbToHsvMask c) i) := by
  rw [rgbToHsvMask_lanes]; exact rgbToHsv_pair _
theorem rgbToHsl_lanes_vs_scalar {n : Nat} (c : V3 (Lanes n ℝ)) (i : Fin n) :
    HsxAgree (RgbFam.rgbToHsl (unpack c i)) (unpack (Gen.BodyV.rgbToHslMask c) i) := by
  rw [rgbToHslMask_lanes]; exact rgbToHsl_pair _

/-- non-vacuity / the pair really differs: magenta, scalar hue −60°, mask hue 300° -/
example : (RgbFam.rgbToHsv (⟨1, 0, 1⟩ : V3 ℝ)).c0 = -60 ∧ (RgbFam.rgbToHsvMask (⟨1, 0, 1⟩ : V3 ℝ)).c0 = 300 := by
  have h := rgbToHsv_pair ⟨1, 0, 1⟩
  have hs : (RgbFam.rgbToHsv (⟨1, 0, 1⟩ : V3 ℝ)).c0 = -60 := by
    rw [rgbToHsv_eq_scalar, rgbToHsvScalar_core]
    have e : (max (1:ℝ) 0.0) = 1 := by norm_num
    have e0 : (max (0:ℝ) 0.0) = 0 := by norm_num
    simp only [e, e0]; exact magenta_hues.1
  refine ⟨hs, ?_⟩
  obtain ⟨_, _, h0, _, _⟩ := h
  rw [h0, hs]; unfold normU; norm_num

/-! ## (3) `Clamp::clamp` -/

/-- `f32::clamp` and `min` then `max` agree at ℝ whenever `lo ≤ hi` -/
theorem clamp_pair_real (v lo hi : ℝ) (h : lo ≤ hi) : clampMinMax v lo hi = Scalar.clamp v lo hi := clampMinMax_eq_clamp v lo hi h
theorem clamp01_real (v : ℝ) : clampMinMax v (0.0 : ℝ) 1.0 = Scalar.clamp v 0.0 1.0 := clamp_pair_real v _ _ (by norm_num)
theorem clamp01_real' (v : ℝ) : clampMinMax v (Ops.zero : ℝ) Ops.one = Scalar.clamp v Ops.zero Ops.one :=
  clamp_pair_real v _ _ (by show (0.0 : ℝ) ≤ 1.0; norm_num)
/-- for `lo > hi` they differ (so the hypothesis is needed): `clamp` returns `hi`, `min`/`max` returns `lo` -/
theorem clamp_pair_differs : clampMinMax (2 : ℝ) 1 0 = 1 ∧ Scalar.clamp (2 : ℝ) 1 0 = 0 := by
  constructor
  · show max (min (2:ℝ) 0) 1 = 1; norm_num
  · unfold Scalar.clamp; norm_num

/-- in floats the two differ on NaN: `f64::clamp(NaN, 0, 1)` is NaN, `NaN.min(1).max(0)` is 1 (Rust's / `wide`'s `min`, `max` return the
    other operand) — kernel evaluation of the model's `Float` instance -/
theorem clamp_nan_witness :
    (clampMinMax (Float.ofBits 0x7ff8000000000000) 0.0 1.0 : Float).toBits = (1.0 : Float).toBits ∧
    (Scalar.clamp (Float.ofBits 0x7ff8000000000000) 0.0 1.0 : Float).isNaN = true := by decide +kernel

/-- the hypotheses of the operator theorems of `C17_EdgesOps` hold at ℝ: `mix`, blending, compositing … -/
theorem mixLin_lanes_real {n : Nat} (a b : List (Lanes n ℝ)) (f : Lanes n ℝ) (i : Fin n) :
    laneL (SimdOps.mixLin clampMinMax a b f) i = Ops.mixLin (laneL a i) (laneL b i) (f i) := mixLin_lanes clamp01_real' a b f i
theorem mixHue_lanes_real {n : Nat} (r : List Ops.Role) (a b : List (Lanes n ℝ)) (f : Lanes n ℝ) (i : Fin n) :
    laneL (SimdOps.mixHue clampMinMax r a b f) i = Ops.mixHue r (laneL a i) (laneL b i) (f i) := mixHue_lanes clamp01_real' r a b f i
theorem blendStraight_lanes_real {n : Nat} (m : Blend.Mode) (s d : List (Lanes n ℝ) × Lanes n ℝ) (i : Fin n) :
    waLane (SimdOps.blendStraight clampMinMax (SimdOps.modeFn m) s d) i = Blend.blendStraight (Blend.Mode.fn m) (waLane s i) (waLane d i) :=
  blendStraight_lanes clamp01_real m s d i
theorem blendPre_lanes_real {n : Nat} (m : Blend.Mode) (s d : List (Lanes n ℝ) × Lanes n ℝ) (i : Fin n) :
    waLane (SimdOps.blendPre clampMinMax (SimdOps.modeFn m) s d) i = Blend.blendPre (Blend.Mode.fn m) (waLane s i) (waLane d i) :=
  blendPre_lanes clamp01_real m s d i
theorem blendOpaque_lanes_real {n : Nat} (m : Blend.Mode) (s d : List (Lanes n ℝ)) (i : Fin n) :
    laneL (SimdOps.blendOpaque clampMinMax (SimdOps.modeFn m) s d) i = Blend.blendOpaque (Blend.Mode.fn m) (laneL s i) (laneL d i) :=
  blendOpaque_lanes clamp01_real m s d i
theorem composeStraight_lanes_real {n : Nat} (op : Blend.Op) (s d : List (Lanes n ℝ) × Lanes n ℝ) (i : Fin n) :
    waLane (SimdOps.composeStraight clampMinMax op s d) i = Blend.composeStraight op (waLane s i) (waLane d i) :=
  composeStraight_lanes clamp01_real op s d i
theorem composePre_lanes_real {n : Nat} (op : Blend.Op) (s d : List (Lanes n ℝ) × Lanes n ℝ) (i : Fin n) :
    waLane (SimdOps.composePre clampMinMax op s d) i = Blend.composePre op (waLane s i) (waLane d i) :=
  composePre_lanes clamp01_real op s d i
theorem composeOpaque_lanes_real {n : Nat} (op : Blend.Op) (s d : List (Lanes n ℝ)) (i : Fin n) :
    laneL (SimdOps.composeOpaque clampMinMax op s d) i = Blend.composeOpaque op (laneL s i) (laneL d i) :=
  composeOpaque_lanes clamp01_real op s d i
/-- … and `lighten`/`saturate` whenever every `increase` component of lane `i`'s specification has `min ≤ max` -/
theorem incValue_lanes_real {n : Nat} (s : List (Ops.Inc (Lanes n ℝ))) (c : List (Lanes n ℝ)) (f : Lanes n ℝ) (i : Fin n)
    (hs : ∀ lo hi : ℝ, Ops.Inc.increase lo hi ∈ s.map (incLane · i) → lo ≤ hi) :
    laneL (SimdOps.incValue clampMinMax s c f) i = Ops.incValue (s.map (incLane · i)) (laneL c i) (f i) :=
  incValue_lanes s c f i (fun v lo hi hm => clamp_pair_real v lo hi (hs lo hi hm))
/-- non-vacuity: `Lighten for Rgb` — three `increase` components with bounds `[0, 1]` in every lane -/
example {n : Nat} (i : Fin n) :
    ∀ lo hi : ℝ, Ops.Inc.increase lo hi ∈ (List.replicate 3 (Ops.Inc.increase (fun _ => (0:ℝ)) (fun _ => (1:ℝ)) : Ops.Inc (Lanes n ℝ))).map (incLane · i) → lo ≤ hi := by
  intro lo hi hm
  simp only [List.replicate, List.map, incLane, List.mem_cons, List.not_mem_nil, or_false, or_self] at hm
  cases hm; norm_num

/-! ## (4) `Neg`, (5) `Hypot`, (6) `MulAdd` -/

theorem neg_pair_real (x : ℝ) : wideNeg x = -x := by
  show (0.0 : ℝ) - x = -x; norm_num
/-- `−(+0)` is `−0`, `0 − (+0)` is `+0`: kernel evaluation on `Float` bit patterns -/
theorem neg_zero_witness : (-(0.0 : Float)).toBits = 0x8000000000000000 ∧ (wideNeg (0.0 : Float)).toBits = 0 := by decide +kernel
/-- … and only there among these samples: for a non-zero argument the two are the same float (samples: 1, −2.5, smallest subnormal, max) -/
theorem neg_nonzero_samples :
    ([0x3FF0000000000000, 0xC004000000000000, 0x0000000000000001, 0x7FEFFFFFFFFFFFFF].all fun b =>
      (-(Float.ofBits b)).toBits == (wideNeg (Float.ofBits b)).toBits) = true := by decide +kernel

theorem hypot_pair_real : wideHypotAngle instAngleReal = instAngleReal := rfl

theorem mulAdd_pair_real (x m a : ℝ) : Scalar.mulAdd x m a = x * m + a := rfl
/-- fused ≠ unfused in floats: `x = 1 + 2⁻³⁰`, `a = −(1 + 2⁻²⁹)`: `fma(x, x, a) = 2⁻⁶⁰`, `x·x + a = 0` (the model's `Float.fma` is the exact
    soft-float fused multiply-add the driver executes) -/
theorem mulAdd_witness :
    (Scalar.mulAdd (Float.ofBits 0x3FF0000000400000) (Float.ofBits 0x3FF0000000400000) (Float.ofBits 0xBFF0000000800000) : Float).toBits = 0x3C30000000000000 ∧
    ((Float.ofBits 0x3FF0000000400000) * (Float.ofBits 0x3FF0000000400000) + (Float.ofBits 0xBFF0000000800000) : Float).toBits = 0 := by
  decide +kernel

/-! ## summary: at ℝ the SIMD reading is the scalar reading -/

/-- an interpretation with the operations that `wide` implements by *another formula* replaced by that formula, everything else kept:
    `neg` = `0 − x`, `hypot` = `sqrt(a·a + b·b)`, `mul_add` = `(x·m) + a`, `mul_sub` = `(x·m) − s` -/
def wideFormulaOps {α μ : Type} (S : Ops α μ) : Ops α μ :=
  { S with neg := fun x => S.sub (S.lit 0 false 0) x,
           hypot := fun a b => S.sqrt (S.add (S.mul a a) (S.mul b b)),
           mulAdd := fun x m a => S.add (S.mul x m) a,
           mulSub := fun x m s => S.sub (S.mul x m) s }

/-- **at ℝ that interpretation agrees with the scalar one on every operation** -/
theorem wideFormula_agree_real : AgreeOn (wideFormulaOps (scalarOps ℝ)) (scalarOps ℝ) allOps := by
  intro o _
  cases o <;> dsimp only [Hom] <;> intros <;> first
    | rfl
    | (show (OfScientific.ofScientific 0 false 0 : ℝ) - _ = -_; norm_num)

/-- hence every term — every mask-generic body — evaluates to the same real number under both -/
theorem eval_wideFormula_real (t : Tm) (env : Nat → ℝ) : t.eval (wideFormulaOps (scalarOps ℝ)) env = t.eval (scalarOps ℝ) env :=
  Tm.eval_agree (P := allOps) wideFormula_agree_real t (by
    have : ∀ t : Tm, t.usesOnly allOps = true := by
      intro t
      exact Tm.rec (motive_1 := fun t => t.usesOnly allOps = true) (motive_2 := fun m => m.usesOnly allOps = true)
        (fun _ => rfl) (fun _ _ _ => rfl) (fun _ => rfl) rfl
        (fun _ _ ih => by simp [Tm.usesOnly, allOps, ih])
        (fun _ _ _ iha ihb => by simp [Tm.usesOnly, allOps, iha, ihb])
        (fun _ _ _ _ iha ihb ihc => by simp [Tm.usesOnly, allOps, iha, ihb, ihc])
        (fun _ _ _ ihc iha ihb => by simp [Tm.usesOnly, allOps, iha, ihb, ihc])
        (fun _ _ _ iha ihb => by simp [Mk.usesOnly, allOps, iha, ihb])
        (fun _ ih => by simp [Mk.usesOnly, allOps, ih])
        (fun _ _ ihp ihq => by simp [Mk.usesOnly, allOps, ihp, ihq])
        (fun _ _ ihp ihq => by simp [Mk.usesOnly, allOps, ihp, ihq])
        (fun _ _ ihp ihq => by simp [Mk.usesOnly, allOps, ihp, ihq])
        (fun _ ih => by simp [Mk.usesOnly, allOps, ih])
        (fun _ => rfl) t
    exact this t) env

/-- **SIMD lanes at ℝ**: for any SIMD implementation `W` that is lane-wise "the scalar operations with `wide`'s formulas" on the
    operations a term uses, lane `i` of the SIMD evaluation is the *scalar* evaluation of lane `i`'s inputs -/
theorem Tm.eval_lane_real {n : Nat} {P : Op → Bool} (W : Ops (Lanes n ℝ) (Lanes n Bool)) (hW : LaneWise W (wideFormulaOps (scalarOps ℝ)) P)
    (t : Tm) (hu : t.usesOnly P = true) (env : Nat → Lanes n ℝ) (i : Fin n) :
    (t.eval W env) i = t.eval (scalarOps ℝ) (fun k => env k i) := by
  rw [Tm.eval_lane hW t hu, eval_wideFormula_real]

end C17
