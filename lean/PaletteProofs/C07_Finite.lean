/-
  C07 — finite valid colours never produce NaN, infinity or a panic: the *guard logic*, proved on the unchanged model functions
  read at `PReal` (poisoned reals, `PaletteProofs/PReal.lean`).

  Statement shape: for real inputs `c` (all of them, or those in the documented range of the source type — the hypotheses say which),
  `(f c.lift).Finite`, i.e. no component of the result is poison: on the branch actually selected no divisor is zero and `sqrt`,
  `ln`, `powf` stay inside their domains.  Where the unchanged code really divides by zero or leaves a domain on in-range input the
  NEGATION is proved with a concrete witness (`…_poison`) next to a `…_partial` theorem that carries the extra hypothesis.

  This file: the conversion edges (CIE family, RGB family, transfer curves, Ok guards) and the composition along a route.
  `C07_FiniteOps.lean`: blend modes, compose operators, colour operators, colour differences, clamp.
-/
import PaletteProofs.PReal
import PaletteModel.Color.Cie
import PaletteModel.Color.RgbFamily
import PaletteModel.Color.Ok
import PaletteModel.Route
import Mathlib.Tactic.Linarith
import Mathlib.Tactic.Positivity

set_option linter.unusedSimpArgs false

namespace C07
open PReal

/-- a branch of a valid-divisor select: either no division is left, or its divisor is the hypothesis of the branch -/
macro "guarded_div" : tactic => `(tactic| first
  | exact V3.finite_mk _ _ _
  | (rw [div_some_of_ne]
     · exact V3.finite_mk _ _ _
     · first | assumption | (rename_i h; exact mul_ne_zero h.1 h.2)))

/-- closes `V3.Finite ⟨ok _, ok _, ok _⟩` -/
macro "fin3" : tactic => `(tactic| first | exact V3.finite_mk _ _ _ | exact ⟨⟨_, _, _⟩, rfl⟩)

/-! ## CIE family -/

/-- `Yxy ← Xyz`: the `is_valid_divisor(sum)` select covers the two divisions — for **every** real input -/
theorem xyzToYxy_finite (c : V3 ℝ) : (Cie.xyzToYxy c.lift).Finite := by
  unfold Cie.xyzToYxy V3.lift
  by_cases h : c.c0 + c.c1 + c.c2 = 0
  · simp [h]; fin3
  · simp [h]; fin3

/-- black takes the guarded arm (non-vacuity of the guard) -/
theorem xyzToYxy_black : Cie.xyzToYxy (⟨0, 0, 0⟩ : V3 ℝ).lift = (⟨0, 0, 0⟩ : V3 ℝ).lift := by
  unfold Cie.xyzToYxy V3.lift; norm_num

/-- without the guard the same input is poison: the division the select avoids is a real `0 / 0` -/
theorem xyzToYxy_unguarded_poison : (ok 0 : PReal) / (ok 0 + ok 0 + ok 0) = poison := by norm_num

/-- `Xyz ← Yxy`: `is_valid_divisor(y)` covers both divisions — every real input -/
theorem yxyToXyz_finite (c : V3 ℝ) : (Cie.yxyToXyz c.lift).Finite := by
  unfold Cie.yxyToXyz V3.lift
  by_cases h : c.c1 = 0
  · simp [h]; fin3
  · simp [h]; fin3

theorem labF_ok (x : ℝ) : ∃ r, Cie.labF (ok x) = ok r := by
  unfold Cie.labF Cie.cube
  norm_num
  split_ifs <;> exact ⟨_, rfl⟩

/-- `Lab ← Xyz`: total as soon as the white point has no zero component (true of all 16 white points: `whitePoints_nonzero`) -/
theorem xyzToLab_finite (wp c : V3 ℝ) (h0 : wp.c0 ≠ 0) (h1 : wp.c1 ≠ 0) (h2 : wp.c2 ≠ 0) :
    (Cie.xyzToLab wp.lift c.lift).Finite := by
  unfold Cie.xyzToLab V3.lift
  simp only [div_some_of_ne _ _ h0, div_some_of_ne _ _ h1, div_some_of_ne _ _ h2]
  obtain ⟨x, hx⟩ := labF_ok (c.c0 / wp.c0)
  obtain ⟨y, hy⟩ := labF_ok (c.c1 / wp.c1)
  obtain ⟨z, hz⟩ := labF_ok (c.c2 / wp.c2)
  simp only [hx, hy, hz]
  norm_num
  fin3

/-- a zero white-point component would poison it (the hypothesis is needed) -/
theorem xyzToLab_zero_white_poison : (Cie.xyzToLab (⟨0, 1, 1⟩ : V3 ℝ).lift (⟨0, 0, 0⟩ : V3 ℝ).lift).c1 = poison := by
  unfold Cie.xyzToLab Cie.labF V3.lift
  norm_num

theorem labFInv_ok (x : ℝ) : ∃ r, Cie.labFInv (ok x) = ok r := by
  unfold Cie.labFInv Cie.cube
  norm_num
  split_ifs <;> exact ⟨_, rfl⟩

/-- `Xyz ← Lab`: every real input (`recip 116`, `recip 500`, `recip 200` are the only divisions) -/
theorem labToXyz_finite (wp c : V3 ℝ) : (Cie.labToXyz wp.lift c.lift).Finite := by
  unfold Cie.labToXyz Cie.recip V3.lift
  norm_num
  obtain ⟨x, hx⟩ := labFInv_ok ((c.c0 + 16) * (1 / 116) + c.c1 * (1 / 500))
  obtain ⟨y, hy⟩ := labFInv_ok ((c.c0 + 16) * (1 / 116))
  obtain ⟨z, hz⟩ := labFInv_ok ((c.c0 + 16) * (1 / 116) - c.c2 * (1 / 200))
  norm_num at hx hy hz
  simp only [hx, hy, hz, mul_some]
  fin3

/-- `Lch ← Lab`, `Lchuv ← Luv`: `hypot` is a square root of a sum of squares, `atan2` is total — every real input, zero chroma included -/
theorem labToLch_finite (c : V3 ℝ) : (Cie.labToLch c.lift).Finite := by
  unfold Cie.labToLch Cie.hueFromCartesian V3.lift
  simp; fin3
theorem luvToLchuv_finite (c : V3 ℝ) : (Cie.luvToLchuv c.lift).Finite := by
  unfold Cie.luvToLchuv Cie.hueFromCartesian V3.lift
  simp; fin3

/-- `Lab ← Lch`, `Luv ← Lchuv`: no division at all -/
theorem lchToLab_finite (c : V3 ℝ) : (Cie.lchToLab c.lift).Finite := by
  unfold Cie.lchToLab V3.lift
  simp; fin3
theorem lchuvToLuv_finite (c : V3 ℝ) : (Cie.lchuvToLuv c.lift).Finite := by
  unfold Cie.lchuvToLuv V3.lift
  simp; fin3

/-! ### Xyz ↔ Luv -/

/-- `Luv ← Xyz`: the early return `prime_denom == 0` covers `recip(prime_denom)`, the branch `epsilon < y_r` keeps `powf` in its domain;
    total for every real input as soon as the white point is usable (`Y_n ≠ 0`, `X_n + 15 Y_n + 3 Z_n ≠ 0`) -/
theorem xyzToLuv_finite (w c : V3 ℝ) (h1 : w.c1 ≠ 0) (hd : w.c0 + 15 * w.c1 + 3 * w.c2 ≠ 0) :
    (Cie.xyzToLuv w.lift c.lift).Finite := by
  unfold Cie.xyzToLuv Cie.recip Cie.cube V3.lift
  norm_num
  by_cases hz : c.c0 + 15 * c.c1 + 3 * c.c2 = 0
  · simp [hz]; fin3
  · simp only [hz, if_false, div_some_of_ne _ _ hz, div_some_of_ne _ _ hd, div_some_of_ne _ _ h1, mul_some, sub_some, lt_some]
    split_ifs with hy
    · have hpos : 0 < c.c1 / w.c1 := lt_trans (by norm_num) hy
      rw [powf_some_of_pos _ _ hpos]
      simp; fin3
    · simp; fin3

/-- black takes the early return; without it `recip(0)` is poison -/
theorem xyzToLuv_black (w : V3 ℝ) : Cie.xyzToLuv w.lift (⟨0, 0, 0⟩ : V3 ℝ).lift = (⟨0, 0, 0⟩ : V3 ℝ).lift := by
  unfold Cie.xyzToLuv V3.lift; norm_num
theorem xyzToLuv_unguarded_poison : Cie.recip (ok 0 + ok 15 * ok 0 + ok 3 * ok 0) = poison := by
  unfold Cie.recip; norm_num

/-- `Xyz ← Luv`, the guard: below `L = 1e-5` the early return answers black — every real input, and for poison `L` too -/
theorem luvToXyz_dark (w c : V3 ℝ) (hl : c.c0 < 1e-5) : Cie.luvToXyz w.lift c.lift = (⟨0, 0, 0⟩ : V3 ℝ).lift := by
  unfold Cie.luvToXyz V3.lift
  have : c.c0 < (1 / 100000 : ℝ) := by norm_num at hl; exact hl
  norm_num [this]

/-- FULL STATEMENT (not provable, see `luvToXyz_poison`): for every Luv colour in the documented range
    (`0 ≤ L ≤ 100`, `-84 ≤ u ≤ 176`, `-135 ≤ v ≤ 108`) `(Cie.luvToXyz w.lift c.lift).Finite`.
    Proved: the early return covers `13·L`, and the only remaining divisor is `v′ = v/(13 L) + v′ₙ`; with `v′ ≠ 0` the result is finite. -/
theorem luvToXyz_finite_partial (w c : V3 ℝ) (hd : w.c0 + 15 * w.c1 + 3 * w.c2 ≠ 0)
    (hv : c.c0 < 1e-5 ∨ c.c2 / (13 * c.c0) + 9 * w.c1 * (1 / (w.c0 + 15 * w.c1 + 3 * w.c2)) ≠ 0) :
    (Cie.luvToXyz w.lift c.lift).Finite := by
  by_cases hl : c.c0 < 1e-5
  · rw [luvToXyz_dark w c hl]; exact ⟨_, rfl⟩
  · have hv := hv.resolve_left hl
    have hl' : ¬ c.c0 < (1 / 100000 : ℝ) := by norm_num at hl ⊢; exact hl
    have h13 : (13 : ℝ) * c.c0 ≠ 0 := by
      have : (0:ℝ) < c.c0 := lt_of_lt_of_le (by norm_num) (not_lt.mp hl')
      positivity
    have hv' : c.c2 / (13 * c.c0) + 9 * w.c1 * (w.c0 + 15 * w.c1 + 3 * w.c2)⁻¹ ≠ 0 := by simpa [one_div] using hv
    unfold Cie.luvToXyz Cie.recip Cie.cube V3.lift
    norm_num [hl', div_some_of_ne _ _ hd, div_some_of_ne _ _ h13]
    split_ifs <;> (simp only [div_some_of_ne _ _ hv']; fin3)

/-- the in-range witness: `Luv<D65>(10, 0, −1170/19.21696 ≈ −60.88)` has `v′ = 0` exactly, `x = y·2.25·u′ / v′` is a division by zero
    (an imaginary colour, but inside the documented component ranges) -/
theorem luvToXyz_poison :
    ∃ c : V3 ℝ, (0 ≤ c.c0 ∧ c.c0 ≤ 100) ∧ (-84 ≤ c.c1 ∧ c.c1 ≤ 176) ∧ (-135 ≤ c.c2 ∧ c.c2 ≤ 108) ∧
      (Cie.luvToXyz (⟨0.95047, 1, 1.08883⟩ : V3 ℝ).lift c.lift).c0 = poison := by
  refine ⟨⟨10, 0, -(1170 / 19.21696)⟩, by norm_num, by norm_num, by norm_num, ?_⟩
  unfold Cie.luvToXyz Cie.recip Cie.cube V3.lift
  norm_num

/-! ### Lchuv ↔ Hsluv (`luv_bounds.rs`) -/

/-- one step of `max_chroma_at_hue` never *introduces* poison, whatever the boundary line is (even a poisoned one: `bottom = 0`
    happens for real at `L = 0` and near `L ≈ 81.8`): a candidate length is only taken after it passed `t ≥ 0 ∧ t < min`, and a
    comparison with poison is false — the NaN logic the Rust code relies on -/
theorem chromaStep_ne_poison (θ m : PReal) (b : Cie.BoundaryLine PReal) (hm : m ≠ poison) : Cie.chromaStep θ m b ≠ poison := by
  unfold Cie.chromaStep
  simp only []
  split_ifs with h1 h2
  · exact ne_none_of_lt_left h2.2
  · exact hm
  · exact hm

theorem foldl_chromaStep_ne_poison (θ : PReal) (bs : List (Cie.BoundaryLine PReal)) (m : PReal) (hm : m ≠ poison) :
    bs.foldl (Cie.chromaStep θ) m ≠ poison := by
  induction bs generalizing m with
  | nil => exact hm
  | cons b bs ih => exact ih _ (chromaStep_ne_poison θ m b hm)

/-- `LuvBounds::from_lightness(l).max_chroma_at_hue(h)` is never poison — for **every** `l`, `h` (poison included) -/
theorem maxChroma_ne_poison (l h : PReal) : Cie.maxChroma l h ≠ poison := by
  unfold Cie.maxChroma Cie.maxChromaAtHue
  simp only [up_eq, down_eq]
  apply foldl_chromaStep_ne_poison
  unfold Cie.f64Max
  simp

/-- `Lchuv ← Hsluv` (`chroma = s · maxChroma · 0.01`): no division, and `maxChroma` is never poison — every real input.
    (What the finding D5 reports for this direction, `Hsluv(0°, 100, 0) → chroma = inf`, is the overflow of `100 · f64::MAX`
    — `maxChroma` stays at its start value `f64::MAX` when no boundary is hit — which poisoned reals cannot exhibit.) -/
theorem hsluvToLchuv_finite (c : V3 ℝ) : (Cie.hsluvToLchuv c.lift).Finite := by
  unfold Cie.hsluvToLchuv V3.lift
  obtain ⟨m, hm⟩ := exists_of_ne_none (maxChroma_ne_poison (ok c.c2) (ok c.c0))
  simp only [hm]
  norm_num
  fin3

/-- FULL STATEMENT (not provable, see `lchuvToHsluv_poison`): for every Lchuv colour in the documented range
    (`0 ≤ L ≤ 100`, `0 ≤ C ≤ 180`) `(Cie.lchuvToHsluv c.lift).Finite`.
    Proved: the only divisor is `maxChroma`, it is never poison, and where it is not zero the result is finite. -/
theorem lchuvToHsluv_finite_partial (c : V3 ℝ) (hmc : Cie.maxChroma (ok c.c0) (ok c.c2) ≠ ok 0) :
    (Cie.lchuvToHsluv c.lift).Finite := by
  unfold Cie.lchuvToHsluv V3.lift
  obtain ⟨m, hm⟩ := exists_of_ne_none (maxChroma_ne_poison (ok c.c0) (ok c.c2))
  simp only [hm] at hmc ⊢
  have hm0 : m ≠ 0 := fun h => hmc (by rw [h])
  simp only [div_some_of_ne _ _ hm0]
  norm_num
  fin3

theorem deg90 : (90:ℝ) * (Real.pi / 180) = Real.pi / 2 := by ring

/-- at `L = 0` every boundary line has intercept `0` (or a `0/0` slope), so the ray of hue 90° meets one at length `0`: `maxChroma = 0` -/
theorem maxChroma_black_90 : Cie.maxChroma (ok 0) (ok 90) = ok 0 := by
  unfold Cie.maxChroma Cie.maxChromaAtHue Cie.luvBounds Cie.boundaryLine Cie.cube Cie.f64Max Gen.Mat.hsluvM Gen.Mat.hsluvEpsilon
    Gen.Mat.hsluvKappa M3.ofK
  simp only [up_eq, down_eq, degToRad_some, deg90, List.foldl, Cie.chromaStep]
  norm_num [Real.sin_pi_div_two, Real.cos_pi_div_two]

/-- finding **D5-hsluv-poles** as a theorem: the in-range colour `Lchuv(0, 0, 90°)` (black, written with a hue) divides `0 / 0`;
    the HSLuv reference returns `S = 0` for `L < 1e-8` before dividing, palette has no such guard -/
theorem lchuvToHsluv_poison :
    ∃ c : V3 ℝ, (0 ≤ c.c0 ∧ c.c0 ≤ 100) ∧ (0 ≤ c.c1 ∧ c.c1 ≤ 180) ∧ (0 ≤ c.c2 ∧ c.c2 ≤ 360) ∧ (Cie.lchuvToHsluv c.lift).c1 = poison := by
  refine ⟨⟨0, 0, 90⟩, by norm_num, by norm_num, by norm_num, ?_⟩
  unfold Cie.lchuvToHsluv V3.lift
  simp only [maxChroma_black_90]
  norm_num

/-- and with any chroma: `C / 0` -/
theorem lchuvToHsluv_poison_chroma (C : ℝ) : (Cie.lchuvToHsluv (⟨0, C, 90⟩ : V3 ℝ).lift).c1 = poison := by
  unfold Cie.lchuvToHsluv V3.lift
  simp only [maxChroma_black_90]
  norm_num

/-! ## transfer curves (`encoding/*.rs`) -/

/-- sRGB, Rec.709/2020 and ProPhoto are piecewise: the linear segment takes every input below the join (all negative numbers
    included), the power segment only sees a positive base — total on **every** real input -/
theorem srgbIntoLinear_ok (x : ℝ) : ∃ r, Transfer.srgbIntoLinear (ok x) = ok r := by
  unfold Transfer.srgbIntoLinear
  norm_num
  split_ifs with h
  · exact ⟨_, rfl⟩
  · rw [powf_some_of_pos _ _ (by simp only [not_le, not_lt] at h; linarith)]; exact ⟨_, rfl⟩

theorem srgbFromLinear_ok (x : ℝ) : ∃ r, Transfer.srgbFromLinear (ok x) = ok r := by
  unfold Transfer.srgbFromLinear
  norm_num
  split_ifs with h
  · exact ⟨_, rfl⟩
  · rw [powf_some_of_pos _ _ (by simp only [not_le, not_lt] at h; linarith)]; exact ⟨_, rfl⟩

theorem recIntoLinear_ok (x : ℝ) : ∃ r, Transfer.recIntoLinear (ok x) = ok r := by
  unfold Transfer.recIntoLinear Transfer.ALPHA Transfer.BETA
  norm_num
  split_ifs with h
  · exact ⟨_, rfl⟩
  · rw [powf_some_of_pos _ _ (by simp only [not_le, not_lt] at h; linarith)]; exact ⟨_, rfl⟩

theorem recFromLinear_ok (x : ℝ) : ∃ r, Transfer.recFromLinear (ok x) = ok r := by
  unfold Transfer.recFromLinear Transfer.ALPHA Transfer.BETA
  norm_num
  split_ifs with h
  · exact ⟨_, rfl⟩
  · rw [powf_some_of_pos _ _ (by simp only [not_le, not_lt] at h; linarith)]; exact ⟨_, rfl⟩

theorem prophotoIntoLinear_ok (x : ℝ) : ∃ r, Transfer.prophotoIntoLinear (ok x) = ok r := by
  unfold Transfer.prophotoIntoLinear
  norm_num
  split_ifs with h
  · exact ⟨_, rfl⟩
  · rw [powf_some_of_pos _ _ (by simp only [not_le, not_lt] at h; linarith)]; exact ⟨_, rfl⟩

theorem prophotoFromLinear_ok (x : ℝ) : ∃ r, Transfer.prophotoFromLinear (ok x) = ok r := by
  unfold Transfer.prophotoFromLinear
  norm_num
  split_ifs with h
  · exact ⟨_, rfl⟩
  · rw [powf_some_of_pos _ _ (by simp only [not_le, not_lt] at h; linarith)]; exact ⟨_, rfl⟩

/-- the pure power laws (Adobe RGB, DCI-P3 gamma, `GammaFn`) are `powf` with nothing in front: fine on `0 ≤ x` … -/
theorem adobeIntoLinear_ok (x : ℝ) (h : 0 ≤ x) : ∃ r, Transfer.adobeIntoLinear (ok x) = ok r := by
  unfold Transfer.adobeIntoLinear; norm_num
  rw [powf_some_of_nonneg_pos _ _ h (by norm_num)]; exact ⟨_, rfl⟩
theorem adobeFromLinear_ok (x : ℝ) (h : 0 ≤ x) : ∃ r, Transfer.adobeFromLinear (ok x) = ok r := by
  unfold Transfer.adobeFromLinear; norm_num
  rw [powf_some_of_nonneg_pos _ _ h (by norm_num)]; exact ⟨_, rfl⟩
theorem p3IntoLinear_ok (x : ℝ) (h : 0 ≤ x) : ∃ r, Transfer.p3IntoLinear (ok x) = ok r := by
  unfold Transfer.p3IntoLinear; norm_num
  rw [powf_some_of_nonneg_pos _ _ h (by norm_num)]; exact ⟨_, rfl⟩
theorem p3FromLinear_ok (x : ℝ) (h : 0 ≤ x) : ∃ r, Transfer.p3FromLinear (ok x) = ok r := by
  unfold Transfer.p3FromLinear; norm_num
  rw [powf_some_of_nonneg_pos _ _ h (by norm_num)]; exact ⟨_, rfl⟩
theorem gammaIntoLinear_ok (x : ℝ) (h : 0 ≤ x) : ∃ r, Transfer.gammaIntoLinear (ok x) = ok r := by
  unfold Transfer.gammaIntoLinear; norm_num
  rw [powf_some_of_nonneg_pos _ _ h (by norm_num)]; exact ⟨_, rfl⟩
theorem gammaFromLinear_ok (x : ℝ) (h : 0 ≤ x) : ∃ r, Transfer.gammaFromLinear (ok x) = ok r := by
  unfold Transfer.gammaFromLinear; norm_num
  rw [powf_some_of_nonneg_pos _ _ h (by norm_num)]; exact ⟨_, rfl⟩

/-- … and poison on **every** negative number (findings D6-powlaw-nan / powlaw-nan-out-of-gamut: the value handed to them is a
    matrix product, which is negative for out-of-gamut colours and, the 7-digit matrices not being exact inverses, for some
    in-gamut ones) -/
theorem powlaw_negative_poison (x : ℝ) (h : x < 0) :
    Transfer.adobeFromLinear (ok x) = poison ∧ Transfer.p3FromLinear (ok x) = poison ∧ Transfer.gammaFromLinear (ok x) = poison ∧
    Transfer.adobeIntoLinear (ok x) = poison ∧ Transfer.p3IntoLinear (ok x) = poison ∧ Transfer.gammaIntoLinear (ok x) = poison := by
  unfold Transfer.adobeFromLinear Transfer.p3FromLinear Transfer.gammaFromLinear Transfer.adobeIntoLinear Transfer.p3IntoLinear
    Transfer.gammaIntoLinear
  norm_num [powf_some_of_neg _ _ h]

/-- which curves are total -/
def totalCurve : Transfer.Fn → Bool
  | .srgb | .recOetf | .prophoto | .linear => true
  | .adobeRgb | .p3Gamma | .gamma22 => false

/-- every transfer function, both directions: total for the piecewise curves, total on `0 ≤ x` for the pure power laws -/
theorem intoLinear_ok (tf : Transfer.Fn) (x : ℝ) (h : totalCurve tf = true ∨ 0 ≤ x) : ∃ r, Transfer.intoLinear tf (ok x) = ok r := by
  cases tf <;> simp only [Transfer.intoLinear, totalCurve] at h ⊢
  · exact srgbIntoLinear_ok x
  · exact recIntoLinear_ok x
  · exact adobeIntoLinear_ok x (by simpa using h)
  · exact p3IntoLinear_ok x (by simpa using h)
  · exact prophotoIntoLinear_ok x
  · exact gammaIntoLinear_ok x (by simpa using h)
  · exact ⟨x, rfl⟩
theorem fromLinear_ok (tf : Transfer.Fn) (x : ℝ) (h : totalCurve tf = true ∨ 0 ≤ x) : ∃ r, Transfer.fromLinear tf (ok x) = ok r := by
  cases tf <;> simp only [Transfer.fromLinear, totalCurve] at h ⊢
  · exact srgbFromLinear_ok x
  · exact recFromLinear_ok x
  · exact adobeFromLinear_ok x (by simpa using h)
  · exact p3FromLinear_ok x (by simpa using h)
  · exact prophotoFromLinear_ok x
  · exact gammaFromLinear_ok x (by simpa using h)
  · exact ⟨x, rfl⟩

/-! ## RGB family -/

/-- a 3×3 matrix of real constants applied to a real colour is a real colour (no division) -/
theorem mulVec_lift (m : M3 ℝ) (c : V3 ℝ) :
    (M3.mulVec (⟨ok m.m0, ok m.m1, ok m.m2, ok m.m3, ok m.m4, ok m.m5, ok m.m6, ok m.m7, ok m.m8⟩ : M3 PReal) c.lift).Finite := by
  unfold M3.mulVec V3.lift
  simp; fin3

/-- `Rgb → Xyz` for a standard whose matrix constants are plain literals (`hm`: every entry evaluates; true of all tables in
    `Gen.Mat`, see `rgbToXyz_srgb_finite`) : finite for the piecewise curves on every input, for the power laws on `0 ≤ c` -/
theorem rgbToXyz_finite (km : List K) (m : M3 ℝ) (tf : Transfer.Fn) (c : V3 ℝ)
    (hm : (M3.ofK km : M3 PReal) = ⟨ok m.m0, ok m.m1, ok m.m2, ok m.m3, ok m.m4, ok m.m5, ok m.m6, ok m.m7, ok m.m8⟩)
    (h : totalCurve tf = true ∨ (0 ≤ c.c0 ∧ 0 ≤ c.c1 ∧ 0 ≤ c.c2)) : (RgbFam.rgbToXyz km tf c.lift).Finite := by
  unfold RgbFam.rgbToXyz RgbFam.intoLinear V3.map
  obtain ⟨r, hr⟩ := intoLinear_ok tf c.c0 (h.imp id (·.1))
  obtain ⟨g, hg⟩ := intoLinear_ok tf c.c1 (h.imp id (·.2.1))
  obtain ⟨b, hb⟩ := intoLinear_ok tf c.c2 (h.imp id (·.2.2))
  rw [hm]
  simp only [V3.lift, hr, hg, hb]
  exact mulVec_lift m ⟨r, g, b⟩

/-- `Xyz → Rgb`: FULL STATEMENT for the power laws is false (`xyzToRgb_adobe_poison`); proved: finite for the piecewise curves on
    every input, and for the power laws whenever the recovered linear components are `≥ 0` (`_partial` content of the second arm) -/
theorem xyzToRgb_finite_partial (km : List K) (m : M3 ℝ) (tf : Transfer.Fn) (c : V3 ℝ)
    (hm : (M3.ofK km : M3 PReal) = ⟨ok m.m0, ok m.m1, ok m.m2, ok m.m3, ok m.m4, ok m.m5, ok m.m6, ok m.m7, ok m.m8⟩)
    (h : totalCurve tf = true ∨ (0 ≤ (m.mulVec c).c0 ∧ 0 ≤ (m.mulVec c).c1 ∧ 0 ≤ (m.mulVec c).c2)) :
    (RgbFam.xyzToRgb km tf c.lift).Finite := by
  unfold RgbFam.xyzToRgb RgbFam.fromLinear V3.map
  rw [hm]
  have hv : M3.mulVec (⟨ok m.m0, ok m.m1, ok m.m2, ok m.m3, ok m.m4, ok m.m5, ok m.m6, ok m.m7, ok m.m8⟩ : M3 PReal) c.lift
      = (m.mulVec c).lift := by
    unfold M3.mulVec V3.lift; simp
  rw [hv]
  obtain ⟨r, hr⟩ := fromLinear_ok tf (m.mulVec c).c0 (h.imp id (·.1))
  obtain ⟨g, hg⟩ := fromLinear_ok tf (m.mulVec c).c1 (h.imp id (·.2.1))
  obtain ⟨b, hb⟩ := fromLinear_ok tf (m.mulVec c).c2 (h.imp id (·.2.2))
  simp only [V3.lift, hr, hg, hb]
  fin3

/-! ### the tables the witnesses use, tied to the generated data -/
def srgbToXyz : List K := [0.4124564, 0.3575761, 0.1804375, 0.2126729, 0.7151522, 0.0721750, 0.0193339, 0.1191920, 0.9503041]
def srgbFromXyz : List K := [3.2404542, -(1.5371385 : K), -(0.4985314 : K), -(0.9692660 : K), 1.8760108, 0.0415560, 0.0556434, -(0.2040259 : K), 1.0572252]
def adobeFromXyz : List K := [2.0413690, -(0.5649464 : K), -(0.3446944 : K), -(0.9692660 : K), 1.8760108, 0.0415560, 0.0134474, -(0.1183897 : K), 1.0154096]
def dciToXyz : List K := [0.4451698, 0.2771344, 0.1722827, 0.2094917, 0.7215953, 0.0689131, 0.0000000, 0.0470606, 0.9073554]
def dciFromXyz : List K := [2.7253940, -(1.0180030 : K), -(0.4401632 : K), -(0.7951680 : K), 1.6897321, 0.0226472, 0.0412419, -(0.0876390 : K), 1.1009294]

/-- these are the crate's tables (`Gen.Mat.rgbSpaces`, regenerated from `encoding/*.rs` on every run) -/
theorem tables_are_generated :
    (Color.rgbSpace? "Srgb").map (fun d => (d.rgbToXyz, d.xyzToRgb)) = some (srgbToXyz, srgbFromXyz) ∧
    (Color.rgbSpace? "AdobeRgb").map (fun d => d.xyzToRgb) = some adobeFromXyz ∧
    (Color.rgbSpace? "DciP3").map (fun d => (d.rgbToXyz, d.xyzToRgb)) = some (dciToXyz, dciFromXyz) := by
  refine ⟨by rfl, by rfl, by rfl⟩

theorem srgbToXyz_lit : (M3.ofK srgbToXyz : M3 PReal) =
    ⟨ok 0.4124564, ok 0.3575761, ok 0.1804375, ok 0.2126729, ok 0.7151522, ok 0.0721750, ok 0.0193339, ok 0.1191920, ok 0.9503041⟩ := by
  unfold M3.ofK srgbToXyz; simp
theorem srgbFromXyz_lit : (M3.ofK srgbFromXyz : M3 PReal) =
    ⟨ok 3.2404542, ok (-1.5371385), ok (-0.4985314), ok (-0.9692660), ok 1.8760108, ok 0.0415560, ok 0.0556434, ok (-0.2040259), ok 1.0572252⟩ := by
  unfold M3.ofK srgbFromXyz; simp

/-- sRGB ↔ XYZ is total on **every** real input, negative and out-of-gamut colours included (piecewise curve) -/
theorem rgbToXyz_srgb_finite (c : V3 ℝ) : (RgbFam.rgbToXyz srgbToXyz .srgb c.lift).Finite :=
  rgbToXyz_finite srgbToXyz ⟨0.4124564, 0.3575761, 0.1804375, 0.2126729, 0.7151522, 0.0721750, 0.0193339, 0.1191920, 0.9503041⟩ .srgb c
    srgbToXyz_lit (Or.inl rfl)
theorem xyzToRgb_srgb_finite (c : V3 ℝ) : (RgbFam.xyzToRgb srgbFromXyz .srgb c.lift).Finite :=
  xyzToRgb_finite_partial srgbFromXyz
    ⟨3.2404542, -1.5371385, -0.4985314, -0.9692660, 1.8760108, 0.0415560, 0.0556434, -0.2040259, 1.0572252⟩ .srgb c srgbFromXyz_lit (Or.inl rfl)

/-- finding **powlaw-nan-out-of-gamut**: the in-range colour `Xyz<D65>(0, 0, 1.08883)` has a negative linear Adobe RGB red -/
theorem xyzToRgb_adobe_poison :
    ∃ c : V3 ℝ, (0 ≤ c.c0 ∧ c.c0 ≤ 0.95047) ∧ (0 ≤ c.c1 ∧ c.c1 ≤ 1) ∧ (0 ≤ c.c2 ∧ c.c2 ≤ 1.08883) ∧
      (RgbFam.xyzToRgb adobeFromXyz .adobeRgb c.lift).c0 = poison := by
  refine ⟨⟨0, 0, 1.08883⟩, by norm_num, by norm_num, by norm_num, ?_⟩
  unfold RgbFam.xyzToRgb RgbFam.fromLinear V3.map V3.lift M3.mulVec M3.ofK adobeFromXyz Transfer.fromLinear Transfer.adobeFromLinear
  norm_num [powf_some]

/-- finding **D6-powlaw-nan**, in gamut: `Rgb<DciP3>(0, 1, 0) → Xyz → Rgb<DciP3>`; the two 7-digit matrices are not exact inverses, the
    red component comes back as `−9.35e-8` and `powf` of it is poison -/
theorem dciP3_roundtrip_poison :
    (RgbFam.xyzToRgb dciFromXyz .p3Gamma (RgbFam.rgbToXyz dciToXyz .p3Gamma (⟨0, 1, 0⟩ : V3 ℝ).lift)).c0 = poison := by
  unfold RgbFam.xyzToRgb RgbFam.rgbToXyz RgbFam.fromLinear RgbFam.intoLinear V3.map V3.lift M3.mulVec M3.ofK dciFromXyz dciToXyz
    Transfer.fromLinear Transfer.intoLinear Transfer.p3IntoLinear Transfer.p3FromLinear
  norm_num [powf_some]

/-- the same between standards: `Rgb<Srgb>(0, 0, 1) → Xyz → Rgb<AdobeRgb>` (sRGB blue *is* Adobe RGB's blue primary); green comes back as `−1.7e-8` -/
theorem srgb_blue_to_adobe_poison :
    (RgbFam.xyzToRgb adobeFromXyz .adobeRgb (RgbFam.rgbToXyz srgbToXyz .srgb (⟨0, 0, 1⟩ : V3 ℝ).lift)).c1 = poison := by
  unfold RgbFam.xyzToRgb RgbFam.rgbToXyz RgbFam.fromLinear RgbFam.intoLinear V3.map V3.lift M3.mulVec M3.ofK adobeFromXyz srgbToXyz
    Transfer.fromLinear Transfer.intoLinear Transfer.srgbIntoLinear Transfer.adobeFromLinear
  norm_num [powf_some]


/-! ### hexcone: Rgb → Hsv / Hsl (`max ≠ min`), Hsv / Hsl → Rgb, Hsl ↔ Hsv, Hsv ↔ Hwb -/

/-- the `(max, min, sep, coeff)` block on real inputs: `min ≤ max`, and the bounds it inherits -/
theorem maxMinSep_ok (r g b : ℝ) :
    ∃ M m s k : ℝ, RgbFam.maxMinSep (ok r) (ok g) (ok b) = ⟨ok M, ok m, ok s, ok k⟩ ∧ m ≤ M ∧
      (0 ≤ r → 0 ≤ g → 0 ≤ b → 0 ≤ m) ∧ (r ≤ 1 → g ≤ 1 → b ≤ 1 → M ≤ 1) := by
  unfold RgbFam.maxMinSep
  by_cases h1 : g < r <;> by_cases h2 : r < b <;> by_cases h3 : g < b <;> by_cases h4 : b < g <;> by_cases h5 : b < r <;>
    simp [h1, h2, h3, h4, h5] <;>
    first
    | (exfalso; linarith)
    | ((repeat' apply And.intro) <;> intros <;> linarith)

theorem max0_ok (x : ℝ) : RgbFam.max0 (ok x) = ok (max x 0) := by
  unfold RgbFam.max0; norm_num

/-- `Hsv ← Rgb`: behind `max ≠ min` both divisors are non-zero (`max − min`, and `max > min ≥ 0` because every component was clamped
    at `0` first) — **every** real input, negative and above 1 included -/
theorem rgbToHsv_finite (c : V3 ℝ) : (RgbFam.rgbToHsv c.lift).Finite := by
  unfold RgbFam.rgbToHsv V3.lift
  simp only [max0_ok]
  obtain ⟨M, m, s, k, h, hle, h0, _⟩ := maxMinSep_ok (max c.c0 0) (max c.c1 0) (max c.c2 0)
  have hm : 0 ≤ m := h0 (le_max_right _ _) (le_max_right _ _) (le_max_right _ _)
  simp only [h, eqv_some]
  by_cases hMm : M = m
  · simp [hMm]; fin3
  · have hlt : m < M := lt_of_le_of_ne hle (Ne.symm hMm)
    have hd : M - m ≠ 0 := by intro h; apply hMm; linarith
    have hM : M ≠ 0 := by intro h; linarith
    simp [hMm, hd, hM]; fin3

/-- the `(max, min, sep, coeff)` block read at `PReal` on real inputs is the block read at ℝ -/
theorem maxMinSep_lift (r g b : ℝ) :
    RgbFam.maxMinSep (ok r) (ok g) (ok b) =
      ⟨ok (RgbFam.maxMinSep r g b).max, ok (RgbFam.maxMinSep r g b).min, ok (RgbFam.maxMinSep r g b).sep, ok (RgbFam.maxMinSep r g b).coeff⟩ := by
  unfold RgbFam.maxMinSep
  by_cases h1 : g < r <;> by_cases h2 : r < b <;> by_cases h3 : g < b <;> by_cases h4 : b < g <;> by_cases h5 : b < r <;>
    simp [h1, h2, h3, h4, h5]

/-- the divisor `Rgb → Hsl` selects for the saturation, as the code associates it:
    `if max + min > 1 { (1 − max) + (1 − min) } else { max + min }` -/
noncomputable def hslDivisor (M m : ℝ) : ℝ := if 1 < M + m then (1 - M) + (1 - m) else M + m

/-- **`Hsl ← Rgb` after the repair c404fc5: for every real rgb with `max ≠ min` the saturation is defined** -- either the selected
    divisor is non-zero and the saturation is the quotient, or it is exactly zero, the guard `divisor == 0` fires and the saturation
    is `0`; in neither case is a division by zero evaluated.  (`M`, `m`: the block's maximum and minimum of the components clamped at 0;
    no range hypothesis.)  Before the repair the second case was `d / 0`: `rgbToHsl_unguarded_poison`. -/
theorem rgbToHsl_sat_defined (c : V3 ℝ)
    (hne : (RgbFam.maxMinSep (max c.c0 0) (max c.c1 0) (max c.c2 0)).max ≠ (RgbFam.maxMinSep (max c.c0 0) (max c.c1 0) (max c.c2 0)).min) :
    let M := (RgbFam.maxMinSep (max c.c0 0) (max c.c1 0) (max c.c2 0)).max
    let m := (RgbFam.maxMinSep (max c.c0 0) (max c.c1 0) (max c.c2 0)).min
    (hslDivisor M m ≠ 0 ∧ (RgbFam.rgbToHsl c.lift).c1 = ok ((M - m) / hslDivisor M m)) ∨
    (hslDivisor M m = 0 ∧ (RgbFam.rgbToHsl c.lift).c1 = ok 0) := by
  intro M m
  have hM : (RgbFam.maxMinSep (max c.c0 0) (max c.c1 0) (max c.c2 0)).max = M := rfl
  have hm : (RgbFam.maxMinSep (max c.c0 0) (max c.c1 0) (max c.c2 0)).min = m := rfl
  unfold RgbFam.rgbToHsl V3.lift
  simp only [max0_ok, maxMinSep_lift, eqv_some]
  rw [if_pos hne]
  have e1 : (OfScientific.ofScientific 10 true 1 : ℝ) = 1 := by norm_num
  have e0 : (OfScientific.ofScientific 0 true 1 : ℝ) = 0 := by norm_num
  simp only [ofSci, add_some, sub_some, lt_some, e1, e0, hM, hm]
  have hd : (if 1 < M + m then ok (1 - M + (1 - m)) else ok (M + m)) = ok (hslDivisor M m) := by
    unfold hslDivisor; split_ifs <;> rfl
  rw [hd]
  by_cases h0 : hslDivisor M m = 0
  · right; refine ⟨h0, ?_⟩
    rw [if_pos ((eqv_some _ _).mpr h0)]
  · left; refine ⟨h0, ?_⟩
    rw [if_neg (fun h => h0 ((eqv_some _ _).mp h)), div_some_of_ne _ _ h0]

/-- non-vacuity of `rgbToHsl_sat_defined`, both disjuncts occur: in gamut `(1, 0.5, 0)` the divisor is `1`;
    out of gamut `(1.5, 0.5, 0.5)` it is `(1 − 1.5) + (1 − 0.5) = 0` -/
example : hslDivisor 1 0 ≠ 0 ∧ hslDivisor 1.5 0.5 = 0 := by
  unfold hslDivisor; constructor <;> norm_num

/-- `Hsl ← Rgb` — **every** real input, negative and above 1 included (since the repair c404fc5): behind `max ≠ min` the divisor of
    the hue is `max − min`, and the saturation is defined by `rgbToHsl_sat_defined` (selected divisor non-zero, or the guard answers 0) -/
theorem rgbToHsl_finite_all (c : V3 ℝ) : (RgbFam.rgbToHsl c.lift).Finite := by
  unfold RgbFam.rgbToHsl V3.lift
  simp only [max0_ok]
  obtain ⟨M, m, s, k, h, hle, _, _⟩ := maxMinSep_ok (max c.c0 0) (max c.c1 0) (max c.c2 0)
  simp only [h, eqv_some]
  by_cases hMm : M = m
  · norm_num [hMm]; fin3
  · have hd : M - m ≠ 0 := by intro h; apply hMm; linarith
    rw [if_pos hMm]
    simp only [ofSci, add_some, sub_some, lt_some]
    by_cases hs : (OfScientific.ofScientific 10 true 1 : ℝ) < M + m
    · simp only [if_pos hs, eqv_some]
      split_ifs with hz
      · norm_num [hd]; fin3
      · have hz' : (OfScientific.ofScientific 10 true 1 : ℝ) - M + (OfScientific.ofScientific 10 true 1 - m) ≠ 0 := by
          intro e; apply hz; rw [e]; norm_num
        norm_num [hd] at hz' ⊢; rw [div_some_of_ne _ _ hz']; fin3
    · simp only [if_neg hs, eqv_some]
      split_ifs with hz
      · norm_num [hd]; fin3
      · have hz' : M + m ≠ 0 := by intro e; apply hz; rw [e]; norm_num
        norm_num [hd]; rw [div_some_of_ne _ _ hz']; fin3

/-- `Hsl ← Rgb` for components `≤ 1` (the statement from before the repair c404fc5, kept: it is what the chains below use; it is
    now the special case of `rgbToHsl_finite_all`).  With components `≤ 1` the divisor `(1 − max) + (1 − min)` is zero only for
    `max = min = 1`, so there the guard never fires (`C02Rgb.rgbToHsl_guard_dead`).  (Before the repair 4f36dd5 the divisor was
    `2 − (max + min)`, equal at ℝ, but `max + min` *rounds* to 2 for an `f32` white that arrives as (1+ulp, 1−ulp, 1) — former finding
    `hsl-white-inf`, invisible to exact arithmetic.) -/
theorem rgbToHsl_finite (c : V3 ℝ) (_h0 : c.c0 ≤ 1) (_h1 : c.c1 ≤ 1) (_h2 : c.c2 ≤ 1) : (RgbFam.rgbToHsl c.lift).Finite :=
  rgbToHsl_finite_all c

/-- the former witness `rgbToHsl_out_of_range_poison` (above 1 the divisor `(1 − max) + (1 − min)` vanishes with `max ≠ min`:
    `Rgb(1.5, 0.5, 0.5)`, and in `f32` the Rec.2020 image `(1 + 2⁻²³, 1 − 2⁻²³, 1)` of an sRGB near-white, former finding
    `hsl-white-inf-C07`) is now answered by the guard: saturation `0`, lightness `1`, the hue of the colour -/
theorem rgbToHsl_out_of_range_guarded : RgbFam.rgbToHsl (⟨1.5, 0.5, 0.5⟩ : V3 ℝ).lift = (⟨0, 0, 1⟩ : V3 ℝ).lift := by
  unfold RgbFam.rgbToHsl RgbFam.maxMinSep RgbFam.max0 V3.lift
  norm_num

/-- … and the guard is what does it: the quotient the unrepaired code evaluated there, `d / inverted_sum`, is poison -/
theorem rgbToHsl_unguarded_poison :
    (ok (1.5 - 0.5) : PReal) / (((1.0 : PReal) - ok 1.5) + ((1.0 : PReal) - ok 0.5)) = poison := by
  norm_num

/-- ℝ-free companion, decided by the kernel on Lean's IEEE `Float` by running the *model itself* at `f64`: for `max = 1 + 2⁻⁵²`,
    `min = 1 − 2⁻⁵²` (and the third component anywhere between) `(1 − max) + (1 − min)` is exactly `+0` -- no rounding is involved,
    `−2⁻⁵² + 2⁻⁵²` -- the unguarded quotient is `+inf`, and both branches of the repaired model return saturation `+0`, lightness `1` -/
theorem hsl_divisor_zero_f64 :
    let mx := Float.ofBits 0x3ff0000000000001
    let mn := Float.ofBits 0x3feffffffffffffe
    ((1.0 - mx) + (1.0 - mn)).toBits = 0 ∧ ((mx - mn) / ((1.0 - mx) + (1.0 - mn))).toBits = 0x7ff0000000000000 ∧
    ∀ c ∈ ([⟨mx, mn, 1.0⟩, ⟨mx, 1.0, mn⟩, ⟨1.0, mx, mn⟩, ⟨mn, mx, 1.0⟩, ⟨mn, 1.0, mx⟩, ⟨1.0, mn, mx⟩, ⟨mx, mn, mn⟩, ⟨mx, mx, mn⟩] : List (V3 Float)),
      (RgbFam.rgbToHsl c).c1.toBits = 0 ∧ (RgbFam.rgbToHsl c).c2.toBits = 0x3ff0000000000000 ∧
      (RgbFam.rgbToHslMask c).c1.toBits = 0 ∧ (RgbFam.rgbToHslMask c).c2.toBits = 0x3ff0000000000000 := by decide +kernel

/-- the same at `f32`, on the expression (`Float.toFloat32` is opaque to the kernel, so the model cannot be run there): the Rec.2020
    components of `Hsl<Srgb, f32>(137.5, 0.3217, 0.99999994)` arrive as `max = 1 + 2⁻²³ = 0x3f800001`, `min = 1 − 2⁻²³ = 0x3f7ffffe`
    (former finding `hsl-white-inf-C07`): `max ≠ min`, `max + min > 1`, the selected divisor is exactly `+0`, the quotient `+inf` -/
theorem hsl_divisor_zero_f32 :
    let one := Float32.ofBits 0x3f800000
    let mx := Float32.ofBits 0x3f800001
    let mn := Float32.ofBits 0x3f7ffffe
    mn < mx ∧ one < mx + mn ∧ ((one - mx) + (one - mn)).toBits = 0 ∧
      ((mx - mn) / ((one - mx) + (one - mn))).toBits = 0x7f800000 ∧ ((mx + mn) / Float32.ofBits 0x40000000).toBits = 0x3f800000 := by
  decide +kernel

theorem zones_finite (h c x m : ℝ) : (RgbFam.zones (ok h) (ok c) (ok x) (ok m)).Finite := by
  unfold RgbFam.zones
  simp only [le_some, lt_some, ofSci]
  split_ifs <;> (simp only [add_some]; fin3)

theorem hexX_ok (h c : ℝ) : ∃ r, RgbFam.hexX (ok h) (ok c) = ok r := by
  unfold RgbFam.hexX; norm_num
theorem normalizeUnsigned_ok (h : ℝ) : ∃ r, RgbFam.normalizeUnsigned (ok h) = ok r := by
  unfold RgbFam.normalizeUnsigned; norm_num

/-- `Rgb ← Hsv`, `Rgb ← Hsl`: the only divisions are by the literals `360` and `60` — every real input, every hue -/
theorem hsvToRgb_finite (c : V3 ℝ) : (RgbFam.hsvToRgb c.lift).Finite := by
  unfold RgbFam.hsvToRgb V3.lift
  obtain ⟨n, hn⟩ := normalizeUnsigned_ok c.c0
  simp only [hn]
  norm_num
  obtain ⟨x, hx⟩ := hexX_ok (n / 60) (c.c2 * c.c1)
  simp only [hx]
  exact zones_finite _ _ _ _
theorem hslToRgb_finite (c : V3 ℝ) : (RgbFam.hslToRgb c.lift).Finite := by
  unfold RgbFam.hslToRgb V3.lift
  obtain ⟨n, hn⟩ := normalizeUnsigned_ok c.c0
  simp only [hn]
  norm_num
  obtain ⟨x, hx⟩ := hexX_ok (n / 60) ((1 - |c.c2 * 2 - 1|) * c.c1)
  simp only [hx]
  exact zones_finite _ _ _ _

/-- `Hsv ← Hsl` (`is_valid_divisor(value)`), `Hsl ← Hsv` (three nested selects), `Hsv ← Hwb` (`is_valid_divisor(1 − blackness)`): each
    division sits behind its own select — every real input -/
theorem hslToHsv_finite (c : V3 ℝ) : (RgbFam.hslToHsv c.lift).Finite := by
  unfold RgbFam.hslToHsv V3.lift
  by_cases hl : c.c2 < 0.5
  · simp only [lt_some, ofSci, hl, if_true, mul_some, add_some, valid_some]
    by_cases hv : c.c2 + c.c2 * c.c1 = 0
    · simp [hv]; fin3
    · simp [hv]; fin3
  · simp only [lt_some, ofSci, hl, if_false, mul_some, add_some, sub_some, valid_some]
    by_cases hv : c.c2 + (1.0 - c.c2) * c.c1 = 0
    · simp [hv]; fin3
    · simp [hv]; fin3
theorem hsvToHsl_finite (c : V3 ℝ) : (RgbFam.hsvToHsl c.lift).Finite := by
  unfold RgbFam.hsvToHsl V3.lift
  norm_num
  split_ifs <;> guarded_div
theorem hwbToHsv_finite (c : V3 ℝ) : (RgbFam.hwbToHsv c.lift).Finite := by
  unfold RgbFam.hwbToHsv V3.lift
  norm_num
  split_ifs <;> guarded_div
/-- `Hwb ← Hsv`: no division -/
theorem hsvToHwb_finite (c : V3 ℝ) : (RgbFam.hsvToHwb c.lift).Finite := by
  unfold RgbFam.hsvToHwb V3.lift
  norm_num; fin3

/-! ## composition along a route

  A derived conversion `B::from_color_unclamped(a)` expands into the chain of hand-written edges `Route.routeOf a b` (C01).
  Finiteness is inherited edge by edge **provided each intermediate colour lies in the hypothesis set of the next edge**. -/

/-- two edges with hypothesis sets `P` (of `f`) and `Q` (of `g`): if `f` maps `P` into real colours satisfying `Q`, the composite is finite on `P` -/
theorem comp_finite (f g : V3 PReal → V3 PReal) (P Q : V3 ℝ → Prop)
    (hf : ∀ c, P c → ∃ r : V3 ℝ, f c.lift = r.lift ∧ Q r) (hg : ∀ r, Q r → (g r.lift).Finite) (c : V3 ℝ) (hc : P c) :
    (g (f c.lift)).Finite := by
  obtain ⟨r, hr, hq⟩ := hf c hc
  rw [hr]; exact hg r hq

/-- a chain of edges applied left to right -/
def runEdges : List (V3 PReal → V3 PReal) → V3 PReal → V3 PReal
  | [], v => v
  | e :: es, v => runEdges es (e v)

/-- a chain of edges each of which is finite on **every** real colour is finite on every real colour: nothing has to be checked
    about the intermediates -/
theorem runEdges_finite (es : List (V3 PReal → V3 PReal)) (h : ∀ e ∈ es, ∀ c : V3 ℝ, (e c.lift).Finite) (c : V3 ℝ) :
    (runEdges es c.lift).Finite := by
  induction es generalizing c with
  | nil => exact ⟨c, rfl⟩
  | cons e es ih =>
    obtain ⟨r, hr⟩ := h e (List.mem_cons_self) c
    simp only [runEdges, hr]
    exact ih (fun e' he' => h e' (List.mem_cons_of_mem _ he')) r

/-- the D65 white point as the model reads it (`Wp::get_xyz()`), at `PReal` -/
noncomputable def d65 : V3 ℝ := ⟨0.95047, 1.0, 1.08883⟩
theorem whitePoint_D65 : (Color.whitePoint "D65" : V3 PReal) = d65.lift := by
  have h : Gen.Mat.whitePoints.find? (·.1 == "D65") = some ("D65", [(0.95047 : K), (1.0 : K), (1.08883 : K)]) := by rfl
  unfold Color.whitePoint
  rw [h]
  simp [Color.v3OfK, d65, V3.lift]

/-- the route the derive macros generate for `Lch → Luv`, `Lch → Lchuv`, `Lch → Hsluv` (kernel-evaluated on the extracted graph) -/
theorem route_lch_luv : (Route.routeOf 8 11).map (·.map Route.nameOf) = some ["Lch", "Lab", "Xyz", "Luv"] := by decide +kernel
theorem route_lch_lchuv : (Route.routeOf 8 9).map (·.map Route.nameOf) = some ["Lch", "Lab", "Xyz", "Luv", "Lchuv"] := by decide +kernel
theorem route_lch_hsluv : (Route.routeOf 8 4).map (·.map Route.nameOf) = some ["Lch", "Lab", "Xyz", "Luv", "Lchuv", "Hsluv"] := by decide +kernel
theorem route_hsv_lab : (Route.routeOf 5 7).map (·.map Route.nameOf) = some ["Hsv", "Rgb", "Xyz", "Lab"] := by decide +kernel

/-- **Lch → Lab → Xyz → Luv → Lchuv** (white point D65) is finite on *every* real Lch colour: each edge of the chain is total, so the
    in-range hypothesis is not even needed and no intermediate has to be tracked -/
theorem lch_to_lchuv_finite (c : V3 ℝ) :
    (runEdges [Cie.lchToLab, Cie.labToXyz (Color.whitePoint "D65"), Cie.xyzToLuv (Color.whitePoint "D65"), Cie.luvToLchuv] c.lift).Finite := by
  apply runEdges_finite
  intro e he c
  simp only [List.mem_cons, List.mem_nil_iff, or_false] at he
  rcases he with rfl | rfl | rfl | rfl
  · exact lchToLab_finite c
  · rw [whitePoint_D65]; exact labToXyz_finite d65 c
  · rw [whitePoint_D65]; exact xyzToLuv_finite d65 c (by norm_num [d65]) (by norm_num [d65])
  · exact luvToLchuv_finite c
theorem lch_to_luv_finite (c : V3 ℝ) :
    (runEdges [Cie.lchToLab, Cie.labToXyz (Color.whitePoint "D65"), Cie.xyzToLuv (Color.whitePoint "D65")] c.lift).Finite := by
  apply runEdges_finite
  intro e he c
  simp only [List.mem_cons, List.mem_nil_iff, or_false] at he
  rcases he with rfl | rfl | rfl
  · exact lchToLab_finite c
  · rw [whitePoint_D65]; exact labToXyz_finite d65 c
  · rw [whitePoint_D65]; exact xyzToLuv_finite d65 c (by norm_num [d65]) (by norm_num [d65])

/-- … and the last hop to Hsluv inherits exactly the hypothesis of its own edge (`maxChroma ≠ 0` at the Lchuv colour the chain
    produces): FULL STATEMENT without it is false, black `Lch(0, 0, h)` arrives as `Lchuv(0, 0, 0)`… whose hue 0 happens to miss every
    boundary, while `Lchuv(0, 0, 90)` does not (`lchuvToHsluv_poison`) -/
theorem lch_to_hsluv_finite_partial (c : V3 ℝ)
    (h : ∀ r : V3 ℝ, runEdges [Cie.lchToLab, Cie.labToXyz (Color.whitePoint "D65"), Cie.xyzToLuv (Color.whitePoint "D65"), Cie.luvToLchuv] c.lift = r.lift →
      Cie.maxChroma (ok r.c0) (ok r.c2) ≠ ok 0) :
    (Cie.lchuvToHsluv (runEdges [Cie.lchToLab, Cie.labToXyz (Color.whitePoint "D65"), Cie.xyzToLuv (Color.whitePoint "D65"), Cie.luvToLchuv] c.lift)).Finite := by
  obtain ⟨r, hr⟩ := lch_to_lchuv_finite c
  rw [hr]
  exact lchuvToHsluv_finite_partial r (h r hr)

/-- **Hsv → Rgb → Xyz → Lab** (sRGB, D65): total as well -/
theorem hsv_to_lab_finite (c : V3 ℝ) :
    (runEdges [RgbFam.hsvToRgb, RgbFam.rgbToXyz srgbToXyz .srgb, Cie.xyzToLab (Color.whitePoint "D65")] c.lift).Finite := by
  apply runEdges_finite
  intro e he c
  simp only [List.mem_cons, List.mem_nil_iff, or_false] at he
  rcases he with rfl | rfl | rfl
  · exact hsvToRgb_finite c
  · exact rgbToXyz_srgb_finite c
  · rw [whitePoint_D65]; exact xyzToLab_finite d65 c (by norm_num [d65]) (by norm_num [d65]) (by norm_num [d65])

/-- a chain whose intermediate was tracked: `Hsl<S₁> → Rgb<S₁> → … → Rgb<S₂> → Hsl<S₂>` needed the recovered RGB components `≤ 1`
    for the last edge (`rgbToHsl_finite`) before the repair c404fc5; kept as stated.  Since the repair the last edge is total
    (`rgb_then_hsl_finite_all` below): a colour outside the target gamut is answered by the guard (`rgbToHsl_out_of_range_guarded`) -/
theorem rgb_then_hsl_finite (f : V3 PReal → V3 PReal) (P : V3 ℝ → Prop)
    (hf : ∀ c, P c → ∃ r : V3 ℝ, f c.lift = r.lift ∧ (r.c0 ≤ 1 ∧ r.c1 ≤ 1 ∧ r.c2 ≤ 1)) (c : V3 ℝ) (hc : P c) :
    (RgbFam.rgbToHsl (f c.lift)).Finite :=
  comp_finite f RgbFam.rgbToHsl P (fun r => r.c0 ≤ 1 ∧ r.c1 ≤ 1 ∧ r.c2 ≤ 1) hf (fun r hr => rgbToHsl_finite r hr.1 hr.2.1 hr.2.2) c hc

/-- **`… → Rgb<S₂> → Hsl<S₂>` without tracking the intermediate** (repair c404fc5): whatever finite RGB colour the chain in front
    produces -- inside the target gamut or not -- the last edge divides by nothing that is zero -/
theorem rgb_then_hsl_finite_all (f : V3 PReal → V3 PReal) (P : V3 ℝ → Prop)
    (hf : ∀ c, P c → (f c.lift).Finite) (c : V3 ℝ) (hc : P c) :
    (RgbFam.rgbToHsl (f c.lift)).Finite := by
  obtain ⟨r, hr⟩ := hf c hc
  rw [hr]; exact rgbToHsl_finite_all r

end C07
