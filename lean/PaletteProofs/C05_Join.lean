/-
  C05 (float curves at ℝ) — what the published constants leave where the linear and the power segment meet:
  the size and sign of the join step of sRGB and Rec.709/2020 (both directions), monotonicity over the whole of `[0, ∞)` apart from
  that step, and the Rec. power segment as the exact inverse of its decoder.  ProPhoto's join is exact (`C05T.prophoto_join`), the
  pure power laws have none.

  | curve            | at            | right − left            | proved                         |
  |------------------|---------------|-------------------------|--------------------------------|
  | sRGB  encode     | 0.0031308     | −2.85e-8  (down)        | `srgb_from_join_step`          |
  | sRGB  decode     | 0.04045       | +2.33e-9  (up)          | `srgb_into_join_step`          |
  | Rec.  encode     | β             | +2.5e-15  (up)          | `rec_from_join_step`           |
  | Rec.  decode     | 4.5·β         | −5.5e-16  (down)        | `rec_into_join_step`           |

  All of it is rational arithmetic after clearing the exponents 5/12, 12/5, 9/20, 20/9 (`norm_num` on integers of ≤ 350 digits).
-/
import PaletteProofs.C05_Transfer
import PaletteProofs.Lemmas.C05_ErrReal

namespace C05T
open Transfer C05E

/-! ### power values at the thresholds, enclosed between decimals -/

/-- `0.0031308^(5/12) ∈ (0.09047384595, 0.09047384596)` -/
theorem srgb_knee_pow : (0.09047384595:ℝ) < (0.0031308:ℝ) ^ ((1.0:ℝ) / 2.4) ∧ (0.0031308:ℝ) ^ ((1.0:ℝ) / 2.4) < 0.09047384596 := by
  have he : ((1.0:ℝ) / 2.4) = ((5:ℕ):ℝ) / ((12:ℕ):ℝ) := by norm_num
  rw [he]
  exact ⟨lt_rpow_div_of_pow_lt (by norm_num) (by norm_num) (by norm_num) (by norm_num),
         rpow_div_lt_of_pow_lt (by norm_num) (by norm_num) (by norm_num) (by norm_num)⟩

/-- `((0.04045 + 0.055)/1.055)^2.4 ∈ (0.00313080728, 0.00313080729)` -/
theorem srgb_knee_pow_inv : (0.00313080728:ℝ) < ((0.04045:ℝ) * ((1.0:ℝ) / 1.055) + (0.055:ℝ) / 1.055) ^ (2.4:ℝ) ∧
    ((0.04045:ℝ) * ((1.0:ℝ) / 1.055) + (0.055:ℝ) / 1.055) ^ (2.4:ℝ) < 0.00313080729 := by
  have he : (2.4:ℝ) = ((12:ℕ):ℝ) / ((5:ℕ):ℝ) := by norm_num
  have hz : ((0.04045:ℝ) * ((1.0:ℝ) / 1.055) + (0.055:ℝ) / 1.055) = 1909 / 21100 := by norm_num
  rw [he, hz]
  exact ⟨lt_rpow_div_of_pow_lt (by norm_num) (by norm_num) (by norm_num) (by norm_num),
         rpow_div_lt_of_pow_lt (by norm_num) (by norm_num) (by norm_num) (by norm_num)⟩

/-- `β^0.45 ∈ (0.1642319714795000, 0.1642319714795020)` -/
theorem rec_knee_pow : (0.1642319714795000:ℝ) < (0.018053968510807:ℝ) ^ (0.45:ℝ) ∧ (0.018053968510807:ℝ) ^ (0.45:ℝ) < 0.1642319714795020 := by
  have he : (0.45:ℝ) = ((9:ℕ):ℝ) / ((20:ℕ):ℝ) := by norm_num
  rw [he]
  exact ⟨lt_rpow_div_of_pow_lt (by norm_num) (by norm_num) (by norm_num) (by norm_num),
         rpow_div_lt_of_pow_lt (by norm_num) (by norm_num) (by norm_num) (by norm_num)⟩

/-! ### value lemmas for the Rec. curves (the sRGB ones are in `C05_Transfer.lean`) -/

theorem recFrom_pw {x : ℝ} (h : ¬ x < 0.018053968510807) :
    recFromLinear x = x ^ (0.45:ℝ) * 1.09929682680944 - (1.09929682680944 - 1.0) := by
  unfold recFromLinear; exact if_neg h

theorem recInto_hi {x : ℝ} (h : ¬ x < (4.5:ℝ) * 0.018053968510807) :
    recIntoLinear x = (x * ((1.0:ℝ) / 1.09929682680944) + (1.0 - (1.0:ℝ) / 1.09929682680944)) ^ ((1.0:ℝ) / 0.45) := by
  unfold recIntoLinear; exact if_neg h

/-- `((4.5β + α − 1)/α)^(1/0.45) ∈ (0.0180539685108064, 0.0180539685108065)` -/
theorem rec_knee_pow_inv :
    (0.0180539685108064:ℝ) < ((4.5:ℝ) * 0.018053968510807 * ((1.0:ℝ) / 1.09929682680944) + (1.0 - (1.0:ℝ) / 1.09929682680944)) ^ ((1.0:ℝ) / 0.45) ∧
    ((4.5:ℝ) * 0.018053968510807 * ((1.0:ℝ) / 1.09929682680944) + (1.0 - (1.0:ℝ) / 1.09929682680944)) ^ ((1.0:ℝ) / 0.45) < 0.0180539685108065 := by
  have he : ((1.0:ℝ) / 0.45) = ((20:ℕ):ℝ) / ((9:ℕ):ℝ) := by norm_num
  have hz : ((4.5:ℝ) * 0.018053968510807 * ((1.0:ℝ) / 1.09929682680944) + (1.0 - (1.0:ℝ) / 1.09929682680944)) =
      1805396851080715 / 10992968268094400 := by norm_num
  rw [he, hz]
  exact ⟨lt_rpow_div_of_pow_lt (by norm_num) (by norm_num) (by norm_num) (by norm_num),
         rpow_div_lt_of_pow_lt (by norm_num) (by norm_num) (by norm_num) (by norm_num)⟩

/-! ### the join steps -/

/-- sRGB encoding at `x = 0.0031308`: the power segment starts **below** the end of the toe, by less than 2.9e-8 (< 1e-6) -/
theorem srgb_from_join_step :
    (2.8e-8:ℝ) < 12.92 * 0.0031308 - ((0.0031308:ℝ) ^ ((1.0:ℝ) / 2.4) * 1.055 - 0.055) ∧
    (12.92:ℝ) * 0.0031308 - ((0.0031308:ℝ) ^ ((1.0:ℝ) / 2.4) * 1.055 - 0.055) < 2.9e-8 := by
  obtain ⟨h1, h2⟩ := srgb_knee_pow
  constructor <;> norm_num at h1 h2 ⊢ <;> linarith

/-- sRGB decoding at `e = 0.04045`: the power segment starts **above** the end of the toe, by less than 2.4e-9 -/
theorem srgb_into_join_step :
    (2.3e-9:ℝ) < ((0.04045:ℝ) * ((1.0:ℝ) / 1.055) + (0.055:ℝ) / 1.055) ^ (2.4:ℝ) - (1.0:ℝ) / 12.92 * 0.04045 ∧
    ((0.04045:ℝ) * ((1.0:ℝ) / 1.055) + (0.055:ℝ) / 1.055) ^ (2.4:ℝ) - (1.0:ℝ) / 12.92 * 0.04045 < 2.4e-9 := by
  obtain ⟨h1, h2⟩ := srgb_knee_pow_inv
  constructor <;> norm_num at h1 h2 ⊢ <;> linarith

/-- Rec. encoding at `x = β`: the power segment starts **above** the end of the toe, by less than 4e-15 -/
theorem rec_from_join_step :
    (0:ℝ) < ((0.018053968510807:ℝ) ^ (0.45:ℝ) * 1.09929682680944 - (1.09929682680944 - 1.0)) - 4.5 * 0.018053968510807 ∧
    ((0.018053968510807:ℝ) ^ (0.45:ℝ) * 1.09929682680944 - (1.09929682680944 - 1.0)) - 4.5 * 0.018053968510807 < 4e-15 := by
  obtain ⟨h1, h2⟩ := rec_knee_pow
  constructor <;> norm_num at h1 h2 ⊢ <;> linarith

/-- Rec. decoding at `e = 4.5·β`: the power segment starts **below** the end of the toe, by less than 6e-16 -/
theorem rec_into_join_step :
    (5e-16:ℝ) < (1.0:ℝ) / 4.5 * (4.5 * 0.018053968510807) -
      ((4.5:ℝ) * 0.018053968510807 * ((1.0:ℝ) / 1.09929682680944) + (1.0 - (1.0:ℝ) / 1.09929682680944)) ^ ((1.0:ℝ) / 0.45) ∧
    (1.0:ℝ) / 4.5 * (4.5 * 0.018053968510807) -
      ((4.5:ℝ) * 0.018053968510807 * ((1.0:ℝ) / 1.09929682680944) + (1.0 - (1.0:ℝ) / 1.09929682680944)) ^ ((1.0:ℝ) / 0.45) < 6e-16 := by
  obtain ⟨h1, h2⟩ := rec_knee_pow_inv
  constructor <;> norm_num at h1 h2 ⊢ <;> linarith

/-- the steps are the jumps of the model functions themselves: left value = toe at the threshold, right limit = power formula there -/
theorem srgb_from_at_knee : srgbFromLinear (0.0031308:ℝ) = 12.92 * 0.0031308 := srgbFrom_lo (le_refl _)
theorem srgb_into_at_knee : srgbIntoLinear (0.04045:ℝ) = (1.0:ℝ) / 12.92 * 0.04045 := srgbInto_lo (le_refl _)
theorem rec_from_at_knee : recFromLinear (0.018053968510807:ℝ) =
    (0.018053968510807:ℝ) ^ (0.45:ℝ) * 1.09929682680944 - (1.09929682680944 - 1.0) := recFrom_pw (lt_irrefl _)
theorem rec_into_at_knee : recIntoLinear ((4.5:ℝ) * 0.018053968510807) =
    ((4.5:ℝ) * 0.018053968510807 * ((1.0:ℝ) / 1.09929682680944) + (1.0 - (1.0:ℝ) / 1.09929682680944)) ^ ((1.0:ℝ) / 0.45) :=
  recInto_hi (lt_irrefl _)

/-! ### monotone over the whole half line, apart from the step -/

theorem rec_from_mono_power {x y : ℝ} (hx : 0.018053968510807 ≤ x) (h : x ≤ y) : recFromLinear x ≤ recFromLinear y := by
  rw [recFrom_pw (not_lt.mpr hx), recFrom_pw (not_lt.mpr (le_trans hx h))]
  have := Real.rpow_le_rpow (by linarith) h (show (0:ℝ) ≤ 0.45 by norm_num)
  linarith

theorem srgb_into_mono_power {x y : ℝ} (hx : 0.04045 < x) (h : x ≤ y) : srgbIntoLinear x ≤ srgbIntoLinear y := by
  rw [srgbInto_hi (not_le.mpr hx), srgbInto_hi (not_le.mpr (lt_of_lt_of_le hx h))]
  apply Real.rpow_le_rpow
  · have : (0:ℝ) ≤ x * ((1.0:ℝ) / 1.055) := by apply mul_nonneg <;> [linarith; norm_num]
    have : (0:ℝ) ≤ (0.055:ℝ) / 1.055 := by norm_num
    linarith
  · have : x * ((1.0:ℝ) / 1.055) ≤ y * ((1.0:ℝ) / 1.055) := mul_le_mul_of_nonneg_right h (by norm_num)
    linarith
  · norm_num

theorem rec_into_mono_power {x y : ℝ} (hx : (4.5:ℝ) * 0.018053968510807 ≤ x) (h : x ≤ y) : recIntoLinear x ≤ recIntoLinear y := by
  rw [recInto_hi (not_lt.mpr hx), recInto_hi (not_lt.mpr (le_trans hx h))]
  apply Real.rpow_le_rpow
  · have h0 : (0:ℝ) ≤ x := by norm_num at hx; linarith
    have : (0:ℝ) ≤ x * ((1.0:ℝ) / 1.09929682680944) := mul_nonneg h0 (by norm_num)
    have : (0:ℝ) ≤ (1.0 - (1.0:ℝ) / 1.09929682680944) := by norm_num
    linarith
  · have : x * ((1.0:ℝ) / 1.09929682680944) ≤ y * ((1.0:ℝ) / 1.09929682680944) := mul_le_mul_of_nonneg_right h (by norm_num)
    linarith
  · norm_num

/-- **sRGB encoding is monotone on all of ℝ apart from the join step**: `x ≤ y → f x ≤ f y + 2.9e-8` (the constant is the step) -/
theorem srgb_from_mono_upto_step {x y : ℝ} (h : x ≤ y) : srgbFromLinear x ≤ srgbFromLinear y + 2.9e-8 := by
  by_cases hy : y ≤ 0.0031308
  · have := srgb_from_mono_toe h hy; linarith
  · by_cases hx : x ≤ 0.0031308
    · -- x on the toe, y on the power segment: f x ≤ toe(knee) < power(knee) + step ≤ f y + step
      have hy' : (0.0031308:ℝ) < y := not_le.mp hy
      rw [srgbFrom_lo hx, srgbFrom_hi hy]
      have hp := Real.rpow_le_rpow (by norm_num) (le_of_lt hy') (show (0:ℝ) ≤ (1.0:ℝ) / 2.4 by norm_num)
      have hs := srgb_from_join_step.2
      linarith
    · have := srgb_from_mono_power (not_le.mp hx) h; linarith

/-- **sRGB decoding is monotone on all of ℝ** (its join step goes up) -/
theorem srgb_into_mono {x y : ℝ} (h : x ≤ y) : srgbIntoLinear x ≤ srgbIntoLinear y := by
  by_cases hy : y ≤ 0.04045
  · rw [srgbInto_lo (le_trans h hy), srgbInto_lo hy]
    have : (0:ℝ) ≤ (1.0:ℝ) / 12.92 := by norm_num
    exact mul_le_mul_of_nonneg_left h this
  · by_cases hx : x ≤ 0.04045
    · have hy' : (0.04045:ℝ) < y := not_le.mp hy
      have h1 : srgbIntoLinear x ≤ (1.0:ℝ) / 12.92 * 0.04045 := by
        rw [srgbInto_lo hx]; exact mul_le_mul_of_nonneg_left hx (by norm_num)
      have h2 := srgb_into_join_step.1
      have h3 : ((0.04045:ℝ) * ((1.0:ℝ) / 1.055) + (0.055:ℝ) / 1.055) ^ (2.4:ℝ) ≤ srgbIntoLinear y := by
        rw [srgbInto_hi hy]
        apply Real.rpow_le_rpow (by norm_num) _ (by norm_num)
        have : (0.04045:ℝ) * ((1.0:ℝ) / 1.055) ≤ y * ((1.0:ℝ) / 1.055) := mul_le_mul_of_nonneg_right (le_of_lt hy') (by norm_num)
        linarith
      linarith
    · exact srgb_into_mono_power (not_le.mp hx) h

/-- **Rec. encoding is monotone on all of ℝ** (its join step goes up) -/
theorem rec_from_mono {x y : ℝ} (h : x ≤ y) : recFromLinear x ≤ recFromLinear y := by
  by_cases hy : y < 0.018053968510807
  · rw [recFrom_lo (lt_of_le_of_lt h hy), recFrom_lo hy]; linarith
  · by_cases hx : x < 0.018053968510807
    · have hy' : (0.018053968510807:ℝ) ≤ y := not_lt.mp hy
      have h1 : recFromLinear x ≤ 4.5 * 0.018053968510807 := by rw [recFrom_lo hx]; linarith
      have h2 := rec_from_join_step.1
      have h3 := rec_from_mono_power (le_refl _) hy'
      rw [rec_from_at_knee] at h3
      linarith
    · exact rec_from_mono_power (not_lt.mp hx) h

/-- **Rec. decoding is monotone on all of ℝ apart from the join step** (6e-16) -/
theorem rec_into_mono_upto_step {x y : ℝ} (h : x ≤ y) : recIntoLinear x ≤ recIntoLinear y + 6e-16 := by
  by_cases hy : y < (4.5:ℝ) * 0.018053968510807
  · rw [recInto_lo (lt_of_le_of_lt h hy), recInto_lo hy]
    have : (1.0:ℝ) / 4.5 * x ≤ (1.0:ℝ) / 4.5 * y := mul_le_mul_of_nonneg_left h (by norm_num)
    linarith
  · by_cases hx : x < (4.5:ℝ) * 0.018053968510807
    · have hy' : (4.5:ℝ) * 0.018053968510807 ≤ y := not_lt.mp hy
      have h1 : recIntoLinear x ≤ (1.0:ℝ) / 4.5 * (4.5 * 0.018053968510807) := by
        rw [recInto_lo hx]; exact mul_le_mul_of_nonneg_left (le_of_lt hx) (by norm_num)
      have h2 := rec_into_join_step.2
      have h3 := rec_into_mono_power (le_refl _) hy'
      rw [rec_into_at_knee] at h3
      linarith
    · have := rec_into_mono_power (not_lt.mp hx) h; linarith

/-! ### Rec.: the power segment is the exact inverse of the decoder — on the whole half line, no side condition -/

/-- on the power segment the encoded value is at or above the decoder's knee (because the join step goes up) -/
theorem rec_from_above_knee {x : ℝ} (hx : 0.018053968510807 ≤ x) : ¬ recFromLinear x < (4.5:ℝ) * 0.018053968510807 := by
  have h1 := rec_from_mono_power (le_refl _) hx
  rw [rec_from_at_knee] at h1
  have h2 := rec_from_join_step.1
  rw [not_lt]; linarith

theorem rec_into_from_power (x : ℝ) (hx : 0.018053968510807 ≤ x) : recIntoLinear (recFromLinear x) = x := by
  rw [recInto_hi (rec_from_above_knee hx), recFrom_pw (not_lt.mpr hx)]
  have e : (x ^ (0.45:ℝ) * 1.09929682680944 - (1.09929682680944 - 1.0)) * ((1.0:ℝ) / 1.09929682680944) + (1.0 - (1.0:ℝ) / 1.09929682680944)
      = x ^ (0.45:ℝ) := by
    generalize x ^ (0.45:ℝ) = y
    norm_num; ring
  rw [e]
  exact rpow_rpow_inv (by linarith) (by norm_num)

/-- **Rec.709/2020: decoding inverts encoding exactly, for every `x`** (toe and power segment) -/
theorem rec_into_from (x : ℝ) : recIntoLinear (recFromLinear x) = x := by
  by_cases h : x < 0.018053968510807
  · exact rec_into_from_toe x h
  · exact rec_into_from_power x (not_lt.mp h)

/-! ### sRGB: the knee condition of `srgb_into_from_power` holds from `0.00313080729` on; below it the round trip is off by < 1e-8 -/

/-- the explicit knee condition of `C05T.srgb_into_from_power` holds for every `x ≥ 0.00313080729` -/
theorem srgb_knee_condition {x : ℝ} (hx : 0.00313080729 ≤ x) : (0.04045 : ℝ) < x ^ ((1.0:ℝ) / 2.4) * 1.055 - 0.055 := by
  -- z := (0.04045+0.055)/1.055 = 1909/21100 ; z^(12/5) < 0.00313080729 ≤ x  ⇒  z < x^(5/12)
  have hz := srgb_knee_pow_inv.2
  have hz' : ((0.04045:ℝ) * ((1.0:ℝ) / 1.055) + (0.055:ℝ) / 1.055) = 1909 / 21100 := by norm_num
  rw [hz'] at hz
  have h1 : ((1909:ℝ) / 21100) ^ (2.4:ℝ) < x := lt_of_lt_of_le hz hx
  have h2 : (((1909:ℝ) / 21100) ^ (2.4:ℝ)) ^ ((1.0:ℝ) / 2.4) < x ^ ((1.0:ℝ) / 2.4) :=
    Real.rpow_lt_rpow (Real.rpow_nonneg (by norm_num) _) h1 (by norm_num)
  rw [rpow_rpow_inv (by norm_num) (by norm_num)] at h2
  norm_num at h2 ⊢; linarith

/-- **sRGB: decoding inverts encoding exactly on `[0.00313080729, ∞)` and on the toe `(−∞, 0.0031308]`** -/
theorem srgb_into_from (x : ℝ) (hx : x ≤ 0.0031308 ∨ 0.00313080729 ≤ x) : srgbIntoLinear (srgbFromLinear x) = x := by
  rcases hx with h | h
  · exact srgb_into_from_toe x h
  · exact srgb_into_from_power x (by linarith) (srgb_knee_condition h)

/-- **and in the sliver in between (width 7.3e-12·10³, where the published constants overlap) the round trip is off by less than 1e-8** -/
theorem srgb_into_from_sliver (x : ℝ) (h1 : 0.0031308 < x) (h2 : x < 0.00313080729) :
    |srgbIntoLinear (srgbFromLinear x) - x| < 1e-8 := by
  rw [srgbFrom_hi (not_le.mpr h1)]
  -- bounds on y = x^(5/12)·1.055 − 0.055 from monotonicity between the two enclosures
  have hlo : (0.0031308:ℝ) ^ ((1.0:ℝ) / 2.4) ≤ x ^ ((1.0:ℝ) / 2.4) := Real.rpow_le_rpow (by norm_num) (le_of_lt h1) (by norm_num)
  have hk := srgb_knee_pow.1
  have hz := srgb_knee_pow_inv.1
  -- x < 0.00313080729 ⇒ x^(5/12) < 0.00313080729^(5/12) < 0.0904739340
  have hhi : x ^ ((1.0:ℝ) / 2.4) < 0.0904739340 := by
    have a := Real.rpow_lt_rpow (by linarith) h2 (show (0:ℝ) < (1.0:ℝ) / 2.4 by norm_num)
    have he : ((1.0:ℝ) / 2.4) = ((5:ℕ):ℝ) / ((12:ℕ):ℝ) := by norm_num
    have b : (0.00313080729:ℝ) ^ ((1.0:ℝ) / 2.4) < 0.0904739340 := by
      rw [he]; exact rpow_div_lt_of_pow_lt (by norm_num) (by norm_num) (by norm_num) (by norm_num)
    linarith
  set y := x ^ ((1.0:ℝ) / 2.4) * 1.055 - 0.055 with hy
  have y1 : (0.0404499:ℝ) < y := by rw [hy]; norm_num at hk ⊢; linarith
  have y2 : y < 0.0404500004 := by rw [hy]; norm_num at hhi ⊢; linarith
  by_cases hc : y ≤ 0.04045
  · rw [srgbInto_lo hc, abs_lt]
    constructor <;> norm_num <;> linarith
  · -- above the decoder's knee the round trip is exact
    have : srgbIntoLinear y = x := by
      rw [srgbInto_hi hc, hy]
      have e : (x ^ ((1.0:ℝ) / 2.4) * 1.055 - 0.055) * ((1.0:ℝ) / 1.055) + (0.055:ℝ) / 1.055 = x ^ ((1.0:ℝ) / 2.4) := by sring
      rw [e]; exact rpow_rpow_inv (by linarith) (by norm_num)
    rw [this]; norm_num

/-! ### the other composition, encode ∘ decode: exact outside the same slivers -/

/-- `0.03125^1.8 = 2⁻⁹` (the ProPhoto join, read in the decoding direction) -/
theorem prophoto_join_inv : (0.03125 : ℝ) ^ (1.8:ℝ) = 0.001953125 := by
  rw [← prophoto_join]; exact rpow_rpow_inv (by norm_num) (by norm_num)

/-- **ProPhoto: encoding inverts decoding exactly, every `e ≥ 0`** -/
theorem prophoto_from_into (e : ℝ) (he : 0 ≤ e) : prophotoFromLinear (prophotoIntoLinear e) = e := by
  by_cases h : e < 0.03125
  · have h2 : (1.0:ℝ) / 16.0 * e < 0.001953125 := by norm_num; linarith
    rw [prophotoInto_lo h, prophotoFrom_lo h2]; sring
  · have hge : (0.03125:ℝ) ≤ e := not_lt.mp h
    have h2 : ¬ (e ^ (1.8:ℝ) < 0.001953125) := by
      rw [not_lt, ← prophoto_join_inv]; exact Real.rpow_le_rpow (by norm_num) hge (by norm_num)
    rw [prophotoInto_hi h, prophotoFrom_hi h2]
    exact rpow_rpow_inv he (by norm_num)

/-- sRGB, encode ∘ decode on the toe: exact while `e/12.92` is still on the encoder's toe, i.e. `e ≤ 12.92·0.0031308 = 0.040449936` -/
theorem srgb_from_into_toe (e : ℝ) (h : e ≤ 0.040449936) : srgbFromLinear (srgbIntoLinear e) = e := by
  have h1 : e ≤ 0.04045 := by linarith
  have h2 : (1.0:ℝ) / 12.92 * e ≤ 0.0031308 := by norm_num; linarith
  rw [srgbInto_lo h1, srgbFrom_lo h2]; sring

/-- sRGB, encode ∘ decode on the power segment: exact for every `e > 0.04045` (the decoder's join step goes up, so the decoded value
    is above the encoder's knee) -/
theorem srgb_from_into_power (e : ℝ) (h : 0.04045 < e) : srgbFromLinear (srgbIntoLinear e) = e := by
  have hb : (0.04045:ℝ) * ((1.0:ℝ) / 1.055) + (0.055:ℝ) / 1.055 ≤ e * ((1.0:ℝ) / 1.055) + (0.055:ℝ) / 1.055 := by
    have : (0.04045:ℝ) * ((1.0:ℝ) / 1.055) ≤ e * ((1.0:ℝ) / 1.055) := mul_le_mul_of_nonneg_right (le_of_lt h) (by norm_num)
    linarith
  have hb0 : (0:ℝ) ≤ e * ((1.0:ℝ) / 1.055) + (0.055:ℝ) / 1.055 := le_trans (by norm_num) hb
  have hw : ¬ ((e * ((1.0:ℝ) / 1.055) + (0.055:ℝ) / 1.055) ^ (2.4:ℝ) ≤ 0.0031308) := by
    have := Real.rpow_le_rpow (by norm_num) hb (show (0:ℝ) ≤ 2.4 by norm_num)
    have := srgb_knee_pow_inv.1
    rw [not_le]; linarith
  rw [srgbInto_hi (not_le.mpr h), srgbFrom_hi hw, rpow_rpow_inv hb0 (by norm_num)]
  sring

/-- sRGB, encode ∘ decode in the sliver `(0.040449936, 0.04045]` between the two published knees: off by less than 1e-7 -/
theorem srgb_from_into_sliver (e : ℝ) (h1 : 0.040449936 < e) (h2 : e ≤ 0.04045) : |srgbFromLinear (srgbIntoLinear e) - e| < 1e-7 := by
  rw [srgbInto_lo h2]
  have hx1 : (0.0031308:ℝ) < (1.0:ℝ) / 12.92 * e := by norm_num; linarith
  have hx2 : (1.0:ℝ) / 12.92 * e ≤ 0.00313080496 := by norm_num; linarith
  rw [srgbFrom_hi (not_le.mpr hx1)]
  have he : ((1.0:ℝ) / 2.4) = ((5:ℕ):ℝ) / ((12:ℕ):ℝ) := by norm_num
  have lo := lt_of_lt_of_le srgb_knee_pow.1 (Real.rpow_le_rpow (by norm_num) (le_of_lt hx1) (show (0:ℝ) ≤ (1.0:ℝ) / 2.4 by norm_num))
  have hi : ((1.0:ℝ) / 12.92 * e) ^ ((1.0:ℝ) / 2.4) < 0.0904739062 := by
    have a := Real.rpow_le_rpow (by linarith) hx2 (show (0:ℝ) ≤ (1.0:ℝ) / 2.4 by norm_num)
    have b : (0.00313080496:ℝ) ^ ((1.0:ℝ) / 2.4) < 0.0904739062 := by
      rw [he]; exact rpow_div_lt_of_pow_lt (by norm_num) (by norm_num) (by norm_num) (by norm_num)
    linarith
  rw [abs_lt]
  constructor <;> norm_num at lo hi ⊢ <;> linarith

/-- `((0.08124285829864 + α − 1)/α)^(1/0.45) ≥ β`: from this encoded value on, the decoded value is on the encoder's power segment -/
theorem rec_knee_pow_inv_hi : (0.018053968510807:ℝ) <
    ((0.08124285829864:ℝ) * ((1.0:ℝ) / 1.09929682680944) + (1.0 - (1.0:ℝ) / 1.09929682680944)) ^ ((1.0:ℝ) / 0.45) := by
  have he : ((1.0:ℝ) / 0.45) = ((20:ℕ):ℝ) / ((9:ℕ):ℝ) := by norm_num
  have hz : ((0.08124285829864:ℝ) * ((1.0:ℝ) / 1.09929682680944) + (1.0 - (1.0:ℝ) / 1.09929682680944)) =
      18053968510808 / 109929682680944 := by norm_num
  rw [he, hz]
  exact lt_rpow_div_of_pow_lt (by norm_num) (by norm_num) (by norm_num) (by norm_num)

/-- Rec., encode ∘ decode: exact on the toe (`e < 4.5β`) and from `0.08124285829864` (= 4.5β + 8.5e-15) on -/
theorem rec_from_into (e : ℝ) (h : e < (4.5:ℝ) * 0.018053968510807 ∨ 0.08124285829864 ≤ e) : recFromLinear (recIntoLinear e) = e := by
  rcases h with h | h
  · have h2 : (1.0:ℝ) / 4.5 * e < 0.018053968510807 := by norm_num at h ⊢; linarith
    rw [recInto_lo h, recFrom_lo h2]; sring
  · have hk : ¬ e < (4.5:ℝ) * 0.018053968510807 := by norm_num; linarith
    have hb : (0.08124285829864:ℝ) * ((1.0:ℝ) / 1.09929682680944) + (1.0 - (1.0:ℝ) / 1.09929682680944) ≤
        e * ((1.0:ℝ) / 1.09929682680944) + (1.0 - (1.0:ℝ) / 1.09929682680944) := by
      have : (0.08124285829864:ℝ) * ((1.0:ℝ) / 1.09929682680944) ≤ e * ((1.0:ℝ) / 1.09929682680944) :=
        mul_le_mul_of_nonneg_right h (by norm_num)
      linarith
    have hb0 : (0:ℝ) ≤ e * ((1.0:ℝ) / 1.09929682680944) + (1.0 - (1.0:ℝ) / 1.09929682680944) := le_trans (by norm_num) hb
    have hw : ¬ ((e * ((1.0:ℝ) / 1.09929682680944) + (1.0 - (1.0:ℝ) / 1.09929682680944)) ^ ((1.0:ℝ) / 0.45) < 0.018053968510807) := by
      have := Real.rpow_le_rpow (by norm_num) hb (show (0:ℝ) ≤ (1.0:ℝ) / 0.45 by norm_num)
      have := rec_knee_pow_inv_hi
      rw [not_lt]; linarith
    rw [recInto_hi hk, recFrom_pw hw, rpow_rpow_inv hb0 (by norm_num)]
    sring

/-- Rec., encode ∘ decode in the sliver `[4.5β, 4.5β + 8.5e-15)`: off by less than 1e-12 -/
theorem rec_from_into_sliver (e : ℝ) (h1 : (4.5:ℝ) * 0.018053968510807 ≤ e) (h2 : e < 0.08124285829864) :
    |recFromLinear (recIntoLinear e) - e| < 1e-12 := by
  have hk : ¬ e < (4.5:ℝ) * 0.018053968510807 := not_lt.mpr h1
  have hb : (4.5:ℝ) * 0.018053968510807 * ((1.0:ℝ) / 1.09929682680944) + (1.0 - (1.0:ℝ) / 1.09929682680944) ≤
      e * ((1.0:ℝ) / 1.09929682680944) + (1.0 - (1.0:ℝ) / 1.09929682680944) := by
    have : (4.5:ℝ) * 0.018053968510807 * ((1.0:ℝ) / 1.09929682680944) ≤ e * ((1.0:ℝ) / 1.09929682680944) :=
      mul_le_mul_of_nonneg_right h1 (by norm_num)
    linarith
  have hb0 : (0:ℝ) ≤ e * ((1.0:ℝ) / 1.09929682680944) + (1.0 - (1.0:ℝ) / 1.09929682680944) := le_trans (by norm_num) hb
  have hwlo := lt_of_lt_of_le rec_knee_pow_inv.1 (Real.rpow_le_rpow (by norm_num) hb (show (0:ℝ) ≤ (1.0:ℝ) / 0.45 by norm_num))
  rw [recInto_hi hk]
  by_cases hw : (e * ((1.0:ℝ) / 1.09929682680944) + (1.0 - (1.0:ℝ) / 1.09929682680944)) ^ ((1.0:ℝ) / 0.45) < 0.018053968510807
  · rw [recFrom_lo hw, abs_lt]
    constructor <;> norm_num at hwlo hw h1 h2 ⊢ <;> linarith
  · rw [recFrom_pw hw, rpow_rpow_inv hb0 (by norm_num)]
    have : (e * ((1.0:ℝ) / 1.09929682680944) + (1.0 - (1.0:ℝ) / 1.09929682680944)) * 1.09929682680944 - (1.09929682680944 - 1.0) = e := by sring
    rw [this]; norm_num

end C05T
