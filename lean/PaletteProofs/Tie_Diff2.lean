/-
  Tie of the colour-difference model (`PaletteModel/Diff.lean`, C09) to the *text* of the Rust functions, second part: what the header of
  Gen/BodiesDiff.lean lists as NOT translated.

  `tools/extract.py` (plugin `tools/extract_plugins/diff2.py`, translator `tools/rust2lean_diff2.py`, family `diff2`) re-translates on every run
  into `Gen.BodyDiff2.*` (lean/PaletteModel/Gen/BodiesDiff2.lean):
    * relative_contrast.rs, the deprecated `RelativeContrast` trait: the free function `contrast_ratio` (a `lazy_select!` on `luma1 > luma2` where
      `Wcag21RelativeContrast::relative_contrast` uses `min_max`), the five default predicates (two of them forward to another predicate), and the
      `get_contrast_ratio` of every `impl RelativeContrast for <Ty>` found in the sources (16 today);
    * the deprecated `ColorDifference::get_color_difference` of `Lab` and `Lch`;
    * `impl_euclidean_distance!` at Luv, Oklab, Xyz, Yxy, Lms, Rgb, Luma and `impl_hyab!` at Luv, Oklab, Cam16UcsJab (every invocation family `diff`
      does not instantiate; the list is derived from the invocations found).
  Each `tie_<name>` holds for every `α` with `[Scalar α]` (hence at `Float`, `Float32`, `ℝ`), every input and every value of the dictionary
  parameters, and states the translated body equal to the model function the driver executes and the C09 theorems are about.

  Shapes that differ between source and model (proved here, not assumed):
    * `contrast_ratio` selects between two quotients on `luma2 < luma1`; the model `Diff.relativeContrast` orders the pair with `Diff.minMax`
      (same test) and forms one quotient: equal by the case split on that test (`tie_contrastRatio`);
    * the trait-dispatched conversion a `get_contrast_ratio` impl starts with (`Xyz::from_color(self)`, bound `Xyz<..>: FromColor<Self>`;
      `self.into_linear()` for `Luma`) is the parameter `toXyz` / `intoLinear`: for every conversion the ratio is `Diff.relativeContrast` of the two
      *Y components of the converted colours* (index 1 of `Xyz {x, y, z}`, re-read from the struct); `Xyz` and `Yxy` read their own `y` / `luma`;
    * the default predicates are functions of the ratio (`self.get_contrast_ratio(other)` is the hole `ratio`); composed with `tie_contrastRatio`
      they are the model's predicates on the two luminances, and the two forwarding predicates are the model's 4.5 / 3.0 thresholds;
    * the model functions take components, the source colours (field order re-read from the struct definitions).

  NOT translated: header of Gen/BodiesDiff2.lean.
-/
import PaletteModel.Gen.BodiesDiff2
import PaletteModel.Gen.BodiesDiff

namespace Tie
variable {α : Type} [Scalar α]

/-! ### `contrast_ratio` (relative_contrast.rs) -/

/-- the deprecated free function is the model's WCAG ratio: same comparison, the two `lazy_select!` arms are the two orders of `min_max` -/
theorem tie_contrastRatio : @Gen.BodyDiff2.contrastRatio α _ = Diff.relativeContrast := by
  funext l1 l2
  unfold Gen.BodyDiff2.contrastRatio Diff.relativeContrast Diff.minMax
  by_cases h : l2 < l1
  · simp only [if_pos h]
  · simp only [if_neg h]

/-- ... and therefore the translation of `Wcag21RelativeContrast::relative_contrast` (family `diff`) -/
theorem contrastRatio_eq_wcag21 : @Gen.BodyDiff2.contrastRatio α _ = Gen.Body.relativeContrast := by
  rw [tie_contrastRatio]; rfl

/-! ### the five default predicates of `trait RelativeContrast` -/

theorem tie_depHasMinContrastText (l1 l2 : α) :
    Diff.hasMinContrastText l1 l2 = Gen.BodyDiff2.depHasMinContrastText (Gen.BodyDiff2.contrastRatio l1 l2) := by
  rw [tie_contrastRatio]; rfl
theorem tie_depHasMinContrastLargeText (l1 l2 : α) :
    Diff.hasMinContrastLargeText l1 l2 = Gen.BodyDiff2.depHasMinContrastLargeText (Gen.BodyDiff2.contrastRatio l1 l2) := by
  rw [tie_contrastRatio]; rfl
theorem tie_depHasEnhancedContrastText (l1 l2 : α) :
    Diff.hasEnhancedContrastText l1 l2 = Gen.BodyDiff2.depHasEnhancedContrastText (Gen.BodyDiff2.contrastRatio l1 l2) := by
  rw [tie_contrastRatio]; rfl
theorem tie_depHasEnhancedContrastLargeText (l1 l2 : α) :
    Diff.hasEnhancedContrastLargeText l1 l2 = Gen.BodyDiff2.depHasEnhancedContrastLargeText (Gen.BodyDiff2.contrastRatio l1 l2) := by
  rw [tie_contrastRatio]; rfl
theorem tie_depHasMinContrastGraphics (l1 l2 : α) :
    Diff.hasMinContrastGraphics l1 l2 = Gen.BodyDiff2.depHasMinContrastGraphics (Gen.BodyDiff2.contrastRatio l1 l2) := by
  rw [tie_contrastRatio]; rfl

/-- the forwarding predicates *are* the predicates they forward to (for every ratio) -/
theorem depHasEnhancedContrastLargeText_forwards :
    @Gen.BodyDiff2.depHasEnhancedContrastLargeText α _ = Gen.BodyDiff2.depHasMinContrastText := rfl
theorem depHasMinContrastGraphics_forwards :
    @Gen.BodyDiff2.depHasMinContrastGraphics α _ = Gen.BodyDiff2.depHasMinContrastLargeText := rfl
/-- the deprecated predicates are the `Wcag21RelativeContrast` ones (family `diff`) as functions of the ratio -/
theorem dep_preds_eq_wcag21 :
    @Gen.BodyDiff2.depHasMinContrastText α _ = Gen.Body.hasMinContrastText ∧
    @Gen.BodyDiff2.depHasMinContrastLargeText α _ = Gen.Body.hasMinContrastLargeText ∧
    @Gen.BodyDiff2.depHasEnhancedContrastText α _ = Gen.Body.hasEnhancedContrastText ∧
    @Gen.BodyDiff2.depHasEnhancedContrastLargeText α _ = Gen.Body.hasEnhancedContrastLargeText ∧
    @Gen.BodyDiff2.depHasMinContrastGraphics α _ = Gen.Body.hasMinContrastGraphics := ⟨rfl, rfl, rfl, rfl, rfl⟩

/-! ### `get_contrast_ratio` of every `impl RelativeContrast for <Ty>` -/

theorem tie_hslGetContrastRatio : @Gen.BodyDiff2.hslGetContrastRatio α _ =
    fun toXyz a b => Diff.relativeContrast (toXyz a).c1 (toXyz b).c1 := by
  funext toXyz a b; unfold Gen.BodyDiff2.hslGetContrastRatio; rw [tie_contrastRatio]
theorem tie_hsluvGetContrastRatio : @Gen.BodyDiff2.hsluvGetContrastRatio α _ =
    fun toXyz a b => Diff.relativeContrast (toXyz a).c1 (toXyz b).c1 := by
  funext toXyz a b; unfold Gen.BodyDiff2.hsluvGetContrastRatio; rw [tie_contrastRatio]
theorem tie_hsvGetContrastRatio : @Gen.BodyDiff2.hsvGetContrastRatio α _ =
    fun toXyz a b => Diff.relativeContrast (toXyz a).c1 (toXyz b).c1 := by
  funext toXyz a b; unfold Gen.BodyDiff2.hsvGetContrastRatio; rw [tie_contrastRatio]
theorem tie_hwbGetContrastRatio : @Gen.BodyDiff2.hwbGetContrastRatio α _ =
    fun toXyz a b => Diff.relativeContrast (toXyz a).c1 (toXyz b).c1 := by
  funext toXyz a b; unfold Gen.BodyDiff2.hwbGetContrastRatio; rw [tie_contrastRatio]
theorem tie_labGetContrastRatio : @Gen.BodyDiff2.labGetContrastRatio α _ =
    fun toXyz a b => Diff.relativeContrast (toXyz a).c1 (toXyz b).c1 := by
  funext toXyz a b; unfold Gen.BodyDiff2.labGetContrastRatio; rw [tie_contrastRatio]
theorem tie_lchGetContrastRatio : @Gen.BodyDiff2.lchGetContrastRatio α _ =
    fun toXyz a b => Diff.relativeContrast (toXyz a).c1 (toXyz b).c1 := by
  funext toXyz a b; unfold Gen.BodyDiff2.lchGetContrastRatio; rw [tie_contrastRatio]
theorem tie_lchuvGetContrastRatio : @Gen.BodyDiff2.lchuvGetContrastRatio α _ =
    fun toXyz a b => Diff.relativeContrast (toXyz a).c1 (toXyz b).c1 := by
  funext toXyz a b; unfold Gen.BodyDiff2.lchuvGetContrastRatio; rw [tie_contrastRatio]
theorem tie_lumaGetContrastRatio : @Gen.BodyDiff2.lumaGetContrastRatio α _ =
    fun intoLinear a b => Diff.relativeContrast (intoLinear a).luma (intoLinear b).luma := by
  funext intoLinear a b; unfold Gen.BodyDiff2.lumaGetContrastRatio; rw [tie_contrastRatio]
theorem tie_luvGetContrastRatio : @Gen.BodyDiff2.luvGetContrastRatio α _ =
    fun toXyz a b => Diff.relativeContrast (toXyz a).c1 (toXyz b).c1 := by
  funext toXyz a b; unfold Gen.BodyDiff2.luvGetContrastRatio; rw [tie_contrastRatio]
theorem tie_okhslGetContrastRatio : @Gen.BodyDiff2.okhslGetContrastRatio α _ =
    fun toXyz a b => Diff.relativeContrast (toXyz a).c1 (toXyz b).c1 := by
  funext toXyz a b; unfold Gen.BodyDiff2.okhslGetContrastRatio; rw [tie_contrastRatio]
theorem tie_okhwbGetContrastRatio : @Gen.BodyDiff2.okhwbGetContrastRatio α _ =
    fun toXyz a b => Diff.relativeContrast (toXyz a).c1 (toXyz b).c1 := by
  funext toXyz a b; unfold Gen.BodyDiff2.okhwbGetContrastRatio; rw [tie_contrastRatio]
theorem tie_oklabGetContrastRatio : @Gen.BodyDiff2.oklabGetContrastRatio α _ =
    fun toXyz a b => Diff.relativeContrast (toXyz a).c1 (toXyz b).c1 := by
  funext toXyz a b; unfold Gen.BodyDiff2.oklabGetContrastRatio; rw [tie_contrastRatio]
theorem tie_oklchGetContrastRatio : @Gen.BodyDiff2.oklchGetContrastRatio α _ =
    fun toXyz a b => Diff.relativeContrast (toXyz a).c1 (toXyz b).c1 := by
  funext toXyz a b; unfold Gen.BodyDiff2.oklchGetContrastRatio; rw [tie_contrastRatio]
theorem tie_rgbGetContrastRatio : @Gen.BodyDiff2.rgbGetContrastRatio α _ =
    fun toXyz a b => Diff.relativeContrast (toXyz a).c1 (toXyz b).c1 := by
  funext toXyz a b; unfold Gen.BodyDiff2.rgbGetContrastRatio; rw [tie_contrastRatio]
theorem tie_xyzGetContrastRatio : @Gen.BodyDiff2.xyzGetContrastRatio α _ = fun a b => Diff.relativeContrast a.c1 b.c1 := by
  funext a b; unfold Gen.BodyDiff2.xyzGetContrastRatio; rw [tie_contrastRatio]
theorem tie_yxyGetContrastRatio : @Gen.BodyDiff2.yxyGetContrastRatio α _ = fun a b => Diff.relativeContrast a.c2 b.c2 := by
  funext a b; unfold Gen.BodyDiff2.yxyGetContrastRatio; rw [tie_contrastRatio]

/-! ### the deprecated `ColorDifference::get_color_difference` (Lab, Lch) -/
theorem tie_labGetColorDifference : @Gen.BodyDiff2.labGetColorDifference α _ =
    fun a b => Diff.ciede2000 (Diff.fromLab a.c0 a.c1 a.c2) (Diff.fromLab b.c0 b.c1 b.c2) := rfl
theorem tie_lchGetColorDifference : @Gen.BodyDiff2.lchGetColorDifference α _ =
    fun a b => Diff.ciede2000 (Diff.fromLch a.c0 a.c1 a.c2) (Diff.fromLch b.c0 b.c1 b.c2) := rfl
/-- the deprecated entry points are `Ciede2000::difference` (the translations of family `diff`) -/
theorem getColorDifference_eq_ciede2000 :
    @Gen.BodyDiff2.labGetColorDifference α _ = Gen.Body.labCiede2000 ∧ @Gen.BodyDiff2.lchGetColorDifference α _ = Gen.Body.lchCiede2000 := ⟨rfl, rfl⟩

/-! ### `impl_euclidean_distance!` at the remaining invocations -/
theorem tie_lmsDistanceSquared : @Gen.BodyDiff2.lmsDistanceSquared α _ = fun a b => Diff.distSq3 a.c0 a.c1 a.c2 b.c0 b.c1 b.c2 := rfl
theorem tie_lumaDistanceSquared : @Gen.BodyDiff2.lumaDistanceSquared α _ = fun a b => Diff.distSq1 a.luma b.luma := rfl
theorem tie_luvDistanceSquared : @Gen.BodyDiff2.luvDistanceSquared α _ = fun a b => Diff.distSq3 a.c0 a.c1 a.c2 b.c0 b.c1 b.c2 := rfl
theorem tie_oklabDistanceSquared : @Gen.BodyDiff2.oklabDistanceSquared α _ = fun a b => Diff.distSq3 a.c0 a.c1 a.c2 b.c0 b.c1 b.c2 := rfl
theorem tie_rgbDistanceSquared : @Gen.BodyDiff2.rgbDistanceSquared α _ = fun a b => Diff.distSq3 a.c0 a.c1 a.c2 b.c0 b.c1 b.c2 := rfl
theorem tie_xyzDistanceSquared : @Gen.BodyDiff2.xyzDistanceSquared α _ = fun a b => Diff.distSq3 a.c0 a.c1 a.c2 b.c0 b.c1 b.c2 := rfl
theorem tie_yxyDistanceSquared : @Gen.BodyDiff2.yxyDistanceSquared α _ = fun a b => Diff.distSq3 a.c0 a.c1 a.c2 b.c0 b.c1 b.c2 := rfl

/-! ### `impl_hyab!` at the remaining invocations -/
theorem tie_cam16UcsJabHyab : @Gen.BodyDiff2.cam16UcsJabHyab α _ = fun a b => Diff.hyab a.c0 a.c1 a.c2 b.c0 b.c1 b.c2 := rfl
theorem tie_luvHyab : @Gen.BodyDiff2.luvHyab α _ = fun a b => Diff.hyab a.c0 a.c1 a.c2 b.c0 b.c1 b.c2 := rfl
theorem tie_oklabHyab : @Gen.BodyDiff2.oklabHyab α _ = fun a b => Diff.hyab a.c0 a.c1 a.c2 b.c0 b.c1 b.c2 := rfl

end Tie
