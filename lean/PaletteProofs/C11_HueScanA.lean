/-
  C11 — finite scan for the upper bound of the signed normal form (part A of A–D): `C11.chk k` (see
  `Lemmas/HueScan.lean`) for 1458 consecutive integers `k`, by kernel evaluation of core's `UnpackedFloat.add/div/sub`
  (three blocks of 486; all of `−2916 ≤ k ≤ 2915` over the four modules).
-/
import PaletteProofs.Lemmas.HueScan

namespace C11

theorem scan_00 : ∀ i : Fin 486, chk ((i.val : ℤ) + (-2916)) = true := by decide +kernel

theorem scan_01 : ∀ i : Fin 486, chk ((i.val : ℤ) + (-2430)) = true := by decide +kernel

theorem scan_02 : ∀ i : Fin 486, chk ((i.val : ℤ) + (-1944)) = true := by decide +kernel

end C11
