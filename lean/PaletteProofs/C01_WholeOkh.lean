/-
  C01 — whole routes `Okhsv ↔ Oklab`, `Okhsl ↔ Oklab` at ℝ, as statements about the model's route interpreter
  (`RouteEval.roundTrip`: the driver's dispatch `Conv.edge?` composed along `Route.routeOf`), and the table of these four ordered
  pairs: a sibling of `C01Whole.exactTrips` (same predicate `C01Whole.CoveredExact`, same checks against the generated graph) kept in
  a module of its own because it rests on the hue-circle scan (`C07_OkCusp`).

  Domains (all non-empty, witnesses below):
  * `Okhsv → Oklab → Okhsv`: `0 < h ≤ 360`, `0 < s ≤ 1`, `0 < v`                                   — no hypothesis on the cusp;
  * `Oklab → Okhsv → Oklab`: `0 < L`, `0 < C ≤ S_cusp·L`                                            — no hypothesis on the cusp;
  * `Okhsl → Oklab → Okhsl`: `0 < h ≤ 360`, `0 < s ≤ 1`, `0 < l`, `toe_inv l ≤ L_cusp(h)` (contains every hue with `l ≤ 0.27`);
  * `Oklab → Okhsl → Oklab`: `0 < L ≤ L_cusp`, `0 < C ≤ S_cusp·L`.
  Above the cusp the Okhsl pairs hold under `CsOk` of the code's own `ChromaValues` (`C01OkComposite.okhsl_oklab_okhsl`), not listed.
-/
import PaletteProofs.C01_OkCompositeAll
import PaletteProofs.C01_Whole

set_option linter.unusedSimpArgs false

namespace C01WholeOkh
open RouteEval Route C01Hops C01Chain Ok C01OkComposite

section hops
variable (c : Cfg)

theorem tok_okhsl : tok c OKHSL = ("Okhsl", "") := by rfl

theorem hop_okhsl_oklab : hop (α := ℝ) c (OKHSL, OKLAB) = some Ok.okhslToOklab := by
  rw [hop_of_ne c _ _ (by decide)]; rw [tok_oklab, tok_okhsl]; simp [Conv.edge?, Conv.cieEdge?, Conv.rgbEdge?, Conv.okEdge?, Conv.stripSimd]
theorem hop_oklab_okhsl : hop (α := ℝ) c (OKLAB, OKHSL) = some Ok.oklabToOkhsl := by
  rw [hop_of_ne c _ _ (by decide)]; rw [tok_oklab, tok_okhsl]; simp [Conv.edge?, Conv.cieEdge?, Conv.rgbEdge?, Conv.okEdge?, Conv.stripSimd]
theorem hop_okhsv_oklab : hop (α := ℝ) c (OKHSV, OKLAB) = some Ok.okhsvToOklab := by
  rw [hop_of_ne c _ _ (by decide)]; rw [tok_oklab, tok_okhsv]; simp [Conv.edge?, Conv.cieEdge?, Conv.rgbEdge?, Conv.okEdge?, Conv.stripSimd]
theorem hop_oklab_okhsv : hop (α := ℝ) c (OKLAB, OKHSV) = some Ok.oklabToOkhsv := by
  rw [hop_of_ne c _ _ (by decide)]; rw [tok_oklab, tok_okhsv]; simp [Conv.edge?, Conv.cieEdge?, Conv.rgbEdge?, Conv.okEdge?, Conv.stripSimd]

end hops

theorem routes_okh :
    routeOf OKHSL OKLAB = some [OKHSL, OKLAB] ∧ routeOf OKLAB OKHSL = some [OKLAB, OKHSL] ∧
    routeOf OKHSV OKLAB = some [OKHSV, OKLAB] ∧ routeOf OKLAB OKHSV = some [OKLAB, OKHSV] := by
  decide +kernel

/-! ### the domains -/

def DHsv (x : V3 ℝ) : Prop := 0 < x.c0 ∧ x.c0 ≤ 360 ∧ 0 < x.c1 ∧ x.c1 ≤ 1 ∧ 0 < x.c2
def DLabHsv (x : V3 ℝ) : Prop :=
  0 < x.c0 ∧ 0 < chromaOf x.c1 x.c2 ∧ chromaOf x.c1 x.c2 ≤ (cuspST (x.c1 / chromaOf x.c1 x.c2) (x.c2 / chromaOf x.c1 x.c2)).s * x.c0
def DHsl (x : V3 ℝ) : Prop :=
  0 < x.c0 ∧ x.c0 ≤ 360 ∧ 0 < x.c1 ∧ x.c1 ≤ 1 ∧ 0 < x.c2 ∧
    toeInv x.c2 ≤ (findCusp (Real.cos (x.c0 * (Real.pi / 180))) (Real.sin (x.c0 * (Real.pi / 180)))).lightness
def DLabHsl (x : V3 ℝ) : Prop :=
  0 < x.c0 ∧ 0 < chromaOf x.c1 x.c2 ∧ x.c0 ≤ (findCusp (x.c1 / chromaOf x.c1 x.c2) (x.c2 / chromaOf x.c1 x.c2)).lightness ∧
    chromaOf x.c1 x.c2 ≤ maxSaturation (x.c1 / chromaOf x.c1 x.c2) (x.c2 / chromaOf x.c1 x.c2) * x.c0

theorem dHsv_example : DHsv ⟨30, 0.5, 0.5⟩ := by unfold DHsv; norm_num

theorem chroma_345 (k : ℝ) (hk : 0 ≤ k) : chromaOf (3 * k) (4 * k) = 5 * k := by
  show Real.sqrt (3 * k * (3 * k) + 4 * k * (4 * k)) = 5 * k
  rw [show 3 * k * (3 * k) + 4 * k * (4 * k) = (5 * k) ^ 2 by ring, Real.sqrt_sq (by positivity)]

theorem dLabHsv_example : DLabHsv ⟨0.5, 3 * 0.01, 4 * 0.01⟩ := by
  have hC := chroma_345 0.01 (by norm_num)
  have hpos : 0 < chromaOf (3 * 0.01 : ℝ) (4 * 0.01) := by rw [hC]; norm_num
  obtain ⟨_, s1, _, _⟩ := OkCusp.cuspST_bounds _ _ (div_chroma_unit _ _ hpos)
  refine ⟨by norm_num, hpos, ?_⟩
  unfold cuspST
  simp only
  rw [hC] at s1 ⊢
  nlinarith

theorem dHsl_example : DHsl ⟨30, 0.5, 0.2⟩ := by
  obtain ⟨l0, _, _⟩ := OkCusp.findCusp_bounds _ _ (cos_sin_unit ((30 : ℝ) * (Real.pi / 180)))
  refine ⟨by norm_num, by norm_num, by norm_num, by norm_num, by norm_num, ?_⟩
  exact le_trans (toeInv_le_of_le 0.2 (by norm_num) (by norm_num)) l0.le

theorem dLabHsl_example : DLabHsl ⟨0.3, 3 * 0.006, 4 * 0.006⟩ := by
  have hC := chroma_345 0.006 (by norm_num)
  have hpos : 0 < chromaOf (3 * 0.006 : ℝ) (4 * 0.006) := by rw [hC]; norm_num
  have hu := div_chroma_unit _ _ hpos
  obtain ⟨l0, _, _⟩ := OkCusp.findCusp_bounds _ _ hu
  obtain ⟨s1, _⟩ := OkCusp.maxSaturation_bounds _ _ hu
  refine ⟨by norm_num, hpos, by simp only; linarith, ?_⟩
  simp only
  rw [hC] at s1 ⊢
  nlinarith

/-! ### the four round trips at the route level -/
section routes
variable (c : Cfg)

/-- **`Okhsv → Oklab → Okhsv`** -/
theorem okhsv_oklab_okhsv_route (x : V3 ℝ) (hx : DHsv x) : roundTrip c OKHSV OKLAB x = some x :=
  roundTrip_of_chain (D := DHsv) routes_okh.2.2.1 routes_okh.2.2.2
    (.step (hop_okhsv_oklab c) (hop_oklab_okhsv c) (D' := fun _ => True)
      (fun x hx => okhsv_oklab_okhsv_all x.c0 x.c1 x.c2 hx.1 hx.2.1 hx.2.2.1 hx.2.2.2.1 hx.2.2.2.2) (fun _ _ => trivial) (.last _ _)) x hx

/-- **`Oklab → Okhsv → Oklab`** -/
theorem oklab_okhsv_oklab_route (x : V3 ℝ) (hx : DLabHsv x) : roundTrip c OKLAB OKHSV x = some x :=
  roundTrip_of_chain (D := DLabHsv) routes_okh.2.2.2 routes_okh.2.2.1
    (.step (hop_oklab_okhsv c) (hop_okhsv_oklab c) (D' := fun _ => True)
      (fun x hx => (oklab_okhsv_oklab_all x.c0 x.c1 x.c2 hx.1 hx.2.1 hx.2.2).1) (fun _ _ => trivial) (.last _ _)) x hx

/-- **`Okhsl → Oklab → Okhsl`**, below the cusp -/
theorem okhsl_oklab_okhsl_route (x : V3 ℝ) (hx : DHsl x) : roundTrip c OKHSL OKLAB x = some x :=
  roundTrip_of_chain (D := DHsl) routes_okh.1 routes_okh.2.1
    (.step (hop_okhsl_oklab c) (hop_oklab_okhsl c) (D' := fun _ => True)
      (fun x hx => okhsl_oklab_okhsl_below_cusp x.c0 x.c1 x.c2 hx.1 hx.2.1 hx.2.2.1 hx.2.2.2.1 hx.2.2.2.2.1 hx.2.2.2.2.2)
      (fun _ _ => trivial) (.last _ _)) x hx

/-- **`Oklab → Okhsl → Oklab`**, below the cusp -/
theorem oklab_okhsl_oklab_route (x : V3 ℝ) (hx : DLabHsl x) : roundTrip c OKLAB OKHSL x = some x :=
  roundTrip_of_chain (D := DLabHsl) routes_okh.2.1 routes_okh.1
    (.step (hop_oklab_okhsl c) (hop_okhsl_oklab c) (D' := fun _ => True)
      (fun x hx => (oklab_okhsl_oklab_below_cusp x.c0 x.c1 x.c2 hx.1 hx.2.1 hx.2.2.1 hx.2.2.2).1) (fun _ _ => trivial) (.last _ _)) x hx

end routes

/-! ### the table -/

/-- the ordered pairs through `Okhsl` / `Okhsv` whose round trip is covered (sibling of `C01Whole.exactTrips`) -/
def okhTrips : List (Nat × Nat) := [(OKHSV, OKLAB), (OKLAB, OKHSV), (OKHSL, OKLAB), (OKLAB, OKHSL)]

theorem okhTrips_covered : ∀ p ∈ okhTrips, C01Whole.CoveredExact p.1 p.2 := by
  intro p hp
  simp only [okhTrips, List.mem_cons, List.mem_nil_iff, or_false] at hp
  rcases hp with rfl | rfl | rfl | rfl
  · exact ⟨C01Whole.cfgS, DHsv, ⟨_, dHsv_example⟩, fun x hx => okhsv_oklab_okhsv_route C01Whole.cfgS x hx⟩
  · exact ⟨C01Whole.cfgS, DLabHsv, ⟨_, dLabHsv_example⟩, fun x hx => oklab_okhsv_oklab_route C01Whole.cfgS x hx⟩
  · exact ⟨C01Whole.cfgS, DHsl, ⟨_, dHsl_example⟩, fun x hx => okhsl_oklab_okhsl_route C01Whole.cfgS x hx⟩
  · exact ⟨C01Whole.cfgS, DLabHsl, ⟨_, dLabHsl_example⟩, fun x hx => oklab_okhsl_oklab_route C01Whole.cfgS x hx⟩

/-- the table by name -/
def provenOkhRoundTrips : List (String × String) := okhTrips.map fun p => (nameOf p.1, nameOf p.2)

theorem provenOkhRoundTrips_eq : provenOkhRoundTrips = [("Okhsv", "Oklab"), ("Oklab", "Okhsv"), ("Okhsl", "Oklab"), ("Oklab", "Okhsl")] := by
  decide +kernel

/-- every listed pair is a pair of distinct colours of the generated graph, is routed, the way back is the reversed way out, no pair
    is listed twice and none is already in `C01Whole.allTrips` -/
theorem provenOkhRoundTrips_sound :
    provenOkhRoundTrips.all (fun p => Gen.Graph.names.contains p.1 && Gen.Graph.names.contains p.2 && p.1 != p.2) = true ∧
    okhTrips.all (fun p => (routeOf p.1 p.2).isSome && routeOf p.2 p.1 == (routeOf p.1 p.2).map List.reverse) = true ∧
    okhTrips.eraseDups.length = okhTrips.length ∧ okhTrips.all (fun p => !C01Whole.allTrips.contains p) = true ∧
    (C01Whole.allTrips ++ okhTrips).length = 43 := by
  decide +kernel

end C01WholeOkh
