/-
  C11 — finite scan for the upper bound of the signed normal form (part D of A–D): `C11.chk64 k` (see
  `Lemmas/HueScan64.lean`) for 1458 consecutive integers `k`, by kernel evaluation of core's `UnpackedFloat.add/div/sub`
  (three blocks of 486; all of `−2916 ≤ k ≤ 2915` over the four modules).
-/
import PaletteProofs.Lemmas.HueScan64

namespace C11

theorem scan64_09 : ∀ i : Fin 486, chk64 ((i.val : ℤ) + (1458)) = true := by decide +kernel

theorem scan64_10 : ∀ i : Fin 486, chk64 ((i.val : ℤ) + (1944)) = true := by decide +kernel

theorem scan64_11 : ∀ i : Fin 486, chk64 ((i.val : ℤ) + (2430)) = true := by decide +kernel

end C11
