/-
  C05 — **the `f64 → u16` ProPhoto path outside [0, 1] and its monotonicity** (`<ProPhotoRgb as FromLinear<f64, u16>>::from_linear`:
  `from_linear(linear as f32)`, model `C05E16.fromLinearU16_f64 B = Lut.prophotoFromLinearU16 (narrow B)`), for every f64 bit pattern:

    fromLinearU16_f64_low    sign bit set (negative numbers, −0, −∞, negative NaN), +0, and positive NaN give code 0
    fromLinearU16_f64_high   every pattern from 1.0 up to +∞ gives 65535 (including the doubles that overflow to +∞ when narrowed)
    fromLinearU16_f64_mono   monotone over EVERY pair of non-NaN f64 patterns in IEEE order

  Same argument as for the 8-bit encoders (`C05_F64Bound.lean`, whose `Enc`-independent helper lemmas are reused as they are):
  `Stim.f64ToF32` is the correctly rounded narrowing (`C06.f64ToF32_spec`), `F32.R32` is monotone, so a double `≤ 0` lands on a pattern
  with sign bit set / `+0`, a double `≥ 1` on a pattern in `[1.0, +∞]`, NaN on NaN, `±∞` on `±∞`; there the f32 encoder saturates
  (`C05.prophoto_low_saturates`, `C05.prophoto_high_saturates`); in between, monotone narrowing ∘ monotone f32 encoder
  (`C05.prophotoFromLinearU16_mono`).  The three `Enc`-specific lemmas of `C05F` (`code_of_nonpos`, `code_of_ge_one`,
  `narrow_code_mono`) are restated here for `prophotoFromLinearU16` under new names (`code16_…`, `narrow_code16_mono`).
-/
import PaletteProofs.C05_Err16MidBound
import PaletteProofs.C05_LutMono16Lin

namespace C05F16
open Lut C05 C05E C05M C05F C05E16 Ieee Float.Model Float.Model.UnpackedFloat

theorem fromLinearU16_f64_eq' (B : Nat) : fromLinearU16_f64 B = prophotoFromLinearU16 (narrow B) := rfl

/-! ### saturation at the ends, every f64 pattern -/

/-- the narrowing of a finite double of value `≤ 0` has code 0 -/
theorem code16_of_nonpos {x : Float} (hx : F64.IsFin x) (h0 : F64.v x ≤ 0) :
    prophotoFromLinearU16 (Stim.f64ToF32 x).toBits.toNat = 0 := by
  obtain ⟨hfin, hinf⟩ := C06.f64ToF32_spec hx
  have hR : F32.R32 (F64.v x) ≤ 0 := by
    have := F32.R32_mono h0; rwa [R32_zero] at this
  rcases lt_or_ge |F32.R32 (F64.v x)| (2^128) with hlt | hge
  · obtain ⟨fy, vy⟩ := hfin hlt
    rcases bits_of_nonpos fy (by rw [vy]; exact hR) with h | h
    · exact prophoto_low_saturates _ (Or.inl h)
    · exact prophoto_low_saturates _ (Or.inr (Or.inl h))
  · have hU := hinf hge
    -- the value is negative, so the sign of the pattern is
    obtain ⟨hv, _⟩ := C06.v64_fields hx
    have hneg : F64.v x < 0 := by
      rcases lt_or_eq_of_le h0 with h | h
      · exact h
      · rw [h, R32_zero, abs_zero] at hge; norm_num at hge
    have hsg : F64.signOf x.toBits.toNat = .negative := by
      cases hc : F64.signOf x.toBits.toNat
      · rfl
      · rw [hc] at hv
        have : (0:ℚ) ≤ (F64.wOf x.toBits.toNat : ℚ) * 2 ^ (-1074 : ℤ) := by positivity
        simp only [sgn, one_mul] at hv
        linarith
    rw [hsg] at hU
    exact prophoto_low_saturates _ (Or.inl ((bits_of_inf hU).2 rfl))

/-- the narrowing of a finite double of value `≥ 1` has code 65535 (also when the narrowing overflows to `+∞`) -/
theorem code16_of_ge_one {x : Float} (hx : F64.IsFin x) (h1 : 1 ≤ F64.v x) :
    prophotoFromLinearU16 (Stim.f64ToF32 x).toBits.toNat = 65535 := by
  obtain ⟨hfin, hinf⟩ := C06.f64ToF32_spec hx
  have hR : 1 ≤ F32.R32 (F64.v x) := by
    have := F32.R32_mono h1; rwa [C06.R32_one] at this
  rcases lt_or_ge |F32.R32 (F64.v x)| (2^128) with hlt | hge
  · obtain ⟨fy, vy⟩ := hfin hlt
    obtain ⟨a, b⟩ := bits_ge_one fy (by rw [vy]; exact hR)
    exact prophoto_high_saturates _ a (by omega)
  · have hU := hinf hge
    obtain ⟨hv, _⟩ := C06.v64_fields hx
    have hsg : F64.signOf x.toBits.toNat = .positive := by
      cases hc : F64.signOf x.toBits.toNat
      · rw [hc] at hv
        have : (0:ℚ) ≤ (F64.wOf x.toBits.toNat : ℚ) * 2 ^ (-1074 : ℤ) := by positivity
        simp only [sgn, neg_mul, one_mul] at hv
        linarith
      · rfl
    rw [hsg] at hU
    have := (bits_of_inf hU).1 rfl
    exact prophoto_high_saturates _ (by omega) (by omega)

/-- **every f64 at or below zero (sign bit set: negative numbers, −0, −∞, negative NaN; or +0) and every NaN gives code 0**,
    `FromLinear<f64, u16>` of ProPhoto -/
theorem fromLinearU16_f64_low (B : Nat) (hB : B < 2^64)
    (h : B ≥ 0x8000000000000000 ∨ B = 0 ∨ B > 0x7ff0000000000000) : fromLinearU16_f64 B = 0 := by
  rw [fromLinearU16_f64_eq']; unfold narrow
  obtain ⟨hdec, hS1⟩ := fields64 B hB
  have hn := toNat_ofNat64 B hB
  have hMlt := F64.fM_lt B
  have hElt := F64.fE_lt B
  have p63 : (2:Nat)^63 = 9223372036854775808 := by decide
  have p52 : (2:Nat)^52 = 4503599627370496 := by decide
  have p11 : (2:Nat)^11 = 2048 := by decide
  rw [p52] at hMlt; rw [p11] at hElt; rw [p63, p52] at hdec
  by_cases hE : F64.fE B = 2047
  · by_cases hM : F64.fM B = 0
    · -- an infinity: must be −∞
      have hU := F64.U_ofBits_inf (a := UInt64.ofNat B) (by rw [hn]; exact hE) (by rw [hn]; exact hM)
      rw [hn] at hU
      have hsg : F64.signOf B = .negative := by
        unfold F64.signOf; rw [if_neg]; omega
      rw [hsg] at hU
      have := (C06.f64ToF32_nonfinite _).2 _ hU
      exact prophoto_low_saturates _ (Or.inl ((bits_of_inf this).2 rfl))
    · have hU := F64.U_ofBits_nan (a := UInt64.ofNat B) (by rw [hn]; exact hE) (by rw [hn]; exact hM)
      have := (C06.f64ToF32_nonfinite _).1 hU
      rcases bits_of_nan this with h' | h'
      · exact prophoto_low_saturates _ (Or.inl h')
      · exact prophoto_low_saturates _ (Or.inr (Or.inr h'))
  · obtain ⟨hf, hv⟩ := ofBits_val_any B hB hE
    apply code16_of_nonpos hf
    rw [hv]
    have hw : (0:ℚ) ≤ (F64.wOf B : ℚ) * 2 ^ (-1074 : ℤ) := by positivity
    by_cases hsgn : B ≥ 0x8000000000000000
    · have hsg : F64.signOf B = .negative := by
        unfold F64.signOf; rw [if_neg]; omega
      rw [hsg]; simp only [sgn, neg_mul, one_mul]; linarith
    · have hB0 : B = 0 := by omega
      subst hB0
      have : F64.wOf 0 = 0 := by decide
      rw [this]; simp

/-- non-vacuity of `fromLinearU16_f64_low`: −0.5 (`0xbfe0…`), a positive quiet NaN (`0x7ff8…`) and −∞ (`0xfff0…`) satisfy the
    hypotheses; the value at −0.5, +0 and the NaN is 0 by evaluation -/
example : (0xbfe0000000000000 : Nat) < 2^64 ∧
    ((0xbfe0000000000000 : Nat) ≥ 0x8000000000000000 ∨ (0xbfe0000000000000 : Nat) = 0 ∨ (0xbfe0000000000000 : Nat) > 0x7ff0000000000000) := by
  decide
example : (0x7ff8000000000000 : Nat) < 2^64 ∧
    ((0x7ff8000000000000 : Nat) ≥ 0x8000000000000000 ∨ (0x7ff8000000000000 : Nat) = 0 ∨ (0x7ff8000000000000 : Nat) > 0x7ff0000000000000) := by
  decide
example : fromLinearU16_f64 0xbfe0000000000000 = 0 ∧ fromLinearU16_f64 0 = 0 ∧ fromLinearU16_f64 0x7ff8000000000000 = 0 ∧
    fromLinearU16_f64 0xfff0000000000000 = 0 := by decide +kernel

/-- **every f64 from 1.0 up to +∞ gives 65535**, `FromLinear<f64, u16>` of ProPhoto -/
theorem fromLinearU16_f64_high (B : Nat) (h1 : 0x3ff0000000000000 ≤ B) (h2 : B ≤ 0x7ff0000000000000) :
    fromLinearU16_f64 B = 65535 := by
  rw [fromLinearU16_f64_eq']; unfold narrow
  have hB : B < 2^64 := by
    have p64 : (2:Nat)^64 = 18446744073709551616 := by decide
    omega
  have hn := toNat_ofNat64 B hB
  by_cases hinf : B = 0x7ff0000000000000
  · subst hinf
    have hU := F64.U_ofBits_inf (a := UInt64.ofNat 0x7ff0000000000000) (by rw [hn]; decide) (by rw [hn]; decide)
    rw [hn] at hU
    have hsg : F64.signOf 0x7ff0000000000000 = .positive := by
      unfold F64.signOf; rw [if_pos (by decide)]
    rw [hsg] at hU
    have := (C06.f64ToF32_nonfinite _).2 _ hU
    have hb := (bits_of_inf this).1 rfl
    exact prophoto_high_saturates _ (by omega) (by omega)
  · have hle : B ≤ 0x7fefffffffffffff := by omega
    obtain ⟨hf, hv⟩ := ofBits_val B hle
    apply code16_of_ge_one hf
    rw [hv]
    have h := F64.wOf_mono (fields64_of_le 0x3ff0000000000000 (by omega)).1 (fields64_of_le B hle).1 h1
    rw [wOf_one64] at h
    have hq : (2:ℚ) ^ 1074 ≤ (F64.wOf B : ℚ) := by exact_mod_cast h
    rw [zpow_neg, zpow_ofNat, ← div_eq_mul_inv, le_div_iff₀ (by positivity)]; linarith

/-- non-vacuity of `fromLinearU16_f64_high`: 1.5 (`0x3ff8…`), 1e300 (`0x7e37e43c8800759c`, overflows to +∞ when narrowed) and +∞
    satisfy the hypotheses; their codes (and the code of 1.0 itself) are 65535 by evaluation -/
example : (0x3ff0000000000000 : Nat) ≤ 0x3ff8000000000000 ∧ (0x3ff8000000000000 : Nat) ≤ 0x7ff0000000000000 ∧
    (0x3ff0000000000000 : Nat) ≤ 0x7e37e43c8800759c ∧ (0x7e37e43c8800759c : Nat) ≤ 0x7ff0000000000000 := by decide
example : fromLinearU16_f64 0x3ff0000000000000 = 65535 ∧ fromLinearU16_f64 0x3ff8000000000000 = 65535 ∧
    fromLinearU16_f64 0x7e37e43c8800759c = 65535 ∧ fromLinearU16_f64 0x7ff0000000000000 = 65535 := by decide +kernel

/-! ### monotone over every pair of non-NaN f64 patterns -/

/-- the code of every non-NaN f32 pattern is at most 65535: it is below the code at `+∞` -/
theorem code16_le_65535 (b : Nat) (hb : notNaN b) : prophotoFromLinearU16 b ≤ 65535 := by
  have h := prophotoFromLinearU16_mono b 0x7f800000 hb (by unfold notNaN; omega)
    (by unfold notNaN at hb; unfold f32le; omega)
  rwa [prophoto_high_saturates 0x7f800000 (by omega) (by omega)] at h

/-- the narrowing is monotone on `[+0, 1.0]` and lands on sign-clear non-NaN patterns or on `±0` -/
theorem narrow_code16_mono (X Y : Nat) (h : X ≤ Y) (hY : Y ≤ 0x3ff0000000000000) :
    prophotoFromLinearU16 (narrow X) ≤ prophotoFromLinearU16 (narrow Y) := by
  have hX : X ≤ 0x3ff0000000000000 := le_trans h hY
  obtain ⟨fx, vx, x0, x1⟩ := narrow_val X hX
  obtain ⟨fy, vy, y0, y1⟩ := narrow_val Y hY
  by_cases hsx : F32.fS (narrow X) = 0
  · by_cases hsy : F32.fS (narrow Y) = 0
    · -- both sign-clear: order of patterns = order of values
      have hvle : F64.v (Float.ofBits (UInt64.ofNat X)) ≤ F64.v (Float.ofBits (UInt64.ofNat Y)) := by
        rw [(ofBits_val X (by omega)).2, (ofBits_val Y (by omega)).2]
        have := F64.wOf_mono (fields64_of_le X (by omega)).1 (fields64_of_le Y (by omega)).1 h
        have hq : (F64.wOf X : ℚ) ≤ F64.wOf Y := by exact_mod_cast this
        exact mul_le_mul_of_nonneg_right hq (two_zpow_pos _).le
      have hle : F32.v (Stim.f64ToF32 (Float.ofBits (UInt64.ofNat X))) ≤ F32.v (Stim.f64ToF32 (Float.ofBits (UInt64.ofNat Y))) := by
        rw [vx, vy]; exact F32.R32_mono hvle
      have hb := (F32.toBits_le_iff fx fy hsx hsy).mpr hle
      rw [UInt32.le_iff_toNat_le] at hb
      have bx := (narrow_near X hX hsx).1
      have by' := (narrow_near Y hY hsy).1
      apply prophotoFromLinearU16_mono
      · left; exact ⟨by omega, by omega⟩
      · left; exact ⟨by omega, by omega⟩
      · right; right; left
        exact ⟨by omega, by omega, hb⟩
    · -- narrow Y = −0: then narrow X has value 0 as well
      have hvy : F32.v (Stim.f64ToF32 (Float.ofBits (UInt64.ofNat Y))) ≤ 0 := v_nonpos_of_sign _ hsy
      have hvle : F64.v (Float.ofBits (UInt64.ofNat X)) ≤ F64.v (Float.ofBits (UInt64.ofNat Y)) := by
        rw [(ofBits_val X (by omega)).2, (ofBits_val Y (by omega)).2]
        have := F64.wOf_mono (fields64_of_le X (by omega)).1 (fields64_of_le Y (by omega)).1 h
        have hq : (F64.wOf X : ℚ) ≤ F64.wOf Y := by exact_mod_cast this
        exact mul_le_mul_of_nonneg_right hq (two_zpow_pos _).le
      have hle : F32.v (Stim.f64ToF32 (Float.ofBits (UInt64.ofNat X))) ≤ 0 := by
        rw [vx]; rw [vy] at hvy; exact le_trans (F32.R32_mono hvle) hvy
      rcases bits_of_nonpos fx hle with h' | h'
      · rw [show prophotoFromLinearU16 (narrow X) = 0 from prophoto_low_saturates _ (Or.inl h')]; exact Nat.zero_le _
      · rw [show prophotoFromLinearU16 (narrow X) = 0 from prophoto_low_saturates _ (Or.inr (Or.inl h'))]; exact Nat.zero_le _
  · have hge : narrow X ≥ 0x80000000 := by
      have := (fS_zero_iff (narrow X)).not.mp hsx
      rw [p_lits.2.2] at this; omega
    rw [prophoto_low_saturates _ (Or.inl hge)]; exact Nat.zero_le _

/-- the code of every f64 pattern in `[+0, 1.0]` is at most 65535 (it is below the code at 1.0) -/
theorem code16_f64_le_65535 (B : Nat) (hB : B ≤ 0x3ff0000000000000) : fromLinearU16_f64 B ≤ 65535 := by
  have h := narrow_code16_mono B 0x3ff0000000000000 hB (le_refl _)
  have h1 := fromLinearU16_f64_high 0x3ff0000000000000 (le_refl _) (by omega)
  rw [fromLinearU16_f64_eq'] at h1
  rw [fromLinearU16_f64_eq']
  omega

/-- **monotone over every f64 bit pattern**: for non-NaN `x ≤ y` (IEEE order), `from_linear(x) ≤ from_linear(y)`,
    `<ProPhotoRgb as FromLinear<f64, u16>>` -/
theorem fromLinearU16_f64_mono (X Y : Nat) (hx : C05F.notNaN64 X) (hy : C05F.notNaN64 Y) (h : C05F.f64le X Y) :
    fromLinearU16_f64 X ≤ fromLinearU16_f64 Y := by
  have p64 : (2:Nat)^64 = 18446744073709551616 := by decide
  by_cases hXlow : X ≥ 0x8000000000000000 ∨ X = 0
  · have hXlt : X < 2^64 := by
      unfold notNaN64 at hx; omega
    rw [fromLinearU16_f64_low X hXlt (by omega)]; exact Nat.zero_le _
  · have hX0 : 0 < X ∧ X < 0x8000000000000000 := by omega
    unfold f64le at h
    unfold notNaN64 at hy
    have hY : X ≤ Y ∧ Y ≤ 0x7ff0000000000000 := by omega
    by_cases hbig : 0x3ff0000000000000 ≤ Y
    · rw [fromLinearU16_f64_high Y hbig hY.2]
      by_cases hXbig : 0x3ff0000000000000 ≤ X
      · rw [fromLinearU16_f64_high X hXbig (by omega)]
      · exact code16_f64_le_65535 X (by omega)
    · rw [fromLinearU16_f64_eq', fromLinearU16_f64_eq']
      exact narrow_code16_mono X Y hY.1 (by omega)

/-- non-vacuity of `fromLinearU16_f64_mono`: 0.25 ≤ 0.5 as f64 patterns, both non-NaN, with distinct codes strictly inside the range;
    and a pair across zero (−1.0 ≤ 2⁻¹²) -/
example : notNaN64 0x3fd0000000000000 ∧ notNaN64 0x3fe0000000000000 ∧ f64le 0x3fd0000000000000 0x3fe0000000000000 := by
  unfold notNaN64 f64le; omega
example : notNaN64 0xbff0000000000000 ∧ notNaN64 0x3f30000000000000 ∧ f64le 0xbff0000000000000 0x3f30000000000000 := by
  unfold notNaN64 f64le; omega
example : fromLinearU16_f64 0x3fd0000000000000 = 30339 ∧ fromLinearU16_f64 0x3fe0000000000000 = 44590 ∧
    fromLinearU16_f64 0xbff0000000000000 = 0 ∧ fromLinearU16_f64 0x3f30000000000000 = 256 := by decide +kernel

end C05F16
