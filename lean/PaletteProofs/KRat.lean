/-
  Exact rational reading of the constant expressions (`K`) of the generated tables, for facts decided by kernel evaluation.
-/
import PaletteModel.Scalar

namespace KRat

/-- `m · 10^(∓e)` as an exact rational -/
def sci (m : Nat) (s : Bool) (e : Nat) : Rat := if s then (m : Rat) / ((10 ^ e : Nat) : Rat) else ((m * 10 ^ e : Nat) : Rat)

def toRat : K → Rat
  | .lit m s e => sci m s e
  | .add a b => toRat a + toRat b
  | .sub a b => toRat a - toRat b
  | .mul a b => toRat a * toRat b
  | .div a b => toRat a / toRat b
  | .neg a => - toRat a

abbrev Mat := List Rat   -- 9 entries, row major

def mul3 : Mat → Mat → Mat
  | [a0,a1,a2,a3,a4,a5,a6,a7,a8], [b0,b1,b2,b3,b4,b5,b6,b7,b8] =>
    [a0*b0+a1*b3+a2*b6, a0*b1+a1*b4+a2*b7, a0*b2+a1*b5+a2*b8,
     a3*b0+a4*b3+a5*b6, a3*b1+a4*b4+a5*b7, a3*b2+a4*b5+a5*b8,
     a6*b0+a7*b3+a8*b6, a6*b1+a7*b4+a8*b7, a6*b2+a7*b5+a8*b8]
  | _, _ => []

def mulVec : Mat → List Rat → List Rat
  | [a0,a1,a2,a3,a4,a5,a6,a7,a8], [x,y,z] => [a0*x+a1*y+a2*z, a3*x+a4*y+a5*z, a6*x+a7*y+a8*z]
  | _, _ => []

def ident : Mat := [1,0,0, 0,1,0, 0,0,1]

def absR (q : Rat) : Rat := if q < 0 then -q else q

/-- max-row-sum norm of the difference of two 3×3 matrices (‖A − B‖∞) -/
def distInf (a b : Mat) : Rat :=
  let d := (List.zipWith (fun x y => absR (x - y)) a b)
  match d with
  | [d0,d1,d2,d3,d4,d5,d6,d7,d8] => max (d0+d1+d2) (max (d3+d4+d5) (d6+d7+d8))
  | _ => 1000000

def ofK (ks : List K) : Mat := ks.map toRat

end KRat

/-- `Scalar ℚ`, for kernel evaluation of model functions that are built from `+ − × ÷`, comparisons and constants only
    (matrix code).  The transcendental fields are junk (`0`) and must not be reached by anything evaluated at this instance;
    every theorem that uses it says which model function it evaluates. -/
instance instScalarRat : Scalar Rat where
  ofScientific := KRat.sci
  const := KRat.toRat
  abs := KRat.absR
  sqrt := fun _ => 0
  cbrt := fun _ => 0
  exp := fun _ => 0
  ln := fun _ => 0
  floor := fun q => (q.floor : Rat)
  ceil := fun q => (q.ceil : Rat)
  round := fun _ => 0
  sin := fun _ => 0
  cos := fun _ => 0
  powf := fun _ _ => 0
  atan2 := fun _ _ => 0
  min := fun a b => if a ≤ b then a else b
  max := fun a b => if a ≤ b then b else a
  isValidDivisor := fun q => decide (q ≠ 0)
  decLt := fun a b => inferInstanceAs (Decidable (a < b))
  decLe := fun a b => inferInstanceAs (Decidable (a ≤ b))
