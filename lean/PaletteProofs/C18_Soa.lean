/-
  C18 — struct-of-arrays colour collections behave like a vector of colours.
-/
import PaletteModel.Soa
import PaletteModel.Gen.Soa

namespace C18
open Soa

variable {α : Type} {k : Nat}

/-! ## transposition lemmas -/

@[simp] theorem getElem_colsOf (rs : List (Row α k)) (j : Nat) (h : j < k) : (colsOf rs)[j] = rs.map (·[j]) := by
  simp [colsOf]

/-- a tuple of per-column options that are the projections of one optional colour is that colour -/
theorem allSome_proj {β : Type} (hk : 0 < k) (o : Option (Vector β k)) (v : Vector (Option β) k)
    (hv : ∀ j (h : j < k), v[j] = o.map (·[j])) : allSome v = o := by
  unfold allSome
  cases o with
  | none =>
    rw [dif_neg]
    intro h
    have := h ⟨0, hk⟩
    simp [hv] at this
  | some r =>
    rw [dif_pos (by intro i; simp [hv])]
    congr 1
    apply Vector.ext
    intro j hj
    simp [hv]

/-- a per-column list operation that is natural in the element type commutes with transposition -/
theorem map_colsOf (rs : List (Row α k)) (f : List α → List α) (f' : List (Row α k))
    (h : ∀ j (_ : j < k), f (rs.map (·[j])) = f'.map (·[j])) : (colsOf rs).map f = colsOf f' := by
  apply Vector.ext
  intro j hj
  simp [h j hj]

theorem firstLen_colsOf (hk : 0 < k) (rs : List (Row α k)) : firstLen (colsOf rs) = rs.length := by
  simp [firstLen, hk]

theorem pushRow_colsOf (rs : List (Row α k)) (r : Row α k) : pushRow (colsOf rs) r = colsOf (rs ++ [r]) := by
  apply Vector.ext
  intro j hj
  simp [pushRow]

theorem extendRows_colsOf (rs more : List (Row α k)) : extendRows (colsOf rs) more = colsOf (rs ++ more) := by
  induction more generalizing rs with
  | nil => simp [extendRows]
  | cons r t ih =>
    have := ih (rs ++ [r])
    simp only [extendRows, List.foldl_cons] at this ⊢
    rw [pushRow_colsOf, this]
    simp

theorem emptyCols_eq : emptyCols α k = colsOf [] := by
  apply Vector.ext
  intro j hj
  simp [emptyCols]


/-! ## iterators -/

theorem zip_ext {a b : Zip α k} (h1 : a.pre = b.pre) (h2 : a.rest = b.rest) (h3 : a.post = b.post) : a = b := by
  cases a; cases b; simp_all

def zipOf (rz : RZip α k) : Zip α k := { pre := colsOf rz.pre, rest := colsOf rz.rest, post := colsOf rz.post }

theorem next_refines (hk : 0 < k) (rz : RZip α k) (w : Option (Row α k)) :
    (zipOf rz).next w = (zipOf (rz.next w).1, (rz.next w).2) := by
  have hitem : allSome ((colsOf rz.rest).map List.head?) = rz.rest.head? :=
    allSome_proj hk _ _ (by intro j h; simp [List.head?_map])
  obtain ⟨pre, rest, post⟩ := rz
  cases rest with
  | nil =>
    simp only [Zip.next, zipOf, RZip.next] at hitem ⊢
    rw [hitem]
    refine Prod.ext ?_ rfl
    apply zip_ext <;> first | rfl | (apply Vector.ext; intro j hj; simp)
  | cons r t =>
    simp only [Zip.next, zipOf, RZip.next] at hitem ⊢
    rw [hitem]
    refine Prod.ext ?_ rfl
    apply zip_ext <;> first | rfl | (apply Vector.ext; intro j hj; cases w <;> simp)

theorem nextBack_refines (hk : 0 < k) (rz : RZip α k) (w : Option (Row α k)) :
    (zipOf rz).nextBack w = (zipOf (rz.nextBack w).1, (rz.nextBack w).2) := by
  have hitem : allSome ((colsOf rz.rest).map List.getLast?) = rz.rest.getLast? :=
    allSome_proj hk _ _ (by intro j h; simp [List.getLast?_map])
  obtain ⟨pre, rest, post⟩ := rz
  cases hl : rest.getLast? with
  | none =>
    simp only [Zip.nextBack, zipOf, RZip.nextBack, hl] at hitem ⊢
    rw [hitem]
    have : rest = [] := by simpa using hl
    subst this
    refine Prod.ext ?_ rfl
    apply zip_ext <;> first | rfl | (apply Vector.ext; intro j hj; simp)
  | some r =>
    simp only [Zip.nextBack, zipOf, RZip.nextBack, hl] at hitem ⊢
    rw [hitem]
    refine Prod.ext ?_ rfl
    apply zip_ext <;> first | rfl | (apply Vector.ext; intro j hj; cases w <;> simp [List.getLast?_map, hl, List.map_dropLast])

theorem zipStep_refines (hk : 0 < k) (rz : RZip α k) (st : Step α k) :
    (zipOf rz).step st = (zipOf (rz.step st).1, (rz.step st).2) := by
  cases st with
  | next w => simp [Zip.step, RZip.step, next_refines hk]
  | nextBack w => simp [Zip.step, RZip.step, nextBack_refines hk]
  | len => simp [Zip.step, RZip.step, Zip.len, zipOf, firstLen_colsOf hk]
  | sizeHint => simp [Zip.step, RZip.step, Zip.sizeHint, zipOf, firstLen_colsOf hk]
  | count => simp [Zip.step, RZip.step, Zip.count, zipOf, firstLen_colsOf hk]

theorem zipRun_refines (hk : 0 < k) (rz : RZip α k) (script : List (Step α k)) :
    (zipOf rz).run script = (zipOf (rz.run script).1, (rz.run script).2) := by
  induction script generalizing rz with
  | nil => rfl
  | cons st t ih => simp [Zip.run, RZip.run, zipStep_refines hk, ih]

theorem close_refines (rz : RZip α k) : (zipOf rz).close = colsOf rz.close := by
  apply Vector.ext
  intro j hj
  simp [Zip.close, zipOf, RZip.close]

theorem ofCols_colsOf (rs : List (Row α k)) : Zip.ofCols (colsOf rs) = zipOf (RZip.mk [] rs []) := by
  apply zip_ext <;> first | rfl | (apply Vector.ext; intro j hj; simp [Zip.ofCols, zipOf])

theorem runRead_refines (hk : 0 < k) (rs : List (Row α k)) (script : List (Step α k)) :
    runRead (colsOf rs) script = runReadRef rs script := by
  simp [runRead, runReadRef, ofCols_colsOf, zipRun_refines hk]


/-! ## one operation -/

theorem allSome_resolve {β : Type} (hk : 0 < k) (rs : List (Row α k)) (r : Rng) (f : List α → Option β) (g : Nat × Nat → List α → β)
    (hf : ∀ c, f c = (r.resolve c.length).map fun ab => g ab c) :
    allSome ((colsOf rs).map f) = (r.resolve rs.length).map fun ab => Vector.ofFn fun j : Fin k => g ab (rs.map (·[j.val])) := by
  apply allSome_proj hk
  intro j hj
  simp only [Vector.getElem_map, getElem_colsOf, hf, List.length_map]
  cases r.resolve rs.length <;> simp

theorem step_refines (hk : 0 < k) (rs : List (Row α k)) (op : Op α k) :
    step (colsOf rs) op = (colsOf (stepRef rs op).1, (stepRef rs op).2) := by
  cases op with
  | push r => simp [step, stepRef, pushRow_colsOf]
  | pop =>
    have h1 : allSome ((colsOf rs).map List.getLast?) = rs.getLast? :=
      allSome_proj hk _ _ (by intro j h; simp [List.getLast?_map])
    have h2 : (colsOf rs).map List.dropLast = colsOf rs.dropLast :=
      map_colsOf rs _ _ (by intro j _; simp [List.map_dropLast])
    simp [step, stepRef, h1, h2]
  | extend more => simp [step, stepRef, extendRows_colsOf]
  | collect more => simp [step, stepRef, emptyCols_eq, extendRows_colsOf]
  | withCapacity => simp [step, stepRef, emptyCols_eq]
  | clear =>
    have : (colsOf rs).map (fun _ => ([] : List α)) = colsOf [] := map_colsOf rs _ _ (by intro j _; simp)
    simp [step, stepRef, this]
  | drain r script =>
    have h := allSome_resolve hk rs r (drainCol r) (fun ab c => (c.take ab.1 ++ c.drop ab.2, (c.take ab.2).drop ab.1)) (fun c => rfl)
    simp only [step, stepRef, h]
    cases hr : r.resolve rs.length with
    | none =>
      simp only [Option.map_none]
      refine Prod.ext ?_ rfl
      apply Vector.ext
      intro j hj
      have : ((colsOf rs).map (drainCol r))[j] = none := by simp [drainCol, hr]
      simp only [drainPanicState, Vector.getElem_ofFn, this]
      split <;> rfl
    | some ab =>
      simp only [Option.map_some]
      have e1 : (Vector.ofFn fun j : Fin k => ((rs.map (·[j.val])).take ab.1 ++ (rs.map (·[j.val])).drop ab.2, ((rs.map (·[j.val])).take ab.2).drop ab.1)).map (·.1)
          = colsOf (rs.take ab.1 ++ rs.drop ab.2) := by
        apply Vector.ext; intro j hj; simp [List.map_take, List.map_drop]
      have e2 : (Vector.ofFn fun j : Fin k => ((rs.map (·[j.val])).take ab.1 ++ (rs.map (·[j.val])).drop ab.2, ((rs.map (·[j.val])).take ab.2).drop ab.1)).map (·.2)
          = colsOf ((rs.take ab.2).drop ab.1) := by
        apply Vector.ext; intro j hj; simp [List.map_take, List.map_drop]
      rw [e1, e2, runRead_refines hk]
  | get i =>
    have h1 : allSome ((colsOf rs).map (·[i]?)) = rs[i]? :=
      allSome_proj hk _ _ (by intro j h; simp [List.getElem?_map])
    simp [step, stepRef, h1]
  | getRange r script =>
    have h := allSome_resolve hk rs r (sliceCol r) (fun ab c => (c.take ab.2).drop ab.1) (fun c => rfl)
    simp only [step, stepRef, h]
    cases hr : r.resolve rs.length with
    | none => rfl
    | some ab =>
      simp only [Option.map_some]
      have e2 : (Vector.ofFn fun j : Fin k => ((rs.map (·[j.val])).take ab.2).drop ab.1) = colsOf ((rs.take ab.2).drop ab.1) := by
        apply Vector.ext; intro j hj; simp [List.map_take, List.map_drop]
      rw [e2, runRead_refines hk]
  | getMut i w =>
    have h1 : allSome ((colsOf rs).map (·[i]?)) = rs[i]? :=
      allSome_proj hk _ _ (by intro j h; simp [List.getElem?_map])
    simp only [step, stepRef, h1]
    cases rs[i]? with
    | none => rfl
    | some old =>
      refine Prod.ext ?_ rfl
      apply Vector.ext; intro j hj; simp [List.map_set]
  | getMutRange r script =>
    have h := allSome_resolve hk rs r (splitCol r) (fun ab c => (c.take ab.1, (c.take ab.2).drop ab.1, c.drop ab.2)) (fun c => rfl)
    simp only [step, stepRef, h]
    cases hr : r.resolve rs.length with
    | none => rfl
    | some ab =>
      simp only [Option.map_some]
      have e : (Zip.mk
            ((Vector.ofFn fun j : Fin k => ((rs.map (·[j.val])).take ab.1, ((rs.map (·[j.val])).take ab.2).drop ab.1, (rs.map (·[j.val])).drop ab.2)).map (·.1))
            ((Vector.ofFn fun j : Fin k => ((rs.map (·[j.val])).take ab.1, ((rs.map (·[j.val])).take ab.2).drop ab.1, (rs.map (·[j.val])).drop ab.2)).map (·.2.1))
            ((Vector.ofFn fun j : Fin k => ((rs.map (·[j.val])).take ab.1, ((rs.map (·[j.val])).take ab.2).drop ab.1, (rs.map (·[j.val])).drop ab.2)).map (·.2.2)))
          = zipOf (RZip.mk (rs.take ab.1) ((rs.take ab.2).drop ab.1) (rs.drop ab.2)) := by
        apply zip_ext <;> (apply Vector.ext; intro j hj; simp [zipOf, List.map_take, List.map_drop])
      rw [e, zipRun_refines hk, close_refines]
  | iter script => simp [step, stepRef, runRead_refines hk]
  | iterMut script => simp [step, stepRef, ofCols_colsOf, zipRun_refines hk, close_refines]
  | rev => simp [step, stepRef, fullBack, firstLen_colsOf hk, runRead_refines hk]
  | intoIter => simp [step, stepRef, fullFwd, firstLen_colsOf hk, runRead_refines hk]
  | len =>
    have : (colsOf rs).map List.length = Vector.replicate k rs.length := by
      apply Vector.ext; intro j hj; simp
    simp [step, stepRef, firstLen_colsOf hk, this]
  | forgetDrain r script =>
    have h := allSome_resolve hk rs r (forgetCol r) (fun ab c => (c.take ab.1, (c.take ab.2).drop ab.1)) (fun c => rfl)
    simp only [step, stepRef, h]
    cases hr : r.resolve rs.length with
    | none =>
      simp only [Option.map_none]
      refine Prod.ext ?_ rfl
      apply Vector.ext
      intro j hj
      have : ((colsOf rs).map (drainCol r))[j] = none := by simp [drainCol, hr]
      simp only [drainPanicState, Vector.getElem_ofFn, this]
      split <;> rfl
    | some ab =>
      simp only [Option.map_some]
      have e1 : (Vector.ofFn fun j : Fin k => ((rs.map (·[j.val])).take ab.1, ((rs.map (·[j.val])).take ab.2).drop ab.1)).map (·.1)
          = colsOf (rs.take ab.1) := by
        apply Vector.ext; intro j hj; simp [List.map_take]
      have e2 : (Vector.ofFn fun j : Fin k => ((rs.map (·[j.val])).take ab.1, ((rs.map (·[j.val])).take ab.2).drop ab.1)).map (·.2)
          = colsOf ((rs.take ab.2).drop ab.1) := by
        apply Vector.ext; intro j hj; simp [List.map_take, List.map_drop]
      rw [e1, e2, runRead_refines hk]

/-- arbitrary histories -/
theorem run_refines (hk : 0 < k) (rs : List (Row α k)) (ops : List (Op α k)) :
    run (colsOf rs) ops = (colsOf (runRef rs ops).1, (runRef rs ops).2) := by
  induction ops generalizing rs with
  | nil => rfl
  | cons o t ih => simp [run, runRef, step_refines hk, ih]


/-! ## the abstraction function and the equal-length invariant -/

theorem eqLen_colsOf (rs : List (Row α k)) : EqLen (colsOf rs) := by
  intro i j hi hj; simp

theorem filterMap_range_getElem? {β : Type} (pre l : List β) :
    (List.range' pre.length l.length).filterMap (fun i => (pre ++ l)[i]?) = l := by
  induction l generalizing pre with
  | nil => simp
  | cons x t ih =>
    have := ih (pre ++ [x])
    simp only [List.length_append, List.length_cons, List.length_nil, List.append_assoc, List.singleton_append] at this
    simp [List.range'_succ, this]

/-- `abs` undoes transposition -/
theorem rowsOf_colsOf (hk : 0 < k) (rs : List (Row α k)) : rowsOf (colsOf rs) = rs := by
  have h1 : ∀ i : Nat, allSome ((colsOf rs).map (·[i]?)) = rs[i]? := fun i =>
    allSome_proj hk _ _ (by intro j h; simp [List.getElem?_map])
  have := filterMap_range_getElem? [] rs
  simp only [List.length_nil, List.nil_append, ← List.range_eq_range'] at this
  simp only [rowsOf, firstLen_colsOf hk, h1, this]

/-- equal-length columns are exactly the transposed vectors of colours -/
theorem exists_rows (hk : 0 < k) (s : Cols α k) (h : EqLen s) : ∃ rs : List (Row α k), s = colsOf rs := by
  refine ⟨List.ofFn fun i : Fin (s[0]).length => Vector.ofFn fun j : Fin k => (s[j.val])[i.val]'(by rw [h j.val 0 j.isLt hk]; exact i.isLt), ?_⟩
  apply Vector.ext
  intro j hj
  rw [getElem_colsOf]
  apply List.ext_getElem
  · simp [h j 0 hj hk]
  · intro i h1 h2
    simp

theorem colsOf_rowsOf (hk : 0 < k) (s : Cols α k) (h : EqLen s) : colsOf (rowsOf s) = s := by
  obtain ⟨rs, rfl⟩ := exists_rows hk s h
  rw [rowsOf_colsOf hk]

theorem eqLen_iff (hk : 0 < k) (s : Cols α k) : EqLen s ↔ ∃ rs : List (Row α k), s = colsOf rs :=
  ⟨exists_rows hk s, fun ⟨rs, e⟩ => e ▸ eqLen_colsOf rs⟩

/-! ## C18, the invariant: all component collections (hue and alpha included) stay the same length -/

/-- one operation (a panicking `drain` included) keeps the columns at one common length -/
theorem invariant_step (hk : 0 < k) (s : Cols α k) (h : EqLen s) (op : Op α k) : EqLen (step s op).1 := by
  obtain ⟨rs, rfl⟩ := exists_rows hk s h
  rw [step_refines hk]
  exact eqLen_colsOf _

/-- every history, of any length, from any equal-length state -/
theorem invariant_run (hk : 0 < k) (s : Cols α k) (h : EqLen s) (ops : List (Op α k)) : EqLen (run s ops).1 := by
  obtain ⟨rs, rfl⟩ := exists_rows hk s h
  rw [run_refines hk]
  exact eqLen_colsOf _

theorem eqLen_empty : EqLen (emptyCols α k) := by
  rw [emptyCols_eq]; exact eqLen_colsOf _

/-! ## C18, the refinement: with `abs = rowsOf` every operation yields the reference's observation and commutes with `abs` -/

theorem refinement_step (hk : 0 < k) (s : Cols α k) (h : EqLen s) (op : Op α k) :
    (step s op).2 = (stepRef (rowsOf s) op).2 ∧ rowsOf (step s op).1 = (stepRef (rowsOf s) op).1 := by
  obtain ⟨rs, rfl⟩ := exists_rows hk s h
  rw [step_refines hk, rowsOf_colsOf hk, rowsOf_colsOf hk]
  exact ⟨rfl, rfl⟩

/-- arbitrary operation histories of any length: the same observations (items, `None`s, panics, lengths) in the same order,
    and the same colours in the same order afterwards -/
theorem refinement_run (hk : 0 < k) (s : Cols α k) (h : EqLen s) (ops : List (Op α k)) :
    (run s ops).2 = (runRef (rowsOf s) ops).2 ∧ rowsOf (run s ops).1 = (runRef (rowsOf s) ops).1 := by
  obtain ⟨rs, rfl⟩ := exists_rows hk s h
  rw [run_refines hk, rowsOf_colsOf hk, rowsOf_colsOf hk]
  exact ⟨rfl, rfl⟩

/-- from the empty collection (`with_capacity`, `Default`, `from_iter(None)`), as the harness replays it -/
theorem refinement_from_empty (hk : 0 < k) (ops : List (Op α k)) :
    (run (emptyCols α k) ops).2 = (runRef ([] : List (Row α k)) ops).2 ∧
    (run (emptyCols α k) ops).1 = colsOf (runRef ([] : List (Row α k)) ops).1 := by
  rw [emptyCols_eq, run_refines hk]
  exact ⟨rfl, rfl⟩

/-- the lengths reported: after any history every column has exactly the reference vector's length -/
theorem lengths_from_empty (hk : 0 < k) (ops : List (Op α k)) (j : Nat) (hj : j < k) :
    ((run (emptyCols α k) ops).1[j]).length = (runRef ([] : List (Row α k)) ops).1.length := by
  rw [(refinement_from_empty hk ops).2]; simp


/-! ## range semantics as explicit outcomes (`slice::get` gives `None`, `Vec::drain` panics, on the same ranges) -/

theorem resolve_some (len : Nat) (r : Rng) (a b : Nat) (h : r.resolve len = some (a, b)) : a ≤ b ∧ b ≤ len := by
  cases r <;> simp only [Rng.resolve, chk] at h <;> (try split at h) <;> (try split at h) <;> simp_all <;> omega

theorem resolve_inverted (len a b : Nat) (h : b < a) : (Rng.range a b).resolve len = none := by
  simp [Rng.resolve, chk]; omega

theorem resolve_out_of_range (len a b : Nat) (h : len < b) : (Rng.range a b).resolve len = none := by
  simp [Rng.resolve, chk]; omega

theorem resolve_from_out_of_range (len a : Nat) (h : len < a) : (Rng.from a).resolve len = none := by
  simp [Rng.resolve, chk]; omega

theorem resolve_incl_max (len a : Nat) : (Rng.incl a usizeMax).resolve len = none ∧ (Rng.toIncl usizeMax).resolve len = none := by
  simp [Rng.resolve]

theorem resolve_full (len : Nat) : Rng.full.resolve len = some (0, len) := rfl

theorem resolve_empty (len a : Nat) (h : a ≤ len) : (Rng.range a a).resolve len = some (a, a) := by
  simp [Rng.resolve, chk, h]

/-- `drain` panics exactly where the reference vector's `drain` panics … -/
theorem drain_panic_iff (hk : 0 < k) (rs : List (Row α k)) (r : Rng) (sc : List (Step α k)) :
    (step (colsOf rs) (.drain r sc)).2 = .panic ↔ r.resolve rs.length = none := by
  rw [step_refines hk]
  simp only [stepRef]
  cases r.resolve rs.length <;> simp

/-- … and then no column has been touched (the first column's `Vec::drain` panics before any mutation) -/
theorem drain_panic_state (hk : 0 < k) (rs : List (Row α k)) (r : Rng) (sc : List (Step α k)) (h : r.resolve rs.length = none) :
    (step (colsOf rs) (.drain r sc)).1 = colsOf rs := by
  rw [step_refines hk]; simp [stepRef, h]

/-- a drain removes its whole range from every column however much of the iterator was consumed (any script, also the empty one) -/
theorem drain_removes (hk : 0 < k) (rs : List (Row α k)) (r : Rng) (sc : List (Step α k)) (a b : Nat) (h : r.resolve rs.length = some (a, b)) :
    (step (colsOf rs) (.drain r sc)).1 = colsOf (rs.take a ++ rs.drop b) := by
  rw [step_refines hk]; simp [stepRef, h]

theorem getRange_none_iff (hk : 0 < k) (rs : List (Row α k)) (r : Rng) (sc : List (Step α k)) :
    (step (colsOf rs) (.getRange r sc)).2 = .noSlice ↔ r.resolve rs.length = none := by
  rw [step_refines hk]
  simp only [stepRef]
  cases r.resolve rs.length <;> simp

theorem getMutRange_none_iff (hk : 0 < k) (rs : List (Row α k)) (r : Rng) (sc : List (Step α k)) :
    (step (colsOf rs) (.getMutRange r sc)).2 = .noSlice ↔ r.resolve rs.length = none := by
  rw [step_refines hk]
  simp only [stepRef]
  cases r.resolve rs.length <;> simp

theorem get_none_iff (hk : 0 < k) (rs : List (Row α k)) (i : Nat) :
    (step (colsOf rs) (.get i)).2 = .item none ↔ rs.length ≤ i := by
  rw [step_refines hk]; simp [stepRef]

theorem pop_empty (hk : 0 < k) : (step (colsOf ([] : List (Row α k))) .pop) = (colsOf [], .item none) := by
  rw [step_refines hk]; simp [stepRef]

/-! ## without the invariant: a colour is yielded only while every column still has an entry (iteration stops at the shortest) -/

theorem allSome_eq_none_iff {β : Type} (v : Vector (Option β) k) : allSome v = none ↔ ∃ (i : Nat) (h : i < k), v[i] = none := by
  unfold allSome
  split
  · rename_i h
    simp only [reduceCtorEq, false_iff, not_exists]
    intro i hi e
    have := h ⟨i, hi⟩
    simp [e] at this
  · rename_i h
    simp only [true_iff]
    apply Classical.byContradiction
    intro hn
    apply h
    intro i
    cases e : v[i.val] with
    | some x => rfl
    | none => exact absurd ⟨i.val, i.isLt, e⟩ hn

theorem next_none_iff (z : Zip α k) (w : Option (Row α k)) : (z.next w).2 = none ↔ ∃ (j : Nat) (h : j < k), z.rest[j] = [] := by
  simp only [Zip.next, allSome_eq_none_iff, Vector.getElem_map, List.head?_eq_none_iff]

/-! ## what the reference yields (plain list facts, for reading the refinement) -/

theorem readOnly_replicate (n : Nat) (st : Step α k) : (List.replicate n st).map Step.readOnly = List.replicate n st.readOnly := by
  simp

theorem ref_fwd_all (pre rest post : List (Row α k)) :
    ((RZip.mk pre rest post).run (List.replicate (rest.length + 1) (.next none))).2
      = rest.map (fun r => SObs.item (some r)) ++ [SObs.item none] := by
  induction rest generalizing pre with
  | nil => simp [RZip.run, RZip.step, RZip.next, List.replicate]
  | cons x t ih =>
    have := ih (pre ++ [x])
    simp only [List.length_cons, List.replicate_succ, RZip.run, RZip.step, RZip.next, Option.getD_none, List.map_cons, List.cons_append, List.cons.injEq, true_and] at this ⊢
    exact this

theorem ref_back_all (pre l post : List (Row α k)) :
    ((RZip.mk pre l.reverse post).run (List.replicate (l.length + 1) (.nextBack none))).2
      = l.map (fun r => SObs.item (some r)) ++ [SObs.item none] := by
  induction l generalizing post with
  | nil => simp [RZip.run, RZip.step, RZip.nextBack, List.replicate]
  | cons x t ih =>
    have := ih (x :: post)
    simp only [List.length_cons, List.replicate_succ, RZip.run, RZip.step, RZip.nextBack, List.reverse_cons, List.getLast?_concat,
      List.dropLast_concat, Option.getD_none, List.map_cons, List.cons_append, List.cons.injEq, true_and] at this ⊢
    exact this

/-- `iter().rev()` yields the colours last to first, then `None` -/
theorem ref_rev (rs : List (Row α k)) :
    (stepRef rs .rev).2 = .steps (rs.reverse.map (fun r => SObs.item (some r)) ++ [SObs.item none]) := by
  have := ref_back_all [] rs.reverse ([] : List (Row α k))
  simp only [List.reverse_reverse, List.length_reverse] at this
  simp [stepRef, runReadRef, Step.readOnly, this]

/-- `into_iter()` yields the colours first to last, then `None` -/
theorem ref_intoIter (rs : List (Row α k)) :
    (stepRef rs .intoIter).2 = .steps (rs.map (fun r => SObs.item (some r)) ++ [SObs.item none]) := by
  simp [stepRef, runReadRef, Step.readOnly, ref_fwd_all]

/-- so does the struct of arrays -/
theorem rev_spec (hk : 0 < k) (rs : List (Row α k)) :
    (step (colsOf rs) .rev).2 = .steps (rs.reverse.map (fun r => SObs.item (some r)) ++ [SObs.item none]) := by
  rw [step_refines hk, ref_rev]

theorem intoIter_spec (hk : 0 < k) (rs : List (Row α k)) :
    (step (colsOf rs) .intoIter).2 = .steps (rs.map (fun r => SObs.item (some r)) ++ [SObs.item none]) := by
  rw [step_refines hk, ref_intoIter]

/-! ## the extracted macro-invocation table -/

/-- every type with the collection methods has the collection traits, with the same hue flag and field list -/
theorem methods_eq_traits : Gen.Soa.methods = Gen.Soa.traits := rfl

/-- every modelled type has at least one column (the theorems' `0 < k`) -/
theorem every_type_has_a_column : Gen.Soa.methods.all (fun t => decide (0 < t.2.2.1.length)) = true := by decide

/-! ## non-vacuity: concrete histories (two columns … four columns, `α = Nat`) -/

/-- the brief's interleaving: a partially consumed drain followed by a push, on Hsva-shaped data (hue, 2 elements, alpha) -/
example :
    (run (emptyCols Nat 4)
      [.extend [#v[1, 2, 3, 4], #v[5, 6, 7, 8], #v[9, 10, 11, 12], #v[13, 14, 15, 16]],
       .drain (.range 1 3) [.next none], .push #v[17, 18, 19, 20], .len, .get 2, .get 3]).2
    = [.unit, .steps [.item (some #v[5, 6, 7, 8])], .unit, .lens 3 #v[3, 3, 3, 3], .item (some #v[17, 18, 19, 20]), .item none] := by
  decide +kernel

/-- an inverted and an out-of-range drain panic and leave all columns alone; an out-of-range `get(range)` is `None` -/
example :
    run (colsOf [#v[1, 2], #v[3, 4]]) [.drain (.range 2 1) [], .drain (.to 3) [.next none], .getRange (.incl 0 usizeMax) [], .getRange (.from 3) []]
    = (colsOf [#v[1, 2], #v[3, 4]], [.panic, .panic, .noSlice, .noSlice]) := by
  decide +kernel

/-- writes through `iter_mut` from both ends and through `get_mut(range)` land in every column -/
example :
    run (colsOf [#v[1, 2], #v[3, 4], #v[5, 6]]) [.iterMut [.next (some #v[10, 20]), .nextBack (some #v[50, 60])], .getMutRange (.incl 1 1) [.next (some #v[30, 40]), .next none]]
    = (colsOf [#v[10, 20], #v[30, 40], #v[50, 60]], [.steps [.item (some #v[1, 2]), .item (some #v[5, 6])], .steps [.item (some #v[3, 4]), .item none]]) := by
  decide +kernel

/-- the hypotheses of the invariant/refinement theorems are met by a non-empty state; unequal columns are not `EqLen` -/
example : EqLen (colsOf [#v[1, 2, 3], #v[4, 5, 6]]) := eqLen_colsOf _
example : ¬ EqLen (#v[[1, 2], [3]] : Cols Nat 2) := by
  intro h; have := h 0 1 (by decide) (by decide); simp at this

end C18
