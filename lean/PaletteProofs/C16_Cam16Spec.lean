/-
  C16 — "the forward model agrees with the published CAM16 equations", composed.

  `C16_Cam16.lean` (section Spec) proves model = paper equation by equation, each for abstract inputs.  Here the equations are
  chained: `Spec.Cam16.forwardModel` (`PaletteSpec/Cam16Full.lean`) is steps 0–9 of Li et al. 2017 as one function of the raw
  viewing conditions and the stimulus on the paper's scales, and `xyzToCam16_eq_published` says that `xyz_to_cam16 ∘
  prepare_parameters` returns exactly its six correlates — lightness, chroma, hue angle, brightness, colourfulness, saturation —
  for all raw viewing conditions in the documented domain and every colour with positive achromatic signal.  New with respect to the per-equation lemmas: the hue angle `h`, the eccentricity `e_t`, `t`, `A_w`, `D_RGB` of the
  actual `prepare_parameters`, and the composition itself (that each equation is fed with the previous one's output).
  What stays an input of the reference, because the paper does not define it: `c`, `N_c` for surrounds between the three tabulated
  ones (for the three tabulated ones `prepare_surround_eq_spec` gives the table) and the clipping of `D` to [0, 1]; for `Auto`
  discounting `D` is the paper's formula (`specConditions_D_auto`).
  The hue is compared as the angle in radians (the stored degree value is that angle times the model's `degK`, see
  `C16_Cam16Hue.lean`); the paper reports `h` in [0°, 360°), palette in (−180°, 180°] — the same angle modulo 360.
-/
import PaletteProofs.C16_Cam16Defined
import PaletteSpec.Cam16Full

namespace C16
open Cam16

/-- the raw parameters on the paper's scales (white and `Y_b` ×100, as `prepare_parameters` does) -/
noncomputable def specConditions (prm : Parameters ℝ) : Spec.Cam16.ViewingConditions :=
  { Xw := prm.whitePoint.c0 * 100.0, Yw := prm.whitePoint.c1 * 100.0, Zw := prm.whitePoint.c2 * 100.0, LA := prm.adaptingLuminance,
    Yb := prm.backgroundLuminance * 100.0, c := (prepareParameters prm).c, Nc := (prepareParameters prm).nC,
    D := Scalar.clamp (degreeRaw prm.discounting (prepareParameters prm).nC prm.adaptingLuminance) (0.0:ℝ) 1.0 }

/-- with `Auto` discounting the degree of adaptation is the paper's `D = F[1 − (1/3.6)e^((−L_A−42)/92)]`, clipped to [0, 1] -/
theorem specConditions_D_auto (wp : V3 ℝ) (la yb : ℝ) (s : Surround ℝ) :
    (specConditions ⟨wp, la, yb, s, .auto⟩).D
      = Scalar.clamp (Spec.Cam16.degreeOfAdaptation (prepareParameters ⟨wp, la, yb, s, .auto⟩).nC la) (0.0:ℝ) 1.0 := by
  simp only [specConditions, degreeRaw, K.prepare_23, K.prepare_24, K.prepare_25, RealScalar.exp_eq, (discounting_eq_spec _ la 0 0 0).1]

theorem spec_m16_eq (X Y Z : ℝ) :
    Spec.Cam16.m16 X Y Z = ((m16 ⟨X, Y, Z⟩).c0, (m16 ⟨X, Y, Z⟩).c1, (m16 ⟨X, Y, Z⟩).c2) := by
  rw [m16_eq]; rfl

/-- **= published `D_R, D_G, D_B`** of the actual `prepare_parameters` -/
theorem dRgb_eq_spec (prm : Parameters ℝ) :
    let vc := specConditions prm
    let w := Spec.Cam16.m16 vc.Xw vc.Yw vc.Zw
    (prepareParameters prm).dRgb = ⟨Spec.Cam16.dFactor vc.D vc.Yw w.1, Spec.Cam16.dFactor vc.D vc.Yw w.2.1, Spec.Cam16.dFactor vc.D vc.Yw w.2.2⟩ := by
  obtain ⟨-, -, -, -, -, -, -, -, rdrgb, -⟩ := prepare_struct prm
  simp only [] at rdrgb ⊢
  rw [rdrgb, spec_m16_eq]
  simp only [map3, specConditions, K.prepare_0, (discounting_eq_spec 0 0 _ _ _).2]

/-- **= published steps 1–3** for any stimulus: the adapted responses of the forward model are the paper's post-adaptation responses
    minus the offset 0.1 -/
theorem postAdapted_eq_spec (prm : Parameters ℝ) (xyz : V3 ℝ) :
    Spec.Cam16.postAdapted (specConditions prm) (xyz.c0 * 100.0) (xyz.c1 * 100.0) (xyz.c2 * 100.0)
      = ((forward xyz (prepareParameters prm)).rA + 0.1, (forward xyz (prepareParameters prm)).gA + 0.1, (forward xyz (prepareParameters prm)).bA + 0.1) := by
  obtain ⟨e0, e1, e2⟩ := forward_adapted xyz (prepareParameters prm)
  obtain ⟨efl, -⟩ := prepare_eq_spec prm
  have ed := dRgb_eq_spec prm
  rw [e0, e1, e2, adaptRun_eq_spec, adaptRun_eq_spec, adaptRun_eq_spec, efl]
  simp only [Spec.Cam16.postAdapted, coneAdapted, mul3, ed, spec_m16_eq]
  have hLA : (specConditions prm).LA = prm.adaptingLuminance := rfl
  rw [hLA]
  rw [mul_comm (Spec.Cam16.dFactor _ _ (m16 _).c0), mul_comm (Spec.Cam16.dFactor _ _ (m16 _).c1), mul_comm (Spec.Cam16.dFactor _ _ (m16 _).c2)]

/-- **= published `A_w`** -/
theorem aW_eq_spec {prm : Parameters ℝ} (v : ValidRaw prm) : (prepareParameters prm).aW = Spec.Cam16.Aw (specConditions prm) := by
  have hn := prepare_n_pos prm v.yb v.yw
  obtain ⟨-, -, en, -, enbb, -⟩ := prepare_eq_spec prm
  have hw := postAdapted_eq_spec prm prm.whitePoint
  obtain ⟨e0, e1, e2⟩ := forward_adapted prm.whitePoint (prepareParameters prm)
  unfold Spec.Cam16.Aw
  have h1 : (specConditions prm).Xw = prm.whitePoint.c0 * 100.0 := rfl
  have h2 : (specConditions prm).Yw = prm.whitePoint.c1 * 100.0 := rfl
  have h3 : (specConditions prm).Zw = prm.whitePoint.c2 * 100.0 := rfl
  have h4 : (specConditions prm).Yb = prm.backgroundLuminance * 100.0 := rfl
  simp only [h1, h2, h3, h4, hw]
  rw [show prm.backgroundLuminance * (100.0:ℝ) = prm.backgroundLuminance * 100 by norm_num,
    show prm.whitePoint.c1 * (100.0:ℝ) = prm.whitePoint.c1 * 100 by norm_num, ← en, ← enbb hn,
    ← (opponent_eq_spec _ _ _ _).2.2.1, prepare_aW, e0, e1, e2]
  rfl

/-- **the forward model is the published one, composed**: for raw viewing conditions in the documented domain and a colour with
    positive achromatic signal, `xyz_to_cam16 (prepare_parameters prm)` returns exactly the six correlates of
    `Spec.Cam16.forwardModel` (steps 0–9 of the paper on the paper's scales); the stored hue is the paper's hue angle (radians)
    times the model's degree factor.  (The second domain condition, a positive denominator of `t`, is not needed for the equality
    at ℝ — both sides then take the same real power of a negative `t` by Mathlib's convention; it is where both are *defined*,
    `forward_defined_iff`.) -/
theorem xyzToCam16_eq_published {prm : Parameters ℝ} (v : ValidRaw prm) (xyz : V3 ℝ)
    (hA : 0 < achromaticSignal (forward xyz (prepareParameters prm))) :
    let f := xyzToCam16 xyz (prepareParameters prm)
    let S := Spec.Cam16.forwardModel (specConditions prm) (xyz.c0 * 100.0) (xyz.c1 * 100.0) (xyz.c2 * 100.0)
    f.lightness = S.J ∧ f.chroma = S.C ∧ (forward xyz (prepareParameters prm)).hRad = S.h ∧ f.hue = S.h * degK ∧
    f.brightness = S.Q ∧ f.colorfulness = S.M ∧ f.saturation = S.s := by
  intro f S
  have P := prepare_positive v
  have hn := P.n
  obtain ⟨efl, efl4, en, ez, enbb, encb⟩ := prepare_eq_spec prm
  have enbb' := enbb hn
  have hj := forward_jRoot_pos xyz _ P hA
  have hc : 0 < (prepareParameters prm).c := by have := P.c_lo; linarith
  obtain ⟨-, -, -, r4, r5, r6, -, -⟩ := forward_struct xyz (prepareParameters prm)
  simp only [K.xyzToCam16_1, K.xyzToCam16_2, K.xyzToCam16_3, K.xyzToCam16_4, RealScalar.atan2_eq] at r4 r5 r6
  set w := forward xyz (prepareParameters prm) with hw
  set p := prepareParameters prm with hp
  obtain ⟨oa, ob, oA, oden⟩ := opponent_eq_spec p.nBb w.rA w.gA w.bA
  -- the pieces of the reference
  have sn : Spec.Cam16.n (specConditions prm).Yb (specConditions prm).Yw = p.n := by
    rw [en]; show Spec.Cam16.n (prm.backgroundLuminance * 100.0) (prm.whitePoint.c1 * 100.0) = _; norm_num
  have sLA : (specConditions prm).LA = prm.adaptingLuminance := rfl
  have sc : (specConditions prm).c = p.c := rfl
  have sNc : (specConditions prm).Nc = p.nC := rfl
  have sAw : Spec.Cam16.Aw (specConditions prm) = p.aW := (aW_eq_spec v).symm
  have sh : Spec.Cam16.hRad (w.rA + 0.1) (w.gA + 0.1) (w.bA + 0.1) = w.hRad := by
    unfold Spec.Cam16.hRad; rw [← oa, ← ob, r6, r4, r5]
  have sA : Spec.Cam16.achromatic p.nBb (w.rA + 0.1) (w.gA + 0.1) (w.bA + 0.1) = p.nBb * achromaticSignal w := by
    rw [← oA]; rfl
  have hAq : 0 < p.nBb * achromaticSignal w / p.aW := by have := P.nBb; have := P.aW; positivity
  have sJ : Spec.Cam16.J (p.nBb * achromaticSignal w) p.aW p.c p.z = f.lightness := by
    rw [← lightness_eq_spec hAq]
    show _ = calculateLightness w.jRoot
    rw [hw, forward_jRoot_eq]
  have sQ : Spec.Cam16.Q f.lightness p.aW p.c (Spec.Cam16.FL prm.adaptingLuminance) = f.brightness := by
    show Spec.Cam16.Q (calculateLightness w.jRoot) _ _ _ = calculateBrightness w.jRoot p.c p.aW p.fL4
    rw [efl4, brightness_eq_spec hj.le]
  have st : Spec.Cam16.t p.nC p.nBb (Spec.Cam16.eT w.hRad) (Spec.Cam16.a (w.rA + 0.1) (w.gA + 0.1) (w.bA + 0.1))
      (Spec.Cam16.b (w.rA + 0.1) (w.gA + 0.1) (w.bA + 0.1)) (w.rA + 0.1) (w.gA + 0.1) (w.bA + 0.1) = tOf w p := by
    unfold Spec.Cam16.t Spec.Cam16.eT tOf tDenominator
    rw [← oa, ← ob, ← oden, ← r4, ← r5, encb]
    have hs : 0 ≤ w.a * w.a + w.b * w.b := by have := mul_self_nonneg w.a; have := mul_self_nonneg w.b; linarith
    have : (w.a ^ 2 + w.b ^ 2) ^ ((1:ℝ) / 2) = Real.sqrt (w.a * w.a + w.b * w.b) := by
      rw [Real.sqrt_eq_rpow]; congr 1; ring
    rw [this]; norm_num
  have sC : Spec.Cam16.C (tOf w p) f.lightness p.n = f.chroma := by
    show Spec.Cam16.C _ (calculateLightness w.jRoot) _ = calculateChroma w.jRoot w.alpha
    rw [← chroma_eq_spec hj.le, hw, forward_alpha_eq]
  have sM : Spec.Cam16.M f.chroma (Spec.Cam16.FL prm.adaptingLuminance) = f.colorfulness := by
    show _ = calculateColorfulness p.fL4 (calculateChroma w.jRoot w.alpha)
    rw [efl4, colorfulness_eq_spec]; rfl
  have sS : Spec.Cam16.s f.colorfulness f.brightness = f.saturation := by
    show _ = calculateSaturation p.c p.aW w.alpha
    rw [saturation_eq_spec hj hc (by have := P.aW; linarith) P.fL4]; rfl
  have eS : S = { J := f.lightness, C := f.chroma, h := w.hRad, Q := f.brightness, M := f.colorfulness, s := f.saturation } := by
    show Spec.Cam16.forwardModel _ _ _ _ = _
    unfold Spec.Cam16.forwardModel
    simp only [postAdapted_eq_spec, ← hp, ← hw, sn, sLA, sc, sNc, sAw, ← enbb', ← ez, sh, sA, sJ, sQ, st, sC, sM, sS]
  rw [eS]
  exact ⟨rfl, rfl, rfl, rfl, rfl, rfl, rfl⟩

/-- non-vacuity: the mid grey under the D65 test conditions satisfies the hypotheses -/
example :
    let prm : Parameters ℝ := ⟨⟨0.95047, 1.0, 1.08883⟩, 40.0, 0.2, .average, .auto⟩
    (xyzToCam16 ⟨0.2, 0.2, 0.2⟩ (prepareParameters prm)).lightness
      = (Spec.Cam16.forwardModel (specConditions prm) (0.2 * 100.0) (0.2 * 100.0) (0.2 * 100.0)).J := by
  intro prm
  exact (xyzToCam16_eq_published (validRaw_d65 .average .auto) ⟨0.2, 0.2, 0.2⟩ grey_inDomain.2).1

end C16
