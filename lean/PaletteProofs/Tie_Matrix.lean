/-
  Tie of the matrix code of palette and of the trait- / `TypeId`-dispatched conversion edges around it to the *text* of the Rust
  functions (C14; shared edges of C01 / C02).

  `tools/extract.py` (plugin `tools/extract_plugins/matrix.py`, translator `tools/rust2lean_matrix.py`) re-translates on every run the
  bodies of `matrix.rs` (`multiply_3x3`, `matrix_inverse` with its `assert!` and its panic, `matrix_map`, `rgb_to_xyz_matrix`,
  `mat3_from_primaries`), `convert/matrix3.rs` (`Matrix3::{convert_once, convert, identity, scale, then, invert, from_array, into_array}`),
  `chromatic_adaptation.rs` (`adaptation_matrix`, `diagonal_matrix`, `TransformMatrix::{generate_transform_matrix, get_cone_response}`, the
  blanket `AdaptFrom` / `AdaptInto` / `AdaptIntoUnclamped` impls and the trait defaults that choose Bradford), `lms/matrix.rs` (the six
  cone matrices), the `RgbSpace` defaults of `rgb.rs`, `Xyz::matrix_from_rgb` / `matrix_from_lms`, `Rgb::matrix_from_xyz`,
  `Lms::matrix_from_xyz`, and the edges `Xyz ↔ Rgb<S>`, `Rgb<S1> ← Rgb<S2>`, `Rgb ← Luma`, `Luma ← Luma / Xyz / Yxy`, `Xyz / Yxy ← Luma`,
  `Lms ↔ Xyz`, `Oklab ↔ Rgb<S>`, `Xyz<Wp2> ← Xyz<Wp1>` into `Gen.BodyMatrix.*` (lean/PaletteModel/Gen/BodiesMatrix.lean).

  Every trait-dispatched callee is a **parameter** of the translated body, every `TypeId::of::<A>() == TypeId::of::<B>()` a Boolean
  parameter `same_<A>_<B>`, a body that can panic is a function into `Option`.  Each `tie_<name>` states, for every `α` with `[Scalar α]`
  (hence at `Float`, `Float32`, `ℚ`, `ℝ` alike) and every input, that the translated body - with its parameters instantiated by the model
  functions the statement names, and its `same_..` parameters by the comparison the model makes - *is* the hand-written model function the
  driver executes and the C14 / C01 / C02 theorems talk about.  The proofs only unfold and split on the Booleans / `Option`s: no law of
  arithmetic is used.  `*_shape` theorems state the branch structure for *every* value of the parameters.

  So a changed operand, index, association, a dropped `assert!` / guard, a swapped argument of `multiply_3x3`, a `TypeId` test of other
  types or with swapped branches, `Some`/`None` arms exchanged, another default `Method` - each is a broken obligation naming the function,
  where the correspondence run may see nothing (all RGB spaces of the crate have hard-coded tables: the derived-matrix path is *not
  executed* by any built-in standard, only by user tuples `(Primaries, WhitePoint, TransferFn)`).

  NOT translated: header of Gen/BodiesMatrix.lean.
-/
import PaletteModel.Gen.BodiesMatrix
import PaletteModel.MatrixForms
import PaletteModel.Color.Ok
import PaletteProofs.Tie_Bodies

namespace Tie
variable {α : Type} [Scalar α]

/-! ### matrix.rs -/

theorem tie_multiply3x3 : @Gen.BodyMatrix.multiply3x3 α _ = M3.mul := rfl

/-- incl. `assert!(a.len() > 8)` (never fires: `[T; 9]`) and the panic on a determinant that is not a valid divisor (`none`) -/
theorem tie_matrixInverse : @Gen.BodyMatrix.matrixInverse α _ = Adapt.matrixInverse := by
  funext a
  unfold Gen.BodyMatrix.matrixInverse Adapt.matrixInverse
  cases h : Scalar.isValidDivisor (a.m0 * (a.m4 * a.m8 - a.m5 * a.m7) - a.m1 * (a.m3 * a.m8 - a.m5 * a.m6) + a.m2 * (a.m3 * a.m7 - a.m4 * a.m6)) <;>
    simp only [Prim.m3Len, Prim.recip, h] <;> rfl

theorem tie_matrixMap {σ τ : Type} : @Gen.BodyMatrix.matrixMap σ τ = MatrixForms.m3Map := rfl
theorem tie_mat3FromPrimaries : @Gen.BodyMatrix.mat3FromPrimaries α _ = MatrixForms.mat3FromPrimaries := rfl

theorem tie_rgbToXyzMatrix : @Gen.BodyMatrix.rgbToXyzMatrix α _ = MatrixForms.rgbToXyzMatrix := by
  funext red green blue f wp
  unfold Gen.BodyMatrix.rgbToXyzMatrix MatrixForms.rgbToXyzMatrix
  rw [tie_matrixInverse, tie_mat3FromPrimaries]
  dsimp only
  cases Adapt.matrixInverse (MatrixForms.mat3FromPrimaries (f red) (f green) (f blue)) <;> rfl

/-! ### convert/matrix3.rs -/

theorem tie_matrix3FromArray {σ : Type} : @Gen.BodyMatrix.matrix3FromArray σ = Prim.Matrix3.mk := rfl
theorem tie_matrix3IntoArray {σ : Type} : @Gen.BodyMatrix.matrix3IntoArray σ = Prim.Matrix3.matrix := rfl
theorem tie_matrix3ConvertOnce : @Gen.BodyMatrix.matrix3ConvertOnce α _ = MatrixForms.convertOnce := rfl
theorem tie_matrix3Convert : @Gen.BodyMatrix.matrix3Convert α _ = MatrixForms.convertOnce := rfl
theorem tie_matrix3Identity : @Gen.BodyMatrix.matrix3Identity α _ = MatrixForms.identity := rfl
theorem tie_matrix3Scale : @Gen.BodyMatrix.matrix3Scale α _ = MatrixForms.scale := rfl
/-- `a.then(next)` multiplies `next · a` -/
theorem tie_matrix3Then : @Gen.BodyMatrix.matrix3Then α _ = MatrixForms.andThen := rfl
theorem tie_matrix3Invert : @Gen.BodyMatrix.matrix3Invert α _ = MatrixForms.invert := by
  funext a
  unfold Gen.BodyMatrix.matrix3Invert MatrixForms.invert
  rw [tie_matrixInverse]
  cases Adapt.matrixInverse a.matrix <;> rfl

/-! ### helpers of the colour structs -/

theorem tie_xyzNormalize : @Gen.BodyMatrix.xyzNormalize α _ = Adapt.normalize := rfl
theorem tie_xyzWithWhitePoint : @Gen.BodyMatrix.xyzWithWhitePoint α _ = MatrixForms.reinterpret := rfl
theorem tie_lmsWithMeta : @Gen.BodyMatrix.lmsWithMeta α _ = MatrixForms.reinterpret := rfl
theorem tie_rgbReinterpretAs : @Gen.BodyMatrix.rgbReinterpretAs α _ = MatrixForms.reinterpret := rfl
theorem tie_lumaReinterpretAs : @Gen.BodyMatrix.lumaReinterpretAs α _ = MatrixForms.reinterpretLuma := rfl
theorem tie_rgbIntoLinear : @Gen.BodyMatrix.rgbIntoLinear α _ = MatrixForms.mapRgb := rfl
theorem tie_rgbFromLinear : @Gen.BodyMatrix.rgbFromLinear α _ = MatrixForms.mapRgb := rfl
theorem tie_lumaIntoLinear : @Gen.BodyMatrix.lumaIntoLinear α _ = MatrixForms.mapLuma := rfl
theorem tie_lumaFromLinear : @Gen.BodyMatrix.lumaFromLinear α _ = MatrixForms.mapLuma := rfl

/-- at a transfer function of the model these are `RgbFam.intoLinear` / `fromLinear` -/
theorem rgbIntoLinear_at (tf : Transfer.Fn) : Gen.BodyMatrix.rgbIntoLinear (Transfer.intoLinear (α := α) tf) = RgbFam.intoLinear tf := rfl
theorem rgbFromLinear_at (tf : Transfer.Fn) : Gen.BodyMatrix.rgbFromLinear (Transfer.fromLinear (α := α) tf) = RgbFam.fromLinear tf := rfl

/-! ### lms/matrix.rs: the literal matrices are the extracted tables -/

theorem tie_vonKriesXyzToLms : @Gen.BodyMatrix.vonKriesXyzToLms α _ = MatrixForms.coneToLms "VonKries" := rfl
theorem tie_vonKriesLmsToXyz : @Gen.BodyMatrix.vonKriesLmsToXyz α _ = MatrixForms.coneToXyz "VonKries" := rfl
theorem tie_bradfordXyzToLms : @Gen.BodyMatrix.bradfordXyzToLms α _ = MatrixForms.coneToLms "Bradford" := rfl
theorem tie_bradfordLmsToXyz : @Gen.BodyMatrix.bradfordLmsToXyz α _ = MatrixForms.coneToXyz "Bradford" := rfl
theorem tie_unitXyzToLms : @Gen.BodyMatrix.unitXyzToLms α _ = MatrixForms.coneToLms "UnitMatrix" := rfl
theorem tie_unitLmsToXyz : @Gen.BodyMatrix.unitLmsToXyz α _ = MatrixForms.coneToXyz "UnitMatrix" := rfl

/-! ### matrices as conversions -/

theorem tie_lmsMatrixFromXyz : @Gen.BodyMatrix.lmsMatrixFromXyz α _ = MatrixForms.ofMatrix := rfl
theorem tie_xyzMatrixFromLms : @Gen.BodyMatrix.xyzMatrixFromLms α _ = MatrixForms.ofMatrix := rfl
/-- the `RgbSpace` defaults - all that the tuple space `impl<P, W> RgbSpace for (P, W)` has (pinned: it defines no method) - are `None` -/
theorem tie_rgbSpaceDefaultRgbToXyz : Gen.BodyMatrix.rgbSpaceDefaultRgbToXyz = MatrixForms.noHardMatrix := rfl
theorem tie_rgbSpaceDefaultXyzToRgb : Gen.BodyMatrix.rgbSpaceDefaultXyzToRgb = MatrixForms.noHardMatrix := rfl

theorem tie_xyzMatrixFromRgb (hard : Option (M3 K)) (red green blue : V3 α) (f : V3 α → V3 α) (wp : V3 α) :
    Gen.BodyMatrix.xyzMatrixFromRgb hard red green blue f wp = MatrixForms.matrixFromRgb hard (MatrixForms.rgbToXyzMatrix red green blue f wp) := by
  unfold Gen.BodyMatrix.xyzMatrixFromRgb MatrixForms.matrixFromRgb
  rw [tie_rgbToXyzMatrix]
  cases hard
  · cases MatrixForms.rgbToXyzMatrix red green blue f wp <;> rfl
  · rfl

theorem tie_rgbMatrixFromXyz (hard : Option (M3 K)) (red green blue : V3 α) (f : V3 α → V3 α) (wp : V3 α) :
    Gen.BodyMatrix.rgbMatrixFromXyz hard red green blue f wp = MatrixForms.matrixFromXyz hard (MatrixForms.rgbToXyzMatrix red green blue f wp) := by
  unfold Gen.BodyMatrix.rgbMatrixFromXyz MatrixForms.matrixFromXyz
  rw [tie_rgbToXyzMatrix, tie_matrixInverse]
  cases hard
  · cases MatrixForms.rgbToXyzMatrix red green blue f wp with
    | none => rfl
    | some d => simp only [Option.bind]; cases Adapt.matrixInverse d <;> rfl
  · rfl

/-! ### chromatic_adaptation.rs -/

theorem tie_diagonalMatrix (i o : V3 α) : Gen.BodyMatrix.diagonalMatrix i o = ⟨Adapt.diagonalMatrix i o⟩ := rfl

/-- `adaptation_matrix::<T, I, O, M>(None, None)` with `Xyz → Lms` being the matrix `M::xyz_to_lms_matrix()` (tie_lmsFromXyz) -/
theorem tie_adaptationMatrix (x2l l2x : M3 α) (wi wo : V3 α) :
    Gen.BodyMatrix.adaptationMatrix x2l l2x wi wo x2l.mulVec x2l.mulVec none none = ⟨Adapt.adaptationMatrix x2l l2x wi wo⟩ := rfl
/-- explicit white points replace the type-level ones, each on its own side -/
theorem adaptationMatrix_shape (x2l l2x : M3 α) (wi wo : V3 α) (a b : Option (V3 α)) :
    Gen.BodyMatrix.adaptationMatrix x2l l2x wi wo x2l.mulVec x2l.mulVec a b = ⟨Adapt.adaptationMatrix x2l l2x (a.getD wi) (b.getD wo)⟩ := by
  cases a <;> cases b <;> rfl

theorem tie_adaptIntoUnclampedWith {σ τ : Type} : @Gen.BodyMatrix.adaptIntoUnclampedWith σ τ = MatrixForms.apply := rfl
/-- the default method of the new API is Bradford (`VonKries` / `UnitMatrix` are registered alternatives: using one is a wrong term) -/
theorem tie_adaptFromUnclamped {σ τ : Type} (b v u : σ → τ) : Gen.BodyMatrix.adaptFromUnclamped b v u = MatrixForms.apply b := rfl
theorem tie_adaptIntoUnclamped {σ τ : Type} (b v u : σ → τ) : Gen.BodyMatrix.adaptIntoUnclamped b v u = MatrixForms.apply b := rfl

theorem tie_getConeResponse : @Gen.BodyMatrix.getConeResponse α _ = MatrixForms.coneResponse := by
  funext m; cases m <;> rfl

theorem tie_generateTransformMatrix {μ : Type} (ma invMa : M3 α) (m : μ) (ws wd : V3 α) :
    Gen.BodyMatrix.generateTransformMatrix (fun _ => ⟨ma, invMa⟩) m ws wd = Adapt.generateTransformMatrix ma invMa ws wd := rfl
/-- … with the translated `get_cone_response` of `Method` filling the hole -/
theorem generateTransformMatrix_at_method (m : Prim.Method) (ws wd : V3 α) :
    Gen.BodyMatrix.generateTransformMatrix Gen.BodyMatrix.getConeResponse m ws wd =
      Adapt.generateTransformMatrix (MatrixForms.coneToLms (MatrixForms.methodName m)) (MatrixForms.coneToXyz (MatrixForms.methodName m)) ws wd := by
  rw [tie_getConeResponse]; rfl

theorem tie_adaptFromUsing {σ τ μ : Type} : @Gen.BodyMatrix.adaptFromUsing α σ τ μ _ = MatrixForms.adaptFromUsing := rfl
theorem tie_adaptFrom {σ τ : Type} : @Gen.BodyMatrix.adaptFrom σ τ = MatrixForms.withMethod := rfl
theorem tie_adaptIntoUsing {σ τ μ : Type} : @Gen.BodyMatrix.adaptIntoUsing σ τ μ = MatrixForms.apply2 := rfl
theorem tie_adaptInto {σ τ : Type} : @Gen.BodyMatrix.adaptInto σ τ = MatrixForms.withMethod := rfl

/-- **same white point → the input, unchanged; the matrix is computed only when the white points differ** -/
theorem tie_xyzAdaptFromUnclampedWith (x2l l2x : M3 α) (wi wo : V3 α) (same : Bool) (x : V3 α) :
    Gen.BodyMatrix.xyzAdaptFromUnclampedWith (same_Wp1_Wp2 := same) x2l l2x wi wo x2l.mulVec x2l.mulVec x = MatrixForms.adaptXyz same x2l l2x wi wo x := by
  cases same <;> rfl
theorem xyzAdapt_same (x2l l2x : M3 α) (wi wo : V3 α) (f g : V3 α → V3 α) (x : V3 α) :
    Gen.BodyMatrix.xyzAdaptFromUnclampedWith (same_Wp1_Wp2 := true) x2l l2x wi wo f g x = x := rfl

/-! ### conversion edges -/

/-- `Xyz ← Rgb<S>` for a space with a hard-coded table (every space of the crate): the model's `RgbFam.rgbToXyz`, never a panic -/
theorem tie_xyzFromRgb (a b c d e f g h i : K) (tf : Transfer.Fn) (red green blue wp : V3 α) (y : V3 α → V3 α) (x : V3 α) :
    Gen.BodyMatrix.xyzFromRgb (some ⟨a, b, c, d, e, f, g, h, i⟩) red green blue y wp (RgbFam.intoLinear tf) x = some (RgbFam.rgbToXyz [a, b, c, d, e, f, g, h, i] tf x) := rfl
/-- … and for a space without table (the tuple space): the derived matrix, `none` exactly when `rgb_to_xyz_matrix` panics -/
theorem xyzFromRgb_derived (tf : Transfer.Fn) (red green blue wp : V3 α) (y : V3 α → V3 α) (x : V3 α) :
    Gen.BodyMatrix.xyzFromRgb Gen.BodyMatrix.rgbSpaceDefaultRgbToXyz red green blue y wp (RgbFam.intoLinear tf) x =
      (MatrixForms.rgbToXyzMatrix red green blue y wp).map (fun m => m.mulVec (RgbFam.intoLinear tf x)) := by
  unfold Gen.BodyMatrix.xyzFromRgb
  rw [tie_xyzMatrixFromRgb]
  cases MatrixForms.rgbToXyzMatrix red green blue y wp <;> rfl

theorem tie_rgbFromXyz (a b c d e f g h i : K) (tf : Transfer.Fn) (red green blue wp : V3 α) (y : V3 α → V3 α) (x : V3 α) :
    Gen.BodyMatrix.rgbFromXyz (some ⟨a, b, c, d, e, f, g, h, i⟩) red green blue y wp (RgbFam.fromLinear tf) x = some (RgbFam.xyzToRgb [a, b, c, d, e, f, g, h, i] tf x) := rfl
theorem rgbFromXyz_derived (tf : Transfer.Fn) (red green blue wp : V3 α) (y : V3 α → V3 α) (x : V3 α) :
    Gen.BodyMatrix.rgbFromXyz Gen.BodyMatrix.rgbSpaceDefaultXyzToRgb red green blue y wp (RgbFam.fromLinear tf) x =
      ((MatrixForms.rgbToXyzMatrix red green blue y wp).bind Adapt.matrixInverse).map (fun m => RgbFam.fromLinear tf (m.mulVec x)) := by
  unfold Gen.BodyMatrix.rgbFromXyz
  rw [tie_rgbMatrixFromXyz]
  cases MatrixForms.rgbToXyzMatrix red green blue y wp with
  | none => rfl
  | some d =>
    show Option.bind (MatrixForms.matrixFromXyz MatrixForms.noHardMatrix (some d)) _ = _
    unfold MatrixForms.matrixFromXyz MatrixForms.noHardMatrix
    simp only [Option.bind]
    cases Adapt.matrixInverse d <;> rfl

/-- **`Rgb<S1> ← Rgb<S2>`**: same standard → reinterpret; same primaries → transfer functions only; else through `Xyz` -/
theorem tie_rgbFromRgb (src dst : RgbFam.Std) (c : V3 α) :
    Gen.BodyMatrix.rgbFromRgb (same_S1_S2 := src.name == dst.name) (same_S1_Space_as_RgbSpace_Primaries_S2_Space_as_RgbSpace_Primaries := src.space == dst.space)
      (RgbFam.intoLinear src.tf) (RgbFam.fromLinear dst.tf) (RgbFam.rgbToXyz src.toXyz src.tf) (RgbFam.xyzToRgb dst.fromXyz dst.tf) c = RgbFam.rgbToRgb src dst c := rfl
/-- which branch under which type equality, for every value of the callees -/
theorem rgbFromRgb_shape (il fl x r : V3 α → V3 α) (sameStd samePrim : Bool) (c : V3 α) :
    Gen.BodyMatrix.rgbFromRgb (same_S1_S2 := sameStd) (same_S1_Space_as_RgbSpace_Primaries_S2_Space_as_RgbSpace_Primaries := samePrim) il fl x r c
      = if sameStd then c else if samePrim then fl (il c) else r (x c) := rfl

/-- **`Rgb ← Luma`**: equal transfer function *types* → the encoded value copied, else decoded and re-encoded -/
theorem tie_rgbFromLuma (src dst : RgbFam.Std) (c : V3 α) :
    Gen.BodyMatrix.rgbFromLuma (same_S_TransferFn_St_TransferFn := decide (src.tf = dst.tf)) (Gen.BodyMatrix.lumaIntoLinear (Transfer.intoLinear src.tf)) (RgbFam.fromLinear dst.tf) ⟨c.c0⟩
      = RgbFam.lumaToRgb src dst c := by
  unfold Gen.BodyMatrix.rgbFromLuma RgbFam.lumaToRgb
  by_cases h : src.tf = dst.tf <;> simp only [h, decide_true, decide_false, if_true, if_false] <;> rfl

theorem tie_lumaFromLuma (src dst : RgbFam.Std) (c : V3 α) :
    RgbFam.ofLuma (Gen.BodyMatrix.lumaFromLuma (same_S1_S2 := src.name == dst.name) (Gen.BodyMatrix.lumaIntoLinear (Transfer.intoLinear src.tf))
      (Gen.BodyMatrix.lumaFromLinear (Transfer.fromLinear dst.tf)) ⟨c.c0⟩).luma = RgbFam.lumaToLuma src dst c := by
  unfold Gen.BodyMatrix.lumaFromLuma RgbFam.lumaToLuma
  cases (src.name == dst.name) <;> rfl

theorem tie_lumaFromXyz (dst : RgbFam.Std) (c : V3 α) :
    RgbFam.ofLuma (Gen.BodyMatrix.lumaFromXyz (Gen.BodyMatrix.lumaFromLinear (Transfer.fromLinear dst.tf)) c).luma = RgbFam.xyzToLuma dst c := rfl
theorem tie_lumaFromYxy (dst : RgbFam.Std) (c : V3 α) :
    RgbFam.ofLuma (Gen.BodyMatrix.lumaFromYxy (Gen.BodyMatrix.lumaFromLinear (Transfer.fromLinear dst.tf)) c).luma = RgbFam.yxyToLuma dst c := rfl
theorem tie_xyzFromLuma (src : RgbFam.Std) (c : V3 α) :
    Gen.BodyMatrix.xyzFromLuma (Color.whitePoint src.wp) (Gen.BodyMatrix.lumaIntoLinear (Transfer.intoLinear src.tf)) ⟨c.c0⟩ = RgbFam.lumaToXyz src c := rfl
theorem tie_yxyDefault (wp : V3 α) : Gen.BodyMatrix.yxyDefault wp Cie.xyzToYxy = MatrixForms.yxyDefault wp := rfl
theorem tie_yxyFromLuma (src : RgbFam.Std) (c : V3 α) :
    Gen.BodyMatrix.yxyFromLuma (Gen.BodyMatrix.yxyDefault (Color.whitePoint src.wp) Cie.xyzToYxy) (Gen.BodyMatrix.lumaIntoLinear (Transfer.intoLinear src.tf)) ⟨c.c0⟩
      = RgbFam.lumaToYxy src c := rfl

theorem tie_lmsFromXyz (toLms : List K) (c : V3 α) : Gen.BodyMatrix.lmsFromXyz (M3.ofK toLms) c = Cie.xyzToLms toLms c := rfl
theorem tie_xyzFromLms (toXyz : List K) (c : V3 α) : Gen.BodyMatrix.xyzFromLms (M3.ofK toXyz) c = Cie.lmsToXyz toXyz c := rfl

/-- **`Oklab ← Rgb<S>`**: the direct sRGB matrices exactly when `S::Space` *is* `Srgb`, else through `Xyz` -/
theorem tie_oklabFromRgb (sp : Color.RgbSpaceData) (tf : Transfer.Fn) (c : V3 α) :
    Gen.BodyMatrix.oklabFromRgb (same_S_as_RgbStandard_Space_Srgb := sp.name == "Srgb") (RgbFam.intoLinear tf) (Ok.rgbToXyzHard sp tf) Ok.xyzToOklab c = Ok.rgbToOklab sp tf c := rfl
theorem oklabFromRgb_shape (il x o : V3 α → V3 α) (isSrgb : Bool) (c : V3 α) :
    Gen.BodyMatrix.oklabFromRgb (same_S_as_RgbStandard_Space_Srgb := isSrgb) il x o c = if isSrgb then Ok.linSrgbToOklab (il c) else o (x c) := rfl
theorem tie_rgbFromOklab (sp : Color.RgbSpaceData) (tf : Transfer.Fn) (c : V3 α) :
    Gen.BodyMatrix.rgbFromOklab (same_S_as_RgbStandard_Space_Srgb := sp.name == "Srgb") (RgbFam.fromLinear tf) Ok.oklabToXyz (Ok.xyzToRgbHard sp tf) c = Ok.oklabToRgb sp tf c := rfl
theorem rgbFromOklab_shape (l x r : V3 α → V3 α) (isSrgb : Bool) (c : V3 α) :
    Gen.BodyMatrix.rgbFromOklab (same_S_as_RgbStandard_Space_Srgb := isSrgb) l x r c = if isSrgb then l (Ok.oklabToLinSrgb c) else r (x c) := rfl

/-! ### the derived matrix is the model's `MatArith.rgbToXyzMatrix`, and the tuple space uses exactly it -/

/-- `Adapt.matrixInverse` is `MatArith.inverse` guarded by the validity of `MatArith.det` -/
theorem matrixInverse_eq_matArith (a : M3 α) :
    Adapt.matrixInverse a = if Scalar.isValidDivisor (MatArith.det a) then some (MatArith.inverse a) else none := rfl

/-- for primaries whose `y` is a valid divisor (`Cie.yxyToXyz` then takes the branch `MatArith.primaryXyz` writes out) and an invertible
    primaries matrix, the translated `rgb_to_xyz_matrix` is the panic-free `MatArith.rgbToXyzMatrix` that the decided facts about the tables
    (`C02.derived_matrix_eq_lindbloom`, `hard_matrices_near_derived`, `derived_white_exact`) evaluate -/
theorem rgbToXyzMatrix_eq_matArith (red green blue wp : V3 α)
    (hr : Scalar.isValidDivisor red.c1 = true) (hg : Scalar.isValidDivisor green.c1 = true) (hb : Scalar.isValidDivisor blue.c1 = true)
    (hdet : Scalar.isValidDivisor (MatArith.det (MatrixForms.mat3FromPrimaries (MatArith.primaryXyz red) (MatArith.primaryXyz green) (MatArith.primaryXyz blue))) = true) :
    Gen.BodyMatrix.rgbToXyzMatrix red green blue Cie.yxyToXyz wp = some (MatArith.rgbToXyzMatrix red green blue wp) := by
  have e : ∀ p : V3 α, Scalar.isValidDivisor p.c1 = true → Cie.yxyToXyz p = MatArith.primaryXyz p := by
    intro p hp; unfold Cie.yxyToXyz MatArith.primaryXyz; simp only [hp, if_true]
  rw [tie_rgbToXyzMatrix]
  unfold MatrixForms.rgbToXyzMatrix
  rw [e red hr, e green hg, e blue hb]
  dsimp only
  rw [matrixInverse_eq_matArith]
  simp only [hdet, if_true]
  rfl

/-- **the derived-matrix tuple space uses exactly that function**: with the `RgbSpace` defaults (all `(P, W)` has), `Xyz::matrix_from_rgb` is the
    translated `rgb_to_xyz_matrix` (and panics exactly when it does), `Rgb::matrix_from_xyz` its `matrix_inverse` -/
theorem tuple_space_uses_derived (red green blue wp : V3 α) (f : V3 α → V3 α) :
    Gen.BodyMatrix.xyzMatrixFromRgb Gen.BodyMatrix.rgbSpaceDefaultRgbToXyz red green blue f wp
      = (Gen.BodyMatrix.rgbToXyzMatrix red green blue f wp).map Prim.Matrix3.mk ∧
    Gen.BodyMatrix.rgbMatrixFromXyz Gen.BodyMatrix.rgbSpaceDefaultXyzToRgb red green blue f wp
      = ((Gen.BodyMatrix.rgbToXyzMatrix red green blue f wp).bind Gen.BodyMatrix.matrixInverse).map Prim.Matrix3.mk := by
  constructor
  · unfold Gen.BodyMatrix.xyzMatrixFromRgb Gen.BodyMatrix.rgbSpaceDefaultRgbToXyz
    cases Gen.BodyMatrix.rgbToXyzMatrix red green blue f wp <;> rfl
  · unfold Gen.BodyMatrix.rgbMatrixFromXyz Gen.BodyMatrix.rgbSpaceDefaultXyzToRgb
    cases Gen.BodyMatrix.rgbToXyzMatrix red green blue f wp with
    | none => rfl
    | some d => simp only [Option.bind]; cases Gen.BodyMatrix.matrixInverse d <;> rfl

end Tie
