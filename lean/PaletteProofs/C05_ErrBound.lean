/-
  C05 — **the float → u8 lookup-table encoders are within 0.6 of one code of the exact transfer curve, for every f32 in [0, 1]**
  (property text: "return the code that exact rounding of the standard curve would give except within a narrow band around rounding
  ties (error below 0.6 of one code)").

    theorem fromLinearU8_faithful (e : Enc) (b : Nat) (hb : b ≤ 0x3f800000) :
        |(fromLinearU8 e b : ℝ) − 255 · fromLinear (curveOf e) (f32val b)| < 0.6

  `fromLinearU8` is the bit-level model the driver executes (`PaletteModel/Lut.lean`, tables regenerated from /repo), `fromLinear` the
  generic float curve of `PaletteModel/Color/Transfer.lean` read at ℝ (the standard's curve: `C02`), `f32val b` the real number the
  pattern `b` stands for; `b ≤ 0x3f800000` are exactly the f32 values in `[0, 1]` (+0, subnormals, normals up to 1.0).

  Proof: the encoder is constant on blocks of 4096 patterns; the kernel checks (modules `C05_Err{Srgb,Rec,Adobe,P3}`, 141 312 blocks)
  the two-sided bound at the ends of every block as integer inequalities; each curve piece is increasing; patterns at or below
  `min_float` get code 0 and the curve there is below `0.6/255`; 1.0 gets 255.
-/
import PaletteProofs.Real
import PaletteModel.Color.Transfer
import PaletteProofs.C05_LutMono
import PaletteProofs.C05_Transfer
import PaletteProofs.Lemmas.C05_ErrReal
import PaletteProofs.C05_ErrSrgb
import PaletteProofs.C05_ErrRec
import PaletteProofs.C05_ErrAdobe
import PaletteProofs.C05_ErrP3

namespace C05E
open Lut Transfer C05 C05T

/-- the generic float curve that belongs to each 8-bit encoder (same `impl` block in `encoding/*.rs`) -/
def curveOf : Enc → Transfer.Fn
  | .srgb => .srgb | .recOetf => .recOetf | .adobeRgb => .adobeRgb | .p3Gamma => .p3Gamma

/-! ## the code of a pattern inside the table range, and its block -/

def factsOK (e : Enc) : Bool :=
  (Enc.toe e).wf && (Enc.pow e).wf && (decide (Enc.T e = 0) || decide (e.minFloat ≤ Enc.T e)) &&
  (if Enc.T e = 0 then (Enc.pow e).noOffset else (Enc.toe e).noOffset) &&
  decide (cellRes 8 (e.table.getD 0 0) 0 = 0) && decide (encodeClamped e.table e.minFloat 8 3 e.minFloat % 256 = 0) &&
  decide (0 < e.table.length) && decide (Enc.T e < 0x3f800000) && decide (0 < e.minFloat) && decide (e.minFloat ≤ Gen.Lut.maxFloatBits)

theorem facts : ∀ e ∈ Enc.all, factsOK e = true := by decide +kernel

theorem clampBits_id (minBits maxBits b : Nat) (h0 : minBits ≤ b) (h1 : b ≤ maxBits) (hm : maxBits < 0x7f800000) :
    clampBits minBits maxBits b = b := by
  unfold clampBits; (repeat' split) <;> omega

theorem clampBits_low (minBits maxBits b : Nat) (h0 : b ≤ minBits) (hm : minBits < 0x7f800000) :
    clampBits minBits maxBits b = minBits := by
  unfold clampBits; (repeat' split) <;> omega

/-- inside the table range the code is `cellRes` of a cell `j` and offset `t`, and the pattern lies in that block of 4096 -/
theorem code_block (e : Enc) (b : Nat) (h0 : e.minFloat ≤ b) (h1 : b ≤ Gen.Lut.maxFloatBits) :
    ∃ j t, j < e.table.length ∧ t < 256 ∧ fromLinearU8 e b = cellRes 8 (e.table.getD j 0) t ∧
      e.minFloat + j * 2^20 + t * 4096 ≤ b ∧ b ≤ e.minFloat + j * 2^20 + t * 4096 + 4095 := by
  have he := Enc.mem_all e
  have hmax : Gen.Lut.maxFloatBits = 0x3f7fffff := geometry.2.2.2.2.2.2.1
  have hal : e.minFloat % 2^20 = 0 := (geometry.2.2.2.2.2.2.2.1 e he).2.2
  have hcl : clampBits e.minFloat Gen.Lut.maxFloatBits b = b := clampBits_id _ _ _ h0 h1 (by omega)
  obtain ⟨ci, ct⟩ := cell_coords e.minFloat b hal h0
  have hidx : cellIndex e.minFloat 3 b < e.table.length := by
    have := index_in_bounds e b; rw [hcl] at this; exact this
  have ht : cellT 8 3 b ≤ 255 := by rw [ct]; omega
  have hmem : e.table.getD (cellIndex e.minFloat 3 b) 0 ∈ e.table := by
    rw [List.getD_eq_getElem?_getD, List.getElem?_eq_getElem hidx]; exact List.getElem_mem hidx
  have hle : cellRes 8 (e.table.getD (cellIndex e.minFloat 3 b) 0) (cellT 8 3 b) ≤ 255 := res_le_max e _ hmem _ ht
  refine ⟨cellIndex e.minFloat 3 b, cellT 8 3 b, hidx, by omega, ?_, ?_, ?_⟩
  · unfold fromLinearU8 encU8; rw [hcl]; unfold encodeClamped; omega
  · rw [ci, ct]
    have p20 : (2:Nat)^20 = 1048576 := by decide
    have p12 : (2:Nat)^12 = 4096 := by decide
    rw [p20, Nat.shiftRight_eq_div_pow, p12]; omega
  · rw [ci, ct]
    have p20 : (2:Nat)^20 = 1048576 := by decide
    have p12 : (2:Nat)^12 = 4096 := by decide
    rw [p20, Nat.shiftRight_eq_div_pow, p12]; omega

theorem Piece.scaled_nonneg (P : Piece) (hw : P.WF) (hn : P.noOffset = true) {x : ℝ} (hx : 0 ≤ x) : 0 ≤ P.scaled x := by
  simp only [Piece.noOffset, decide_eq_true_eq] at hn
  have hc := congrArg (Nat.cast (R := ℝ)) hn
  push_cast at hc
  have h1 : (0:ℝ) < P.k1 := by exact_mod_cast hw.k1
  have hy : 0 ≤ (P.k3:ℝ) * x ^ ((P.p:ℝ) / (P.q:ℝ)) := mul_nonneg (by positivity) (Real.rpow_nonneg hx _)
  unfold Piece.scaled
  have : (-0.6 : ℝ) ≤ ((P.k3:ℝ) * x ^ ((P.p:ℝ) / (P.q:ℝ)) - P.k2u) / P.k1 := by
    rw [le_div_iff₀ h1]; linarith
  linarith

/-- **generic form**: any real function that is, piece by piece, the integer-form curve of `e` is tracked within 0.6 -/
theorem faithful_of_link (e : Enc) (f : ℝ → ℝ)
    (hcells : ∀ j, j < e.table.length →
      cellOK (Enc.toe e) (Enc.pow e) (Enc.T e) (e.table.getD j 0) (e.minFloat + j * 2^20) 256 = true)
    (hf0 : f 0 = 0) (hf1 : f 1 = 1)
    (htoe : ∀ b, b ≤ Enc.T e → 255 * f (f32val b) = (Enc.toe e).scaled (f32val b))
    (hpow : ∀ b, Enc.T e < b → b ≤ 0x3f800000 → 255 * f (f32val b) = (Enc.pow e).scaled (f32val b))
    (b : Nat) (hb : b ≤ 0x3f800000) :
    |(fromLinearU8 e b : ℝ) - 255 * f (f32val b)| < 0.6 := by
  have hF := facts e (Enc.mem_all e)
  simp only [factsOK, Bool.and_eq_true, Bool.or_eq_true, decide_eq_true_eq] at hF
  obtain ⟨⟨⟨⟨⟨⟨⟨⟨⟨hwt, hwp⟩, hT⟩, hno⟩, hres0⟩, hcode0⟩, hlen⟩, hT1⟩, hmin0⟩, hminmax⟩ := hF
  have hwt' := Piece.wf_iff _ hwt
  have hwp' := Piece.wf_iff _ hwp
  have hmax : Gen.Lut.maxFloatBits = 0x3f7fffff := geometry.2.2.2.2.2.2.1
  by_cases hb0 : b = 0
  · subst hb0
    rw [low_saturates e 0 (Or.inr (Or.inl rfl)), f32val_zero, hf0]; norm_num
  by_cases hb1 : b = 0x3f800000
  · subst hb1
    rw [high_saturates e 0x3f800000 (by omega) (by omega), f32val_one, hf1]; norm_num
  by_cases hlow : b ≤ e.minFloat
  · -- code 0; the curve is still below 0.6/255
    have hcode : fromLinearU8 e b = 0 := by
      unfold fromLinearU8 encU8
      rw [clampBits_low _ _ _ hlow (by omega)]; exact hcode0
    rw [hcode]
    have hblk := cellOK_get _ _ _ _ _ 256 (hcells 0 hlen) 0 (by omega)
    rw [hres0] at hblk
    have hB := blockOK_real _ _ hwt' hwp' (Enc.T e) 0 _ _ e.minFloat hblk (by omega) (by omega)
    have hmono := f32val_mono hlow
    rcases hT with hT0 | hTm
    · -- pure power law: every positive pattern is on the power piece
      rw [if_pos hT0] at hno
      have hb' : Enc.T e < b := by omega
      rw [hpow b hb' hb]
      have u := (hB.2 (by omega)).2
      have m := (Enc.pow e).scaled_mono hwp' (f32val_nonneg b) hmono
      have l := (Enc.pow e).scaled_nonneg hwp' hno (f32val_nonneg b)
      rw [abs_lt]; constructor <;> push_cast <;> linarith
    · by_cases hT0 : Enc.T e = 0
      · omega
      · rw [if_neg hT0] at hno
        rw [htoe b (by omega)]
        have u := (hB.1 hTm).2
        have m := (Enc.toe e).scaled_mono hwt' (f32val_nonneg b) hmono
        have l := (Enc.toe e).scaled_nonneg hwt' hno (f32val_nonneg b)
        rw [abs_lt]; constructor <;> push_cast <;> linarith
  · -- inside the table range
    obtain ⟨j, t, hj, ht, hcode, hlo, hhi⟩ := code_block e b (by omega) (by omega)
    rw [hcode]
    have hblk := cellOK_get _ _ _ _ _ 256 (hcells j hj) t ht
    have hB := blockOK_real _ _ hwt' hwp' (Enc.T e) _ _ _ b hblk hlo hhi
    by_cases hbT : b ≤ Enc.T e
    · rw [htoe b hbT]
      obtain ⟨l, u⟩ := hB.1 hbT
      rw [abs_lt]; constructor <;> linarith
    · rw [hpow b (by omega) hb]
      obtain ⟨l, u⟩ := hB.2 (by omega)
      rw [abs_lt]; constructor <;> linarith

/-! ## the four curves are their integer forms -/

/-- rational bounds on the value of a pattern from integer comparisons -/
theorem f32val_le_of (b n d : Nat) (hd : 0 < d) (h : mant b * 2 ^ expo b * d ≤ n * 2 ^ 150) : f32val b ≤ (n:ℝ) / d := by
  have hc := (Nat.cast_le (α := ℝ)).mpr h
  push_cast at hc
  have hd' : (0:ℝ) < d := by exact_mod_cast hd
  unfold f32val
  rw [div_le_div_iff₀ (by positivity) hd']; linarith

theorem f32val_lt_of (b n d : Nat) (hd : 0 < d) (h : mant b * 2 ^ expo b * d < n * 2 ^ 150) : f32val b < (n:ℝ) / d := by
  have hc := (Nat.cast_lt (α := ℝ)).mpr h
  push_cast at hc
  have hd' : (0:ℝ) < d := by exact_mod_cast hd
  unfold f32val
  rw [div_lt_div_iff₀ (by positivity) hd']; linarith

theorem lt_f32val_of (b n d : Nat) (hd : 0 < d) (h : n * 2 ^ 150 < mant b * 2 ^ expo b * d) : (n:ℝ) / d < f32val b := by
  have hc := (Nat.cast_lt (α := ℝ)).mpr h
  push_cast at hc
  have hd' : (0:ℝ) < d := by exact_mod_cast hd
  unfold f32val
  rw [div_lt_div_iff₀ hd' (by positivity)]; linarith

/-- `srgbT` is the last f32 on sRGB's linear toe (`x ≤ 0.0031308`) -/
theorem srgbT_spec : f32val srgbT ≤ 0.0031308 ∧ (0.0031308 : ℝ) < f32val (srgbT + 1) := by
  constructor
  · have := f32val_le_of srgbT 31308 10000000 (by decide) (by decide +kernel)
    norm_num at this ⊢; linarith
  · have := lt_f32val_of (srgbT + 1) 31308 10000000 (by decide) (by decide +kernel)
    norm_num at this ⊢; linarith

/-- `recT` is the last f32 on the Rec. linear toe (`x < β`) -/
theorem recT_spec : f32val recT < 0.018053968510807 ∧ (0.018053968510807 : ℝ) < f32val (recT + 1) := by
  constructor
  · have := f32val_lt_of recT 18053968510807 1000000000000000 (by decide) (by decide +kernel)
    norm_num at this ⊢; linarith
  · have := lt_f32val_of (recT + 1) 18053968510807 1000000000000000 (by decide) (by decide +kernel)
    norm_num at this ⊢; linarith

theorem recFrom_hi {x : ℝ} (h : ¬ x < 0.018053968510807) :
    recFromLinear x = x ^ (0.45:ℝ) * 1.09929682680944 - (1.09929682680944 - 1.0) := by
  unfold recFromLinear; exact if_neg h

theorem exp_one_one : ((1:ℕ):ℝ) / ((1:ℕ):ℝ) = 1 := by norm_num

theorem srgb_link_toe (b : Nat) (h : b ≤ srgbT) : 255 * srgbFromLinear (f32val b) = srgbToe.scaled (f32val b) := by
  have hx : f32val b ≤ 0.0031308 := le_trans (f32val_mono h) srgbT_spec.1
  rw [srgbFrom_lo hx]
  simp only [Piece.scaled, srgbToe, exp_one_one, Real.rpow_one]
  norm_num; ring

theorem srgb_link_pow (b : Nat) (h : srgbT < b) : 255 * srgbFromLinear (f32val b) = srgbPow.scaled (f32val b) := by
  have hx : (0.0031308:ℝ) < f32val b := lt_of_lt_of_le srgbT_spec.2 (f32val_mono (by omega))
  rw [srgbFrom_hi (not_le.mpr hx)]
  have he : ((1.0:ℝ) / 2.4) = ((5:ℕ):ℝ) / ((12:ℕ):ℝ) := by norm_num
  simp only [Piece.scaled, srgbPow]
  rw [he]
  generalize f32val b ^ (((5:ℕ):ℝ) / ((12:ℕ):ℝ)) = y
  norm_num; ring

theorem rec_link_toe (b : Nat) (h : b ≤ recT) : 255 * recFromLinear (f32val b) = recToe.scaled (f32val b) := by
  have hx : f32val b < 0.018053968510807 := lt_of_le_of_lt (f32val_mono h) recT_spec.1
  rw [recFrom_lo hx]
  simp only [Piece.scaled, recToe, exp_one_one, Real.rpow_one]
  norm_num; ring

theorem rec_link_pow (b : Nat) (h : recT < b) : 255 * recFromLinear (f32val b) = recPow.scaled (f32val b) := by
  have hx : (0.018053968510807:ℝ) < f32val b := lt_of_lt_of_le recT_spec.2 (f32val_mono (by omega))
  rw [recFrom_hi (not_lt.mpr (le_of_lt hx))]
  have he : (0.45:ℝ) = ((9:ℕ):ℝ) / ((20:ℕ):ℝ) := by norm_num
  simp only [Piece.scaled, recPow]
  rw [he]
  generalize f32val b ^ (((9:ℕ):ℝ) / ((20:ℕ):ℝ)) = y
  norm_num; ring

theorem adobe_link (b : Nat) : 255 * adobeFromLinear (f32val b) = adobePow.scaled (f32val b) := by
  have he : ((256.0:ℝ) / 563.0) = ((256:ℕ):ℝ) / ((563:ℕ):ℝ) := by norm_num
  simp only [adobeFromLinear, RealScalar.powf_eq, RealScalar.const_eq, RealScalar.eval_div, RealScalar.eval_ofSci, Piece.scaled, adobePow]
  rw [he]
  generalize f32val b ^ (((256:ℕ):ℝ) / ((563:ℕ):ℝ)) = y
  norm_num; ring

theorem p3_link (b : Nat) : 255 * p3FromLinear (f32val b) = p3Pow.scaled (f32val b) := by
  have he : ((1.0:ℝ) / 2.6) = ((5:ℕ):ℝ) / ((13:ℕ):ℝ) := by norm_num
  simp only [p3FromLinear, RealScalar.powf_eq, RealScalar.const_eq, RealScalar.eval_div, RealScalar.eval_ofSci, Piece.scaled, p3Pow]
  rw [he]
  generalize f32val b ^ (((5:ℕ):ℝ) / ((13:ℕ):ℝ)) = y
  norm_num; ring

/-! ## the theorem -/

/-- **0.6-code error bound, every f32 in [0, 1], all four 8-bit encoders.** -/
theorem fromLinearU8_faithful (e : Enc) (b : Nat) (hb : b ≤ 0x3f800000) :
    |(fromLinearU8 e b : ℝ) - 255 * fromLinear (curveOf e) (f32val b)| < 0.6 := by
  cases e
  · -- sRGB
    refine faithful_of_link .srgb srgbFromLinear srgb_cells ?_ ?_ (fun b h => srgb_link_toe b h) (fun b h _ => srgb_link_pow b h) b hb
    · rw [srgbFrom_lo (by norm_num)]; norm_num
    · rw [srgbFrom_hi (by norm_num), Real.one_rpow]; norm_num
  · -- Rec.709 / Rec.2020 OETF
    refine faithful_of_link .recOetf recFromLinear rec_cells ?_ ?_ (fun b h => rec_link_toe b h) (fun b h _ => rec_link_pow b h) b hb
    · rw [recFrom_lo (by norm_num)]; norm_num
    · rw [recFrom_hi (by norm_num), Real.one_rpow]; norm_num
  · -- Adobe RGB
    refine faithful_of_link .adobeRgb adobeFromLinear adobe_cells ?_ ?_ (fun b _ => adobe_link b) (fun b _ _ => adobe_link b) b hb
    · simp only [adobeFromLinear, RealScalar.powf_eq, RealScalar.const_eq, RealScalar.eval_div, RealScalar.eval_ofSci]
      exact Real.zero_rpow (by norm_num)
    · simp only [adobeFromLinear, RealScalar.powf_eq]; exact Real.one_rpow _
  · -- P3 gamma 2.6
    refine faithful_of_link .p3Gamma p3FromLinear p3_cells ?_ ?_ (fun b _ => p3_link b) (fun b _ _ => p3_link b) b hb
    · simp only [p3FromLinear, RealScalar.powf_eq, RealScalar.const_eq, RealScalar.eval_div, RealScalar.eval_ofSci]
      exact Real.zero_rpow (by norm_num)
    · simp only [p3FromLinear, RealScalar.powf_eq]; exact Real.one_rpow _

/-- read as "the code exact rounding would give, except near ties": whenever `255·curve(x)` is at least 0.1 away from a rounding tie
    `n + ½`, the encoder returns the nearest integer `n` — i.e. any integer `n` with `|n − 255·curve(x)| ≤ 0.4` is the code. -/
theorem fromLinearU8_is_rounding (e : Enc) (b : Nat) (hb : b ≤ 0x3f800000) (n : Nat)
    (hn : |(n:ℝ) - 255 * fromLinear (curveOf e) (f32val b)| ≤ 0.4) : fromLinearU8 e b = n := by
  have h := fromLinearU8_faithful e b hb
  rw [abs_lt] at h
  rw [abs_le] at hn
  have h1 : ((fromLinearU8 e b : ℕ) : ℝ) < (n:ℝ) + 1 := by linarith [h.1, h.2, hn.1, hn.2]
  have h2 : (n:ℝ) < ((fromLinearU8 e b : ℕ) : ℝ) + 1 := by linarith [h.1, h.2, hn.1, hn.2]
  have h1' : fromLinearU8 e b < n + 1 := by exact_mod_cast h1
  have h2' : n < fromLinearU8 e b + 1 := by exact_mod_cast h2
  omega

/-- non-vacuity: x = 0.5 (pattern `0x3f000000`) is in range; sRGB encodes it as 188 = round(255·0.7354) -/
example : (0x3f000000 : Nat) ≤ 0x3f800000 ∧ fromLinearU8 .srgb 0x3f000000 = 188 := by decide +kernel

end C05E
