/-
  Tie of the hex / packed model (C12) to the *text* of the Rust functions, second part: what the header of Gen/BodiesHex.lean lists as NOT translated.

  `tools/extract.py` (plugin `tools/extract_plugins/hex2.py`, translator `tools/rust2lean_hex2.py`, family `hex2`) re-translates on every run into
  `Gen.BodyHex2.*` (lean/PaletteModel/Gen/BodiesHex2.lean): the eight `From` impls between `Packed<O, P>` and `Rgb` / `Rgba` (rgb/rgb.rs), `Luma` / `Lumaa`
  (luma/luma.rs); `Rgb::from_hex`, `Rgba::from_hex`; the blanket impls `ComponentOrder<C, u8 / u64 / u128> for T` (cast/packed.rs); the arm table of
  `impl Display for FromHexError`.  Trait-dispatched callees are parameters (dictionary passing); the two bodies that call `Packed::pack` / `Packed::unpack`
  call the translations of family `hex` (`Gen.BodyHex.packedPack / packedUnpack`).

  Each body has a `*_shape` theorem (for EVERY value of the dictionary parameters: the composition the source writes) and a `tie_<name>` at the instantiation the
  property is about - the four RGBA orders at `u32`, the two luma orders at `u16`, alpha 255 - stating it equal to the model function of
  `PaletteModel/Packed.lean` the C12 theorems use (`packU32`, `unpackU32`, `rgbIntoU32`, `rgbFromU32`, `packU16`, ..): so `Packed::<O, u32>::from(rgb)` *is*
  `Srgb::into_u32::<O>` and `Srgb::from(Packed<O, u32>)` *is* `from_u32::<O>` (`into_packed_eq_into_u32`), and C12_Packed's round trips and byte positions apply.
  The blanket impls at u8 / u64 / u128 have no instance inside palette (no colour implements `ComponentOrder<_, [u8; 1 | 8 | 16]>`); their ties are for every
  inner order, with the round-trip ingredient `Packed.fromBeBytes (Packed.toBeBytes n x) = x % 256 ^ n` proved for every width (`fromBe_toBe`).
-/
import PaletteProofs.Tie_Hex
import PaletteModel.Gen.BodiesHex2

namespace Tie
open HexPrim Gen.BodyHex

/-! ### `From<Rgba> for Packed`, `From<Rgb> for Packed`, `From<Packed> for Rgba`, `From<Packed> for Rgb<u8>` -/

theorem rgbaIntoPacked_shape {γ π : Type} (pack : γ → π) (unpack : π → γ) (c : γ) : (Gen.BodyHex2.rgbaIntoPacked pack unpack c).color = pack c := rfl
theorem rgbIntoPacked_shape {ρ γ π : Type} (f : γ → PackedOf π) (g : ρ → γ) (c : ρ) : Gen.BodyHex2.rgbIntoPacked f g c = f (g c) := rfl
theorem rgbaFromPacked_shape {γ π : Type} (pack : γ → π) (unpack : π → γ) (p : PackedOf π) : Gen.BodyHex2.rgbaFromPacked pack unpack p = unpack p.color := rfl
theorem rgbFromPacked_shape {ρ τ π : Type} (f : PackedOf π → Prim.AlphaOf ρ τ) (p : PackedOf π) : Gen.BodyHex2.rgbFromPacked f p = (f p).color := rfl

theorem tie_rgbaIntoPacked (o : RgbaOrder) (c : Prim.AlphaOf (Prim.Rgb3 Nat) Nat) :
    (Gen.BodyHex2.rgbaIntoPacked (packU32Of o) (unpackU32Of o) c).color = Packed.packU32 (rgbaOrd o) (rgbaList c) := tie_packedPack o c
theorem tie_rgbIntoPacked (o : RgbaOrder) (c : Prim.Rgb3 Nat) :
    (Gen.BodyHex2.rgbIntoPacked (Gen.BodyHex2.rgbaIntoPacked (packU32Of o) (unpackU32Of o)) rgbaOfRgb c).color = Packed.rgbIntoU32 (rgbaOrd o) c.toList :=
  tie_rgbIntoU32 o c
theorem tie_rgbaFromPacked (o : RgbaOrder) (x : Nat) :
    rgbaList (Gen.BodyHex2.rgbaFromPacked (packU32Of o) (unpackU32Of o) ⟨x⟩) = Packed.unpackU32 (rgbaOrd o) x := tie_packedUnpack o x
theorem tie_rgbFromPacked (o : RgbaOrder) (x : Nat) :
    (Gen.BodyHex2.rgbFromPacked (Gen.BodyHex2.rgbaFromPacked (packU32Of o) (unpackU32Of o)) (⟨x⟩ : PackedOf Nat)).toList = Packed.rgbFromU32 (rgbaOrd o) x :=
  tie_rgbFromU32 o x

/-! ### the same four for `Luma` / `Lumaa` at `u16` -/

theorem tie_lumaaIntoPacked (o : LumaOrder) (c : Prim.AlphaOf (Prim.Luma1 Nat) Nat) :
    (Gen.BodyHex2.lumaaIntoPacked (packU16Of o) (unpackU16Of o) c).color = Packed.packU16 (lumaOrd o) (lumaaList c) := tie_orderPackU16 o c
theorem tie_lumaIntoPacked (o : LumaOrder) (c : Prim.Luma1 Nat) :
    (Gen.BodyHex2.lumaIntoPacked (Gen.BodyHex2.lumaaIntoPacked (packU16Of o) (unpackU16Of o)) lumaaOfLuma c).color = Packed.lumaIntoU16 (lumaOrd o) c.toList :=
  tie_lumaIntoU16 o c
theorem tie_lumaaFromPacked (o : LumaOrder) (x : Nat) :
    lumaaList (Gen.BodyHex2.lumaaFromPacked (packU16Of o) (unpackU16Of o) ⟨x⟩) = Packed.unpackU16 (lumaOrd o) x := tie_orderUnpackU16 o x
theorem tie_lumaFromPacked (o : LumaOrder) (x : Nat) :
    (Gen.BodyHex2.lumaFromPacked (Gen.BodyHex2.lumaaFromPacked (packU16Of o) (unpackU16Of o)) (⟨x⟩ : PackedOf Nat)).toList = Packed.lumaFromU16 (lumaOrd o) x :=
  tie_lumaFromU16 o x

/-- the `Packed` conversions are the `into_u32::<O>` / `from_u32::<O>` (`into_u16` / `from_u16`) of family `hex`, for every order -/
theorem into_packed_eq_into_u32 (o : RgbaOrder) (c : Prim.Rgb3 Nat) (ca : Prim.AlphaOf (Prim.Rgb3 Nat) Nat) (x : Nat) :
    (Gen.BodyHex2.rgbIntoPacked (Gen.BodyHex2.rgbaIntoPacked (packU32Of o) (unpackU32Of o)) rgbaOfRgb c).color
        = Gen.BodyHex.rgbIntoU32 (packU32Of o) (unpackU32Of o) rgbaOfRgb c ∧
    (Gen.BodyHex2.rgbaIntoPacked (packU32Of o) (unpackU32Of o) ca).color = Gen.BodyHex.rgbaIntoU32 (packU32Of o) (unpackU32Of o) rgbaOfRgb ca ∧
    Gen.BodyHex2.rgbFromPacked (Gen.BodyHex2.rgbaFromPacked (packU32Of o) (unpackU32Of o)) (⟨x⟩ : PackedOf Nat)
        = Gen.BodyHex.rgbFromU32 (packU32Of o) (unpackU32Of o) rgbaOfRgb x ∧
    Gen.BodyHex2.rgbaFromPacked (packU32Of o) (unpackU32Of o) ⟨x⟩ = Gen.BodyHex.rgbaFromU32 (packU32Of o) (unpackU32Of o) rgbaOfRgb x := ⟨rfl, rfl, rfl, rfl⟩

/-! ### `Rgb::from_hex`, `Rgba::from_hex`: `hex.parse()` is the `FromStr` impl -/

theorem rgbFromHex_shape {ρ : Type} (parse : Hex.Bytes → ρ) : Gen.BodyHex2.rgbFromHex parse = parse := rfl
theorem rgbaFromHex_shape {ρ : Type} (parse : Hex.Bytes → ρ) : Gen.BodyHex2.rgbaFromHex parse = parse := rfl
theorem tie_rgbFromHex (hex : Hex.Bytes) (h : Utf8 hex) :
    (Gen.BodyHex2.rgbFromHex Gen.BodyHex.fromStrRgbU8 hex).map Prim.Rgb3.toList = Hex.fromStrRgbU8 hex := tie_fromStrRgbU8 hex h
theorem tie_rgbaFromHex (hex : Hex.Bytes) (h : Utf8 hex) :
    (Gen.BodyHex2.rgbaFromHex Gen.BodyHex.fromStrRgbaU8 hex).map rgbaList = Hex.fromStrRgbaU8 hex := tie_fromStrRgbaU8 hex h
/-- non-vacuity of the hypothesis: an ASCII hex string is UTF-8 -/
example : ∃ hex : Hex.Bytes, Utf8 hex ∧ hex ≠ [] := ⟨[35, 102, 102, 102], by unfold Utf8; decide, by decide⟩

/-! ### the blanket `ComponentOrder<C, u8 / u64 / u128> for T` -/

theorem tie_orderPackU8 {γ : Type} (pack : γ → Hex2Prim.Arr1 Nat) (unpack : Hex2Prim.Arr1 Nat → γ) :
    Gen.BodyHex2.orderPackU8 pack unpack = PackedForms.packU8 pack := rfl
theorem tie_orderUnpackU8 {γ : Type} (pack : γ → Hex2Prim.Arr1 Nat) (unpack : Hex2Prim.Arr1 Nat → γ) :
    Gen.BodyHex2.orderUnpackU8 pack unpack = PackedForms.unpackU8 unpack := rfl
theorem tie_orderPackU64 {γ : Type} (pack : γ → List Nat) (unpack : List Nat → γ) :
    Gen.BodyHex2.orderPackU64 pack unpack = PackedForms.packU64 pack := rfl
theorem tie_orderUnpackU64 {γ : Type} (pack : γ → List Nat) (unpack : List Nat → γ) :
    Gen.BodyHex2.orderUnpackU64 pack unpack = PackedForms.unpackU64 unpack := rfl
theorem tie_orderPackU128 {γ : Type} (pack : γ → List Nat) (unpack : List Nat → γ) :
    Gen.BodyHex2.orderPackU128 pack unpack = PackedForms.packU128 pack := rfl
theorem tie_orderUnpackU128 {γ : Type} (pack : γ → List Nat) (unpack : List Nat → γ) :
    Gen.BodyHex2.orderUnpackU128 pack unpack = PackedForms.unpackU128 unpack := rfl

theorem toBe_length (n x : Nat) : (Packed.toBeBytes n x).length = n := by
  induction n with
  | zero => rfl
  | succ n ih => simp only [Packed.toBeBytes, List.length_cons, ih]

/-- big-endian bytes of an `n`-byte integer give the integer back (every width: u8, u16, u32, u64, u128) -/
theorem fromBe_toBe (n x : Nat) : Packed.fromBeBytes (Packed.toBeBytes n x) = x % 256 ^ n := by
  induction n with
  | zero => simp only [Packed.toBeBytes, Packed.fromBeBytes, Nat.pow_zero, Nat.mod_one]
  | succ n ih =>
    simp only [Packed.toBeBytes, Packed.fromBeBytes, toBe_length, ih]
    rw [Nat.pow_succ, Nat.mod_mul, Nat.mul_comm (256 ^ n), Nat.add_comm]

/-- packing what was unpacked from an in-range integer returns it, for every inner order whose `pack` inverts its `unpack` (u64 / u128 forms) -/
theorem packU64_unpackU64 {γ : Type} (pack : γ → List Nat) (unpack : List Nat → γ) (hinv : ∀ b, pack (unpack b) = b) (x : Nat) (hx : x < 2 ^ 64) :
    PackedForms.packU64 pack (PackedForms.unpackU64 unpack x) = x := by
  unfold PackedForms.packU64 PackedForms.unpackU64 PackedForms.packBe PackedForms.unpackBe
  rw [hinv, fromBe_toBe]; exact Nat.mod_eq_of_lt (by simpa using hx)
theorem packU128_unpackU128 {γ : Type} (pack : γ → List Nat) (unpack : List Nat → γ) (hinv : ∀ b, pack (unpack b) = b) (x : Nat) (hx : x < 2 ^ 128) :
    PackedForms.packU128 pack (PackedForms.unpackU128 unpack x) = x := by
  unfold PackedForms.packU128 PackedForms.unpackU128 PackedForms.packBe PackedForms.unpackBe
  rw [hinv, fromBe_toBe]; exact Nat.mod_eq_of_lt (by simpa using hx)
theorem packU8_unpackU8 {γ : Type} (pack : γ → Hex2Prim.Arr1 Nat) (unpack : Hex2Prim.Arr1 Nat → γ) (hinv : ∀ b, pack (unpack b) = b) (x : Nat) :
    PackedForms.packU8 pack (PackedForms.unpackU8 unpack x) = x := by
  unfold PackedForms.packU8 PackedForms.unpackU8; rw [hinv]
/-- the hypotheses are satisfiable: the identity order -/
example : (∀ b : List Nat, (fun c => c) ((fun b => b) b) = b) ∧ (5 : Nat) < 2 ^ 64 := ⟨fun _ => rfl, by decide⟩

/-! ### `Display for FromHexError`: the arm table (message text) -/

theorem tie_displayFromHexError : Gen.BodyHex2.displayFromHexError = HexForms.displayTable := by decide +kernel

end Tie
