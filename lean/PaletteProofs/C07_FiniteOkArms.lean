/-
  C07 — **definedness of the non-degenerate arms of Okhsl / Okhsv ↔ Oklab** (`find_cusp`, `max_saturation`, `ST::mid`,
  `from_normalized`, `find_gamut_intersection` below the cusp, the toe, the scale factor), on the unchanged model functions read at
  `PReal`: on the branch selected, every divisor is non-zero and every radicand non-negative, *and the value is the real one*
  (`f (lift c) = lift (f c)`, which is stronger than `(f (lift c)).Finite`).

  The side conditions are discharged by the facts about the cusp proved for the whole hue circle (`C07_OkCusp`) and by the range
  lemmas of `C01_OkCompositeHsv` / `C01_OkComposite`.

  PROVED WITHOUT HYPOTHESES ON THE CUSP (every hue):
  * `max_saturation`, `find_cusp`, `ST::from(cusp)`, `ST::mid` are defined for every unit hue vector;
  * `Okhsv → Oklab` on the whole documented box (`okhsvToOklab_finite`: any hue, `0 ≤ s ≤ 1`, `0 ≤ v`);
  * `Oklab → Okhsv` for `0 < L`, `0 < C ≤ S_cusp·L` (`oklabToOkhsv_defined`; together with the early returns of `C07_FiniteOk`);
  * `Okhsl → Oklab` below the cusp (`okhslToOklab_defined_below_cusp`: any hue, `0 ≤ s ≤ 1`, `0 < l`, `toe_inv l ≤ L_cusp(h)`, in particular
    `l ≤ 0.27`), `Oklab → Okhsl` for `0 < L ≤ L_cusp`, `0 < C ≤ C_max`.
  `_partial` (hypothesis stated): Okhsl above the cusp, under "`from_normalized` is defined with `0 < C_0`, `0 < C_mid < C_max`".

  NOT PROVABLE, said precisely:
  * `find_gamut_intersection` above the cusp divides by `r₁² − ½·r·r₂` for each of the three channels; for the channels that do not
    bound the gamut at the given hue these expressions change sign over the (hue, L) plane, so they vanish on curves — at `PReal` that is
    poison, in IEEE arithmetic `u = r₁/0 = ±inf` and `t = −r·u` is `∓inf` (or NaN when `r = 0`) unless the guard `u ≥ 0` rejects it.
  * `Oklab → Okhsv` for colours more saturated than the cusp (`C > S_cusp·L`, outside the sRGB gamut but inside the documented Oklab
    range): the saturation is divided by `T·(s₀ + k·c_v)` with `k = 1 − s₀/S < 0` when `S < ½`; it vanishes at `c_v = s₀·S/(s₀ − S)`,
    which is reached whenever `T > s₀·S/(s₀ − S)` (e.g. all yellow hues, where `T ≈ 7`).  The lattice oracle has not hit such a point.
-/
import PaletteProofs.Lemmas.PRealRel
import PaletteProofs.C01_OkCompositeAll
import PaletteProofs.C07_FiniteOk

set_option linter.unusedSimpArgs false
set_option linter.unusedVariables false

namespace C07Arms
open Ok Scalar PReal C01OkComposite

/-! ### constants -/

theorem rel_kAt (l : List K) (hl : l.all divFree = true) (i : Nat) : Rel (kAt l i : ℝ) (kAt l i : PReal) := by
  apply rel_const
  rw [List.getD_eq_getElem?_getD]
  cases h : l[i]? with
  | none => rfl
  | some k =>
    have hk : k ∈ l := List.mem_of_getElem? h
    exact List.all_eq_true.mp hl k hk

/-- `rel_tac` extended by the coefficient tables -/
macro "rel_tac'" : tactic => `(tactic| repeat' (first
  | exact rel_kAt _ (by decide) _
  | exact rel_const _ (by decide)
  | (rel_tac; done)
  | with_reducible apply PReal.rel_div
  | with_reducible apply PReal.rel_add
  | with_reducible apply PReal.rel_sub
  | with_reducible apply PReal.rel_mul
  | with_reducible apply PReal.rel_neg
  | with_reducible apply PReal.rel_sqrt
  | with_reducible apply PReal.rel_cbrt
  | with_reducible apply PReal.rel_max
  | with_reducible apply PReal.rel_min
  | assumption))

/-! ### the toe -/

theorem toeInv_den_ne (x : ℝ) (h : 0 ≤ x) :
    ((1.0 : ℝ) + kAt Gen.Ok.toeInv 0) / (1.0 + kAt Gen.Ok.toeInv 1) * (x + kAt Gen.Ok.toeInv 1) ≠ 0 := by
  simp only [kAt, Gen.Ok.toeInv, List.getD_cons_zero, List.getD_cons_succ, RealScalar.const_eq, RealScalar.eval_ofSci]
  norm_num
  linarith

theorem toeInv_rel {x : ℝ} {X : PReal} (hx : Rel x X) (h : 0 ≤ x) : Rel (toeInv x) (toeInv X) := by
  unfold toeInv
  simp only []
  rel_tac'
  any_goals (simp only [kAt, Gen.Ok.toeInv, List.getD_cons_zero, List.getD_cons_succ, RealScalar.const_eq, RealScalar.eval_ofSci]; norm_num; done)
  exact toeInv_den_ne x h

theorem toe_rel {x : ℝ} {X : PReal} (hx : Rel x X) (h : 0 ≤ x) : Rel (toe x) (toe X) := by
  unfold toe
  simp only []
  rel_tac'
  any_goals (simp only [kAt, Gen.Ok.toe, List.getD_cons_zero, List.getD_cons_succ, RealScalar.const_eq, RealScalar.eval_ofSci]; norm_num; done)
  simp only [kAt, Gen.Ok.toe, List.getD_cons_zero, List.getD_cons_succ, RealScalar.const_eq, RealScalar.eval_ofSci]
  norm_num
  nlinarith [mul_self_nonneg (603 / 515 * x - 103 / 500)]

/-! ### `oklab_to_linear_srgb`, the scale factor -/

theorem oklabToLinSrgb_rel {L a b : ℝ} {L' a' b' : PReal} (hL : Rel L L') (ha : Rel a a') (hb : Rel b b') :
    Rel (oklabToLinSrgb ⟨L, a, b⟩).c0 (oklabToLinSrgb ⟨L', a', b'⟩).c0 ∧ Rel (oklabToLinSrgb ⟨L, a, b⟩).c1 (oklabToLinSrgb ⟨L', a', b'⟩).c1 ∧
    Rel (oklabToLinSrgb ⟨L, a, b⟩).c2 (oklabToLinSrgb ⟨L', a', b'⟩).c2 := by
  unfold oklabToLinSrgb
  simp only []
  refine ⟨?_, ?_, ?_⟩ <;> rel_tac'

/-- `lightnessScaleFactor` is defined when the maximum it divides by is not zero -/
theorem lightnessScaleFactor_rel {l a b c : ℝ} {l' a' b' c' : PReal} (hl : Rel l l') (ha : Rel a a') (hb : Rel b b') (hc : Rel c c')
    (hM : Scalar.max (Scalar.max (oklabToLinSrgb ⟨l, a * c, b * c⟩).c0 (oklabToLinSrgb ⟨l, a * c, b * c⟩).c1)
            (Scalar.max (oklabToLinSrgb ⟨l, a * c, b * c⟩).c2 0.0) ≠ 0) :
    Rel (lightnessScaleFactor l a b c) (lightnessScaleFactor l' a' b' c') := by
  obtain ⟨r0, r1, r2⟩ := oklabToLinSrgb_rel hl (rel_mul ha hc) (rel_mul hb hc)
  unfold lightnessScaleFactor
  simp only []
  rel_tac'

/-! ### `max_saturation`, `find_cusp`, `ST` -/

theorem maxSaturationStep_rel {wl wm ws kl km ks s : ℝ} {Wl Wm Ws Kl Km Ks S : PReal} (h1 : Rel wl Wl) (h2 : Rel wm Wm) (h3 : Rel ws Ws)
    (h4 : Rel kl Kl) (h5 : Rel km Km) (h6 : Rel ks Ks) (h7 : Rel s S) (hden : (OkCusp.halleyStep wl wm ws kl km ks s).den ≠ 0) :
    Rel (maxSaturationStep wl wm ws kl km ks s) (maxSaturationStep Wl Wm Ws Kl Km Ks S) := by
  unfold maxSaturationStep
  simp only []
  rel_tac'

theorem maxSaturationCase_rel {a b : ℝ} {A B : PReal} (ha : Rel a A) (hb : Rel b B) : maxSaturationCase A B = maxSaturationCase a b := by
  unfold maxSaturationCase
  simp only []
  have r0 : PReal.Rel (kAt Gen.Ok.maxSaturation 0 * a - kAt Gen.Ok.maxSaturation 1 * b) (kAt Gen.Ok.maxSaturation 0 * A - kAt Gen.Ok.maxSaturation 1 * B) := by
    rel_tac'
  have r1 : PReal.Rel (kAt Gen.Ok.maxSaturation 10 * a - kAt Gen.Ok.maxSaturation 11 * b) (kAt Gen.Ok.maxSaturation 10 * A - kAt Gen.Ok.maxSaturation 11 * B) := by
    rel_tac'
  have e0 := rel_lt (rel_lit 10 true 1) r0
  have e1 := rel_lt (rel_lit 10 true 1) r1
  simp only [e0, e1]

/-- **`max_saturation` is defined for every unit hue vector** (its Halley denominator is positive there) -/
theorem maxSaturation_rel {a b : ℝ} {A B : PReal} (ha : Rel a A) (hb : Rel b B) (hu : a * a + b * b = 1) :
    Rel (maxSaturation a b) (maxSaturation A B) := by
  have hden := OkCusp.halleyDen_pos a b hu
  unfold OkCusp.halleyDen OkCusp.halleyFor at hden
  unfold maxSaturation
  rw [maxSaturationCase_rel ha hb]
  simp only []
  generalize maxSaturationCase a b = n at hden ⊢
  have hit : Gen.Ok.maxSaturationIter = 1 := rfl
  match n with
  | 0 =>
    simp only [hit, iter]
    refine maxSaturationStep_rel ?_ ?_ ?_ ?_ ?_ ?_ ?_ hden.ne' <;> rel_tac'
  | 1 =>
    simp only [hit, iter]
    refine maxSaturationStep_rel ?_ ?_ ?_ ?_ ?_ ?_ ?_ hden.ne' <;> rel_tac'
  | n + 2 =>
    simp only [hit, iter]
    refine maxSaturationStep_rel ?_ ?_ ?_ ?_ ?_ ?_ ?_ hden.ne' <;> rel_tac'


/-- **`find_cusp` is defined for every unit hue vector**: the maximum it divides by exceeds 1 -/
theorem findCusp_rel {a b : ℝ} {A B : PReal} (ha : PReal.Rel a A) (hb : PReal.Rel b B) (hu : a * a + b * b = 1) :
    PReal.Rel (findCusp a b).lightness (findCusp A B).lightness ∧ PReal.Rel (findCusp a b).chroma (findCusp A B).chroma := by
  have hs := maxSaturation_rel ha hb hu
  obtain ⟨r0, r1, r2⟩ := oklabToLinSrgb_rel (rel_lit 10 true 1) (rel_mul hs ha) (rel_mul hs hb)
  have hM : Scalar.max (Scalar.max (oklabToLinSrgb ⟨1.0, maxSaturation a b * a, maxSaturation a b * b⟩).c0
      (oklabToLinSrgb ⟨1.0, maxSaturation a b * a, maxSaturation a b * b⟩).c1)
      (oklabToLinSrgb ⟨1.0, maxSaturation a b * a, maxSaturation a b * b⟩).c2 ≠ 0 := by
    have := (OkCusp.cuspMax_bounds a b hu).1
    unfold OkCusp.cuspMaxOf at this
    exact (lt_trans one_pos this).ne'
  unfold findCusp
  simp only []
  constructor <;> rel_tac'

/-- `ST::from(LC)` is defined when the lightness is neither 0 nor 1 -/
theorem stOfLC_rel {l c : ℝ} {L C : PReal} (hl : PReal.Rel l L) (hc : PReal.Rel c C) (h0 : l ≠ 0) (h1 : 1.0 - l ≠ 0) :
    PReal.Rel (stOfLC ⟨l, c⟩).s (stOfLC ⟨L, C⟩).s ∧ PReal.Rel (stOfLC ⟨l, c⟩).t (stOfLC ⟨L, C⟩).t := by
  unfold stOfLC
  constructor <;> rel_tac'

/-- **the cusp's `ST` is defined for every unit hue vector** -/
theorem cuspST_rel {a b : ℝ} {A B : PReal} (ha : PReal.Rel a A) (hb : PReal.Rel b B) (hu : a * a + b * b = 1) :
    PReal.Rel (stOfLC (findCusp a b)).s (stOfLC (findCusp A B)).s ∧ PReal.Rel (stOfLC (findCusp a b)).t (stOfLC (findCusp A B)).t := by
  obtain ⟨hl, hc⟩ := findCusp_rel ha hb hu
  obtain ⟨l0, l1, _⟩ := OkCusp.findCusp_bounds a b hu
  have h0 : (findCusp a b).lightness ≠ 0 := by linarith
  have h1 : (1.0 : ℝ) - (findCusp a b).lightness ≠ 0 := by
    have e : (1.0 : ℝ) = 1 := by norm_num
    rw [e]; exact sub_ne_zero.mpr l1.ne'
  exact stOfLC_rel (l := (findCusp a b).lightness) (c := (findCusp a b).chroma) hl hc h0 h1

/-- **`ST::mid` is defined for every unit hue vector** (both polynomial denominators are positive on the circle) -/
theorem stMid_rel {a b : ℝ} {A B : PReal} (ha : PReal.Rel a A) (hb : PReal.Rel b B) (hu : a * a + b * b = 1) :
    PReal.Rel (stMid a b).s (stMid A B).s ∧ PReal.Rel (stMid a b).t (stMid A B).t := by
  obtain ⟨ds, dt, _, _⟩ := OkCusp.stMid_bounds a b hu
  have hs : OkCusp.stMidDenS a b ≠ 0 := ds.ne'
  have ht : OkCusp.stMidDenT a b ≠ 0 := dt.ne'
  unfold OkCusp.stMidDenS at hs
  unfold OkCusp.stMidDenT at ht
  simp only [] at hs ht
  unfold stMid
  simp only []
  constructor <;> rel_tac'

/-! ### Okhsv ↔ Oklab: the arms in stages (generic over the component type, equal to the model by `rfl`) -/

section stages
variable {α : Type} [Scalar α] [Angle α]

def lvG (S T s : α) : α := 1.0 - s * const 0.5 / (const 0.5 + T - T * (1.0 - const 0.5 / S) * s)
def cvG (S T s : α) : α := s * T * const 0.5 / (const 0.5 + T - T * (1.0 - const 0.5 / S) * s)

/-- the part of `Okhsv → Oklab` after `(l_v, c_v)` -/
def hsvArmG (a_ b_ l_v c_v value : α) : V3 α :=
  let l_vt := toeInv l_v
  let c_vt := c_v * l_vt / l_v
  let lightness := value * l_v
  let chroma := value * c_v
  let lightness_new := toeInv lightness
  let chroma := chroma * lightness_new / lightness
  let f := lightnessScaleFactor l_vt a_ b_ c_vt
  let lightness := lightness_new * f
  let chroma := chroma * f
  ⟨lightness, chroma * a_, chroma * b_⟩

theorem okhsvToOklab_stage (c : V3 α) : okhsvToOklab c =
    if eqv c.c2 0.0 then ⟨0.0, 0.0, 0.0⟩
    else if eqv c.c1 0.0 then ⟨toeInv c.c2, 0.0, 0.0⟩
    else
      hsvArmG (cos (Angle.degToRad c.c0)) (sin (Angle.degToRad c.c0))
        (lvG (stOfLC (findCusp (cos (Angle.degToRad c.c0)) (sin (Angle.degToRad c.c0)))).s
             (stOfLC (findCusp (cos (Angle.degToRad c.c0)) (sin (Angle.degToRad c.c0)))).t c.c1)
        (cvG (stOfLC (findCusp (cos (Angle.degToRad c.c0)) (sin (Angle.degToRad c.c0)))).s
             (stOfLC (findCusp (cos (Angle.degToRad c.c0)) (sin (Angle.degToRad c.c0)))).t c.c1) c.c2 := rfl

/-- the part of `Oklab → Okhsv` after the hue vector and the cusp: `(s, v)` -/
def hsvBackG (a_ b_ S T L chroma : α) : α × α :=
  let s_0 : α := const 0.5
  let k := 1.0 - s_0 / S
  let t := T / (chroma + L * T)
  let l_v := t * L
  let c_v := t * chroma
  let l_vt := toeInv l_v
  let c_vt := c_v * l_vt / l_v
  let f := lightnessScaleFactor l_vt a_ b_ c_vt
  let l_r := toe (L / f)
  let v := l_r / l_v
  let s := (s_0 + T) * c_v / ((T * s_0) + T * k * c_v)
  (s, v)

theorem oklabToOkhsv_stage (c : V3 α) : oklabToOkhsv c =
    if eqv c.c0 0.0 then ⟨0.0, 0.0, 0.0⟩
    else if isValidDivisor (chromaOf c.c1 c.c2) then
      ⟨hueFromCartesian c.c1 c.c2,
       (hsvBackG (c.c1 / chromaOf c.c1 c.c2) (c.c2 / chromaOf c.c1 c.c2)
          (stOfLC (findCusp (c.c1 / chromaOf c.c1 c.c2) (c.c2 / chromaOf c.c1 c.c2))).s
          (stOfLC (findCusp (c.c1 / chromaOf c.c1 c.c2) (c.c2 / chromaOf c.c1 c.c2))).t c.c0 (chromaOf c.c1 c.c2)).1,
       (hsvBackG (c.c1 / chromaOf c.c1 c.c2) (c.c2 / chromaOf c.c1 c.c2)
          (stOfLC (findCusp (c.c1 / chromaOf c.c1 c.c2) (c.c2 / chromaOf c.c1 c.c2))).s
          (stOfLC (findCusp (c.c1 / chromaOf c.c1 c.c2) (c.c2 / chromaOf c.c1 c.c2))).t c.c0 (chromaOf c.c1 c.c2)).2⟩
    else ⟨0.0, 0.0, toe c.c0⟩ := rfl

end stages

theorem lvG_real (S T s : ℝ) : lvG S T s = lvOf S T s := rfl
theorem cvG_real (S T s : ℝ) : cvG S T s = cvOf S T s := rfl

/-- `(l_v, c_v)` are defined for `0 < S`, `0 < T`, `0 ≤ s ≤ 1` (the divisor `s₀ + T − T·k·s` is positive) -/
theorem lvG_rel {S T s : ℝ} {S' T' s' : PReal} (hS : PReal.Rel S S') (hT : PReal.Rel T T') (hs : PReal.Rel s s')
    (hS0 : 0 < S) (hT0 : 0 < T) (hs0 : 0 ≤ s) (hs1 : s ≤ 1) :
    PReal.Rel (lvG S T s) (lvG S' T' s') ∧ PReal.Rel (cvG S T s) (cvG S' T' s') := by
  have hden : (const 0.5 : ℝ) + T - T * (1.0 - const 0.5 / S) * s ≠ 0 := by
    have h := den_pos S T s hS0 hT0 hs0 hs1
    have e : (const 0.5 : ℝ) + T - T * (1.0 - const 0.5 / S) * s = 1 / 2 + T - T * (1 - 1 / 2 / S) * s := by
      simp only [RealScalar.const_eq, RealScalar.eval_ofSci]; norm_num
    rw [e]; exact h.ne'
  unfold lvG cvG
  constructor <;> rel_tac' <;> exact hS0.ne'

/-- the arm after `(l_v, c_v)` is defined for `0 < l_v`, `0 < v` and a non-zero scale maximum -/
theorem hsvArmG_rel {a b lv cv v : ℝ} {A B Lv Cv V' : PReal} (ha : PReal.Rel a A) (hb : PReal.Rel b B) (hlv : PReal.Rel lv Lv)
    (hcv : PReal.Rel cv Cv) (hv : PReal.Rel v V') (hlv0 : 0 < lv) (hv0 : 0 < v) (hM : 0 < scaleMax a b lv cv) :
    hsvArmG A B Lv Cv V' = (hsvArmG a b lv cv v).lift := by
  have hLt := toeInv_rel hlv hlv0.le
  have hvl : 0 < v * lv := mul_pos hv0 hlv0
  have hLn := toeInv_rel (rel_mul hv hlv) hvl.le
  have hct : PReal.Rel (cv * toeInv lv / lv) (Cv * toeInv Lv / Lv) := by rel_tac'; exact hlv0.ne'
  have hf := lightnessScaleFactor_rel hLt ha hb hct (by
    have := hM; unfold scaleMax at this
    simp only [RealScalar.max_eq]
    norm_num
    exact this.ne')
  apply V3.eq_lift
  · unfold hsvArmG; simp only []; rel_tac'
  · unfold hsvArmG; simp only []; rel_tac'; exact hvl.ne'
  · unfold hsvArmG; simp only []; rel_tac'; exact hvl.ne'


/-! ### Okhsv → Oklab -/

theorem not_eqv_zero {x : ℝ} (h : x ≠ 0) : ¬ Scalar.eqv (ok x) (0.0 : PReal) := by
  have : (0.0 : PReal) = ok (0.0 : ℝ) := rfl
  rw [this, eqv_some]; norm_num; exact h

/-- **`Okhsv → Oklab`, non-degenerate arm: defined, with the real value**, for every hue, `0 < s ≤ 1`, `0 < v` -/
theorem okhsvToOklab_defined (h s v : ℝ) (hs0 : 0 < s) (hs1 : s ≤ 1) (hv : 0 < v) :
    okhsvToOklab (⟨h, s, v⟩ : V3 ℝ).lift = (okhsvToOklab ⟨h, s, v⟩).lift := by
  have hu := cos_sin_unit (h * (Real.pi / 180))
  have ha : PReal.Rel (Real.cos (h * (Real.pi / 180))) (cos (Angle.degToRad (ok h))) := rfl
  have hb : PReal.Rel (Real.sin (h * (Real.pi / 180))) (sin (Angle.degToRad (ok h))) := rfl
  obtain ⟨rS, rT⟩ := cuspST_rel ha hb hu
  obtain ⟨eS, s1, s2, t1⟩ := OkCusp.cuspST_bounds _ _ hu
  have hS0 : 0 < (stOfLC (findCusp (Real.cos (h * (Real.pi / 180))) (Real.sin (h * (Real.pi / 180))))).s := by linarith
  obtain ⟨rl, rc⟩ := lvG_rel rS rT (rel_ok s) hS0 t1 hs0.le hs1
  have hM := scaleMax_pos _ _ _ _ _ hu (lvOf_pos _ _ s hS0 t1 hs0.le hs1) (cvOf_pos _ _ s hS0 t1 hs0 hs1).le
    (cv_le_S_lv _ _ s hS0 t1 hs0.le hs1) (by linarith)
  have g0 : ¬ Scalar.eqv v (0.0 : ℝ) := by rw [C01OkComposite.eqv_iff]; norm_num; exact hv.ne'
  have g1 : ¬ Scalar.eqv s (0.0 : ℝ) := by rw [C01OkComposite.eqv_iff]; norm_num; exact hs0.ne'
  have eR : okhsvToOklab (⟨h, s, v⟩ : V3 ℝ) = hsvArmG (Real.cos (h * (Real.pi / 180))) (Real.sin (h * (Real.pi / 180)))
      (lvG (stOfLC (findCusp (Real.cos (h * (Real.pi / 180))) (Real.sin (h * (Real.pi / 180))))).s
        (stOfLC (findCusp (Real.cos (h * (Real.pi / 180))) (Real.sin (h * (Real.pi / 180))))).t s)
      (cvG (stOfLC (findCusp (Real.cos (h * (Real.pi / 180))) (Real.sin (h * (Real.pi / 180))))).s
        (stOfLC (findCusp (Real.cos (h * (Real.pi / 180))) (Real.sin (h * (Real.pi / 180))))).t s) v := by
    rw [okhsvToOklab_stage]; exact (if_neg g0).trans (if_neg g1)
  have eP : okhsvToOklab (⟨h, s, v⟩ : V3 ℝ).lift = hsvArmG (cos (Angle.degToRad (ok h))) (sin (Angle.degToRad (ok h)))
      (lvG (stOfLC (findCusp (cos (Angle.degToRad (ok h))) (sin (Angle.degToRad (ok h))))).s
        (stOfLC (findCusp (cos (Angle.degToRad (ok h))) (sin (Angle.degToRad (ok h))))).t (ok s))
      (cvG (stOfLC (findCusp (cos (Angle.degToRad (ok h))) (sin (Angle.degToRad (ok h))))).s
        (stOfLC (findCusp (cos (Angle.degToRad (ok h))) (sin (Angle.degToRad (ok h))))).t (ok s)) (ok v) := by
    rw [okhsvToOklab_stage]; exact (if_neg (not_eqv_zero hv.ne')).trans (if_neg (not_eqv_zero hs0.ne'))
  rw [eP, eR]
  exact hsvArmG_rel ha hb rl rc (rel_ok v) (lvOf_pos _ _ s hS0 t1 hs0.le hs1) hv hM

/-- **`Okhsv → Oklab` never produces poison on the documented box** (every hue, `0 ≤ s ≤ 1`, `0 ≤ v`; black and the gray axis by the
    early returns of `C07_FiniteOk`, everything else by the arm) -/
theorem okhsvToOklab_finite (h s v : ℝ) (hs0 : 0 ≤ s) (hs1 : s ≤ 1) (hv : 0 ≤ v) : (okhsvToOklab (⟨h, s, v⟩ : V3 ℝ).lift).Finite := by
  rcases eq_or_lt_of_le hv with hv0 | hv0
  · rw [← hv0, C07.okhsvToOklab_black]; exact ⟨_, rfl⟩
  · rcases eq_or_lt_of_le hs0 with hs00 | hs00
    · rw [← hs00]; exact C07.okhsvToOklab_gray h v hv0
    · rw [okhsvToOklab_defined h s v hs00 hs1 hv0]; exact ⟨_, rfl⟩

/-! ### Oklab → Okhsv -/

/-- the divisor of the saturation, `T·s₀ + T·k·c_v`, is positive inside the cusp triangle (`0 < c ≤ S·l` on the side `c + T·l = T`) -/
theorem sat_den_pos (S T l c : ℝ) (hS : 0 < S) (hT : 0 < T) (hc : 0 < c) (hline : c + T * l = T) (hcs : c ≤ S * l) :
    0 < T * (1 / 2) + T * (1 - 1 / 2 / S) * c := by
  have hc2 : c * (S + T) ≤ S * T := by
    have : T * l = T - c := by linarith
    nlinarith
  have e : T * (1 / 2) + T * (1 - 1 / 2 / S) * c = T * (c + (1 / 2) * (S - c) / S) := by field_simp; ring
  rw [e]
  have : c < S := by
    have : c * (S + T) < S * (S + T) := by nlinarith
    exact lt_of_mul_lt_mul_right this (by positivity)
  have : 0 < (1 / 2) * (S - c) / S := by apply div_pos _ hS; nlinarith
  positivity

theorem hsvBackG_rel {a b S T L C : ℝ} {A B S' T' L' C' : PReal} (ha : PReal.Rel a A) (hb : PReal.Rel b B) (hS : PReal.Rel S S')
    (hT : PReal.Rel T T') (hL : PReal.Rel L L') (hC : PReal.Rel C C') (hu : a * a + b * b = 1) (hS0 : 0 < S) (hS8 : S < 8) (hT0 : 0 < T)
    (hL0 : 0 < L) (hC0 : 0 < C) (hCS : C ≤ S * L) :
    PReal.Rel (hsvBackG a b S T L C).1 (hsvBackG A B S' T' L' C').1 ∧ PReal.Rel (hsvBackG a b S T L C).2 (hsvBackG A B S' T' L' C').2 := by
  have hden : 0 < C + L * T := by positivity
  have ht0 : 0 < T / (C + L * T) := div_pos hT0 hden
  have rt : PReal.Rel (T / (C + L * T)) (T' / (C' + L' * T')) := by rel_tac'; exact hden.ne'
  have hlv0 : 0 < T / (C + L * T) * L := mul_pos ht0 hL0
  have hcv0 : 0 < T / (C + L * T) * C := mul_pos ht0 hC0
  have hcs : T / (C + L * T) * C ≤ S * (T / (C + L * T) * L) := by nlinarith
  have hline : T / (C + L * T) * C + T * (T / (C + L * T) * L) = T := by field_simp
  have hM := scaleMax_pos a b _ _ S hu hlv0 hcv0.le hcs hS8
  have rlv : PReal.Rel (T / (C + L * T) * L) (T' / (C' + L' * T') * L') := rel_mul rt hL
  have rcv : PReal.Rel (T / (C + L * T) * C) (T' / (C' + L' * T') * C') := rel_mul rt hC
  have hLt := toeInv_rel rlv hlv0.le
  have hct : PReal.Rel (T / (C + L * T) * C * toeInv (T / (C + L * T) * L) / (T / (C + L * T) * L))
      (T' / (C' + L' * T') * C' * toeInv (T' / (C' + L' * T') * L') / (T' / (C' + L' * T') * L')) := by
    rel_tac'; exact hlv0.ne'
  have hf := lightnessScaleFactor_rel hLt ha hb hct (by
    have := hM; unfold scaleMax at this
    simp only [RealScalar.max_eq]
    norm_num
    exact this.ne')
  have hfpos : 0 < lightnessScaleFactor (toeInv (T / (C + L * T) * L)) a b
      (T / (C + L * T) * C * toeInv (T / (C + L * T) * L) / (T / (C + L * T) * L)) := scaleOf_pos a b _ _ hM
  have hLf : 0 < L / lightnessScaleFactor (toeInv (T / (C + L * T) * L)) a b
      (T / (C + L * T) * C * toeInv (T / (C + L * T) * L) / (T / (C + L * T) * L)) := div_pos hL0 hfpos
  have rLf := rel_div hL hf hfpos.ne'
  have rtoe := toe_rel rLf hLf.le
  have hsd : (T * (const 0.5 : ℝ)) + T * (1.0 - const 0.5 / S) * (T / (C + L * T) * C) ≠ 0 := by
    have h := sat_den_pos S T _ _ hS0 hT0 hcv0 hline hcs
    have e : (T * (const 0.5 : ℝ)) + T * (1.0 - const 0.5 / S) * (T / (C + L * T) * C)
        = T * (1 / 2) + T * (1 - 1 / 2 / S) * (T / (C + L * T) * C) := by
      simp only [RealScalar.const_eq, RealScalar.eval_ofSci]; norm_num
    rw [e]; exact h.ne'
  unfold hsvBackG
  simp only []
  constructor
  · rel_tac'; exact hS0.ne'
  · rel_tac'; exact hlv0.ne'

/-- **`Oklab → Okhsv`, non-degenerate arm: defined, with the real value**, for `0 < L`, `0 < C ≤ S_cusp·L` (inside the cusp triangle) -/
theorem oklabToOkhsv_defined (L a b : ℝ) (hL : 0 < L) (hC : 0 < chromaOf a b)
    (hCS : chromaOf a b ≤ (stOfLC (findCusp (a / chromaOf a b) (b / chromaOf a b))).s * L) :
    oklabToOkhsv (⟨L, a, b⟩ : V3 ℝ).lift = (oklabToOkhsv ⟨L, a, b⟩).lift := by
  have hu := div_chroma_unit a b hC
  have rC : PReal.Rel (chromaOf a b) (chromaOf (ok a) (ok b)) := rfl
  have ra : PReal.Rel (a / chromaOf a b) (ok a / chromaOf (ok a) (ok b)) := rel_div (rel_ok a) rC hC.ne'
  have rb : PReal.Rel (b / chromaOf a b) (ok b / chromaOf (ok a) (ok b)) := rel_div (rel_ok b) rC hC.ne'
  obtain ⟨rS, rT⟩ := cuspST_rel ra rb hu
  obtain ⟨eS, s1, s2, t1⟩ := OkCusp.cuspST_bounds _ _ hu
  obtain ⟨r1, r2⟩ := hsvBackG_rel ra rb rS rT (rel_ok L) rC hu (by linarith) (by linarith) t1 hL hC hCS
  have g0 : ¬ Scalar.eqv L (0.0 : ℝ) := by rw [C01OkComposite.eqv_iff]; norm_num; exact hL.ne'
  have v1 : Scalar.isValidDivisor (chromaOf (ok a) (ok b)) = true := by rw [rel_valid rC]; simp [hC.ne']
  have v2 : Scalar.isValidDivisor (chromaOf a b) = true := by simp [RealScalar.valid_eq, hC.ne']
  have eR : oklabToOkhsv (⟨L, a, b⟩ : V3 ℝ) = ⟨hueFromCartesian a b,
      (hsvBackG (a / chromaOf a b) (b / chromaOf a b) (stOfLC (findCusp (a / chromaOf a b) (b / chromaOf a b))).s
        (stOfLC (findCusp (a / chromaOf a b) (b / chromaOf a b))).t L (chromaOf a b)).1,
      (hsvBackG (a / chromaOf a b) (b / chromaOf a b) (stOfLC (findCusp (a / chromaOf a b) (b / chromaOf a b))).s
        (stOfLC (findCusp (a / chromaOf a b) (b / chromaOf a b))).t L (chromaOf a b)).2⟩ := by
    rw [oklabToOkhsv_stage]; exact (if_neg g0).trans (if_pos v2)
  have eP : oklabToOkhsv (⟨L, a, b⟩ : V3 ℝ).lift = ⟨hueFromCartesian (ok a) (ok b),
      (hsvBackG (ok a / chromaOf (ok a) (ok b)) (ok b / chromaOf (ok a) (ok b))
        (stOfLC (findCusp (ok a / chromaOf (ok a) (ok b)) (ok b / chromaOf (ok a) (ok b)))).s
        (stOfLC (findCusp (ok a / chromaOf (ok a) (ok b)) (ok b / chromaOf (ok a) (ok b)))).t (ok L) (chromaOf (ok a) (ok b))).1,
      (hsvBackG (ok a / chromaOf (ok a) (ok b)) (ok b / chromaOf (ok a) (ok b))
        (stOfLC (findCusp (ok a / chromaOf (ok a) (ok b)) (ok b / chromaOf (ok a) (ok b)))).s
        (stOfLC (findCusp (ok a / chromaOf (ok a) (ok b)) (ok b / chromaOf (ok a) (ok b)))).t (ok L) (chromaOf (ok a) (ok b))).2⟩ := by
    rw [oklabToOkhsv_stage]; exact (if_neg (not_eqv_zero hL.ne')).trans (if_pos v1)
  rw [eP, eR]
  exact V3.eq_lift rfl r1 r2


/-- **`Oklab → Okhsv` inside the cusp triangle never produces poison** (`0 ≤ L`; black and the gray axis by the early returns) -/
theorem oklabToOkhsv_finite_partial (L a b : ℝ) (hL : 0 ≤ L)
    (hCS : 0 < chromaOf a b → chromaOf a b ≤ (stOfLC (findCusp (a / chromaOf a b) (b / chromaOf a b))).s * L) :
    (oklabToOkhsv (⟨L, a, b⟩ : V3 ℝ).lift).Finite := by
  rcases eq_or_lt_of_le hL with hL0 | hL0
  · rw [← hL0, C07.oklabToOkhsv_black]; exact ⟨_, rfl⟩
  · have hC0 : 0 ≤ chromaOf a b := Real.sqrt_nonneg _
    rcases eq_or_lt_of_le hC0 with hC | hC
    · -- zero chroma: `a = b = 0`
      have hab : a * a + b * b = 0 := by
        have h2 : Real.sqrt (a * a + b * b) = 0 := hC.symm
        exact (Real.sqrt_eq_zero (by nlinarith [mul_self_nonneg a, mul_self_nonneg b])).mp h2
      have ha : a = 0 := by nlinarith [mul_self_nonneg a, mul_self_nonneg b]
      have hb : b = 0 := by nlinarith [mul_self_nonneg a, mul_self_nonneg b]
      rw [ha, hb]; exact C07.oklabToOkhsv_gray L hL0
    · rw [oklabToOkhsv_defined L a b hL0 hC (hCS hC)]; exact ⟨_, rfl⟩

/-! ### `find_gamut_intersection` below the cusp, `from_normalized` -/

/-- the closed-form branch of `find_gamut_intersection` (taken at and below the cusp) is defined when its divisor is not zero -/
theorem findGamutIntersection_lower_rel {a b l1 c1 l0 Lc Cc : ℝ} {A B L1 C1 L0 Lc' Cc' : PReal} (r1 : PReal.Rel l1 L1) (rc : PReal.Rel c1 C1)
    (r0 : PReal.Rel l0 L0) (rL : PReal.Rel Lc Lc') (rC : PReal.Rel Cc Cc')
    (hcond : (l1 - l0) * Cc - (Lc - l0) * c1 ≤ 0.0) (hden : c1 * Lc + Cc * (l0 - l1) ≠ 0) :
    PReal.Rel (findGamutIntersection a b l1 c1 l0 ⟨Lc, Cc⟩) (findGamutIntersection A B L1 C1 L0 ⟨Lc', Cc'⟩) := by
  have rcond : PReal.Rel ((l1 - l0) * Cc - (Lc - l0) * c1) ((L1 - L0) * Cc' - (Lc' - L0) * C1) := by rel_tac'
  have cP : (L1 - L0) * Cc' - (Lc' - L0) * C1 ≤ (0.0 : PReal) := (rel_le rcond (rel_lit 0 true 1)).mpr hcond
  have eR : findGamutIntersection a b l1 c1 l0 ⟨Lc, Cc⟩ = Cc * l0 / (c1 * Lc + Cc * (l0 - l1)) := by
    unfold findGamutIntersection; exact if_pos hcond
  have eP : findGamutIntersection A B L1 C1 L0 ⟨Lc', Cc'⟩ = Cc' * L0 / (C1 * Lc' + Cc' * (L0 - L1)) := by
    unfold findGamutIntersection; exact if_pos cP
  rw [eR, eP]
  rel_tac'

section stages2
variable {α : Type} [Scalar α]

/-- the part of `ChromaValues::from_normalized` after the cusp, the gamut intersection and `ST::mid` -/
def csTailG (lightness max_chroma S T Sm Tm : α) : Cs α :=
  let c : Nat → α := kAt Gen.Ok.fromNormalized
  let k := max_chroma / Scalar.min (lightness * S) ((1.0 - lightness) * T)
  let c_mid :=
    let c_a := lightness * Sm
    let c_b := (1.0 - lightness) * Tm
    c 0 * k * sqrt (sqrt (1.0 / (1.0 / (c_a * c_a * c_a * c_a) + 1.0 / (c_b * c_b * c_b * c_b))))
  let c_0 :=
    let c_a := lightness * c 1
    let c_b := (1.0 - lightness) * c 2
    sqrt (1.0 / (1.0 / (c_a * c_a) + 1.0 / (c_b * c_b)))
  ⟨c_0, c_mid, max_chroma⟩

theorem fromNormalized_stage (L a b : α) : fromNormalized L a b =
    csTailG L (findGamutIntersection a b L 1.0 L (findCusp a b)) (stOfLC (findCusp a b)).s (stOfLC (findCusp a b)).t
      (stMid a b).s (stMid a b).t := rfl

end stages2

/-- the three chroma values are defined -/
def CsRel (cs : Cs ℝ) (CS : Cs PReal) : Prop := PReal.Rel cs.zero CS.zero ∧ PReal.Rel cs.mid CS.mid ∧ PReal.Rel cs.max CS.max

theorem csTailG_rel {L mc S T Sm Tm : ℝ} {L' mc' S' T' Sm' Tm' : PReal} (rL : PReal.Rel L L') (rm : PReal.Rel mc mc') (rS : PReal.Rel S S')
    (rT : PReal.Rel T T') (rSm : PReal.Rel Sm Sm') (rTm : PReal.Rel Tm Tm') (hL0 : 0 < L) (hL1 : L < 1) (hS : 0 < S) (hT : 0 < T)
    (hSm : 0 < Sm) (hTm : 0 < Tm) : CsRel (csTailG L mc S T Sm Tm) (csTailG L' mc' S' T' Sm' Tm') := by
  have h10 : (1.0 : ℝ) = 1 := by norm_num
  have h1L : (0 : ℝ) < 1.0 - L := by rw [h10]; linarith
  have hmin : Scalar.min (L * S) ((1.0 - L) * T) ≠ 0 := by
    simp only [RealScalar.min_eq]; exact (lt_min (mul_pos hL0 hS) (mul_pos h1L hT)).ne'
  have hca : 0 < L * Sm := mul_pos hL0 hSm
  have hcb : 0 < (1.0 - L) * Tm := mul_pos h1L hTm
  have k1 : (0 : ℝ) < kAt Gen.Ok.fromNormalized 1 := by
    simp only [kAt, Gen.Ok.fromNormalized, List.getD_cons_zero, List.getD_cons_succ, RealScalar.const_eq, RealScalar.eval_ofSci]; norm_num
  have k2 : (0 : ℝ) < kAt Gen.Ok.fromNormalized 2 := by
    simp only [kAt, Gen.Ok.fromNormalized, List.getD_cons_zero, List.getD_cons_succ, RealScalar.const_eq, RealScalar.eval_ofSci]; norm_num
  have hza : 0 < L * kAt Gen.Ok.fromNormalized 1 := mul_pos hL0 k1
  have hzb : 0 < (1.0 - L) * kAt Gen.Ok.fromNormalized 2 := mul_pos h1L k2
  have one_pos' : (0 : ℝ) < 1.0 := by norm_num
  unfold csTailG
  simp only []
  refine ⟨?_, ?_, rm⟩
  · -- C_0
    rel_tac'
    · exact (mul_pos hza hza).ne'
    · exact (mul_pos hzb hzb).ne'
    · exact (add_pos (div_pos one_pos' (mul_pos hza hza)) (div_pos one_pos' (mul_pos hzb hzb))).ne'
    · exact (div_pos one_pos' (add_pos (div_pos one_pos' (mul_pos hza hza)) (div_pos one_pos' (mul_pos hzb hzb)))).le
  · -- C_mid
    have q1 : 0 < L * Sm * (L * Sm) * (L * Sm) * (L * Sm) := by positivity
    have q2 : 0 < (1.0 - L) * Tm * ((1.0 - L) * Tm) * ((1.0 - L) * Tm) * ((1.0 - L) * Tm) := by positivity
    have q3 := add_pos (div_pos one_pos' q1) (div_pos one_pos' q2)
    rel_tac'
    · exact q1.ne'
    · exact q2.ne'
    · exact q3.ne'
    · exact (div_pos one_pos' q3).le
    · exact Real.sqrt_nonneg _

/-- **`from_normalized` is defined below the cusp, for every unit hue vector** -/
theorem fromNormalized_rel_below_cusp {a b L : ℝ} {A B L' : PReal} (ha : PReal.Rel a A) (hb : PReal.Rel b B) (hL : PReal.Rel L L')
    (hu : a * a + b * b = 1) (hL0 : 0 < L) (hLc : L ≤ (findCusp a b).lightness) :
    CsRel (fromNormalized L a b) (fromNormalized L' A B) := by
  obtain ⟨l0, l1, c0⟩ := OkCusp.findCusp_bounds a b hu
  obtain ⟨rl, rc⟩ := findCusp_rel ha hb hu
  obtain ⟨rS, rT⟩ := cuspST_rel ha hb hu
  obtain ⟨rSm, rTm⟩ := stMid_rel ha hb hu
  obtain ⟨_, s1, _, t1⟩ := OkCusp.cuspST_bounds a b hu
  obtain ⟨_, _, sm, tm⟩ := OkCusp.stMid_bounds a b hu
  have h10 : (1.0 : ℝ) = 1 := by norm_num
  have rgi : PReal.Rel (findGamutIntersection a b L 1.0 L (findCusp a b)) (findGamutIntersection A B L' 1.0 L' (findCusp A B)) :=
    findGamutIntersection_lower_rel (Lc := (findCusp a b).lightness) (Cc := (findCusp a b).chroma) hL (rel_lit 10 true 1) hL rl rc
      (by rw [h10]; norm_num; exact hLc) (by rw [h10]; norm_num; linarith)
  rw [fromNormalized_stage, fromNormalized_stage]
  exact csTailG_rel hL rgi rS rT rSm rTm hL0 (lt_of_le_of_lt hLc l1) (by linarith) t1 sm tm


/-! ### the interpolations of Okhsl -/

theorem lit_08 : (const 0.8 : ℝ) = 0.8 := rfl
theorem lit_125 : (const 1.25 : ℝ) = 1.25 := rfl

/-- `okhslChroma` is defined for `CsOk` chroma values and `0 ≤ s ≤ 1` -/
theorem okhslChroma_rel {cs : Cs ℝ} {CS : Cs PReal} {s : ℝ} {s' : PReal} (hcs : CsRel cs CS) (hok : CsOk cs) (hs : PReal.Rel s s')
    (hs0 : 0 ≤ s) (hs1 : s ≤ 1) : PReal.Rel (okhslChroma cs s) (okhslChroma CS s') := by
  obtain ⟨rz, rm, rx⟩ := hcs
  have h10 : (1.0 : ℝ) = 1 := by norm_num
  have rlt := rel_lt hs (rel_const (0.8 : K) (by decide))
  by_cases h : s < (const 0.8 : ℝ)
  · have eR : okhslChroma cs s = const 1.25 * s * (const 0.8 * cs.zero) / (1.0 - (1.0 - const 0.8 * cs.zero / cs.mid) * (const 1.25 * s)) := by
      unfold okhslChroma; exact if_pos h
    have eP : okhslChroma CS s' = const 1.25 * s' * (const 0.8 * CS.zero) / (1.0 - (1.0 - const 0.8 * CS.zero / CS.mid) * (const 1.25 * s')) := by
      unfold okhslChroma; exact if_pos (rlt.mpr h)
    have hden : (1.0 : ℝ) - (1.0 - const 0.8 * cs.zero / cs.mid) * (const 1.25 * s) ≠ 0 := by
      have h' : s < 0.8 := h
      have := lo_den_pos (0.8 * cs.zero) cs.mid (1.25 * s) (mul_pos (by norm_num) hok.zero) hok.mid (mul_nonneg (by norm_num) hs0)
        (by linarith)
      rw [lit_08, lit_125, h10]; exact this.ne'
    rw [eR, eP]
    rel_tac'
    exact hok.mid.ne'
  · have eR : okhslChroma cs s = cs.mid + (s - const 0.8) / (1.0 - const 0.8) * ((1.0 - const 0.8) * cs.mid * cs.mid * const 1.25 * const 1.25 / cs.zero)
        / (1.0 - (1.0 - (1.0 - const 0.8) * cs.mid * cs.mid * const 1.25 * const 1.25 / cs.zero / (cs.max - cs.mid)) * ((s - const 0.8) / (1.0 - const 0.8))) := by
      unfold okhslChroma; exact if_neg h
    have eP : okhslChroma CS s' = CS.mid + (s' - const 0.8) / (1.0 - const 0.8) * ((1.0 - const 0.8) * CS.mid * CS.mid * const 1.25 * const 1.25 / CS.zero)
        / (1.0 - (1.0 - (1.0 - const 0.8) * CS.mid * CS.mid * const 1.25 * const 1.25 / CS.zero / (CS.max - CS.mid)) * ((s' - const 0.8) / (1.0 - const 0.8))) := by
      unfold okhslChroma; exact if_neg (fun hp => h (rlt.mp hp))
    have hs' : (0.8 : ℝ) ≤ s := not_lt.mp h
    have e8 : (1 : ℝ) - 0.8 ≠ 0 := by norm_num
    have ht0 : 0 ≤ (s - 0.8) / (1 - 0.8) := div_nonneg (sub_nonneg.mpr hs') (by norm_num)
    have ht1 : (s - 0.8) / (1 - 0.8) ≤ 1 := by rw [div_le_one (by norm_num)]; linarith
    have hk : 0 < (1 - 0.8) * cs.mid * cs.mid * 1.25 * 1.25 / cs.zero :=
      div_pos (mul_pos (mul_pos (mul_pos (mul_pos (by norm_num) hok.mid) hok.mid) (by norm_num)) (by norm_num)) hok.zero
    have hden : (1.0 : ℝ) - (1.0 - (1.0 - const 0.8) * cs.mid * cs.mid * const 1.25 * const 1.25 / cs.zero / (cs.max - cs.mid)) * ((s - const 0.8) / (1.0 - const 0.8)) ≠ 0 := by
      have := hi_den_pos _ _ _ hk (sub_pos.mpr hok.max) ht0 ht1
      rw [lit_08, lit_125, h10]; exact this.ne'
    have h2 : (1.0 : ℝ) - const 0.8 ≠ 0 := by rw [lit_08, h10]; exact e8
    rw [eR, eP]
    rel_tac'
    · exact hok.zero.ne'
    · exact hok.zero.ne'
    · exact (sub_pos.mpr hok.max).ne'

/-- `okhslSaturation` is defined for `CsOk` chroma values and `0 ≤ C ≤ C_max` -/
theorem okhslSaturation_rel {cs : Cs ℝ} {CS : Cs PReal} {C : ℝ} {C' : PReal} (hcs : CsRel cs CS) (hok : CsOk cs) (hC : PReal.Rel C C')
    (hC0 : 0 ≤ C) (hCx : C ≤ cs.max) : PReal.Rel (okhslSaturation cs C) (okhslSaturation CS C') := by
  obtain ⟨rz, rm, rx⟩ := hcs
  have h10 : (1.0 : ℝ) = 1 := by norm_num
  have rlt := rel_lt hC rm
  by_cases h : C < cs.mid
  · have eR : okhslSaturation cs C = C / (const 0.8 * cs.zero + (1.0 - const 0.8 * cs.zero / cs.mid) * C) * const 0.8 := by
      unfold okhslSaturation; exact if_pos h
    have eP : okhslSaturation CS C' = C' / (const 0.8 * CS.zero + (1.0 - const 0.8 * CS.zero / CS.mid) * C') * const 0.8 := by
      unfold okhslSaturation; exact if_pos (rlt.mpr h)
    have hden : const 0.8 * cs.zero + ((1.0 : ℝ) - const 0.8 * cs.zero / cs.mid) * C ≠ 0 := by
      have := (lo_range (0.8 * cs.zero) cs.mid C (mul_pos (by norm_num) hok.zero) hok.mid hC0 h).1
      rw [lit_08, h10]; exact this.ne'
    rw [eR, eP]
    rel_tac'
    exact hok.mid.ne'
  · have eR : okhslSaturation cs C = const 0.8 + (1.0 - const 0.8) * ((C - cs.mid) / ((1.0 - const 0.8) * ((cs.mid * const 1.25) * (cs.mid * const 1.25)) / cs.zero
        + (1.0 - (1.0 - const 0.8) * ((cs.mid * const 1.25) * (cs.mid * const 1.25)) / cs.zero / (cs.max - cs.mid)) * (C - cs.mid))) := by
      unfold okhslSaturation; exact if_neg h
    have eP : okhslSaturation CS C' = const 0.8 + (1.0 - const 0.8) * ((C' - CS.mid) / ((1.0 - const 0.8) * ((CS.mid * const 1.25) * (CS.mid * const 1.25)) / CS.zero
        + (1.0 - (1.0 - const 0.8) * ((CS.mid * const 1.25) * (CS.mid * const 1.25)) / CS.zero / (CS.max - CS.mid)) * (C' - CS.mid))) := by
      unfold okhslSaturation; exact if_neg (fun hp => h (rlt.mp hp))
    have hk : 0 < (1 - 0.8) * ((cs.mid * 1.25) * (cs.mid * 1.25)) / cs.zero :=
      div_pos (mul_pos (by norm_num) (mul_pos (mul_pos hok.mid (by norm_num)) (mul_pos hok.mid (by norm_num)))) hok.zero
    have hden : ((1.0 : ℝ) - const 0.8) * ((cs.mid * const 1.25) * (cs.mid * const 1.25)) / cs.zero
        + (1.0 - (1.0 - const 0.8) * ((cs.mid * const 1.25) * (cs.mid * const 1.25)) / cs.zero / (cs.max - cs.mid)) * (C - cs.mid) ≠ 0 := by
      have := (hi_range _ (cs.max - cs.mid) (C - cs.mid) hk (sub_pos.mpr hok.max) (sub_nonneg.mpr (not_lt.mp h)) (by linarith)).1
      rw [lit_08, lit_125, h10]; exact this.ne'
    rw [eR, eP]
    rel_tac'
    · exact hok.zero.ne'
    · exact hok.zero.ne'
    · exact (sub_pos.mpr hok.max).ne'


/-! ### Okhsl → Oklab -/

theorem not_eqv_one {x : ℝ} (h : x ≠ 1) : ¬ Scalar.eqv (ok x) (1.0 : PReal) := by
  have : (1.0 : PReal) = ok (1.0 : ℝ) := rfl
  rw [this, eqv_some]; norm_num; exact h

/-- **`Okhsl → Oklab`, non-degenerate arm, `_partial`**: defined, with the real value, for every hue, `0 ≤ s ≤ 1`, `0 < l < 1`, PROVIDED
    `from_normalized` is defined at `(toe_inv l, cos h, sin h)` with `0 < C_0`, `0 < C_mid < C_max`.  (Below the cusp the hypothesis is
    discharged: `okhslToOklab_defined_below_cusp`.  Above the cusp it stays: `find_gamut_intersection`'s Halley denominators.) -/
theorem okhslToOklab_defined_partial (h s l : ℝ) (hs0 : 0 ≤ s) (hs1 : s ≤ 1) (hl0 : 0 < l) (hl1 : l < 1)
    (hrel : CsRel (fromNormalized (toeInv l) (Real.cos (h * (Real.pi / 180))) (Real.sin (h * (Real.pi / 180))))
      (fromNormalized (toeInv (ok l)) (cos (Angle.degToRad (ok h))) (sin (Angle.degToRad (ok h)))))
    (hok : CsOk (fromNormalized (toeInv l) (Real.cos (h * (Real.pi / 180))) (Real.sin (h * (Real.pi / 180))))) :
    okhslToOklab (⟨h, s, l⟩ : V3 ℝ).lift = (okhslToOklab ⟨h, s, l⟩).lift := by
  have ha : PReal.Rel (Real.cos (h * (Real.pi / 180))) (cos (Angle.degToRad (ok h))) := rfl
  have hb : PReal.Rel (Real.sin (h * (Real.pi / 180))) (sin (Angle.degToRad (ok h))) := rfl
  have hti : PReal.Rel (toeInv l) (toeInv (ok l)) := toeInv_rel (rel_ok l) hl0.le
  have c3 : ¬ Scalar.eqv (toeInv (ok l)) (1.0 : PReal) := by
    have e : toeInv (ok l) = ok (toeInv l) := hti
    rw [e]; exact not_eqv_one (toeInv_ne_one l hl0.le hl1.ne)
  have eR := okhslToOklabW_arm fromNormalized h s l hl0 hl1
  rw [okhslToOklabW_model] at eR
  have eP : okhslToOklab (⟨h, s, l⟩ : V3 ℝ).lift = ⟨toeInv (ok l),
      okhslChroma (fromNormalized (toeInv (ok l)) (cos (Angle.degToRad (ok h))) (sin (Angle.degToRad (ok h)))) (ok s) * cos (Angle.degToRad (ok h)),
      okhslChroma (fromNormalized (toeInv (ok l)) (cos (Angle.degToRad (ok h))) (sin (Angle.degToRad (ok h)))) (ok s) * sin (Angle.degToRad (ok h))⟩ := by
    unfold okhslToOklab
    exact (if_neg (not_eqv_one hl1.ne)).trans ((if_neg (not_eqv_zero hl0.ne')).trans (if_neg c3))
  rw [eP, eR]
  have rch := okhslChroma_rel hrel hok (rel_ok s) hs0 hs1
  exact V3.eq_lift hti (rel_mul rch ha) (rel_mul rch hb)

/-- **`Okhsl → Oklab` below the cusp: defined, with the real value, for every hue**, `0 ≤ s ≤ 1`, `0 < l`, `toe_inv l ≤ L_cusp(h)` -/
theorem okhslToOklab_defined_below_cusp (h s l : ℝ) (hs0 : 0 ≤ s) (hs1 : s ≤ 1) (hl0 : 0 < l)
    (hl : toeInv l ≤ (findCusp (Real.cos (h * (Real.pi / 180))) (Real.sin (h * (Real.pi / 180)))).lightness) :
    okhslToOklab (⟨h, s, l⟩ : V3 ℝ).lift = (okhslToOklab ⟨h, s, l⟩).lift := by
  have hu := cos_sin_unit (h * (Real.pi / 180))
  obtain ⟨_, l1, _⟩ := OkCusp.findCusp_bounds _ _ hu
  have hl1 : l < 1 := by
    by_contra hge
    have hge' : 1 ≤ l := not_lt.mp hge
    have : 1 ≤ toeInv l := by
      rw [C02Ok.toeInv_real]; unfold C02Ok.toeInvG
      rw [le_div_iff₀ (by positivity)]
      nlinarith
    linarith
  have ha : PReal.Rel (Real.cos (h * (Real.pi / 180))) (cos (Angle.degToRad (ok h))) := rfl
  have hb : PReal.Rel (Real.sin (h * (Real.pi / 180))) (sin (Angle.degToRad (ok h))) := rfl
  have hti : PReal.Rel (toeInv l) (toeInv (ok l)) := toeInv_rel (rel_ok l) hl0.le
  exact okhslToOklab_defined_partial h s l hs0 hs1 hl0 hl1
    (fromNormalized_rel_below_cusp ha hb hti hu (toeInv_pos l hl0) hl)
    (fromNormalized_below_cusp _ _ _ hu (toeInv_pos l hl0) hl).1

/-- **`Okhsl → Oklab` never produces poison for `0 ≤ l ≤ 0.27`** (every hue, `0 ≤ s ≤ 1`) and, more generally, at and below the cusp -/
theorem okhslToOklab_finite_dark (h s l : ℝ) (hs0 : 0 ≤ s) (hs1 : s ≤ 1) (hl0 : 0 ≤ l) (hl : l ≤ 0.27) :
    (okhslToOklab (⟨h, s, l⟩ : V3 ℝ).lift).Finite := by
  rcases eq_or_lt_of_le hl0 with h0 | h0
  · rw [← h0, C07.okhslToOklab_black]; exact ⟨_, rfl⟩
  · obtain ⟨l0, _, _⟩ := OkCusp.findCusp_bounds _ _ (cos_sin_unit (h * (Real.pi / 180)))
    rw [okhslToOklab_defined_below_cusp h s l hs0 hs1 h0 (le_trans (toeInv_le_of_le l hl0 hl) l0.le)]
    exact ⟨_, rfl⟩

/-! ### Oklab → Okhsl -/

/-- **`Oklab → Okhsl`, non-degenerate arm, `_partial`**: defined, with the real value, for `0 < L < 1`, `0 < C ≤ C_max`, PROVIDED
    `from_normalized` is defined at `(L, a/C, b/C)` with `0 < C_0`, `0 < C_mid < C_max` -/
theorem oklabToOkhsl_defined_partial (L a b : ℝ) (hL0 : 0 < L) (hL1 : L < 1) (hC : 0 < chromaOf a b)
    (hrel : CsRel (fromNormalized L (a / chromaOf a b) (b / chromaOf a b))
      (fromNormalized (ok L) (ok a / chromaOf (ok a) (ok b)) (ok b / chromaOf (ok a) (ok b))))
    (hok : CsOk (fromNormalized L (a / chromaOf a b) (b / chromaOf a b)))
    (hmax : chromaOf a b ≤ (fromNormalized L (a / chromaOf a b) (b / chromaOf a b)).max) :
    oklabToOkhsl (⟨L, a, b⟩ : V3 ℝ).lift = (oklabToOkhsl ⟨L, a, b⟩).lift := by
  have rC : PReal.Rel (chromaOf a b) (chromaOf (ok a) (ok b)) := rfl
  have eR := oklabToOkhslW_arm fromNormalized L a b hC.ne' hL0.ne' hL1.ne
  rw [oklabToOkhslW_model] at eR
  have v1 : Scalar.isValidDivisor (chromaOf (ok a) (ok b)) = true := by rw [rel_valid rC]; simp [hC.ne']
  have v2 : Scalar.isValidDivisor (ok L) = true := by rw [valid_some]; simp [hL0.ne']
  have hbP : (!Scalar.isValidDivisor (chromaOf (ok a) (ok b)) || decide (Scalar.eqv (ok L) (1.0 : PReal)) || !Scalar.isValidDivisor (ok L)) = false := by
    rw [v1, v2, decide_eq_false (not_eqv_one hL1.ne)]; rfl
  have eP : oklabToOkhsl (⟨L, a, b⟩ : V3 ℝ).lift = ⟨hueFromCartesian (ok a) (ok b),
      okhslSaturation (fromNormalized (ok L) (ok a / chromaOf (ok a) (ok b)) (ok b / chromaOf (ok a) (ok b))) (chromaOf (ok a) (ok b)),
      toe (ok L)⟩ := by
    unfold oklabToOkhsl
    exact if_neg (by
      show ¬ (!Scalar.isValidDivisor (chromaOf (ok a) (ok b)) || decide (Scalar.eqv (ok L) (1.0 : PReal)) || !Scalar.isValidDivisor (ok L)) = true
      rw [hbP]; exact Bool.false_ne_true)
  rw [eP, eR]
  exact V3.eq_lift rfl (okhslSaturation_rel hrel hok rC hC.le hmax) (toe_rel (rel_ok L) hL0.le)

/-- **`Oklab → Okhsl` below the cusp: defined, with the real value**, for `0 < L ≤ L_cusp`, `0 < C ≤ S_cusp·L` (`= C_max` there) -/
theorem oklabToOkhsl_defined_below_cusp (L a b : ℝ) (hL0 : 0 < L) (hC : 0 < chromaOf a b)
    (hL : L ≤ (findCusp (a / chromaOf a b) (b / chromaOf a b)).lightness)
    (hmax : chromaOf a b ≤ maxSaturation (a / chromaOf a b) (b / chromaOf a b) * L) :
    oklabToOkhsl (⟨L, a, b⟩ : V3 ℝ).lift = (oklabToOkhsl ⟨L, a, b⟩).lift := by
  have hu := div_chroma_unit a b hC
  obtain ⟨_, l1, _⟩ := OkCusp.findCusp_bounds _ _ hu
  have rC : PReal.Rel (chromaOf a b) (chromaOf (ok a) (ok b)) := rfl
  have ra : PReal.Rel (a / chromaOf a b) (ok a / chromaOf (ok a) (ok b)) := rel_div (rel_ok a) rC hC.ne'
  have rb : PReal.Rel (b / chromaOf a b) (ok b / chromaOf (ok a) (ok b)) := rel_div (rel_ok b) rC hC.ne'
  obtain ⟨hcs, hm⟩ := fromNormalized_below_cusp _ _ L hu hL0 hL
  exact oklabToOkhsl_defined_partial L a b hL0 (lt_of_le_of_lt hL l1) hC
    (fromNormalized_rel_below_cusp ra rb (rel_ok L) hu hL0 hL) hcs (by rw [hm]; exact hmax)

/-- non-vacuity of the two `_partial` statements: below the cusp their hypotheses hold (`Okhsl(30°, 0.5, 0.2)`, `Oklab(0.3, 0.018, 0.024)`) -/
example : okhslToOklab (⟨30, 0.5, 0.2⟩ : V3 ℝ).lift = (okhslToOklab ⟨30, 0.5, 0.2⟩).lift := by
  obtain ⟨l0, _, _⟩ := OkCusp.findCusp_bounds _ _ (cos_sin_unit ((30 : ℝ) * (Real.pi / 180)))
  exact okhslToOklab_defined_below_cusp 30 0.5 0.2 (by norm_num) (by norm_num) (by norm_num)
    (le_trans (toeInv_le_of_le 0.2 (by norm_num) (by norm_num)) l0.le)

end C07Arms
