/-
  C11 — the computed normal forms of a hue, **for every `Float` (binary64) with |x| ≤ 2^20** (the f64 half of the clause
  "for every angle up to a million degrees the normal forms lie in range and are congruent to the stored angle, each to
  within the rounding error of the stored angle"; the binary32 half is `C11_HueAll.lean`, of which this file is the port).

  Theorems about `Hue.Bits.normU64` / `normS64` (the bit-level transcription of `normalize_unsigned_angle` /
  `normalize_signed_angle` at `f64` that the driver runs against the implementation), through the IEEE reasoning layer
  (`+ − * /` = rounding `R64` of the exact result, `R64` monotone and within half an ulp) and the exactness of
  `floor64`/`ceil64` (`Lemmas/HueIeee64.lean`).  With `X = v x`:

    normU64 x = R64 (X − 360·k),  k = ⌊R64 (X/360)⌋            (`normU64_closed_form`; `360·k` is exact)
    normS64 x = R64 (X − 360·k),  k = ⌈R64 (R64 (R64 (X+180)/360) − 1)⌉

  * unsigned:  −ulp X − 360·2^-1074 ≤ normU64 x ≤ 360   (`normU64_range_all`),
  * signed:    −180 ≤ normS64 x  (`normS64_lower_all`, no tolerance needed),
  * both are within half an ulp OF THE RESULT of `X − 360·k` for an integer `k` (`norm*64_congruent_all`).
  The upper bound `normS64 x ≤ 180 + ulp X` is in `C11_HueAllS64.lean`.
-/
import PaletteProofs.Lemmas.HueNorm64
import PaletteProofs.Ieee.Ulp

namespace C11
open Hue.Bits Float.Model Float.Model.UnpackedFloat Ieee Ieee.F64

/-- unit in the last place of binary32 at `z` (`2^-1074` at `0`) -/
abbrev ulp64 (z : ℚ) : ℚ := ulp 53 (-1074) z

theorem hp53 : 1 ≤ (53 : ℕ) := by norm_num

theorem R64_eq (z : ℚ) : R64 z = R 53 (-1074) z := rfl

/-- both computed normal forms are finite floats (no NaN, no infinity) -/
theorem norm64_finite_all : ∀ x : Float, IsFin x → |v x| ≤ 2^20 → IsFin (normU64 x) ∧ IsFin (normS64 x) :=
  fun _ hx hb => ⟨(normU64_closed_form hx hb).1, (normS64_closed_form hx hb).1⟩

/-- both normal forms are congruent to the stored angle modulo 360, up to the final rounding -/
theorem normU64_congruent_all : ∀ x : Float, IsFin x → |v x| ≤ 2^20 →
    ∃ k : ℤ, |v (normU64 x) - (v x - 360 * k)| ≤ ulp64 (v (normU64 x)) / 2 := by
  intro x hx hb
  obtain ⟨_, hv, _⟩ := normU64_closed_form hx hb
  refine ⟨⌊R64 (v x / 360)⌋, ?_⟩
  rw [hv]; exact R_error_ulp hp53 _

theorem normS64_congruent_all : ∀ x : Float, IsFin x → |v x| ≤ 2^20 →
    ∃ k : ℤ, |v (normS64 x) - (v x - 360 * k)| ≤ ulp64 (v (normS64 x)) / 2 := by
  intro x hx hb
  obtain ⟨_, hv, _⟩ := normS64_closed_form hx hb
  refine ⟨⌈R64 (R64 (R64 (v x + 180) / 360) - 1)⌉, ?_⟩
  rw [hv]; exact R_error_ulp hp53 _

example : IsFin (Float.ofBits 0x4130000000000000) ∧ |v (Float.ofBits 0x4130000000000000)| ≤ 2^20 := by
  refine ⟨rfl, ?_⟩
  unfold v; rw [show U (Float.ofBits 0x4130000000000000) = .finite .positive 0x10000000000000 (-32) (by decide) from rfl]; norm_num [val, sgn]

/-- if a representable integer `n` is not reached by the rounded value, it is not reached by the exact value -/
theorem lt_of_R64_lt_int {z : ℚ} {n : ℤ} (hn : |n| < 2^53) (h : R64 z < n) : z < n := by
  by_contra hge
  have := R64_mono (not_lt.mp hge)
  rw [R64_intCast hn] at this; linarith

theorem gt_of_R64_gt_int {z : ℚ} {n : ℤ} (hn : |n| < 2^53) (h : (n : ℚ) < R64 z) : (n : ℚ) < z := by
  by_contra hge
  have := R64_mono (not_lt.mp hge)
  rw [R64_intCast hn] at this; linarith

/-- **range of the unsigned normal form over every f32 with |x| ≤ 2^20** -/
theorem normU64_range_all : ∀ x : Float, IsFin x → |v x| ≤ 2^20 →
    -(ulp64 (v x)) - 360 * 2^(-1074 : ℤ) ≤ v (normU64 x) ∧ v (normU64 x) ≤ 360 := by
  intro x hx hb
  obtain ⟨_, hv, hkb⟩ := normU64_closed_form hx hb
  set X := v x with hX
  set k := ⌊R64 (X / 360)⌋ with hk
  rw [hv]
  constructor
  · -- lower bound
    by_cases hcase : (k : ℚ) ≤ X / 360
    · have h0 : 0 ≤ X - 360 * k := by rw [le_div_iff₀ (by norm_num)] at hcase; linarith
      have := R_nonneg (p := 53) (emin := -1074) h0
      have hu := ulp_pos (p := 53) (emin := -1074) X
      have : (0 : ℚ) < 360 * 2^(-1074 : ℤ) := mul_pos (by norm_num) (two_zpow_pos _)
      rw [R64_eq]; linarith
    · rw [not_le] at hcase
      have hXne : X ≠ 0 := by
        rintro h0
        have hQ : R64 (X / 360) = 0 := by rw [h0, zero_div]; exact R_zero
        have : k = 0 := by rw [hk, hQ]; simp
        rw [h0, this] at hcase; simp at hcase
      -- the quotient rounded up to the integer k
      have hQle : R64 (X / 360) ≤ k := by
        have := R64_mono hcase.le
        rwa [R64_intCast (by rw [abs_lt]; have := abs_le.mp hkb; constructor <;> omega)] at this
      have hQge : (k : ℚ) ≤ R64 (X / 360) := Int.floor_le _
      have hQ : R64 (X / 360) = k := le_antisymm hQle hQge
      set t := texp 53 (-1074) (X / 360) with ht
      have herr := R_error (p := 53) (emin := -1074) (X / 360)
      rw [← R64_eq, hQ, ← ht] at herr
      have hdist : 360 * (k : ℚ) - X ≤ 180 * 2^t := by
        have := (abs_le.mp herr).2
        have h2 : (k : ℚ) - X / 360 ≤ 2^t / 2 := this
        have : X / 360 = X * (1 / 360) := by ring
        rw [this] at h2
        linarith
      -- −180·2^t is representable
      have hB : R64 (((-45 : ℤ) : ℚ) * 2^(t + 2)) = ((-45 : ℤ) : ℚ) * 2^(t + 2) :=
        R_fix (p := 53) (emin := -1074) (n := -45) (t := t + 2) (by norm_num)
          (by have := emin_le_texp (p := 53) (emin := -1074) (X / 360); omega)
      have hBval : ((-45 : ℤ) : ℚ) * 2^(t + 2) = -(180 * 2^t) := by
        rw [zpow_add₀ (by norm_num)]; push_cast; ring
      have hge : -(180 * (2 : ℚ)^t) ≤ R64 (X - 360 * k) := by
        rw [← hBval, ← hB]; apply R64_mono; rw [hBval]; linarith
      refine le_trans ?_ hge
      -- 180·2^t ≤ ulp X + 360·2^-1074
      have hu : ulp64 X = 2^(texp 53 (-1074) X) := ulp_of_ne hXne
      rw [hu]
      have hX360 : X / 360 ≠ 0 := div_ne_zero hXne (by norm_num)
      have htdef : t = max (Int.log 2 |X / 360| + 1 - (53 : ℕ)) (-1074) := rfl
      rcases le_total (Int.log 2 |X / 360| + 1 - ((53 : ℕ) : ℤ)) (-1074) with hh | hh
      · rw [max_eq_right hh] at htdef
        rw [htdef]
        have : (0 : ℚ) < 2^(texp 53 (-1074) X) := two_zpow_pos _
        have h149 : (0 : ℚ) < 2^(-1074 : ℤ) := two_zpow_pos _
        linarith
      · rw [max_eq_left hh] at htdef
        have hlog : Int.log 2 |X / 360| ≤ Int.log 2 |X| - 8 := by
          have h1 : |X / 360| ≤ |X| * 2^(-8 : ℤ) := by
            rw [abs_div, div_eq_mul_inv]
            apply mul_le_mul_of_nonneg_left _ (abs_nonneg X)
            norm_num
          have := Int.log_mono_right (b := 2) (abs_pos.mpr hX360) h1
          rwa [intLog_mul_zpow (abs_pos.mpr hXne)] at this
        have htle : t + 8 ≤ texp 53 (-1074) X := by
          unfold texp; exact le_trans (by push_cast at htdef ⊢; omega) (le_max_left _ _)
        have h256 : (2 : ℚ)^t * 256 ≤ 2^(texp 53 (-1074) X) := by
          have := zpow_le_zpow_right₀ (a := (2 : ℚ)) (by norm_num) htle
          rw [zpow_add₀ (by norm_num)] at this
          norm_num at this; linarith
        have h149 : (0 : ℚ) < 360 * 2^(-1074 : ℤ) := mul_pos (by norm_num) (two_zpow_pos _)
        have h2t := two_zpow_pos t
        linarith
  · -- upper bound
    have hlt : R64 (X / 360) < ((k + 1 : ℤ) : ℚ) := by push_cast; exact Int.lt_floor_add_one _
    have := lt_of_R64_lt_int (by rw [abs_lt]; have := abs_le.mp hkb; constructor <;> omega) hlt
    have hX : X - 360 * k ≤ 360 := by
      rw [div_lt_iff₀ (by norm_num)] at this; push_cast at this; linarith
    have := R64_mono hX
    rwa [show (360 : ℚ) = ((360 : ℕ) : ℚ) by norm_num, R64_natCast (by norm_num)] at this

/-- **the signed normal form is never below −180** (every f32 with |x| ≤ 2^20; no tolerance) -/
theorem normS64_lower_all : ∀ x : Float, IsFin x → |v x| ≤ 2^20 → -180 ≤ v (normS64 x) := by
  intro x hx hb
  obtain ⟨_, hv, hkb⟩ := normS64_closed_form hx hb
  set X := v x with hX
  set k := ⌈R64 (R64 (R64 (X + 180) / 360) - 1)⌉ with hk
  rw [hv]
  -- k − 1 < Y3  ⟹ … ⟹  360k < X + 180
  have h3 : ((k - 1 : ℤ) : ℚ) < R64 (R64 (R64 (X + 180) / 360) - 1) := by
    have := Int.ceil_lt_add_one (R64 (R64 (R64 (X + 180) / 360) - 1))
    push_cast; linarith
  have hkb' := abs_le.mp hkb
  have h2 := gt_of_R64_gt_int (by rw [abs_lt]; constructor <;> omega) h3
  have h2' : ((k : ℤ) : ℚ) < R64 (R64 (X + 180) / 360) := by push_cast at h2; linarith
  have h1 := gt_of_R64_gt_int (by rw [abs_lt]; constructor <;> omega) h2'
  have h1' : ((360 * k : ℤ) : ℚ) < R64 (X + 180) := by
    rw [lt_div_iff₀ (by norm_num)] at h1; push_cast; linarith
  have h0 := gt_of_R64_gt_int (by rw [abs_lt]; constructor <;> omega) h1'
  have hge : (-180 : ℚ) ≤ X - 360 * k := by push_cast at h0; linarith
  have := R64_mono hge
  rwa [show (-180 : ℚ) = ((-180 : ℤ) : ℚ) by norm_num, R64_intCast (by norm_num)] at this

end C11
