/-
  C16 — the XYZ round trip for cone responses of any sign, on the exact domain of CAM16.

  `Adapt::run` is odd (`sgn(c)·400·x/(x + 27.13)`, `x = (F_L|c|/100)^0.42`), strictly inside (−400, 400), and `Unadapt::run`
  with the baked constant and exponent inverts it for every real cone response (`unadapt_adapt`).  The opponent stage of the
  inverse needs exactly two sign conditions on the adapted responses `R_a, G_a, B_a`:
      `0 ≤ 2R_a + G_a + 0.05B_a`   (achromatic signal: `J_root = (A/A_w)^(cz/2)` is a real power only of a non-negative base) and
      `0 < R_a + G_a + 1.05B_a + 0.305`   (the denominator of `t`: `t^0.9` likewise),
  collected in `InDomain`.  `roundtrip_core` proves the `(J_root, α, h_rad)` round trip there, with the hypotheses on the baked
  parameters reduced to `Positive p` (which `C16_Cam16Params.prepare_positive` derives from the raw viewing conditions), so
  `roundtrip_core_raw` has hypotheses on the RAW parameters and the colour only.  That the domain is exact — outside it the
  forward model is NaN — is `C16_Cam16Defined.forward_defined_iff` with a concrete witness there.
-/
import PaletteProofs.C16_Cam16Params

namespace C16
open Cam16

/-! ### `signum`, `adapt`, `unadapt` on all of ℝ -/

theorem signum_zero : signum (0:ℝ) = 1.0 := by
  unfold signum
  rw [if_neg (by norm_num), if_neg (by norm_num), if_neg (by norm_num)]

/-- the magnitude of `Adapt::run`: `400·y/(y + 27.13)` with `y = (F_L·|x|·0.01)^0.42` -/
noncomputable def adaptMag (fL x : ℝ) : ℝ := 400 * (fL * |x| * 0.01) ^ (0.42:ℝ) / ((fL * |x| * 0.01) ^ (0.42:ℝ) + 27.13)

theorem adaptRun_eq_signum_mag (fL x : ℝ) : adaptRun fL x = signum x * adaptMag fL x := by
  simp only [adaptRun, adaptMag, K.adapt_0, K.adapt_1, K.adapt_2, K.adapt_3, RealScalar.powf_eq, RealScalar.abs_eq]
  norm_num; ring

theorem adaptMag_neg (fL x : ℝ) : adaptMag fL (-x) = adaptMag fL x := by
  unfold adaptMag; rw [abs_neg]

/-- **`adapt` is odd** -/
theorem adaptRun_neg (fL x : ℝ) : adaptRun fL (-x) = -adaptRun fL x := by
  rw [adaptRun_eq_signum_mag, adaptRun_eq_signum_mag, adaptMag_neg]
  rcases lt_trichotomy x 0 with h | h | h
  · rw [signum_neg h, signum_pos (neg_pos.mpr h)]; norm_num
  · subst h
    have : adaptMag fL 0 = 0 := by
      unfold adaptMag; rw [abs_zero, mul_zero, zero_mul, Real.zero_rpow (by norm_num)]; simp
    rw [neg_zero, this]; simp
  · rw [signum_pos h, signum_neg (neg_neg_of_pos h)]; norm_num

/-- **`|adapt(x)| < 400`** and `adapt` keeps the sign, for every real cone response -/
theorem adaptRun_range {fL : ℝ} (hf : 0 < fL) (x : ℝ) :
    |adaptRun fL x| < 400 ∧ (0 < x → 0 < adaptRun fL x) ∧ (x < 0 → adaptRun fL x < 0) ∧ (x = 0 → adaptRun fL x = 0) := by
  refine ⟨?_, fun h => (adaptRun_pos_range hf h).1, ?_, fun h => by rw [h]; exact adaptRun_zero fL⟩
  · rcases lt_trichotomy x 0 with h | h | h
    · have := adaptRun_pos_range hf (neg_pos.mpr h)
      rw [adaptRun_neg] at this
      rw [abs_lt]; constructor <;> linarith [this.1, this.2]
    · rw [h, adaptRun_zero]; norm_num
    · have := adaptRun_pos_range hf h
      rw [abs_lt]; constructor <;> linarith [this.1, this.2]
  · intro h
    have := adaptRun_pos_range hf (neg_pos.mpr h)
    rw [adaptRun_neg] at this
    linarith [this.1]

/-- **`unadapt` is odd** -/
theorem unadaptRun_neg (k e r : ℝ) (he : e ≠ 0) : unadaptRun k e (-r) = -unadaptRun k e r := by
  simp only [unadaptRun, K.unadapt_0, RealScalar.powf_eq, RealScalar.abs_eq, abs_neg]
  rcases lt_trichotomy r 0 with h | h | h
  · rw [signum_neg h, signum_pos (neg_pos.mpr h)]; norm_num
  · subst h
    rw [neg_zero, abs_zero, zero_div, Real.zero_rpow he]; simp
  · rw [signum_pos h, signum_neg (neg_neg_of_pos h)]; norm_num

theorem unadaptRun_zero (k e : ℝ) (he : e ≠ 0) : unadaptRun k e 0 = 0 := by
  simp only [unadaptRun, K.unadapt_0, RealScalar.powf_eq, RealScalar.abs_eq, abs_zero, zero_div, Real.zero_rpow he, mul_zero]

/-- **`unadapt ∘ adapt = id` on every real cone response** (positive, zero, negative), with the constant and exponent
    `prepare_parameters` bakes -/
theorem unadapt_adapt {fL : ℝ} (hf : 0 < fL) (x : ℝ) :
    unadaptRun (100.0 / fL * (27.13:ℝ) ^ ((1.0:ℝ) / 0.42)) ((1.0:ℝ) / 0.42) (adaptRun fL x) = x := by
  have he : ((1.0:ℝ) / 0.42) ≠ 0 := by norm_num
  rcases lt_trichotomy x 0 with h | h | h
  · have := unadapt_adapt_pos hf (neg_pos.mpr h)
    rw [adaptRun_neg, unadaptRun_neg _ _ _ he] at this
    linarith
  · rw [h, adaptRun_zero, unadaptRun_zero _ _ he]
  · exact unadapt_adapt_pos hf h

/-- value of `Unadapt::run` on a positive adapted response -/
theorem unadaptRun_pos (k e : ℝ) {r : ℝ} (hr : 0 < r) : unadaptRun k e r = k * (r / (400 - r)) ^ e := by
  simp only [unadaptRun, signum_pos hr, K.unadapt_0, RealScalar.powf_eq, RealScalar.abs_eq, abs_of_pos hr]
  norm_num

/-- **`adapt ∘ unadapt = id` on (0, 400)** -/
theorem adapt_unadapt_pos {fL : ℝ} (hf : 0 < fL) {r : ℝ} (h0 : 0 < r) (h1 : r < 400) :
    adaptRun fL (unadaptRun (100.0 / fL * (27.13:ℝ) ^ ((1.0:ℝ) / 0.42)) ((1.0:ℝ) / 0.42) r) = r := by
  rw [unadaptRun_pos _ _ h0]
  have hq : 0 < r / (400 - r) := div_pos h0 (by linarith)
  have hw : (0:ℝ) < (27.13:ℝ) ^ ((1.0:ℝ) / 0.42) := Real.rpow_pos_of_pos (by norm_num) _
  have hu : 0 < (r / (400 - r)) ^ ((1.0:ℝ) / 0.42) := Real.rpow_pos_of_pos hq _
  have hx : 0 < 100.0 / fL * (27.13:ℝ) ^ ((1.0:ℝ) / 0.42) * (r / (400 - r)) ^ ((1.0:ℝ) / 0.42) := by positivity
  rw [adaptRun_pos hx]
  have e1 : fL * (100.0 / fL * (27.13:ℝ) ^ ((1.0:ℝ) / 0.42) * (r / (400 - r)) ^ ((1.0:ℝ) / 0.42)) * 0.01
      = (27.13 * (r / (400 - r))) ^ ((1.0:ℝ) / 0.42) := by
    rw [Real.mul_rpow (by norm_num) hq.le]
    field_simp
    norm_num
  have e2 : ((27.13 * (r / (400 - r))) ^ ((1.0:ℝ) / 0.42)) ^ (0.42:ℝ) = 27.13 * (r / (400 - r)) := by
    rw [← Real.rpow_mul (by positivity)]; norm_num
  rw [e1, e2]
  have hd : (400:ℝ) - r ≠ 0 := by linarith
  field_simp
  ring

/-- **`adapt ∘ unadapt = id` on (−400, 400)**: the two are mutually inverse bijections ℝ ↔ (−400, 400) -/
theorem adapt_unadapt {fL : ℝ} (hf : 0 < fL) {r : ℝ} (h : |r| < 400) :
    adaptRun fL (unadaptRun (100.0 / fL * (27.13:ℝ) ^ ((1.0:ℝ) / 0.42)) ((1.0:ℝ) / 0.42) r) = r := by
  have he : ((1.0:ℝ) / 0.42) ≠ 0 := by norm_num
  obtain ⟨hl, hu⟩ := abs_lt.mp h
  rcases lt_trichotomy r 0 with h0 | h0 | h0
  · have := adapt_unadapt_pos hf (neg_pos.mpr h0) (by linarith)
    rw [unadaptRun_neg _ _ _ he, adaptRun_neg] at this
    linarith
  · rw [h0, unadaptRun_zero _ _ he, adaptRun_zero]
  · exact adapt_unadapt_pos hf h0 hu

/-- non-vacuity / sanity: a negative response really is mapped to a negative adapted response and back -/
example : unadaptRun (100.0 / 1 * (27.13:ℝ) ^ ((1.0:ℝ) / 0.42)) ((1.0:ℝ) / 0.42) (adaptRun 1 (-3)) = -3 := unadapt_adapt (by norm_num) _

/-! ### the opponent stage on the exact domain -/

/-- **inverse of the opponent stage, any sign**: from the `J_root`, `α` and hue angle the forward model derives from adapted
    responses `R, G, B` with `0 ≤ 2R + G + 0.05B` and `0 < R + G + 1.05B + 0.305`, `non_black_cam16_to_xyz` recovers exactly
    `R, G, B` (positive viewing-condition parameters) -/
theorem inverseOpponent_of_adapted_dom (p : Dep ℝ) (R G B : ℝ) (hA : 0 ≤ 2.0 * R + G + 0.05 * B) (hden : 0 < R + G + 1.05 * B + 0.305)
    (hnbb : 0 < p.nBb) (haw : 0 < p.aW) (hc : 0 < p.c) (hz : 0 < p.z) (hnc : 0 < p.nC) (hncb : 0 < p.nCb)
    (hk : 0 < 1.64 - (0.29:ℝ) ^ p.n) :
    inverseOpponent ((p.nBb * (2.0 * R + G + 0.05 * B) / p.aW) ^ (0.5 * p.c * p.z))
      ((5e4 / 13.0 * p.nC * p.nCb * (0.25 * (Real.cos (Complex.arg ⟨R + (-12.0 * G + B) / 11.0, (R + G - 2.0 * B) / 9.0⟩ + 2.0) + 3.8))
          * Real.sqrt ((R + (-12.0 * G + B) / 11.0) * (R + (-12.0 * G + B) / 11.0) + (R + G - 2.0 * B) / 9.0 * ((R + G - 2.0 * B) / 9.0))
          / (R + G + 1.05 * B + 0.305)) ^ (0.9:ℝ) * (1.64 - (0.29:ℝ) ^ p.n) ^ (0.73:ℝ))
      (Complex.arg ⟨R + (-12.0 * G + B) / 11.0, (R + G - 2.0 * B) / 9.0⟩) p = ⟨R, G, B⟩ := by
  obtain ⟨hcos, hsin⟩ := cos_sin_arg_mul (R + (-12.0 * G + B) / 11.0) ((R + G - 2.0 * B) / 9.0)
  set a := R + (-12.0 * G + B) / 11.0 with ha
  set b := (R + G - 2.0 * B) / 9.0 with hb
  set θ := Complex.arg ⟨a, b⟩ with hθ
  set rho := Real.sqrt (a * a + b * b) with hrho
  have het : 0 < 0.25 * (Real.cos (θ + 2.0) + 3.8) := by
    have := Real.neg_one_le_cos (θ + 2.0)
    have : (0:ℝ) < Real.cos (θ + 2.0) + 3.8 := by norm_num; linarith
    positivity
  set et := 0.25 * (Real.cos (θ + 2.0) + 3.8) with het'
  have hp1 : 0 < 5e4 / 13.0 * p.nC * p.nCb * et := by positivity
  set p1 := 5e4 / 13.0 * p.nC * p.nCb * et with hp1'
  have hT : 0 ≤ p1 * rho / (R + G + 1.05 * B + 0.305) := by
    have : 0 ≤ rho := Real.sqrt_nonneg _
    positivity
  have hAq : 0 ≤ p.nBb * (2.0 * R + G + 0.05 * B) / p.aW := div_nonneg (mul_nonneg hnbb.le hA) haw.le
  simp only [inverseOpponent, K.nonBlack_0, K.nonBlack_1, K.nonBlack_2, K.nonBlack_3, K.nonBlack_4, K.nonBlack_5, K.nonBlack_6, K.nonBlack_7, K.nonBlack_8, K.nonBlack_9,
    K.nonBlack_10, K.nonBlack_11, K.nonBlack_12, K.nonBlack_13, K.nonBlack_14, K.nonBlack_15, K.nonBlack_16, K.nonBlack_17, K.nonBlack_18, K.nonBlack_19, K.nonBlack_20,
    K.nonBlack_21, K.nonBlack_22, K.nonBlack_23, K.nonBlack_24, K.nonBlack_25,
    RealScalar.powf_eq, RealScalar.cos_eq, RealScalar.sin_eq]
  rw [t_recover hT hk, a_recover hAq haw.ne' hc.ne' hz.ne', mul_div_cancel_left₀ _ hnbb.ne', ← het', ← hp1']
  have hpp : (0.305:ℝ) + (2.0 * R + G + 0.05 * B) ≠ 0 := by
    have : (0:ℝ) < 0.305 + (2.0 * R + G + 0.05 * B) := by linarith
    exact this.ne'
  rw [r_recover hp1.ne' hden.ne' hpp hcos hsin, hcos, hsin]
  obtain ⟨e1, e2, e3⟩ := opponent_linear R G B
  simp only [← ha, ← hb] at e1 e2 e3
  rw [e1, e2, e3]

/-- the achromatic signal `2R_a + G_a + 0.05B_a` of the forward model (its sign is the sign of the achromatic response `A`) -/
noncomputable def achromaticSignal (w : Fwd ℝ) : ℝ := 2.0 * w.rA + w.gA + 0.05 * w.bA
/-- the denominator of `t` in the forward model -/
noncomputable def tDenominator (w : Fwd ℝ) : ℝ := w.rA + w.gA + 1.05 * w.bA + 0.305

/-- **the domain of CAM16** for a colour under given baked parameters: non-negative achromatic signal, positive denominator of `t` -/
structure InDomain (xyz : V3 ℝ) (p : Dep ℝ) : Prop where
  achromatic : 0 ≤ achromaticSignal (forward xyz p)
  denom : 0 < tDenominator (forward xyz p)

/-- positive adapted cone responses are inside the domain (the case `roundtrip_core_partial` covered) -/
theorem inDomain_of_pos {xyz : V3 ℝ} {p : Dep ℝ} (hf : 0 < p.adaptFL)
    (h0 : 0 < (coneAdapted xyz p).c0) (h1 : 0 < (coneAdapted xyz p).c1) (h2 : 0 < (coneAdapted xyz p).c2) : InDomain xyz p := by
  obtain ⟨e0, e1, e2⟩ := forward_adapted xyz p
  have hR := (adaptRun_pos_range hf h0).1
  have hG := (adaptRun_pos_range hf h1).1
  have hB := (adaptRun_pos_range hf h2).1
  constructor
  · simp only [achromaticSignal, e0, e1, e2]; positivity
  · simp only [tDenominator, e0, e1, e2]; positivity

/-- second stage of the inverse for responses of any sign -/
theorem inverseFromAdapted_adapt_signed (xyz : V3 ℝ) (p : Dep ℝ) (hb : Baked p) (hf : 0 < p.adaptFL)
    (hd0 : p.dRgb.c0 ≠ 0) (hd1 : p.dRgb.c1 ≠ 0) (hd2 : p.dRgb.c2 ≠ 0) :
    inverseFromAdapted ⟨adaptRun p.adaptFL (coneAdapted xyz p).c0, adaptRun p.adaptFL (coneAdapted xyz p).c1, adaptRun p.adaptFL (coneAdapted xyz p).c2⟩ p
      = ⟨(m16Inv (m16 ⟨xyz.c0 * 100.0, xyz.c1 * 100.0, xyz.c2 * 100.0⟩)).c0 / 100.0,
         (m16Inv (m16 ⟨xyz.c0 * 100.0, xyz.c1 * 100.0, xyz.c2 * 100.0⟩)).c1 / 100.0,
         (m16Inv (m16 ⟨xyz.c0 * 100.0, xyz.c1 * 100.0, xyz.c2 * 100.0⟩)).c2 / 100.0⟩ := by
  obtain ⟨hinv, hexp, hconst⟩ := hb
  simp only [inverseFromAdapted, map3, K.nonBlack_26, hexp, hconst, unadapt_adapt hf, hinv]
  have e : mul3 (coneAdapted xyz p) ⟨1.0 / p.dRgb.c0, 1.0 / p.dRgb.c1, 1.0 / p.dRgb.c2⟩ = m16 ⟨xyz.c0 * 100.0, xyz.c1 * 100.0, xyz.c2 * 100.0⟩ := by
    simp only [coneAdapted, mul3]
    generalize m16 (⟨xyz.c0 * 100.0, xyz.c1 * 100.0, xyz.c2 * 100.0⟩ : V3 ℝ) = m
    cases m; simp only []; congr 1 <;> (field_simp; norm_num)
  simp only [mul3] at e ⊢
  rw [e]

/-- what the inverse returns when every stage inverts exactly: `M16⁻¹(M16(100·xyz))/100` with the two extracted tables, which are
    inverse to each other within 1e-15 per coefficient (`m16Inv_m16_close`) -/
noncomputable def throughTables (xyz : V3 ℝ) : V3 ℝ :=
  ⟨(m16Inv (m16 ⟨xyz.c0 * 100.0, xyz.c1 * 100.0, xyz.c2 * 100.0⟩)).c0 / 100.0,
   (m16Inv (m16 ⟨xyz.c0 * 100.0, xyz.c1 * 100.0, xyz.c2 * 100.0⟩)).c1 / 100.0,
   (m16Inv (m16 ⟨xyz.c0 * 100.0, xyz.c1 * 100.0, xyz.c2 * 100.0⟩)).c2 / 100.0⟩

theorem lin_bound {a b c x y z ε : ℝ} (ha : |a| ≤ ε) (hb : |b| ≤ ε) (hc : |c| ≤ ε) :
    |a * x + b * y + c * z| ≤ ε * (|x| + |y| + |z|) := by
  have h1 : |a * x| ≤ ε * |x| := by rw [abs_mul]; exact mul_le_mul_of_nonneg_right ha (abs_nonneg x)
  have h2 : |b * y| ≤ ε * |y| := by rw [abs_mul]; exact mul_le_mul_of_nonneg_right hb (abs_nonneg y)
  have h3 : |c * z| ≤ ε * |z| := by rw [abs_mul]; exact mul_le_mul_of_nonneg_right hc (abs_nonneg z)
  calc |a * x + b * y + c * z| ≤ |a * x + b * y| + |c * z| := abs_add_le _ _
    _ ≤ |a * x| + |b * y| + |c * z| := by have := abs_add_le (a * x) (b * y); linarith
    _ ≤ ε * (|x| + |y| + |z|) := by linarith

/-- **how far `M16⁻¹(M16(100·xyz))/100` is from `xyz`**: at most `1e-15·(|X| + |Y| + |Z|)` per component — the whole gap between the
    exact round trips below and the identity, owed to the 16 printed digits of palette's inverse table -/
theorem throughTables_close (xyz : V3 ℝ) :
    |(throughTables xyz).c0 - xyz.c0| ≤ 1e-15 * (|xyz.c0| + |xyz.c1| + |xyz.c2|) ∧
    |(throughTables xyz).c1 - xyz.c1| ≤ 1e-15 * (|xyz.c0| + |xyz.c1| + |xyz.c2|) ∧
    |(throughTables xyz).c2 - xyz.c2| ≤ 1e-15 * (|xyz.c0| + |xyz.c1| + |xyz.c2|) := by
  obtain ⟨h00, h01, h02, h10, h11, h12, h20, h21, h22⟩ := m16Inv_m16_close
  obtain ⟨x, y, z⟩ := xyz
  have e0 : (throughTables ⟨x, y, z⟩).c0 - x
      = ((m16Inv (m16 (⟨1, 0, 0⟩ : V3 ℝ))).c0 - 1) * x + (m16Inv (m16 (⟨0, 1, 0⟩ : V3 ℝ))).c0 * y + (m16Inv (m16 (⟨0, 0, 1⟩ : V3 ℝ))).c0 * z := by
    simp only [throughTables, m16_eq, m16Inv_eq]; sring
  have e1 : (throughTables ⟨x, y, z⟩).c1 - y
      = (m16Inv (m16 (⟨1, 0, 0⟩ : V3 ℝ))).c1 * x + ((m16Inv (m16 (⟨0, 1, 0⟩ : V3 ℝ))).c1 - 1) * y + (m16Inv (m16 (⟨0, 0, 1⟩ : V3 ℝ))).c1 * z := by
    simp only [throughTables, m16_eq, m16Inv_eq]; sring
  have e2 : (throughTables ⟨x, y, z⟩).c2 - z
      = (m16Inv (m16 (⟨1, 0, 0⟩ : V3 ℝ))).c2 * x + (m16Inv (m16 (⟨0, 1, 0⟩ : V3 ℝ))).c2 * y + ((m16Inv (m16 (⟨0, 0, 1⟩ : V3 ℝ))).c2 - 1) * z := by
    simp only [throughTables, m16_eq, m16Inv_eq]; sring
  simp only []
  rw [e0, e1, e2]
  exact ⟨lin_bound h00 h10 h20, lin_bound h01 h11 h21, lin_bound h02 h12 h22⟩

/-- the opponent stage of the inverse returns the adapted responses of the forward model, on the whole domain -/
theorem inverseOpponent_forward (xyz : V3 ℝ) (p : Dep ℝ) (P : Positive p) (D : InDomain xyz p) :
    inverseOpponent (forward xyz p).jRoot (forward xyz p).alpha (forward xyz p).hRad p
      = ⟨(forward xyz p).rA, (forward xyz p).gA, (forward xyz p).bA⟩ := by
  have hc : 0 < p.c := by have := P.c_lo; linarith
  have hz : 0 < p.z := by have := P.z; linarith
  have hnc : 0 < p.nC := by have := P.nC_lo; linarith
  have key := inverseOpponent_of_adapted_dom p (forward xyz p).rA (forward xyz p).gA (forward xyz p).bA D.achromatic D.denom
    P.nBb P.aW hc hz hnc P.nCb P.k
  rw [← key]
  simp only [forward, map3, mul3, K.xyzToCam16_0, K.xyzToCam16_1, K.xyzToCam16_2, K.xyzToCam16_3, K.xyzToCam16_4, K.xyzToCam16_5, K.xyzToCam16_6, K.xyzToCam16_7, K.xyzToCam16_8,
    K.xyzToCam16_9, K.xyzToCam16_10, K.xyzToCam16_11, K.xyzToCam16_12, K.xyzToCam16_13, K.xyzToCam16_14, K.xyzToCam16_15, K.xyzToCam16_16, K.xyzToCam16_17, K.xyzToCam16_18,
    RealScalar.powf_eq, RealScalar.sqrt_eq, RealScalar.cos_eq, RealScalar.atan2_eq]

/-- **XYZ → (J_root, α, h_rad) → XYZ on the whole domain of CAM16, cone responses of any sign**: `non_black_cam16_to_xyz` fed with
    the quantities `xyz_to_cam16` derives returns `M16⁻¹(M16(100·xyz))/100`.  Hypotheses: the baked parameters are positive
    (derived from the raw viewing conditions by `prepare_positive`) and the colour is in the domain `InDomain`. -/
theorem roundtrip_core (xyz : V3 ℝ) (p : Dep ℝ) (P : Positive p) (D : InDomain xyz p) :
    inverseCore (forward xyz p).jRoot (forward xyz p).alpha (forward xyz p).hRad p = throughTables xyz := by
  unfold inverseCore
  rw [inverseOpponent_forward xyz p P D]
  obtain ⟨e0, e1, e2⟩ := forward_adapted xyz p
  rw [e0, e1, e2]
  exact inverseFromAdapted_adapt_signed xyz p P.baked P.fL P.d0.ne' P.d1.ne' P.d2.ne'

/-- **the same with hypotheses on the RAW viewing conditions only** -/
theorem roundtrip_core_raw (xyz : V3 ℝ) (prm : Parameters ℝ) (v : ValidRaw prm) (D : InDomain xyz (prepareParameters prm)) :
    inverseCore (forward xyz (prepareParameters prm)).jRoot (forward xyz (prepareParameters prm)).alpha
      (forward xyz (prepareParameters prm)).hRad (prepareParameters prm) = throughTables xyz :=
  roundtrip_core xyz _ (prepare_positive v) D

/-- the earlier theorem, now without a single hypothesis on the baked parameters: positive cone responses under valid raw
    viewing conditions -/
theorem roundtrip_core_pos_raw (xyz : V3 ℝ) (prm : Parameters ℝ) (v : ValidRaw prm)
    (h0 : 0 < (m16 xyz).c0) (h1 : 0 < (m16 xyz).c1) (h2 : 0 < (m16 xyz).c2) :
    inverseCore (forward xyz (prepareParameters prm)).jRoot (forward xyz (prepareParameters prm)).alpha
      (forward xyz (prepareParameters prm)).hRad (prepareParameters prm) = throughTables xyz := by
  have P := prepare_positive v
  have e : m16 xyz = m16 ⟨xyz.c0, xyz.c1, xyz.c2⟩ := rfl
  rw [e, m16_eq] at h0 h1 h2
  simp only [] at h0 h1 h2
  refine roundtrip_core_raw xyz prm v (inDomain_of_pos P.fL ?_ ?_ ?_)
  · simp only [coneAdapted, mul3, m16_eq]; apply mul_pos _ P.d0; nlinarith
  · simp only [coneAdapted, mul3, m16_eq]; apply mul_pos _ P.d1; nlinarith
  · simp only [coneAdapted, mul3, m16_eq]; apply mul_pos _ P.d2; nlinarith

end C16
