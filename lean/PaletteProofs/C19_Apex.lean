/-
  C19 — the finding `C19-bicone-apex-cancellation`, at ℝ: sensitivity of the bicone height sampler near the upper apex.

  `new` hands rand the CDF value `F(high) = (high-1)³·4 + 1` of the high lightness end.  Near the apex (`high = 1 - d`, `d` small) this value
  is `1 - 4d³`, next to 1.0, so in floating point it carries an ABSOLUTE error `δ` of the order of the spacing at 1 (f32: up to 2⁻²⁵ from the
  final addition alone), not a relative one.  The theorems below say what such an error does in EXACT arithmetic afterwards (exact `cbrt`,
  exact draws): the largest lightness the sampler can return is `1 - d + e` with

      e · (12d² - 12de + 4e²) = δ        (`bicone_apex_excursion`, an identity),   hence   δ/(12d²) ≤ e ≤ δ/(4d²),

  and `e ≤ δ/(9d²)` as soon as `δ ≤ d³`  — the "slope 1/(12 d²)" of the level note, with explicit constants.  For `δ = 0` (ℝ) `e = 0`:
  containment holds.  With `δ ≈ eps/4` and `d < 0.07` (f32) the excursion `≈ eps/(48 d²)` exceeds the oracle's fixed slack 2⁻²⁰: the float
  violation is inherent in handing rand a rounded CDF value, whatever the accuracy of `cbrt`.
  NOT proved here: a bound on `δ` for the f32/f64 evaluation of `invert_bicone_height_sample` and for rand's own arithmetic (oracle only).
-/
import PaletteProofs.C19_Sampling

namespace C19
open Sampling Gen.Sampling

theorem invertBicone_apex {d : ℝ} (hd : d ≤ 1/2) : invertBiconeHeight (1 - d) = 1 - 4 * d ^ 3 := by
  rcases hd.eq_or_lt with e | hlt
  · subst e; rw [invertBicone_lo (by norm_num), powi3_eq]; norm_num
  · rw [invertBicone_hi (by norm_num; linarith), powi3_eq]; norm_num; ring

/-- **exact sensitivity.**  `high = 1 - d` with `d ≤ 1/2`; rand is handed `F(high) + δ` with `0 ≤ δ ≤ 4d³` (so the value stays `≤ 1`).
    The largest reachable lightness exceeds `high` by `e ∈ [0, d]` with `e·(12d² - 12de + 4e²) = δ`. -/
theorem bicone_apex_excursion {d δ : ℝ} (hd : d ≤ 1/2) (hδ0 : 0 ≤ δ) (hδ : δ ≤ 4 * d ^ 3) :
    0 ≤ biconeHeight (invertBiconeHeight (1 - d) + δ) - (1 - d) ∧
    biconeHeight (invertBiconeHeight (1 - d) + δ) - (1 - d) ≤ d ∧
    (biconeHeight (invertBiconeHeight (1 - d) + δ) - (1 - d)) *
      (12 * d ^ 2 - 12 * d * (biconeHeight (invertBiconeHeight (1 - d) + δ) - (1 - d)) +
        4 * (biconeHeight (invertBiconeHeight (1 - d) + δ) - (1 - d)) ^ 2) = δ := by
  set u := biconeHeight (invertBiconeHeight (1 - d) + δ) with hu
  have hF : invertBiconeHeight u = invertBiconeHeight (1 - d) + δ := invert_biconeHeight _
  have o : invertBiconeHeight (1:ℝ) = 1 := by rw [invertBicone_hi (by norm_num), powi3_eq]; norm_num
  have hb := bicone_height_contained (lLo := 1 - d) (lHi := 1) (d := invertBiconeHeight (1 - d) + δ) (by linarith)
    (by rw [o, invertBicone_apex hd]; linarith)
  rw [← hu] at hb
  have hu2 : invertBiconeHeight u = (u - 1) ^ 3 * 4 + 1 := by
    rcases (show (1:ℝ)/2 ≤ u by linarith [hb.1]).eq_or_lt with e | hlt
    · rw [← e, invertBicone_lo (by norm_num), powi3_eq]; norm_num
    · rw [invertBicone_hi (by norm_num; linarith), powi3_eq]; norm_num
  rw [hu2, invertBicone_apex hd] at hF
  refine ⟨by linarith [hb.1], by linarith [hb.2], ?_⟩
  have : (u - (1 - d)) * (12 * d ^ 2 - 12 * d * (u - (1 - d)) + 4 * (u - (1 - d)) ^ 2) = 4 * ((u - 1) ^ 3 + d ^ 3) := by ring
  rw [this]; linarith

/-- **first-order form with explicit constants**: `δ/(12d²) ≤ e ≤ δ/(4d²)`, and `e ≤ δ/(9d²)` when `δ ≤ d³` -/
theorem bicone_apex_excursion_bounds {d δ : ℝ} (hd0 : 0 < d) (hd : d ≤ 1/2) (hδ0 : 0 ≤ δ) (hδ : δ ≤ 4 * d ^ 3) :
    δ / (12 * d ^ 2) ≤ biconeHeight (invertBiconeHeight (1 - d) + δ) - (1 - d) ∧
    biconeHeight (invertBiconeHeight (1 - d) + δ) - (1 - d) ≤ δ / (4 * d ^ 2) ∧
    (δ ≤ d ^ 3 → biconeHeight (invertBiconeHeight (1 - d) + δ) - (1 - d) ≤ δ / (9 * d ^ 2)) := by
  obtain ⟨h0, h1, h2⟩ := bicone_apex_excursion hd hδ0 hδ
  set e := biconeHeight (invertBiconeHeight (1 - d) + δ) - (1 - d) with he
  have hd2 : 0 < d ^ 2 := by positivity
  have hq1 : 12 * d ^ 2 - 12 * d * e + 4 * e ^ 2 ≤ 12 * d ^ 2 := by nlinarith
  have hq2 : 4 * d ^ 2 ≤ 12 * d ^ 2 - 12 * d * e + 4 * e ^ 2 := by nlinarith
  have up : e ≤ δ / (4 * d ^ 2) := by
    rw [le_div_iff₀ (by positivity)]; nlinarith
  refine ⟨?_, up, ?_⟩
  · rw [div_le_iff₀ (by positivity)]; nlinarith
  · intro hsmall
    have he4 : e ≤ d / 4 := by
      have : δ / (4 * d ^ 2) ≤ d / 4 := by
        rw [div_le_div_iff₀ (by positivity) (by norm_num)]; nlinarith
      linarith
    have hq3 : 9 * d ^ 2 ≤ 12 * d ^ 2 - 12 * d * e + 4 * e ^ 2 := by nlinarith
    rw [le_div_iff₀ (by positivity)]; nlinarith

/-- at ℝ (no rounding, `δ = 0`) the highest reachable lightness is the high end itself -/
theorem bicone_apex_exact (d : ℝ) :
    biconeHeight (invertBiconeHeight (1 - d)) = 1 - d := biconeHeight_invert _

/-- non-vacuity and the size of the effect: `d = 1/16`, `δ = 2⁻²⁵` (half a unit in the last place of f32 at 1) moves the upper limit by at
    least `2⁻²⁵/(12/256) > 6·10⁻⁷`, two thirds of the oracle's slack 2⁻²⁰ — and by more for smaller `d` -/
example : (2:ℝ)^(-25:ℤ) / (12 * (1/16) ^ 2) ≤
    biconeHeight (invertBiconeHeight (1 - 1/16) + (2:ℝ)^(-25:ℤ)) - (1 - 1/16) :=
  (bicone_apex_excursion_bounds (d := 1/16) (δ := (2:ℝ)^(-25:ℤ)) (by norm_num) (by norm_num) (by positivity) (by norm_num)).1

end C19
