/-
  Tie of the hand-written colour formulas to the *text* of the Rust functions (C01, C02).

  `tools/extract.py` (`gen_bodies`, translator `tools/rust2lean.py`) re-translates the bodies of the conversion functions of
  /repo into `Gen.Body.*` (lean/PaletteModel/Gen/Bodies.lean) on every run.  Each theorem `tie_<name>` below states, for
  every `α` with `[Scalar α]` (hence at `Float`, `Float32` and `ℝ` alike), that the translated body *is* the hand-written
  model function the driver executes and the C01/C02 theorems talk about.  The proofs are `rfl` / unfolding with case
  splits on the branch conditions: they only see through definitions, no law of arithmetic is used (there is none in
  `Scalar`).  A changed coefficient, operand order or comparison in the Rust source therefore makes the corresponding
  `tie_` theorem fail (`broken[proof]`), whatever the sampled correspondence run happens to hit; the hand model and the
  correspondence/oracle run then locate a concrete input.

  `extract.py` refuses to run (`broken[extraction]`) when a registered body is no longer recognised by the translator or
  when a translated body has no `tie_` theorem here (it checks that `tie_<name>` states `Gen.Body.<name> = <model function>`).

  NOT translated, hence still tied to the source by the correspondence run only (full list with reasons: header of
  Gen/Bodies.lean, level_note of C01/C02):
    * `Rgb<S> ↔ Xyz`, `Rgb<S1> ← Rgb<S2>`, `Hsv/Hsl/Hwb<S1> ↔ <S2>`, the Luma and Lms edges, `Rgb ↔ Oklab`
      (`RgbFam.rgbToXyz/xyzToRgb/rgbToRgb/hsvToHsv/hslToHsl/hwbToHwb/luma*`, `Cie.xyzToLms/lmsToXyz`, `Ok.rgbToOklab/oklabToRgb`):
      trait- and `TypeId`-dispatched glue; the parts it glues are tied (matrices: extracted data; `multiply_3x3_and_vec3`; transfer curves);
    * `luv_bounds.rs` (`Cie.luvBounds/maxChromaAtHue/maxChroma`): f64 loops over arrays and `Option`s — it occurs in the two HSLuv
      ties as the same model function on both sides;
    * the per-component-type primitives of `num.rs`/`angle.rs` and the component-wise colour operators (`class Scalar`,
      `class Angle`, PaletteModel/BodyPrim.lean); CAM16 (C16).

  Reading of constants.  The CIE/RGB/transfer models write `T::from_f64(116.0)` as the literal `116.0`, the Ok model writes
  every `T::from_f64(c)` as `Scalar.const c`; the translator follows the convention of the module it is compared with.  The
  two readings are the same value at every instance the machinery uses: `const_lit_float`, `const_lit_float32` below (and
  `RealScalar.const_eq`/`K.eval` at ℝ).
-/
import PaletteModel.Gen.Bodies
import PaletteModel.Color.RgbFamily

namespace Tie
variable {α : Type} [Scalar α]

/-- case analysis on the branch conditions of both sides, projections reduced after every split; every leaf closes by `rfl` -/
macro "tie_cases" : tactic => `(tactic| repeat' (first | rfl | (split <;> try simp only [])))

/-! ### the two spellings of a literal constant agree at the executed types -/
theorem const_lit_float (m : Nat) (s : Bool) (e : Nat) :
    (Scalar.const (K.lit m s e) : Float) = (Scalar.toOfScientific (α := Float)).ofScientific m s e := rfl
/-- at `Float32` the literal is the `Scalar` instance's own `ofScientific` (evaluate in f64, then `as f32`), not core's -/
theorem const_lit_float32 (m : Nat) (s : Bool) (e : Nat) :
    (Scalar.const (K.lit m s e) : Float32) = (Scalar.toOfScientific (α := Float32)).ofScientific m s e := rfl

/-! ### hue helpers (`make_hues!` in hues.rs, `impl_angle_float!` in angle.rs) -/
theorem tie_angleNormalizeUnsigned : @Gen.Body.angleNormalizeUnsigned α _ = RgbFam.normalizeUnsigned := rfl
theorem tie_hueIntoPositiveDegrees : @Gen.Body.hueIntoPositiveDegrees α _ = RgbFam.normalizeUnsigned := rfl

/-! ### CIE family (yxy.rs, xyz.rs, lab.rs, luv.rs) -/
theorem tie_xyzToYxy : @Gen.Body.xyzToYxy α _ = Cie.xyzToYxy := by
  funext c; unfold Gen.Body.xyzToYxy Cie.xyzToYxy; simp only []; tie_cases
theorem tie_yxyToXyz : @Gen.Body.yxyToXyz α _ = Cie.yxyToXyz := by
  funext c; unfold Gen.Body.yxyToXyz Cie.yxyToXyz Prim.v3MulS; simp only []; tie_cases
theorem tie_xyzToLab : @Gen.Body.xyzToLab α _ = Cie.xyzToLab := rfl
theorem tie_labToXyz : @Gen.Body.labToXyz α _ = Cie.labToXyz := rfl
theorem tie_xyzToLuv : @Gen.Body.xyzToLuv α _ = Cie.xyzToLuv := rfl
theorem tie_luvToXyz : @Gen.Body.luvToXyz α _ = Cie.luvToXyz := rfl

/-! ### RGB family (hsv.rs, hsl.rs, hwb.rs, rgb/rgb.rs); `rgbToHsv`/`rgbToHsl` are the `T::Mask == bool` branches,
    `rgbToHsvMask`/`rgbToHslMask` the mask-generic ones -/
theorem tie_rgbToHsv : @Gen.Body.rgbToHsv α _ = RgbFam.rgbToHsv := by
  funext c; unfold Gen.Body.rgbToHsv RgbFam.rgbToHsv RgbFam.maxMinSep RgbFam.max0; simp only []; tie_cases
theorem tie_rgbToHsvMask : @Gen.Body.rgbToHsvMask α _ = RgbFam.rgbToHsvMask := rfl
theorem tie_rgbToHsl : @Gen.Body.rgbToHsl α _ = RgbFam.rgbToHsl := by
  funext c; unfold Gen.Body.rgbToHsl RgbFam.rgbToHsl RgbFam.maxMinSep RgbFam.max0; simp only []; tie_cases
theorem tie_rgbToHslMask : @Gen.Body.rgbToHslMask α _ = RgbFam.rgbToHslMask := rfl
theorem tie_hsvToRgb : @Gen.Body.hsvToRgb α _ = RgbFam.hsvToRgb := rfl
theorem tie_hslToRgb : @Gen.Body.hslToRgb α _ = RgbFam.hslToRgb := rfl
theorem tie_hslToHsv : @Gen.Body.hslToHsv α _ = RgbFam.hslToHsv := rfl
theorem tie_hsvToHsl : @Gen.Body.hsvToHsl α _ = RgbFam.hsvToHsl := by
  funext c; unfold Gen.Body.hsvToHsl RgbFam.hsvToHsl; simp only []
  cases h : Scalar.isValidDivisor c.c2 <;> simp
theorem tie_hsvToHwb : @Gen.Body.hsvToHwb α _ = RgbFam.hsvToHwb := rfl
theorem tie_hwbToHsv : @Gen.Body.hwbToHsv α _ = RgbFam.hwbToHsv := rfl

/-! ### transfer functions (encoding/*.rs) -/
theorem tie_srgbIntoLinear : @Gen.Body.srgbIntoLinear α _ = Transfer.srgbIntoLinear := rfl
theorem tie_srgbFromLinear : @Gen.Body.srgbFromLinear α _ = Transfer.srgbFromLinear := rfl
theorem tie_recIntoLinear : @Gen.Body.recIntoLinear α _ = Transfer.recIntoLinear := rfl
theorem tie_recFromLinear : @Gen.Body.recFromLinear α _ = Transfer.recFromLinear := rfl
theorem tie_adobeIntoLinear : @Gen.Body.adobeIntoLinear α _ = Transfer.adobeIntoLinear := rfl
theorem tie_adobeFromLinear : @Gen.Body.adobeFromLinear α _ = Transfer.adobeFromLinear := rfl
theorem tie_p3IntoLinear : @Gen.Body.p3IntoLinear α _ = Transfer.p3IntoLinear := rfl
theorem tie_p3FromLinear : @Gen.Body.p3FromLinear α _ = Transfer.p3FromLinear := rfl
theorem tie_prophotoIntoLinear : @Gen.Body.prophotoIntoLinear α _ = Transfer.prophotoIntoLinear := rfl
theorem tie_prophotoFromLinear : @Gen.Body.prophotoFromLinear α _ = Transfer.prophotoFromLinear := rfl
theorem tie_gammaIntoLinear : @Gen.Body.gammaIntoLinear α _ = Transfer.gammaIntoLinear := rfl
theorem tie_gammaFromLinear : @Gen.Body.gammaFromLinear α _ = Transfer.gammaFromLinear := rfl

/-! ### matrix.rs and the Oklab matrices (the model reads them from the generated tables `Gen.Mat.oklabM*`) -/
theorem tie_matMulVec : @Gen.Body.matMulVec α _ = M3.mulVec := rfl
theorem tie_oklabM1 : @Gen.Body.oklabM1 α _ = Ok.m1 := rfl
theorem tie_oklabM1Inv : @Gen.Body.oklabM1Inv α _ = Ok.m1Inv := rfl
theorem tie_oklabM2 : @Gen.Body.oklabM2 α _ = Ok.m2 := rfl
theorem tie_oklabM2Inv : @Gen.Body.oklabM2Inv α _ = Ok.m2Inv := rfl

/-! ### Ok family without angles (oklab.rs, xyz.rs, ok_utils.rs, okhwb.rs, okhsv.rs).  The model takes its coefficients by
    position from `Gen.Ok.*` / `Gen.Mat.*Coeffs`; `rfl` evaluates the list lookups. -/
theorem tie_xyzToOklab : @Gen.Body.xyzToOklab α _ = Ok.xyzToOklab := rfl
theorem tie_oklabToXyz : @Gen.Body.oklabToXyz α _ = Ok.oklabToXyz := rfl
theorem tie_linSrgbToOklab : @Gen.Body.linSrgbToOklab α _ = Ok.linSrgbToOklab := rfl
theorem tie_oklabToLinSrgb : @Gen.Body.oklabToLinSrgb α _ = Ok.oklabToLinSrgb := rfl
theorem tie_toe : @Gen.Body.toe α _ = Ok.toe := rfl
theorem tie_toeInv : @Gen.Body.toeInv α _ = Ok.toeInv := rfl
theorem tie_stOfLC : @Gen.Body.stOfLC α _ = Ok.stOfLC := rfl
theorem tie_stMid : @Gen.Body.stMid α _ = Ok.stMid := rfl
/-- the model selects the coefficient set by a case number and list offsets, the source by a tuple-valued `if`: same three cases -/
theorem tie_maxSaturation : @Gen.Body.maxSaturation α _ = Ok.maxSaturation := by
  funext a b; unfold Gen.Body.maxSaturation Ok.maxSaturation Ok.maxSaturationCase
  by_cases h1 : (1.0 : α) < Ok.kAt Gen.Ok.maxSaturation 0 * a - Ok.kAt Gen.Ok.maxSaturation 1 * b
  · simp only [h1, if_true]
    split
    · rfl
    · exact absurd h1 ‹_›
  · simp only [h1, if_false]
    split
    · exact absurd ‹_› h1
    · by_cases h2 : (1.0 : α) < Ok.kAt Gen.Ok.maxSaturation 10 * a - Ok.kAt Gen.Ok.maxSaturation 11 * b
      · simp only [h2, if_true]
        split
        · rfl
        · exact absurd h2 ‹_›
      · simp only [h2, if_false]
        split
        · exact absurd ‹_› h2
        · rfl
theorem tie_findCusp : @Gen.Body.findCusp α _ = Ok.findCusp := by
  funext a b; unfold Gen.Body.findCusp; rw [tie_maxSaturation]; rfl
theorem tie_findGamutIntersection : @Gen.Body.findGamutIntersection α _ = Ok.findGamutIntersection := rfl
theorem tie_fromNormalized : @Gen.Body.fromNormalized α _ = Ok.fromNormalized := by
  funext l a b; unfold Gen.Body.fromNormalized; rw [tie_findCusp]; rfl
theorem tie_okhsvToOkhwb : @Gen.Body.okhsvToOkhwb α _ = Ok.okhsvToOkhwb := rfl
theorem tie_okhwbToOkhsv : @Gen.Body.okhwbToOkhsv α _ = Ok.okhwbToOkhsv := rfl

/-! ### everything that goes through a hue (`class Angle`: π, degrees ↔ radians, hypot) -/
section angle
variable [Angle α]

theorem tie_hueFromCartesian : @Gen.Body.hueFromCartesian α _ _ = Cie.hueFromCartesian := rfl
/-- `OklabHue::from_cartesian` is the same macro body: the Ok model has its own copy of the function -/
theorem tie_hueFromCartesian_ok : @Gen.Body.hueFromCartesian α _ _ = Ok.hueFromCartesian := rfl
theorem tie_hueIntoCartesian : @Gen.Body.hueIntoCartesian α _ _ = Ok.hueIntoCartesian := rfl

theorem tie_labToLch : @Gen.Body.labToLch α _ _ = Cie.labToLch := rfl
theorem tie_lchToLab : @Gen.Body.lchToLab α _ _ = Cie.lchToLab := rfl
theorem tie_luvToLchuv : @Gen.Body.luvToLchuv α _ _ = Cie.luvToLchuv := rfl
theorem tie_lchuvToLuv : @Gen.Body.lchuvToLuv α _ _ = Cie.lchuvToLuv := rfl

/-- `Oklab::get_chroma` (a method on the colour; the model function takes the two components) -/
theorem tie_oklabGetChroma : @Gen.Body.oklabGetChroma α _ _ = fun c => Ok.chromaOf c.c1 c.c2 := rfl
theorem tie_oklabToOklch : @Gen.Body.oklabToOklch α _ _ = Ok.oklabToOklch := rfl
theorem tie_oklchToOklab : @Gen.Body.oklchToOklab α _ _ = Ok.oklchToOklab := rfl
theorem tie_okhslToOklab : @Gen.Body.okhslToOklab α _ _ = Ok.okhslToOklab := by
  funext c; unfold Gen.Body.okhslToOklab; rw [tie_fromNormalized]; rfl
theorem tie_oklabToOkhsl : @Gen.Body.oklabToOkhsl α _ _ = Ok.oklabToOkhsl := by
  funext c; unfold Gen.Body.oklabToOkhsl; rw [tie_fromNormalized]; rfl
theorem tie_okhsvToOklab : @Gen.Body.okhsvToOklab α _ _ = Ok.okhsvToOklab := by
  funext c; unfold Gen.Body.okhsvToOklab; rw [tie_findCusp]; rfl
theorem tie_oklabToOkhsv : @Gen.Body.oklabToOkhsv α _ _ = Ok.oklabToOkhsv := by
  funext c; unfold Gen.Body.oklabToOkhsv; rw [tie_findCusp]; rfl

/-! HSLuv edges (hsluv.rs, lchuv.rs); `LuvBounds::from_lightness(l).max_chroma_at_hue(h)` itself is not translated (it is the
    model function `Cie.maxChroma` on both sides) -/
section hsluv
variable {β : Type} [Scalar β] [ViaF64 α β]
theorem tie_lchuvToHsluv : @Gen.Body.lchuvToHsluv α _ _ β _ _ = Cie.lchuvToHsluv := rfl
theorem tie_hsluvToLchuv : @Gen.Body.hsluvToLchuv α _ _ β _ _ = Cie.hsluvToLchuv := rfl
end hsluv

end angle

end Tie
