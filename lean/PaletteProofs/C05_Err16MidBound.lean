/-
  C05 — the 16-bit ProPhoto encoder **at every real number that rounds to the f32 pattern**, and hence `FromLinear<f64, u16>`
  (`from_linear(linear as f32)`) **at the exact double**:

    theorem fromLinearU16_faithful_near (b ≤ 0x3f800000) (x ∈ [0, 1]) (Near x b) :
        |(prophotoFromLinearU16 b : ℝ) − 65535 · fromLinear .prophoto x| < 0.6
    theorem fromLinearU16_f64_faithful (B ≤ 0x3ff0000000000000) :
        |(fromLinearU16_f64 B : ℝ) − 65535 · fromLinear .prophoto (f64val B)| < 0.6

  `Near x b` (`Lemmas/C05_MidReal.lean`): `|x − f32val b| ≤ ½ ulp(b)`.  Table branch: the six per-cell checks re-run on the widened real
  intervals (`C05_Err16_MidCells`, `Lemmas/C05_Err16MidReal.cell_mid_real`); the reals just below the knee `2⁻⁹` that round up to
  `min_float` are on the curve's linear piece and are handled directly (code 2048 against `65535·16·x ∈ [2047.9686, 2047.96875)`); float
  branch: `lin_err` (`½ + 2⁻¹⁴`) plus `65535·16·½ulp ≤ 6.2e-5`; ends: reals up to `2⁻¹⁵⁰ ↦ 0`, reals from `1 − 2⁻²⁴` to `1 ↦ 65535`.
  The f64 statement follows with `C05F.narrow_near` (the model's bit-level `f64ToF32` is the correctly rounded narrowing, IEEE layer).
-/
import PaletteProofs.C05_Err16Bound
import PaletteProofs.Lemmas.C05_Err16MidReal
import PaletteProofs.C05_Err16_MidCells
import PaletteProofs.C05_F64Bound

namespace C05E16
open Lut Transfer C05 C05T C05E C05M F32Round

/-- more decided facts about the generated numbers: the half-ulp neighbourhood of the last pattern below `min_float` stays below the
    knee `1/512`; its exponent; the value of `min_float`; the code at `min_float` -/
theorem facts16m :
    hiM (Gen.Lut.prophotoMinFloat - 1) * 2 ^ expo (Gen.Lut.prophotoMinFloat - 1) * 512 < 1 * 2 ^ 151 ∧
    expo (Gen.Lut.prophotoMinFloat - 1) = 117 ∧
    Gen.Lut.prophotoMinFloat = 989855744 ∧
    encodeClamped Gen.Lut.prophotoEnc Gen.Lut.prophotoMinFloat 16 7 Gen.Lut.prophotoMinFloat = 2048 := by
  decide +kernel

theorem ptv_lo (b : Nat) : ptv (Wlo b) 151 = pt (loM b) (expo b) D := by
  unfold ptv Wlo pt; rw [D_cast]; push_cast; rfl

theorem ptv_hi (b : Nat) : ptv (Whi b) 151 = pt (hiM b) (expo b) D := by
  unfold ptv Whi pt; rw [D_cast]; push_cast; rfl

theorem near_pts {x : ℝ} {b : Nat} (hb : 0 < b) (h : Near x b) : ptv (Wlo b) 151 ≤ x ∧ x ≤ ptv (Whi b) 151 := by
  rw [ptv_lo, ptv_hi]
  exact ⟨lo_of_near (mant_pos hb) h, hi_of_near h⟩

/-- every real that rounds to a pattern above `min_float` is at or above the knee `2⁻⁹` -/
theorem lo_ge_knee (b : Nat) (h : Gen.Lut.prophotoMinFloat < b) : (1:ℝ) / 512 ≤ ptv (Wlo b) 151 := by
  have hminv : Gen.Lut.prophotoMinFloat = 989855744 := facts16m.2.2.1
  rw [hminv] at h
  have key : 2 ^ 24 * 2 ^ 118 ≤ Wlo b := by
    unfold Wlo loM mant expo
    have p23 : (2:Nat) ^ 23 = 8388608 := by decide
    rw [p23, if_neg (by omega), if_neg (by omega)]
    by_cases hE : b / 8388608 = 118
    · rw [hE]
      exact Nat.mul_le_mul_right _ (by omega)
    · have hE' : 119 ≤ b / 8388608 := by omega
      have h1 : (2:Nat) ^ 119 ≤ 2 ^ (b / 8388608) := Nat.pow_le_pow_right (by decide) hE'
      have h2 : 2 ^ 24 - 1 ≤ 2 * (8388608 + b % 8388608) - 1 := by omega
      have h3 : (2:Nat) ^ 24 * 2 ^ 118 ≤ (2 ^ 24 - 1) * 2 ^ 119 := by decide
      exact Nat.le_trans h3 (Nat.mul_le_mul h2 h1)
  have kc := (Nat.cast_le (α := ℝ)).mpr key
  push_cast at kc
  unfold ptv
  rw [div_le_div_iff₀ (by norm_num) (by positivity)]
  have e : (2:ℝ) ^ 151 = 512 * (2 ^ 24 * 2 ^ 118) := by norm_num
  rw [e]; linarith

/-! ## the table branch -/

theorem table_faithful_near (b : Nat) (h0 : Gen.Lut.prophotoMinFloat ≤ b) (h1 : b ≤ Gen.Lut.maxFloatBits)
    (x : ℝ) (hxlo : ptv (Wlo b) 151 ≤ x) (hxhi : x ≤ ptv (Whi b) 151) :
    |(encodeClamped Gen.Lut.prophotoEnc Gen.Lut.prophotoMinFloat 16 7 b : ℝ) -
        65535 * x ^ (((5:ℕ):ℝ) / ((9:ℕ):ℝ))| < 0.6 := by
  obtain ⟨hal, hk0, _⟩ := facts16
  obtain ⟨ci, ct⟩ := cell_coords16 b h0
  have hidx := index_in_bounds_u16 b h0 h1
  rw [ci] at hidx
  unfold encodeClamped
  rw [ci, ct]
  set j := (b - Gen.Lut.prophotoMinFloat) / 65536 with hj
  set t := (b - Gen.Lut.prophotoMinFloat) % 65536 with ht
  have hcell := prophoto16_mid_cells j hidx
  generalize Gen.Lut.prophotoEnc.getD j 0 = entry at hcell ⊢
  have ht' : t < 65536 := Nat.mod_lt _ (by decide)
  have hlo : Gen.Lut.prophotoMinFloat + j * 65536 = 65536 * (Gen.Lut.prophotoMinFloat / 65536 + j) := by omega
  have hb : b = 65536 * (Gen.Lut.prophotoMinFloat / 65536 + j) + t := by omega
  rw [hlo] at hcell
  rw [hb] at hxlo hxhi
  obtain ⟨up, low⟩ := cell_mid_real entry _ t (by omega) ht' hcell x hxlo hxhi
  obtain ⟨g1, g2⟩ := cellRes_floor entry t
  have g1' := (Nat.cast_le (α := ℝ)).mpr g1
  have g2' := (Nat.cast_lt (α := ℝ)).mpr g2
  push_cast at g1' g2'
  have p32 : (0:ℝ) < 2 ^ 32 := by positivity
  have e32 : (4294967296:ℝ) = 2 ^ 32 := by norm_num
  rw [e32] at g1' g2'
  have f1 : ((cellRes 16 entry t : ℕ) : ℝ) ≤ Lr entry t := by
    unfold Lr; rw [le_div_iff₀ p32]; exact g1'
  have f2 : Lr entry t < ((cellRes 16 entry t : ℕ) : ℝ) + 1 := by
    unfold Lr; rw [div_lt_iff₀ p32]; exact g2'
  rw [abs_lt]
  constructor <;> linarith

/-! ## the theorem at every real that rounds to the pattern -/

/-- **0.6-code error bound at every real of [0, 1] within half an ulp of the pattern, 16-bit ProPhoto encoder.** -/
theorem fromLinearU16_faithful_near (b : Nat) (hb : b ≤ 0x3f800000) (x : ℝ) (hx0 : 0 ≤ x) (hx1 : x ≤ 1) (hn : Near x b) :
    |(prophotoFromLinearU16 b : ℝ) - 65535 * fromLinear .prophoto x| < 0.6 := by
  show |(prophotoFromLinearU16 b : ℝ) - 65535 * prophotoFromLinear x| < 0.6
  have hmax : Gen.Lut.maxFloatBits = 0x3f7fffff := geometry.2.2.2.2.2.2.1
  have hminmax : Gen.Lut.prophotoMinFloat ≤ Gen.Lut.maxFloatBits := facts16.2.2.2.2.2.2.2
  have e16 : (16.0:ℝ) = 16 := by norm_num
  by_cases hb0 : b = 0
  · subst hb0
    rw [prophoto_low_saturates 0 (Or.inr (Or.inl rfl))]
    unfold Near at hn
    rw [f32val_zero, sub_zero, C05M.expo_zero, abs_of_nonneg hx0] at hn
    have hx' : x ≤ 1e-9 := by
      have : (2:ℝ) ^ 1 / 2 ^ 151 ≤ 1e-9 := by norm_num
      linarith
    rw [prophotoFrom_lo (by linarith), e16, abs_lt]
    constructor <;> push_cast <;> linarith
  by_cases hb1 : b = 0x3f800000
  · subst hb1
    rw [prophoto_high_saturates 0x3f800000 (by omega) (by omega)]
    unfold Near at hn
    have hE : expo 0x3f800000 = 127 := by decide
    rw [f32val_one, hE] at hn
    have hx' : 1 - 1e-6 ≤ x := by
      have : (2:ℝ) ^ 127 / 2 ^ 151 ≤ 1e-6 := by norm_num
      have := (abs_le.mp hn).1
      linarith
    have hxp : 0 < x := by linarith
    rw [prophotoFrom_hi (by linarith), exp59]
    have y1 : x ^ (((5:ℕ):ℝ) / ((9:ℕ):ℝ)) ≤ 1 := Real.rpow_le_one hx0 hx1 (by norm_num)
    have y0 : x ≤ x ^ (((5:ℕ):ℝ) / ((9:ℕ):ℝ)) := by
      have := Real.rpow_le_rpow_of_exponent_ge hxp hx1 (show ((5:ℕ):ℝ) / ((9:ℕ):ℝ) ≤ 1 by norm_num)
      rwa [Real.rpow_one] at this
    rw [abs_lt]
    constructor <;> push_cast <;> linarith
  have hbpos : 0 < b := by omega
  have hcl : clamp16 b = b := clamp16_id b hbpos (by omega)
  obtain ⟨plo, phi⟩ := near_pts hbpos hn
  by_cases hlow : b < Gen.Lut.prophotoMinFloat
  · -- float branch: the reals that round into it are below the knee
    have hxk : x < 0.001953125 := by
      have h1 := hi_mono (b := b) (b' := Gen.Lut.prophotoMinFloat - 1) (by omega)
      rw [ptv_hi] at phi
      have h2 : pt (hiM (Gen.Lut.prophotoMinFloat - 1)) (expo (Gen.Lut.prophotoMinFloat - 1)) D < 1 / 512 := by
        have hc := (Nat.cast_lt (α := ℝ)).mpr facts16m.1
        push_cast at hc
        unfold pt; rw [D_cast, div_lt_div_iff₀ (by positivity) (by norm_num)]
        linarith
      norm_num at h2 ⊢
      linarith
    rw [prophoto_lin_branch b (by rw [hcl]; exact hlow), hcl, lin16_eq b hbpos hlow, prophotoFrom_lo hxk, e16]
    have he := lin_err b hlow
    have hexp : expo b ≤ 117 := by rw [← facts16m.2.1]; exact expo_mono (by omega)
    have hpw : (2:ℝ) ^ expo b ≤ 2 ^ 117 := pow_le_pow_right₀ (by norm_num) hexp
    unfold Near at hn
    have hd : |x - f32val b| ≤ 1e-10 := by
      have : (2:ℝ) ^ 117 / 2 ^ 151 ≤ 1e-10 := by norm_num
      have h3 : (2:ℝ) ^ expo b / 2 ^ 151 ≤ 2 ^ 117 / 2 ^ 151 := div_le_div_of_nonneg_right hpw (by positivity)
      linarith
    rw [abs_le] at he hd
    rw [abs_lt]
    constructor <;> linarith [he.1, he.2, hd.1, hd.2]
  · have hge : Gen.Lut.prophotoMinFloat ≤ b := by omega
    rw [prophoto_table_branch b (by rw [hcl]; exact hge), hcl]
    by_cases hxk : x < 0.001953125
    · -- only `min_float` itself collects reals from below the knee
      have hbm : b = Gen.Lut.prophotoMinFloat := by
        by_contra hne
        have := lo_ge_knee b (by omega)
        norm_num at this
        linarith
      rw [hbm, facts16m.2.2.2, prophotoFrom_lo hxk, e16]
      unfold Near at hn
      rw [hbm, f32val_min, facts16.2.2.2.1] at hn
      have hd : 0.001953125 - 1e-9 ≤ x := by
        have : (2:ℝ) ^ 118 / 2 ^ 151 ≤ 1e-9 := by norm_num
        have := (abs_le.mp hn).1
        linarith
      rw [abs_lt]
      constructor <;> push_cast <;> linarith
    · rw [prophotoFrom_hi hxk, exp59]
      exact table_faithful_near b hge (by omega) x plo phi

/-- the f32 theorem of `C05_Err16Bound.lean` is the special case `x = f32val b` -/
theorem fromLinearU16_faithful' (b : Nat) (hb : b ≤ 0x3f800000) :
    |(prophotoFromLinearU16 b : ℝ) - 65535 * fromLinear .prophoto (f32val b)| < 0.6 := by
  have h1 : f32val b ≤ 1 := by rw [← f32val_one]; exact f32val_mono hb
  exact fromLinearU16_faithful_near b hb _ (f32val_nonneg b) h1 (near_self b)

/-! ## `FromLinear<f64, u16>` at the exact double -/

open C05F Ieee

/-- `<ProPhotoRgb as FromLinear<f64, u16>>::from_linear` on an f64 bit pattern: `from_linear(linear as f32)`, a composition of two
    functions the driver executes (`Stim.f64ToF32`, `Lut.prophotoFromLinearU16`); the same expression as `C05U16.fromLinearU16_f64`
    of the thorough tier -/
def fromLinearU16_f64 (B : Nat) : Nat := prophotoFromLinearU16 (narrow B)

theorem fromLinearU16_f64_eq (B : Nat) :
    fromLinearU16_f64 B = prophotoFromLinearU16 (Stim.f64ToF32 (Float.ofBits (UInt64.ofNat B))).toBits.toNat := rfl

/-- **0.6-code error bound, every f64 in [0, 1], 16-bit ProPhoto encoder**, against the curve at the exact double -/
theorem fromLinearU16_f64_faithful (B : Nat) (hB : B ≤ 0x3ff0000000000000) :
    |(fromLinearU16_f64 B : ℝ) - 65535 * fromLinear .prophoto (f64val B)| < 0.6 := by
  obtain ⟨x0, x1⟩ := f64val_unit B hB
  unfold fromLinearU16_f64
  by_cases hs : F32.fS (narrow B) = 0
  · obtain ⟨hb, hn⟩ := narrow_near B hB hs
    exact fromLinearU16_faithful_near (narrow B) hb (f64val B) x0 x1 hn
  · -- the result is −0: same code as +0, and `x ≤ 2^-150`
    obtain ⟨fy, vy, y0, _⟩ := narrow_val B hB
    have hle := v_nonpos_of_sign _ hs
    have hv0 : F32.v (Stim.f64ToF32 (Float.ofBits (UInt64.ofNat B))) = 0 := le_antisymm hle y0
    have hcode : prophotoFromLinearU16 (narrow B) = prophotoFromLinearU16 0 := by
      have hge : narrow B ≥ 0x80000000 := by
        have := (fS_zero_iff (narrow B)).not.mp hs
        rw [p_lits.2.2] at this; omega
      rw [prophoto_low_saturates _ (Or.inl hge), prophoto_low_saturates 0 (Or.inr (Or.inl rfl))]
    rw [hcode]
    refine fromLinearU16_faithful_near 0 (by omega) (f64val B) x0 x1 ?_
    have hz0 := (v_le_one B hB).1
    have herr := R32_err (m := 0) (s := 1) hz0 (by norm_num) (le_refl _) (by rw [← vy, hv0]; simp)
    rw [← vy, hv0, zero_sub, abs_neg] at herr
    unfold Near
    rw [f32val_zero, sub_zero, f64val_eq_v B (by omega), C05M.expo_zero]
    have hc := (Rat.cast_le (K := ℝ)).mpr herr
    rw [Rat.cast_abs] at hc
    push_cast at hc
    have e1 : ((2:ℝ) ^ (-149:ℤ)) / 2 = 2 ^ 1 / 2 ^ 151 := by
      rw [zpow_neg, zpow_ofNat]
      have : (2:ℝ)^151 = 2^149 * 2 * 2 := by norm_num
      rw [this]; field_simp
    rw [e1] at hc
    exact hc

/-- any integer within 0.4 of `65535·curve(x)` is the code returned for the double `x` -/
theorem fromLinearU16_f64_is_rounding (B : Nat) (hB : B ≤ 0x3ff0000000000000) (n : Nat)
    (hn : |(n:ℝ) - 65535 * fromLinear .prophoto (f64val B)| ≤ 0.4) : fromLinearU16_f64 B = n := by
  have h := fromLinearU16_f64_faithful B hB
  rw [abs_lt] at h
  rw [abs_le] at hn
  have h1 : ((fromLinearU16_f64 B : ℕ) : ℝ) < (n:ℝ) + 1 := by linarith [h.1, h.2, hn.1, hn.2]
  have h2 : (n:ℝ) < ((fromLinearU16_f64 B : ℕ) : ℝ) + 1 := by linarith [h.1, h.2, hn.1, hn.2]
  have h1' : fromLinearU16_f64 B < n + 1 := by exact_mod_cast h1
  have h2' : n < fromLinearU16_f64 B + 1 := by exact_mod_cast h2
  omega

/-- non-vacuity: the real `½ + 2⁻²⁶` (not an f32) is within half an ulp of the pattern of 0.5; the double 0.5 is in range and
    encodes as 44590 -/
example : Near (1 / 2 + 1 / 2 ^ 26) 0x3f000000 := by
  have hm : mant 0x3f000000 = 2^23 := by decide
  have he : expo 0x3f000000 = 126 := by decide
  unfold Near f32val; rw [hm, he]
  rw [abs_le]; constructor <;> norm_num
example : (0x3fe0000000000000 : Nat) ≤ 0x3ff0000000000000 ∧ fromLinearU16_f64 0x3fe0000000000000 = 44590 := by decide +kernel

end C05E16
