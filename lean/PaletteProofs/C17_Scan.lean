/-
  C17 — "the Rust source has no further representation switch", as decided facts about tables regenerated from /repo on every run.

  Generic palette code can behave differently for a SIMD component type than for `f32`/`f64` in exactly three ways:
   (a) it asks: a `TypeId` test on `T::Mask`;
   (b) it looks across lanes: `.is_true()` / `.is_false()` on a mask (everything else in the mask interface is lane-wise);
   (c) a per-type trait implementation (`num/wide.rs`, `bool_mask/wide.rs`, `angle/wide.rs`) does something else than the scalar one.
  `extract.py` (`gen_simd_scan`) scans **every** file under palette/src for (a), (b) and for code naming a `wide` type, and copies the
  text of every primitive palette implements for the wide types.  Decided here:

  * `typeid_scan` — (a) occurs twice in the crate: hsv.rs and hsl.rs (`C17_MaskPairs` (1) relates the two branches);
  * `horizontal_scan` — (b) occurs, outside the mask implementations and tests, in hsv.rs and hsl.rs *only inside the `T::Mask == bool`
    branch* (all 4 + 5 calls), and once in lib.rs (`impl IsWithinBounds for [T]`: `C17.andLoop_eq_fold` shows that early exit does not
    change the result);
  * `wide_files` — code naming a `wide` type lives in the three `wide.rs` files (and one `#[cfg(test)]` module of cam16/full.rs);
  * `wide_prims` — (c): the text of each primitive.  Lane loops over the scalar function: `cbrt`, `floor`, `ceil`.  Own formula:
    `hypot` = `(self * self + other * other).sqrt()`, `clamp` = `min` then `max`, `recip` = `ONE / self`, `is_valid_divisor` (lane-wise
    `is_normal`; `C17.numeric_bodies`), `powi` through the generic `pow`.  Everything else is the `wide` crate's method of the same name —
    which is what `Simd.exactOps` trusts to be the IEEE operation for `+ − × ÷ abs sqrt min max cmp_* blend` and treats as a
    parameter for `sin cos atan2 powf exp ln round mul_add mul_sub to_degrees to_radians`.
  * `translator_lists` — the bodies the mask-generic translator accepted (each with a `tieV_` theorem) and the bodies it refused, with
    the reason (they carry `Mask = bool` bounds: outside the SIMD half of the property).
-/
import PaletteModel.Gen.SimdScan
import PaletteModel.Gen.BodiesV

namespace C17

theorem typeid_scan : Gen.SimdScan.maskTypeIdTests = [("hsl.rs", 1), ("hsv.rs", 1)] := by decide +kernel

theorem horizontal_scan : Gen.SimdScan.horizontalCalls = [("hsl.rs", 6, 6), ("hsv.rs", 4, 4), ("lib.rs", 1, 0)] := by decide +kernel

theorem wide_files :
    Gen.SimdScan.wideFiles = [("angle/wide.rs", false), ("bool_mask/wide.rs", false), ("cam16/full.rs", true), ("num/wide.rs", false)] ∧
    Gen.SimdScan.wideCfg = [("angle.rs", 1), ("bool_mask.rs", 1), ("cam16/full.rs", 1), ("num.rs", 1)] := by decide +kernel

theorem wide_prims :
    Gen.SimdScan.wideTraits = ["Real", "FromScalar", "Zero", "One", "MinMax", "Powu", "IsValidDivisor", "Trigonometry", "Abs", "Sqrt", "Cbrt",
      "Powf", "Powi", "Exp", "Hypot", "Round", "Clamp", "ClampAssign", "PartialCmp", "MulAdd", "MulSub", "Signum", "Ln"] ∧
    Gen.SimdScan.widePrimBodies = [
      ("from_f64", "$ty::splat(n as $scalar)"),
      ("max", "$ty::max(self, other)"),
      ("min", "$ty::min(self, other)"),
      ("sin", "$ty::sin(self)"),
      ("cos", "$ty::cos(self)"),
      ("atan2", "$ty::atan2(self, other)"),
      ("abs", "$ty::abs(self)"),
      ("sqrt", "$ty::sqrt(self)"),
      ("cbrt", "let mut array = self.into_array(); for scalar in &mut array { *scalar = scalar.cbrt(); } array.into()"),
      ("powf", "$ty::$pow_self(self, exp)"),
      ("powi", "if exp < 0 { exp = exp.wrapping_neg(); self = Recip::recip(self); } Powu::powu(self, exp as u32)"),
      ("exp", "$ty::exp(self)"),
      ("hypot", "(self * self + other * other).sqrt()"),
      ("round", "$ty::round(self)"),
      ("floor", "let mut array = self.into_array(); for scalar in &mut array { *scalar = scalar.floor(); } array.into()"),
      ("ceil", "let mut array = self.into_array(); for scalar in &mut array { *scalar = scalar.ceil(); } array.into()"),
      ("mul_add", "$ty::mul_add(self, m, a)"),
      ("mul_sub", "$ty::mul_sub(self, m, s)"),
      ("ln", "let mut array = self.into_array(); for scalar in &mut array { *scalar = scalar.ln(); } array.into()")] ∧
    Gen.SimdScan.wideAnglePrimBodies = [
      ("degrees_to_radians", "self.to_radians()"),
      ("radians_to_degrees", "self.to_degrees()"),
      ("normalize_signed_angle", "self - Round::ceil(((self + 180.0) / 360.0) - 1.0) * 360.0"),
      ("normalize_unsigned_angle", "self - (Round::floor(self / 360.0) * 360.0)"),
      ("half_rotation", "$ty::splat(180.0)"),
      ("full_rotation", "$ty::splat(360.0)")] := by decide +kernel

/-- 63 bodies read mask-generically (each proved equal, at `Mask = bool`, to its scalar reading); 10 registered bodies refused, every one
    for a construct that needs `T::Mask = bool` -/
theorem translator_lists :
    Gen.BodyV.tied.length = 63 ∧ (Gen.BodyV.tied.map (·.1)).Nodup ∧
    Gen.BodyV.boolOnly = [
      ("rgbToHsv", "`.is_true()` on a mask is a horizontal reduction over the lanes -- not lane-wise"),
      ("rgbToHsl", "`.is_true()` on a mask is a horizontal reduction over the lanes -- not lane-wise"),
      ("xyzToLuv", "operator `==` on components yields `bool`: only for scalar component types -- not lane-wise"),
      ("luvToXyz", "operator `<` on components yields `bool`: only for scalar component types -- not lane-wise"),
      ("maxSaturation", "operator `>` on components yields `bool`: only for scalar component types -- not lane-wise"),
      ("findGamutIntersection", "operator `<=` on components yields `bool`: only for scalar component types -- not lane-wise"),
      ("okhslToOklab", "operator `==` on components yields `bool`: only for scalar component types -- not lane-wise"),
      ("oklabToOkhsl", "operator `==` on components yields `bool`: only for scalar component types -- not lane-wise"),
      ("okhsvToOklab", "operator `==` on components yields `bool`: only for scalar component types -- not lane-wise"),
      ("oklabToOkhsv", "operator `==` on components yields `bool`: only for scalar component types -- not lane-wise")] := by decide +kernel

end C17
