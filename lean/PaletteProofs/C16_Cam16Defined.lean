/-
  C16 — definedness ("finiteness") of the baked parameters and of the forward model, in the poisoned-real reading.

  `PReal` (DESIGN §2.1, `PaletteProofs/PReal.lean`) evaluates the unchanged model with operations that answer *poison* for a
  division by zero, `powf` of a negative base (or `0^y`, `y ≤ 0`), `sqrt` of a negative number, `ln` of a non-positive one — the
  places where `f32`/`f64` produce NaN or ±inf from finite operands.  (Overflow and rounding are outside this reading.)

  * `prepare_defined`: for raw viewing conditions in the documented domain (`ValidRaw`) `prepare_parameters` evaluated at `PReal`
    returns exactly the real values, field for field — no operation of it leaves its domain.
  * `forward_defined`: on `InDomain` the forward model evaluated at `PReal` returns exactly the real `J_root`, `α`, `h`.
  * `forward_jRoot_poison`, `forward_alpha_poison`: outside — negative achromatic signal, or non-positive denominator of `t` for a
    chromatic colour — `J_root` resp. `α` is poison.  So `InDomain` is the exact domain of definition (`forward_defined_iff`).
  * `witness_outside`: a concrete rational colour and concrete rational raw viewing conditions (equal-energy white, `L_A` = 1.6,
    `Y_b` = 0.2, average surround, the colour `Xyz(0, 0, 1/2)`) for which the lightness is poison — the finding
    `cam16-negative-achromatic-C07` as a theorem about the model.
-/
import PaletteProofs.C16_Cam16Roundtrip
import PaletteProofs.PReal
import PaletteProofs.Lemmas.Cam16ConstsP

set_option linter.unusedSimpArgs false

namespace C16
open Cam16 PReal

/-! ### reading real parameters at `PReal` -/

def liftSurround : Surround ℝ → Surround PReal
  | .dark => .dark | .dim => .dim | .average => .average
  | .percent v => .percent (ok v)

def liftDiscounting : Discounting ℝ → Discounting PReal
  | .auto => .auto
  | .custom d => .custom (ok d)

def liftParameters (prm : Parameters ℝ) : Parameters PReal :=
  ⟨prm.whitePoint.lift, ok prm.adaptingLuminance, ok prm.backgroundLuminance, liftSurround prm.surround, liftDiscounting prm.discounting⟩

def liftDep (p : Dep ℝ) : Dep PReal :=
  { dRgb := p.dRgb.lift, dRgbInv := p.dRgbInv.lift, n := ok p.n, nBb := ok p.nBb, nC := ok p.nC, nCb := ok p.nCb, aW := ok p.aW, c := ok p.c,
    z := ok p.z, fL4 := ok p.fL4, adaptFL := ok p.adaptFL, unadaptConstant := ok p.unadaptConstant, unadaptExponent := ok p.unadaptExponent }

/-! ### the building blocks evaluate without poison -/

theorem signum_ok (x : ℝ) : signum (ok x) = ok (signum x) := by
  unfold signum
  rcases lt_trichotomy x 0 with h | h | h
  · have h1 : (ok x) < (0.0 : PReal) := by show x < (0.0:ℝ); norm_num; exact h
    have h2 : x < (0.0:ℝ) := by norm_num; exact h
    rw [if_pos h1, if_pos h2]; rfl
  · subst h
    have h1 : ¬ (ok 0) < (0.0 : PReal) := by show ¬ (0:ℝ) < (0.0:ℝ); norm_num
    have h2 : ¬ (0.0 : PReal) < ok 0 := by show ¬ (0.0:ℝ) < (0:ℝ); norm_num
    have h3 : ¬ ((1.0 : PReal) / ok 0 < (0.0 : PReal)) := by
      have : (1.0 : PReal) / ok 0 = poison := div_some_zero _
      rw [this]; exact not_none_lt _
    have h1' : ¬ (0:ℝ) < (0.0:ℝ) := by norm_num
    have h2' : ¬ (0.0:ℝ) < (0:ℝ) := by norm_num
    have h3' : ¬ ((1.0:ℝ) / 0 < (0.0:ℝ)) := by norm_num
    rw [if_neg h1, if_neg h2, if_neg h3, if_neg h1', if_neg h2', if_neg h3']; rfl
  · have h1 : ¬ (ok x) < (0.0 : PReal) := by show ¬ x < (0.0:ℝ); norm_num; exact h.le
    have h2 : (0.0 : PReal) < ok x := by show (0.0:ℝ) < x; norm_num; exact h
    have h1' : ¬ x < (0.0:ℝ) := by norm_num; exact h.le
    have h2' : (0.0:ℝ) < x := by norm_num; exact h
    rw [if_neg h1, if_pos h2, if_neg h1', if_pos h2']; rfl

/-- `Adapt::run` never leaves its domain (for `F_L ≥ 0`): the base of the power is `F_L·|c|·0.01 ≥ 0`, the divisor `x + 27.13 > 0` -/
theorem adaptRun_ok {fL : ℝ} (hf : 0 ≤ fL) (x : ℝ) : adaptRun (ok fL) (ok x) = ok (adaptRun fL x) := by
  have hb : 0 ≤ fL * |x| * 0.01 := by positivity
  have hy : 0 ≤ (fL * |x| * 0.01) ^ (0.42:ℝ) := Real.rpow_nonneg hb _
  have hd : (fL * |x| * 0.01) ^ (0.42:ℝ) + 27.13 ≠ 0 := by positivity
  simp only [adaptRun, signum_ok, KP.adapt_0, KP.adapt_1, KP.adapt_2, KP.adapt_3, K.adapt_0, K.adapt_1, K.adapt_2, K.adapt_3, abs_some, mul_some,
    powf_some_of_nonneg_pos _ _ hb (by norm_num : (0:ℝ) < 0.42), add_some, div_some_of_ne _ _ hd, RealScalar.powf_eq, RealScalar.abs_eq]

theorem lerp_ok (a b t : ℝ) : lerp (ok a) (ok b) (ok t) = ok (lerp a b t) := rfl

theorem m16_lift (v : V3 ℝ) : m16 v.lift = (m16 v).lift := rfl

/-! ### the structure of `prepare_parameters`, law-free

  Each baked field written in terms of the raw parameters and of *other baked fields* — true by `rfl` for every component type.
  Read at ℝ and at `PReal` this lets the evaluation proceed one operation at a time. -/
section Struct
variable {α : Type} [Scalar α]
open Scalar

/-- `c` from the surround in tenths of a percent -/
def cGen (s : α) : α :=
  if 1.0 ≤ s then lerp (const Gen.Cam16.prepare_3) (const Gen.Cam16.prepare_4) (s - 1.0)
  else lerp (const Gen.Cam16.prepare_5) (const Gen.Cam16.prepare_6) s
/-- `F = N_c` from `c` -/
def fGen (c : α) : α :=
  if const Gen.Cam16.prepare_7 ≤ c then lerp (const Gen.Cam16.prepare_8) 1.0 ((c - const Gen.Cam16.prepare_9) / const Gen.Cam16.prepare_10)
  else lerp (const Gen.Cam16.prepare_11) (const Gen.Cam16.prepare_12) ((c - const Gen.Cam16.prepare_13) / const Gen.Cam16.prepare_14)
/-- `F_L` from `L_A` -/
def flGen (lA : α) : α :=
  let k := 1.0 / (const Gen.Cam16.prepare_15 * lA + 1.0)
  let k4 := k * k * k * k
  let k4Inv := 1.0 - k4
  let aThird := 1.0 / const Gen.Cam16.prepare_16
  k4 * lA + const Gen.Cam16.prepare_17 * k4Inv * k4Inv * powf (const Gen.Cam16.prepare_18 * lA) aThird
/-- the degree of adaptation before clamping -/
def degreeRaw (disc : Discounting α) (f lA : α) : α :=
  match disc with
  | .auto => f * (1.0 - 1.0 / const Gen.Cam16.prepare_23 * exp ((-lA - const Gen.Cam16.prepare_24) / const Gen.Cam16.prepare_25))
  | .custom degree => degree

theorem prepare_struct (prm : Parameters α) :
    let p := prepareParameters prm
    let yW := prm.whitePoint.c1 * const Gen.Cam16.prepare_0
    let rgbW := m16 ⟨prm.whitePoint.c0 * const Gen.Cam16.prepare_0, prm.whitePoint.c1 * const Gen.Cam16.prepare_0, prm.whitePoint.c2 * const Gen.Cam16.prepare_0⟩
    let d := clamp (degreeRaw prm.discounting p.nC prm.adaptingLuminance) 0.0 1.0
    p.n = prm.backgroundLuminance * const Gen.Cam16.prepare_1 / yW ∧
    p.z = const Gen.Cam16.prepare_20 + sqrt p.n ∧
    p.nBb = const Gen.Cam16.prepare_21 * powf p.n (const Gen.Cam16.prepare_22) ∧
    p.nCb = p.nBb ∧
    p.c = cGen (prm.surround.intoPercent * const Gen.Cam16.prepare_2) ∧
    p.nC = fGen p.c ∧
    p.adaptFL = flGen prm.adaptingLuminance ∧
    p.fL4 = powf p.adaptFL (const Gen.Cam16.prepare_19) ∧
    p.dRgb = map3 rgbW (fun cW => lerp 1.0 (yW / cW) d) ∧
    p.dRgbInv = map3 p.dRgb (fun dC => 1.0 / dC) ∧
    p.unadaptExponent = 1.0 / const Gen.Cam16.prepare_26 ∧
    p.unadaptConstant = const Gen.Cam16.prepare_27 / p.adaptFL * powf (const Gen.Cam16.prepare_28) p.unadaptExponent ∧
    p.aW = p.nBb * (const Gen.Cam16.prepare_29 * adaptRun p.adaptFL (rgbW.c0 * p.dRgb.c0) + adaptRun p.adaptFL (rgbW.c1 * p.dRgb.c1)
            + const Gen.Cam16.prepare_30 * adaptRun p.adaptFL (rgbW.c2 * p.dRgb.c2)) := by
  cases prm with
  | mk wp la yb s d => cases d <;> exact ⟨rfl, rfl, rfl, rfl, rfl, rfl, rfl, rfl, rfl, rfl, rfl, rfl, rfl⟩

end Struct

/-! ### the pieces at `PReal` -/

theorem intoPercent_ok (s : Surround ℝ) : (liftSurround s).intoPercent = ok s.intoPercent := by
  cases s with
  | dark => rfl
  | dim => rfl
  | average => rfl
  | percent v =>
    simp only [liftSurround, Surround.intoPercent, KP.surround_3, KP.surround_4, K.surround_3, K.surround_4, clamp_some, RealScalar.clamp_eq]

theorem cGen_ok (s : ℝ) : cGen (ok s) = ok (cGen s) := by
  unfold cGen
  by_cases h : (1.0:ℝ) ≤ s
  · have h1 : (1.0 : PReal) ≤ ok s := h
    rw [if_pos h1, if_pos h]; rfl
  · have h1 : ¬ (1.0 : PReal) ≤ ok s := h
    rw [if_neg h1, if_neg h]; rfl

theorem fGen_ok (c : ℝ) : fGen (ok c) = ok (fGen c) := by
  unfold fGen
  have e10 : ((ok c - Scalar.const Gen.Cam16.prepare_9) / Scalar.const Gen.Cam16.prepare_10 : PReal)
      = ok ((c - Scalar.const Gen.Cam16.prepare_9) / Scalar.const Gen.Cam16.prepare_10) := by
    rw [KP.prepare_9, KP.prepare_10, K.prepare_9, K.prepare_10, sub_some, div_some_of_ne _ _ (by norm_num)]
  have e14 : ((ok c - Scalar.const Gen.Cam16.prepare_13) / Scalar.const Gen.Cam16.prepare_14 : PReal)
      = ok ((c - Scalar.const Gen.Cam16.prepare_13) / Scalar.const Gen.Cam16.prepare_14) := by
    rw [KP.prepare_13, KP.prepare_14, K.prepare_13, K.prepare_14, sub_some, div_some_of_ne _ _ (by norm_num)]
  rw [e10, e14]
  by_cases h : (Scalar.const Gen.Cam16.prepare_7 : ℝ) ≤ c
  · have h1 : (Scalar.const Gen.Cam16.prepare_7 : PReal) ≤ ok c := h
    rw [if_pos h1, if_pos h]; rfl
  · have h1 : ¬ (Scalar.const Gen.Cam16.prepare_7 : PReal) ≤ ok c := h
    rw [if_neg h1, if_neg h]; rfl

theorem flGen_ok {la : ℝ} (h : 0 < la) : flGen (ok la) = ok (flGen la) := by
  have h1 : (5.0:ℝ) * la + 1.0 ≠ 0 := by positivity
  have h2 : (0:ℝ) < 5.0 * la := by positivity
  simp only [flGen, KP.prepare_15, KP.prepare_16, KP.prepare_17, KP.prepare_18, K.prepare_15, K.prepare_16, K.prepare_17, K.prepare_18,
    PReal.ofSci, mul_some, add_some, sub_some, div_some_of_ne _ _ h1, div_some_of_ne _ _ (by norm_num : (3.0:ℝ) ≠ 0),
    powf_some_of_pos _ _ h2, RealScalar.powf_eq]

theorem degreeRaw_ok (d : Discounting ℝ) (f la : ℝ) : degreeRaw (liftDiscounting d) (ok f) (ok la) = ok (degreeRaw d f la) := by
  cases d with
  | auto =>
    simp only [degreeRaw, liftDiscounting, KP.prepare_23, KP.prepare_24, KP.prepare_25, K.prepare_23, K.prepare_24, K.prepare_25,
      PReal.ofSci, neg_some, sub_some, mul_some, exp_some, div_some_of_ne _ _ (by norm_num : (92.0:ℝ) ≠ 0),
      div_some_of_ne _ _ (by norm_num : (3.6:ℝ) ≠ 0), RealScalar.exp_eq]
  | custom v => rfl

theorem dep_ext (a b : Dep PReal) (h1 : a.dRgb = b.dRgb) (h2 : a.dRgbInv = b.dRgbInv) (h3 : a.n = b.n) (h4 : a.nBb = b.nBb) (h5 : a.nC = b.nC)
    (h6 : a.nCb = b.nCb) (h7 : a.aW = b.aW) (h8 : a.c = b.c) (h9 : a.z = b.z) (h10 : a.fL4 = b.fL4) (h11 : a.adaptFL = b.adaptFL)
    (h12 : a.unadaptConstant = b.unadaptConstant) (h13 : a.unadaptExponent = b.unadaptExponent) : a = b := by
  cases a; cases b; simp only [Dep.mk.injEq]; simp only [] at *
  exact ⟨h1, h2, h3, h4, h5, h6, h7, h8, h9, h10, h11, h12, h13⟩

/-- **every baked parameter is defined** (`prepare_parameters` at `PReal` returns exactly the real values): for raw viewing
    conditions in the documented domain no division of `prepare_parameters` is by zero, no `powf` has a negative base or is
    `0^(≤0)`, no `sqrt` is of a negative number. -/
theorem prepare_defined {prm : Parameters ℝ} (v : ValidRaw prm) :
    prepareParameters (liftParameters prm) = liftDep (prepareParameters prm) := by
  have P := prepare_positive v
  obtain ⟨hw0, hw1, hw2⟩ := whiteCones_pos v
  obtain ⟨rn, rz, rnbb, rncb, rc, rnc, rfL, rfl4, rdrgb, rdinv, rexp, rconst, raw⟩ := prepare_struct prm
  obtain ⟨pn, pz, pnbb, pncb, pc, pnc, pfL, pfl4, pdrgb, pdinv, pexp, pconst, paw⟩ := prepare_struct (liftParameters prm)
  have hyw : prm.whitePoint.c1 * (100.0:ℝ) ≠ 0 := by have := v.yw; positivity
  -- n
  have en : (prepareParameters (liftParameters prm)).n = ok (prepareParameters prm).n := by
    rw [pn, rn]
    show ok prm.backgroundLuminance * Scalar.const Gen.Cam16.prepare_1 / (ok prm.whitePoint.c1 * Scalar.const Gen.Cam16.prepare_0) = _
    rw [KP.prepare_1, KP.prepare_0, mul_some, mul_some, div_some_of_ne _ _ hyw]; rfl
  -- z
  have ez : (prepareParameters (liftParameters prm)).z = ok (prepareParameters prm).z := by
    rw [pz, rz, en, KP.prepare_20, sqrt_some_of_nonneg _ P.n.le, add_some]; rfl
  -- N_bb, N_cb
  have enbb : (prepareParameters (liftParameters prm)).nBb = ok (prepareParameters prm).nBb := by
    rw [pnbb, rnbb, en, KP.prepare_21, KP.prepare_22, powf_some_of_pos _ _ P.n, mul_some]; rfl
  have encb : (prepareParameters (liftParameters prm)).nCb = ok (prepareParameters prm).nCb := by
    rw [pncb, rncb, enbb]
  -- c, N_c
  have ec : (prepareParameters (liftParameters prm)).c = ok (prepareParameters prm).c := by
    rw [pc, rc]
    show cGen ((liftSurround prm.surround).intoPercent * Scalar.const Gen.Cam16.prepare_2) = _
    rw [intoPercent_ok, KP.prepare_2, mul_some, cGen_ok]; rfl
  have enc : (prepareParameters (liftParameters prm)).nC = ok (prepareParameters prm).nC := by
    rw [pnc, rnc, ec, fGen_ok]
  -- F_L, F_L^¼
  have efl : (prepareParameters (liftParameters prm)).adaptFL = ok (prepareParameters prm).adaptFL := by
    rw [pfL, rfL]; exact flGen_ok v.la
  have efl4 : (prepareParameters (liftParameters prm)).fL4 = ok (prepareParameters prm).fL4 := by
    rw [pfl4, rfl4, efl, KP.prepare_19, powf_some_of_pos _ _ P.fL]; rfl
  -- D_RGB
  have ed : Scalar.clamp (degreeRaw (liftParameters prm).discounting (prepareParameters (liftParameters prm)).nC (liftParameters prm).adaptingLuminance) (0.0 : PReal) 1.0
      = ok (Scalar.clamp (degreeRaw prm.discounting (prepareParameters prm).nC prm.adaptingLuminance) (0.0:ℝ) 1.0) := by
    rw [enc]
    show Scalar.clamp (degreeRaw (liftDiscounting prm.discounting) (ok (prepareParameters prm).nC) (ok prm.adaptingLuminance)) (ok (0.0:ℝ)) (ok (1.0:ℝ)) = _
    rw [degreeRaw_ok, clamp_some]; rfl
  have edrgb : (prepareParameters (liftParameters prm)).dRgb = (prepareParameters prm).dRgb.lift := by
    rw [pdrgb, rdrgb, ed]
    show map3 (m16 (V3.lift ⟨prm.whitePoint.c0 * Scalar.const Gen.Cam16.prepare_0, prm.whitePoint.c1 * Scalar.const Gen.Cam16.prepare_0, prm.whitePoint.c2 * Scalar.const Gen.Cam16.prepare_0⟩))
        (fun cW => lerp 1.0 (ok (prm.whitePoint.c1 * Scalar.const Gen.Cam16.prepare_0) / cW) _) = _
    rw [m16_lift]
    simp only [map3, V3.lift, K.prepare_0]
    have e0 := div_some_of_ne (prm.whitePoint.c1 * 100.0) _ hw0.ne'
    have e1 := div_some_of_ne (prm.whitePoint.c1 * 100.0) _ hw1.ne'
    have e2 := div_some_of_ne (prm.whitePoint.c1 * 100.0) _ hw2.ne'
    unfold whiteCones at e0 e1 e2
    rw [e0, e1, e2]
    rfl
  have edinv : (prepareParameters (liftParameters prm)).dRgbInv = (prepareParameters prm).dRgbInv.lift := by
    rw [pdinv, rdinv, edrgb]
    simp only [map3, V3.lift]
    rw [show (1.0 : PReal) = ok (1.0:ℝ) from rfl, div_some_of_ne _ _ P.d0.ne', div_some_of_ne _ _ P.d1.ne', div_some_of_ne _ _ P.d2.ne']
  -- unadapt
  have eexp : (prepareParameters (liftParameters prm)).unadaptExponent = ok (prepareParameters prm).unadaptExponent := by
    rw [pexp, rexp, KP.prepare_26, show (1.0 : PReal) = ok (1.0:ℝ) from rfl, div_some_of_ne _ _ (by norm_num)]; rfl
  have econst : (prepareParameters (liftParameters prm)).unadaptConstant = ok (prepareParameters prm).unadaptConstant := by
    rw [pconst, rconst, efl, eexp, KP.prepare_27, KP.prepare_28, div_some_of_ne _ _ P.fL.ne', powf_some_of_pos _ _ (by norm_num), mul_some]; rfl
  -- A_w
  have eaw : (prepareParameters (liftParameters prm)).aW = ok (prepareParameters prm).aW := by
    rw [paw, raw, enbb, efl, edrgb]
    show ok _ * (_ * adaptRun _ ((m16 (V3.lift ⟨prm.whitePoint.c0 * Scalar.const Gen.Cam16.prepare_0, prm.whitePoint.c1 * Scalar.const Gen.Cam16.prepare_0, prm.whitePoint.c2 * Scalar.const Gen.Cam16.prepare_0⟩)).c0 * _)
        + adaptRun _ ((m16 (V3.lift ⟨prm.whitePoint.c0 * Scalar.const Gen.Cam16.prepare_0, prm.whitePoint.c1 * Scalar.const Gen.Cam16.prepare_0, prm.whitePoint.c2 * Scalar.const Gen.Cam16.prepare_0⟩)).c1 * _)
        + _ * adaptRun _ ((m16 (V3.lift ⟨prm.whitePoint.c0 * Scalar.const Gen.Cam16.prepare_0, prm.whitePoint.c1 * Scalar.const Gen.Cam16.prepare_0, prm.whitePoint.c2 * Scalar.const Gen.Cam16.prepare_0⟩)).c2 * _)) = _
    rw [m16_lift]
    simp only [V3.lift, mul_some, adaptRun_ok P.fL.le, KP.prepare_29, KP.prepare_30, add_some]
    rfl
  exact dep_ext _ _ edrgb edinv en enbb enc encb eaw ec ez efl4 efl econst eexp

/-! ### the forward model at `PReal` -/

section FwdStruct
variable {α : Type} [Scalar α]
open Scalar

/-- the forward model written field by field in terms of earlier fields — `rfl` for every component type -/
theorem forward_struct (xyz : V3 α) (p : Dep α) :
    let w := forward xyz p
    let cone := m16 ⟨xyz.c0 * const Gen.Cam16.xyzToCam16_0, xyz.c1 * const Gen.Cam16.xyzToCam16_0, xyz.c2 * const Gen.Cam16.xyzToCam16_0⟩
    w.rA = adaptRun p.adaptFL (cone.c0 * p.dRgb.c0) ∧ w.gA = adaptRun p.adaptFL (cone.c1 * p.dRgb.c1) ∧
    w.bA = adaptRun p.adaptFL (cone.c2 * p.dRgb.c2) ∧
    w.a = w.rA + (const Gen.Cam16.xyzToCam16_1 * w.gA + w.bA) / const Gen.Cam16.xyzToCam16_2 ∧
    w.b = (w.rA + w.gA - const Gen.Cam16.xyzToCam16_3 * w.bA) / const Gen.Cam16.xyzToCam16_4 ∧
    w.hRad = atan2 w.b w.a ∧
    w.jRoot = powf (p.nBb * (const Gen.Cam16.xyzToCam16_8 * w.rA + w.gA + const Gen.Cam16.xyzToCam16_9 * w.bA) / p.aW)
                (const Gen.Cam16.xyzToCam16_10 * p.c * p.z) ∧
    w.alpha = powf (const Gen.Cam16.xyzToCam16_11 / const Gen.Cam16.xyzToCam16_12 * p.nC * p.nCb
                      * (const Gen.Cam16.xyzToCam16_5 * (cos (w.hRad + const Gen.Cam16.xyzToCam16_6) + const Gen.Cam16.xyzToCam16_7))
                      * sqrt (w.a * w.a + w.b * w.b)
                      / (w.rA + w.gA + const Gen.Cam16.xyzToCam16_13 * w.bA + const Gen.Cam16.xyzToCam16_14)) (const Gen.Cam16.xyzToCam16_15)
                * powf (const Gen.Cam16.xyzToCam16_16 - powf (const Gen.Cam16.xyzToCam16_17) p.n) (const Gen.Cam16.xyzToCam16_18) :=
  ⟨rfl, rfl, rfl, rfl, rfl, rfl, rfl, rfl⟩

end FwdStruct

def liftFwd (w : Fwd ℝ) : Fwd PReal :=
  { rA := ok w.rA, gA := ok w.gA, bA := ok w.bA, a := ok w.a, b := ok w.b, hRad := ok w.hRad, jRoot := ok w.jRoot, alpha := ok w.alpha }

/-- the part of the forward model that is defined for **every** colour and all positive baked parameters: adapted responses,
    opponent signals, hue angle -/
theorem forward_defined_front (xyz : V3 ℝ) (p : Dep ℝ) (hf : 0 ≤ p.adaptFL) :
    let w := forward xyz.lift (liftDep p)
    w.rA = ok (forward xyz p).rA ∧ w.gA = ok (forward xyz p).gA ∧ w.bA = ok (forward xyz p).bA ∧
    w.a = ok (forward xyz p).a ∧ w.b = ok (forward xyz p).b ∧ w.hRad = ok (forward xyz p).hRad := by
  obtain ⟨r1, r2, r3, r4, r5, r6, -, -⟩ := forward_struct xyz p
  obtain ⟨p1, p2, p3, p4, p5, p6, -, -⟩ := forward_struct xyz.lift (liftDep p)
  have e1 : (forward xyz.lift (liftDep p)).rA = ok (forward xyz p).rA := by
    rw [p1, r1]
    show adaptRun (ok p.adaptFL) ((m16 (V3.lift ⟨xyz.c0 * Scalar.const Gen.Cam16.xyzToCam16_0, xyz.c1 * Scalar.const Gen.Cam16.xyzToCam16_0, xyz.c2 * Scalar.const Gen.Cam16.xyzToCam16_0⟩)).c0 * ok p.dRgb.c0) = _
    rw [m16_lift]; simp only [V3.lift, mul_some, adaptRun_ok hf]
  have e2 : (forward xyz.lift (liftDep p)).gA = ok (forward xyz p).gA := by
    rw [p2, r2]
    show adaptRun (ok p.adaptFL) ((m16 (V3.lift ⟨xyz.c0 * Scalar.const Gen.Cam16.xyzToCam16_0, xyz.c1 * Scalar.const Gen.Cam16.xyzToCam16_0, xyz.c2 * Scalar.const Gen.Cam16.xyzToCam16_0⟩)).c1 * ok p.dRgb.c1) = _
    rw [m16_lift]; simp only [V3.lift, mul_some, adaptRun_ok hf]
  have e3 : (forward xyz.lift (liftDep p)).bA = ok (forward xyz p).bA := by
    rw [p3, r3]
    show adaptRun (ok p.adaptFL) ((m16 (V3.lift ⟨xyz.c0 * Scalar.const Gen.Cam16.xyzToCam16_0, xyz.c1 * Scalar.const Gen.Cam16.xyzToCam16_0, xyz.c2 * Scalar.const Gen.Cam16.xyzToCam16_0⟩)).c2 * ok p.dRgb.c2) = _
    rw [m16_lift]; simp only [V3.lift, mul_some, adaptRun_ok hf]
  have e4 : (forward xyz.lift (liftDep p)).a = ok (forward xyz p).a := by
    rw [p4, r4, e1, e2, e3, KP.xyzToCam16_1, KP.xyzToCam16_2, mul_some, add_some, div_some_of_ne _ _ (by norm_num), add_some]; rfl
  have e5 : (forward xyz.lift (liftDep p)).b = ok (forward xyz p).b := by
    rw [p5, r5, e1, e2, e3, KP.xyzToCam16_3, KP.xyzToCam16_4, mul_some, add_some, sub_some, div_some_of_ne _ _ (by norm_num)]; rfl
  have e6 : (forward xyz.lift (liftDep p)).hRad = ok (forward xyz p).hRad := by
    rw [p6, r6, e4, e5, atan2_some]; rfl
  exact ⟨e1, e2, e3, e4, e5, e6⟩

/-- `J_root` at `PReal`: the power of `A/A_w`, poison exactly when the achromatic signal is negative -/
theorem forward_jRoot_P (xyz : V3 ℝ) (p : Dep ℝ) (P : Positive p) :
    (forward xyz.lift (liftDep p)).jRoot
      = Scalar.powf (ok (p.nBb * achromaticSignal (forward xyz p) / p.aW)) (ok (0.5 * p.c * p.z)) := by
  obtain ⟨e1, e2, e3, -, -, -⟩ := forward_defined_front xyz p P.fL.le
  obtain ⟨-, -, -, -, -, -, p7, -⟩ := forward_struct xyz.lift (liftDep p)
  rw [p7, e1, e2, e3]
  show Scalar.powf (ok p.nBb * (_ * _ + _ + _ * _) / ok p.aW) (_ * ok p.c * ok p.z) = _
  rw [KP.xyzToCam16_8, KP.xyzToCam16_9, KP.xyzToCam16_10, mul_some, mul_some, add_some, add_some, mul_some, div_some_of_ne _ _ P.aW.ne', mul_some, mul_some]
  rfl

/-- **outside the domain, lightness side**: a negative achromatic signal makes `J_root` — and with it `J`, `Q`, `C`, `M` — poison (NaN) -/
theorem forward_jRoot_poison (xyz : V3 ℝ) (p : Dep ℝ) (P : Positive p) (hA : achromaticSignal (forward xyz p) < 0) :
    (forward xyz.lift (liftDep p)).jRoot = poison := by
  rw [forward_jRoot_P xyz p P]
  apply powf_some_of_neg
  apply div_neg_of_neg_of_pos _ P.aW
  exact mul_neg_of_pos_of_neg P.nBb hA

theorem forward_jRoot_ok (xyz : V3 ℝ) (p : Dep ℝ) (P : Positive p) (hA : 0 ≤ achromaticSignal (forward xyz p)) :
    (forward xyz.lift (liftDep p)).jRoot = ok (forward xyz p).jRoot := by
  rw [forward_jRoot_P xyz p P, forward_jRoot_eq]
  have hb : 0 ≤ p.nBb * achromaticSignal (forward xyz p) / p.aW := div_nonneg (mul_nonneg P.nBb.le hA) P.aW.le
  have he : 0 < 0.5 * p.c * p.z := by
    have h1 : 0 < p.c := by have := P.c_lo; linarith
    have h2 : 0 < p.z := by have := P.z; linarith
    positivity
  rw [powf_some_of_nonneg_pos _ _ hb he]

/-- the numerator of `t` (a non-negative number) -/
noncomputable def tNumerator (w : Fwd ℝ) (p : Dep ℝ) : ℝ :=
  5e4 / 13.0 * p.nC * p.nCb * (0.25 * (Real.cos (w.hRad + 2.0) + 3.8)) * Real.sqrt (w.a * w.a + w.b * w.b)

theorem tOf_eq (w : Fwd ℝ) (p : Dep ℝ) : tOf w p = tNumerator w p / tDenominator w := rfl

/-- `α` at `PReal`: `t = numerator / denominator` first, then its power -/
theorem forward_alpha_P (xyz : V3 ℝ) (p : Dep ℝ) (P : Positive p) :
    (forward xyz.lift (liftDep p)).alpha
      = Scalar.powf (ok (tNumerator (forward xyz p) p) / ok (tDenominator (forward xyz p))) (ok (0.9:ℝ))
          * ok ((1.64 - (0.29:ℝ) ^ p.n) ^ (0.73:ℝ)) := by
  obtain ⟨e1, e2, e3, e4, e5, e6⟩ := forward_defined_front xyz p P.fL.le
  obtain ⟨-, -, -, -, -, -, -, p8⟩ := forward_struct xyz.lift (liftDep p)
  rw [p8, e1, e2, e3, e4, e5, e6]
  have hs : 0 ≤ (forward xyz p).a * (forward xyz p).a + (forward xyz p).b * (forward xyz p).b := by
    have := mul_self_nonneg (forward xyz p).a; have := mul_self_nonneg (forward xyz p).b; linarith
  show Scalar.powf (_ / _ * ok p.nC * ok p.nCb * (_ * (Scalar.cos (_ + _) + _)) * Scalar.sqrt (_ * _ + _ * _) / (_ + _ + _ * _ + _)) _
      * Scalar.powf (_ - Scalar.powf _ (ok p.n)) _ = _
  rw [KP.xyzToCam16_5, KP.xyzToCam16_6, KP.xyzToCam16_7, KP.xyzToCam16_11, KP.xyzToCam16_12, KP.xyzToCam16_13, KP.xyzToCam16_14, KP.xyzToCam16_15,
    KP.xyzToCam16_16, KP.xyzToCam16_17, KP.xyzToCam16_18]
  rw [div_some_of_ne _ _ (by norm_num : (13.0:ℝ) ≠ 0), powf_some_of_pos _ _ (by norm_num : (0:ℝ) < 0.29), sub_some, powf_some_of_pos _ _ P.k]
  simp only [mul_some, add_some, cos_some, sqrt_some_of_nonneg _ hs]
  rfl

/-- **outside the domain, chroma side**: a zero denominator of `t`, or a negative one for a chromatic colour, makes `α` — and with it
    `C`, `M`, `s` — poison -/
theorem forward_alpha_poison (xyz : V3 ℝ) (p : Dep ℝ) (P : Positive p)
    (h : tDenominator (forward xyz p) = 0 ∨ (tDenominator (forward xyz p) < 0 ∧ 0 < tNumerator (forward xyz p) p)) :
    (forward xyz.lift (liftDep p)).alpha = poison := by
  rw [forward_alpha_P xyz p P]
  rcases h with h | ⟨h1, h2⟩
  · rw [div_zero_of_eq _ _ h]; rfl
  · rw [div_some_of_ne _ _ h1.ne, powf_some_of_neg _ _ (div_neg_of_pos_of_neg h2 h1)]; rfl

theorem forward_alpha_ok (xyz : V3 ℝ) (p : Dep ℝ) (P : Positive p) (D : InDomain xyz p) :
    (forward xyz.lift (liftDep p)).alpha = ok (forward xyz p).alpha := by
  rw [forward_alpha_P xyz p P, forward_alpha_eq, div_some_of_ne _ _ D.denom.ne']
  have ht := tOf_nonneg xyz p P D
  rw [tOf_eq] at ht
  rw [powf_some_of_nonneg_pos _ _ ht (by norm_num), mul_some]; rfl

theorem fwd_ext (a b : Fwd PReal) (h1 : a.rA = b.rA) (h2 : a.gA = b.gA) (h3 : a.bA = b.bA) (h4 : a.a = b.a) (h5 : a.b = b.b)
    (h6 : a.hRad = b.hRad) (h7 : a.jRoot = b.jRoot) (h8 : a.alpha = b.alpha) : a = b := by
  cases a; cases b; simp only [Fwd.mk.injEq]; simp only [] at *
  exact ⟨h1, h2, h3, h4, h5, h6, h7, h8⟩

/-- **the forward model is defined on the domain**: evaluated at `PReal` it returns exactly the real values -/
theorem forward_defined (xyz : V3 ℝ) (p : Dep ℝ) (P : Positive p) (D : InDomain xyz p) :
    forward xyz.lift (liftDep p) = liftFwd (forward xyz p) := by
  obtain ⟨e1, e2, e3, e4, e5, e6⟩ := forward_defined_front xyz p P.fL.le
  exact fwd_ext _ _ e1 e2 e3 e4 e5 e6 (forward_jRoot_ok xyz p P D.achromatic) (forward_alpha_ok xyz p P D)

/-- a neutral colour (`a = b = 0`) with non-negative achromatic signal has a positive denominator of `t` -/
theorem denom_pos_of_neutral (xyz : V3 ℝ) (p : Dep ℝ) (ha : (forward xyz p).a = 0) (hb : (forward xyz p).b = 0)
    (hA : 0 ≤ achromaticSignal (forward xyz p)) : 0 < tDenominator (forward xyz p) := by
  obtain ⟨-, -, -, r4, r5, -, -, -⟩ := forward_struct xyz p
  simp only [K.xyzToCam16_1, K.xyzToCam16_2, K.xyzToCam16_3, K.xyzToCam16_4] at r4 r5
  rw [ha] at r4; rw [hb] at r5
  unfold achromaticSignal at hA
  unfold tDenominator
  set R := (forward xyz p).rA
  set G := (forward xyz p).gA
  set B := (forward xyz p).bA
  have h5 : R + G - 2.0 * B = 0 := by
    have := r5.symm; rw [div_eq_zero_iff] at this; rcases this with h | h
    · exact h
    · norm_num at h
  have h4 : 11 * R - 12 * G + B = 0 := by
    have e : R + (-12.0 * G + B) / 11.0 = (11 * R - 12 * G + B) / 11 := by sring
    rw [e] at r4
    have := r4.symm; rw [div_eq_zero_iff] at this; rcases this with h | h
    · exact h
    · norm_num at h
  norm_num at h5 hA ⊢
  nlinarith

/-- **`InDomain` is the exact domain of definition of the forward model**: `J_root` and `α` are both defined (not poison) iff the
    achromatic signal is non-negative and the denominator of `t` is positive -/
theorem forward_defined_iff (xyz : V3 ℝ) (p : Dep ℝ) (P : Positive p) :
    ((forward xyz.lift (liftDep p)).jRoot ≠ poison ∧ (forward xyz.lift (liftDep p)).alpha ≠ poison) ↔ InDomain xyz p := by
  constructor
  · rintro ⟨hj, ha⟩
    have hA : 0 ≤ achromaticSignal (forward xyz p) := by
      by_contra hn
      exact hj (forward_jRoot_poison xyz p P (not_le.mp hn))
    refine ⟨hA, ?_⟩
    by_contra hn
    apply ha
    apply forward_alpha_poison xyz p P
    rcases eq_or_lt_of_le (not_lt.mp hn) with h | h
    · exact Or.inl h
    · refine Or.inr ⟨h, ?_⟩
      have hnc : 0 < p.nC := by have := P.nC_lo; linarith
      have het : 0 < 0.25 * (Real.cos ((forward xyz p).hRad + 2.0) + 3.8) := by
        have := Real.neg_one_le_cos ((forward xyz p).hRad + 2.0)
        have : (0:ℝ) < Real.cos ((forward xyz p).hRad + 2.0) + 3.8 := by norm_num; linarith
        positivity
      have hs : 0 < Real.sqrt ((forward xyz p).a * (forward xyz p).a + (forward xyz p).b * (forward xyz p).b) := by
        rw [Real.sqrt_pos]
        by_contra h0
        have h1 := mul_self_nonneg (forward xyz p).a
        have h2 := mul_self_nonneg (forward xyz p).b
        have ea : (forward xyz p).a * (forward xyz p).a = 0 := by linarith
        have eb : (forward xyz p).b * (forward xyz p).b = 0 := by linarith
        have := denom_pos_of_neutral xyz p (mul_self_eq_zero.mp ea) (mul_self_eq_zero.mp eb) hA
        linarith
      have := P.nCb
      unfold tNumerator
      positivity
  · intro D
    rw [forward_jRoot_ok xyz p P D.achromatic, forward_alpha_ok xyz p P D]
    exact ⟨some_ne_none _, some_ne_none _⟩

/-! ### a concrete colour outside the domain (finding `cam16-negative-achromatic-C07` as a theorem) -/

/-- `400·y/(y + 27.13)` -/
noncomputable def gOf (y : ℝ) : ℝ := 400 * y / (y + 27.13)

theorem adaptMag_eq_gOf (fL x : ℝ) : adaptMag fL x = gOf ((fL * |x| * 0.01) ^ (0.42:ℝ)) := rfl

theorem gOf_mono {y1 y2 : ℝ} (h0 : 0 ≤ y1) (h : y1 ≤ y2) : gOf y1 ≤ gOf y2 := by
  unfold gOf
  rw [div_le_div_iff₀ (by positivity) (by linarith)]
  nlinarith

theorem gOf_scale {y r : ℝ} (h0 : 0 ≤ y) (hr : 1 ≤ r) : gOf (r * y) ≤ r * gOf y := by
  unfold gOf
  have h1 : 0 < y + 27.13 := by positivity
  have h2 : 0 < r * y + 27.13 := by positivity
  rw [← mul_div_assoc, div_le_div_iff₀ h2 h1]
  have : 0 ≤ r * y := by positivity
  nlinarith [mul_nonneg (mul_nonneg this h0) (sub_nonneg.mpr hr)]

theorem gOf_pos {y : ℝ} (h : 0 < y) : 0 < gOf y := by unfold gOf; positivity

theorem adaptRun_pos_eq_mag {fL x : ℝ} (hx : 0 < x) : adaptRun fL x = adaptMag fL x := by
  rw [adaptRun_eq_signum_mag, signum_pos hx]; norm_num

/-- the compression is monotone in `|x|` … -/
theorem adaptMag_le_of_abs_le {fL x y : ℝ} (hf : 0 < fL) (h : |x| ≤ |y|) : adaptMag fL x ≤ adaptMag fL y := by
  rw [adaptMag_eq_gOf, adaptMag_eq_gOf]
  apply gOf_mono (by positivity)
  apply Real.rpow_le_rpow (by positivity) _ (by norm_num)
  have := abs_nonneg x
  nlinarith

/-- … and sub-linear: `r` times the response gives at most `r` times the compressed response (`r ≥ 1`) -/
theorem adaptMag_le_scale {fL x y r : ℝ} (hf : 0 < fL) (hr : 1 ≤ r) (h : |y| ≤ r * |x|) : adaptMag fL y ≤ r * adaptMag fL x := by
  rw [adaptMag_eq_gOf, adaptMag_eq_gOf]
  have hx : 0 ≤ fL * |x| * 0.01 := by positivity
  have hX : 0 ≤ (fL * |x| * 0.01) ^ (0.42:ℝ) := Real.rpow_nonneg hx _
  have h1 : (fL * |y| * 0.01) ^ (0.42:ℝ) ≤ r * (fL * |x| * 0.01) ^ (0.42:ℝ) := by
    calc (fL * |y| * 0.01) ^ (0.42:ℝ) ≤ (r * (fL * |x| * 0.01)) ^ (0.42:ℝ) := by
          apply Real.rpow_le_rpow (by positivity) _ (by norm_num)
          nlinarith
      _ = r ^ (0.42:ℝ) * (fL * |x| * 0.01) ^ (0.42:ℝ) := Real.mul_rpow (by linarith) hx
      _ ≤ r * (fL * |x| * 0.01) ^ (0.42:ℝ) := by
          apply mul_le_mul_of_nonneg_right _ hX
          calc r ^ (0.42:ℝ) ≤ r ^ (1:ℝ) := Real.rpow_le_rpow_of_exponent_le hr (by norm_num)
            _ = r := Real.rpow_one r
  exact (gOf_mono (by positivity) h1).trans (gOf_scale hX hr)

/-- equal-energy white, 40 cd/m², `Y_b` = 0.2, average surround, automatic discounting -/
noncomputable def witnessPrm : Parameters ℝ := ⟨⟨1.0, 1.0, 1.0⟩, 40.0, 0.2, .average, .auto⟩
/-- a saturated dark blue-violet stimulus: only the `Z` primary -/
noncomputable def witnessXyz : V3 ℝ := ⟨0, 0, 0.5⟩

theorem witness_valid : ValidRaw witnessPrm := validRaw_equalEnergy 40.0 0.2 (by norm_num) (by norm_num) _ _

/-- under the equal-energy white every channel factor is exactly 1, whatever the degree of adaptation -/
theorem witness_dRgb : (prepareParameters witnessPrm).dRgb = ⟨1, 1, 1⟩ := by
  obtain ⟨d, -, -, e⟩ := prepare_dRgb witnessPrm
  rw [e]
  simp only [whiteCones, witnessPrm, m16_eq, lerp_eq]
  norm_num

/-- **the achromatic signal of `Xyz(0, 0, 1/2)` is negative**: `R_c = −2.57`, `G_c = 2.29`, `B_c = 47.7`; the compression is monotone and
    sub-linear, so `2R_a + G_a + 0.05B_a ≤ (−2 + 1 + 0.05·19)·|R_a| < 0` -/
theorem witness_achromatic_neg : achromaticSignal (forward witnessXyz (prepareParameters witnessPrm)) < 0 := by
  have P := prepare_positive witness_valid
  set fL := (prepareParameters witnessPrm).adaptFL with hfL
  have hf : 0 < fL := P.fL
  obtain ⟨e0, e1, e2⟩ := forward_adapted witnessXyz (prepareParameters witnessPrm)
  have c0 : (coneAdapted witnessXyz (prepareParameters witnessPrm)).c0 = -2.57305 := by
    simp only [coneAdapted, mul3, witness_dRgb, witnessXyz, m16_eq]; norm_num
  have c1 : (coneAdapted witnessXyz (prepareParameters witnessPrm)).c1 = 2.2927 := by
    simp only [coneAdapted, mul3, witness_dRgb, witnessXyz, m16_eq]; norm_num
  have c2 : (coneAdapted witnessXyz (prepareParameters witnessPrm)).c2 = 47.65635 := by
    simp only [coneAdapted, mul3, witness_dRgb, witnessXyz, m16_eq]; norm_num
  rw [c0] at e0; rw [c1] at e1; rw [c2] at e2
  rw [show (-2.57305:ℝ) = -(2.57305:ℝ) by norm_num, adaptRun_neg, adaptRun_pos_eq_mag (by norm_num)] at e0
  rw [adaptRun_pos_eq_mag (by norm_num)] at e1 e2
  have m0 : 0 < adaptMag fL 2.57305 := by
    rw [adaptMag_eq_gOf]; apply gOf_pos; apply Real.rpow_pos_of_pos
    have : (0:ℝ) < |2.57305| := by norm_num
    positivity
  have m1 : adaptMag fL 2.2927 ≤ adaptMag fL 2.57305 := adaptMag_le_of_abs_le hf (by
    rw [abs_of_pos (by norm_num), abs_of_pos (by norm_num)]; norm_num)
  have m2 : adaptMag fL 47.65635 ≤ 19 * adaptMag fL 2.57305 := adaptMag_le_scale hf (by norm_num) (by
    rw [abs_of_pos (by norm_num), abs_of_pos (by norm_num)]; norm_num)
  unfold achromaticSignal
  rw [e0, e1, e2]
  norm_num
  nlinarith

/-- **witness outside the domain**: for the rational colour `Xyz(0, 0, 1/2)` under the rational raw viewing conditions `witnessPrm`
    (inside the documented domain) the forward model's `J_root` is poison — the power of a negative number, `NaN` in `f32`/`f64` — and so
    are lightness, brightness and chroma of `Cam16::from_xyz`.  The colour is not in `InDomain`, and the round trip cannot hold. -/
theorem witness_outside :
    ¬ InDomain witnessXyz (prepareParameters witnessPrm) ∧
    (forward witnessXyz.lift (prepareParameters (liftParameters witnessPrm))).jRoot = poison ∧
    (xyzToCam16 witnessXyz.lift (prepareParameters (liftParameters witnessPrm))).lightness = poison ∧
    (xyzToCam16 witnessXyz.lift (prepareParameters (liftParameters witnessPrm))).brightness = poison ∧
    (xyzToCam16 witnessXyz.lift (prepareParameters (liftParameters witnessPrm))).chroma = poison := by
  have P := prepare_positive witness_valid
  have hj : (forward witnessXyz.lift (prepareParameters (liftParameters witnessPrm))).jRoot = poison := by
    rw [prepare_defined witness_valid]
    exact forward_jRoot_poison _ _ P witness_achromatic_neg
  refine ⟨fun D => absurd D.achromatic (not_le.mpr witness_achromatic_neg), hj, ?_, ?_, ?_⟩
  · simp only [xyzToCam16, calculateLightness, hj, mul_none, none_mul]
  · simp only [xyzToCam16, calculateBrightness, hj, mul_none, none_mul]
  · simp only [xyzToCam16, calculateChroma, hj, mul_none, none_mul]

/-- non-vacuity of `forward_defined`: the mid grey of `grey_inDomain` is evaluated without poison -/
example :
    let prm : Parameters ℝ := ⟨⟨0.95047, 1.0, 1.08883⟩, 40.0, 0.2, .average, .auto⟩
    forward (⟨0.2, 0.2, 0.2⟩ : V3 ℝ).lift (prepareParameters (liftParameters prm)) = liftFwd (forward ⟨0.2, 0.2, 0.2⟩ (prepareParameters prm)) := by
  intro prm
  rw [prepare_defined (validRaw_d65 .average .auto)]
  exact forward_defined _ _ (prepare_positive (validRaw_d65 .average .auto)) grey_inDomain.1

end C16
