/-
  Source-text tie of the struct-of-arrays collections (C18), part 2: `hsv`.

  `Gen/BodiesSoa.lean` is regenerated on every run from the *current* text of `palette/src/macros/struct_of_arrays.rs` (the four
  macros, expanded at the actual invocations of one type per shape) and of `alpha::Iter` / `Extend` / `FromIterator` in
  `alpha/alpha.rs` (tools/rust2lean_soa.py).  Each theorem `tie_<name>` states that the translated body, *for every component type
  and every state*, is the model function the driver executes and the C18 theorems are about: one operation of `Soa.step`
  (PaletteModel/Soa.lean) resp. `Soa.nstep` (SoaNested.lean), or one step of the model iterators `Soa.Zip` / `Soa.NZip`.
  The translated term keeps the statement order of the Rust body (state passing), so the ties say in particular: the columns are
  walked in the order (hue, elements.., alpha); the same index / range goes to every column; `next()` of every column is taken
  before the all-`Some` test; a panic of `Vec::drain` in column `j` leaves the columns before `j` drained and the others untouched
  (`Soa.drainPanicState`), and in `Alpha` the colour's drain comes first.  Proofs: case split on the literal column vector,
  unfolding, `simp` with the literal-vector lemmas of `Lemmas/SoaTie.lean`.
-/
import PaletteModel.Gen.BodiesSoa
import PaletteProofs.Lemmas.SoaTie

namespace Tie
open Soa SoaPrim SoaTie

variable {α : Type}

set_option linter.unusedSimpArgs false

/-! ## `hsv`: 3 columns -/

theorem tie_hsvIntoIterArr (c : Cols α 3) : toZip (Gen.BodySoa.hsvIntoIterArr c) = Soa.Zip.ofCols c := by
  obtain ⟨a, b, c, rfl⟩ := vec3_cases c
  simp [Gen.BodySoa.hsvIntoIterArr, toZip, Zip.ofCols, colIntoIter]

theorem tie_hsvIntoIterSlice (c : Cols α 3) : toZip (Gen.BodySoa.hsvIntoIterSlice c) = Soa.Zip.ofCols c := by
  obtain ⟨a, b, c, rfl⟩ := vec3_cases c
  simp [Gen.BodySoa.hsvIntoIterSlice, toZip, Zip.ofCols, colIntoIter]

theorem tie_hsvIntoIterSliceMut (c : Cols α 3) : toZip (Gen.BodySoa.hsvIntoIterSliceMut c) = Soa.Zip.ofCols c := by
  obtain ⟨a, b, c, rfl⟩ := vec3_cases c
  simp [Gen.BodySoa.hsvIntoIterSliceMut, toZip, Zip.ofCols, colIntoIter]

theorem tie_hsvIntoIterVec (c : Cols α 3) : toZip (Gen.BodySoa.hsvIntoIterVec c) = Soa.Zip.ofCols c := by
  obtain ⟨a, b, c, rfl⟩ := vec3_cases c
  simp [Gen.BodySoa.hsvIntoIterVec, toZip, Zip.ofCols, colIntoIter]

theorem tie_hsvIntoIterRefArr (c : Cols α 3) : toZip (Gen.BodySoa.hsvIntoIterRefArr c) = Soa.Zip.ofCols c := by
  obtain ⟨a, b, c, rfl⟩ := vec3_cases c
  simp [Gen.BodySoa.hsvIntoIterRefArr, toZip, Zip.ofCols, colIntoIter]

theorem tie_hsvIntoIterRefSlice (c : Cols α 3) : toZip (Gen.BodySoa.hsvIntoIterRefSlice c) = Soa.Zip.ofCols c := by
  obtain ⟨a, b, c, rfl⟩ := vec3_cases c
  simp [Gen.BodySoa.hsvIntoIterRefSlice, toZip, Zip.ofCols, colIntoIter]

theorem tie_hsvIntoIterRefSliceMut (c : Cols α 3) : toZip (Gen.BodySoa.hsvIntoIterRefSliceMut c) = Soa.Zip.ofCols c := by
  obtain ⟨a, b, c, rfl⟩ := vec3_cases c
  simp [Gen.BodySoa.hsvIntoIterRefSliceMut, toZip, Zip.ofCols, colIntoIter]

theorem tie_hsvIntoIterRefVec (c : Cols α 3) : toZip (Gen.BodySoa.hsvIntoIterRefVec c) = Soa.Zip.ofCols c := by
  obtain ⟨a, b, c, rfl⟩ := vec3_cases c
  simp [Gen.BodySoa.hsvIntoIterRefVec, toZip, Zip.ofCols, colIntoIter]

theorem tie_hsvIntoIterRefBox (c : Cols α 3) : toZip (Gen.BodySoa.hsvIntoIterRefBox c) = Soa.Zip.ofCols c := by
  obtain ⟨a, b, c, rfl⟩ := vec3_cases c
  simp [Gen.BodySoa.hsvIntoIterRefBox, toZip, Zip.ofCols, colIntoIter]

theorem tie_hsvIntoIterMutArr (c : Cols α 3) : toZip (Gen.BodySoa.hsvIntoIterMutArr c) = Soa.Zip.ofCols c := by
  obtain ⟨a, b, c, rfl⟩ := vec3_cases c
  simp [Gen.BodySoa.hsvIntoIterMutArr, toZip, Zip.ofCols, colIntoIter]

theorem tie_hsvIntoIterMutSliceMut (c : Cols α 3) : toZip (Gen.BodySoa.hsvIntoIterMutSliceMut c) = Soa.Zip.ofCols c := by
  obtain ⟨a, b, c, rfl⟩ := vec3_cases c
  simp [Gen.BodySoa.hsvIntoIterMutSliceMut, toZip, Zip.ofCols, colIntoIter]

theorem tie_hsvIntoIterMutVec (c : Cols α 3) : toZip (Gen.BodySoa.hsvIntoIterMutVec c) = Soa.Zip.ofCols c := by
  obtain ⟨a, b, c, rfl⟩ := vec3_cases c
  simp [Gen.BodySoa.hsvIntoIterMutVec, toZip, Zip.ofCols, colIntoIter]

theorem tie_hsvIntoIterMutBox (c : Cols α 3) : toZip (Gen.BodySoa.hsvIntoIterMutBox c) = Soa.Zip.ofCols c := by
  obtain ⟨a, b, c, rfl⟩ := vec3_cases c
  simp [Gen.BodySoa.hsvIntoIterMutBox, toZip, Zip.ofCols, colIntoIter]

theorem tie_hsvIter (c : Cols α 3) : toZip (Gen.BodySoa.hsvIter c) = Soa.Zip.ofCols c := tie_hsvIntoIterRefVec c

theorem tie_hsvIterMut (c : Cols α 3) : toZip (Gen.BodySoa.hsvIterMut c) = Soa.Zip.ofCols c := tie_hsvIntoIterMutVec c

theorem tie_hsvIterNext (it : Vector (ColIter α) 3) :
    (toZip (Gen.BodySoa.hsvIterNext it).1, (Gen.BodySoa.hsvIterNext it).2) = Soa.Zip.next (toZip it) none := by
  obtain ⟨a, b, c, rfl⟩ := vec3_cases it
  simp [Gen.BodySoa.hsvIterNext, Zip.next, toZip, ColIter.next, allSome3, ofFn3, map3, firstLen3, drainPanicState3, emptyCols3]
  repeat' constructor
  all_goals rfl

theorem tie_hsvIterNextBack (it : Vector (ColIter α) 3) :
    (toZip (Gen.BodySoa.hsvIterNextBack it).1, (Gen.BodySoa.hsvIterNextBack it).2) = Soa.Zip.nextBack (toZip it) none := by
  obtain ⟨a, b, c, rfl⟩ := vec3_cases it
  simp [Gen.BodySoa.hsvIterNextBack, Zip.nextBack, toZip, ColIter.nextBack, allSome3, ofFn3, map3, firstLen3, drainPanicState3, emptyCols3]
  repeat' constructor
  all_goals rfl

theorem tie_hsvIterLen (it : Vector (ColIter α) 3) : Gen.BodySoa.hsvIterLen it = Soa.Zip.len (toZip it) := by
  obtain ⟨a, b, c, rfl⟩ := vec3_cases it
  simp [Gen.BodySoa.hsvIterLen, Zip.len, toZip, ColIter.len, allSome3, ofFn3, map3, firstLen3, drainPanicState3, emptyCols3]

theorem tie_hsvIterSizeHint (it : Vector (ColIter α) 3) : Gen.BodySoa.hsvIterSizeHint it = Soa.Zip.sizeHint (toZip it) := by
  obtain ⟨a, b, c, rfl⟩ := vec3_cases it
  simp [Gen.BodySoa.hsvIterSizeHint, Zip.sizeHint, toZip, ColIter.sizeHint, allSome3, ofFn3, map3, firstLen3, drainPanicState3, emptyCols3]

theorem tie_hsvIterCount (it : Vector (ColIter α) 3) : Gen.BodySoa.hsvIterCount it = Soa.Zip.count (toZip it) := by
  obtain ⟨a, b, c, rfl⟩ := vec3_cases it
  simp [Gen.BodySoa.hsvIterCount, Zip.count, toZip, ColIter.count, allSome3, ofFn3, map3, firstLen3, drainPanicState3, emptyCols3]

/-- the same index / range goes to every column, in column order, and the result exists iff every column has one -/
theorem hsvGet_eq (s : Cols α 3) (i : Nat) : Gen.BodySoa.hsvGet s i = allSome (s.map (·[i]?)) := by
  obtain ⟨a, b, c, rfl⟩ := vec3_cases s
  simp [Gen.BodySoa.hsvGet, sliceGet, allSome3, ofFn3, map3, firstLen3, drainPanicState3, emptyCols3]
  all_goals (cases a[i]? <;> cases b[i]? <;> cases c[i]? <;> rfl)

/-- the same index / range goes to every column, in column order, and the result exists iff every column has one -/
theorem hsvGetMut_eq (s : Cols α 3) (i : Nat) : Gen.BodySoa.hsvGetMut s i = allSome (s.map (·[i]?)) := by
  obtain ⟨a, b, c, rfl⟩ := vec3_cases s
  simp [Gen.BodySoa.hsvGetMut, sliceGetMut, allSome3, ofFn3, map3, firstLen3, drainPanicState3, emptyCols3]
  all_goals (cases a[i]? <;> cases b[i]? <;> cases c[i]? <;> rfl)

/-- the same index / range goes to every column, in column order, and the result exists iff every column has one -/
theorem hsvGetRange_eq (s : Cols α 3) (i : Rng) : Gen.BodySoa.hsvGetRange s i = allSome (s.map (sliceCol i)) := by
  obtain ⟨a, b, c, rfl⟩ := vec3_cases s
  simp [Gen.BodySoa.hsvGetRange, sliceGetRange, allSome3, ofFn3, map3, firstLen3, drainPanicState3, emptyCols3]
  all_goals (cases sliceCol i a <;> cases sliceCol i b <;> cases sliceCol i c <;> rfl)

/-- the same index / range goes to every column, in column order, and the result exists iff every column has one -/
theorem hsvGetMutRange_eq (s : Cols α 3) (i : Rng) : Gen.BodySoa.hsvGetMutRange s i = allSome (s.map (splitCol i)) := by
  obtain ⟨a, b, c, rfl⟩ := vec3_cases s
  simp [Gen.BodySoa.hsvGetMutRange, sliceGetMutRange, allSome3, ofFn3, map3, firstLen3, drainPanicState3, emptyCols3]
  all_goals (cases splitCol i a <;> cases splitCol i b <;> cases splitCol i c <;> rfl)

theorem tie_hsvGet (s : Cols α 3) (i : Nat) : (s, Obs.item (Gen.BodySoa.hsvGet s i)) = Soa.step s (.get i) := by
  rw [hsvGet_eq]; rfl

theorem tie_hsvGetRange (s : Cols α 3) (r : Rng) (script : List (Step α 3)) :
    obsSlice s (Gen.BodySoa.hsvGetRange s r) script = Soa.step s (.getRange r script) := by
  rw [hsvGetRange_eq]
  simp only [Soa.step, obsSlice]
  cases allSome (s.map (sliceCol r)) <;> rfl

theorem tie_hsvGetMut (s : Cols α 3) (i : Nat) (w : Row α 3) :
    obsGetMut s (Gen.BodySoa.hsvGetMut s i) i w = Soa.step s (.getMut i w) := by
  rw [hsvGetMut_eq]
  simp only [Soa.step, obsGetMut]
  cases allSome (s.map (·[i]?)) <;> rfl

theorem tie_hsvGetMutRange (s : Cols α 3) (r : Rng) (script : List (Step α 3)) :
    obsSplit s (Gen.BodySoa.hsvGetMutRange s r) script = Soa.step s (.getMutRange r script) := by
  rw [hsvGetMutRange_eq]
  simp only [Soa.step, obsSplit]
  cases allSome (s.map (splitCol r)) <;> rfl

theorem tie_hsvWithCapacity (n : Nat) (s : Cols α 3) : Gen.BodySoa.hsvWithCapacity n = (Soa.step s .withCapacity).1 := by
  simp [Gen.BodySoa.hsvWithCapacity, Soa.step, emptyCols3, vecWithCapacity]

theorem tie_hsvPush (s : Cols α 3) (r : Row α 3) : Gen.BodySoa.hsvPush s r = (Soa.step s (.push r)).1 := by
  obtain ⟨a, b, c, rfl⟩ := vec3_cases s
  obtain ⟨ra, rb, rc, rfl⟩ := vec3_cases r
  simp [Gen.BodySoa.hsvPush, Soa.step, pushRow, vecPush]

theorem tie_hsvPop (s : Cols α 3) : obsItem (Gen.BodySoa.hsvPop s) = Soa.step s .pop := by
  obtain ⟨a, b, c, rfl⟩ := vec3_cases s
  simp [Gen.BodySoa.hsvPop, Soa.step, obsItem, vecPop, allSome3, ofFn3, map3, firstLen3, drainPanicState3, emptyCols3]
  all_goals (cases a.getLast? <;> cases b.getLast? <;> cases c.getLast? <;> first | rfl | simp)

theorem tie_hsvClear (s : Cols α 3) : Gen.BodySoa.hsvClear s = (Soa.step s .clear).1 := by
  obtain ⟨a, b, c, rfl⟩ := vec3_cases s
  simp [Gen.BodySoa.hsvClear, Soa.step, vecClear]

/-- the translated `drain`, as one case split: all columns resolve the range (every column loses it, the iterator holds what was removed), or the
    receiver is left as the model's `drainPanicState` (statement order: the columns before the first failing one are already drained) -/
theorem hsvDrain_eq (s : Cols α 3) (r : Rng) :
    Gen.BodySoa.hsvDrain s r = (match allSome (s.map (drainCol r)) with
      | some v => .ok (v.map (·.1)) (v.map fun p => colIntoIter p.2)
      | none => .panic (drainPanicState s (s.map (drainCol r)))) := by
  obtain ⟨a, b, c, rfl⟩ := vec3_cases s
  simp only [Gen.BodySoa.hsvDrain, vecDrain, allSome3, ofFn3, map3, firstLen3, drainPanicState3, emptyCols3]
  cases ha : drainCol r a <;> cases hb : drainCol r b <;> cases hc : drainCol r c <;> simp [ha, hb, hc]

theorem tie_hsvDrain (s : Cols α 3) (r : Rng) (script : List (Step α 3)) :
    obsDrain (Gen.BodySoa.hsvDrain s r) script = Soa.step s (.drain r script) := by
  rw [hsvDrain_eq]
  simp only [Soa.step]
  cases allSome (s.map (drainCol r)) with
  | none => rfl
  | some v =>
    obtain ⟨va, vb, vc, rfl⟩ := vec3_cases v
    simp [obsDrain, runRead, toZip, Zip.ofCols, colIntoIter]

theorem tie_hsvExtend (s : Cols α 3) (rs : List (Row α 3)) : Gen.BodySoa.hsvExtend s rs = (Soa.step s (.extend rs)).1 := by
  simp only [Gen.BodySoa.hsvExtend, Soa.step, extendRows, SoaPrim.forIn]
  congr 1
  funext s r
  obtain ⟨a, b, c, rfl⟩ := vec3_cases s
  obtain ⟨ra, rb, rc, rfl⟩ := vec3_cases r
  simp [pushRow, vecExtendOnce]

theorem tie_hsvFromIter (s : Cols α 3) (rs : List (Row α 3)) : Gen.BodySoa.hsvFromIter rs = (Soa.step s (.collect rs)).1 := by
  simp only [Gen.BodySoa.hsvFromIter, tie_hsvExtend, Soa.step]
  simp [emptyCols3, vecDefault]

/-! ### `Alpha<hsv<..>, ..>` -/

theorem tie_hsvaIntoIterArr (n : Nest α 3) : toNZip (Gen.BodySoa.hsvaIntoIterArr n) = Soa.NZip.ofParts n.color n.alpha := by
  simp only [Gen.BodySoa.hsvaIntoIterArr, toNZip, nzipOf, NZip.ofParts, colIntoIter]
  congr 1
  first | exact tie_hsvIntoIterArr _ | exact tie_hsvIntoIterArr _ | exact tie_hsvIntoIterRefArr _ | exact tie_hsvIntoIterMutArr _

theorem tie_hsvaIntoIterSlice (n : Nest α 3) : toNZip (Gen.BodySoa.hsvaIntoIterSlice n) = Soa.NZip.ofParts n.color n.alpha := by
  simp only [Gen.BodySoa.hsvaIntoIterSlice, toNZip, nzipOf, NZip.ofParts, colIntoIter]
  congr 1
  first | exact tie_hsvIntoIterSlice _ | exact tie_hsvIntoIterSlice _ | exact tie_hsvIntoIterRefSlice _ | exact tie_hsvIntoIterMutSlice _

theorem tie_hsvaIntoIterSliceMut (n : Nest α 3) : toNZip (Gen.BodySoa.hsvaIntoIterSliceMut n) = Soa.NZip.ofParts n.color n.alpha := by
  simp only [Gen.BodySoa.hsvaIntoIterSliceMut, toNZip, nzipOf, NZip.ofParts, colIntoIter]
  congr 1
  first | exact tie_hsvIntoIterSliceMut _ | exact tie_hsvIntoIterSliceMut _ | exact tie_hsvIntoIterRefSliceMut _ | exact tie_hsvIntoIterMutSliceMut _

theorem tie_hsvaIntoIterVec (n : Nest α 3) : toNZip (Gen.BodySoa.hsvaIntoIterVec n) = Soa.NZip.ofParts n.color n.alpha := by
  simp only [Gen.BodySoa.hsvaIntoIterVec, toNZip, nzipOf, NZip.ofParts, colIntoIter]
  congr 1
  first | exact tie_hsvIntoIterVec _ | exact tie_hsvIntoIterVec _ | exact tie_hsvIntoIterRefVec _ | exact tie_hsvIntoIterMutVec _

theorem tie_hsvaIntoIterRefArr (n : Nest α 3) : toNZip (Gen.BodySoa.hsvaIntoIterRefArr n) = Soa.NZip.ofParts n.color n.alpha := by
  simp only [Gen.BodySoa.hsvaIntoIterRefArr, toNZip, nzipOf, NZip.ofParts, colIntoIter]
  congr 1
  first | exact tie_hsvIntoIterRefArr _ | exact tie_hsvIntoIterArr _ | exact tie_hsvIntoIterRefArr _ | exact tie_hsvIntoIterMutArr _

theorem tie_hsvaIntoIterRefSlice (n : Nest α 3) : toNZip (Gen.BodySoa.hsvaIntoIterRefSlice n) = Soa.NZip.ofParts n.color n.alpha := by
  simp only [Gen.BodySoa.hsvaIntoIterRefSlice, toNZip, nzipOf, NZip.ofParts, colIntoIter]
  congr 1
  first | exact tie_hsvIntoIterRefSlice _ | exact tie_hsvIntoIterSlice _ | exact tie_hsvIntoIterRefSlice _ | exact tie_hsvIntoIterMutSlice _

theorem tie_hsvaIntoIterRefSliceMut (n : Nest α 3) : toNZip (Gen.BodySoa.hsvaIntoIterRefSliceMut n) = Soa.NZip.ofParts n.color n.alpha := by
  simp only [Gen.BodySoa.hsvaIntoIterRefSliceMut, toNZip, nzipOf, NZip.ofParts, colIntoIter]
  congr 1
  first | exact tie_hsvIntoIterRefSliceMut _ | exact tie_hsvIntoIterSliceMut _ | exact tie_hsvIntoIterRefSliceMut _ | exact tie_hsvIntoIterMutSliceMut _

theorem tie_hsvaIntoIterRefVec (n : Nest α 3) : toNZip (Gen.BodySoa.hsvaIntoIterRefVec n) = Soa.NZip.ofParts n.color n.alpha := by
  simp only [Gen.BodySoa.hsvaIntoIterRefVec, toNZip, nzipOf, NZip.ofParts, colIntoIter]
  congr 1
  first | exact tie_hsvIntoIterRefVec _ | exact tie_hsvIntoIterVec _ | exact tie_hsvIntoIterRefVec _ | exact tie_hsvIntoIterMutVec _

theorem tie_hsvaIntoIterRefBox (n : Nest α 3) : toNZip (Gen.BodySoa.hsvaIntoIterRefBox n) = Soa.NZip.ofParts n.color n.alpha := by
  simp only [Gen.BodySoa.hsvaIntoIterRefBox, toNZip, nzipOf, NZip.ofParts, colIntoIter]
  congr 1
  first | exact tie_hsvIntoIterRefBox _ | exact tie_hsvIntoIterBox _ | exact tie_hsvIntoIterRefBox _ | exact tie_hsvIntoIterMutBox _

theorem tie_hsvaIntoIterMutArr (n : Nest α 3) : toNZip (Gen.BodySoa.hsvaIntoIterMutArr n) = Soa.NZip.ofParts n.color n.alpha := by
  simp only [Gen.BodySoa.hsvaIntoIterMutArr, toNZip, nzipOf, NZip.ofParts, colIntoIter]
  congr 1
  first | exact tie_hsvIntoIterMutArr _ | exact tie_hsvIntoIterArr _ | exact tie_hsvIntoIterRefArr _ | exact tie_hsvIntoIterMutArr _

theorem tie_hsvaIntoIterMutSliceMut (n : Nest α 3) : toNZip (Gen.BodySoa.hsvaIntoIterMutSliceMut n) = Soa.NZip.ofParts n.color n.alpha := by
  simp only [Gen.BodySoa.hsvaIntoIterMutSliceMut, toNZip, nzipOf, NZip.ofParts, colIntoIter]
  congr 1
  first | exact tie_hsvIntoIterMutSliceMut _ | exact tie_hsvIntoIterSliceMut _ | exact tie_hsvIntoIterRefSliceMut _ | exact tie_hsvIntoIterMutSliceMut _

theorem tie_hsvaIntoIterMutVec (n : Nest α 3) : toNZip (Gen.BodySoa.hsvaIntoIterMutVec n) = Soa.NZip.ofParts n.color n.alpha := by
  simp only [Gen.BodySoa.hsvaIntoIterMutVec, toNZip, nzipOf, NZip.ofParts, colIntoIter]
  congr 1
  first | exact tie_hsvIntoIterMutVec _ | exact tie_hsvIntoIterVec _ | exact tie_hsvIntoIterRefVec _ | exact tie_hsvIntoIterMutVec _

theorem tie_hsvaIntoIterMutBox (n : Nest α 3) : toNZip (Gen.BodySoa.hsvaIntoIterMutBox n) = Soa.NZip.ofParts n.color n.alpha := by
  simp only [Gen.BodySoa.hsvaIntoIterMutBox, toNZip, nzipOf, NZip.ofParts, colIntoIter]
  congr 1
  first | exact tie_hsvIntoIterMutBox _ | exact tie_hsvIntoIterBox _ | exact tie_hsvIntoIterRefBox _ | exact tie_hsvIntoIterMutBox _

theorem tie_hsvaWithCapacity (c : Nat) (n : Nest α 3) : Gen.BodySoa.hsvaWithCapacity c = (Soa.nstep n .withCapacity).1 := by
  simp only [Gen.BodySoa.hsvaWithCapacity, Soa.nstep, tie_hsvWithCapacity c n.color]
  rfl

theorem tie_hsvaPush (n : Nest α 3) (r : Row α (3 + 1)) : Gen.BodySoa.hsvaPush n r = (Soa.nstep n (.push r)).1 := by
  simp only [Gen.BodySoa.hsvaPush, Soa.nstep, tie_hsvPush]
  rfl

theorem tie_hsvaPop (n : Nest α 3) : obsItemN (Gen.BodySoa.hsvaPop n) = Soa.nstep n .pop := by
  have h := tie_hsvPop n.color
  simp only [obsItem] at h
  simp only [Gen.BodySoa.hsvaPop, Soa.nstep, obsItemN, vecPop, ← h, itemOf]
  cases (Gen.BodySoa.hsvPop n.color).2 <;> cases n.alpha.getLast? <;> rfl

theorem tie_hsvaClear (n : Nest α 3) : Gen.BodySoa.hsvaClear n = (Soa.nstep n .clear).1 := by
  simp only [Gen.BodySoa.hsvaClear, Soa.nstep, tie_hsvClear]
  rfl

theorem tie_hsvaDrain (n : Nest α 3) (r : Rng) (script : List (Step α (3 + 1))) :
    obsDrainN (Gen.BodySoa.hsvaDrain n r) script = Soa.nstep n (.drain r script) := by
  simp only [Gen.BodySoa.hsvaDrain, Soa.nstep, Soa.step, hsvDrain_eq, vecDrain]
  cases allSome (n.color.map (drainCol r)) with
  | none => rfl
  | some v =>
    cases drainCol r n.alpha with
    | none => rfl
    | some pa =>
      obtain ⟨va, vb, vc, rfl⟩ := vec3_cases v
      simp [obsDrainN, nrunRead, toNZip, nzipOf, NZip.ofParts, toZip, Zip.ofCols, colIntoIter]

theorem tie_hsvaGet (n : Nest α 3) (i : Nat) : (n, Obs.item (Gen.BodySoa.hsvaGet n i)) = Soa.nstep n (.get i) := by
  simp only [Gen.BodySoa.hsvaGet, Soa.nstep, Soa.step, sliceGet, hsvGet_eq, itemOf]
  cases allSome (n.color.map (·[i]?)) <;> cases n.alpha[i]? <;> rfl

theorem tie_hsvaGetRange (n : Nest α 3) (r : Rng) (script : List (Step α (3 + 1))) :
    obsSliceN n (Gen.BodySoa.hsvaGetRange n r) script = Soa.nstep n (.getRange r script) := by
  simp only [Gen.BodySoa.hsvaGetRange, Soa.nstep, sliceGetRange, hsvGetRange_eq]
  cases allSome (n.color.map (sliceCol r)) <;> cases sliceCol r n.alpha <;> rfl

theorem tie_hsvaGetMut (n : Nest α 3) (i : Nat) (w : Row α (3 + 1)) :
    obsGetMutN n (Gen.BodySoa.hsvaGetMut n i) i w = Soa.nstep n (.getMut i w) := by
  simp only [Gen.BodySoa.hsvaGetMut, Soa.nstep, Soa.step, sliceGetMut, hsvGetMut_eq, itemOf]
  cases h : allSome (n.color.map (·[i]?)) <;> cases n.alpha[i]? <;> first | rfl | simp [obsGetMutN, h]

theorem tie_hsvaGetMutRange (n : Nest α 3) (r : Rng) (script : List (Step α (3 + 1))) :
    obsSplitN n (Gen.BodySoa.hsvaGetMutRange n r) script = Soa.nstep n (.getMutRange r script) := by
  simp only [Gen.BodySoa.hsvaGetMutRange, Soa.nstep, sliceGetMutRange, hsvGetMutRange_eq]
  cases allSome (n.color.map (splitCol r)) <;> cases splitCol r n.alpha <;> rfl

end Tie
