/-
  C05 — **the `f64 → u8` fast path** (`FromLinear<f64, u8>`: `from_linear(linear as f32)`, model `Lut.fromLinearU8_f64`), for every
  f64 bit pattern:

    fromLinearU8_f64_faithful   every pattern `B ≤ 0x3ff0000000000000` (+0, subnormals, normals up to 1.0): the code is within 0.6 of
                                `255·curve(x)` with the curve evaluated at the EXACT double `x = f64val B` (not at the rounded f32);
                                the constant is the same 0.6 as for f32 inputs
    fromLinearU8_f64_is_rounding any integer within 0.4 of `255·curve(x)` is the code returned
    fromLinearU8_f64_low        sign bit set (negative numbers, −0, −∞, negative NaN), +0, and positive NaN give code 0
    fromLinearU8_f64_high       every pattern from 1.0 up to +∞ gives 255
    fromLinearU8_f64_mono       monotone over EVERY pair of non-NaN f64 patterns in IEEE order

  Proof: `Stim.f64ToF32` is the correctly rounded narrowing (`C06.f64ToF32_spec`, IEEE layer), so the exact value is within half an ulp
  of the f32 pattern handed to the table path (`C05F.narrow_near`), and `C05M.fromLinearU8_faithful_near` bounds the error at every such
  real; monotone narrowing ∘ monotone f32 encoder (`C05.fromLinearU8_mono`).
-/
import PaletteProofs.C05_MidBound
import PaletteProofs.Lemmas.C05_NarrowVal

namespace C05F
open Lut Transfer C05 C05E C05M Ieee Float.Model Float.Model.UnpackedFloat

theorem fromLinearU8_f64_eq (e : Enc) (B : Nat) : fromLinearU8_f64 e B = fromLinearU8 e (narrow B) := rfl

theorem f64val_unit (B : Nat) (hB : B ≤ 0x3ff0000000000000) : 0 ≤ f64val B ∧ f64val B ≤ 1 := by
  obtain ⟨h0, h1⟩ := v_le_one B hB
  rw [f64val_eq_v B (by omega)]
  exact ⟨by exact_mod_cast h0, by exact_mod_cast h1⟩

/-! ### reading bit patterns off the unpacked form -/

theorem R32_zero : F32.R32 0 = 0 := Rs_zero F32.spec

theorem p_lits : (2:Nat)^23 = 8388608 ∧ (2:Nat)^8 = 256 ∧ (2:Nat)^31 = 2147483648 := by decide

theorem v_nonpos_of_sign (y : Float32) (hs : F32.fS y.toBits.toNat ≠ 0) : F32.v y ≤ 0 := by
  unfold F32.v
  rw [F32.U_bits]
  have hsg : F32.signOf y.toBits.toNat = .negative := by unfold F32.signOf; rw [if_neg hs]
  rw [hsg]
  split
  · split <;> simp [val]
  · split
    · split <;> simp [val, sgn]
    · simp only [val, sgn]
      have : (0:ℚ) < 2 ^ ((F32.fE y.toBits.toNat : ℤ) - 150) := two_zpow_pos _
      have h2 : (0:ℚ) ≤ ((2 ^ 23 + F32.fM y.toBits.toNat : ℕ) : ℚ) := by positivity
      nlinarith

theorem bits_of_nan {y : Float32} (h : F32.U y = .notANumber) :
    y.toBits.toNat ≥ 0x80000000 ∨ y.toBits.toNat > 0x7f800000 := by
  rw [F32.U_bits] at h
  by_cases c1 : F32.fE y.toBits.toNat = 255
  · rw [if_pos c1] at h
    by_cases c2 : F32.fM y.toBits.toNat = 0
    · rw [if_pos c2] at h; cases h
    · unfold F32.fE at c1; unfold F32.fM at c2
      rw [p_lits.1] at c1 c2; rw [p_lits.2.1] at c1
      omega
  · rw [if_neg c1] at h
    split at h
    · split at h <;> cases h
    · cases h

theorem bits_of_inf {y : Float32} {s : Sign} (h : F32.U y = .infinity s) :
    (s = .positive → y.toBits.toNat = 0x7f800000) ∧ (s = .negative → y.toBits.toNat ≥ 0x80000000) := by
  rw [F32.U_bits] at h
  have hlt : y.toBits.toNat < 2^32 := y.toBits.toNat_lt
  by_cases c1 : F32.fE y.toBits.toNat = 255
  · rw [if_pos c1] at h
    by_cases c2 : F32.fM y.toBits.toNat = 0
    · rw [if_pos c2] at h
      injection h with hsg
      unfold F32.signOf at hsg
      unfold F32.fE at c1; unfold F32.fM at c2
      rw [p_lits.1] at c1 c2; rw [p_lits.2.1] at c1
      constructor
      · intro hp; rw [hp] at hsg
        split at hsg
        · rename_i hz; unfold F32.fS at hz; rw [p_lits.2.2] at hz; omega
        · cases hsg
      · intro hn; rw [hn] at hsg
        split at hsg
        · cases hsg
        · rename_i hz; unfold F32.fS at hz; rw [p_lits.2.2] at hz; omega
    · rw [if_neg c2] at h; cases h
  · rw [if_neg c1] at h
    split at h
    · split at h <;> cases h
    · cases h

theorem bits_lt_inf {y : Float32} (hy : F32.IsFin y) (hs : F32.fS y.toBits.toNat = 0) : y.toBits.toNat < 0x7f800000 := by
  unfold F32.IsFin at hy
  rw [F32.U_bits] at hy
  by_cases c1 : F32.fE y.toBits.toNat = 255
  · rw [if_pos c1] at hy
    split at hy <;> simp [UnpackedFloat.isFinite] at hy
  · unfold F32.fE at c1; unfold F32.fS at hs
    rw [p_lits.1, p_lits.2.1] at c1; rw [p_lits.2.2] at hs
    omega

theorem bits_ge_one {y : Float32} (hy : F32.IsFin y) (h1 : 1 ≤ F32.v y) :
    0x3f800000 ≤ y.toBits.toNat ∧ y.toBits.toNat < 0x7f800000 := by
  have hs : F32.fS y.toBits.toNat = 0 := by
    by_contra hne
    have := v_nonpos_of_sign y hne
    linarith
  refine ⟨?_, bits_lt_inf hy hs⟩
  by_contra hlt
  rw [not_le] at hlt
  have hs1 : F32.fS 0x3f800000 = 0 := by decide
  have := F32.wOf_strictMono hs hs1 hlt
  rw [wOf_one32] at this
  rw [F32.v_bits_nonneg hy hs] at h1
  have hq : (F32.wOf y.toBits.toNat : ℚ) < 2 ^ 149 := by exact_mod_cast this
  rw [zpow_neg, zpow_ofNat, ← div_eq_mul_inv, le_div_iff₀ (by positivity)] at h1
  linarith

/-! ### the 0.6 bound at the exact double -/

/-- **0.6-code error bound, every f64 in [0, 1], all four 8-bit encoders**, against the curve at the exact double -/
theorem fromLinearU8_f64_faithful (e : Enc) (B : Nat) (hB : B ≤ 0x3ff0000000000000) :
    |(fromLinearU8_f64 e B : ℝ) - 255 * fromLinear (curveOf e) (f64val B)| < 0.6 := by
  obtain ⟨x0, x1⟩ := f64val_unit B hB
  rw [fromLinearU8_f64_eq]
  by_cases hs : F32.fS (narrow B) = 0
  · obtain ⟨hb, hn⟩ := narrow_near B hB hs
    exact fromLinearU8_faithful_near e (narrow B) hb (f64val B) x0 x1 hn
  · -- the result is −0 (cannot happen for a non-negative input, but no sign lemma is needed): same code as +0, and `x ≤ 2^-150`
    obtain ⟨fy, vy, y0, _⟩ := narrow_val B hB
    have hle := v_nonpos_of_sign _ hs
    have hv0 : F32.v (Stim.f64ToF32 (Float.ofBits (UInt64.ofNat B))) = 0 := le_antisymm hle y0
    have hcode : fromLinearU8 e (narrow B) = fromLinearU8 e 0 := by
      have hge : narrow B ≥ 0x80000000 := by
        have := (fS_zero_iff (narrow B)).not.mp hs
        rw [p_lits.2.2] at this; omega
      rw [low_saturates e _ (Or.inl hge), low_saturates e 0 (Or.inr (Or.inl rfl))]
    rw [hcode]
    refine fromLinearU8_faithful_near e 0 (by omega) (f64val B) x0 x1 ?_
    have hz0 := (v_le_one B hB).1
    have herr := R32_err (m := 0) (s := 1) hz0 (by norm_num) (le_refl _) (by rw [← vy, hv0]; simp)
    rw [← vy, hv0, zero_sub, abs_neg] at herr
    unfold Near
    rw [f32val_zero, sub_zero, f64val_eq_v B (by omega), expo_zero]
    have hc := (Rat.cast_le (K := ℝ)).mpr herr
    rw [Rat.cast_abs] at hc
    push_cast at hc
    have e1 : ((2:ℝ) ^ (-149:ℤ)) / 2 = 2 ^ 1 / 2 ^ 151 := by
      rw [zpow_neg, zpow_ofNat]
      have : (2:ℝ)^151 = 2^149 * 2 * 2 := by norm_num
      rw [this]; field_simp
    rw [e1] at hc
    exact hc

/-- any integer within 0.4 of `255·curve(x)` is the code returned for the double `x` -/
theorem fromLinearU8_f64_is_rounding (e : Enc) (B : Nat) (hB : B ≤ 0x3ff0000000000000) (n : Nat)
    (hn : |(n:ℝ) - 255 * fromLinear (curveOf e) (f64val B)| ≤ 0.4) : fromLinearU8_f64 e B = n := by
  have h := fromLinearU8_f64_faithful e B hB
  rw [abs_lt] at h
  rw [abs_le] at hn
  have h1 : ((fromLinearU8_f64 e B : ℕ) : ℝ) < (n:ℝ) + 1 := by linarith [h.1, h.2, hn.1, hn.2]
  have h2 : (n:ℝ) < ((fromLinearU8_f64 e B : ℕ) : ℝ) + 1 := by linarith [h.1, h.2, hn.1, hn.2]
  have h1' : fromLinearU8_f64 e B < n + 1 := by exact_mod_cast h1
  have h2' : n < fromLinearU8_f64 e B + 1 := by exact_mod_cast h2
  omega

/-- non-vacuity: the double 0.5 (pattern `0x3fe0000000000000`) is in range; sRGB encodes it as 188 -/
example : (0x3fe0000000000000 : Nat) ≤ 0x3ff0000000000000 ∧ fromLinearU8_f64 .srgb 0x3fe0000000000000 = 188 := by decide +kernel

/-! ### saturation at the ends, every f64 pattern -/

theorem fields64 (B : Nat) (hB : B < 2^64) :
    B = F64.fS B * 2^63 + F64.fE B * 2^52 + F64.fM B ∧ F64.fS B ≤ 1 := by
  unfold F64.fS F64.fE F64.fM
  have p63 : (2:Nat)^63 = 9223372036854775808 := by decide
  have p52 : (2:Nat)^52 = 4503599627370496 := by decide
  have p11 : (2:Nat)^11 = 2048 := by decide
  have p64 : (2:Nat)^64 = 18446744073709551616 := by decide
  rw [p64] at hB
  rw [p63, p52, p11]; omega

/-- value of a finite double of arbitrary sign -/
theorem ofBits_val_any (B : Nat) (hB : B < 2^64) (hE : F64.fE B ≠ 2047) :
    F64.IsFin (Float.ofBits (UInt64.ofNat B)) ∧
    F64.v (Float.ofBits (UInt64.ofNat B)) = sgn (F64.signOf B) * ((F64.wOf B : ℚ) * 2 ^ (-1074 : ℤ)) := by
  have hn := toNat_ofNat64 B hB
  obtain ⟨hf, hv⟩ := F64.ofBits_fin (a := UInt64.ofNat B) (by rw [hn]; exact hE)
  rw [hn] at hv
  exact ⟨hf, hv⟩

/-- the narrowing of a finite double of value `≤ 0` has code 0 -/
theorem code_of_nonpos (e : Enc) {x : Float} (hx : F64.IsFin x) (h0 : F64.v x ≤ 0) :
    fromLinearU8 e (Stim.f64ToF32 x).toBits.toNat = 0 := by
  obtain ⟨hfin, hinf⟩ := C06.f64ToF32_spec hx
  have hR : F32.R32 (F64.v x) ≤ 0 := by
    have := F32.R32_mono h0; rwa [R32_zero] at this
  rcases lt_or_ge |F32.R32 (F64.v x)| (2^128) with hlt | hge
  · obtain ⟨fy, vy⟩ := hfin hlt
    rcases bits_of_nonpos fy (by rw [vy]; exact hR) with h | h
    · exact low_saturates e _ (Or.inl h)
    · exact low_saturates e _ (Or.inr (Or.inl h))
  · have hU := hinf hge
    -- the value is negative, so the sign of the pattern is
    obtain ⟨hv, _⟩ := C06.v64_fields hx
    have hneg : F64.v x < 0 := by
      rcases lt_or_eq_of_le h0 with h | h
      · exact h
      · rw [h, R32_zero, abs_zero] at hge; norm_num at hge
    have hsg : F64.signOf x.toBits.toNat = .negative := by
      cases hc : F64.signOf x.toBits.toNat
      · rfl
      · rw [hc] at hv
        have : (0:ℚ) ≤ (F64.wOf x.toBits.toNat : ℚ) * 2 ^ (-1074 : ℤ) := by positivity
        simp only [sgn, one_mul] at hv
        linarith
    rw [hsg] at hU
    exact low_saturates e _ (Or.inl ((bits_of_inf hU).2 rfl))

/-- the narrowing of a finite double of value `≥ 1` has code 255 -/
theorem code_of_ge_one (e : Enc) {x : Float} (hx : F64.IsFin x) (h1 : 1 ≤ F64.v x) :
    fromLinearU8 e (Stim.f64ToF32 x).toBits.toNat = 255 := by
  obtain ⟨hfin, hinf⟩ := C06.f64ToF32_spec hx
  have hR : 1 ≤ F32.R32 (F64.v x) := by
    have := F32.R32_mono h1; rwa [C06.R32_one] at this
  rcases lt_or_ge |F32.R32 (F64.v x)| (2^128) with hlt | hge
  · obtain ⟨fy, vy⟩ := hfin hlt
    obtain ⟨a, b⟩ := bits_ge_one fy (by rw [vy]; exact hR)
    exact high_saturates e _ a (by omega)
  · have hU := hinf hge
    obtain ⟨hv, _⟩ := C06.v64_fields hx
    have hsg : F64.signOf x.toBits.toNat = .positive := by
      cases hc : F64.signOf x.toBits.toNat
      · rw [hc] at hv
        have : (0:ℚ) ≤ (F64.wOf x.toBits.toNat : ℚ) * 2 ^ (-1074 : ℤ) := by positivity
        simp only [sgn, neg_mul, one_mul] at hv
        linarith
      · rfl
    rw [hsg] at hU
    have := (bits_of_inf hU).1 rfl
    exact high_saturates e _ (by omega) (by omega)

/-- **every f64 at or below zero (sign bit set: negative numbers, −0, −∞, negative NaN; or +0) and every NaN gives code 0** -/
theorem fromLinearU8_f64_low (e : Enc) (B : Nat) (hB : B < 2^64)
    (h : B ≥ 0x8000000000000000 ∨ B = 0 ∨ B > 0x7ff0000000000000) : fromLinearU8_f64 e B = 0 := by
  rw [fromLinearU8_f64_eq]; unfold narrow
  obtain ⟨hdec, hS1⟩ := fields64 B hB
  have hn := toNat_ofNat64 B hB
  have hMlt := F64.fM_lt B
  have hElt := F64.fE_lt B
  have p63 : (2:Nat)^63 = 9223372036854775808 := by decide
  have p52 : (2:Nat)^52 = 4503599627370496 := by decide
  have p11 : (2:Nat)^11 = 2048 := by decide
  rw [p52] at hMlt; rw [p11] at hElt; rw [p63, p52] at hdec
  by_cases hE : F64.fE B = 2047
  · by_cases hM : F64.fM B = 0
    · -- an infinity: must be −∞
      have hU := F64.U_ofBits_inf (a := UInt64.ofNat B) (by rw [hn]; exact hE) (by rw [hn]; exact hM)
      rw [hn] at hU
      have hsg : F64.signOf B = .negative := by
        unfold F64.signOf; rw [if_neg]; omega
      rw [hsg] at hU
      have := (C06.f64ToF32_nonfinite _).2 _ hU
      exact low_saturates e _ (Or.inl ((bits_of_inf this).2 rfl))
    · have hU := F64.U_ofBits_nan (a := UInt64.ofNat B) (by rw [hn]; exact hE) (by rw [hn]; exact hM)
      have := (C06.f64ToF32_nonfinite _).1 hU
      rcases bits_of_nan this with h' | h'
      · exact low_saturates e _ (Or.inl h')
      · exact low_saturates e _ (Or.inr (Or.inr h'))
  · obtain ⟨hf, hv⟩ := ofBits_val_any B hB hE
    apply code_of_nonpos e hf
    rw [hv]
    have hw : (0:ℚ) ≤ (F64.wOf B : ℚ) * 2 ^ (-1074 : ℤ) := by positivity
    by_cases hsgn : B ≥ 0x8000000000000000
    · have hsg : F64.signOf B = .negative := by
        unfold F64.signOf; rw [if_neg]; omega
      rw [hsg]; simp only [sgn, neg_mul, one_mul]; linarith
    · have hB0 : B = 0 := by omega
      subst hB0
      have : F64.wOf 0 = 0 := by decide
      rw [this]; simp

/-- **every f64 from 1.0 up to +∞ gives 255** -/
theorem fromLinearU8_f64_high (e : Enc) (B : Nat) (h1 : 0x3ff0000000000000 ≤ B) (h2 : B ≤ 0x7ff0000000000000) :
    fromLinearU8_f64 e B = 255 := by
  rw [fromLinearU8_f64_eq]; unfold narrow
  have hB : B < 2^64 := by
    have p64 : (2:Nat)^64 = 18446744073709551616 := by decide
    omega
  have hn := toNat_ofNat64 B hB
  by_cases hinf : B = 0x7ff0000000000000
  · subst hinf
    have hU := F64.U_ofBits_inf (a := UInt64.ofNat 0x7ff0000000000000) (by rw [hn]; decide) (by rw [hn]; decide)
    rw [hn] at hU
    have hsg : F64.signOf 0x7ff0000000000000 = .positive := by
      unfold F64.signOf; rw [if_pos (by decide)]
    rw [hsg] at hU
    have := (C06.f64ToF32_nonfinite _).2 _ hU
    have hb := (bits_of_inf this).1 rfl
    exact high_saturates e _ (by omega) (by omega)
  · have hle : B ≤ 0x7fefffffffffffff := by omega
    obtain ⟨hf, hv⟩ := ofBits_val B hle
    apply code_of_ge_one e hf
    rw [hv]
    have h := F64.wOf_mono (fields64_of_le 0x3ff0000000000000 (by omega)).1 (fields64_of_le B hle).1 h1
    rw [wOf_one64] at h
    have hq : (2:ℚ) ^ 1074 ≤ (F64.wOf B : ℚ) := by exact_mod_cast h
    rw [zpow_neg, zpow_ofNat, ← div_eq_mul_inv, le_div_iff₀ (by positivity)]; linarith

/-! ### monotone over every pair of non-NaN f64 patterns -/

/-- `x ≤ y` as IEEE doubles, for non-NaN patterns: sign-magnitude comparison (−0 = +0) -/
def f64le (x y : Nat) : Prop :=
  (x ≥ 0x8000000000000000 ∧ y ≥ 0x8000000000000000 ∧ y ≤ x) ∨ (x ≥ 0x8000000000000000 ∧ y < 0x8000000000000000) ∨
  (x < 0x8000000000000000 ∧ y < 0x8000000000000000 ∧ x ≤ y) ∨ (x = 0 ∧ y = 0x8000000000000000)

def notNaN64 (B : Nat) : Prop :=
  (B < 0x8000000000000000 ∧ B ≤ 0x7ff0000000000000) ∨ (B ≥ 0x8000000000000000 ∧ B ≤ 0xfff0000000000000)

theorem code_le_255 (e : Enc) (b : Nat) : fromLinearU8 e b ≤ 255 := by
  unfold fromLinearU8 encU8; omega

/-- the narrowing is monotone on `[+0, 1.0]` and lands on sign-clear non-NaN patterns or on `±0` -/
theorem narrow_code_mono (e : Enc) (X Y : Nat) (h : X ≤ Y) (hY : Y ≤ 0x3ff0000000000000) :
    fromLinearU8 e (narrow X) ≤ fromLinearU8 e (narrow Y) := by
  have hX : X ≤ 0x3ff0000000000000 := le_trans h hY
  obtain ⟨fx, vx, x0, x1⟩ := narrow_val X hX
  obtain ⟨fy, vy, y0, y1⟩ := narrow_val Y hY
  by_cases hsx : F32.fS (narrow X) = 0
  · by_cases hsy : F32.fS (narrow Y) = 0
    · -- both sign-clear: order of patterns = order of values
      have hvle : F64.v (Float.ofBits (UInt64.ofNat X)) ≤ F64.v (Float.ofBits (UInt64.ofNat Y)) := by
        rw [(ofBits_val X (by omega)).2, (ofBits_val Y (by omega)).2]
        have := F64.wOf_mono (fields64_of_le X (by omega)).1 (fields64_of_le Y (by omega)).1 h
        have hq : (F64.wOf X : ℚ) ≤ F64.wOf Y := by exact_mod_cast this
        exact mul_le_mul_of_nonneg_right hq (two_zpow_pos _).le
      have hle : F32.v (Stim.f64ToF32 (Float.ofBits (UInt64.ofNat X))) ≤ F32.v (Stim.f64ToF32 (Float.ofBits (UInt64.ofNat Y))) := by
        rw [vx, vy]; exact F32.R32_mono hvle
      have hb := (F32.toBits_le_iff fx fy hsx hsy).mpr hle
      rw [UInt32.le_iff_toNat_le] at hb
      have bx := (narrow_near X hX hsx).1
      have by' := (narrow_near Y hY hsy).1
      apply fromLinearU8_mono e
      · left; exact ⟨by omega, by omega⟩
      · left; exact ⟨by omega, by omega⟩
      · right; right; left
        exact ⟨by omega, by omega, hb⟩
    · -- narrow Y = −0: then narrow X has value 0 as well
      have hvy : F32.v (Stim.f64ToF32 (Float.ofBits (UInt64.ofNat Y))) ≤ 0 := v_nonpos_of_sign _ hsy
      have hvle : F64.v (Float.ofBits (UInt64.ofNat X)) ≤ F64.v (Float.ofBits (UInt64.ofNat Y)) := by
        rw [(ofBits_val X (by omega)).2, (ofBits_val Y (by omega)).2]
        have := F64.wOf_mono (fields64_of_le X (by omega)).1 (fields64_of_le Y (by omega)).1 h
        have hq : (F64.wOf X : ℚ) ≤ F64.wOf Y := by exact_mod_cast this
        exact mul_le_mul_of_nonneg_right hq (two_zpow_pos _).le
      have hle : F32.v (Stim.f64ToF32 (Float.ofBits (UInt64.ofNat X))) ≤ 0 := by
        rw [vx]; rw [vy] at hvy; exact le_trans (F32.R32_mono hvle) hvy
      rcases bits_of_nonpos fx hle with h' | h'
      · rw [show fromLinearU8 e (narrow X) = 0 from low_saturates e _ (Or.inl h')]; exact Nat.zero_le _
      · rw [show fromLinearU8 e (narrow X) = 0 from low_saturates e _ (Or.inr (Or.inl h'))]; exact Nat.zero_le _
  · have hge : narrow X ≥ 0x80000000 := by
      have := (fS_zero_iff (narrow X)).not.mp hsx
      rw [p_lits.2.2] at this; omega
    rw [low_saturates e _ (Or.inl hge)]; exact Nat.zero_le _

/-- **monotone over every f64 bit pattern**: for non-NaN `x ≤ y` (IEEE order), `from_linear(x) ≤ from_linear(y)`, all four 8-bit
    encoders (`FromLinear<f64, u8>`) -/
theorem fromLinearU8_f64_mono (e : Enc) (X Y : Nat) (_hx : notNaN64 X) (hy : notNaN64 Y) (h : f64le X Y) :
    fromLinearU8_f64 e X ≤ fromLinearU8_f64 e Y := by
  have p64 : (2:Nat)^64 = 18446744073709551616 := by decide
  by_cases hXlow : X ≥ 0x8000000000000000 ∨ X = 0
  · -- code 0 on the left (when X is a pattern; otherwise it is not below 2^64 but f64le/notNaN64 bound it)
    have hXlt : X < 2^64 := by
      unfold notNaN64 at _hx; omega
    rw [fromLinearU8_f64_low e X hXlt (by omega)]; exact Nat.zero_le _
  · have hX0 : 0 < X ∧ X < 0x8000000000000000 := by omega
    unfold f64le at h
    unfold notNaN64 at hy
    have hY : X ≤ Y ∧ Y ≤ 0x7ff0000000000000 := by omega
    by_cases hbig : 0x3ff0000000000000 ≤ Y
    · rw [fromLinearU8_f64_high e Y hbig hY.2, fromLinearU8_f64_eq]; exact code_le_255 e _
    · rw [fromLinearU8_f64_eq, fromLinearU8_f64_eq]
      exact narrow_code_mono e X Y hY.1 (by omega)

/-- non-vacuity: 0.25 ≤ 0.5 as f64 patterns, both non-NaN -/
example : notNaN64 0x3fd0000000000000 ∧ notNaN64 0x3fe0000000000000 ∧ f64le 0x3fd0000000000000 0x3fe0000000000000 := by
  unfold notNaN64 f64le; omega

end C05F
