/-
  C01 (RGB family) — the edge pairs of the RGB family are mutual inverses, at ℝ, each under an explicit domain predicate;
  the hard-coded matrix pairs are inverse up to a decided ε, lifted to every colour by linearity.
-/
import PaletteProofs.Real
import PaletteProofs.Lemmas.RgbTables
import PaletteProofs.Lemmas.Hexcone
import PaletteProofs.Lemmas.HslGuard
import PaletteModel.Color.RgbFamily
import Mathlib.Tactic.FieldSimp
import Mathlib.Tactic.Linarith
import Mathlib.Tactic.Positivity

namespace C01Rgb
open RgbFam RgbTables

/-! ### the hard-coded matrix pairs -/

/-- decided over `Rat` on the generated tables: for every RGB space, `|A·B − I| ≤ 2e-7` and `|B·A − I| ≤ 2e-7` entrywise
    (`A` = `rgb_to_xyz_matrix`, `B` = `xyz_to_rgb_matrix`).  The pairs are *not* exact inverses (second statement). -/
theorem matrix_pairs_near_inverse : Gen.Mat.rgbSpaces.all (pairNearInverse 2e-7) = true := by decide +kernel
theorem matrix_pairs_not_exact : Gen.Mat.rgbSpaces.all (pairNearInverse 1e-9) = false := by decide +kernel

/-- sup norm of a triple -/
noncomputable def linf (x : V3 ℝ) : ℝ := max |x.c0| (max |x.c1| |x.c2|)

theorem abs_le_linf (x : V3 ℝ) : |x.c0| ≤ linf x ∧ |x.c1| ≤ linf x ∧ |x.c2| ≤ linf x := by
  unfold linf; refine ⟨le_max_left _ _, ?_, ?_⟩
  · exact le_trans (le_max_left _ _) (le_max_right _ _)
  · exact le_trans (le_max_right _ _) (le_max_right _ _)

theorem row_bound {e0 e1 e2 x0 x1 x2 ε N : ℝ} (h0 : |e0| ≤ ε) (h1 : |e1| ≤ ε) (h2 : |e2| ≤ ε)
    (g0 : |x0| ≤ N) (g1 : |x1| ≤ N) (g2 : |x2| ≤ N) : |e0 * x0 + e1 * x1 + e2 * x2| ≤ 3 * ε * N := by
  have hε : 0 ≤ ε := le_trans (abs_nonneg _) h0
  have hN : 0 ≤ N := le_trans (abs_nonneg _) g0
  have t0 : |e0 * x0| ≤ ε * N := by rw [abs_mul]; exact mul_le_mul h0 g0 (abs_nonneg _) hε
  have t1 : |e1 * x1| ≤ ε * N := by rw [abs_mul]; exact mul_le_mul h1 g1 (abs_nonneg _) hε
  have t2 : |e2 * x2| ≤ ε * N := by rw [abs_mul]; exact mul_le_mul h2 g2 (abs_nonneg _) hε
  calc |e0 * x0 + e1 * x1 + e2 * x2| ≤ |e0 * x0 + e1 * x1| + |e2 * x2| := abs_add_le _ _
    _ ≤ |e0 * x0| + |e1 * x1| + |e2 * x2| := by linarith [abs_add_le (e0 * x0) (e1 * x1)]
    _ ≤ 3 * ε * N := by linarith

/-- entrywise `|P − I| ≤ ε` for a real matrix -/
def NearId (p : M3 ℝ) (ε : ℝ) : Prop :=
  |p.m0 - 1| ≤ ε ∧ |p.m1| ≤ ε ∧ |p.m2| ≤ ε ∧ |p.m3| ≤ ε ∧ |p.m4 - 1| ≤ ε ∧ |p.m5| ≤ ε ∧ |p.m6| ≤ ε ∧ |p.m7| ≤ ε ∧ |p.m8 - 1| ≤ ε

/-- **linearity lift**: `|A·B − I| ≤ ε` entrywise gives `‖A(Bx) − x‖∞ ≤ 3ε‖x‖∞` for every `x`
    (with exactly the association `multiply_3x3_and_vec3` uses) -/
theorem pair_lift (a b : M3 ℝ) (ε : ℝ) (h : NearId (M3.mul a b) ε) (x : V3 ℝ) :
    |(a.mulVec (b.mulVec x)).c0 - x.c0| ≤ 3 * ε * linf x ∧ |(a.mulVec (b.mulVec x)).c1 - x.c1| ≤ 3 * ε * linf x ∧
    |(a.mulVec (b.mulVec x)).c2 - x.c2| ≤ 3 * ε * linf x := by
  obtain ⟨h0, h1, h2, h3, h4, h5, h6, h7, h8⟩ := h
  obtain ⟨g0, g1, g2⟩ := abs_le_linf x
  simp only [M3.mul] at h0 h1 h2 h3 h4 h5 h6 h7 h8
  refine ⟨?_, ?_, ?_⟩
  · have := row_bound h0 h1 h2 g0 g1 g2
    convert this using 2; simp only [M3.mulVec]; ring
  · have := row_bound h3 h4 h5 g0 g1 g2
    convert this using 2; simp only [M3.mulVec]; ring
  · have := row_bound h6 h7 h8 g0 g1 g2
    convert this using 2; simp only [M3.mulVec]; ring

/-- the decided rational fact is a fact about the real matrices the model multiplies with -/
theorem nearId_of_tables (a0 a1 a2 a3 a4 a5 a6 a7 a8 b0 b1 b2 b3 b4 b5 b6 b7 b8 : K) (eps : Rat)
    (h : nearIdentity eps (MatArith.mul (⟨K.eval a0, K.eval a1, K.eval a2, K.eval a3, K.eval a4, K.eval a5, K.eval a6, K.eval a7, K.eval a8⟩ : M3 Rat)
        ⟨K.eval b0, K.eval b1, K.eval b2, K.eval b3, K.eval b4, K.eval b5, K.eval b6, K.eval b7, K.eval b8⟩) = true) :
    NearId (M3.mul (M3.ofK [a0, a1, a2, a3, a4, a5, a6, a7, a8] : M3 ℝ) (M3.ofK [b0, b1, b2, b3, b4, b5, b6, b7, b8])) (eps : ℝ) := by
  simp only [nearIdentity, nearList, MatArith.toList, MatArith.mul, List.length_cons, List.length_nil, List.zipWith_cons_cons,
    List.zipWith_nil_right, List.all_cons, List.all_nil, id, Bool.and_true, Bool.and_eq_true, decide_eq_true_eq, beq_self_eq_true, true_and] at h
  obtain ⟨h0, h1, h2, h3, h4, h5, h6, h7, h8⟩ := h
  simp only [NearId, M3.mul, M3.ofK, RealScalar.const_eq, K.eval_cast]
  refine ⟨?_, ?_, ?_, ?_, ?_, ?_, ?_, ?_, ?_⟩
  · have := absQ_le_cast h0; push_cast at this; simpa using this
  · have := absQ_le_cast h1; push_cast at this; simpa using this
  · have := absQ_le_cast h2; push_cast at this; simpa using this
  · have := absQ_le_cast h3; push_cast at this; simpa using this
  · have := absQ_le_cast h4; push_cast at this; simpa using this
  · have := absQ_le_cast h5; push_cast at this; simpa using this
  · have := absQ_le_cast h6; push_cast at this; simpa using this
  · have := absQ_le_cast h7; push_cast at this; simpa using this
  · have := absQ_le_cast h8; push_cast at this; simpa using this

/-- **Rgb → Xyz → Rgb in linear light, every RGB space of the crate, every colour** (not only the nominal range):
    the round trip through the two hard-coded tables moves each component by at most `3·2e-7·‖rgb‖∞`.  This — not
    equality — is what the code computes in exact arithmetic. -/
theorem rgb_xyz_rgb_linear (sp : SpaceRow) (hsp : sp ∈ Gen.Mat.rgbSpaces) (x : V3 ℝ) :
    let y := xyzToRgb sp.2.2.2.1 .linear (rgbToXyz sp.2.2.1 .linear x)
    |y.c0 - x.c0| ≤ 3 * 2e-7 * linf x ∧ |y.c1 - x.c1| ≤ 3 * 2e-7 * linf x ∧ |y.c2 - x.c2| ≤ 3 * 2e-7 * linf x := by
  have key : ∀ (a b : M3 ℝ), NearId (M3.mul b a) ((2e-7 : Rat) : ℝ) → ∀ x : V3 ℝ,
      |(b.mulVec (a.mulVec x)).c0 - x.c0| ≤ 3 * 2e-7 * linf x ∧ |(b.mulVec (a.mulVec x)).c1 - x.c1| ≤ 3 * 2e-7 * linf x ∧
      |(b.mulVec (a.mulVec x)).c2 - x.c2| ≤ 3 * 2e-7 * linf x := by
    intro a b h x
    have := pair_lift b a _ h x
    have e : ((2e-7 : Rat) : ℝ) = 2e-7 := by norm_num
    rw [e] at this; exact this
  simp only [Gen.Mat.rgbSpaces, List.mem_cons, List.mem_nil_iff, or_false] at hsp
  rcases hsp with rfl | rfl | rfl | rfl | rfl | rfl | rfl <;>
    exact key _ _ (nearId_of_tables _ _ _ _ _ _ _ _ _ _ _ _ _ _ _ _ _ _ _ (by decide +kernel)) x

/-- **Xyz → Rgb → Xyz in linear light** likewise -/
theorem xyz_rgb_xyz_linear (sp : SpaceRow) (hsp : sp ∈ Gen.Mat.rgbSpaces) (x : V3 ℝ) :
    let y := rgbToXyz sp.2.2.1 .linear (xyzToRgb sp.2.2.2.1 .linear x)
    |y.c0 - x.c0| ≤ 3 * 2e-7 * linf x ∧ |y.c1 - x.c1| ≤ 3 * 2e-7 * linf x ∧ |y.c2 - x.c2| ≤ 3 * 2e-7 * linf x := by
  have key : ∀ (a b : M3 ℝ), NearId (M3.mul b a) ((2e-7 : Rat) : ℝ) → ∀ x : V3 ℝ,
      |(b.mulVec (a.mulVec x)).c0 - x.c0| ≤ 3 * 2e-7 * linf x ∧ |(b.mulVec (a.mulVec x)).c1 - x.c1| ≤ 3 * 2e-7 * linf x ∧
      |(b.mulVec (a.mulVec x)).c2 - x.c2| ≤ 3 * 2e-7 * linf x := by
    intro a b h x
    have := pair_lift b a _ h x
    have e : ((2e-7 : Rat) : ℝ) = 2e-7 := by norm_num
    rw [e] at this; exact this
  simp only [Gen.Mat.rgbSpaces, List.mem_cons, List.mem_nil_iff, or_false] at hsp
  rcases hsp with rfl | rfl | rfl | rfl | rfl | rfl | rfl <;>
    exact key _ _ (nearId_of_tables _ _ _ _ _ _ _ _ _ _ _ _ _ _ _ _ _ _ _ (by decide +kernel)) x

/-- non-vacuity: the table has the seven spaces -/
example : Gen.Mat.rgbSpaces.length = 7 := by decide

/-! ### Rgb → Hsv → Rgb and Rgb → Hsl → Rgb: exact -/
open Hexcone

theorem hsvToRgb_unfold (hue s v : ℝ) :
    hsvToRgb ⟨hue, s, v⟩ = zones (normalizeUnsigned hue / 60.0) (v * s) (hexX (normalizeUnsigned hue / 60.0) (v * s)) (v - v * s) := rfl

theorem hslToRgb_unfold (hue s l : ℝ) :
    hslToRgb ⟨hue, s, l⟩ = zones (normalizeUnsigned hue / 60.0) ((1.0 - Scalar.abs (l * 2.0 - 1.0)) * s)
      (hexX (normalizeUnsigned hue / 60.0) ((1.0 - Scalar.abs (l * 2.0 - 1.0)) * s)) (l - (1.0 - Scalar.abs (l * 2.0 - 1.0)) * s * 0.5) := rfl

/-- **Rgb → Hsv → Rgb is the identity on every colour with non-negative components** (in particular on `[0,1]³`),
    sector by sector -/
theorem rgb_hsv_rgb (r g b : ℝ) (hr : 0 ≤ r) (hg : 0 ≤ g) (hb : 0 ≤ b) : hsvToRgb (rgbToHsv ⟨r, g, b⟩) = ⟨r, g, b⟩ := by
  unfold rgbToHsv
  simp only [max0_of_nonneg hr, max0_of_nonneg hg, max0_of_nonneg hb, eqv_iff]
  obtain ⟨b1, b2, b3, b4, b5, b6⟩ := maxMin_bounds r g b
  have hmin := min_nonneg r g b hr hg hb
  by_cases hne : (maxMinSep r g b).max = (maxMinSep r g b).min
  · rw [if_neg (not_not.mpr hne), hsvToRgb_unfold]
    have := zones_of_hue (0.0 : ℝ) 0 0 0 (by norm_num) (le_refl _) (by norm_num) (by norm_num)
      ((maxMinSep r g b).max * 0.0) ((maxMinSep r g b).max - (maxMinSep r g b).max * 0.0)
    rw [this]; simp only [sectorTriple]
    have e1 : r = (maxMinSep r g b).max := le_antisymm b2 (by rw [hne]; exact b1)
    have e2 : g = (maxMinSep r g b).max := le_antisymm b4 (by rw [hne]; exact b3)
    have e3 : b = (maxMinSep r g b).max := le_antisymm b6 (by rw [hne]; exact b5)
    congr 1 <;> norm_num <;> linarith
  · rw [if_pos hne, hsvToRgb_unfold]
    obtain ⟨k, f, n, hk, h0, h1, hh, ht, hlt⟩ := sector r g b hne
    have hM : (maxMinSep r g b).max ≠ 0 := by intro h; linarith
    rw [zones_of_hue _ k f n hk h0 h1 hh]
    have e1 : (maxMinSep r g b).max * (((maxMinSep r g b).max - (maxMinSep r g b).min) / (maxMinSep r g b).max)
        = (maxMinSep r g b).max - (maxMinSep r g b).min := by field_simp
    rw [e1]
    have e2 : (maxMinSep r g b).max - ((maxMinSep r g b).max - (maxMinSep r g b).min) = (maxMinSep r g b).min := by ring
    rw [e2]; exact ht

/-- non-vacuity and a concrete instance: orange -/
example : (0 : ℝ) ≤ 1 ∧ (0 : ℝ) ≤ 0.5 ∧ (0 : ℝ) ≤ 0 := by norm_num

/-- **Rgb → Hsl → Rgb is the identity on `[0,1]³`** (non-negative components and `max ≤ 1` are what is used) -/
theorem rgb_hsl_rgb (r g b : ℝ) (hr : 0 ≤ r) (hg : 0 ≤ g) (hb : 0 ≤ b) (hr1 : r ≤ 1) (hg1 : g ≤ 1) (hb1 : b ≤ 1) :
    hslToRgb (rgbToHsl ⟨r, g, b⟩) = ⟨r, g, b⟩ := by
  unfold rgbToHsl
  simp only [RealScalar.hslSat_eq]   -- the guard `divisor == 0` (c404fc5) is invisible at ℝ (`d / 0 = 0`); dead on the gamut: C02.rgbToHsl_guard_dead
  simp only [max0_of_nonneg hr, max0_of_nonneg hg, max0_of_nonneg hb, eqv_iff, RealScalar.invertedSum_eq]
  obtain ⟨b1, b2, b3, b4, b5, b6⟩ := maxMin_bounds r g b
  have hmin := min_nonneg r g b hr hg hb
  by_cases hne : (maxMinSep r g b).max = (maxMinSep r g b).min
  · rw [if_neg (not_not.mpr hne), hslToRgb_unfold]
    rw [zones_of_hue (0.0 : ℝ) 0 0 0 (by norm_num) (le_refl _) (by norm_num) (by norm_num)]
    simp only [sectorTriple]
    have e1 : r = (maxMinSep r g b).max := le_antisymm b2 (by rw [hne]; exact b1)
    have e2 : g = (maxMinSep r g b).max := le_antisymm b4 (by rw [hne]; exact b3)
    have e3 : b = (maxMinSep r g b).max := le_antisymm b6 (by rw [hne]; exact b5)
    congr 1 <;> norm_num <;> linarith
  · rw [if_pos hne, hslToRgb_unfold]
    obtain ⟨k, f, n, hk, h0, h1, hh, ht, hlt⟩ := sector r g b hne
    rw [zones_of_hue _ k f n hk h0 h1 hh]
    -- the maximum is one of the components, hence ≤ 1
    have hM1 : (maxMinSep r g b).max ≤ 1 := by
      rcases cases_order r g b with ⟨_, _, _, hp⟩ | ⟨_, _, _, hp⟩ | ⟨_, _, hp⟩ | ⟨_, _, hp⟩ | ⟨_, _, _, hp⟩ | ⟨_, _, _, hp⟩ <;>
        rw [hp] <;> simp only <;> assumption
    set M := (maxMinSep r g b).max with hMdef
    set m := (maxMinSep r g b).min with hmdef
    have hch : (1.0 - Scalar.abs ((M + m) / 2.0 * 2.0 - 1.0)) * (if 1.0 < M + m then (M - m) / (2.0 - (M + m)) else (M - m) / (M + m)) = M - m := by
      rw [RealScalar.abs_eq]
      have e : (M + m) / 2.0 * 2.0 - 1.0 = M + m - 1 := by norm_num
      rw [e]
      by_cases hs : 1.0 < M + m
      · rw [if_pos hs]
        have hs' : 1 < M + m := by norm_num at hs; exact hs
        rw [abs_of_nonneg (by linarith)]
        have : (2.0 : ℝ) - (M + m) ≠ 0 := by norm_num; intro h; linarith
        field_simp; norm_num; ring
      · rw [if_neg hs]
        have hs' : M + m ≤ 1 := by norm_num at hs; exact hs
        rw [abs_of_nonpos (by linarith)]
        have : M + m ≠ 0 := by intro h; linarith
        field_simp; norm_num; try ring
    rw [hch]
    have e2 : (M + m) / 2.0 - (M - m) * 0.5 = m := by norm_num; ring
    rw [e2]; exact ht

/-- non-vacuity: `(1, 0.5, 0)` is in the unit cube -/
example : (0 : ℝ) ≤ 1 ∧ (0 : ℝ) ≤ 0.5 ∧ (0 : ℝ) ≤ 0 ∧ (1 : ℝ) ≤ 1 ∧ (0.5 : ℝ) ≤ 1 ∧ (0 : ℝ) ≤ 1 := by norm_num

/-! ### Hsv ↔ Hwb, Hsl ↔ Hsv -/

theorem hwbToHsv_of_ne (h w b : ℝ) (hb : b ≠ 1) : hwbToHsv ⟨h, w, b⟩ = ⟨h, 1.0 - w / (1.0 - b), 1.0 - b⟩ := by
  unfold hwbToHsv; simp only [RealScalar.valid_eq, decide_eq_true_eq]
  rw [if_pos (by norm_num; intro e; apply hb; linarith)]

/-- **Hsv → Hwb → Hsv is the identity for `v ≠ 0`** (every hue, every saturation) -/
theorem hsv_hwb_hsv (h s v : ℝ) (hv : v ≠ 0) : hwbToHsv (hsvToHwb ⟨h, s, v⟩) = ⟨h, s, v⟩ := by
  unfold hsvToHwb; simp only
  rw [hwbToHsv_of_ne _ _ _ (by norm_num; exact hv)]
  congr 1
  · norm_num; field_simp; ring
  · norm_num
/-- at `v = 0` (black) the saturation is lost: the result is `(h, 0, 0)` -/
theorem hsv_hwb_hsv_black (h s : ℝ) : hwbToHsv (hsvToHwb ⟨h, s, 0⟩) = ⟨h, 0.0, 1.0 - (1.0 - 0)⟩ := by
  unfold hsvToHwb hwbToHsv; simp

/-- **Hwb → Hsv → Hwb is the identity for `b ≠ 1`** -/
theorem hwb_hsv_hwb (h w b : ℝ) (hb : b ≠ 1) : hsvToHwb (hwbToHsv ⟨h, w, b⟩) = ⟨h, w, b⟩ := by
  rw [hwbToHsv_of_ne _ _ _ hb]; unfold hsvToHwb; simp only
  have : (1 : ℝ) - b ≠ 0 := by intro e; apply hb; linarith
  congr 1
  · norm_num; field_simp
  · norm_num
example : (0.5 : ℝ) ≠ 0 ∧ (0.25 : ℝ) ≠ 1 := by norm_num

theorem hslToHsv_of_ne (h s l : ℝ) (hv : l + (if l < 0.5 then l else 1.0 - l) * s ≠ 0) :
    hslToHsv ⟨h, s, l⟩ = ⟨h, (if l < 0.5 then l else 1.0 - l) * s * 2.0 / (l + (if l < 0.5 then l else 1.0 - l) * s),
      l + (if l < 0.5 then l else 1.0 - l) * s⟩ := by
  unfold hslToHsv; simp only [RealScalar.valid_eq, decide_eq_true_eq]; rw [if_pos hv]

/-- **Hsl → Hsv → Hsl is the identity for `0 < l < 1`, `0 ≤ s`** -/
theorem hsl_hsv_hsl (h s l : ℝ) (hl0 : 0 < l) (hl1 : l < 1) (hs0 : 0 ≤ s) : hsvToHsl (hslToHsv ⟨h, s, l⟩) = ⟨h, s, l⟩ := by
  by_cases hlt : l < 0.5
  · have hlt' : l < 1 / 2 := by norm_num at hlt; linarith
    have hv : l + l * s ≠ 0 := by have : 0 ≤ l * s := mul_nonneg hl0.le hs0; intro e; linarith
    rw [hslToHsv_of_ne _ _ _ (by rw [if_pos hlt]; exact hv)]
    simp only [if_pos hlt]
    unfold hsvToHsl; simp only [RealScalar.valid_eq, decide_eq_true_eq]
    have hx : (2.0 - l * s * 2.0 / (l + l * s)) * (l + l * s) = 2 * l := by norm_num; field_simp; ring
    rw [hx, if_neg (not_not.mpr hv), if_pos (by norm_num; linarith), if_pos (by norm_num; exact hl0.ne')]
    congr 1
    · norm_num; field_simp
    · norm_num
  · have hge : 1 / 2 ≤ l := by norm_num at hlt; linarith
    have hv : l + (1.0 - l) * s ≠ 0 := by have : 0 ≤ (1 - l) * s := mul_nonneg (by linarith) hs0; norm_num; intro e; linarith
    rw [hslToHsv_of_ne _ _ _ (by rw [if_neg hlt]; exact hv)]
    simp only [if_neg hlt]
    unfold hsvToHsl; simp only [RealScalar.valid_eq, decide_eq_true_eq]
    have hx : (2.0 - (1.0 - l) * s * 2.0 / (l + (1.0 - l) * s)) * (l + (1.0 - l) * s) = 2 * l := by norm_num at hv ⊢; field_simp; ring
    have hd : (2.0 : ℝ) - 2 * l ≠ 0 := by norm_num; intro e; linarith
    rw [hx, if_neg (not_not.mpr hv), if_neg (by norm_num; linarith), if_pos hd]
    have h1l : (1 : ℝ) - l ≠ 0 := by intro e; linarith
    have hv' : l + (1 - l) * s ≠ 0 := by norm_num at hv; exact hv
    congr 1
    · norm_num; field_simp
    · norm_num
example : (0 : ℝ) < 0.5 ∧ (0.5 : ℝ) < 1 ∧ (0 : ℝ) ≤ 1 ∧ (1 : ℝ) ≤ 1 := by norm_num

/-! ### Hsv → Rgb → Hsv for `s, v ∈ (0,1]`: saturation and value exactly, hue up to full turns -/

theorem rgbToHsv_of (r g b : ℝ) (hr : 0 ≤ r) (hg : 0 ≤ g) (hb : 0 ≤ b) (p : MaxMin ℝ) (hp : maxMinSep r g b = p) (hne : p.max ≠ p.min) :
    rgbToHsv ⟨r, g, b⟩ = ⟨(p.sep / (p.max - p.min) + p.coeff) * 60.0, (p.max - p.min) / p.max, p.max⟩ := by
  unfold rgbToHsv
  simp only [max0_of_nonneg hr, max0_of_nonneg hg, max0_of_nonneg hb, eqv_iff, hp]
  rw [if_pos hne]

/-- `Hsv ← Rgb` on the zone triple of sector `k`: chroma `c > 0`, offset `m ≥ 0` -/
theorem rgbToHsv_sector (k : ℕ) (hk : k ≤ 5) (f c m : ℝ) (h0 : 0 ≤ f) (h1 : f < 1) (hc : 0 < c) (hm : 0 ≤ m) :
    rgbToHsv (sectorTriple k f c m) = ⟨if k = 5 then 60 * (f - 1) else 60 * ((k : ℝ) + f), c / (c + m), c + m⟩ := by
  have hcf0 : 0 ≤ c * f := mul_nonneg hc.le h0
  have hcf1 : c * f < c := by nlinarith
  have hc1 : 0 < c * (1 - f) := mul_pos hc (by linarith)
  have hc2 : c * (1 - f) ≤ c := by nlinarith
  have hcne : c ≠ 0 := hc.ne'
  interval_cases k <;> simp only [sectorTriple]
  · -- sector 0: (c+m, cf+m, m)
    have hp := ms_R (r := c + m) (g := c * f + m) (b := 0 + m) (by linarith) (by linarith)
    have hmin : (if 0 + m < c * f + m then 0 + m else c * f + m) = m := by split_ifs <;> linarith
    rw [hmin] at hp
    rw [rgbToHsv_of _ _ _ (by linarith) (by linarith) (by linarith) _ hp (by simp only; intro e; linarith)]
    simp only; congr 1
    · norm_num; field_simp; try ring
    · congr 1 <;> ring
  · -- sector 1: (c(1-f)+m, c+m, m)
    have hp := ms_G (r := c * (1 - f) + m) (g := c + m) (b := 0 + m) (by linarith) (by linarith)
    rw [if_pos (by linarith)] at hp
    rw [rgbToHsv_of _ _ _ (by linarith) (by linarith) (by linarith) _ hp (by simp only; intro e; linarith)]
    simp only; congr 1
    · norm_num; field_simp; ring
    · congr 1 <;> ring
  · -- sector 2: (m, c+m, cf+m)
    have hp := ms_G (r := 0 + m) (g := c + m) (b := c * f + m) (by linarith) (by linarith)
    rw [if_neg (by linarith)] at hp
    rw [rgbToHsv_of _ _ _ (by linarith) (by linarith) (by linarith) _ hp (by simp only; intro e; linarith)]
    simp only; congr 1
    · norm_num; field_simp; try ring
    · congr 1 <;> ring
  · -- sector 3: (m, c(1-f)+m, c+m)
    rcases eq_or_lt_of_le h0 with hf | hf
    · subst hf
      have hp := ms_G (r := 0 + m) (g := c * (1 - 0) + m) (b := c + m) (by linarith) (by linarith)
      rw [if_neg (by linarith)] at hp
      rw [rgbToHsv_of _ _ _ (by linarith) (by linarith) (by linarith) _ hp (by simp only; intro e; linarith)]
      simp only; congr 1
      · norm_num; field_simp; norm_num
      · congr 1 <;> ring
      · ring
    · have hcf : 0 < c * f := mul_pos hc hf
      have hp := ms_B2 (r := 0 + m) (g := c * (1 - f) + m) (b := c + m) (by linarith) (by linarith)
      rw [rgbToHsv_of _ _ _ (by linarith) (by linarith) (by linarith) _ hp (by simp only; intro e; linarith)]
      simp only; congr 1
      · norm_num; field_simp; ring
      · congr 1 <;> ring
  · -- sector 4: (cf+m, m, c+m)
    rcases eq_or_lt_of_le h0 with hf | hf
    · subst hf
      have hp := ms_B2 (r := c * 0 + m) (g := 0 + m) (b := c + m) (by linarith) (by linarith)
      rw [rgbToHsv_of _ _ _ (by linarith) (by linarith) (by linarith) _ hp (by simp only; intro e; linarith)]
      simp only; congr 1
      · norm_num
      · congr 1 <;> ring
    · have hcf : 0 < c * f := mul_pos hc hf
      have hp := ms_B1 (r := c * f + m) (g := 0 + m) (b := c + m) (by linarith) (by linarith)
      rw [rgbToHsv_of _ _ _ (by linarith) (by linarith) (by linarith) _ hp (by simp only; intro e; linarith)]
      simp only; congr 1
      · norm_num; field_simp; try ring
      · congr 1 <;> ring
  · -- sector 5: (c+m, m, c(1-f)+m)
    have hp := ms_R (r := c + m) (g := 0 + m) (b := c * (1 - f) + m) (by linarith) (by linarith)
    rw [if_neg (by linarith)] at hp
    rw [rgbToHsv_of _ _ _ (by linarith) (by linarith) (by linarith) _ hp (by simp only; intro e; linarith)]
    simp only; congr 1
    · norm_num; field_simp; ring
    · congr 1 <;> ring

/-- **Hsv → Rgb → Hsv for `s ∈ (0,1]`, `v > 0`**: saturation and value come back exactly, the hue up to full turns
    (every input hue, also negative ones and hues beyond 360°) -/
theorem hsv_rgb_hsv (hue s v : ℝ) (hs0 : 0 < s) (hs1 : s ≤ 1) (hv0 : 0 < v) :
    ∃ n : ℤ, rgbToHsv (hsvToRgb ⟨hue, s, v⟩) = ⟨hue + 360 * (n : ℝ), s, v⟩ := by
  obtain ⟨k, f, n, hk, h0, h1, hh⟩ := hue_decomp hue
  rw [hsvToRgb_unfold, zones_of_hue hue k f n hk h0 h1 hh]
  have hc : 0 < v * s := mul_pos hv0 hs0
  have hm : 0 ≤ v - v * s := by nlinarith
  rw [rgbToHsv_sector k hk f _ _ h0 h1 hc hm]
  have e1 : v * s / (v * s + (v - v * s)) = s := by field_simp; ring
  have e2 : v * s + (v - v * s) = v := by ring
  rw [e1, e2]
  by_cases h5 : k = 5
  · refine ⟨-n - 1, ?_⟩
    rw [if_pos h5, hh, h5]; congr 1; push_cast; ring
  · refine ⟨-n, ?_⟩
    rw [if_neg h5, hh]; congr 1; push_cast; ring

/-- non-vacuity -/
example : (0 : ℝ) < 0.5 ∧ (0.5 : ℝ) ≤ 1 ∧ (0 : ℝ) < 1 := by norm_num

/-! ### D6: the hypothesis `0 ≤ x` of the power-law inverses is *not* preserved by the matrix round trip -/

/-- kernel-checked witness: pure DCI-P3 green `(0, 1, 0)` (linear = encoded there) comes back from `Xyz` with a **negative**
    red component (`−4.8e-8`), i.e. outside the domain `0 ≤ x` on which `P3Gamma::from_linear = powf(x, 1/2.6)` is the inverse
    of `into_linear` (`C05T.p3_from_into`) — and outside the domain of IEEE `powf` altogether: the implementation returns NaN.
    Likewise sRGB blue `(0, 0, 1)` sent to Adobe RGB (which shares the blue primary): the green component arrives negative. -/
theorem d6_witness_dcip3 : (crossQ "DciP3" "DciP3" ⟨0, 1, 0⟩).any (fun y => decide (y.c0 < 0)) = true := by decide +kernel
theorem d6_witness_srgb_to_adobe : (crossQ "Srgb" "AdobeRgb" ⟨0, 0, 1⟩).any (fun y => decide (y.c1 < 0)) = true := by decide +kernel
/-- sRGB shows the same negative excursion, but its encoding has a linear toe, so nothing breaks there -/
theorem d6_srgb_also_negative : (crossQ "Srgb" "Srgb" ⟨0, 0, 1⟩).any (fun y => decide (y.c0 < 0 ∨ y.c1 < 0)) = true := by decide +kernel

/-! ### C15 (hexcone part): bounded `s, v` (resp. `s, l`) give RGB inside the unit cube, for every hue -/

theorem sectorTriple_bounds (k : ℕ) (hk : k ≤ 5) (f c m : ℝ) (h0 : 0 ≤ f) (h1 : f < 1) (hc : 0 ≤ c) (hm : 0 ≤ m) (hcm : c + m ≤ 1) :
    0 ≤ (sectorTriple k f c m).c0 ∧ (sectorTriple k f c m).c0 ≤ 1 ∧ 0 ≤ (sectorTriple k f c m).c1 ∧ (sectorTriple k f c m).c1 ≤ 1 ∧
    0 ≤ (sectorTriple k f c m).c2 ∧ (sectorTriple k f c m).c2 ≤ 1 := by
  have a1 : 0 ≤ c * f := mul_nonneg hc h0
  have a2 : c * f ≤ c := by nlinarith
  have a3 : 0 ≤ c * (1 - f) := mul_nonneg hc (by linarith)
  have a4 : c * (1 - f) ≤ c := by nlinarith
  interval_cases k <;> simp only [sectorTriple] <;> refine ⟨?_, ?_, ?_, ?_, ?_, ?_⟩ <;> linarith

/-- **`s, v ∈ [0,1]` ⇒ `Rgb ← Hsv` lies in `[0,1]³`, every hue** -/
theorem hsvToRgb_in_gamut (hue s v : ℝ) (hs0 : 0 ≤ s) (hs1 : s ≤ 1) (hv0 : 0 ≤ v) (hv1 : v ≤ 1) :
    0 ≤ (hsvToRgb ⟨hue, s, v⟩).c0 ∧ (hsvToRgb ⟨hue, s, v⟩).c0 ≤ 1 ∧ 0 ≤ (hsvToRgb ⟨hue, s, v⟩).c1 ∧ (hsvToRgb ⟨hue, s, v⟩).c1 ≤ 1 ∧
    0 ≤ (hsvToRgb ⟨hue, s, v⟩).c2 ∧ (hsvToRgb ⟨hue, s, v⟩).c2 ≤ 1 := by
  obtain ⟨k, f, n, hk, h0, h1, hh⟩ := hue_decomp hue
  rw [hsvToRgb_unfold, zones_of_hue hue k f n hk h0 h1 hh]
  exact sectorTriple_bounds k hk f _ _ h0 h1 (mul_nonneg hv0 hs0) (by nlinarith) (by linarith)

/-- **`s, l ∈ [0,1]` ⇒ `Rgb ← Hsl` lies in `[0,1]³`, every hue** -/
theorem hslToRgb_in_gamut (hue s l : ℝ) (hs0 : 0 ≤ s) (hs1 : s ≤ 1) (hl0 : 0 ≤ l) (hl1 : l ≤ 1) :
    0 ≤ (hslToRgb ⟨hue, s, l⟩).c0 ∧ (hslToRgb ⟨hue, s, l⟩).c0 ≤ 1 ∧ 0 ≤ (hslToRgb ⟨hue, s, l⟩).c1 ∧ (hslToRgb ⟨hue, s, l⟩).c1 ≤ 1 ∧
    0 ≤ (hslToRgb ⟨hue, s, l⟩).c2 ∧ (hslToRgb ⟨hue, s, l⟩).c2 ≤ 1 := by
  obtain ⟨k, f, n, hk, h0, h1, hh⟩ := hue_decomp hue
  rw [hslToRgb_unfold, zones_of_hue hue k f n hk h0 h1 hh, RealScalar.abs_eq]
  have e : l * 2.0 - 1.0 = 2 * l - 1 := by norm_num; ring
  rw [e]
  have hA0 : 0 ≤ 1.0 - |2 * l - 1| := by norm_num; rw [abs_le]; constructor <;> linarith
  have hA1 : 1.0 - |2 * l - 1| ≤ 2 * l ∧ 1.0 - |2 * l - 1| ≤ 2 - 2 * l := by
    norm_num; constructor
    · have := neg_abs_le (2 * l - 1); linarith
    · have := le_abs_self (2 * l - 1); linarith
  have hc0 : 0 ≤ (1.0 - |2 * l - 1|) * s := mul_nonneg hA0 hs0
  have hc1 : (1.0 - |2 * l - 1|) * s ≤ 1.0 - |2 * l - 1| := by nlinarith
  exact sectorTriple_bounds k hk f _ _ h0 h1 hc0 (by norm_num at *; linarith) (by norm_num at *; linarith)

example : (0 : ℝ) ≤ 1 ∧ (1 : ℝ) ≤ 1 := by norm_num

/-! ### Hsl → Rgb → Hsl for `s ∈ (0,1]`, `l ∈ (0,1)` -/

/-- the `(max, min, sep, coeff)` block on the zone triple of sector `k` -/
theorem sector_block (k : ℕ) (hk : k ≤ 5) (f c m : ℝ) (h0 : 0 ≤ f) (h1 : f < 1) (hc : 0 < c) :
    ∃ p : MaxMin ℝ, maxMinSep (sectorTriple k f c m).c0 (sectorTriple k f c m).c1 (sectorTriple k f c m).c2 = p ∧
      p.max = c + m ∧ p.min = m ∧
      (p.sep / (p.max - p.min) + p.coeff) * 60.0 = (if k = 5 then 60 * (f - 1) else 60 * ((k : ℝ) + f)) := by
  have hcf0 : 0 ≤ c * f := mul_nonneg hc.le h0
  have hcf1 : c * f < c := by nlinarith
  have hc1 : 0 < c * (1 - f) := mul_pos hc (by linarith)
  have hc2 : c * (1 - f) ≤ c := by nlinarith
  have hcne : c ≠ 0 := hc.ne'
  interval_cases k <;> simp only [sectorTriple]
  · have hp := ms_R (r := c + m) (g := c * f + m) (b := 0 + m) (by linarith) (by linarith)
    have hmin : (if 0 + m < c * f + m then 0 + m else c * f + m) = m := by split_ifs <;> linarith
    rw [hmin] at hp
    refine ⟨_, hp, rfl, rfl, ?_⟩
    norm_num; field_simp; try ring
  · have hp := ms_G (r := c * (1 - f) + m) (g := c + m) (b := 0 + m) (by linarith) (by linarith)
    rw [if_pos (by linarith)] at hp
    refine ⟨_, hp, rfl, by simp, ?_⟩
    norm_num; field_simp; ring
  · have hp := ms_G (r := 0 + m) (g := c + m) (b := c * f + m) (by linarith) (by linarith)
    rw [if_neg (by linarith)] at hp
    refine ⟨_, hp, rfl, by simp, ?_⟩
    norm_num; field_simp; try ring
  · rcases eq_or_lt_of_le h0 with hf | hf
    · subst hf
      have hp := ms_G (r := 0 + m) (g := c * (1 - 0) + m) (b := c + m) (by linarith) (by linarith)
      rw [if_neg (by linarith)] at hp
      refine ⟨_, hp, by simp, by simp, ?_⟩
      norm_num; field_simp; norm_num
    · have hcf : 0 < c * f := mul_pos hc hf
      have hp := ms_B2 (r := 0 + m) (g := c * (1 - f) + m) (b := c + m) (by linarith) (by linarith)
      refine ⟨_, hp, rfl, by simp, ?_⟩
      norm_num; field_simp; ring
  · rcases eq_or_lt_of_le h0 with hf | hf
    · subst hf
      have hp := ms_B2 (r := c * 0 + m) (g := 0 + m) (b := c + m) (by linarith) (by linarith)
      refine ⟨_, hp, rfl, by simp, ?_⟩
      norm_num
    · have hcf : 0 < c * f := mul_pos hc hf
      have hp := ms_B1 (r := c * f + m) (g := 0 + m) (b := c + m) (by linarith) (by linarith)
      refine ⟨_, hp, rfl, by simp, ?_⟩
      norm_num; field_simp; try ring
  · have hp := ms_R (r := c + m) (g := 0 + m) (b := c * (1 - f) + m) (by linarith) (by linarith)
    rw [if_neg (by linarith)] at hp
    refine ⟨_, hp, rfl, by simp, ?_⟩
    norm_num; field_simp; ring

theorem sectorTriple_nonneg (k : ℕ) (hk : k ≤ 5) (f c m : ℝ) (h0 : 0 ≤ f) (h1 : f < 1) (hc : 0 ≤ c) (hm : 0 ≤ m) :
    0 ≤ (sectorTriple k f c m).c0 ∧ 0 ≤ (sectorTriple k f c m).c1 ∧ 0 ≤ (sectorTriple k f c m).c2 := by
  have a1 : 0 ≤ c * f := mul_nonneg hc h0
  have a3 : 0 ≤ c * (1 - f) := mul_nonneg hc (by linarith)
  interval_cases k <;> simp only [sectorTriple] <;> refine ⟨?_, ?_, ?_⟩ <;> linarith

/-- **Hsl → Rgb → Hsl for `s ∈ (0,1]`, `0 < l < 1`**: saturation and lightness exactly, hue up to full turns -/
theorem hsl_rgb_hsl (hue s l : ℝ) (hs0 : 0 < s) (hs1 : s ≤ 1) (hl0 : 0 < l) (hl1 : l < 1) :
    ∃ n : ℤ, rgbToHsl (hslToRgb ⟨hue, s, l⟩) = ⟨hue + 360 * (n : ℝ), s, l⟩ := by
  obtain ⟨k, f, n, hk, h0, h1, hh⟩ := hue_decomp hue
  rw [hslToRgb_unfold, zones_of_hue hue k f n hk h0 h1 hh, RealScalar.abs_eq]
  have e : (1.0 : ℝ) - |l * 2.0 - 1.0| = 1 - |2 * l - 1| := by
    have : l * 2.0 - 1.0 = 2 * l - 1 := by norm_num; ring
    rw [this]; norm_num
  rw [e]; clear e
  set A : ℝ := 1 - |2 * l - 1| with hA
  have hA0 : 0 < A := by rw [hA]; rw [sub_pos, abs_lt]; constructor <;> linarith
  have hAv : (2 * l ≤ 1 ∧ A = 2 * l) ∨ (1 < 2 * l ∧ A = 2 - 2 * l) := by
    rcases le_or_gt (2 * l) 1 with h | h
    · left; refine ⟨h, ?_⟩; rw [hA, abs_of_nonpos (by linarith)]; ring
    · right; refine ⟨h, ?_⟩; rw [hA, abs_of_pos (by linarith)]; ring
  have hc : 0 < A * s := mul_pos hA0 hs0
  have hcA : A * s ≤ A := by nlinarith
  have hm : 0 ≤ l - A * s * 0.5 := by rcases hAv with ⟨_, e⟩ | ⟨_, e⟩ <;> norm_num <;> nlinarith
  obtain ⟨p, hp, pmax, pmin, phue⟩ := sector_block k hk f (A * s) (l - A * s * 0.5) h0 h1 hc
  obtain ⟨n0, n1, n2⟩ := sectorTriple_nonneg k hk f (A * s) (l - A * s * 0.5) h0 h1 hc.le hm
  have hne : p.max ≠ p.min := by rw [pmax, pmin]; intro e; linarith
  have hT : sectorTriple k f (A * s) (l - A * s * 0.5) =
      ⟨(sectorTriple k f (A * s) (l - A * s * 0.5)).c0, (sectorTriple k f (A * s) (l - A * s * 0.5)).c1, (sectorTriple k f (A * s) (l - A * s * 0.5)).c2⟩ := rfl
  rw [hT]; unfold rgbToHsl
  simp only [RealScalar.hslSat_eq]   -- the guard `divisor == 0` (c404fc5) is invisible at ℝ (`d / 0 = 0`); dead on the gamut: C02.rgbToHsl_guard_dead
  simp only [max0_of_nonneg n0, max0_of_nonneg n1, max0_of_nonneg n2, eqv_iff, hp, RealScalar.invertedSum_eq]
  rw [if_pos hne, phue, pmax, pmin]
  have esum : A * s + (l - A * s * 0.5) + (l - A * s * 0.5) = 2 * l := by norm_num; ring
  have ed : A * s + (l - A * s * 0.5) - (l - A * s * 0.5) = A * s := by norm_num
  rw [esum, ed]
  have el : 2 * l / 2.0 = l := by norm_num
  have es : (if (1.0 : ℝ) < 2 * l then A * s / (2.0 - 2 * l) else A * s / (2 * l)) = s := by
    rcases hAv with ⟨h, e⟩ | ⟨h, e⟩
    · rw [if_neg (by norm_num; exact h), e]; field_simp
    · rw [if_pos (by norm_num; exact h), e]
      have h2 : (2.0 : ℝ) - 2 * l = 2 - 2 * l := by norm_num
      have h3 : (2 : ℝ) - 2 * l ≠ 0 := by intro e; linarith
      rw [h2, mul_comm, mul_div_assoc, div_self h3, mul_one]
  rw [el, es]
  by_cases h5 : k = 5
  · refine ⟨-n - 1, ?_⟩
    rw [if_pos h5, hh, h5]; congr 1; push_cast; ring
  · refine ⟨-n, ?_⟩
    rw [if_neg h5, hh]; congr 1; push_cast; ring

example : (0 : ℝ) < 0.5 ∧ (0.5 : ℝ) ≤ 1 ∧ (0 : ℝ) < 0.5 ∧ (0.5 : ℝ) < 1 := by norm_num

/-! ### the direct `Hsl → Hsv` shortcut equals the tree path through `Rgb` -/

/-- **`Hsv ← Hsl` (direct formula) = `Hsv ← Rgb ← Hsl`** for `s ∈ (0,1]`, `0 < l < 1`: saturation and value exactly, the hue
    (which the shortcut copies and the tree path recomputes) up to full turns -/
theorem hsl_hsv_shortcut (hue s l : ℝ) (hs0 : 0 < s) (hs1 : s ≤ 1) (hl0 : 0 < l) (hl1 : l < 1) :
    ∃ n : ℤ, rgbToHsv (hslToRgb ⟨hue, s, l⟩) =
      ⟨(hslToHsv ⟨hue, s, l⟩).c0 + 360 * (n : ℝ), (hslToHsv ⟨hue, s, l⟩).c1, (hslToHsv ⟨hue, s, l⟩).c2⟩ := by
  obtain ⟨k, f, n, hk, h0, h1, hh⟩ := hue_decomp hue
  rw [hslToRgb_unfold, zones_of_hue hue k f n hk h0 h1 hh, RealScalar.abs_eq]
  have e : (1.0 : ℝ) - |l * 2.0 - 1.0| = 1 - |2 * l - 1| := by
    have : l * 2.0 - 1.0 = 2 * l - 1 := by norm_num; ring
    rw [this]; norm_num
  rw [e]; clear e
  set A : ℝ := 1 - |2 * l - 1| with hA
  have hA0 : 0 < A := by rw [hA]; rw [sub_pos, abs_lt]; constructor <;> linarith
  have hAv : (2 * l ≤ 1 ∧ A = 2 * l) ∨ (1 < 2 * l ∧ A = 2 - 2 * l) := by
    rcases le_or_gt (2 * l) 1 with h | h
    · left; refine ⟨h, ?_⟩; rw [hA, abs_of_nonpos (by linarith)]; ring
    · right; refine ⟨h, ?_⟩; rw [hA, abs_of_pos (by linarith)]; ring
  have hc : 0 < A * s := mul_pos hA0 hs0
  have hcA : A * s ≤ A := by nlinarith
  have hm : 0 ≤ l - A * s * 0.5 := by rcases hAv with ⟨_, e⟩ | ⟨_, e⟩ <;> norm_num <;> nlinarith
  rw [rgbToHsv_sector k hk f _ _ h0 h1 hc hm]
  -- the shortcut: x = min(l, 1-l)·s = A·s/2, value = l + x, saturation = 2x/value
  have hx : (if l < 0.5 then l else 1.0 - l) * s = A * s / 2 := by
    rcases hAv with ⟨h, e⟩ | ⟨h, e⟩
    · rcases eq_or_lt_of_le h with h' | h'
      · rw [if_neg (by norm_num; linarith), e]; norm_num; nlinarith
      · rw [if_pos (by norm_num; linarith), e]; ring
    · rw [if_neg (by norm_num; linarith), e]; norm_num; ring
  have hval : l + A * s / 2 ≠ 0 := by intro e; linarith
  have hsv : hslToHsv ⟨hue, s, l⟩ = ⟨hue, A * s / 2 * 2.0 / (l + A * s / 2), l + A * s / 2⟩ := by
    unfold hslToHsv; simp only [RealScalar.valid_eq, decide_eq_true_eq, hx]; rw [if_pos hval]
  rw [hsv]; simp only
  have e1 : A * s / (A * s + (l - A * s * 0.5)) = A * s / 2 * 2.0 / (l + A * s / 2) := by
    have : A * s + (l - A * s * 0.5) = l + A * s / 2 := by norm_num; ring
    rw [this]; norm_num
  have e2 : A * s + (l - A * s * 0.5) = l + A * s / 2 := by norm_num; ring
  rw [e1, e2]
  by_cases h5 : k = 5
  · refine ⟨-n - 1, ?_⟩
    rw [if_pos h5, hh, h5]; congr 1; push_cast; ring
  · refine ⟨-n, ?_⟩
    rw [if_neg h5, hh]; congr 1; push_cast; ring

example : (0 : ℝ) < 1 ∧ (1 : ℝ) ≤ 1 ∧ (0 : ℝ) < 0.25 ∧ (0.25 : ℝ) < 1 := by norm_num

/-! ### `Rgb<S1> → Rgb<S2>`: the same-primaries branch (transfer functions only) = the route through `Xyz`, in linear light,
    up to the matrix-pair bound -/

/-- for two standards over the same RGB space the code skips the matrices; going through `Xyz` instead would move each
    *linear* component by at most `3·2e-7·‖linear rgb‖∞` (transporting this through the destination's encoding needs the
    modulus of continuity of that curve and, for the pure power laws, `0 ≤` the recovered value — see D6 above) -/
theorem rgb_same_space_shortcut (sp : SpaceRow) (hsp : sp ∈ Gen.Mat.rgbSpaces) (tf : Transfer.Fn) (c : V3 ℝ) :
    let lin := intoLinear tf c
    let via := xyzToRgb sp.2.2.2.1 .linear (rgbToXyz sp.2.2.1 tf c)
    |via.c0 - lin.c0| ≤ 3 * 2e-7 * linf lin ∧ |via.c1 - lin.c1| ≤ 3 * 2e-7 * linf lin ∧ |via.c2 - lin.c2| ≤ 3 * 2e-7 * linf lin :=
  rgb_xyz_rgb_linear sp hsp (intoLinear tf c)

/-- the three `TypeId` branches of `Rgb<S1> ← Rgb<S2>` at the model level: same standard → identity; same space → the two
    transfer functions; otherwise through `Xyz` -/
theorem rgbToRgb_same (s : Std) (c : V3 ℝ) : rgbToRgb s s c = c := by unfold rgbToRgb; simp
theorem rgbToRgb_same_space (s d : Std) (hn : (s.name == d.name) = false) (hs : (s.space == d.space) = true) (c : V3 ℝ) :
    rgbToRgb s d c = fromLinear d.tf (intoLinear s.tf c) := by unfold rgbToRgb; simp [hn, hs]
theorem hsvToHsv_same (s : Std) (c : V3 ℝ) : hsvToHsv s s c = c := by unfold hsvToHsv; simp
theorem hslToHsl_same (s : Std) (c : V3 ℝ) : hslToHsl s s c = c := by unfold hslToHsl; simp
theorem hwbToHwb_same (s : Std) (c : V3 ℝ) : hwbToHwb s s c = c := by unfold hwbToHwb; simp

/- Not proved here (kept as statements; the oracle examines them on the implementation):
   * encoded `Rgb<S> → Xyz → Rgb<S>`: `|back − rgb| ≤ L_S · 3·2e-7` with `L_S` the Lipschitz constant of the encoding
     (12.92 sRGB / Display P3, 4.5 Rec.709/2020, 16 ProPhoto) and `≤ (3·2e-7)^{1/γ}` for Adobe RGB / DCI-P3 *provided the
     recovered linear value is ≥ 0*, which `d6_witness_dcip3` shows is not guaranteed;
   * `Luma` edges (`Y·white`, encoded `Y`): definitional at the model level. -/

/-- **Hsv → Hsl → Hsv is the identity** whenever the guarded divisions are taken: `v ≠ 0`, `(2−s)v ∉ {0, 2}`
    (in the nominal range: `0 < v ≤ 1`, `0 ≤ s ≤ 1`, not (`s = 0` and `v = 1`)) -/
theorem hsv_hsl_hsv (h s v : ℝ) (hv : v ≠ 0) (hx0 : (2 - s) * v ≠ 0) (hx2 : (2 - s) * v ≠ 2) :
    hslToHsv (hsvToHsl ⟨h, s, v⟩) = ⟨h, s, v⟩ := by
  have e2 : (2.0 - s) * v = (2 - s) * v := by norm_num
  have h2s : (2 : ℝ) - s ≠ 0 := left_ne_zero_of_mul hx0
  by_cases hx : (2 - s) * v < 1.0
  · have hx' : (2 - s) * v < 1 := by norm_num at hx; exact hx
    have h1 : hsvToHsl ⟨h, s, v⟩ = ⟨h, s * v / ((2 - s) * v), (2 - s) * v / 2.0⟩ := by
      unfold hsvToHsl; simp only [RealScalar.valid_eq, decide_eq_true_eq, e2]
      rw [if_neg (not_not.mpr hv), if_pos hx, if_pos hx0]
    rw [h1]
    have hl : (2 - s) * v / 2.0 < 0.5 := by norm_num; linarith
    have hval : (2 - s) * v / 2.0 + (2 - s) * v / 2.0 * (s * v / ((2 - s) * v)) = v := by norm_num; field_simp; ring
    rw [hslToHsv_of_ne _ _ _ (by rw [if_pos hl, hval]; exact hv)]
    simp only [if_pos hl, hval]
    congr 1
    norm_num; field_simp
  · have hx' : 1 ≤ (2 - s) * v := by norm_num at hx; exact hx
    have hd : (2.0 : ℝ) - (2 - s) * v ≠ 0 := by norm_num; intro e; apply hx2; linarith
    have hd' : (2 : ℝ) - (2 - s) * v ≠ 0 := by intro e; apply hx2; linarith
    have h1 : hsvToHsl ⟨h, s, v⟩ = ⟨h, s * v / (2.0 - (2 - s) * v), (2 - s) * v / 2.0⟩ := by
      unfold hsvToHsl; simp only [RealScalar.valid_eq, decide_eq_true_eq, e2]
      rw [if_neg (not_not.mpr hv), if_neg hx, if_pos hd]
    rw [h1]
    have hl : ¬ ((2 - s) * v / 2.0 < 0.5) := by norm_num; linarith
    have hval : (2 - s) * v / 2.0 + (1.0 - (2 - s) * v / 2.0) * (s * v / (2.0 - (2 - s) * v)) = v := by
      norm_num; field_simp; ring
    rw [hslToHsv_of_ne _ _ _ (by rw [if_neg hl, hval]; exact hv)]
    simp only [if_neg hl, hval]
    congr 1
    norm_num; field_simp
example : (1 : ℝ) ≠ 0 ∧ ((2 : ℝ) - 0.5) * 1 ≠ 0 ∧ ((2 : ℝ) - 0.5) * 1 ≠ 2 := by norm_num

/-- **`Hsl ← Hsv` (direct formula) = `Hsl ← Rgb ← Hsv`** for `s ∈ (0,1]`, `v ∈ (0,1]`: saturation and lightness exactly, the
    hue up to full turns -/
theorem hsv_hsl_shortcut (hue s v : ℝ) (hs0 : 0 < s) (hs1 : s ≤ 1) (hv0 : 0 < v) (hv1 : v ≤ 1) :
    ∃ n : ℤ, rgbToHsl (hsvToRgb ⟨hue, s, v⟩) =
      ⟨(hsvToHsl ⟨hue, s, v⟩).c0 + 360 * (n : ℝ), (hsvToHsl ⟨hue, s, v⟩).c1, (hsvToHsl ⟨hue, s, v⟩).c2⟩ := by
  obtain ⟨k, f, n, hk, h0, h1, hh⟩ := hue_decomp hue
  rw [hsvToRgb_unfold, zones_of_hue hue k f n hk h0 h1 hh]
  have hc : 0 < v * s := mul_pos hv0 hs0
  have hm : 0 ≤ v - v * s := by nlinarith
  obtain ⟨p, hp, pmax, pmin, phue⟩ := sector_block k hk f (v * s) (v - v * s) h0 h1 hc
  obtain ⟨n0, n1, n2⟩ := sectorTriple_nonneg k hk f (v * s) (v - v * s) h0 h1 hc.le hm
  have hne : p.max ≠ p.min := by rw [pmax, pmin]; intro e; linarith
  have hT : sectorTriple k f (v * s) (v - v * s) =
      ⟨(sectorTriple k f (v * s) (v - v * s)).c0, (sectorTriple k f (v * s) (v - v * s)).c1, (sectorTriple k f (v * s) (v - v * s)).c2⟩ := rfl
  rw [hT]; unfold rgbToHsl
  simp only [RealScalar.hslSat_eq]   -- the guard `divisor == 0` (c404fc5) is invisible at ℝ (`d / 0 = 0`); dead on the gamut: C02.rgbToHsl_guard_dead
  simp only [max0_of_nonneg n0, max0_of_nonneg n1, max0_of_nonneg n2, eqv_iff, hp, RealScalar.invertedSum_eq]
  rw [if_pos hne, phue, pmax, pmin]
  have esum : v * s + (v - v * s) + (v - v * s) = (2 - s) * v := by ring
  have ed : v * s + (v - v * s) - (v - v * s) = v * s := by ring
  rw [esum, ed]
  have hxpos : 0 < (2 - s) * v := mul_pos (by linarith) hv0
  have hxlt : (2 - s) * v < 2 := by nlinarith
  -- the direct formula
  have e2 : (2.0 - s) * v = (2 - s) * v := by norm_num
  have hdir : hsvToHsl ⟨hue, s, v⟩ = ⟨hue, if (2 - s) * v < 1.0 then s * v / ((2 - s) * v) else s * v / (2.0 - (2 - s) * v), (2 - s) * v / 2.0⟩ := by
    unfold hsvToHsl; simp only [RealScalar.valid_eq, decide_eq_true_eq, e2]
    rw [if_neg (not_not.mpr hv0.ne')]
    by_cases hx : (2 - s) * v < 1.0
    · rw [if_pos hx, if_pos hx, if_pos hxpos.ne']
    · rw [if_neg hx, if_neg hx, if_pos (by norm_num; intro e; linarith)]
  rw [hdir]; simp only
  have es : (if (1.0 : ℝ) < (2 - s) * v then v * s / (2.0 - (2 - s) * v) else v * s / ((2 - s) * v)) =
      (if (2 - s) * v < 1.0 then s * v / ((2 - s) * v) else s * v / (2.0 - (2 - s) * v)) := by
    rcases lt_trichotomy ((2 - s) * v) 1 with h | h | h
    · rw [if_neg (by norm_num; linarith), if_pos (by norm_num; exact h), mul_comm]
    · rw [if_neg (by norm_num; linarith), if_neg (by norm_num; linarith), h]; norm_num; ring
    · rw [if_pos (by norm_num; exact h), if_neg (by norm_num; linarith), mul_comm]
  rw [es]
  by_cases h5 : k = 5
  · refine ⟨-n - 1, ?_⟩
    rw [if_pos h5, hh, h5]; congr 1; push_cast; ring
  · refine ⟨-n, ?_⟩
    rw [if_neg h5, hh]; congr 1; push_cast; ring

example : (0 : ℝ) < 1 ∧ (1 : ℝ) ≤ 1 ∧ (0 : ℝ) < 0.5 ∧ (0.5 : ℝ) ≤ 1 := by norm_num

end C01Rgb
