/-
  C01 — routing of derived conversions (configurations, decided) and the matrix facts behind the commutation tolerance.

  The derive crate expands `B::from_color_unclamped(a)` for a pair without a hand-written impl into
  `B::from(N::from(a))` with `N = find_nearest_color(A, skip_derives(B))`.  `PaletteModel/Route.lean` transcribes that walk over the
  graph regenerated from the sources; the correspondence run checks on every pair that the real derived conversion is the
  composition along the model's route, bit for bit.
-/
import PaletteModel.Route
import PaletteModel.Gen.Matrices
import PaletteProofs.KRat

namespace C01Route
open Route

def allPairs : List (Nat × Nat) := (List.range nColors).flatMap fun a => (List.range nColors).map fun b => (a, b)

/-- the shortcut edges the crate declares besides the preferred_source tree -/
def shortcuts : List (String × String) :=
  [("Rgb", "Oklab"), ("Oklab", "Rgb"), ("Hsl", "Hsv"), ("Hsv", "Hsl"), ("Luma", "Rgb"), ("Luma", "Yxy"), ("Yxy", "Luma")]

def isTreeEdge (h : Nat × Nat) : Bool := (parentOf h.1 == h.2 || parentOf h.2 == h.1) && h.1 != h.2
def isShortcut (h : Nat × Nat) : Bool := shortcuts.contains (nameOf h.1, nameOf h.2)

/-- **every ordered pair is routed** within the fuel (no pair recurses forever, none is a compile error) -/
theorem all_pairs_routed : allPairs.all (fun p => (routeOf p.1 p.2).isSome) = true := by decide +kernel

/-- **every hop is a hand-written edge** present in the extracted list of `impl FromColorUnclamped<A> for B` (types without an
    identity impl of their own, e.g. `Okhsl`, are routed through a neighbour: `Okhsl → Oklab → Okhsl`) -/
theorem hops_are_manual :
    allPairs.all (fun p => match routeOf p.1 p.2 with
      | some path => (hops path).all fun h => Gen.Graph.manualN.contains h || h == (16, 16)   -- Okhwb→Okhwb is declared skipped but has no impl
      | none => false) = true := by decide +kernel

/-- **the route is a walk in the preferred_source tree plus the declared shortcuts**, it never passes through `Luma`
    (a lossy single-channel type) unless an end is `Luma`, and it never visits a colour twice -/
theorem routes_are_tree_walks :
    allPairs.all (fun p => match routeOf p.1 p.2 with
      | some path =>
        ((hops path).all fun h => isTreeEdge h || isShortcut h || h.1 == h.2) &&
        (p.1 == 2 || p.2 == 2 || !path.contains 2) &&
        (path.eraseDups.length == path.length || p.1 == p.2)
      | none => false) = true := by decide +kernel

/-- 256 ordered pairs of distinct colours go exactly along the tree path, 50 use a shortcut -/
theorem tree_vs_shortcut_count :
    (allPairs.filter fun p => p.1 != p.2 && routeOf p.1 p.2 == some (treePath p.1 p.2)).length = 256 ∧
    (allPairs.filter fun p => p.1 != p.2 && routeOf p.1 p.2 != some (treePath p.1 p.2)).length = 50 := by decide +kernel

/-- a shortcut always replaces exactly the two-edge detour over the common neighbour in the tree -/
theorem shortcut_replaces_detour :
    shortcuts.all (fun s => match indexOf? s.1, indexOf? s.2 with
      | some a, some b => (treePath a b).length == 3 && routeOf a b == some [a, b]
      | _, _ => false) = true := by decide +kernel

/-- non-vacuity / readable instances -/
example : (routeOf 16 6).map (·.map nameOf) = some ["Okhwb", "Okhsv", "Oklab", "Rgb", "Hsv", "Hwb"] := by decide +kernel
example : (routeOf 8 4).map (·.map nameOf) = some ["Lch", "Lab", "Xyz", "Luv", "Lchuv", "Hsluv"] := by decide +kernel

/-! ## the matrices behind "direct = step by step" -/

open KRat

def srgbToXyz : Mat := match Gen.Mat.rgbSpaces.find? (·.1 == "Srgb") with | some (_, _, a, _, _) => ofK a | none => []
def xyzToSrgb : Mat := match Gen.Mat.rgbSpaces.find? (·.1 == "Srgb") with | some (_, _, _, b, _) => ofK b | none => []
def directFwd : Mat := ofK (Gen.Mat.linSrgbToOklabCoeffs.take 9)
/-- `oklab_to_linear_srgb`: the last nine coefficients, signs as written in the expression (`a·l − b·m + c·s`, …) -/
def directInv : Mat := match ofK (Gen.Mat.oklabToLinSrgbCoeffs.drop 6) with
  | [a,b,c,d,e,f,g,h,i] => [a, -b, c, d, e, -f, g, -h, i]
  | _ => []

/-- the crate's own matrix pairs are inverse to within the last published digit -/
theorem srgb_pair_inverse : distInf (mul3 srgbToXyz xyzToSrgb) ident ≤ 3 / 10000000 ∧ distInf (mul3 xyzToSrgb srgbToXyz) ident ≤ 3 / 10000000 := by
  decide +kernel
theorem oklab_m1_pair_inverse : distInf (mul3 (ofK Gen.Mat.oklabM1) (ofK Gen.Mat.oklabM1Inv)) ident ≤ 1 / 1000000000000000 := by decide +kernel
theorem oklab_direct_pair_inverse : distInf (mul3 directFwd directInv) ident ≤ 1 / 1000000000 := by decide +kernel

/-- **K1 (known finding).**  Ottosson's direct linear-sRGB→LMS matrix is *not* the product of the crate's Oklab `M1` and its sRGB→XYZ matrix:
    they differ by more than 1.5e-4 (so "direct = via XYZ" cannot hold to floating point accuracy) but by no more than 1.8e-4 (row sum); the inverse
    direction by no more than 1.3e-3.  The oracle's budget for routes that differ in their use of the shortcut is derived from these two numbers. -/
theorem k1_forward : (15 : Rat) / 100000 < distInf directFwd (mul3 (ofK Gen.Mat.oklabM1) srgbToXyz) ∧
    distInf directFwd (mul3 (ofK Gen.Mat.oklabM1) srgbToXyz) ≤ 18 / 100000 := by decide +kernel
theorem k1_inverse : distInf directInv (mul3 xyzToSrgb (ofK Gen.Mat.oklabM1Inv)) ≤ 13 / 10000 := by decide +kernel

end C01Route
