/-
  C06 — float → integer conversion **for every `Float` (binary64) bit pattern** (f64 → u8, u16, u32; `convert_double_to_uint!`).

  Same argument as `C06_StimulusAll.lean` on binary64: `f64ToUint w x = rne (clamp (R64 (x·MAX)) 0 MAX)` for finite `x`
  (two roundings: the product to binary64, then to the nearest integer, ties to even, by the `2^52` magic addition), `MAX` for
  NaN and `+∞`, `0` for `−∞`; the magic branch of `Stim.f64Magic` is taken for every input (`f64Magic_inl`).
  Error of the first rounding: half an ulp of binary64 below `2^8 / 2^16 / 2^32` = `2^-46 / 2^-38 / 2^-22`.

  NOT covered here: the 64- and 128-bit targets (`.inr` branch, `bigCast`) and `f32 → u32/u64/u128`, which first widen through
  the bit-level `Stim.f32ToF64` (its exactness is not proved in the reasoning layer yet).
-/
import PaletteProofs.Lemmas.StimIeee64

namespace C06
open Stim Float.Model Float.Model.UnpackedFloat Ieee Ieee.F64

def one64 : Float := Float.ofBits 0x3ff0000000000000     -- 1.0

theorem fin_one64 : IsFin one64 := rfl
theorem v_one64 : v one64 = 1 := by
  unfold v; rw [show U one64 = .finite .positive 0x10000000000000 (-52) (by decide) from rfl]; norm_num [val, sgn]

theorem fin_maxF64_8 : IsFin (maxF64 8) := rfl
theorem fin_maxF64_16 : IsFin (maxF64 16) := rfl
theorem fin_maxF64_32 : IsFin (maxF64 32) := rfl
theorem v_maxF64_8 : v (maxF64 8) = ((255 : ℕ) : ℚ) := by
  unfold v; rw [show U (maxF64 8) = .finite .positive 0x1fe00000000000 (-45) (by decide) from rfl]; norm_num [val, sgn]
theorem v_maxF64_16 : v (maxF64 16) = ((65535 : ℕ) : ℚ) := by
  unfold v; rw [show U (maxF64 16) = .finite .positive 0x1fffe000000000 (-37) (by decide) from rfl]; norm_num [val, sgn]
theorem v_maxF64_32 : v (maxF64 32) = ((4294967295 : ℕ) : ℚ) := by
  unfold v; rw [show U (maxF64 32) = .finite .positive 0x1fffffffe00000 (-21) (by decide) from rfl]; norm_num [val, sgn]

/-- the result as a function of the exact value: `N` for NaN and `+∞`, `0` for `−∞`, else `rne (clamp (R64 (x·N)) 0 N)` -/
def spec64 (N : ℕ) (x : Float) : ℕ :=
  if x.isNaN then N
  else if x.isInf then (if zero64 < x then N else 0)
  else (rne (clampQ N (R64 (v x * N)))).toNat

section
variable {mx : Float} {N : ℕ} (hm : IsFin mx) (hN : v mx = N) (hNpos : 0 < N) (hNle : N ≤ 2^52 - 1)
include hm hN hNpos hNle

theorem direct64_closed_form (x : Float) : (f64Direct mx x).toNat = spec64 N x := by
  unfold spec64
  cases hnan : x.isNaN
  · simp only [Bool.false_eq_true, if_false]
    rcases cases_of_not_nan hnan with hx | hx | hx
    · rw [isInf_of_U hx, if_pos rfl, if_neg (not_lt_negInf fin_zero64 hx)]
      exact direct64_negInf hm hN hNpos hNle hx
    · rw [hx.not_inf]; simp only [Bool.false_eq_true, if_false]
      exact direct64_fin hm hN hNpos hNle hx
    · rw [isInf_of_U hx, if_pos rfl, if_pos (lt_posInf fin_zero64 hx)]
      exact direct64_posInf hm hN hNpos hNle hx
  · simp only [if_true]
    exact direct64_nan hm hN hNpos hNle (U_nan_of_isNaN hnan)

theorem direct64_le (x : Float) : (f64Direct mx x).toNat ≤ N := by
  rw [direct64_closed_form hm hN hNpos hNle]; unfold spec64
  split_ifs <;> first | exact le_rfl | exact Nat.zero_le _ | exact rne_clampQ_le _

/-- at or above one (also `+∞`), and NaN: `MAX` -/
theorem direct64_sat_hi (x : Float) (h : x.isNaN = true ∨ one64 ≤ x) : (f64Direct mx x).toNat = N := by
  have hNq : (0 : ℚ) ≤ N := by positivity
  rcases h with h | h
  · exact direct64_nan hm hN hNpos hNle (U_nan_of_isNaN h)
  · rcases cases_of_not_nan (not_nan_of_le h).2 with hx | hx | hx
    · exact absurd h (not_le_negInf fin_one64 hx)
    · rw [direct64_fin hm hN hNpos hNle hx]
      have h1 : 1 ≤ v x := by rw [← v_one64]; exact (le_iff fin_one64 hx).mp h
      have h2 : (N : ℚ) ≤ R64 (v x * N) := by
        have := R_mono (p := spec.mantissaBits) (emin := spec.minExponent) (one_le_mantissaBits spec)
          (show (N : ℚ) ≤ v x * N by nlinarith)
        rwa [R_natCast_of_lt (lt_of_le_of_lt hNle (by decide)) (by decide)] at this
      rw [clampQ_of_ge hNq h2, rne_natCast]; rfl
    · exact direct64_posInf hm hN hNpos hNle hx

/-- at or below zero (also `−0`, `−∞`): `0` -/
theorem direct64_sat_lo (x : Float) (h : x ≤ zero64) : (f64Direct mx x).toNat = 0 := by
  have hNq : (0 : ℚ) ≤ N := by positivity
  rcases cases_of_not_nan (not_nan_of_le h).1 with hx | hx | hx
  · exact direct64_negInf hm hN hNpos hNle hx
  · rw [direct64_fin hm hN hNpos hNle hx]
    have h1 : v x ≤ 0 := by rw [← v_zero64]; exact (le_iff hx fin_zero64).mp h
    have h2 : R64 (v x * N) ≤ 0 := by
      have := R_mono (p := spec.mantissaBits) (emin := spec.minExponent) (one_le_mantissaBits spec)
        (show v x * N ≤ 0 by nlinarith)
      rwa [R_zero] at this
    rw [clampQ_of_le hNq h2, show (0 : ℚ) = ((0 : ℕ) : ℚ) by simp, rne_natCast]; rfl
  · exact absurd h (not_posInf_le fin_zero64 hx)

/-- on `[0, 1]`: the result is `rne (R64 (x·N))`, within `1/2 + (half an ulp of binary32 below 2^k)` of `x·N` -/
theorem direct64_nearest (x : Float) (h0 : zero64 ≤ x) (h1 : x ≤ one64) {k : ℤ} (hk : (N : ℚ) < 2^k)
    (hk' : -1074 ≤ k - 53) :
    (f64Direct mx x).toNat = (rne (R64 (v x * N))).toNat ∧
    |((f64Direct mx x).toNat : ℚ) - v x * N| ≤ 1 / 2 + 2^(k - 53) / 2 := by
  have hNq : (0 : ℚ) ≤ N := by positivity
  have hx : IsFin x := by
    rcases cases_of_not_nan (not_nan_of_le h0).2 with hx | hx | hx
    · exact absurd h0 (not_le_negInf fin_zero64 hx)
    · exact hx
    · exact absurd h1 (not_posInf_le fin_one64 hx)
  have a0 : 0 ≤ v x := by rw [← v_zero64]; exact (le_iff fin_zero64 hx).mp h0
  have a1 : v x ≤ 1 := by rw [← v_one64]; exact (le_iff hx fin_one64).mp h1
  have b0 : 0 ≤ R64 (v x * N) := R_nonneg (mul_nonneg a0 hNq)
  have b1 : R64 (v x * N) ≤ N := by
    have := R_mono (p := spec.mantissaBits) (emin := spec.minExponent) (one_le_mantissaBits spec)
      (show v x * N ≤ N by nlinarith)
    rwa [R_natCast_of_lt (lt_of_le_of_lt hNle (by decide)) (by decide)] at this
  have hres : (f64Direct mx x).toNat = (rne (R64 (v x * N))).toNat := by
    rw [direct64_fin hm hN hNpos hNle hx, clampQ_of_mem b0 b1]
  refine ⟨hres, ?_⟩
  have hcast : (((rne (R64 (v x * N))).toNat : ℕ) : ℚ) = (rne (R64 (v x * N)) : ℚ) := by
    have := rne_nonneg b0
    have h : (((rne (R64 (v x * N))).toNat : ℕ) : ℤ) = rne (R64 (v x * N)) := by omega
    exact_mod_cast h
  rw [hres, hcast]
  have e1 := abs_rne_sub_le (R64 (v x * N))
  have habs : |v x * N| < 2^k := by
    rw [abs_of_nonneg (mul_nonneg a0 hNq)]; exact lt_of_le_of_lt (by nlinarith) hk
  have e2 := R_error_le (p := spec.mantissaBits) (emin := spec.minExponent) habs
  have hmax : max (k - (spec.mantissaBits : ℕ)) spec.minExponent = k - 53 := by
    show max (k - 53) (-1074) = k - 53
    exact max_eq_left hk'
  rw [hmax] at e2
  calc |(rne (R64 (v x * N)) : ℚ) - v x * N|
      = |((rne (R64 (v x * N)) : ℚ) - R64 (v x * N)) + (R64 (v x * N) - v x * N)| := by ring_nf
    _ ≤ |(rne (R64 (v x * N)) : ℚ) - R64 (v x * N)| + |R64 (v x * N) - v x * N| := abs_add_le _ _
    _ ≤ 1 / 2 + 2^(k - 53) / 2 := add_le_add e1 e2

end


/-! ## f64 → u8 -/

theorem f64ToUint8_eq (x : Float) : f64ToUint 8 x = (f64Direct (maxF64 8) x).toNat % 2^8 := by
  unfold f64ToUint
  rw [f64Magic_inl fin_maxF64_8 v_maxF64_8 (by decide) (by decide) x]

theorem f64_to_u8_closed_form (x : Float) : f64ToUint 8 x = spec64 255 x := by
  have h := direct64_closed_form fin_maxF64_8 v_maxF64_8 (by decide) (by decide) x
  have hle := direct64_le fin_maxF64_8 v_maxF64_8 (by decide) (by decide) x
  rw [f64ToUint8_eq, Nat.mod_eq_of_lt (by omega), h]

/-- **monotone over every pair of non-NaN `f64` bit patterns** -/
theorem f64_to_u8_monotone_all : ∀ x y : Float, ¬ x.isNaN → ¬ y.isNaN → x ≤ y → f64ToUint 8 x ≤ f64ToUint 8 y := by
  intro x y hx hy h
  have hlx := direct64_le fin_maxF64_8 v_maxF64_8 (by decide) (by decide) x
  have hly := direct64_le fin_maxF64_8 v_maxF64_8 (by decide) (by decide) y
  rw [f64ToUint8_eq, f64ToUint8_eq, Nat.mod_eq_of_lt (by omega), Nat.mod_eq_of_lt (by omega)]
  exact direct64_mono fin_maxF64_8 v_maxF64_8 (by decide) (by decide) (by simpa using hx) (by simpa using hy) h

/-- **saturation**: `MAX` for NaN and every `x ≥ 1` (including `+∞`); `0` for every `x ≤ 0` (including `−0`, `−∞`) -/
theorem f64_to_u8_saturates_all : ∀ x : Float,
    ((x.isNaN = true ∨ one64 ≤ x) → f64ToUint 8 x = 255) ∧ (x ≤ zero64 → f64ToUint 8 x = 0) := by
  intro x
  have hlx := direct64_le fin_maxF64_8 v_maxF64_8 (by decide) (by decide) x
  rw [f64ToUint8_eq, Nat.mod_eq_of_lt (by omega)]
  exact ⟨direct64_sat_hi fin_maxF64_8 v_maxF64_8 (by decide) (by decide) x,
         direct64_sat_lo fin_maxF64_8 v_maxF64_8 (by decide) (by decide) x⟩

/-- **nearest integer on `[0, 1]`** up to the binary64 rounding of the product -/
theorem f64_to_u8_nearest_all : ∀ x : Float, zero64 ≤ x → x ≤ one64 →
    f64ToUint 8 x = (rne (R64 (v x * 255))).toNat ∧ |(f64ToUint 8 x : ℚ) - v x * 255| ≤ 1 / 2 + 1 / 2^46 := by
  intro x h0 h1
  have hlx := direct64_le fin_maxF64_8 v_maxF64_8 (by decide) (by decide) x
  have := direct64_nearest fin_maxF64_8 v_maxF64_8 (by decide) (by decide) x h0 h1 (k := 8) (by norm_num) (by norm_num)
  rw [f64ToUint8_eq, Nat.mod_eq_of_lt (by omega)]
  refine ⟨by simpa using this.1, ?_⟩
  have h2 := this.2
  norm_num at h2 ⊢
  exact h2

/-! ## f64 → u16 -/

theorem f64ToUint16_eq (x : Float) : f64ToUint 16 x = (f64Direct (maxF64 16) x).toNat % 2^16 := by
  unfold f64ToUint
  rw [f64Magic_inl fin_maxF64_16 v_maxF64_16 (by decide) (by decide) x]

theorem f64_to_u16_closed_form (x : Float) : f64ToUint 16 x = spec64 65535 x := by
  have h := direct64_closed_form fin_maxF64_16 v_maxF64_16 (by decide) (by decide) x
  have hle := direct64_le fin_maxF64_16 v_maxF64_16 (by decide) (by decide) x
  rw [f64ToUint16_eq, Nat.mod_eq_of_lt (by omega), h]

/-- **monotone over every pair of non-NaN `f64` bit patterns** -/
theorem f64_to_u16_monotone_all : ∀ x y : Float, ¬ x.isNaN → ¬ y.isNaN → x ≤ y → f64ToUint 16 x ≤ f64ToUint 16 y := by
  intro x y hx hy h
  have hlx := direct64_le fin_maxF64_16 v_maxF64_16 (by decide) (by decide) x
  have hly := direct64_le fin_maxF64_16 v_maxF64_16 (by decide) (by decide) y
  rw [f64ToUint16_eq, f64ToUint16_eq, Nat.mod_eq_of_lt (by omega), Nat.mod_eq_of_lt (by omega)]
  exact direct64_mono fin_maxF64_16 v_maxF64_16 (by decide) (by decide) (by simpa using hx) (by simpa using hy) h

/-- **saturation**: `MAX` for NaN and every `x ≥ 1` (including `+∞`); `0` for every `x ≤ 0` (including `−0`, `−∞`) -/
theorem f64_to_u16_saturates_all : ∀ x : Float,
    ((x.isNaN = true ∨ one64 ≤ x) → f64ToUint 16 x = 65535) ∧ (x ≤ zero64 → f64ToUint 16 x = 0) := by
  intro x
  have hlx := direct64_le fin_maxF64_16 v_maxF64_16 (by decide) (by decide) x
  rw [f64ToUint16_eq, Nat.mod_eq_of_lt (by omega)]
  exact ⟨direct64_sat_hi fin_maxF64_16 v_maxF64_16 (by decide) (by decide) x,
         direct64_sat_lo fin_maxF64_16 v_maxF64_16 (by decide) (by decide) x⟩

/-- **nearest integer on `[0, 1]`** up to the binary64 rounding of the product -/
theorem f64_to_u16_nearest_all : ∀ x : Float, zero64 ≤ x → x ≤ one64 →
    f64ToUint 16 x = (rne (R64 (v x * 65535))).toNat ∧ |(f64ToUint 16 x : ℚ) - v x * 65535| ≤ 1 / 2 + 1 / 2^38 := by
  intro x h0 h1
  have hlx := direct64_le fin_maxF64_16 v_maxF64_16 (by decide) (by decide) x
  have := direct64_nearest fin_maxF64_16 v_maxF64_16 (by decide) (by decide) x h0 h1 (k := 16) (by norm_num) (by norm_num)
  rw [f64ToUint16_eq, Nat.mod_eq_of_lt (by omega)]
  refine ⟨by simpa using this.1, ?_⟩
  have h2 := this.2
  norm_num at h2 ⊢
  exact h2

/-! ## f64 → u32 -/

theorem f64ToUint32_eq (x : Float) : f64ToUint 32 x = (f64Direct (maxF64 32) x).toNat % 2^32 := by
  unfold f64ToUint
  rw [f64Magic_inl fin_maxF64_32 v_maxF64_32 (by decide) (by decide) x]

theorem f64_to_u32_closed_form (x : Float) : f64ToUint 32 x = spec64 4294967295 x := by
  have h := direct64_closed_form fin_maxF64_32 v_maxF64_32 (by decide) (by decide) x
  have hle := direct64_le fin_maxF64_32 v_maxF64_32 (by decide) (by decide) x
  rw [f64ToUint32_eq, Nat.mod_eq_of_lt (by omega), h]

/-- **monotone over every pair of non-NaN `f64` bit patterns** -/
theorem f64_to_u32_monotone_all : ∀ x y : Float, ¬ x.isNaN → ¬ y.isNaN → x ≤ y → f64ToUint 32 x ≤ f64ToUint 32 y := by
  intro x y hx hy h
  have hlx := direct64_le fin_maxF64_32 v_maxF64_32 (by decide) (by decide) x
  have hly := direct64_le fin_maxF64_32 v_maxF64_32 (by decide) (by decide) y
  rw [f64ToUint32_eq, f64ToUint32_eq, Nat.mod_eq_of_lt (by omega), Nat.mod_eq_of_lt (by omega)]
  exact direct64_mono fin_maxF64_32 v_maxF64_32 (by decide) (by decide) (by simpa using hx) (by simpa using hy) h

/-- **saturation**: `MAX` for NaN and every `x ≥ 1` (including `+∞`); `0` for every `x ≤ 0` (including `−0`, `−∞`) -/
theorem f64_to_u32_saturates_all : ∀ x : Float,
    ((x.isNaN = true ∨ one64 ≤ x) → f64ToUint 32 x = 4294967295) ∧ (x ≤ zero64 → f64ToUint 32 x = 0) := by
  intro x
  have hlx := direct64_le fin_maxF64_32 v_maxF64_32 (by decide) (by decide) x
  rw [f64ToUint32_eq, Nat.mod_eq_of_lt (by omega)]
  exact ⟨direct64_sat_hi fin_maxF64_32 v_maxF64_32 (by decide) (by decide) x,
         direct64_sat_lo fin_maxF64_32 v_maxF64_32 (by decide) (by decide) x⟩

/-- **nearest integer on `[0, 1]`** up to the binary64 rounding of the product -/
theorem f64_to_u32_nearest_all : ∀ x : Float, zero64 ≤ x → x ≤ one64 →
    f64ToUint 32 x = (rne (R64 (v x * 4294967295))).toNat ∧ |(f64ToUint 32 x : ℚ) - v x * 4294967295| ≤ 1 / 2 + 1 / 2^22 := by
  intro x h0 h1
  have hlx := direct64_le fin_maxF64_32 v_maxF64_32 (by decide) (by decide) x
  have := direct64_nearest fin_maxF64_32 v_maxF64_32 (by decide) (by decide) x h0 h1 (k := 32) (by norm_num) (by norm_num)
  rw [f64ToUint32_eq, Nat.mod_eq_of_lt (by omega)]
  refine ⟨by simpa using this.1, ?_⟩
  have h2 := this.2
  norm_num at h2 ⊢
  exact h2

example : zero64 ≤ Float.ofBits 0x3fd5555555555555 ∧ Float.ofBits 0x3fd5555555555555 ≤ one64 ∧ ¬ (Float.ofBits 0x3fd5555555555555).isNaN := by
  decide +kernel

end C06
