/-
  C15 — gamut-bounded cylindrical spaces stay inside the RGB gamut.

  What is proved here, at ℝ, about the same model functions the driver executes against the implementation:

  * **HSV, HSL, HWB (exact, no tolerance, every hue):** components within the documented bounds (`s, v ∈ [0,1]`; `s, l ∈ [0,1]`;
    `w, b ≥ 0`, `w + b ≤ 1`) give RGB in `[0,1]³`; conversely RGB in `[0,1]³` gives components within those bounds and converts back
    to the same RGB colour.
  * **HSLuv:** `S ≤ 100` keeps the chroma below every admissible boundary distance (`C01Cie.hsluvToLchuv_inside`), and the six
    boundary lines of `luv_bounds.rs` *are* the loci "linear RGB channel (HSLuv's matrix `M`, HSLuv's white reference) = 0 / = 1" at the
    given lightness: a rational identity in `M`, `L`, `sub2` (`boundaryLine_is_channel_locus`), with the sign corollaries that turn
    "on the origin's side of the line" into "channel ≥ 0" / "channel ≤ 1".  The distance between HSLuv's matrix and palette's sRGB matrix
    (the source of the 1.5e-4 excursion the oracle sees) is decided over ℚ.
  * **Okhsl / Okhsv / Okhwb:** containment depends on the accuracy of a polynomial fit of the cusp plus ONE Halley step
    (`Gen.Ok.maxSaturationIter = 1`) and of `find_gamut_intersection`'s single Halley step: there is no closed-form reason for it and it
    is NOT provable by algebra.  It is not claimed; it is searched on the implementation with the declared constant 1e-3 (linear RGB).
    Proved is what is algebraic: `oklab_to_linear_srgb` is homogeneous of degree 3, hence at `v = 1` the final scaling of
    `Okhsv → Oklab` makes `max(r, g, b) = 1` exactly; `s = 0` and `v = 0` give a gray; `Okhwb ↔ Okhsv` preserves the bounds both ways;
    `toe`/`toe_inv` map `[0,1]` onto `[0,1]`.
-/
import PaletteProofs.C01_Rgb
import PaletteProofs.C01_Cie
import PaletteProofs.C01_Ok
import PaletteProofs.KRat

namespace C15
open RgbFam Hexcone

/-! ## 1. HSV, HSL, HWB — exact -/

/-- **`s, v ∈ [0,1]` ⇒ `Rgb ← Hsv ∈ [0,1]³`, every hue** -/
theorem hsv_in_gamut (hue s v : ℝ) (hs0 : 0 ≤ s) (hs1 : s ≤ 1) (hv0 : 0 ≤ v) (hv1 : v ≤ 1) :
    0 ≤ (hsvToRgb ⟨hue, s, v⟩).c0 ∧ (hsvToRgb ⟨hue, s, v⟩).c0 ≤ 1 ∧ 0 ≤ (hsvToRgb ⟨hue, s, v⟩).c1 ∧ (hsvToRgb ⟨hue, s, v⟩).c1 ≤ 1 ∧
    0 ≤ (hsvToRgb ⟨hue, s, v⟩).c2 ∧ (hsvToRgb ⟨hue, s, v⟩).c2 ≤ 1 :=
  C01Rgb.hsvToRgb_in_gamut hue s v hs0 hs1 hv0 hv1
example : (0 : ℝ) ≤ 1 ∧ (1 : ℝ) ≤ 1 := by norm_num   -- the bounds themselves are admitted: s = v = 1

/-- **`s, l ∈ [0,1]` ⇒ `Rgb ← Hsl ∈ [0,1]³`, every hue** -/
theorem hsl_in_gamut (hue s l : ℝ) (hs0 : 0 ≤ s) (hs1 : s ≤ 1) (hl0 : 0 ≤ l) (hl1 : l ≤ 1) :
    0 ≤ (hslToRgb ⟨hue, s, l⟩).c0 ∧ (hslToRgb ⟨hue, s, l⟩).c0 ≤ 1 ∧ 0 ≤ (hslToRgb ⟨hue, s, l⟩).c1 ∧ (hslToRgb ⟨hue, s, l⟩).c1 ≤ 1 ∧
    0 ≤ (hslToRgb ⟨hue, s, l⟩).c2 ∧ (hslToRgb ⟨hue, s, l⟩).c2 ≤ 1 :=
  C01Rgb.hslToRgb_in_gamut hue s l hs0 hs1 hl0 hl1
example : (0 : ℝ) ≤ 0 ∧ (0 : ℝ) ≤ 1 := by norm_num

/-- `Hsv ← Hwb` keeps the bounds: `w, b ≥ 0`, `w + b ≤ 1` ⇒ `s, v ∈ [0,1]` (also at `b = 1`, where the guarded division returns `s = 0`) -/
theorem hwbToHsv_bounds (h w b : ℝ) (hw : 0 ≤ w) (hb : 0 ≤ b) (hwb : w + b ≤ 1) :
    0 ≤ (hwbToHsv ⟨h, w, b⟩).c1 ∧ (hwbToHsv ⟨h, w, b⟩).c1 ≤ 1 ∧ 0 ≤ (hwbToHsv ⟨h, w, b⟩).c2 ∧ (hwbToHsv ⟨h, w, b⟩).c2 ≤ 1 := by
  by_cases hb1 : b = 1
  · subst hb1
    have : hwbToHsv (⟨h, w, 1⟩ : V3 ℝ) = ⟨h, 0.0, 1.0 - 1⟩ := by
      unfold hwbToHsv; simp only [RealScalar.valid_eq]; norm_num
    rw [this]; norm_num
  · rw [C01Rgb.hwbToHsv_of_ne h w b hb1]
    have hv : (0 : ℝ) < 1 - b := by rcases lt_or_eq_of_le (by linarith : b ≤ 1) with h' | h'; linarith; exact absurd h' hb1
    have h1 : 0 ≤ w / (1 - b) := div_nonneg hw hv.le
    have h2 : w / (1 - b) ≤ 1 := (div_le_one hv).mpr (by linarith)
    simp only; norm_num
    refine ⟨h2, h1, by linarith, hb⟩

/-- **`w, b ≥ 0`, `w + b ≤ 1` ⇒ `Rgb ← Hsv ← Hwb ∈ [0,1]³`, every hue** (the route `Rgb ← Hwb` takes) -/
theorem hwb_in_gamut (hue w b : ℝ) (hw : 0 ≤ w) (hb : 0 ≤ b) (hwb : w + b ≤ 1) :
    let rgb := hsvToRgb (hwbToHsv ⟨hue, w, b⟩)
    0 ≤ rgb.c0 ∧ rgb.c0 ≤ 1 ∧ 0 ≤ rgb.c1 ∧ rgb.c1 ≤ 1 ∧ 0 ≤ rgb.c2 ∧ rgb.c2 ≤ 1 := by
  obtain ⟨a1, a2, a3, a4⟩ := hwbToHsv_bounds hue w b hw hb hwb
  have e : hwbToHsv (⟨hue, w, b⟩ : V3 ℝ) = ⟨(hwbToHsv ⟨hue, w, b⟩).c0, (hwbToHsv ⟨hue, w, b⟩).c1, (hwbToHsv ⟨hue, w, b⟩).c2⟩ := rfl
  intro rgb
  have : rgb = hsvToRgb ⟨(hwbToHsv ⟨hue, w, b⟩).c0, (hwbToHsv ⟨hue, w, b⟩).c1, (hwbToHsv ⟨hue, w, b⟩).c2⟩ := by rw [← e]
  rw [this]
  exact C01Rgb.hsvToRgb_in_gamut _ _ _ a1 a2 a3 a4
example : (0 : ℝ) ≤ 0.25 ∧ (0 : ℝ) ≤ 0.75 ∧ (0.25 : ℝ) + 0.75 ≤ 1 := by norm_num   -- on the face w + b = 1

/-- the maximum the block computes is one of the components, hence `≤ 1` on the unit cube -/
theorem max_le_one (r g b : ℝ) (hr1 : r ≤ 1) (hg1 : g ≤ 1) (hb1 : b ≤ 1) : (maxMinSep r g b).max ≤ 1 := by
  rcases cases_order r g b with ⟨_, _, _, hp⟩ | ⟨_, _, _, hp⟩ | ⟨_, _, hp⟩ | ⟨_, _, hp⟩ | ⟨_, _, _, hp⟩ | ⟨_, _, _, hp⟩ <;>
    rw [hp] <;> simp only <;> assumption

/-- **converse, HSV: `rgb ∈ [0,1]³` ⇒ `s, v ∈ [0,1]`** -/
theorem rgbToHsv_bounds (r g b : ℝ) (hr : 0 ≤ r) (hg : 0 ≤ g) (hb : 0 ≤ b) (hr1 : r ≤ 1) (hg1 : g ≤ 1) (hb1 : b ≤ 1) :
    0 ≤ (rgbToHsv ⟨r, g, b⟩).c1 ∧ (rgbToHsv ⟨r, g, b⟩).c1 ≤ 1 ∧ 0 ≤ (rgbToHsv ⟨r, g, b⟩).c2 ∧ (rgbToHsv ⟨r, g, b⟩).c2 ≤ 1 := by
  obtain ⟨b1, b2, b3, b4, b5, b6⟩ := maxMin_bounds r g b
  have hmin := min_nonneg r g b hr hg hb
  have hM1 := max_le_one r g b hr1 hg1 hb1
  have hmM : (maxMinSep r g b).min ≤ (maxMinSep r g b).max := le_trans b1 b2
  unfold rgbToHsv
  simp only [max0_of_nonneg hr, max0_of_nonneg hg, max0_of_nonneg hb, eqv_iff]
  by_cases hne : (maxMinSep r g b).max = (maxMinSep r g b).min
  · rw [if_neg (not_not.mpr hne)]; norm_num; exact ⟨by linarith, hM1⟩
  · rw [if_pos hne]
    have hlt : (maxMinSep r g b).min < (maxMinSep r g b).max := lt_of_le_of_ne hmM (Ne.symm hne)
    have hMpos : 0 < (maxMinSep r g b).max := lt_of_le_of_lt hmin hlt
    simp only
    refine ⟨div_nonneg (by linarith) hMpos.le, (div_le_one hMpos).mpr (by linarith), hMpos.le, hM1⟩

/-- **converse, HSL: `rgb ∈ [0,1]³` ⇒ `s, l ∈ [0,1]`** -/
theorem rgbToHsl_bounds (r g b : ℝ) (hr : 0 ≤ r) (hg : 0 ≤ g) (hb : 0 ≤ b) (hr1 : r ≤ 1) (hg1 : g ≤ 1) (hb1 : b ≤ 1) :
    0 ≤ (rgbToHsl ⟨r, g, b⟩).c1 ∧ (rgbToHsl ⟨r, g, b⟩).c1 ≤ 1 ∧ 0 ≤ (rgbToHsl ⟨r, g, b⟩).c2 ∧ (rgbToHsl ⟨r, g, b⟩).c2 ≤ 1 := by
  obtain ⟨b1, b2, b3, b4, b5, b6⟩ := maxMin_bounds r g b
  have hmin := min_nonneg r g b hr hg hb
  have hM1 := max_le_one r g b hr1 hg1 hb1
  have hmM : (maxMinSep r g b).min ≤ (maxMinSep r g b).max := le_trans b1 b2
  unfold rgbToHsl
  simp only [RealScalar.hslSat_eq]   -- the guard `divisor == 0` (c404fc5) is invisible at ℝ; dead on the gamut: `rgbToHsl_divisor_pos`
  -- `RealScalar.invertedSum_eq`: the code's denominator `(1 − max) + (1 − min)` is `2 − (max + min)` at ℝ
  simp only [max0_of_nonneg hr, max0_of_nonneg hg, max0_of_nonneg hb, eqv_iff, RealScalar.invertedSum_eq]
  set M := (maxMinSep r g b).max with hMdef
  set m := (maxMinSep r g b).min with hmdef
  have hl0 : 0 ≤ (M + m) / 2.0 := by norm_num; linarith
  have hl1 : (M + m) / 2.0 ≤ 1 := by norm_num; linarith
  by_cases hne : M = m
  · rw [if_neg (not_not.mpr hne)]; norm_num; exact ⟨by linarith, by linarith⟩
  · rw [if_pos hne]
    have hlt : m < M := lt_of_le_of_ne hmM (Ne.symm hne)
    simp only
    refine ⟨?_, ?_, hl0, hl1⟩
    · split_ifs with hs
      · have : (1 : ℝ) < M + m := by norm_num at hs; exact hs
        exact div_nonneg (by linarith) (by norm_num; linarith)
      · exact div_nonneg (by linarith) (by linarith)
    · split_ifs with hs
      · have h2 : (0 : ℝ) < 2.0 - (M + m) := by norm_num; linarith
        exact (div_le_one h2).mpr (by norm_num; linarith)
      · have h2 : (0 : ℝ) < M + m := by linarith
        exact (div_le_one h2).mpr (by linarith)

/-- **the point of the repair of `Rgb → Hsl` next to white (palette 4f36dd5)**: on the unit cube, whenever the code takes the
    `max + min > 1` branch (and `max ≠ min`), the saturation it returns is `(max − min) / ((1 − max) + (1 − min))` and that
    denominator -- `inverted_sum`, exactly as the code associates it -- is strictly positive: the selected branch never divides by
    zero.  At ℝ the old denominator `2 − (max + min)` has the same value (`RealScalar.invertedSum_eq`); the difference is rounding:
    `1 − max ≥ 0` and `1 − min > 0` hold for floats too (a difference of distinct floats is never 0) and a sum of a non-negative
    and a positive float is positive, while `max + min` rounds to exactly 2 for `max = 1`, `min = 1 − ulp`
    (`hsl_next_to_white_f64`, `inverted_sum_next_to_white_f32` below decide that on the IEEE model). -/
theorem rgbToHsl_inverted_sum_pos (r g b : ℝ) (hr : 0 ≤ r) (hg : 0 ≤ g) (hb : 0 ≤ b) (hr1 : r ≤ 1) (hg1 : g ≤ 1) (hb1 : b ≤ 1)
    (hne : (maxMinSep r g b).max ≠ (maxMinSep r g b).min) (hs : 1 < (maxMinSep r g b).max + (maxMinSep r g b).min) :
    0 < (1.0 - (maxMinSep r g b).max) + (1.0 - (maxMinSep r g b).min) ∧
    (rgbToHsl ⟨r, g, b⟩).c1 =
      ((maxMinSep r g b).max - (maxMinSep r g b).min) / ((1.0 - (maxMinSep r g b).max) + (1.0 - (maxMinSep r g b).min)) := by
  obtain ⟨b1, b2, b3, b4, b5, b6⟩ := maxMin_bounds r g b
  have hM1 := max_le_one r g b hr1 hg1 hb1
  have hlt : (maxMinSep r g b).min < (maxMinSep r g b).max := lt_of_le_of_ne (le_trans b1 b2) (Ne.symm hne)
  refine ⟨?_, ?_⟩
  · have h1 : (0 : ℝ) ≤ 1.0 - (maxMinSep r g b).max := by norm_num; exact hM1
    have h2 : (0 : ℝ) < 1.0 - (maxMinSep r g b).min := by norm_num; linarith
    exact add_pos_of_nonneg_of_pos h1 h2
  · unfold rgbToHsl
    simp only [RealScalar.hslSat_eq]   -- the guard `divisor == 0` (c404fc5) is invisible at ℝ; dead on the gamut: `rgbToHsl_divisor_pos`
    simp only [max0_of_nonneg hr, max0_of_nonneg hg, max0_of_nonneg hb, eqv_iff]
    rw [if_pos hne]; simp only
    rw [if_pos (by norm_num; exact hs)]

/-- **the guard of the second repair (palette c404fc5: saturation 0 when the selected divisor is exactly 0) never fires on the
    gamut**: on the unit cube with `max ≠ min` the divisor the code selects -- `(1 − max) + (1 − min)` for `max + min > 1`
    (`rgbToHsl_inverted_sum_pos`), `max + min` otherwise -- is strictly positive, in both arms, so every in-gamut colour keeps the
    saturation it had (`rgbToHsl_bounds` is about the unchanged quotient).  The guard exists for colours *outside* the gamut
    (`max = 1 + δ`, `min = 1 − δ`: the Rec.2020 image of an sRGB near-white in `f32`, `C07.hsl_divisor_zero_f32`), where the
    saturation is now 0 instead of `d / 0 = +inf` (`C07.rgbToHsl_sat_defined`, `C07.rgbToHsl_finite_all`). -/
theorem rgbToHsl_divisor_pos (r g b : ℝ) (hr : 0 ≤ r) (hg : 0 ≤ g) (hb : 0 ≤ b) (hr1 : r ≤ 1) (hg1 : g ≤ 1) (hb1 : b ≤ 1)
    (hne : (maxMinSep r g b).max ≠ (maxMinSep r g b).min) :
    0 < (if 1.0 < (maxMinSep r g b).max + (maxMinSep r g b).min
          then (1.0 - (maxMinSep r g b).max) + (1.0 - (maxMinSep r g b).min)
          else (maxMinSep r g b).max + (maxMinSep r g b).min) := by
  obtain ⟨b1, b2, b3, b4, b5, b6⟩ := maxMin_bounds r g b
  have hmin := min_nonneg r g b hr hg hb
  have hlt : (maxMinSep r g b).min < (maxMinSep r g b).max := lt_of_le_of_ne (le_trans b1 b2) (Ne.symm hne)
  split_ifs with hs
  · exact (rgbToHsl_inverted_sum_pos r g b hr hg hb hr1 hg1 hb1 hne (by norm_num at hs; exact hs)).1
  · linarith

/-- non-vacuity: `(1, 0.5, 0)`: `max = 1 ≠ 0 = min` (the `max + min ≤ 1` arm; the other arm: next example) -/
example : (maxMinSep (1 : ℝ) 0.5 0).max ≠ (maxMinSep (1 : ℝ) 0.5 0).min := by
  obtain ⟨b1, b2, b3, b4, b5, b6⟩ := maxMin_bounds (1 : ℝ) 0.5 0
  intro e; rw [e] at b2; linarith

/-- non-vacuity: `(1, 1, 0.999)`, next to white: `max = 1`, `min = 0.999`, `max ≠ min`, `max + min = 1.999 > 1` -/
example : (0 : ℝ) ≤ 1 ∧ (0 : ℝ) ≤ 0.999 ∧ (1 : ℝ) ≤ 1 ∧ (0.999 : ℝ) ≤ 1 ∧
    (maxMinSep (1 : ℝ) 1 0.999).max ≠ (maxMinSep (1 : ℝ) 1 0.999).min ∧
    1 < (maxMinSep (1 : ℝ) 1 0.999).max + (maxMinSep (1 : ℝ) 1 0.999).min := by
  have e : maxMinSep (1 : ℝ) 1 0.999 = ⟨1, 0.999, 0.999 - 1, 2.0⟩ := by
    rcases cases_order (1 : ℝ) 1 0.999 with ⟨h, _⟩ | ⟨h, _⟩ | ⟨h, _⟩ | ⟨_, h, _⟩ | ⟨_, _, _, hp⟩ | ⟨_, _, h, _⟩
    · norm_num at h
    · norm_num at h
    · norm_num at h
    · norm_num at h
    · exact hp
    · norm_num at h
  rw [e]; norm_num

/-- the six colours with two components `a` and one `b`, or one `a` and two `b` (`a = 1`: the neighbours of white) -/
def cornerAdjacent {α : Type} (a b : α) : List (V3 α) := [⟨a, a, b⟩, ⟨a, b, a⟩, ⟨b, a, a⟩, ⟨a, b, b⟩, ⟨b, a, b⟩, ⟨b, b, a⟩]

/-- ℝ-free companion of `rgbToHsl_inverted_sum_pos`, decided by the kernel on Lean's IEEE `Float` by running the *model itself*
    (`rgbToHsl`, `rgbToHslMask` at `f64`): for `max` one of the 3 doubles ending at 1 (`1 − i·2⁻⁵³`) and `min` one of the 4
    doubles just below `max`, in all six corner-adjacent arrangements, the repaired denominator is strictly positive and both
    branches return a saturation in `(0, 1]`; whereas the old `2 − (max + min)` is exactly `+0` for `max = 1`, `min = 1 − 2⁻⁵³`
    (last clause: the division then gave `+inf`, finding `hsl-white-inf-C15`). -/
theorem hsl_next_to_white_f64 :
    (∀ i : Fin 3, ∀ j : Fin 4,
      let mx := Float.ofBits (0x3ff0000000000000 - i.val.toUInt64)
      let mn := Float.ofBits (0x3ff0000000000000 - i.val.toUInt64 - 1 - j.val.toUInt64)
      (0.0 : Float) < (1.0 - mx) + (1.0 - mn) ∧
      ∀ c ∈ cornerAdjacent mx mn,
        (0.0 : Float) < (rgbToHsl c).c1 ∧ (rgbToHsl c).c1 ≤ 1.0 ∧ (0.0 : Float) < (rgbToHslMask c).c1 ∧ (rgbToHslMask c).c1 ≤ 1.0) ∧
    ((2.0 : Float) - (1.0 + Float.ofBits 0x3fefffffffffffff)).toBits = 0 := by decide +kernel

/-- the same at `f32`, on the expression (`T::from_f64(1.0)` is `1.0f64 as f32`, and `Float.toFloat32` is opaque to the kernel, so
    the model cannot be run there; `1 = 0x3f800000`, `2 = 0x40000000`): for `max` one of the 8 floats ending at 1 and `min` one
    of the 16 floats just below `max`, the branch is the `max + min > 1` one, `(1 − max) + (1 − min) > 0` and the quotient is in
    `(0, 1]`; the old denominator `2 − (1 + (1 − 2⁻²⁴))` is exactly `+0` (`Srgb<f32>(1, 1, 0.99999994) → Hsl(60, +inf, 1)`). -/
theorem inverted_sum_next_to_white_f32 :
    (∀ i : Fin 8, ∀ j : Fin 16,
      let one := Float32.ofBits 0x3f800000
      let mx := Float32.ofBits (0x3f800000 - i.val.toUInt32)
      let mn := Float32.ofBits (0x3f800000 - i.val.toUInt32 - 1 - j.val.toUInt32)
      mn < mx ∧ mx ≤ one ∧ one < mx + mn ∧ Float32.ofBits 0 < (one - mx) + (one - mn) ∧
        Float32.ofBits 0 < (mx - mn) / ((one - mx) + (one - mn)) ∧ (mx - mn) / ((one - mx) + (one - mn)) ≤ one) ∧
    (Float32.ofBits 0x40000000 - (Float32.ofBits 0x3f800000 + Float32.ofBits 0x3f7fffff)).toBits = 0 := by decide +kernel

/-- **converse, HWB: `rgb ∈ [0,1]³` ⇒ `w, b ≥ 0` and `w + b ≤ 1`** (through `Hwb ← Hsv ← Rgb`) -/
theorem rgbToHwb_bounds (r g b : ℝ) (hr : 0 ≤ r) (hg : 0 ≤ g) (hb : 0 ≤ b) (hr1 : r ≤ 1) (hg1 : g ≤ 1) (hb1 : b ≤ 1) :
    let hwb := hsvToHwb (rgbToHsv ⟨r, g, b⟩)
    0 ≤ hwb.c1 ∧ 0 ≤ hwb.c2 ∧ hwb.c1 + hwb.c2 ≤ 1 := by
  obtain ⟨s0, s1, v0, v1⟩ := rgbToHsv_bounds r g b hr hg hb hr1 hg1 hb1
  intro hwb
  show 0 ≤ (1.0 - (rgbToHsv ⟨r, g, b⟩).c1) * (rgbToHsv ⟨r, g, b⟩).c2 ∧ 0 ≤ 1.0 - (rgbToHsv ⟨r, g, b⟩).c2 ∧
    (1.0 - (rgbToHsv ⟨r, g, b⟩).c1) * (rgbToHsv ⟨r, g, b⟩).c2 + (1.0 - (rgbToHsv ⟨r, g, b⟩).c2) ≤ 1
  norm_num
  refine ⟨mul_nonneg (by linarith) v0, v1, ?_⟩
  nlinarith [mul_nonneg s0 v0]

/-- non-vacuity of the three converse statements: orange `(1, 0.5, 0)` lies on the gamut surface -/
example : (0 : ℝ) ≤ 1 ∧ (0 : ℝ) ≤ 0.5 ∧ (0 : ℝ) ≤ 0 ∧ (1 : ℝ) ≤ 1 ∧ (0.5 : ℝ) ≤ 1 ∧ (0 : ℝ) ≤ 1 := by norm_num

/-- **round trip, HSV**: every colour of the unit cube comes back exactly -/
theorem rgb_hsv_rgb (r g b : ℝ) (hr : 0 ≤ r) (hg : 0 ≤ g) (hb : 0 ≤ b) : hsvToRgb (rgbToHsv ⟨r, g, b⟩) = ⟨r, g, b⟩ :=
  C01Rgb.rgb_hsv_rgb r g b hr hg hb

/-- **round trip, HSL** -/
theorem rgb_hsl_rgb (r g b : ℝ) (hr : 0 ≤ r) (hg : 0 ≤ g) (hb : 0 ≤ b) (hr1 : r ≤ 1) (hg1 : g ≤ 1) (hb1 : b ≤ 1) :
    hslToRgb (rgbToHsl ⟨r, g, b⟩) = ⟨r, g, b⟩ :=
  C01Rgb.rgb_hsl_rgb r g b hr hg hb hr1 hg1 hb1

/-- **round trip, HWB**: `Rgb → Hsv → Hwb → Hsv → Rgb` is the identity on the unit cube, black included (where `Hwb → Hsv` loses the
    saturation but the colour is black for every saturation) -/
theorem rgb_hwb_rgb (r g b : ℝ) (hr : 0 ≤ r) (hg : 0 ≤ g) (hb : 0 ≤ b) :
    hsvToRgb (hwbToHsv (hsvToHwb (rgbToHsv ⟨r, g, b⟩))) = ⟨r, g, b⟩ := by
  have e : rgbToHsv (⟨r, g, b⟩ : V3 ℝ) = ⟨(rgbToHsv ⟨r, g, b⟩).c0, (rgbToHsv ⟨r, g, b⟩).c1, (rgbToHsv ⟨r, g, b⟩).c2⟩ := rfl
  by_cases hv : (rgbToHsv ⟨r, g, b⟩).c2 = 0
  · -- value = max = 0: the colour is black
    obtain ⟨b1, b2, b3, b4, b5, b6⟩ := maxMin_bounds r g b
    have hmin := min_nonneg r g b hr hg hb
    have hval : (rgbToHsv ⟨r, g, b⟩).c2 = (maxMinSep r g b).max := by
      unfold rgbToHsv
      simp only [max0_of_nonneg hr, max0_of_nonneg hg, max0_of_nonneg hb]
      split_ifs <;> rfl
    have hM : (maxMinSep r g b).max = 0 := by rw [← hval]; exact hv
    have er : r = 0 := le_antisymm (by linarith) hr
    have eg : g = 0 := le_antisymm (by linarith) hg
    have eb : b = 0 := le_antisymm (by linarith) hb
    subst er eg eb
    obtain ⟨k, f, n, hk, h0, h1, hh⟩ := hue_decomp ((rgbToHsv (⟨0, 0, 0⟩ : V3 ℝ)).c0)
    rw [e, hv, C01Rgb.hsv_hwb_hsv_black, C01Rgb.hsvToRgb_unfold, zones_of_hue _ k f n hk h0 h1 hh]
    have ec : ((1.0 : ℝ) - (1.0 - 0)) * 0.0 = 0 := by norm_num
    have em : (1.0 : ℝ) - (1.0 - 0) - 0 = 0 := by norm_num
    rw [ec, em]
    interval_cases k <;> simp only [sectorTriple] <;> norm_num
  · rw [e, C01Rgb.hsv_hwb_hsv _ _ _ hv, ← e]
    exact C01Rgb.rgb_hsv_rgb r g b hr hg hb

example : (0 : ℝ) ≤ 0.2 ∧ (0 : ℝ) ≤ 0.4 ∧ (0 : ℝ) ≤ 0.6 := by norm_num

/-! ## 2. HSLuv — the six boundary lines are the loci "linear RGB channel = 0 / = 1"

  `LuvBounds::from_lightness` builds, for each row `(m0, m1, m2)` of HSLuv's XYZ→RGB matrix `M` and `t ∈ {0, 1}`, the line
  `v = slope·u + intercept` with `slope = top1/bottom`, `intercept = top2/bottom`.  The integer constants are `31613·(9, 3, 20, 4)` and
  `13·31613·(9u′ₙ, 12 − 3u′ₙ − 20v′ₙ, 4v′ₙ)` for HSLuv's white reference `u′ₙ = 81302/410969`, `v′ₙ = 192465/410969`. -/
open Cie

/-- HSLuv's white reference as encoded in the integer constants of `luv_bounds.rs` (`refU = 0.19783000664283681`,
    `refV = 0.468319994938791` in the HSLuv sources) -/
noncomputable def refU : ℝ := 81302 / 410969
noncomputable def refV : ℝ := 192465 / 410969

/-- The linear RGB channel with matrix row `(m0, m1, m2)` of the colour `Luv(L, u, v)` of luminance `Y` — CIE 15 `Luv → XYZ` with the
    white reference `(refU, refV)`: `u′ = u/(13L) + u′ₙ`, `v′ = v/(13L) + v′ₙ`, `X = Y·9u′/(4v′)`, `Z = Y·(12 − 3u′ − 20v′)/(4v′)`. -/
noncomputable def channel (m0 m1 m2 L Y u v : ℝ) : ℝ :=
  m0 * (Y * 9 * (u / (13 * L) + refU) / (4 * (v / (13 * L) + refV))) + m1 * Y
    + m2 * (Y * (12 - 3 * (u / (13 * L) + refU) - 20 * (v / (13 * L) + refV)) / (4 * (v / (13 * L) + refV)))

/-- the common denominator `bottom` of a boundary line -/
noncomputable def bottomOf (m1 m2 Y t : ℝ) : ℝ := (632260 * m2 - 126452 * m1) * Y + 126452 * t

/-- the identity in the chromaticity coordinates `U = u′`, `V = v′` (polynomial after clearing the three denominators) -/
theorem line_identity_core (m0 m1 m2 L Y t U V B : ℝ) (hV : V ≠ 0) (hL : L ≠ 0) (hB : B ≠ 0)
    (hBdef : B = (632260 * m2 - 126452 * m1) * Y + 126452 * t) :
    m0 * (Y * 9 * U / (4 * V)) + m1 * Y + m2 * (Y * (12 - 3 * U - 20 * V) / (4 * V)) - t =
      B * ((284517 * m0 - 94839 * m2) * Y / B * (13 * L * (U - refU))
          + ((838422 * m2 + 769860 * m1 + 731718 * m0) * L * Y - 769860 * t * L) / B - 13 * L * (V - refV)) / (1643876 * L * V) := by
  unfold refU refV
  field_simp
  subst hBdef
  ring

/-- **The line identity** (a rational identity in `M`, `L`, `sub2 = Y`, `t`, `u`, `v`): the signed distance of `(u, v)` from the boundary
    line the code builds is, up to the explicit factor `bottom / (1643876·L·v′)`, the amount by which the linear RGB channel exceeds `t`. -/
theorem boundaryLine_is_channel_locus (m0 m1 m2 L Y t u v : ℝ) (hL : L ≠ 0) (hv : v / (13 * L) + refV ≠ 0) (hb : bottomOf m1 m2 Y t ≠ 0) :
    channel m0 m1 m2 L Y u v - t =
      bottomOf m1 m2 Y t * ((boundaryLine m0 m1 m2 L Y t).slope * u + (boundaryLine m0 m1 m2 L Y t).intercept - v)
        / (1643876 * L * (v / (13 * L) + refV)) := by
  have hs : (boundaryLine m0 m1 m2 L Y t).slope = (284517 * m0 - 94839 * m2) * Y / bottomOf m1 m2 Y t := by
    unfold boundaryLine bottomOf; norm_num
  have hi : (boundaryLine m0 m1 m2 L Y t).intercept
      = ((838422 * m2 + 769860 * m1 + 731718 * m0) * L * Y - 769860 * t * L) / bottomOf m1 m2 Y t := by
    unfold boundaryLine bottomOf; norm_num
  have eu : 13 * L * (u / (13 * L) + refU - refU) = u := by field_simp; ring
  have ev : 13 * L * (v / (13 * L) + refV - refV) = v := by field_simp; ring
  have core := line_identity_core m0 m1 m2 L Y t (u / (13 * L) + refU) (v / (13 * L) + refV) (bottomOf m1 m2 Y t) hv hL hb rfl
  rw [eu, ev] at core
  rw [hs, hi]
  exact core

/-- non-vacuity: mid lightness, red row of `M`, the `= 0` line, the neutral point -/
example : (50 : ℝ) ≠ 0 ∧ (0 : ℝ) / (13 * 50) + 192465 / 410969 ≠ 0 ∧
    (632260 * (-0.498610760293 : ℝ) - 126452 * (-1.537383177570093)) * 0.18 + 126452 * 0 ≠ 0 := by norm_num

/-- **on the line ⇔ the channel equals `t`** -/
theorem on_line_iff_channel_eq (m0 m1 m2 L Y t u v : ℝ) (hL : L ≠ 0) (hv : v / (13 * L) + refV ≠ 0) (hb : bottomOf m1 m2 Y t ≠ 0) :
    v = (boundaryLine m0 m1 m2 L Y t).slope * u + (boundaryLine m0 m1 m2 L Y t).intercept ↔ channel m0 m1 m2 L Y u v = t := by
  have key := boundaryLine_is_channel_locus m0 m1 m2 L Y t u v hL hv hb
  have hden : (1643876 : ℝ) * L * (v / (13 * L) + refV) ≠ 0 := mul_ne_zero (mul_ne_zero (by norm_num) hL) hv
  constructor
  · intro h
    have : channel m0 m1 m2 L Y u v - t = 0 := by rw [key, ← h]; simp
    linarith
  · intro h
    have h0 : bottomOf m1 m2 Y t * ((boundaryLine m0 m1 m2 L Y t).slope * u + (boundaryLine m0 m1 m2 L Y t).intercept - v)
        / (1643876 * L * (v / (13 * L) + refV)) = 0 := by rw [← key, h]; ring
    rcases div_eq_zero_iff.mp h0 with h1 | h1
    · rcases mul_eq_zero.mp h1 with h2 | h2
      · exact absurd h2 hb
      · linarith
    · exact absurd h1 hden

/-- **same side of the line as the neutral point ⇒ same sign of `channel − t`** (for `L > 0` and realisable chromaticities `v′ > 0`):
    the product of the two signed line distances has the sign of the product of the two channel excesses -/
theorem same_side_same_sign (m0 m1 m2 L Y t u v : ℝ) (hL : 0 < L) (hv : 0 < v / (13 * L) + refV) (hb : bottomOf m1 m2 Y t ≠ 0)
    (hside : 0 ≤ ((boundaryLine m0 m1 m2 L Y t).slope * u + (boundaryLine m0 m1 m2 L Y t).intercept - v) * (boundaryLine m0 m1 m2 L Y t).intercept) :
    0 ≤ (channel m0 m1 m2 L Y u v - t) * (channel m0 m1 m2 L Y 0 0 - t) := by
  have hv0 : (0 : ℝ) < 0 / (13 * L) + refV := by unfold refV; norm_num
  rw [boundaryLine_is_channel_locus m0 m1 m2 L Y t u v hL.ne' hv.ne' hb, boundaryLine_is_channel_locus m0 m1 m2 L Y t 0 0 hL.ne' hv0.ne' hb]
  set S := (boundaryLine m0 m1 m2 L Y t).slope
  set I := (boundaryLine m0 m1 m2 L Y t).intercept
  set B := bottomOf m1 m2 Y t
  have hd1 : 0 < 1643876 * L * (v / (13 * L) + refV) := by positivity
  have hd2 : 0 < 1643876 * L * (0 / (13 * L) + refV) := by positivity
  have e : B * (S * u + I - v) / (1643876 * L * (v / (13 * L) + refV)) * (B * (S * 0 + I - 0) / (1643876 * L * (0 / (13 * L) + refV)))
      = (B * B) * ((S * u + I - v) * I) / ((1643876 * L * (v / (13 * L) + refV)) * (1643876 * L * (0 / (13 * L) + refV))) := by
    field_simp; ring
  rw [e]
  exact div_nonneg (mul_nonneg (mul_self_nonneg B) hside) (mul_pos hd1 hd2).le

/-- **inside the hexagon ⇒ the channel is in `[0, 1]`**: if the neutral point of the lightness plane is strictly inside the gamut for this
    channel (`0 < channel(0,0) < 1`) and `(u, v)` lies on the neutral point's side of both the `= 0` and the `= 1` line of the channel, then
    `0 ≤ channel(u, v) ≤ 1`.  (The chroma `C ≤ maxChroma` of `C01Cie.hsluvToLchuv_inside` keeps the hue ray on that side of all six.) -/
theorem inside_hexagon_channel_in_gamut (m0 m1 m2 L Y u v : ℝ) (hL : 0 < L) (hv : 0 < v / (13 * L) + refV)
    (hb0 : bottomOf m1 m2 Y 0 ≠ 0) (hb1 : bottomOf m1 m2 Y 1 ≠ 0)
    (hg0 : 0 < channel m0 m1 m2 L Y 0 0) (hg1 : channel m0 m1 m2 L Y 0 0 < 1)
    (hs0 : 0 ≤ ((boundaryLine m0 m1 m2 L Y 0).slope * u + (boundaryLine m0 m1 m2 L Y 0).intercept - v) * (boundaryLine m0 m1 m2 L Y 0).intercept)
    (hs1 : 0 ≤ ((boundaryLine m0 m1 m2 L Y 1).slope * u + (boundaryLine m0 m1 m2 L Y 1).intercept - v) * (boundaryLine m0 m1 m2 L Y 1).intercept) :
    0 ≤ channel m0 m1 m2 L Y u v ∧ channel m0 m1 m2 L Y u v ≤ 1 := by
  have k0 := same_side_same_sign m0 m1 m2 L Y 0 u v hL hv hb0 hs0
  have k1 := same_side_same_sign m0 m1 m2 L Y 1 u v hL hv hb1 hs1
  constructor
  · by_contra h
    have h' : channel m0 m1 m2 L Y u v - 0 < 0 := by linarith [not_le.mp h]
    have : (channel m0 m1 m2 L Y u v - 0) * (channel m0 m1 m2 L Y 0 0 - 0) < 0 := mul_neg_of_neg_of_pos h' (by linarith)
    linarith
  · by_contra h
    have h' : 0 < channel m0 m1 m2 L Y u v - 1 := by linarith [not_le.mp h]
    have : (channel m0 m1 m2 L Y u v - 1) * (channel m0 m1 m2 L Y 0 0 - 1) < 0 := mul_neg_of_pos_of_neg h' (by linarith)
    linarith

/-- the neutral point of a lightness plane has channel value `Y·(row · white)`; for HSLuv's `M` the three `row · white` are `1` within
    `1e-9`, so for `0 < Y < 0.999999` the neutral point is strictly inside the gamut — the hypothesis `hg0`, `hg1` above is satisfiable
    for all three rows -/
theorem neutral_channel (m0 m1 m2 L Y : ℝ) (hL : L ≠ 0) :
    channel m0 m1 m2 L Y 0 0 = Y * (m0 * (9 * refU / (4 * refV)) + m1 + m2 * ((12 - 3 * refU - 20 * refV) / (4 * refV))) := by
  unfold channel refU refV; field_simp; ring

theorem hsluvM_rows_map_white_to_one :
    let m : M3 ℝ := M3.ofK Gen.Mat.hsluvM
    |m.m0 * (9 * refU / (4 * refV)) + m.m1 + m.m2 * ((12 - 3 * refU - 20 * refV) / (4 * refV)) - 1| ≤ 1e-9 ∧
    |m.m3 * (9 * refU / (4 * refV)) + m.m4 + m.m5 * ((12 - 3 * refU - 20 * refV) / (4 * refV)) - 1| ≤ 1e-9 ∧
    |m.m6 * (9 * refU / (4 * refV)) + m.m7 + m.m8 * ((12 - 3 * refU - 20 * refV) / (4 * refV)) - 1| ≤ 1e-9 := by
  simp only [M3.ofK, Gen.Mat.hsluvM, RealScalar.const_eq, RealScalar.eval_neg, RealScalar.eval_ofSci, refU, refV]
  refine ⟨?_, ?_, ?_⟩ <;> rw [abs_le] <;> constructor <;> norm_num

/-- **the model's `Luv → Xyz` computes exactly this channel**: for any white point whose `u′ₙ, v′ₙ` are HSLuv's and whose `Y` is 1, and
    `L ≥ 1e-5` (above the code's cutoff), row `(m0, m1, m2)` applied to `luvToXyz w ⟨L, u, v⟩` is `channel … L (luvY L) u v`.
    (palette then uses its *own* D65 `(0.95047, 1, 1.08883)` and its own 7-digit matrix instead: the oracle's 2e-4.) -/
theorem channel_eq_row_luvToXyz (m0 m1 m2 : ℝ) (w : V3 ℝ) (hw1 : w.c1 = 1) (hu : 4 * w.c0 * (1 / (w.c0 + 15 * w.c1 + 3 * w.c2)) = refU)
    (hvn : 9 * w.c1 * (1 / (w.c0 + 15 * w.c1 + 3 * w.c2)) = refV) (L u v : ℝ) (hL : 1e-5 ≤ L) (hv : v / (13 * L) + refV ≠ 0) :
    m0 * (luvToXyz w ⟨L, u, v⟩).c0 + m1 * (luvToXyz w ⟨L, u, v⟩).c1 + m2 * (luvToXyz w ⟨L, u, v⟩).c2 = channel m0 m1 m2 L (C02Cie.luvY L) u v := by
  rw [C02Cie.luvToXyz_of_ge w ⟨L, u, v⟩ (not_lt.mpr hL)]
  simp only []
  rw [hu, hvn, hw1]
  unfold channel
  have hL0 : L ≠ 0 := by intro h; rw [h] at hL; norm_num at hL
  generalize C02Cie.luvY L = Y
  generalize hV : v / (13 * L) + refV = V at hv ⊢
  generalize u / (13 * L) + refU = U
  field_simp
  ring

/-- such a white point exists: HSLuv's own (`X = 0.950456…`, `Y = 1`, `Z = 1.089058…`) -/
noncomputable def hsluvWhite : V3 ℝ := ⟨9 * refU / (4 * refV), 1, (9 / refV - 9 * refU / (4 * refV) - 15) / 3⟩
theorem hsluvWhite_ref : hsluvWhite.c1 = 1 ∧ 4 * hsluvWhite.c0 * (1 / (hsluvWhite.c0 + 15 * hsluvWhite.c1 + 3 * hsluvWhite.c2)) = refU ∧
    9 * hsluvWhite.c1 * (1 / (hsluvWhite.c0 + 15 * hsluvWhite.c1 + 3 * hsluvWhite.c2)) = refV ∧
    |hsluvWhite.c0 - 0.95045592705167| ≤ 1e-12 ∧ |hsluvWhite.c2 - 1.089057750759878| ≤ 1e-12 := by
  unfold hsluvWhite refU refV
  refine ⟨rfl, by norm_num, by norm_num, ?_, ?_⟩ <;> rw [abs_le] <;> constructor <;> norm_num

/-- the first RGB space of the generated table — the sRGB one, identified below by its published digits -/
def srgbRgbToXyz : List K := match Gen.Mat.rgbSpaces with
  | (_, _, m, _, _) :: _ => m
  | [] => []

/-- **why the oracle's HSLuv tolerance is 2e-4 and not rounding-sized, decided over ℚ.**  The hexagon is built from HSLuv's 15-digit
    `M`; the colour is then converted with palette's 7-digit sRGB matrix.  One XYZ read by both: `M · (palette's RGB→XYZ) − I` is
    `diag(1.59e-4, −2.3e-5, −2.40e-4)` up to 1.3e-7 off the diagonal (row sums ≤ 2.4e-4, the largest > 2.39e-4) — a different white
    (the two matrices send *their own* whites to `(1,1,1)`), not noise; `Luv → Xyz` with palette's D65 instead of `(refU, refV)`
    compensates part of it (all of it on the neutral axis). -/
theorem hsluv_matrix_distance :
    KRat.ofK srgbRgbToXyz = [0.4124564, 0.3575761, 0.1804375, 0.2126729, 0.7151522, 0.0721750, 0.0193339, 0.1191920, 0.9503041] ∧
    KRat.distInf (KRat.mul3 (KRat.ofK Gen.Mat.hsluvM) (KRat.ofK srgbRgbToXyz)) KRat.ident ≤ 2.4e-4 ∧
    2.39e-4 < KRat.distInf (KRat.mul3 (KRat.ofK Gen.Mat.hsluvM) (KRat.ofK srgbRgbToXyz)) KRat.ident := by
  decide +kernel

/-- `S ≤ 100` ⇒ the chroma is at most every admissible boundary distance (restated from C01 for this property) -/
theorem hsluv_chroma_inside (H S L : ℝ) (hS : S ≤ 100) (b : BoundaryLine ℝ) (hb : b ∈ luvBounds L)
    (hden : 1e-6 < |Real.sin (H * (Real.pi / 180)) - b.slope * Real.cos (H * (Real.pi / 180))|) (ht : 0 ≤ C01Cie.rayLen (H * (Real.pi / 180)) b)
    (hmc : 0 ≤ maxChroma L H) : (hsluvToLchuv ⟨H, S, L⟩).c1 ≤ C01Cie.rayLen (H * (Real.pi / 180)) b :=
  C01Cie.hsluvToLchuv_inside H S L hS b hb hden ht hmc
/-- non-vacuity: `maxChroma 50 90 > 0` (`C01Cie.maxChroma_pos_example`), `S = 100` is admitted -/
example : (100 : ℝ) ≤ 100 ∧ 0 ≤ maxChroma (50 : ℝ) 90 := ⟨le_refl _, C01Cie.maxChroma_pos_example.le⟩

/-! ## 3. Okhsl, Okhsv, Okhwb — what is algebraic

  **Not provable by algebra, and not claimed:** that `s, v ∈ [0,1]` (resp. `s, l`; `w + b ≤ 1`) gives linear sRGB within a small tolerance
  of `[0,1]³` for every hue.  It depends on how well the quadratic polynomial of `max_saturation` plus ONE Halley step
  (`Gen.Ok.maxSaturationIter = 1`, declared inaccuracy `MAX_SRGB_SATURATION_INACCURACY = 1e-6`) locates the cusp, and on the single Halley
  step of `find_gamut_intersection` for the upper boundary: numerical facts about fitted coefficients.  The oracle searches it on the
  implementation (720 / 36 000 hues × 21² / 101² grids, declared constant 1e-3 in linear RGB, observed maximum 7.9e-4 recorded). -/
open Ok

/-- **`oklab_to_linear_srgb` is homogeneous of degree 3** (a cube between two linear maps) -/
theorem oklabToLinSrgb_homogeneous (k L a b : ℝ) :
    oklabToLinSrgb ⟨k * L, k * a, k * b⟩ =
      ⟨k ^ 3 * (oklabToLinSrgb ⟨L, a, b⟩).c0, k ^ 3 * (oklabToLinSrgb ⟨L, a, b⟩).c1, k ^ 3 * (oklabToLinSrgb ⟨L, a, b⟩).c2⟩ := by
  unfold oklabToLinSrgb
  simp only
  congr 1 <;> ring

theorem max3_mul (k r g b : ℝ) (hk : 0 ≤ k) : max (max (k * r) (k * g)) (max (k * b) 0) = k * max (max r g) (max b 0) := by
  rw [mul_max_of_nonneg _ _ hk, mul_max_of_nonneg _ _ hk, mul_max_of_nonneg _ _ hk, mul_zero]

/-- **the final scaling of `Okhsv → Oklab` puts the colour exactly on the gamut surface**: for any `(l, a, b, c)` whose linear sRGB colour
    `rgb(l, a·c, b·c)` has a positive maximum `M`, scaling lightness and chroma by `f = cbrt(1/M)` (`lightnessScaleFactor`) gives a colour
    whose largest linear sRGB component is exactly 1 — the `cbrt` undoes the cube of the homogeneity.  Containment at `v = 1` therefore
    fails only through *negative* components (the cusp estimate), never through the maximum. -/
theorem scaled_max_eq_one (l a b c : ℝ)
    (hM : 0 < max (max (oklabToLinSrgb ⟨l, a * c, b * c⟩).c0 (oklabToLinSrgb ⟨l, a * c, b * c⟩).c1) (max (oklabToLinSrgb ⟨l, a * c, b * c⟩).c2 0)) :
    let f := lightnessScaleFactor l a b c
    let out := oklabToLinSrgb ⟨l * f, c * f * a, c * f * b⟩
    max (max out.c0 out.c1) (max out.c2 0) = 1 := by
  intro f out
  set M := max (max (oklabToLinSrgb ⟨l, a * c, b * c⟩).c0 (oklabToLinSrgb ⟨l, a * c, b * c⟩).c1) (max (oklabToLinSrgb ⟨l, a * c, b * c⟩).c2 0) with hMdef
  have hinv : (0 : ℝ) ≤ 1 / M := by positivity
  have hf : f = (1 / M) ^ ((1 : ℝ) / 3) := by
    show lightnessScaleFactor l a b c = _
    unfold lightnessScaleFactor
    simp only [RealScalar.max_eq]
    have e : (1.0 : ℝ) / max (max (oklabToLinSrgb ⟨l, a * c, b * c⟩).c0 (oklabToLinSrgb ⟨l, a * c, b * c⟩).c1) (max (oklabToLinSrgb ⟨l, a * c, b * c⟩).c2 0.0) = 1 / M := by
      rw [hMdef]; norm_num
    rw [e, RealScalar.cbrt_of_nonneg hinv]
  have hf0 : 0 ≤ f := by rw [hf]; exact Real.rpow_nonneg hinv _
  have hf3 : f ^ 3 = 1 / M := by rw [hf]; exact C01Cie.cbrt_cube hinv
  have eo : out = oklabToLinSrgb ⟨f * l, f * (a * c), f * (b * c)⟩ := by
    show oklabToLinSrgb ⟨l * f, c * f * a, c * f * b⟩ = _
    congr 2 <;> ring
  rw [eo, oklabToLinSrgb_homogeneous]
  simp only
  rw [max3_mul _ _ _ _ (by positivity), hf3, ← hMdef]
  exact one_div_mul_cancel hM.ne'

/-- non-vacuity: white `(l, a·c, b·c) = (1, 0, 0)` has linear sRGB maximum `> 0` -/
example : 0 < max (max (oklabToLinSrgb (⟨1, 0 * 0, 0 * 0⟩ : V3 ℝ)).c0 (oklabToLinSrgb (⟨1, 0 * 0, 0 * 0⟩ : V3 ℝ)).c1) (max (oklabToLinSrgb (⟨1, 0 * 0, 0 * 0⟩ : V3 ℝ)).c2 0) := by
  apply lt_max_of_lt_left; apply lt_max_of_lt_left
  simp only [oklabToLinSrgb, C02Ok.kAt_eq, Gen.Mat.oklabToLinSrgbCoeffs, List.getD_cons_zero, List.getD_cons_succ, RealScalar.eval_neg, RealScalar.eval_ofSci]
  norm_num

/-- **at `v = 1` the code has exactly that structure**: for `s ≠ 0` the result of `Okhsv → Oklab` is `(l_vt, c_vt·a_, c_vt·b_)` scaled by
    `lightnessScaleFactor l_vt a_ b_ c_vt`, so (`scaled_max_eq_one`) its largest linear sRGB component is exactly 1 whenever the unscaled
    colour has a positive one -/
theorem okhsv_value_one_on_surface (h s : ℝ) (hs : s ≠ 0) :
    ∃ l_vt c_vt : ℝ,
      okhsvToOklab ⟨h, s, 1⟩ = ⟨l_vt * lightnessScaleFactor l_vt (Real.cos (h * (Real.pi / 180))) (Real.sin (h * (Real.pi / 180))) c_vt,
        c_vt * lightnessScaleFactor l_vt (Real.cos (h * (Real.pi / 180))) (Real.sin (h * (Real.pi / 180))) c_vt * Real.cos (h * (Real.pi / 180)),
        c_vt * lightnessScaleFactor l_vt (Real.cos (h * (Real.pi / 180))) (Real.sin (h * (Real.pi / 180))) c_vt * Real.sin (h * (Real.pi / 180))⟩ ∧
      (0 < max (max (oklabToLinSrgb ⟨l_vt, Real.cos (h * (Real.pi / 180)) * c_vt, Real.sin (h * (Real.pi / 180)) * c_vt⟩).c0
                    (oklabToLinSrgb ⟨l_vt, Real.cos (h * (Real.pi / 180)) * c_vt, Real.sin (h * (Real.pi / 180)) * c_vt⟩).c1)
               (max (oklabToLinSrgb ⟨l_vt, Real.cos (h * (Real.pi / 180)) * c_vt, Real.sin (h * (Real.pi / 180)) * c_vt⟩).c2 0) →
        max (max (oklabToLinSrgb (okhsvToOklab ⟨h, s, 1⟩)).c0 (oklabToLinSrgb (okhsvToOklab ⟨h, s, 1⟩)).c1)
            (max (oklabToLinSrgb (okhsvToOklab ⟨h, s, 1⟩)).c2 0) = 1) := by
  have h10 : ¬ Scalar.eqv (1 : ℝ) 0.0 := by rw [eqv_iff]; norm_num
  have hs0 : ¬ Scalar.eqv s 0.0 := by rw [eqv_iff]; norm_num; exact hs
  have key : ∃ l_vt c_vt : ℝ,
      okhsvToOklab ⟨h, s, 1⟩ = ⟨l_vt * lightnessScaleFactor l_vt (Real.cos (h * (Real.pi / 180))) (Real.sin (h * (Real.pi / 180))) c_vt,
        c_vt * lightnessScaleFactor l_vt (Real.cos (h * (Real.pi / 180))) (Real.sin (h * (Real.pi / 180))) c_vt * Real.cos (h * (Real.pi / 180)),
        c_vt * lightnessScaleFactor l_vt (Real.cos (h * (Real.pi / 180))) (Real.sin (h * (Real.pi / 180))) c_vt * Real.sin (h * (Real.pi / 180))⟩ := by
    unfold okhsvToOklab
    simp only [if_neg h10, if_neg hs0, one_mul, RealScalar.degToRad_eq, RealScalar.cos_eq, RealScalar.sin_eq]
    exact ⟨_, _, rfl⟩
  obtain ⟨l_vt, c_vt, e⟩ := key
  refine ⟨l_vt, c_vt, e, fun hM => ?_⟩
  rw [e]
  exact scaled_max_eq_one l_vt _ _ c_vt hM
example : (0.5 : ℝ) ≠ 0 := by norm_num

/-- **`s = 0` gives a gray** (`a = b = 0`), for Okhsv at every hue and value … -/
theorem okhsv_sat_zero_gray (h v : ℝ) : (okhsvToOklab ⟨h, 0, v⟩).c1 = 0 ∧ (okhsvToOklab ⟨h, 0, v⟩).c2 = 0 := by
  have h00 : Scalar.eqv (0 : ℝ) 0.0 := by rw [eqv_iff]; norm_num
  unfold okhsvToOklab
  by_cases hv : Scalar.eqv v 0.0
  · simp only [if_pos hv]; norm_num
  · simp only [if_neg hv, if_pos h00]; norm_num

/-- … and for Okhsl at every hue and lightness (`okhslChroma cs 0 = 0`; the guards `l = 1`, `l = 0` return white and black) -/
theorem okhsl_sat_zero_gray (h l : ℝ) : (okhslToOklab ⟨h, 0, l⟩).c1 = 0 ∧ (okhslToOklab ⟨h, 0, l⟩).c2 = 0 := by
  unfold okhslToOklab
  by_cases h1 : Scalar.eqv l 1.0
  · simp only [if_pos h1]; norm_num
  · by_cases h0 : Scalar.eqv l 0.0
    · simp only [if_neg h1, if_pos h0]; norm_num
    · simp only [if_neg h1, if_neg h0]
      rw [C01Ok.okhslChroma_lo _ 0 (by norm_num)]
      norm_num
      split <;> exact ⟨rfl, rfl⟩

/-- **`Okhsv ← Okhwb` keeps the bounds** (`w, b ≥ 0`, `w + b ≤ 1` ⇒ `s, v ∈ [0,1]`; the other direction is `C01Ok.okhsvToOkhwb_bounds`) -/
theorem okhwbToOkhsv_bounds (h w b : ℝ) (hw : 0 ≤ w) (hb : 0 ≤ b) (hwb : w + b ≤ 1) :
    0 ≤ (okhwbToOkhsv ⟨h, w, b⟩).c1 ∧ (okhwbToOkhsv ⟨h, w, b⟩).c1 ≤ 1 ∧ 0 ≤ (okhwbToOkhsv ⟨h, w, b⟩).c2 ∧ (okhwbToOkhsv ⟨h, w, b⟩).c2 ≤ 1 := by
  by_cases hb1 : b = 1
  · subst hb1; rw [C02Ok.okhwbToOkhsv_black]; norm_num
  · rw [C02Ok.okhwbToOkhsv_of_ne h w b hb1]
    have hv : (0 : ℝ) < 1 - b := by rcases lt_or_eq_of_le (by linarith : b ≤ 1) with h' | h'; linarith; exact absurd h' hb1
    have h1 : 0 ≤ w / (1 - b) := div_nonneg hw hv.le
    have h2 : w / (1 - b) ≤ 1 := (div_le_one hv).mpr (by linarith)
    simp only; norm_num
    refine ⟨h2, h1, by linarith, hb⟩

theorem okhsvToOkhwb_bounds (h s v : ℝ) (hs0 : 0 ≤ s) (hs1 : s ≤ 1) (hv0 : 0 ≤ v) (hv1 : v ≤ 1) :
    0 ≤ (okhsvToOkhwb ⟨h, s, v⟩).c1 ∧ 0 ≤ (okhsvToOkhwb ⟨h, s, v⟩).c2 ∧ (okhsvToOkhwb ⟨h, s, v⟩).c1 + (okhsvToOkhwb ⟨h, s, v⟩).c2 ≤ 1 :=
  C01Ok.okhsvToOkhwb_bounds h s v hs0 hs1 hv0 hv1
example : (0 : ℝ) ≤ 0.3 ∧ (0 : ℝ) ≤ 0.7 ∧ (0.3 : ℝ) + 0.7 ≤ 1 := by norm_num

/-! ### the toe maps `[0,1]` onto `[0,1]` -/

/-- `toe_inv y − 1` has the sign of `y − 1` for `y ≥ 0`: `toe_inv y − 1 = (y − 1)·((1+k₂)y + (1+k₁)k₂) / ((1+k₁)(y+k₂))` -/
theorem toeInv_le_one_iff (y : ℝ) (hy : 0 ≤ y) : toeInv y ≤ 1 ↔ y ≤ 1 := by
  rw [C02Ok.toeInv_real]; unfold C02Ok.toeInvG
  have hd : (0 : ℝ) < (1 + 0.206) / (1 + 0.03) * (y + 0.03) := by positivity
  rw [div_le_one hd]
  constructor
  · intro h; by_contra hc
    have hc' : 1 < y := not_le.mp hc
    have : (1 + 0.206) / (1 + 0.03) * (y + 0.03) < y * y + 0.206 * y := by
      have : (0:ℝ) < (y - 1) * ((1 + 0.03) * y + (1 + 0.206) * 0.03) := mul_pos (by linarith) (by positivity)
      rw [div_mul_eq_mul_div, div_lt_iff₀ (by norm_num)]; nlinarith
    linarith
  · intro h
    have : (y - 1) * ((1 + 0.03) * y + (1 + 0.206) * 0.03) ≤ 0 := mul_nonpos_of_nonpos_of_nonneg (by linarith) (by positivity)
    rw [div_mul_eq_mul_div, le_div_iff₀ (by norm_num)]; nlinarith

theorem toeInv_unit (y : ℝ) (hy0 : 0 ≤ y) (hy1 : y ≤ 1) : 0 ≤ toeInv y ∧ toeInv y ≤ 1 := by
  refine ⟨?_, (toeInv_le_one_iff y hy0).mpr hy1⟩
  rw [C02Ok.toeInv_real]; unfold C02Ok.toeInvG; positivity

theorem toe_nonneg (x : ℝ) (hx : 0 ≤ x) : 0 ≤ toe x := by
  rw [C02Ok.toe_real]; unfold C02Ok.toeG
  set B := (1 + 0.206) / (1 + 0.03) * x - (0.206 : ℝ) with hB
  have h4 : (0 : ℝ) ≤ 4 * 0.03 * ((1 + 0.206) / (1 + 0.03)) * x := by positivity
  have hsB : |B| ≤ Real.sqrt (B * B + 4 * 0.03 * ((1 + 0.206) / (1 + 0.03)) * x) := by
    apply Real.abs_le_sqrt; nlinarith
  have := neg_abs_le B
  have : 0 ≤ B + Real.sqrt (B * B + 4 * 0.03 * ((1 + 0.206) / (1 + 0.03)) * x) := by linarith
  positivity

/-- **`toe` maps `[0,1]` into `[0,1]`** … -/
theorem toe_unit (x : ℝ) (hx0 : 0 ≤ x) (hx1 : x ≤ 1) : 0 ≤ toe x ∧ toe x ≤ 1 := by
  have h0 := toe_nonneg x hx0
  refine ⟨h0, ?_⟩
  have := (toeInv_le_one_iff (toe x) h0).mp (by rw [C02Ok.toeInv_toe x hx0]; exact hx1)
  exact this

/-- … **and onto** (`toe_inv` is its inverse there): every Okhsl lightness / Okhsv value in `[0,1]` is the toe of an Oklab lightness in `[0,1]` -/
theorem toe_onto_unit (y : ℝ) (hy0 : 0 ≤ y) (hy1 : y ≤ 1) : ∃ x : ℝ, 0 ≤ x ∧ x ≤ 1 ∧ toe x = y :=
  ⟨toeInv y, (toeInv_unit y hy0 hy1).1, (toeInv_unit y hy0 hy1).2, C02Ok.toe_toeInv y hy0⟩
example : (0 : ℝ) ≤ 0.5 ∧ (0.5 : ℝ) ≤ 1 := by norm_num

end C15
