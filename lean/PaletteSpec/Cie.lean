/-
  Published definitions, written independently of the code's structure (CIE 15:2004 and the usual textbook forms).
  Over ℝ; noncomputable where needed.
-/
import Mathlib.Analysis.SpecialFunctions.Pow.Real

namespace Spec.Cie

/-- CIE 15 §7.3: chromaticity coordinates `x = X/(X+Y+Z)`, `y = Y/(X+Y+Z)`, with `Y` carried along -/
noncomputable def xyY (X Y Z : ℝ) : ℝ × ℝ × ℝ := (X / (X + Y + Z), Y / (X + Y + Z), Y)

/-- and back: `X = x·Y/y`, `Z = (1−x−y)·Y/y` -/
noncomputable def xyzOfxyY (x y Y : ℝ) : ℝ × ℝ × ℝ := (x * Y / y, Y, (1 - x - y) * Y / y)

end Spec.Cie
