/-
  Published definitions, written independently of the code's structure (CIE 15:2004 and the usual textbook forms; the HSLuv
  rev4 reference implementation).  Over ℝ; noncomputable where needed.  Constants are typed in by hand from the publications.
-/
import Mathlib.Analysis.SpecialFunctions.Pow.Real
import Mathlib.Analysis.SpecialFunctions.Complex.Arg

namespace Spec.Cie

/-- CIE 15 §7.3: chromaticity coordinates `x = X/(X+Y+Z)`, `y = Y/(X+Y+Z)`, with `Y` carried along -/
noncomputable def xyY (X Y Z : ℝ) : ℝ × ℝ × ℝ := (X / (X + Y + Z), Y / (X + Y + Z), Y)

/-- and back: `X = x·Y/y`, `Z = (1−x−y)·Y/y` -/
noncomputable def xyzOfxyY (x y Y : ℝ) : ℝ × ℝ × ℝ := (x * Y / y, Y, (1 - x - y) * Y / y)

/-! ### CIE 1976 L\*a\*b\* (CIE 15:2004 §8.2.1) -/

/-- `f(t) = t^(1/3)` if `t > (6/29)³`, else `t / (3 (6/29)²) + 4/29` -/
noncomputable def f (t : ℝ) : ℝ := if t > (6 / 29 : ℝ) ^ 3 then t ^ ((1 : ℝ) / 3) else t / (3 * (6 / 29 : ℝ) ^ 2) + 4 / 29

/-- `L* = 116 f(Y/Yn) − 16`, `a* = 500 (f(X/Xn) − f(Y/Yn))`, `b* = 200 (f(Y/Yn) − f(Z/Zn))` -/
noncomputable def lab (Xn Yn Zn X Y Z : ℝ) : ℝ × ℝ × ℝ :=
  (116 * f (Y / Yn) - 16, 500 * (f (X / Xn) - f (Y / Yn)), 200 * (f (Y / Yn) - f (Z / Zn)))

/-- reverse transformation: `f⁻¹(t) = t³` if `t > 6/29`, else `3 (6/29)² (t − 4/29)` -/
noncomputable def fInv (t : ℝ) : ℝ := if t > (6 / 29 : ℝ) then t ^ 3 else 3 * (6 / 29 : ℝ) ^ 2 * (t - 4 / 29)

noncomputable def xyzOfLab (Xn Yn Zn L a b : ℝ) : ℝ × ℝ × ℝ :=
  (Xn * fInv ((L + 16) / 116 + a / 500), Yn * fInv ((L + 16) / 116), Zn * fInv ((L + 16) / 116 - b / 200))

/-! ### polar forms (CIE 15:2004 eq. 8.12–8.13, 8.31–8.32): `C = √(a² + b²)`, `h = arctan(b/a)` by quadrant = `atan2(b, a)` -/

noncomputable def chroma (a b : ℝ) : ℝ := Real.sqrt (a ^ 2 + b ^ 2)
/-- hue angle in degrees, in `(−180, 180]`; the stored hue is compared modulo 360 -/
noncomputable def hueDeg (a b : ℝ) : ℝ := Complex.arg ⟨a, b⟩ * 180 / Real.pi
/-- and back: `a = C cos h`, `b = C sin h` (`h` in degrees) -/
noncomputable def cartesian (C h : ℝ) : ℝ × ℝ := (C * Real.cos (h * Real.pi / 180), C * Real.sin (h * Real.pi / 180))

/-! ### CIE 1976 L\*u\*v\* (CIE 15:2004 §8.2.2) -/

noncomputable def uPrime (X Y Z : ℝ) : ℝ := 4 * X / (X + 15 * Y + 3 * Z)
noncomputable def vPrime (X Y Z : ℝ) : ℝ := 9 * Y / (X + 15 * Y + 3 * Z)

/-- `L* = 116 (Y/Yn)^(1/3) − 16` if `Y/Yn > (6/29)³`, else `(29/3)³ Y/Yn` -/
noncomputable def lightness (yr : ℝ) : ℝ := if yr > (6 / 29 : ℝ) ^ 3 then 116 * yr ^ ((1 : ℝ) / 3) - 16 else (29 / 3 : ℝ) ^ 3 * yr

/-- `u* = 13 L* (u′ − u′ₙ)`, `v* = 13 L* (v′ − v′ₙ)` -/
noncomputable def luv (Xn Yn Zn X Y Z : ℝ) : ℝ × ℝ × ℝ :=
  let L := lightness (Y / Yn)
  (L, 13 * L * (uPrime X Y Z - uPrime Xn Yn Zn), 13 * L * (vPrime X Y Z - vPrime Xn Yn Zn))

/-- reverse: `Y = Yn ((L+16)/116)³` if `L > 8` else `Yn L (3/29)³`; `u′ = u/(13L) + u′ₙ`, `v′ = v/(13L) + v′ₙ`;
    `X = Y 9u′/(4v′)`, `Z = Y (12 − 3u′ − 20v′)/(4v′)` -/
noncomputable def xyzOfLuv (Xn Yn Zn L u v : ℝ) : ℝ × ℝ × ℝ :=
  let Y := Yn * (if L > 8 then ((L + 16) / 116) ^ 3 else L * (3 / 29 : ℝ) ^ 3)
  let u' := u / (13 * L) + uPrime Xn Yn Zn
  let v' := v / (13 * L) + vPrime Xn Yn Zn
  (Y * (9 * u') / (4 * v'), Y, Y * (12 - 3 * u' - 20 * v') / (4 * v'))

/-! ### HSLuv (rev4 reference: `getBounds`, `lengthOfRayUntilIntersect`, `maxChromaForLH`, `lchToHsluv`, `hsluvToLch`) -/

/-- `m`: the reference's 15-digit XYZ → linear sRGB matrix -/
def hsluvM : Fin 3 → Fin 3 → ℝ
  | 0, 0 => 3.240969941904521 | 0, 1 => -1.537383177570093 | 0, 2 => -0.498610760293
  | 1, 0 => -0.96924363628087 | 1, 1 => 1.87596750150772 | 1, 2 => 0.041555057407175
  | 2, 0 => 0.055630079696993 | 2, 1 => -0.20397695888897 | 2, 2 => 1.056971514242878
def hsluvKappa : ℝ := 903.2962962
def hsluvEpsilon : ℝ := 0.0088564516

noncomputable def sub2 (L : ℝ) : ℝ :=
  let sub1 := (L + 16) ^ 3 / 1560896
  if sub1 > hsluvEpsilon then sub1 else L / hsluvKappa

/-- `getBounds(L)`: line `(c, t)` as `(slope, intercept)`, `c` = RGB channel, `t ∈ {0, 1}` -/
noncomputable def bound (L : ℝ) (c : Fin 3) (t : ℝ) : ℝ × ℝ :=
  let m1 := hsluvM c 0; let m2 := hsluvM c 1; let m3 := hsluvM c 2
  let top1 := (284517 * m1 - 94839 * m3) * sub2 L
  let top2 := (838422 * m3 + 769860 * m2 + 731718 * m1) * L * sub2 L - 769860 * t * L
  let bottom := (632260 * m3 - 126452 * m2) * sub2 L + 126452 * t
  (top1 / bottom, top2 / bottom)

noncomputable def bounds (L : ℝ) : List (ℝ × ℝ) :=
  [bound L 0 0, bound L 0 1, bound L 1 0, bound L 1 1, bound L 2 0, bound L 2 1]

/-- `lengthOfRayUntilIntersect(θ, line) = intercept / (sin θ − slope cos θ)` -/
noncomputable def rayLength (θ : ℝ) (b : ℝ × ℝ) : ℝ := b.2 / (Real.sin θ - b.1 * Real.cos θ)

/-- `maxChromaForLH`: the minimum of the non-negative ray lengths, starting from the largest float -/
noncomputable def maxChromaForLH (L H : ℝ) : ℝ :=
  (bounds L).foldl (fun acc b => if rayLength (H / 360 * Real.pi * 2) b ≥ 0 then min acc (rayLength (H / 360 * Real.pi * 2) b) else acc)
    1.7976931348623157e308

/-- `lchToHsluv`: `(L, C, H) ↦ (H, S, L)` -/
noncomputable def lchToHsluv (L C H : ℝ) : ℝ × ℝ × ℝ :=
  if L > 99.9999999 then (H, 0, 100) else if L < 0.00000001 then (H, 0, 0) else (H, C / maxChromaForLH L H * 100, L)

/-- `hsluvToLch`: `(H, S, L) ↦ (L, C, H)` -/
noncomputable def hsluvToLch (H S L : ℝ) : ℝ × ℝ × ℝ :=
  if L > 99.9999999 then (100, 0, H) else if L < 0.00000001 then (0, 0, H) else (L, maxChromaForLH L H / 100 * S, H)

/-! ### cone response matrices (Lam 1985 "Bradford"; Hunt–Pointer–Estevez "von Kries"; XYZ scaling) -/
def bradford : Fin 3 → Fin 3 → ℝ
  | 0, 0 => 0.8951 | 0, 1 => 0.2664 | 0, 2 => -0.1614
  | 1, 0 => -0.7502 | 1, 1 => 1.7135 | 1, 2 => 0.0367
  | 2, 0 => 0.0389 | 2, 1 => -0.0685 | 2, 2 => 1.0296
def vonKries : Fin 3 → Fin 3 → ℝ
  | 0, 0 => 0.40024 | 0, 1 => 0.7076 | 0, 2 => -0.08081
  | 1, 0 => -0.2263 | 1, 1 => 1.16532 | 1, 2 => 0.0457
  | 2, 0 => 0 | 2, 1 => 0 | 2, 2 => 0.91822

end Spec.Cie
