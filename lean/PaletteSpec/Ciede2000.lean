/-
  The CIEDE2000 colour-difference formula in textbook form:
  G. Sharma, W. Wu, E. N. Dalal, "The CIEDE2000 Color-Difference Formula: Implementation Notes, Supplementary Test Data, and
  Mathematical Observations", Color Research & Application 30(1), 2005, equations (2)–(22), with k_L = k_C = k_H = 1.

  Written over ℝ with Mathlib's functions, independently of palette's code and of `PaletteModel/Diff.lean`: angles in degrees with
  `sin°`/`cos°`, powers as powers, the case tables of eq. (7), (10), (14) exactly as printed (conditions on `C₁′C₂′`, on the sign of
  `h₂′ − h₁′`, on `h₁′ + h₂′`).
-/
import Mathlib.Analysis.SpecialFunctions.Sqrt
import Mathlib.Analysis.SpecialFunctions.Trigonometric.Basic
import Mathlib.Analysis.SpecialFunctions.Complex.Arg
import Mathlib.Analysis.SpecialFunctions.Exp

namespace Spec.Ciede2000
open Real
noncomputable section

/-- a CIELAB colour -/
structure Lab where
  L : ℝ
  a : ℝ
  b : ℝ

/-- sine / cosine of an angle given in degrees -/
def sind (x : ℝ) : ℝ := sin (x * π / 180)
def cosd (x : ℝ) : ℝ := cos (x * π / 180)
/-- `tan⁻¹(b, a′)` in degrees: the angle of the point `(a′, b)`, in (−180, 180] -/
def atan2d (b a' : ℝ) : ℝ := Complex.arg ⟨a', b⟩ * 180 / π

/-- eq. (2): `C*ᵢ = √(aᵢ² + bᵢ²)` -/
def Cstar (c : Lab) : ℝ := √(c.a ^ 2 + c.b ^ 2)
/-- eq. (3): `C̄* = (C*₁ + C*₂)/2` -/
def Cbar (c₁ c₂ : Lab) : ℝ := (Cstar c₁ + Cstar c₂) / 2
/-- eq. (4): `G = 0.5 (1 − √(C̄*⁷ / (C̄*⁷ + 25⁷)))` -/
def G (c₁ c₂ : Lab) : ℝ := 0.5 * (1 - √(Cbar c₁ c₂ ^ 7 / (Cbar c₁ c₂ ^ 7 + 25 ^ 7)))
/-- eq. (5): `a′ᵢ = (1 + G) aᵢ` -/
def a' (g : ℝ) (c : Lab) : ℝ := (1 + g) * c.a
/-- eq. (6): `C′ᵢ = √(a′ᵢ² + bᵢ²)` -/
def C' (g : ℝ) (c : Lab) : ℝ := √(a' g c ^ 2 + c.b ^ 2)
/-- eq. (7): `h′ᵢ = 0` if `bᵢ = a′ᵢ = 0`, else `tan⁻¹(bᵢ, a′ᵢ)` as an angle in [0°, 360°) -/
def h' (g : ℝ) (c : Lab) : ℝ :=
  if c.b = 0 ∧ a' g c = 0 then 0
  else if atan2d c.b (a' g c) < 0 then atan2d c.b (a' g c) + 360 else atan2d c.b (a' g c)

/-- eq. (10): `Δh′` -/
def Δh' (C₁' C₂' h₁' h₂' : ℝ) : ℝ :=
  if C₁' * C₂' = 0 then 0
  else if |h₂' - h₁'| ≤ 180 then h₂' - h₁'
  else if h₂' - h₁' > 180 then h₂' - h₁' - 360
  else h₂' - h₁' + 360        -- (h₂′ − h₁′) < −180

/-- eq. (14): `h̄′` -/
def hbar' (C₁' C₂' h₁' h₂' : ℝ) : ℝ :=
  if C₁' * C₂' = 0 then h₁' + h₂'
  else if |h₁' - h₂'| ≤ 180 then (h₁' + h₂') / 2
  else if h₁' + h₂' < 360 then (h₁' + h₂' + 360) / 2
  else (h₁' + h₂' - 360) / 2

/-- eq. (15) -/
def T (hb : ℝ) : ℝ := 1 - 0.17 * cosd (hb - 30) + 0.24 * cosd (2 * hb) + 0.32 * cosd (3 * hb + 6) - 0.20 * cosd (4 * hb - 63)
/-- eq. (16) -/
def Δθ (hb : ℝ) : ℝ := 30 * exp (-((hb - 275) / 25) ^ 2)
/-- eq. (17) -/
def R_C (Cb' : ℝ) : ℝ := 2 * √(Cb' ^ 7 / (Cb' ^ 7 + 25 ^ 7))
/-- eq. (18) -/
def S_L (Lb : ℝ) : ℝ := 1 + 0.015 * (Lb - 50) ^ 2 / √(20 + (Lb - 50) ^ 2)
/-- eq. (19) -/
def S_C (Cb' : ℝ) : ℝ := 1 + 0.045 * Cb'
/-- eq. (20) -/
def S_H (Cb' t : ℝ) : ℝ := 1 + 0.015 * Cb' * t
/-- eq. (21) -/
def R_T (Cb' hb : ℝ) : ℝ := -sind (2 * Δθ hb) * R_C Cb'

/-- eq. (22) with (8) `ΔL′ = L₂ − L₁`, (9) `ΔC′ = C₂′ − C₁′`, (11) `ΔH′ = 2 √(C₁′C₂′) sin(Δh′/2)`, (12) `L̄′`, (13) `C̄′` -/
def ΔE₀₀ (c₁ c₂ : Lab) : ℝ :=
  let g := G c₁ c₂
  let C₁' := C' g c₁
  let C₂' := C' g c₂
  let h₁' := h' g c₁
  let h₂' := h' g c₂
  let ΔL' := c₂.L - c₁.L
  let ΔC' := C₂' - C₁'
  let ΔH' := 2 * √(C₁' * C₂') * sind (Δh' C₁' C₂' h₁' h₂' / 2)
  let Lb := (c₁.L + c₂.L) / 2
  let Cb' := (C₁' + C₂') / 2
  let hb := hbar' C₁' C₂' h₁' h₂'
  √((ΔL' / S_L Lb) ^ 2 + (ΔC' / S_C Cb') ^ 2 + (ΔH' / S_H Cb' (T hb)) ^ 2 + R_T Cb' hb * (ΔC' / S_C Cb') * (ΔH' / S_H Cb' (T hb)))

end
end Spec.Ciede2000
