/-
  CAM16 and CAM16-UCS as published: C. Li, Z. Li, Z. Wang, Y. Xu, M. R. Luo, G. Cui, M. Melgosa, M. H. Brill, M. Pointer,
  "Comprehensive color solutions: CAM16, CAT16, and CAM16-UCS", Color Research & Application 42 (2017), Appendix A
  (forward model, steps 0–9) and §4 (CAM16-UCS).  Written from the paper, independently of palette's code structure: XYZ on the
  0–100 scale, the `+0.1` offsets of the post-adaptation responses and the `−0.305` of the achromatic response are kept.
  Over ℝ, noncomputable.
-/
import Mathlib.Analysis.SpecialFunctions.Pow.Real
import Mathlib.Analysis.SpecialFunctions.Complex.Arg
import Mathlib.Analysis.SpecialFunctions.Trigonometric.Basic

namespace Spec.Cam16

/-- CAT16 matrix `M16` (eq. A1 / Table of the paper) applied to `(X, Y, Z)` -/
noncomputable def m16 (X Y Z : ℝ) : ℝ × ℝ × ℝ :=
  (0.401288 * X + 0.650173 * Y - 0.051461 * Z,
   -0.250268 * X + 1.204414 * Y + 0.045854 * Z,
   -0.002079 * X + 0.048952 * Y + 0.953127 * Z)

/-! ### step 0: quantities that depend on the viewing conditions only -/

/-- surround table: `(F, c, N_c)` — average (1.0, 0.69, 1.0), dim (0.9, 0.59, 0.9), dark (0.8, 0.525, 0.8) -/
inductive Surround | average | dim | dark
noncomputable def Surround.F : Surround → ℝ | .average => 1.0 | .dim => 0.9 | .dark => 0.8
noncomputable def Surround.c : Surround → ℝ | .average => 0.69 | .dim => 0.59 | .dark => 0.525
noncomputable def Surround.Nc : Surround → ℝ | .average => 1.0 | .dim => 0.9 | .dark => 0.8

/-- degree of adaptation `D = F [1 − (1/3.6) e^{(−L_A − 42)/92}]` (clipped to [0, 1] by the caller) -/
noncomputable def degreeOfAdaptation (F LA : ℝ) : ℝ := F * (1 - (1 / 3.6) * Real.exp ((-LA - 42) / 92))

/-- `D_R = D · Y_w / R_w + 1 − D` -/
noncomputable def dFactor (D Yw Rw : ℝ) : ℝ := D * Yw / Rw + 1 - D

/-- `k = 1/(5 L_A + 1)`, `F_L = 0.2 k⁴ (5 L_A) + 0.1 (1 − k⁴)² (5 L_A)^{1/3}` -/
noncomputable def k (LA : ℝ) : ℝ := 1 / (5 * LA + 1)
noncomputable def FL (LA : ℝ) : ℝ := 0.2 * (k LA) ^ 4 * (5 * LA) + 0.1 * (1 - (k LA) ^ 4) ^ 2 * (5 * LA) ^ ((1:ℝ) / 3)

/-- `n = Y_b / Y_w`, `z = 1.48 + √n`, `N_bb = N_cb = 0.725 (1/n)^{0.2}` -/
noncomputable def n (Yb Yw : ℝ) : ℝ := Yb / Yw
noncomputable def z (n : ℝ) : ℝ := 1.48 + Real.sqrt n
noncomputable def Nbb (n : ℝ) : ℝ := 0.725 * (1 / n) ^ (0.2 : ℝ)

/-! ### steps 2–3: post-adaptation cone response -/

/-- `R_a = 400 · sign(R_c) · (F_L |R_c| / 100)^{0.42} / ((F_L |R_c| / 100)^{0.42} + 27.13) + 0.1` -/
noncomputable def postAdapt (FL Rc : ℝ) : ℝ :=
  400 * SignType.sign Rc * (FL * |Rc| / 100) ^ (0.42 : ℝ) / ((FL * |Rc| / 100) ^ (0.42 : ℝ) + 27.13) + 0.1

/-! ### steps 4–9, as functions of the post-adaptation responses `R_a, G_a, B_a` (offsets included) -/

/-- step 4: `a = R_a − 12 G_a / 11 + B_a / 11`, `b = (R_a + G_a − 2 B_a)/9`, `h = ∠(a, b)` -/
noncomputable def a (Ra Ga Ba : ℝ) : ℝ := Ra - 12 * Ga / 11 + Ba / 11
noncomputable def b (Ra Ga Ba : ℝ) : ℝ := (Ra + Ga - 2 * Ba) / 9
/-- hue angle in radians, `(-π, π]` (the paper reports it in degrees in `[0, 360)`) -/
noncomputable def hRad (Ra Ga Ba : ℝ) : ℝ := Complex.arg ⟨a Ra Ga Ba, b Ra Ga Ba⟩

/-- step 5: eccentricity `e_t = ¼ [cos(h + 2) + 3.8]` (h in radians) -/
noncomputable def eT (h : ℝ) : ℝ := 1 / 4 * (Real.cos (h + 2) + 3.8)

/-- step 6: achromatic response `A = [2 R_a + G_a + B_a/20 − 0.305] N_bb` -/
noncomputable def achromatic (Nbb Ra Ga Ba : ℝ) : ℝ := (2 * Ra + Ga + Ba / 20 - 0.305) * Nbb

/-- step 7: lightness `J = 100 (A / A_w)^{c z}` -/
noncomputable def J (A Aw c z : ℝ) : ℝ := 100 * (A / Aw) ^ (c * z)

/-- step 8: brightness `Q = (4/c) (J/100)^{0.5} (A_w + 4) F_L^{0.25}` -/
noncomputable def Q (J Aw c FL : ℝ) : ℝ := 4 / c * (J / 100) ^ (0.5 : ℝ) * (Aw + 4) * FL ^ (0.25 : ℝ)

/-- step 9: `t = (50000/13 · N_c N_cb e_t (a² + b²)^{1/2}) / (R_a + G_a + 21 B_a / 20)` -/
noncomputable def t (Nc Ncb et a b Ra Ga Ba : ℝ) : ℝ :=
  50000 / 13 * Nc * Ncb * et * (a ^ 2 + b ^ 2) ^ ((1:ℝ) / 2) / (Ra + Ga + 21 * Ba / 20)

/-- chroma `C = t^{0.9} (J/100)^{0.5} (1.64 − 0.29^n)^{0.73}` -/
noncomputable def C (t J n : ℝ) : ℝ := t ^ (0.9 : ℝ) * (J / 100) ^ (0.5 : ℝ) * (1.64 - (0.29 : ℝ) ^ n) ^ (0.73 : ℝ)

/-- colourfulness `M = C · F_L^{0.25}` -/
noncomputable def M (C FL : ℝ) : ℝ := C * FL ^ (0.25 : ℝ)

/-- saturation `s = 100 (M/Q)^{0.5}` -/
noncomputable def s (M Q : ℝ) : ℝ := 100 * (M / Q) ^ (0.5 : ℝ)

/-! ### CAM16-UCS -/

/-- `J′ = 1.7 J / (1 + 0.007 J)` -/
noncomputable def ucsJ (J : ℝ) : ℝ := 1.7 * J / (1 + 0.007 * J)
/-- `M′ = ln(1 + 0.0228 M) / 0.0228` -/
noncomputable def ucsM (M : ℝ) : ℝ := Real.log (1 + 0.0228 * M) / 0.0228
/-- `a′ = M′ cos h`, `b′ = M′ sin h` -/
noncomputable def ucsA (M' h : ℝ) : ℝ := M' * Real.cos h
noncomputable def ucsB (M' h : ℝ) : ℝ := M' * Real.sin h

end Spec.Cam16
