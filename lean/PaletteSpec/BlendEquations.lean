/-
  The OpenGL blend equation (OpenGL 4.6 core profile §17.3.6 "Blending": `glBlendEquationSeparate`, `glBlendFuncSeparate`,
  tables 17.1 "RGB and alpha blend equations" and 17.2 "blend functions"), restricted to the factors palette offers, written
  from the specification and from the documentation of `palette/src/blend/equations.rs`
  ("a blend function can be written as `e(sp * S, dp * D)`; `e` is the equation (like `s + d`), `sp` and `dp` are the source
  and destination parameters, and `S` and `D` are the source and destination colors"), independently of palette's code.

  Real arithmetic, one colour component at a time.  Notation of the GL specification: `(Rs, Gs, Bs, As)` source colour,
  `(Rd, Gd, Bd, Ad)` destination colour, `S = (Sr, Sg, Sb, Sa)` / `D` the source / destination weighting factors.
  GL does *not* clamp here (floating-point colour buffers): the result of the equation is the result.
-/
import Mathlib.Data.Real.Basic

namespace GL
noncomputable section

/-- table 17.2, the ten factors that exist in palette (`CONSTANT_*`, `SRC_ALPHA_SATURATE`, `SRC1_*` do not) -/
inductive Factor
  | ZERO | ONE | SRC_COLOR | ONE_MINUS_SRC_COLOR | DST_COLOR | ONE_MINUS_DST_COLOR
  | SRC_ALPHA | ONE_MINUS_SRC_ALPHA | DST_ALPHA | ONE_MINUS_DST_ALPHA
deriving DecidableEq, Repr

/-- table 17.2, column "RGB blend factors", for the colour component whose source / destination values are `cs`, `cd`
    (`SRC_COLOR` is `(Rs, Gs, Bs)`: each component is weighted by itself) -/
def Factor.rgb : Factor → (cs sa cd da : ℝ) → ℝ
  | .ZERO, _, _, _, _ => 0
  | .ONE, _, _, _, _ => 1
  | .SRC_COLOR, cs, _, _, _ => cs
  | .ONE_MINUS_SRC_COLOR, cs, _, _, _ => 1 - cs
  | .DST_COLOR, _, _, cd, _ => cd
  | .ONE_MINUS_DST_COLOR, _, _, cd, _ => 1 - cd
  | .SRC_ALPHA, _, sa, _, _ => sa
  | .ONE_MINUS_SRC_ALPHA, _, sa, _, _ => 1 - sa
  | .DST_ALPHA, _, _, _, da => da
  | .ONE_MINUS_DST_ALPHA, _, _, _, da => 1 - da

/-- table 17.2, column "Alpha blend factor" (`SRC_COLOR` is `As`, `DST_COLOR` is `Ad`) -/
def Factor.alpha : Factor → (sa da : ℝ) → ℝ
  | .ZERO, _, _ => 0
  | .ONE, _, _ => 1
  | .SRC_COLOR, sa, _ => sa
  | .ONE_MINUS_SRC_COLOR, sa, _ => 1 - sa
  | .DST_COLOR, _, da => da
  | .ONE_MINUS_DST_COLOR, _, da => 1 - da
  | .SRC_ALPHA, sa, _ => sa
  | .ONE_MINUS_SRC_ALPHA, sa, _ => 1 - sa
  | .DST_ALPHA, _, da => da
  | .ONE_MINUS_DST_ALPHA, _, da => 1 - da

/-- table 17.1, the five modes -/
inductive Func | FUNC_ADD | FUNC_SUBTRACT | FUNC_REVERSE_SUBTRACT | MIN | MAX
deriving DecidableEq, Repr

/-- table 17.1: `FUNC_ADD: C = Cs·S + Cd·D`, `FUNC_SUBTRACT: C = Cs·S − Cd·D`, `FUNC_REVERSE_SUBTRACT: C = Cd·D − Cs·S`,
    `MIN: C = min(Cs, Cd)`, `MAX: C = max(Cs, Cd)` — the weighting factors are **not used** by `MIN` and `MAX`
    (equations.rs: "The parameters are ignored.") -/
def Func.eval : Func → (cs sf cd df : ℝ) → ℝ
  | .FUNC_ADD, cs, sf, cd, df => cs * sf + cd * df
  | .FUNC_SUBTRACT, cs, sf, cd, df => cs * sf - cd * df
  | .FUNC_REVERSE_SUBTRACT, cs, sf, cd, df => cd * df - cs * sf
  | .MIN, cs, _, cd, _ => min cs cd
  | .MAX, cs, _, cd, _ => max cs cd

/-- one colour component of the blended fragment -/
def blendRGB (f : Func) (src dst : Factor) (cs sa cd da : ℝ) : ℝ :=
  f.eval cs (src.rgb cs sa cd da) cd (dst.rgb cs sa cd da)

/-- its alpha -/
def blendA (f : Func) (src dst : Factor) (sa da : ℝ) : ℝ :=
  f.eval sa (src.alpha sa da) da (dst.alpha sa da)

end
end GL
