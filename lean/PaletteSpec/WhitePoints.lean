/-
  Published tristimulus values of the CIE standard illuminants (Y = 1), 2° and 10° observer: ASTM E308-01 as tabulated by
  Lindbloom ("Reference white"); written from the publication, not from palette.  Entries: (name, X·10⁵, Z·10⁵).
-/
namespace Spec.WhitePoints

def published : List (String × Int × Int) :=
  [("A", 109850, 35585), ("B", 99072, 85223), ("C", 98074, 118232), ("D50", 96422, 82521), ("D55", 95682, 92149),
   ("D65", 95047, 108883), ("D75", 94972, 122638), ("E", 100000, 100000), ("F2", 99186, 67393), ("F7", 95041, 108747),
   ("F11", 100962, 64350),
   ("D50Degree10", 96720, 81427), ("D55Degree10", 95799, 90926), ("D65Degree10", 94811, 107304), ("D75Degree10", 94416, 120641)]

end Spec.WhitePoints
