/-
  The CAM16 forward model as one function: steps 0–9 of Appendix A of Li et al. 2017 (see `PaletteSpec/Cam16.lean` for the
  individual equations and the reference) composed in the order of the paper.  Inputs on the paper's scales: XYZ and the white in
  0–100, `L_A` in cd/m², `Y_b` in 0–100; the surround enters through its constants `c`, `N_c` (the paper tabulates three
  surrounds, palette interpolates linearly between them — an extension the paper does not define, so the constants are
  inputs here) and the degree of adaptation `D` is an input already clipped to [0, 1] (`degreeOfAdaptation` gives the paper's
  formula for it).  The hue is the angle in radians in (−π, π].
-/
import PaletteSpec.Cam16

namespace Spec.Cam16

/-- viewing conditions on the paper's scales -/
structure ViewingConditions where
  Xw : ℝ
  Yw : ℝ
  Zw : ℝ
  LA : ℝ
  Yb : ℝ
  c : ℝ
  Nc : ℝ
  D : ℝ

/-- the six correlates (hue angle in radians) -/
structure Correlates where
  J : ℝ
  C : ℝ
  h : ℝ
  Q : ℝ
  M : ℝ
  s : ℝ

/-- steps 1–3 for a stimulus `(X, Y, Z)`: cone responses, chromatic adaptation with `D_R, D_G, D_B` of the white, post-adaptation
    compression (with the `+0.1` offset) -/
noncomputable def postAdapted (vc : ViewingConditions) (X Y Z : ℝ) : ℝ × ℝ × ℝ :=
  let w := m16 vc.Xw vc.Yw vc.Zw
  let r := m16 X Y Z
  (postAdapt (FL vc.LA) (dFactor vc.D vc.Yw w.1 * r.1),
   postAdapt (FL vc.LA) (dFactor vc.D vc.Yw w.2.1 * r.2.1),
   postAdapt (FL vc.LA) (dFactor vc.D vc.Yw w.2.2 * r.2.2))

/-- achromatic response of the white, `A_w` (step 0) -/
noncomputable def Aw (vc : ViewingConditions) : ℝ :=
  let w := postAdapted vc vc.Xw vc.Yw vc.Zw
  achromatic (Nbb (n vc.Yb vc.Yw)) w.1 w.2.1 w.2.2

/-- the forward model, steps 0–9 -/
noncomputable def forwardModel (vc : ViewingConditions) (X Y Z : ℝ) : Correlates :=
  let nn := n vc.Yb vc.Yw
  let nbb := Nbb nn
  let r := postAdapted vc X Y Z
  let hh := hRad r.1 r.2.1 r.2.2
  let A := achromatic nbb r.1 r.2.1 r.2.2
  let j := J A (Aw vc) vc.c (z nn)
  let q := Q j (Aw vc) vc.c (FL vc.LA)
  let tt := t vc.Nc nbb (eT hh) (a r.1 r.2.1 r.2.2) (b r.1 r.2.1 r.2.2) r.1 r.2.1 r.2.2
  let cc := C tt j nn
  let mm := M cc (FL vc.LA)
  { J := j, C := cc, h := hh, Q := q, M := mm, s := s mm q }

end Spec.Cam16
