/-
  W3C "Compositing and Blending Level 1" (https://www.w3.org/TR/compositing-1/), written from the recommendation,
  independently of palette's code.  Real arithmetic.  Notation of the recommendation: `Cb`, `Cs` backdrop / source colour
  (straight), `αb`, `αs` their alphas, `co` the premultiplied result, `αo` the result alpha, `B(Cb, Cs)` the mixing function
  (backdrop first).
-/
import Mathlib.Analysis.Real.Sqrt

namespace W3C
noncomputable section

/-! ### §10.1 separable blend modes: `B(Cb, Cs)` -/

/-- multiply: `B(Cb, Cs) = Cb × Cs` -/
def multiply (cb cs : ℝ) : ℝ := cb * cs
/-- screen: `B(Cb, Cs) = Cb + Cs − (Cb × Cs)` -/
def screen (cb cs : ℝ) : ℝ := cb + cs - cb * cs
/-- hard-light: `if Cs ≤ 0.5 then Multiply(Cb, 2 × Cs) else Screen(Cb, 2 × Cs − 1)` -/
def hardLight (cb cs : ℝ) : ℝ := if cs ≤ 1 / 2 then multiply cb (2 * cs) else screen cb (2 * cs - 1)
/-- overlay: `B(Cb, Cs) = HardLight(Cs, Cb)` -/
def overlay (cb cs : ℝ) : ℝ := hardLight cs cb
/-- darken: `min(Cb, Cs)` -/
def darken (cb cs : ℝ) : ℝ := min cb cs
/-- lighten: `max(Cb, Cs)` -/
def lighten (cb cs : ℝ) : ℝ := max cb cs
/-- color-dodge: `if Cb = 0 then 0 else if Cs = 1 then 1 else min(1, Cb / (1 − Cs))` -/
def colorDodge (cb cs : ℝ) : ℝ := if cb = 0 then 0 else if cs = 1 then 1 else min 1 (cb / (1 - cs))
/-- color-burn: `if Cb = 1 then 1 else if Cs = 0 then 0 else 1 − min(1, (1 − Cb) / Cs)` -/
def colorBurn (cb cs : ℝ) : ℝ := if cb = 1 then 1 else if cs = 0 then 0 else 1 - min 1 ((1 - cb) / cs)
/-- soft-light's `D(Cb)`: `if Cb ≤ 0.25 then ((16 × Cb − 12) × Cb + 4) × Cb else sqrt(Cb)` -/
def softLightD (cb : ℝ) : ℝ := if cb ≤ 1 / 4 then ((16 * cb - 12) * cb + 4) * cb else Real.sqrt cb
/-- soft-light: `if Cs ≤ 0.5 then Cb − (1 − 2 × Cs) × Cb × (1 − Cb) else Cb + (2 × Cs − 1) × (D(Cb) − Cb)` -/
def softLight (cb cs : ℝ) : ℝ :=
  if cs ≤ 1 / 2 then cb - (1 - 2 * cs) * cb * (1 - cb) else cb + (2 * cs - 1) * (softLightD cb - cb)
/-- difference: `| Cb − Cs |` -/
def difference (cb cs : ℝ) : ℝ := |cb - cs|
/-- exclusion: `Cb + Cs − 2 × Cb × Cs` -/
def exclusion (cb cs : ℝ) : ℝ := cb + cs - 2 * cb * cs

/-! ### §5.8 / §10: blending followed by source-over compositing -/

/-- §10: "`Cs = (1 − αb) × Cs + αb × B(Cb, Cs)`" — the source colour after mixing with the backdrop -/
def mixed (B : ℝ → ℝ → ℝ) (cs cb αb : ℝ) : ℝ := (1 - αb) * cs + αb * B cb cs
/-- §5.8 general formula with source-over: `co = αs × Fa × Cs + αb × Fb × Cb`, `Fa = 1`, `Fb = 1 − αs`, on the mixed source -/
def blendCo (B : ℝ → ℝ → ℝ) (cs αs cb αb : ℝ) : ℝ := αs * 1 * mixed B cs cb αb + αb * (1 - αs) * cb
/-- `αo = αs + αb × (1 − αs)` -/
def overAlpha (αs αb : ℝ) : ℝ := αs + αb * (1 - αs)

/-! ### §9.1 Porter-Duff operators: fractions `Fa`, `Fb`; `co = αs × Fa × Cs + αb × Fb × Cb`, `αo = αs × Fa + αb × Fb` -/

inductive PD | sourceOver | sourceIn | sourceOut | sourceAtop | xor | lighter
deriving DecidableEq

def PD.Fa : PD → (αs αb : ℝ) → ℝ
  | .sourceOver, _, _ => 1 | .sourceIn, _, αb => αb | .sourceOut, _, αb => 1 - αb
  | .sourceAtop, _, αb => αb | .xor, _, αb => 1 - αb | .lighter, _, _ => 1
def PD.Fb : PD → (αs αb : ℝ) → ℝ
  | .sourceOver, αs, _ => 1 - αs | .sourceIn, _, _ => 0 | .sourceOut, _, _ => 0
  | .sourceAtop, αs, _ => 1 - αs | .xor, αs, _ => 1 - αs | .lighter, _, _ => 1

/-- premultiplied result from straight colours -/
def PD.co (op : PD) (cs αs cb αb : ℝ) : ℝ := αs * op.Fa αs αb * cs + αb * op.Fb αs αb * cb
def PD.αo (op : PD) (αs αb : ℝ) : ℝ := αs * op.Fa αs αb + αb * op.Fb αs αb

end
end W3C
