/-
  Published definitions of the RGB family, written independently of the code's structure, constants typed in by hand:
  * chromaticities of the primaries and white points of the RGB standards (IEC 61966-2-1 / ITU-R BT.709, Adobe RGB (1998),
    ITU-R BT.2020, SMPTE RP 431-2 / Display P3, ISO 22028-2 ROMM), white point tristimulus values as tabulated by
    Lindbloom from ASTM E308, and the RGB → XYZ matrix derived from them (Lindbloom, "RGB/XYZ Matrices"), over `ℚ`;
  * the transfer curves of those standards, over `ℝ`;
  * the hexcone models HSV and HSL (Smith, "Color gamut transform pairs", SIGGRAPH 1978; Joblove & Greenberg 1978) and
    HWB (Smith & Lyons, "HWB — a more intuitive hue-based color model", 1996), over `ℝ`.
-/
import Mathlib.Analysis.SpecialFunctions.Pow.Real
import Mathlib.Algebra.Order.Floor.Ring

namespace Spec.Rgb

/-! ### primaries, white points, RGB → XYZ -/

structure Space where
  name : String
  r : Rat × Rat
  g : Rat × Rat
  b : Rat × Rat
  white : Rat × Rat × Rat

def d65 : Rat × Rat × Rat := (0.95047, 1, 1.08883)
def d50 : Rat × Rat × Rat := (0.96422, 1, 0.82521)
/-- DCI white, chromaticity (0.314, 0.351) at `Y = 1` -/
def dci : Rat × Rat × Rat := (0.314 / 0.351, 1, (1 - 0.314 - 0.351) / 0.351)

def spaces : List Space := [
  ⟨"Srgb", (0.64, 0.33), (0.30, 0.60), (0.15, 0.06), d65⟩,
  ⟨"AdobeRgb", (0.64, 0.33), (0.21, 0.71), (0.15, 0.06), d65⟩,
  ⟨"DciP3", (0.680, 0.320), (0.265, 0.690), (0.150, 0.060), dci⟩,
  ⟨"DciP3Plus", (0.740, 0.270), (0.220, 0.780), (0.090, -0.090), dci⟩,
  ⟨"DisplayP3", (0.680, 0.320), (0.265, 0.690), (0.150, 0.060), d65⟩,
  ⟨"ProPhotoRgb", (0.7347, 0.2653), (0.1596, 0.8404), (0.0366, 0.0001), d50⟩,
  ⟨"Rec2020", (0.708, 0.292), (0.170, 0.797), (0.131, 0.046), d65⟩]

/-- tristimulus values of a chromaticity at unit luminance (CIE 15 §7.3 solved for `X`, `Z` with `Y = 1`) -/
def xyzOfxy (c : Rat × Rat) : Rat × Rat × Rat := (c.1 / c.2, 1, (1 - c.1 - c.2) / c.2)

def det3 (a b c d e f g h i : Rat) : Rat := a * (e * i - f * h) - b * (d * i - f * g) + c * (d * h - e * g)

/-- Lindbloom: `M = [Sr·Xr Sg·Xg Sb·Xb; …]` with `(Sr, Sg, Sb) = [Xr Xg Xb; Yr Yg Yb; Zr Zg Zb]⁻¹ · W` (Cramer's rule),
    row-major -/
def rgbToXyz (s : Space) : List Rat :=
  let r := xyzOfxy s.r
  let g := xyzOfxy s.g
  let b := xyzOfxy s.b
  let w := s.white
  let D := det3 r.1 g.1 b.1 r.2.1 g.2.1 b.2.1 r.2.2 g.2.2 b.2.2
  let sr := det3 w.1 g.1 b.1 w.2.1 g.2.1 b.2.1 w.2.2 g.2.2 b.2.2 / D
  let sg := det3 r.1 w.1 b.1 r.2.1 w.2.1 b.2.1 r.2.2 w.2.2 b.2.2 / D
  let sb := det3 r.1 g.1 w.1 r.2.1 g.2.1 w.2.1 r.2.2 g.2.2 w.2.2 / D
  [sr * r.1, sg * g.1, sb * b.1, sr * r.2.1, sg * g.2.1, sb * b.2.1, sr * r.2.2, sg * g.2.2, sb * b.2.2]

/-! ### transfer curves (non-linear ↔ linear) -/

/-- IEC 61966-2-1:1999 §5.2 -/
noncomputable def srgbDecode (v : ℝ) : ℝ := if v ≤ 0.04045 then v / 12.92 else ((v + 0.055) / 1.055) ^ (2.4 : ℝ)
noncomputable def srgbEncode (l : ℝ) : ℝ := if l ≤ 0.0031308 then 12.92 * l else 1.055 * l ^ ((1 : ℝ) / 2.4) - 0.055

/-- ITU-R BT.2020-2 table 4 (BT.709-6 prints the same constants to three decimals) -/
def recAlpha : ℝ := 1.09929682680944
def recBeta : ℝ := 0.018053968510807
noncomputable def recEncode (l : ℝ) : ℝ := if l < recBeta then 4.5 * l else recAlpha * l ^ (0.45 : ℝ) - (recAlpha - 1)
noncomputable def recDecode (v : ℝ) : ℝ := if v < 4.5 * recBeta then v / 4.5 else ((v + (recAlpha - 1)) / recAlpha) ^ ((1 : ℝ) / 0.45)

/-- Adobe RGB (1998) §4.3.4.2: γ = 2.19921875 = 563/256 -/
noncomputable def adobeDecode (v : ℝ) : ℝ := v ^ ((563 : ℝ) / 256)
noncomputable def adobeEncode (l : ℝ) : ℝ := l ^ ((256 : ℝ) / 563)

/-- SMPTE RP 431-2: γ = 2.6 -/
noncomputable def p3Decode (v : ℝ) : ℝ := v ^ (2.6 : ℝ)
noncomputable def p3Encode (l : ℝ) : ℝ := l ^ ((1 : ℝ) / 2.6)

/-- ISO 22028-2 (ROMM RGB): `Et = 1/512` -/
noncomputable def prophotoDecode (v : ℝ) : ℝ := if v < 16 * (1 / 512) then v / 16 else v ^ (1.8 : ℝ)
noncomputable def prophotoEncode (l : ℝ) : ℝ := if l < 1 / 512 then 16 * l else l ^ ((1 : ℝ) / 1.8)

/-! ### hexcone models -/

noncomputable def cmax (r g b : ℝ) : ℝ := max r (max g b)
noncomputable def cmin (r g b : ℝ) : ℝ := min r (min g b)
/-- chroma -/
noncomputable def chroma (r g b : ℝ) : ℝ := cmax r g b - cmin r g b

/-- the representative of `x` modulo `n` in `[0, n)` -/
noncomputable def fmod (x n : ℝ) : ℝ := x - n * ⌊x / n⌋

/-- hue in degrees, `[0, 360)`; `0` for a gray -/
noncomputable def hue (r g b : ℝ) : ℝ :=
  if chroma r g b = 0 then 0
  else if cmax r g b = r then 60 * fmod ((g - b) / chroma r g b) 6
  else if cmax r g b = g then 60 * ((b - r) / chroma r g b + 2)
  else 60 * ((r - g) / chroma r g b + 4)

/-- HSV (Smith 1978): `V = max`, `S = (max − min)/max` -/
noncomputable def hsvS (r g b : ℝ) : ℝ := if cmax r g b = 0 then 0 else chroma r g b / cmax r g b
noncomputable def hsvV (r g b : ℝ) : ℝ := cmax r g b

/-- HSL (double hexcone): `L = (max + min)/2`, `S = C / (1 − |2L − 1|)` -/
noncomputable def hslL (r g b : ℝ) : ℝ := (cmax r g b + cmin r g b) / 2
noncomputable def hslS (r g b : ℝ) : ℝ := if chroma r g b = 0 then 0 else chroma r g b / (1 - |2 * hslL r g b - 1|)

/-- HSV → RGB (Smith 1978): sextant `i`, fraction `f`, `p = V(1−S)`, `q = V(1−Sf)`, `t = V(1−S(1−f))` -/
noncomputable def hsvToRgb (h s v : ℝ) : ℝ × ℝ × ℝ :=
  let h6 := fmod (h / 60) 6
  let i := ⌊h6⌋
  let f := h6 - i
  let p := v * (1 - s)
  let q := v * (1 - s * f)
  let t := v * (1 - s * (1 - f))
  if i = 0 then (v, t, p) else if i = 1 then (q, v, p) else if i = 2 then (p, v, t)
  else if i = 3 then (p, q, v) else if i = 4 then (t, p, v) else (v, p, q)

/-- HWB (Smith & Lyons 1996): `W = (1 − S)V`, `B = 1 − V`; back: `V = 1 − B`, `S = 1 − W/V` -/
def hwbOfHsv (s v : ℝ) : ℝ × ℝ := ((1 - s) * v, 1 - v)
noncomputable def hsvOfHwb (w b : ℝ) : ℝ × ℝ := (1 - w / (1 - b), 1 - b)

/-- HSL ↔ HSV (same hue): `V = L + S_l·min(L, 1−L)`, `S_v = 2(1 − L/V)`; `L = V(1 − S_v/2)`, `S_l = (V − L)/min(L, 1−L)` -/
noncomputable def hsvOfHsl (s l : ℝ) : ℝ × ℝ :=
  let v := l + s * min l (1 - l)
  (2 * (1 - l / v), v)
noncomputable def hslOfHsv (s v : ℝ) : ℝ × ℝ :=
  let l := v * (1 - s / 2)
  ((v - l) / min l (1 - l), l)

end Spec.Rgb
