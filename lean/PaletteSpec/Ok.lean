/-
  Published definitions of Ottosson's spaces, written independently of the code's structure, constants typed in by hand.

  * Oklab: B. Ottosson, "A perceptual color space for image processing" (2020): `lms = M1·xyz`, `lms' = ∛lms`, `Lab = M2·lms'`.
    `M2` and the linear-sRGB matrices are the digits of the post (sRGB matrices as updated 2021-01-25, identical to `ok_color.h`).
    For `M1` two publications exist: the post's original (`M1Ottosson`) and the one recomputed for the exact D65 chromaticity by
    the CSS WG (w3c/csswg-drafts#6642, color.js `XYZtoLMS_M`, with the inverses `LMStoXYZ_M`, `LabtoLMS_M`), which palette's source
    cites; the definition used here is the latter, the distance to the former is a stated theorem (`C02_Ok.m1_near_ottosson`).
  * the toe function `L_r` and its inverse, Okhwb: B. Ottosson, "Okhsv and Okhsl" (2021).
  * Oklch: the polar form, `C = √(a² + b²)`, `h = atan2(b, a)`.
-/
import Mathlib.Analysis.SpecialFunctions.Pow.Real
import Mathlib.Analysis.SpecialFunctions.Complex.Arg

namespace Spec.Ok

/-! ### constants (row-major) -/

def M1 : List Rat := [0.8190224432164319, 0.3619062562801221, -0.12887378261216414,
                      0.0329836671980271, 0.9292868468965546, 0.03614466816999844,
                      0.048177199566046255, 0.26423952494422764, 0.6335478258136937]
def M1Inv : List Rat := [1.2268798733741557, -0.5578149965554813, 0.28139105017721583,
                         -0.04057576262431372, 1.1122868293970594, -0.07171106666151701,
                         -0.07637294974672142, -0.4214933239627914, 1.5869240244272418]
def M1Ottosson : List Rat := [0.8189330101, 0.3618667424, -0.1288597137,
                              0.0329845436, 0.9293118715, 0.0361456387,
                              0.0482003018, 0.2643662691, 0.6338517070]
def M2 : List Rat := [0.2104542553, 0.7936177850, -0.0040720468,
                      1.9779984951, -2.4285922050, 0.4505937099,
                      0.0259040371, 0.7827717662, -0.8086757660]
def M2Inv : List Rat := [0.99999999845051981432, 0.39633779217376785678, 0.21580375806075880339,
                         1.0000000088817607767, -0.1055613423236563494, -0.063854174771705903402,
                         1.0000000546724109177, -0.089484182094965759684, -1.2914855378640917399]
/-- `ok_color.h`, `linear_srgb_to_oklab`: linear sRGB → LMS -/
def srgbToLms : List Rat := [0.4122214708, 0.5363325363, 0.0514459929,
                             0.2119034982, 0.6806995451, 0.1073969566,
                             0.0883024619, 0.2817188376, 0.6299787005]
/-- `ok_color.h`, `oklab_to_linear_srgb`: Lab → LMS' (10 digits) and LMS → linear sRGB -/
def labToLms' : List Rat := [1, 0.3963377774, 0.2158037573,
                             1, -0.1055613458, -0.0638541728,
                             1, -0.0894841775, -1.2914855480]
def lmsToSrgb : List Rat := [4.0767416621, -3.3077115913, 0.2309699292,
                             -1.2684380046, 2.6097574011, -0.3413193965,
                             -0.0041960863, -0.7034186147, 1.7076147010]

/-- toe constants `k₁`, `k₂` (`k₃ = (1 + k₁)/(1 + k₂)`) -/
def k1 : Rat := 0.206
def k2 : Rat := 0.03

/-! ### definitions over ℝ -/

/-- the real cube root (odd extension) -/
noncomputable def cbrt (x : ℝ) : ℝ := if 0 ≤ x then x ^ ((1:ℝ)/3) else -((-x) ^ ((1:ℝ)/3))

/-- a rational 3×3 table applied to a real vector -/
noncomputable def app (m : List Rat) (x y z : ℝ) : ℝ × ℝ × ℝ :=
  match m with
  | [a, b, c, d, e, f, g, h, i] => (a * x + b * y + c * z, d * x + e * y + f * z, g * x + h * y + i * z)
  | _ => (0, 0, 0)

noncomputable def xyzToOklab (X Y Z : ℝ) : ℝ × ℝ × ℝ :=
  let lms := app M1 X Y Z
  app M2 (cbrt lms.1) (cbrt lms.2.1) (cbrt lms.2.2)

noncomputable def oklabToXyz (L a b : ℝ) : ℝ × ℝ × ℝ :=
  let lms := app M2Inv L a b
  app M1Inv (lms.1 ^ 3) (lms.2.1 ^ 3) (lms.2.2 ^ 3)

noncomputable def linSrgbToOklab (r g b : ℝ) : ℝ × ℝ × ℝ :=
  let lms := app srgbToLms r g b
  app M2 (cbrt lms.1) (cbrt lms.2.1) (cbrt lms.2.2)

noncomputable def oklabToLinSrgb (L a b : ℝ) : ℝ × ℝ × ℝ :=
  let lms := app labToLms' L a b
  app lmsToSrgb (lms.1 ^ 3) (lms.2.1 ^ 3) (lms.2.2 ^ 3)

noncomputable def k3 : ℝ := (1 + (k1 : ℝ)) / (1 + (k2 : ℝ))
/-- `L_r = ½ (k₃L − k₁ + √((k₃L − k₁)² + 4k₂k₃L))` -/
noncomputable def toe (x : ℝ) : ℝ := (1 / 2) * (k3 * x - k1 + Real.sqrt ((k3 * x - k1) ^ 2 + 4 * k2 * k3 * x))
/-- `L = (L_r² + k₁L_r) / (k₃(L_r + k₂))` -/
noncomputable def toeInv (x : ℝ) : ℝ := (x ^ 2 + k1 * x) / (k3 * (x + k2))

/-- Okhwb from Okhsv: `w = (1 − s)·v`, `b = 1 − v` -/
def okhsvToOkhwb (h s v : ℝ) : ℝ × ℝ × ℝ := (h, (1 - s) * v, 1 - v)
/-- and back: `v = 1 − b`, `s = 1 − w/v` -/
noncomputable def okhwbToOkhsv (h w b : ℝ) : ℝ × ℝ × ℝ := (h, 1 - w / (1 - b), 1 - b)

/-- polar form: chroma and hue angle (radians, in `(−π, π]`) -/
noncomputable def chroma (a b : ℝ) : ℝ := Real.sqrt (a ^ 2 + b ^ 2)
noncomputable def hueRad (a b : ℝ) : ℝ := Complex.arg ⟨a, b⟩

end Spec.Ok
