/- GENERATED (tools: see DESIGN §3 C06): exhaustive kernel evaluation over the u16 sources, chunk 2 of 16.  Built only in the thorough tier. -/
import PaletteModel.Stimulus
namespace C06U16
open Stim

set_option maxRecDepth 100000 in
theorem u16_f32_u16_8192 : ∀ n : Fin 1024, f32ToUint 16 (uintToF32 16 (8192 + n.val)) = 8192 + n.val := by decide +kernel
set_option maxRecDepth 100000 in
theorem u16_f64_u16_8192 : ∀ n : Fin 1024, f64ToUint 16 (uintToF64 16 (8192 + n.val)) = 8192 + n.val := by decide +kernel
set_option maxRecDepth 100000 in
theorem u16_u32_u16_8192 : ∀ n : Fin 1024, narrow 32 16 (widen 16 32 (8192 + n.val)) = 8192 + n.val := by decide +kernel
set_option maxRecDepth 100000 in
theorem u16_f32_u16_9216 : ∀ n : Fin 1024, f32ToUint 16 (uintToF32 16 (9216 + n.val)) = 9216 + n.val := by decide +kernel
set_option maxRecDepth 100000 in
theorem u16_f64_u16_9216 : ∀ n : Fin 1024, f64ToUint 16 (uintToF64 16 (9216 + n.val)) = 9216 + n.val := by decide +kernel
set_option maxRecDepth 100000 in
theorem u16_u32_u16_9216 : ∀ n : Fin 1024, narrow 32 16 (widen 16 32 (9216 + n.val)) = 9216 + n.val := by decide +kernel
set_option maxRecDepth 100000 in
theorem u16_f32_u16_10240 : ∀ n : Fin 1024, f32ToUint 16 (uintToF32 16 (10240 + n.val)) = 10240 + n.val := by decide +kernel
set_option maxRecDepth 100000 in
theorem u16_f64_u16_10240 : ∀ n : Fin 1024, f64ToUint 16 (uintToF64 16 (10240 + n.val)) = 10240 + n.val := by decide +kernel
set_option maxRecDepth 100000 in
theorem u16_u32_u16_10240 : ∀ n : Fin 1024, narrow 32 16 (widen 16 32 (10240 + n.val)) = 10240 + n.val := by decide +kernel
set_option maxRecDepth 100000 in
theorem u16_f32_u16_11264 : ∀ n : Fin 1024, f32ToUint 16 (uintToF32 16 (11264 + n.val)) = 11264 + n.val := by decide +kernel
set_option maxRecDepth 100000 in
theorem u16_f64_u16_11264 : ∀ n : Fin 1024, f64ToUint 16 (uintToF64 16 (11264 + n.val)) = 11264 + n.val := by decide +kernel
set_option maxRecDepth 100000 in
theorem u16_u32_u16_11264 : ∀ n : Fin 1024, narrow 32 16 (widen 16 32 (11264 + n.val)) = 11264 + n.val := by decide +kernel

end C06U16
