/- GENERATED (tools: see DESIGN §3 C06): exhaustive kernel evaluation over the u16 sources, chunk 3 of 16.  Built only in the thorough tier. -/
import PaletteModel.Stimulus
namespace C06U16
open Stim

set_option maxRecDepth 100000 in
theorem u16_f32_u16_12288 : ∀ n : Fin 1024, f32ToUint 16 (uintToF32 16 (12288 + n.val)) = 12288 + n.val := by decide +kernel
set_option maxRecDepth 100000 in
theorem u16_f64_u16_12288 : ∀ n : Fin 1024, f64ToUint 16 (uintToF64 16 (12288 + n.val)) = 12288 + n.val := by decide +kernel
set_option maxRecDepth 100000 in
theorem u16_u32_u16_12288 : ∀ n : Fin 1024, narrow 32 16 (widen 16 32 (12288 + n.val)) = 12288 + n.val := by decide +kernel
set_option maxRecDepth 100000 in
theorem u16_f32_u16_13312 : ∀ n : Fin 1024, f32ToUint 16 (uintToF32 16 (13312 + n.val)) = 13312 + n.val := by decide +kernel
set_option maxRecDepth 100000 in
theorem u16_f64_u16_13312 : ∀ n : Fin 1024, f64ToUint 16 (uintToF64 16 (13312 + n.val)) = 13312 + n.val := by decide +kernel
set_option maxRecDepth 100000 in
theorem u16_u32_u16_13312 : ∀ n : Fin 1024, narrow 32 16 (widen 16 32 (13312 + n.val)) = 13312 + n.val := by decide +kernel
set_option maxRecDepth 100000 in
theorem u16_f32_u16_14336 : ∀ n : Fin 1024, f32ToUint 16 (uintToF32 16 (14336 + n.val)) = 14336 + n.val := by decide +kernel
set_option maxRecDepth 100000 in
theorem u16_f64_u16_14336 : ∀ n : Fin 1024, f64ToUint 16 (uintToF64 16 (14336 + n.val)) = 14336 + n.val := by decide +kernel
set_option maxRecDepth 100000 in
theorem u16_u32_u16_14336 : ∀ n : Fin 1024, narrow 32 16 (widen 16 32 (14336 + n.val)) = 14336 + n.val := by decide +kernel
set_option maxRecDepth 100000 in
theorem u16_f32_u16_15360 : ∀ n : Fin 1024, f32ToUint 16 (uintToF32 16 (15360 + n.val)) = 15360 + n.val := by decide +kernel
set_option maxRecDepth 100000 in
theorem u16_f64_u16_15360 : ∀ n : Fin 1024, f64ToUint 16 (uintToF64 16 (15360 + n.val)) = 15360 + n.val := by decide +kernel
set_option maxRecDepth 100000 in
theorem u16_u32_u16_15360 : ∀ n : Fin 1024, narrow 32 16 (widen 16 32 (15360 + n.val)) = 15360 + n.val := by decide +kernel

end C06U16
