/- GENERATED (tools: see DESIGN §3 C06): exhaustive kernel evaluation over the u16 sources, chunk 6 of 16.  Built only in the thorough tier. -/
import PaletteModel.Stimulus
namespace C06U16
open Stim

set_option maxRecDepth 100000 in
theorem u16_f32_u16_24576 : ∀ n : Fin 1024, f32ToUint 16 (uintToF32 16 (24576 + n.val)) = 24576 + n.val := by decide +kernel
set_option maxRecDepth 100000 in
theorem u16_f64_u16_24576 : ∀ n : Fin 1024, f64ToUint 16 (uintToF64 16 (24576 + n.val)) = 24576 + n.val := by decide +kernel
set_option maxRecDepth 100000 in
theorem u16_u32_u16_24576 : ∀ n : Fin 1024, narrow 32 16 (widen 16 32 (24576 + n.val)) = 24576 + n.val := by decide +kernel
set_option maxRecDepth 100000 in
theorem u16_f32_u16_25600 : ∀ n : Fin 1024, f32ToUint 16 (uintToF32 16 (25600 + n.val)) = 25600 + n.val := by decide +kernel
set_option maxRecDepth 100000 in
theorem u16_f64_u16_25600 : ∀ n : Fin 1024, f64ToUint 16 (uintToF64 16 (25600 + n.val)) = 25600 + n.val := by decide +kernel
set_option maxRecDepth 100000 in
theorem u16_u32_u16_25600 : ∀ n : Fin 1024, narrow 32 16 (widen 16 32 (25600 + n.val)) = 25600 + n.val := by decide +kernel
set_option maxRecDepth 100000 in
theorem u16_f32_u16_26624 : ∀ n : Fin 1024, f32ToUint 16 (uintToF32 16 (26624 + n.val)) = 26624 + n.val := by decide +kernel
set_option maxRecDepth 100000 in
theorem u16_f64_u16_26624 : ∀ n : Fin 1024, f64ToUint 16 (uintToF64 16 (26624 + n.val)) = 26624 + n.val := by decide +kernel
set_option maxRecDepth 100000 in
theorem u16_u32_u16_26624 : ∀ n : Fin 1024, narrow 32 16 (widen 16 32 (26624 + n.val)) = 26624 + n.val := by decide +kernel
set_option maxRecDepth 100000 in
theorem u16_f32_u16_27648 : ∀ n : Fin 1024, f32ToUint 16 (uintToF32 16 (27648 + n.val)) = 27648 + n.val := by decide +kernel
set_option maxRecDepth 100000 in
theorem u16_f64_u16_27648 : ∀ n : Fin 1024, f64ToUint 16 (uintToF64 16 (27648 + n.val)) = 27648 + n.val := by decide +kernel
set_option maxRecDepth 100000 in
theorem u16_u32_u16_27648 : ∀ n : Fin 1024, narrow 32 16 (widen 16 32 (27648 + n.val)) = 27648 + n.val := by decide +kernel

end C06U16
