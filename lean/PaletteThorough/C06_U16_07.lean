/- GENERATED (tools: see DESIGN §3 C06): exhaustive kernel evaluation over the u16 sources, chunk 7 of 16.  Built only in the thorough tier. -/
import PaletteModel.Stimulus
namespace C06U16
open Stim

set_option maxRecDepth 100000 in
theorem u16_f32_u16_28672 : ∀ n : Fin 1024, f32ToUint 16 (uintToF32 16 (28672 + n.val)) = 28672 + n.val := by decide +kernel
set_option maxRecDepth 100000 in
theorem u16_f64_u16_28672 : ∀ n : Fin 1024, f64ToUint 16 (uintToF64 16 (28672 + n.val)) = 28672 + n.val := by decide +kernel
set_option maxRecDepth 100000 in
theorem u16_u32_u16_28672 : ∀ n : Fin 1024, narrow 32 16 (widen 16 32 (28672 + n.val)) = 28672 + n.val := by decide +kernel
set_option maxRecDepth 100000 in
theorem u16_f32_u16_29696 : ∀ n : Fin 1024, f32ToUint 16 (uintToF32 16 (29696 + n.val)) = 29696 + n.val := by decide +kernel
set_option maxRecDepth 100000 in
theorem u16_f64_u16_29696 : ∀ n : Fin 1024, f64ToUint 16 (uintToF64 16 (29696 + n.val)) = 29696 + n.val := by decide +kernel
set_option maxRecDepth 100000 in
theorem u16_u32_u16_29696 : ∀ n : Fin 1024, narrow 32 16 (widen 16 32 (29696 + n.val)) = 29696 + n.val := by decide +kernel
set_option maxRecDepth 100000 in
theorem u16_f32_u16_30720 : ∀ n : Fin 1024, f32ToUint 16 (uintToF32 16 (30720 + n.val)) = 30720 + n.val := by decide +kernel
set_option maxRecDepth 100000 in
theorem u16_f64_u16_30720 : ∀ n : Fin 1024, f64ToUint 16 (uintToF64 16 (30720 + n.val)) = 30720 + n.val := by decide +kernel
set_option maxRecDepth 100000 in
theorem u16_u32_u16_30720 : ∀ n : Fin 1024, narrow 32 16 (widen 16 32 (30720 + n.val)) = 30720 + n.val := by decide +kernel
set_option maxRecDepth 100000 in
theorem u16_f32_u16_31744 : ∀ n : Fin 1024, f32ToUint 16 (uintToF32 16 (31744 + n.val)) = 31744 + n.val := by decide +kernel
set_option maxRecDepth 100000 in
theorem u16_f64_u16_31744 : ∀ n : Fin 1024, f64ToUint 16 (uintToF64 16 (31744 + n.val)) = 31744 + n.val := by decide +kernel
set_option maxRecDepth 100000 in
theorem u16_u32_u16_31744 : ∀ n : Fin 1024, narrow 32 16 (widen 16 32 (31744 + n.val)) = 31744 + n.val := by decide +kernel

end C06U16
