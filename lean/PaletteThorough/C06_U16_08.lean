/- GENERATED (tools: see DESIGN §3 C06): exhaustive kernel evaluation over the u16 sources, chunk 8 of 16.  Built only in the thorough tier. -/
import PaletteModel.Stimulus
namespace C06U16
open Stim

set_option maxRecDepth 100000 in
theorem u16_f32_u16_32768 : ∀ n : Fin 1024, f32ToUint 16 (uintToF32 16 (32768 + n.val)) = 32768 + n.val := by decide +kernel
set_option maxRecDepth 100000 in
theorem u16_f64_u16_32768 : ∀ n : Fin 1024, f64ToUint 16 (uintToF64 16 (32768 + n.val)) = 32768 + n.val := by decide +kernel
set_option maxRecDepth 100000 in
theorem u16_u32_u16_32768 : ∀ n : Fin 1024, narrow 32 16 (widen 16 32 (32768 + n.val)) = 32768 + n.val := by decide +kernel
set_option maxRecDepth 100000 in
theorem u16_f32_u16_33792 : ∀ n : Fin 1024, f32ToUint 16 (uintToF32 16 (33792 + n.val)) = 33792 + n.val := by decide +kernel
set_option maxRecDepth 100000 in
theorem u16_f64_u16_33792 : ∀ n : Fin 1024, f64ToUint 16 (uintToF64 16 (33792 + n.val)) = 33792 + n.val := by decide +kernel
set_option maxRecDepth 100000 in
theorem u16_u32_u16_33792 : ∀ n : Fin 1024, narrow 32 16 (widen 16 32 (33792 + n.val)) = 33792 + n.val := by decide +kernel
set_option maxRecDepth 100000 in
theorem u16_f32_u16_34816 : ∀ n : Fin 1024, f32ToUint 16 (uintToF32 16 (34816 + n.val)) = 34816 + n.val := by decide +kernel
set_option maxRecDepth 100000 in
theorem u16_f64_u16_34816 : ∀ n : Fin 1024, f64ToUint 16 (uintToF64 16 (34816 + n.val)) = 34816 + n.val := by decide +kernel
set_option maxRecDepth 100000 in
theorem u16_u32_u16_34816 : ∀ n : Fin 1024, narrow 32 16 (widen 16 32 (34816 + n.val)) = 34816 + n.val := by decide +kernel
set_option maxRecDepth 100000 in
theorem u16_f32_u16_35840 : ∀ n : Fin 1024, f32ToUint 16 (uintToF32 16 (35840 + n.val)) = 35840 + n.val := by decide +kernel
set_option maxRecDepth 100000 in
theorem u16_f64_u16_35840 : ∀ n : Fin 1024, f64ToUint 16 (uintToF64 16 (35840 + n.val)) = 35840 + n.val := by decide +kernel
set_option maxRecDepth 100000 in
theorem u16_u32_u16_35840 : ∀ n : Fin 1024, narrow 32 16 (widen 16 32 (35840 + n.val)) = 35840 + n.val := by decide +kernel

end C06U16
