/-
  C05 (thorough tier) — **the 16-bit ProPhoto decode table is the standard's inverse curve**, all 65536 codes:

    intoLinear64_u16_faithful (c < 65536) : `IntoLinear<f64, u16>` = `PROPHOTO_RGB_U16_TO_F64[c]` is a pattern in [+0, 1.0] and
        |f64val (dec64 c) − intoLinear .prophoto (c/65535)| < 5e-16          (observed maximum 3.4e-16)
    intoLinear32_u16_faithful (c < 65536) : `IntoLinear<f32, u16>` = that entry `as f32` (the model's `Stim.f64ToF32`) is a pattern
        in [+0, 1.0] and |f32val (…) − intoLinear .prophoto (c/65535)| < 6e-8   (5e-16 + half an ulp of binary32 below 1, `2^-24`)

  `intoLinear .prophoto` is the generic float curve of `PaletteModel/Color/Transfer.lean` at ℝ (`x/16` below 1/32, `x^1.8` above;
  the published constants make the join exact, so there is no offset).  From the kernel evaluation of `C05_U16Dec.lean` over the
  table that extract.py regenerates from /repo (the 256-entry stride of it is compared with the running decoder on every run:
  `C05U16.stride_consistent`).
-/
import PaletteThorough.C05_U16Dec
import PaletteProofs.C05_DecBound
import PaletteProofs.C05_F64Bound

namespace C05U16
open Lut Transfer C05T C05E C05D C05M Ieee

theorem pp_inv_link (c : Nat) :
    prophotoIntoLinear ((c:ℝ) / 65535) = ((c:ℝ) / ppRd c) ^ ((ppP c : ℝ) / (ppQ c : ℝ)) := by
  simp only [ppRd, ppP, ppQ]
  by_cases h : c ≤ 2047
  · have hc : (c:ℝ) ≤ 2047 := by exact_mod_cast h
    rw [if_pos h, if_pos h, if_pos h, C05D.one_one, Real.rpow_one]
    rw [prophotoInto_lo (by rw [div_lt_iff₀ (by norm_num)]; linarith)]
    push_cast; norm_num; ring
  · have hc : (2048:ℝ) ≤ c := by exact_mod_cast (by omega : 2048 ≤ c)
    rw [if_neg h, if_neg h, if_neg h]
    rw [prophotoInto_hi (by rw [not_lt, le_div_iff₀ (by norm_num)]; linarith)]
    have he : (1.8:ℝ) = ((9:ℕ):ℝ) / ((5:ℕ):ℝ) := by norm_num
    rw [he]; norm_num

theorem ppRd_pos (c : Nat) : 0 < ppRd c := by unfold ppRd; split <;> norm_num
theorem ppQ_pos (c : Nat) : 0 < ppQ c := by unfold ppQ; split <;> norm_num

/-- **`IntoLinear<f64, u16>`**: every entry within `5e-16` of the ProPhoto inverse curve at `c/65535` -/
theorem intoLinear64_u16_faithful (c : Nat) (hc : c < 65536) :
    dec64 c ≤ 0x3ff0000000000000 ∧
    |C05F.f64val (dec64 c) - intoLinear Transfer.Fn.prophoto ((c:ℝ) / 65535)| < 5e-16 := by
  have h := dec_curve_all c hc
  simp only [ppCodeOK, Bool.and_eq_true, Bool.or_eq_true, decide_eq_true_eq] at h
  refine ⟨h.1.1, ?_⟩
  have := nearPow_real _ _ _ _ _ _ _ _ (by positivity) (ppRd_pos c) (by norm_num) (ppQ_pos c) h.2
  show |C05F.f64val (dec64 c) - prophotoIntoLinear ((c:ℝ) / 65535)| < 5e-16
  rw [pp_inv_link]
  unfold C05F.f64val
  rw [← wOf64_eq]
  simp only [Nat.cast_pow, Nat.cast_ofNat] at this
  have e1 : ((5:ℝ)) / 10000000000000000 = 5e-16 := by norm_num
  rw [e1] at this
  exact this

/-- `IntoLinear<f32, u16>::into_linear(c)` = `PROPHOTO_RGB_U16_TO_F64[c] as f32`, as an f32 bit pattern -/
def intoLinear32_u16 (c : Nat) : Nat := C05F.narrow (dec64 c)

theorem expo_one : expo 0x3f800000 = 127 := by decide

/-- **`IntoLinear<f32, u16>`**: every value within `6e-8` of the ProPhoto inverse curve at `c/65535` -/
theorem intoLinear32_u16_faithful (c : Nat) (hc : c < 65536) :
    intoLinear32_u16 c ≤ 0x3f800000 ∧
    |f32val (intoLinear32_u16 c) - intoLinear Transfer.Fn.prophoto ((c:ℝ) / 65535)| < 6e-8 := by
  obtain ⟨hB, h64⟩ := intoLinear64_u16_faithful c hc
  have h := dec_curve_all c hc
  simp only [ppCodeOK, Bool.and_eq_true, Bool.or_eq_true, decide_eq_true_eq] at h
  unfold intoLinear32_u16
  -- the narrowed value is positive (or the entry is code 0), so the sign bit of the result is clear
  have hs : F32.fS (C05F.narrow (dec64 c)) = 0 := by
    rcases h.1.2 with h0 | hw
    · subst h0
      have : C05F.narrow (dec64 0) = 0 := by decide +kernel
      rw [this]; decide
    · obtain ⟨fy, vy, _, _⟩ := C05F.narrow_val (dec64 c) hB
      by_contra hne
      have hle := C05F.v_nonpos_of_sign _ hne
      rw [vy, (C05F.ofBits_val (dec64 c) (by omega)).2] at hle
      rw [wOf64_eq] at hw
      have hq : (2:ℚ) ^ 925 ≤ (F64.wOf (dec64 c) : ℚ) := by exact_mod_cast hw
      have hz : (2:ℚ) ^ (-149 : ℤ) ≤ (F64.wOf (dec64 c) : ℚ) * 2 ^ (-1074 : ℤ) := by
        have e : (2:ℚ) ^ (-149 : ℤ) = 2 ^ 925 * 2 ^ (-1074 : ℤ) := by
          rw [← zpow_natCast, ← zpow_add₀ (by norm_num)]; norm_num
        rw [e]; exact mul_le_mul_of_nonneg_right hq (two_zpow_pos _).le
      have hR := F32.R32_mono hz
      have h2 : F32.R32 ((2:ℚ) ^ (-149 : ℤ)) = 2 ^ (-149 : ℤ) :=
        R_two_zpow (p := F32.spec.mantissaBits) (emin := F32.spec.minExponent) (one_le_mantissaBits F32.spec) (le_refl _)
      rw [h2] at hR
      have := two_zpow_pos (-149)
      linarith
  obtain ⟨hb, hn⟩ := C05F.narrow_near (dec64 c) hB hs
  refine ⟨hb, ?_⟩
  unfold Near at hn
  have he : expo (C05F.narrow (dec64 c)) ≤ 127 := by rw [← expo_one]; exact expo_mono hb
  have hp : (2:ℝ) ^ expo (C05F.narrow (dec64 c)) / 2 ^ 151 ≤ 2 ^ 127 / 2 ^ 151 :=
    div_le_div_of_nonneg_right (pow_le_pow_right₀ (by norm_num) he) (by positivity)
  have hk : (2:ℝ) ^ 127 / 2 ^ 151 < 5.97e-8 := by
    rw [div_lt_iff₀ (by positivity)]
    have : (2:ℝ) ^ 151 = 2 ^ 127 * 2 ^ 24 := by rw [← pow_add]
    rw [this]; nlinarith [show (0:ℝ) < 2 ^ 127 by positivity, show (5.97e-8:ℝ) * 2 ^ 24 > 1 by norm_num]
  rw [abs_lt] at h64 ⊢
  rw [abs_le] at hn
  constructor <;> linarith [hn.1, hn.2, h64.1, h64.2]

end C05U16
