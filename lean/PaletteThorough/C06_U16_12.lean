/- GENERATED (tools: see DESIGN §3 C06): exhaustive kernel evaluation over the u16 sources, chunk 12 of 16.  Built only in the thorough tier. -/
import PaletteModel.Stimulus
namespace C06U16
open Stim

set_option maxRecDepth 100000 in
theorem u16_f32_u16_49152 : ∀ n : Fin 1024, f32ToUint 16 (uintToF32 16 (49152 + n.val)) = 49152 + n.val := by decide +kernel
set_option maxRecDepth 100000 in
theorem u16_f64_u16_49152 : ∀ n : Fin 1024, f64ToUint 16 (uintToF64 16 (49152 + n.val)) = 49152 + n.val := by decide +kernel
set_option maxRecDepth 100000 in
theorem u16_u32_u16_49152 : ∀ n : Fin 1024, narrow 32 16 (widen 16 32 (49152 + n.val)) = 49152 + n.val := by decide +kernel
set_option maxRecDepth 100000 in
theorem u16_f32_u16_50176 : ∀ n : Fin 1024, f32ToUint 16 (uintToF32 16 (50176 + n.val)) = 50176 + n.val := by decide +kernel
set_option maxRecDepth 100000 in
theorem u16_f64_u16_50176 : ∀ n : Fin 1024, f64ToUint 16 (uintToF64 16 (50176 + n.val)) = 50176 + n.val := by decide +kernel
set_option maxRecDepth 100000 in
theorem u16_u32_u16_50176 : ∀ n : Fin 1024, narrow 32 16 (widen 16 32 (50176 + n.val)) = 50176 + n.val := by decide +kernel
set_option maxRecDepth 100000 in
theorem u16_f32_u16_51200 : ∀ n : Fin 1024, f32ToUint 16 (uintToF32 16 (51200 + n.val)) = 51200 + n.val := by decide +kernel
set_option maxRecDepth 100000 in
theorem u16_f64_u16_51200 : ∀ n : Fin 1024, f64ToUint 16 (uintToF64 16 (51200 + n.val)) = 51200 + n.val := by decide +kernel
set_option maxRecDepth 100000 in
theorem u16_u32_u16_51200 : ∀ n : Fin 1024, narrow 32 16 (widen 16 32 (51200 + n.val)) = 51200 + n.val := by decide +kernel
set_option maxRecDepth 100000 in
theorem u16_f32_u16_52224 : ∀ n : Fin 1024, f32ToUint 16 (uintToF32 16 (52224 + n.val)) = 52224 + n.val := by decide +kernel
set_option maxRecDepth 100000 in
theorem u16_f64_u16_52224 : ∀ n : Fin 1024, f64ToUint 16 (uintToF64 16 (52224 + n.val)) = 52224 + n.val := by decide +kernel
set_option maxRecDepth 100000 in
theorem u16_u32_u16_52224 : ∀ n : Fin 1024, narrow 32 16 (widen 16 32 (52224 + n.val)) = 52224 + n.val := by decide +kernel

end C06U16
