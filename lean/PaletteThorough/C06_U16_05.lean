/- GENERATED (tools: see DESIGN §3 C06): exhaustive kernel evaluation over the u16 sources, chunk 5 of 16.  Built only in the thorough tier. -/
import PaletteModel.Stimulus
namespace C06U16
open Stim

set_option maxRecDepth 100000 in
theorem u16_f32_u16_20480 : ∀ n : Fin 1024, f32ToUint 16 (uintToF32 16 (20480 + n.val)) = 20480 + n.val := by decide +kernel
set_option maxRecDepth 100000 in
theorem u16_f64_u16_20480 : ∀ n : Fin 1024, f64ToUint 16 (uintToF64 16 (20480 + n.val)) = 20480 + n.val := by decide +kernel
set_option maxRecDepth 100000 in
theorem u16_u32_u16_20480 : ∀ n : Fin 1024, narrow 32 16 (widen 16 32 (20480 + n.val)) = 20480 + n.val := by decide +kernel
set_option maxRecDepth 100000 in
theorem u16_f32_u16_21504 : ∀ n : Fin 1024, f32ToUint 16 (uintToF32 16 (21504 + n.val)) = 21504 + n.val := by decide +kernel
set_option maxRecDepth 100000 in
theorem u16_f64_u16_21504 : ∀ n : Fin 1024, f64ToUint 16 (uintToF64 16 (21504 + n.val)) = 21504 + n.val := by decide +kernel
set_option maxRecDepth 100000 in
theorem u16_u32_u16_21504 : ∀ n : Fin 1024, narrow 32 16 (widen 16 32 (21504 + n.val)) = 21504 + n.val := by decide +kernel
set_option maxRecDepth 100000 in
theorem u16_f32_u16_22528 : ∀ n : Fin 1024, f32ToUint 16 (uintToF32 16 (22528 + n.val)) = 22528 + n.val := by decide +kernel
set_option maxRecDepth 100000 in
theorem u16_f64_u16_22528 : ∀ n : Fin 1024, f64ToUint 16 (uintToF64 16 (22528 + n.val)) = 22528 + n.val := by decide +kernel
set_option maxRecDepth 100000 in
theorem u16_u32_u16_22528 : ∀ n : Fin 1024, narrow 32 16 (widen 16 32 (22528 + n.val)) = 22528 + n.val := by decide +kernel
set_option maxRecDepth 100000 in
theorem u16_f32_u16_23552 : ∀ n : Fin 1024, f32ToUint 16 (uintToF32 16 (23552 + n.val)) = 23552 + n.val := by decide +kernel
set_option maxRecDepth 100000 in
theorem u16_f64_u16_23552 : ∀ n : Fin 1024, f64ToUint 16 (uintToF64 16 (23552 + n.val)) = 23552 + n.val := by decide +kernel
set_option maxRecDepth 100000 in
theorem u16_u32_u16_23552 : ∀ n : Fin 1024, narrow 32 16 (widen 16 32 (23552 + n.val)) = 23552 + n.val := by decide +kernel

end C06U16
