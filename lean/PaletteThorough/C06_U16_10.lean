/- GENERATED (tools: see DESIGN §3 C06): exhaustive kernel evaluation over the u16 sources, chunk 10 of 16.  Built only in the thorough tier. -/
import PaletteModel.Stimulus
namespace C06U16
open Stim

set_option maxRecDepth 100000 in
theorem u16_f32_u16_40960 : ∀ n : Fin 1024, f32ToUint 16 (uintToF32 16 (40960 + n.val)) = 40960 + n.val := by decide +kernel
set_option maxRecDepth 100000 in
theorem u16_f64_u16_40960 : ∀ n : Fin 1024, f64ToUint 16 (uintToF64 16 (40960 + n.val)) = 40960 + n.val := by decide +kernel
set_option maxRecDepth 100000 in
theorem u16_u32_u16_40960 : ∀ n : Fin 1024, narrow 32 16 (widen 16 32 (40960 + n.val)) = 40960 + n.val := by decide +kernel
set_option maxRecDepth 100000 in
theorem u16_f32_u16_41984 : ∀ n : Fin 1024, f32ToUint 16 (uintToF32 16 (41984 + n.val)) = 41984 + n.val := by decide +kernel
set_option maxRecDepth 100000 in
theorem u16_f64_u16_41984 : ∀ n : Fin 1024, f64ToUint 16 (uintToF64 16 (41984 + n.val)) = 41984 + n.val := by decide +kernel
set_option maxRecDepth 100000 in
theorem u16_u32_u16_41984 : ∀ n : Fin 1024, narrow 32 16 (widen 16 32 (41984 + n.val)) = 41984 + n.val := by decide +kernel
set_option maxRecDepth 100000 in
theorem u16_f32_u16_43008 : ∀ n : Fin 1024, f32ToUint 16 (uintToF32 16 (43008 + n.val)) = 43008 + n.val := by decide +kernel
set_option maxRecDepth 100000 in
theorem u16_f64_u16_43008 : ∀ n : Fin 1024, f64ToUint 16 (uintToF64 16 (43008 + n.val)) = 43008 + n.val := by decide +kernel
set_option maxRecDepth 100000 in
theorem u16_u32_u16_43008 : ∀ n : Fin 1024, narrow 32 16 (widen 16 32 (43008 + n.val)) = 43008 + n.val := by decide +kernel
set_option maxRecDepth 100000 in
theorem u16_f32_u16_44032 : ∀ n : Fin 1024, f32ToUint 16 (uintToF32 16 (44032 + n.val)) = 44032 + n.val := by decide +kernel
set_option maxRecDepth 100000 in
theorem u16_f64_u16_44032 : ∀ n : Fin 1024, f64ToUint 16 (uintToF64 16 (44032 + n.val)) = 44032 + n.val := by decide +kernel
set_option maxRecDepth 100000 in
theorem u16_u32_u16_44032 : ∀ n : Fin 1024, narrow 32 16 (widen 16 32 (44032 + n.val)) = 44032 + n.val := by decide +kernel

end C06U16
