/- GENERATED (tools: see DESIGN §3 C06): exhaustive kernel evaluation over the u16 sources, chunk 9 of 16.  Built only in the thorough tier. -/
import PaletteModel.Stimulus
namespace C06U16
open Stim

set_option maxRecDepth 100000 in
theorem u16_f32_u16_36864 : ∀ n : Fin 1024, f32ToUint 16 (uintToF32 16 (36864 + n.val)) = 36864 + n.val := by decide +kernel
set_option maxRecDepth 100000 in
theorem u16_f64_u16_36864 : ∀ n : Fin 1024, f64ToUint 16 (uintToF64 16 (36864 + n.val)) = 36864 + n.val := by decide +kernel
set_option maxRecDepth 100000 in
theorem u16_u32_u16_36864 : ∀ n : Fin 1024, narrow 32 16 (widen 16 32 (36864 + n.val)) = 36864 + n.val := by decide +kernel
set_option maxRecDepth 100000 in
theorem u16_f32_u16_37888 : ∀ n : Fin 1024, f32ToUint 16 (uintToF32 16 (37888 + n.val)) = 37888 + n.val := by decide +kernel
set_option maxRecDepth 100000 in
theorem u16_f64_u16_37888 : ∀ n : Fin 1024, f64ToUint 16 (uintToF64 16 (37888 + n.val)) = 37888 + n.val := by decide +kernel
set_option maxRecDepth 100000 in
theorem u16_u32_u16_37888 : ∀ n : Fin 1024, narrow 32 16 (widen 16 32 (37888 + n.val)) = 37888 + n.val := by decide +kernel
set_option maxRecDepth 100000 in
theorem u16_f32_u16_38912 : ∀ n : Fin 1024, f32ToUint 16 (uintToF32 16 (38912 + n.val)) = 38912 + n.val := by decide +kernel
set_option maxRecDepth 100000 in
theorem u16_f64_u16_38912 : ∀ n : Fin 1024, f64ToUint 16 (uintToF64 16 (38912 + n.val)) = 38912 + n.val := by decide +kernel
set_option maxRecDepth 100000 in
theorem u16_u32_u16_38912 : ∀ n : Fin 1024, narrow 32 16 (widen 16 32 (38912 + n.val)) = 38912 + n.val := by decide +kernel
set_option maxRecDepth 100000 in
theorem u16_f32_u16_39936 : ∀ n : Fin 1024, f32ToUint 16 (uintToF32 16 (39936 + n.val)) = 39936 + n.val := by decide +kernel
set_option maxRecDepth 100000 in
theorem u16_f64_u16_39936 : ∀ n : Fin 1024, f64ToUint 16 (uintToF64 16 (39936 + n.val)) = 39936 + n.val := by decide +kernel
set_option maxRecDepth 100000 in
theorem u16_u32_u16_39936 : ∀ n : Fin 1024, narrow 32 16 (widen 16 32 (39936 + n.val)) = 39936 + n.val := by decide +kernel

end C06U16
