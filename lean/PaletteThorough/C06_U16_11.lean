/- GENERATED (tools: see DESIGN §3 C06): exhaustive kernel evaluation over the u16 sources, chunk 11 of 16.  Built only in the thorough tier. -/
import PaletteModel.Stimulus
namespace C06U16
open Stim

set_option maxRecDepth 100000 in
theorem u16_f32_u16_45056 : ∀ n : Fin 1024, f32ToUint 16 (uintToF32 16 (45056 + n.val)) = 45056 + n.val := by decide +kernel
set_option maxRecDepth 100000 in
theorem u16_f64_u16_45056 : ∀ n : Fin 1024, f64ToUint 16 (uintToF64 16 (45056 + n.val)) = 45056 + n.val := by decide +kernel
set_option maxRecDepth 100000 in
theorem u16_u32_u16_45056 : ∀ n : Fin 1024, narrow 32 16 (widen 16 32 (45056 + n.val)) = 45056 + n.val := by decide +kernel
set_option maxRecDepth 100000 in
theorem u16_f32_u16_46080 : ∀ n : Fin 1024, f32ToUint 16 (uintToF32 16 (46080 + n.val)) = 46080 + n.val := by decide +kernel
set_option maxRecDepth 100000 in
theorem u16_f64_u16_46080 : ∀ n : Fin 1024, f64ToUint 16 (uintToF64 16 (46080 + n.val)) = 46080 + n.val := by decide +kernel
set_option maxRecDepth 100000 in
theorem u16_u32_u16_46080 : ∀ n : Fin 1024, narrow 32 16 (widen 16 32 (46080 + n.val)) = 46080 + n.val := by decide +kernel
set_option maxRecDepth 100000 in
theorem u16_f32_u16_47104 : ∀ n : Fin 1024, f32ToUint 16 (uintToF32 16 (47104 + n.val)) = 47104 + n.val := by decide +kernel
set_option maxRecDepth 100000 in
theorem u16_f64_u16_47104 : ∀ n : Fin 1024, f64ToUint 16 (uintToF64 16 (47104 + n.val)) = 47104 + n.val := by decide +kernel
set_option maxRecDepth 100000 in
theorem u16_u32_u16_47104 : ∀ n : Fin 1024, narrow 32 16 (widen 16 32 (47104 + n.val)) = 47104 + n.val := by decide +kernel
set_option maxRecDepth 100000 in
theorem u16_f32_u16_48128 : ∀ n : Fin 1024, f32ToUint 16 (uintToF32 16 (48128 + n.val)) = 48128 + n.val := by decide +kernel
set_option maxRecDepth 100000 in
theorem u16_f64_u16_48128 : ∀ n : Fin 1024, f64ToUint 16 (uintToF64 16 (48128 + n.val)) = 48128 + n.val := by decide +kernel
set_option maxRecDepth 100000 in
theorem u16_u32_u16_48128 : ∀ n : Fin 1024, narrow 32 16 (widen 16 32 (48128 + n.val)) = 48128 + n.val := by decide +kernel

end C06U16
