/- GENERATED (tools: see DESIGN §3 C06): exhaustive kernel evaluation over the u16 sources, chunk 15 of 16.  Built only in the thorough tier. -/
import PaletteModel.Stimulus
namespace C06U16
open Stim

set_option maxRecDepth 100000 in
theorem u16_f32_u16_61440 : ∀ n : Fin 1024, f32ToUint 16 (uintToF32 16 (61440 + n.val)) = 61440 + n.val := by decide +kernel
set_option maxRecDepth 100000 in
theorem u16_f64_u16_61440 : ∀ n : Fin 1024, f64ToUint 16 (uintToF64 16 (61440 + n.val)) = 61440 + n.val := by decide +kernel
set_option maxRecDepth 100000 in
theorem u16_u32_u16_61440 : ∀ n : Fin 1024, narrow 32 16 (widen 16 32 (61440 + n.val)) = 61440 + n.val := by decide +kernel
set_option maxRecDepth 100000 in
theorem u16_f32_u16_62464 : ∀ n : Fin 1024, f32ToUint 16 (uintToF32 16 (62464 + n.val)) = 62464 + n.val := by decide +kernel
set_option maxRecDepth 100000 in
theorem u16_f64_u16_62464 : ∀ n : Fin 1024, f64ToUint 16 (uintToF64 16 (62464 + n.val)) = 62464 + n.val := by decide +kernel
set_option maxRecDepth 100000 in
theorem u16_u32_u16_62464 : ∀ n : Fin 1024, narrow 32 16 (widen 16 32 (62464 + n.val)) = 62464 + n.val := by decide +kernel
set_option maxRecDepth 100000 in
theorem u16_f32_u16_63488 : ∀ n : Fin 1024, f32ToUint 16 (uintToF32 16 (63488 + n.val)) = 63488 + n.val := by decide +kernel
set_option maxRecDepth 100000 in
theorem u16_f64_u16_63488 : ∀ n : Fin 1024, f64ToUint 16 (uintToF64 16 (63488 + n.val)) = 63488 + n.val := by decide +kernel
set_option maxRecDepth 100000 in
theorem u16_u32_u16_63488 : ∀ n : Fin 1024, narrow 32 16 (widen 16 32 (63488 + n.val)) = 63488 + n.val := by decide +kernel
set_option maxRecDepth 100000 in
theorem u16_f32_u16_64512 : ∀ n : Fin 1024, f32ToUint 16 (uintToF32 16 (64512 + n.val)) = 64512 + n.val := by decide +kernel
set_option maxRecDepth 100000 in
theorem u16_f64_u16_64512 : ∀ n : Fin 1024, f64ToUint 16 (uintToF64 16 (64512 + n.val)) = 64512 + n.val := by decide +kernel
set_option maxRecDepth 100000 in
theorem u16_u32_u16_64512 : ∀ n : Fin 1024, narrow 32 16 (widen 16 32 (64512 + n.val)) = 64512 + n.val := by decide +kernel

end C06U16
