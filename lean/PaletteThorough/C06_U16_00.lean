/- GENERATED (tools: see DESIGN §3 C06): exhaustive kernel evaluation over the u16 sources, chunk 0 of 16.  Built only in the thorough tier. -/
import PaletteModel.Stimulus
namespace C06U16
open Stim

set_option maxRecDepth 100000 in
theorem u16_f32_u16_0 : ∀ n : Fin 1024, f32ToUint 16 (uintToF32 16 (0 + n.val)) = 0 + n.val := by decide +kernel
set_option maxRecDepth 100000 in
theorem u16_f64_u16_0 : ∀ n : Fin 1024, f64ToUint 16 (uintToF64 16 (0 + n.val)) = 0 + n.val := by decide +kernel
set_option maxRecDepth 100000 in
theorem u16_u32_u16_0 : ∀ n : Fin 1024, narrow 32 16 (widen 16 32 (0 + n.val)) = 0 + n.val := by decide +kernel
set_option maxRecDepth 100000 in
theorem u16_f32_u16_1024 : ∀ n : Fin 1024, f32ToUint 16 (uintToF32 16 (1024 + n.val)) = 1024 + n.val := by decide +kernel
set_option maxRecDepth 100000 in
theorem u16_f64_u16_1024 : ∀ n : Fin 1024, f64ToUint 16 (uintToF64 16 (1024 + n.val)) = 1024 + n.val := by decide +kernel
set_option maxRecDepth 100000 in
theorem u16_u32_u16_1024 : ∀ n : Fin 1024, narrow 32 16 (widen 16 32 (1024 + n.val)) = 1024 + n.val := by decide +kernel
set_option maxRecDepth 100000 in
theorem u16_f32_u16_2048 : ∀ n : Fin 1024, f32ToUint 16 (uintToF32 16 (2048 + n.val)) = 2048 + n.val := by decide +kernel
set_option maxRecDepth 100000 in
theorem u16_f64_u16_2048 : ∀ n : Fin 1024, f64ToUint 16 (uintToF64 16 (2048 + n.val)) = 2048 + n.val := by decide +kernel
set_option maxRecDepth 100000 in
theorem u16_u32_u16_2048 : ∀ n : Fin 1024, narrow 32 16 (widen 16 32 (2048 + n.val)) = 2048 + n.val := by decide +kernel
set_option maxRecDepth 100000 in
theorem u16_f32_u16_3072 : ∀ n : Fin 1024, f32ToUint 16 (uintToF32 16 (3072 + n.val)) = 3072 + n.val := by decide +kernel
set_option maxRecDepth 100000 in
theorem u16_f64_u16_3072 : ∀ n : Fin 1024, f64ToUint 16 (uintToF64 16 (3072 + n.val)) = 3072 + n.val := by decide +kernel
set_option maxRecDepth 100000 in
theorem u16_u32_u16_3072 : ∀ n : Fin 1024, narrow 32 16 (widen 16 32 (3072 + n.val)) = 3072 + n.val := by decide +kernel

end C06U16
