/- GENERATED (tools: see DESIGN §3 C06): exhaustive kernel evaluation over the u16 sources, chunk 4 of 16.  Built only in the thorough tier. -/
import PaletteModel.Stimulus
namespace C06U16
open Stim

set_option maxRecDepth 100000 in
theorem u16_f32_u16_16384 : ∀ n : Fin 1024, f32ToUint 16 (uintToF32 16 (16384 + n.val)) = 16384 + n.val := by decide +kernel
set_option maxRecDepth 100000 in
theorem u16_f64_u16_16384 : ∀ n : Fin 1024, f64ToUint 16 (uintToF64 16 (16384 + n.val)) = 16384 + n.val := by decide +kernel
set_option maxRecDepth 100000 in
theorem u16_u32_u16_16384 : ∀ n : Fin 1024, narrow 32 16 (widen 16 32 (16384 + n.val)) = 16384 + n.val := by decide +kernel
set_option maxRecDepth 100000 in
theorem u16_f32_u16_17408 : ∀ n : Fin 1024, f32ToUint 16 (uintToF32 16 (17408 + n.val)) = 17408 + n.val := by decide +kernel
set_option maxRecDepth 100000 in
theorem u16_f64_u16_17408 : ∀ n : Fin 1024, f64ToUint 16 (uintToF64 16 (17408 + n.val)) = 17408 + n.val := by decide +kernel
set_option maxRecDepth 100000 in
theorem u16_u32_u16_17408 : ∀ n : Fin 1024, narrow 32 16 (widen 16 32 (17408 + n.val)) = 17408 + n.val := by decide +kernel
set_option maxRecDepth 100000 in
theorem u16_f32_u16_18432 : ∀ n : Fin 1024, f32ToUint 16 (uintToF32 16 (18432 + n.val)) = 18432 + n.val := by decide +kernel
set_option maxRecDepth 100000 in
theorem u16_f64_u16_18432 : ∀ n : Fin 1024, f64ToUint 16 (uintToF64 16 (18432 + n.val)) = 18432 + n.val := by decide +kernel
set_option maxRecDepth 100000 in
theorem u16_u32_u16_18432 : ∀ n : Fin 1024, narrow 32 16 (widen 16 32 (18432 + n.val)) = 18432 + n.val := by decide +kernel
set_option maxRecDepth 100000 in
theorem u16_f32_u16_19456 : ∀ n : Fin 1024, f32ToUint 16 (uintToF32 16 (19456 + n.val)) = 19456 + n.val := by decide +kernel
set_option maxRecDepth 100000 in
theorem u16_f64_u16_19456 : ∀ n : Fin 1024, f64ToUint 16 (uintToF64 16 (19456 + n.val)) = 19456 + n.val := by decide +kernel
set_option maxRecDepth 100000 in
theorem u16_u32_u16_19456 : ∀ n : Fin 1024, narrow 32 16 (widen 16 32 (19456 + n.val)) = 19456 + n.val := by decide +kernel

end C06U16
