/- GENERATED (tools: see DESIGN §3 C06): exhaustive kernel evaluation over the u16 sources, chunk 13 of 16.  Built only in the thorough tier. -/
import PaletteModel.Stimulus
namespace C06U16
open Stim

set_option maxRecDepth 100000 in
theorem u16_f32_u16_53248 : ∀ n : Fin 1024, f32ToUint 16 (uintToF32 16 (53248 + n.val)) = 53248 + n.val := by decide +kernel
set_option maxRecDepth 100000 in
theorem u16_f64_u16_53248 : ∀ n : Fin 1024, f64ToUint 16 (uintToF64 16 (53248 + n.val)) = 53248 + n.val := by decide +kernel
set_option maxRecDepth 100000 in
theorem u16_u32_u16_53248 : ∀ n : Fin 1024, narrow 32 16 (widen 16 32 (53248 + n.val)) = 53248 + n.val := by decide +kernel
set_option maxRecDepth 100000 in
theorem u16_f32_u16_54272 : ∀ n : Fin 1024, f32ToUint 16 (uintToF32 16 (54272 + n.val)) = 54272 + n.val := by decide +kernel
set_option maxRecDepth 100000 in
theorem u16_f64_u16_54272 : ∀ n : Fin 1024, f64ToUint 16 (uintToF64 16 (54272 + n.val)) = 54272 + n.val := by decide +kernel
set_option maxRecDepth 100000 in
theorem u16_u32_u16_54272 : ∀ n : Fin 1024, narrow 32 16 (widen 16 32 (54272 + n.val)) = 54272 + n.val := by decide +kernel
set_option maxRecDepth 100000 in
theorem u16_f32_u16_55296 : ∀ n : Fin 1024, f32ToUint 16 (uintToF32 16 (55296 + n.val)) = 55296 + n.val := by decide +kernel
set_option maxRecDepth 100000 in
theorem u16_f64_u16_55296 : ∀ n : Fin 1024, f64ToUint 16 (uintToF64 16 (55296 + n.val)) = 55296 + n.val := by decide +kernel
set_option maxRecDepth 100000 in
theorem u16_u32_u16_55296 : ∀ n : Fin 1024, narrow 32 16 (widen 16 32 (55296 + n.val)) = 55296 + n.val := by decide +kernel
set_option maxRecDepth 100000 in
theorem u16_f32_u16_56320 : ∀ n : Fin 1024, f32ToUint 16 (uintToF32 16 (56320 + n.val)) = 56320 + n.val := by decide +kernel
set_option maxRecDepth 100000 in
theorem u16_f64_u16_56320 : ∀ n : Fin 1024, f64ToUint 16 (uintToF64 16 (56320 + n.val)) = 56320 + n.val := by decide +kernel
set_option maxRecDepth 100000 in
theorem u16_u32_u16_56320 : ∀ n : Fin 1024, narrow 32 16 (widen 16 32 (56320 + n.val)) = 56320 + n.val := by decide +kernel

end C06U16
