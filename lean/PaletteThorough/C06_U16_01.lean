/- GENERATED (tools: see DESIGN §3 C06): exhaustive kernel evaluation over the u16 sources, chunk 1 of 16.  Built only in the thorough tier. -/
import PaletteModel.Stimulus
namespace C06U16
open Stim

set_option maxRecDepth 100000 in
theorem u16_f32_u16_4096 : ∀ n : Fin 1024, f32ToUint 16 (uintToF32 16 (4096 + n.val)) = 4096 + n.val := by decide +kernel
set_option maxRecDepth 100000 in
theorem u16_f64_u16_4096 : ∀ n : Fin 1024, f64ToUint 16 (uintToF64 16 (4096 + n.val)) = 4096 + n.val := by decide +kernel
set_option maxRecDepth 100000 in
theorem u16_u32_u16_4096 : ∀ n : Fin 1024, narrow 32 16 (widen 16 32 (4096 + n.val)) = 4096 + n.val := by decide +kernel
set_option maxRecDepth 100000 in
theorem u16_f32_u16_5120 : ∀ n : Fin 1024, f32ToUint 16 (uintToF32 16 (5120 + n.val)) = 5120 + n.val := by decide +kernel
set_option maxRecDepth 100000 in
theorem u16_f64_u16_5120 : ∀ n : Fin 1024, f64ToUint 16 (uintToF64 16 (5120 + n.val)) = 5120 + n.val := by decide +kernel
set_option maxRecDepth 100000 in
theorem u16_u32_u16_5120 : ∀ n : Fin 1024, narrow 32 16 (widen 16 32 (5120 + n.val)) = 5120 + n.val := by decide +kernel
set_option maxRecDepth 100000 in
theorem u16_f32_u16_6144 : ∀ n : Fin 1024, f32ToUint 16 (uintToF32 16 (6144 + n.val)) = 6144 + n.val := by decide +kernel
set_option maxRecDepth 100000 in
theorem u16_f64_u16_6144 : ∀ n : Fin 1024, f64ToUint 16 (uintToF64 16 (6144 + n.val)) = 6144 + n.val := by decide +kernel
set_option maxRecDepth 100000 in
theorem u16_u32_u16_6144 : ∀ n : Fin 1024, narrow 32 16 (widen 16 32 (6144 + n.val)) = 6144 + n.val := by decide +kernel
set_option maxRecDepth 100000 in
theorem u16_f32_u16_7168 : ∀ n : Fin 1024, f32ToUint 16 (uintToF32 16 (7168 + n.val)) = 7168 + n.val := by decide +kernel
set_option maxRecDepth 100000 in
theorem u16_f64_u16_7168 : ∀ n : Fin 1024, f64ToUint 16 (uintToF64 16 (7168 + n.val)) = 7168 + n.val := by decide +kernel
set_option maxRecDepth 100000 in
theorem u16_u32_u16_7168 : ∀ n : Fin 1024, narrow 32 16 (widen 16 32 (7168 + n.val)) = 7168 + n.val := by decide +kernel

end C06U16
