/- GENERATED (tools: see DESIGN §3 C06): exhaustive kernel evaluation over the u16 sources, chunk 14 of 16.  Built only in the thorough tier. -/
import PaletteModel.Stimulus
namespace C06U16
open Stim

set_option maxRecDepth 100000 in
theorem u16_f32_u16_57344 : ∀ n : Fin 1024, f32ToUint 16 (uintToF32 16 (57344 + n.val)) = 57344 + n.val := by decide +kernel
set_option maxRecDepth 100000 in
theorem u16_f64_u16_57344 : ∀ n : Fin 1024, f64ToUint 16 (uintToF64 16 (57344 + n.val)) = 57344 + n.val := by decide +kernel
set_option maxRecDepth 100000 in
theorem u16_u32_u16_57344 : ∀ n : Fin 1024, narrow 32 16 (widen 16 32 (57344 + n.val)) = 57344 + n.val := by decide +kernel
set_option maxRecDepth 100000 in
theorem u16_f32_u16_58368 : ∀ n : Fin 1024, f32ToUint 16 (uintToF32 16 (58368 + n.val)) = 58368 + n.val := by decide +kernel
set_option maxRecDepth 100000 in
theorem u16_f64_u16_58368 : ∀ n : Fin 1024, f64ToUint 16 (uintToF64 16 (58368 + n.val)) = 58368 + n.val := by decide +kernel
set_option maxRecDepth 100000 in
theorem u16_u32_u16_58368 : ∀ n : Fin 1024, narrow 32 16 (widen 16 32 (58368 + n.val)) = 58368 + n.val := by decide +kernel
set_option maxRecDepth 100000 in
theorem u16_f32_u16_59392 : ∀ n : Fin 1024, f32ToUint 16 (uintToF32 16 (59392 + n.val)) = 59392 + n.val := by decide +kernel
set_option maxRecDepth 100000 in
theorem u16_f64_u16_59392 : ∀ n : Fin 1024, f64ToUint 16 (uintToF64 16 (59392 + n.val)) = 59392 + n.val := by decide +kernel
set_option maxRecDepth 100000 in
theorem u16_u32_u16_59392 : ∀ n : Fin 1024, narrow 32 16 (widen 16 32 (59392 + n.val)) = 59392 + n.val := by decide +kernel
set_option maxRecDepth 100000 in
theorem u16_f32_u16_60416 : ∀ n : Fin 1024, f32ToUint 16 (uintToF32 16 (60416 + n.val)) = 60416 + n.val := by decide +kernel
set_option maxRecDepth 100000 in
theorem u16_f64_u16_60416 : ∀ n : Fin 1024, f64ToUint 16 (uintToF64 16 (60416 + n.val)) = 60416 + n.val := by decide +kernel
set_option maxRecDepth 100000 in
theorem u16_u32_u16_60416 : ∀ n : Fin 1024, narrow 32 16 (widen 16 32 (60416 + n.val)) = 60416 + n.val := by decide +kernel

end C06U16
