/-
  C05 (thorough tier) — definitions for the exhaustive decode → encode evaluation over the 65536 ProPhoto u16 codes.
  `IntoLinear<f64,u16>` reads `PROPHOTO_RGB_U16_TO_F64[c]`; `IntoLinear<f32,u16>` is that entry `as f32`; `FromLinear<f64,u16>` is
  `from_linear(x as f32)`.  Hence both round trips (through the f32 and through the f64 decoder) are the same computation:
  `prophotoFromLinearU16 (f64ToF32 table[c])` — with `prophotoFromLinearU16` and `Stim.f64ToF32` the model functions the driver executes.
-/
import PaletteModel.Lut
import PaletteThorough.Gen.ProphotoDec

namespace C05U16
open Lut

/-- `<ProPhotoRgb as FromLinear<f64, u16>>::from_linear` on an f64 bit pattern -/
def fromLinearU16_f64 (bits64 : Nat) : Nat :=
  prophotoFromLinearU16 (Stim.f64ToF32 (Float.ofBits (UInt64.ofNat bits64))).toBits.toNat

/-- one structural pass over a block of the decode table: entry `k` of the block re-encodes to `c + k` -/
def decEncOK : List Nat → Nat → Bool
  | [], _ => true
  | d :: r, c => (fromLinearU16_f64 d == c) && decEncOK r (c + 1)

theorem decEncOK_get : ∀ (l : List Nat) (c : Nat), decEncOK l c = true → ∀ k, k < l.length → fromLinearU16_f64 (l.getD k 0) = c + k
  | [], _, _, k, hk => by simp at hk
  | d :: r, c, h, k, hk => by
    simp only [decEncOK, Bool.and_eq_true, beq_iff_eq] at h
    cases k with
    | zero => simpa using h.1
    | succ j =>
      have := decEncOK_get r (c + 1) h.2 j (by simpa using hk)
      rw [List.getD_cons_succ, this]; omega

end C05U16
