import PaletteModel.Proto
import PaletteModel.StimulusDriver
import PaletteModel.LutDriver
import PaletteModel.TransferDriver
import PaletteModel.ClampDriver
import PaletteModel.ConvDriver
import PaletteModel.SoaDriver
import PaletteModel.RouteDriver
import PaletteModel.AdaptDriver
import PaletteModel.SerdeDriver
import PaletteModel.CastDriver
import PaletteModel.InPlaceDriver
import PaletteModel.InPlacePanicDriver
import PaletteModel.DiffDriver
import PaletteModel.BlendDriver
import PaletteModel.OpsDriver
import PaletteModel.SamplingDriver
import PaletteModel.HueDriver
import PaletteModel.Cam16Driver
import PaletteModel.C12Driver
import PaletteModel.SimdDriver
import PaletteModel.FiniteDriver

open Proto

def dispatch (op : String) (cfg inp outp : List String) : Verdict :=
  match op with
  | "stim" => Stim.handle cfg inp outp
  | "clamp" | "clamphwb" => Clamp.handle op cfg inp outp
  | "soa" => Soa.handle cfg inp outp
  | "soatypes" => Soa.handleTypes inp
  | "adapt" | "rgbwhite" => Adapt.handle op cfg inp outp
  | "routecmp" => Route.handle cfg inp outp
  | "conv" => Conv.handle cfg inp outp
  | "curve" => Transfer.handle cfg inp outp
  | "stdcurve" => Transfer.handleStd cfg inp outp
  | "lutenc" | "lutdec" | "lutenc16" | "lutdec16" => Lut.handle op cfg inp outp
  | "ser" | "shape" | "de" | "arr" | "arrde" | "uint" | "uintde" | "maxint" | "desc" | "ntypes" => Serde.handle op cfg inp outp
  | "cast" | "c04fields" | "c04layout" => Cast.handle op cfg inp outp
  | "hist" => InPlace.handle cfg inp outp
  | "gapi" => InPlace.handleApi cfg inp outp
  | "phist" => InPlace.handlePanic cfg inp outp
  | "pown" => InPlace.handleOwnedPanic cfg outp
  | "de00" | "dist" | "dist1" | "hyab" | "deltae" | "polar2rect" | "wcag" => Diff.handle op cfg inp outp
  | "blend" | "compose" | "blendwith" | "premul" | "unpremul" => Blend.handle op cfg inp outp
  | "smpstd" | "smpuni" | "smpmeta" => Sampling.handle op cfg inp outp
  | "hnorm" | "heq" | "hops" | "hrad" | "hcart" | "hcart2" | "hu8" | "hfu8" | "hfmt" | "hconst" => Hue.handle op cfg inp outp
  | "cam16fwd" | "cam16pfx" | "cam16inv" | "cam16ful" | "cam16fxz" | "ucs" => Cam16.handle op cfg inp outp
  | "hexparse" | "hexfmt" | "pack" | "unpack" | "lpack" | "lunpack" | "intoint" | "fromint"
  | "named" | "namedentry" | "namedcount" => C12Drv.handle op cfg inp outp
  | "simd" | "simdpack" | "vmask" => Simd.handle op cfg inp outp
  | "convfin" => Fin7.handle cfg inp outp
  | _ => if op.startsWith "c10." then OpsDrv.handle (String.ofList (op.toList.drop 4)) cfg inp outp else .bad s!"unknown op {op}"

structure DrvAcc where
  lines : Nat := 0
  agree : Nat := 0
  disagree : Nat := 0
  bad : Nat := 0
  shown : Nat := 0
  tags : List (String × Nat) := []

def bump (tags : List (String × Nat)) (t : String) : List (String × Nat) :=
  match tags with
  | [] => [(t, 1)]
  | (k, n) :: r => if k == t then (k, n + 1) :: r else (k, n) :: bump r t

partial def loop (h : IO.FS.Stream) (acc : DrvAcc) : IO DrvAcc := do
  let line ← h.getLine
  if line.isEmpty then return acc
  let line := (line.dropEndWhile (fun c => c == '\n' || c == '\r')).toString
  if line.isEmpty then loop h acc else
  let secs := sections line
  let (op, cfg, inp, outp) := match secs with
    | (op :: cfg) :: inp :: outp :: extra :: _ => (op, cfg, inp, outp ++ ["|"] ++ extra)
    | (op :: cfg) :: inp :: outp :: _ => (op, cfg, inp, outp)
    | (op :: cfg) :: inp :: [] => (op, cfg, inp, [])
    | (op :: cfg) :: [] => (op, cfg, [], [])
    | _ => ("", [], [], [])
  if op == "routes" then
    for l in Route.dumpRoutes do IO.println l
    return ← loop h acc
  let acc := { acc with lines := acc.lines + 1 }
  match dispatch op cfg inp outp with
  | .agree tags =>
    let tg := tags.foldl (fun t x => bump t (op ++ ":" ++ x)) acc.tags
    loop h { acc with agree := acc.agree + 1, tags := tg }
  | .disagree msg =>
    if acc.shown < 40 then IO.println s!"DISAGREE {acc.lines} :: {line} :: {msg}"
    loop h { acc with disagree := acc.disagree + 1, shown := acc.shown + 1 }
  | .bad msg =>
    if acc.shown < 40 then IO.println s!"BADLINE {acc.lines} :: {line} :: {msg}"
    loop h { acc with bad := acc.bad + 1, shown := acc.shown + 1 }

def main : IO Unit := do
  let acc ← loop (← IO.getStdin) {}
  let tg := ", ".intercalate (acc.tags.map fun (k, n) => s!"\"{k}\":{n}")
  IO.println s!"SUMMARY \{\"lines\":{acc.lines},\"agree\":{acc.agree},\"disagree\":{acc.disagree},\"bad\":{acc.bad},\"branches\":\{{tg}}}"
