/-
  C13 — explicit model functions for what `PaletteModel/InPlace.lean` does inline, so that the source-text tie
  (`Gen/BodiesGuard.lean` ↔ `PaletteProofs/Tie_Guard.lean`) has a named model function for every translated body.
  Nothing here changes `InPlace.lean`; `PaletteProofs/Tie_Guard.lean` proves each function equal to what `InPlace.step` /
  `InPlace.viewTy` / `InPlace.mapInPlace` use (`viewTy_cons_eq_derefGuard`, `step_fromColorMut_nested_eq`, `mapVec_vecOf`, `mapSliceBox_sliceOf`).
  No Mathlib here.
-/
import PaletteModel.InPlace
import PaletteModel.BodyPrimGuard

namespace InPlace

/-- `Deref::deref` of a guard: `if let Some(current) = self.current.as_ref() { current } else { unreachable!() }`
    (`none` = the `unreachable!()` arm).  This is `viewTy root (g :: _)`. -/
def derefGuard (g : Guard) : Option Ty := g.current

/-- `DerefMut::deref_mut` of a guard: the reference and the (unchanged) guard; `none` = the `unreachable!()` arm.  This is the
    `match g.current with | none => none | some cur => ..` of `step (.fromColorMut ..)` under a live guard. -/
def derefMutGuard (g : Guard) : Option (Ty × Guard) :=
  match g.current with
  | none => none
  | some cur => some (cur, g)

/-- the conversion entry point `X::from_color_mut(r)` (`cl = true`) / `X::from_color_unclamped_mut(r)` (`cl = false`) as the guard methods
    see it: the reference (= the static type of its referent), the target type, the memory -/
def fromColorMutAt (form : Form) (cl : Bool) : Ty → Ty → Buffer → Guard × Buffer :=
  fun src dst b => fromColorMut cl src dst form b

/-- the element conversion as the slice loop sees it -/
def fromColorMutElemAt (cl : Bool) : Ty → Ty → Term → Guard × Term :=
  fun src dst c => fromColorMutElem cl src dst c

/-- `cast::into_array_vec` / `from_array_vec`: `Vec::from_raw_parts(raw.cast(), values.len(), values.capacity())` - the same pointer, length,
    capacity and contents -/
def vecCast {κ : Type} (v : Prim.VecV κ) : Prim.VecV κ := v

/-- `cast::into_array_slice_mut` / `from_array_slice_mut` / `into_array_slice_box` / `from_array_slice_box`: the same pointer, length and contents -/
def sliceCast {κ : Type} (s : Prim.SliceV κ) : Prim.SliceV κ := s

/-- a `Vec` owner as `map_vec_in_place` receives it -/
def vecOf (b : Buffer) : Prim.VecV Term := { ptr := b.id, len := b.elems.length, cap := b.cap, elems := b.elems }

/-- a `Box<[T]>` owner as `map_slice_box_in_place` receives it -/
def sliceOf (b : Buffer) : Prim.SliceV Term := { ptr := b.id, len := b.elems.length, elems := b.elems }

/-- `cast::map_vec_in_place(values, map)` on the `Vec` itself: pointer, length and capacity kept, every slot read, mapped, written back in order -/
def mapVec (map : Term → Term) (v : Prim.VecV Term) : Prim.VecV Term := { v with elems := readMapWrite map v.elems }

/-- `cast::map_slice_box_in_place(values, map)` on the boxed slice itself -/
def mapSliceBox (map : Term → Term) (s : Prim.SliceV Term) : Prim.SliceV Term := { s with elems := readMapWrite map s.elems }

end InPlace
