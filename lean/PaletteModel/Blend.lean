/-
  Model of `palette/src/blend/blend.rs` (the eleven per-mode functions with their `lazy_select!` branches,
  `BlendInput`, `blend_separable`), `palette/src/blend.rs` (`blend_alpha`), `palette/src/macros/blend.rs`
  (`premultiply`, guarded `unpremultiply`), `palette/src/blend/compose.rs` (six Porter-Duff operators on `PreAlpha`
  and their opaque / `Alpha` wrappers), `palette/src/blend/blend_with.rs` (the three `blend_with` wrappers) and
  `palette/src/blend/equations.rs` (`Equations::apply_to`).

  Expression for expression, same association and branch order; generic over `class Scalar α`.
  A colour is the list of its components in `ArrayCast` order (the code itself works on the cast arrays).
  `T::one()` / `T::zero()` / `T::max_intensity()` are the literals `1.0` / `0.0` / `1.0`.
-/
import PaletteModel.Scalar

namespace Blend
open Scalar
variable {α : Type} [Scalar α]

/-! ### per-mode functions (`blend.rs:340-466`); argument order as in the code: `(src, dst)` -/

/-- `src * dst` -/
def multiplyBlend (src dst : α) : α := src * dst

/-- `src.clone() + &dst - src * dst` -/
def screenBlend (src dst : α) : α := src + dst - src * dst

/-- `two_src ≤ 1 ⇒ multiply_blend(two_src, dst)`, else `screen_blend(two_src - 1, dst)` -/
def hardLightBlend (src dst : α) : α :=
  let twoSrc := src + src
  if twoSrc ≤ 1.0 then multiplyBlend twoSrc dst else screenBlend (twoSrc - 1.0) dst

/-- `hard_light_blend(dst, src)` -/
def overlayBlend (src dst : α) : α := hardLightBlend dst src

/-- `src.min(dst)` -/
def darkenBlend (src dst : α) : α := Scalar.min src dst
/-- `src.max(dst)` -/
def lightenBlend (src dst : α) : α := Scalar.max src dst

/-- `if dst ≤ 0 ⇒ 0, if src ≥ 1 ⇒ 1, else ⇒ 1.min(dst / (1 - src))` -/
def dodgeBlend (src dst : α) : α :=
  if dst ≤ 0.0 then 0.0
  else if (1.0 : α) ≤ src then 1.0
  else Scalar.min 1.0 (dst / (1.0 - src))

/-- `if dst ≥ 1 ⇒ 1, if src ≤ 0 ⇒ 0, else ⇒ 1 - 1.min((1 - dst) / src)` -/
def burnBlend (src dst : α) : α :=
  if (1.0 : α) ≤ dst then 1.0
  else if src ≤ 0.0 then 0.0
  else 1.0 - Scalar.min 1.0 ((1.0 - dst) / src)

/-- the inner `lazy_select!` of `soft_light_blend`: `d_dst` -/
def softLightD (dst : α) : α :=
  let four : α := 4.0
  let twelve : α := 12.0
  let fourDst := dst * four
  if fourDst ≤ 1.0 then
    let sixteenDst := fourDst * four
    ((sixteenDst - twelve) * dst + four) * dst
  else Scalar.sqrt dst

def softLightBlend (src dst : α) : α :=
  let twoSrc := src + src
  let dDst := softLightD dst
  if twoSrc ≤ 1.0 then dst - (1.0 - twoSrc) * dst * (1.0 - dst)
  else dst + (twoSrc - 1.0) * (dDst - dst)

/-- `(dst - src).abs()` -/
def differenceBlend (src dst : α) : α := Scalar.abs (dst - src)

/-- `dst.clone() + &src - (dst.clone() + dst) * src` -/
def exclusionBlend (src dst : α) : α := dst + src - (dst + dst) * src

inductive Mode
  | multiply | screen | overlay | darken | lighten | dodge | burn | hardLight | softLight | difference | exclusion
deriving DecidableEq, Repr

def Mode.fn : Mode → α → α → α
  | .multiply => multiplyBlend | .screen => screenBlend | .overlay => overlayBlend | .darken => darkenBlend
  | .lighten => lightenBlend | .dodge => dodgeBlend | .burn => burnBlend | .hardLight => hardLightBlend
  | .softLight => softLightBlend | .difference => differenceBlend | .exclusion => exclusionBlend

def Mode.ofString? : String → Option Mode
  | "multiply" => some .multiply | "screen" => some .screen | "overlay" => some .overlay | "darken" => some .darken
  | "lighten" => some .lighten | "dodge" => some .dodge | "burn" => some .burn | "hard_light" => some .hardLight
  | "soft_light" => some .softLight | "difference" => some .difference | "exclusion" => some .exclusion | _ => none

/-! ### alpha algebra and (un)premultiplication -/

/-- `blend_alpha` (`blend.rs:102`): `clamp(src + dst - src * dst, 0, 1)` -/
def blendAlpha (src dst : α) : α := Scalar.clamp (src + dst - src * dst) 0.0 1.0

/-- a premultiplied or straight colour with its alpha: `PreAlpha<C>` / `Alpha<C, T>` -/
abbrev WithAlpha (α : Type) := List α × α

/-- `impl_premultiply!::premultiply`: `PreAlpha { color: self * alpha, alpha }` -/
def premultiply (c : List α) (a : α) : WithAlpha α := (c.map (fun x => x * a), a)

/-- one component of `impl_premultiply!::unpremultiply`: `if is_valid_divisor ⇒ c / alpha, else ⇒ 0` -/
def unpremulC (valid : Bool) (a x : α) : α := if valid then x / a else 0.0

/-- `impl_premultiply!::unpremultiply` -/
def unpremultiply (p : WithAlpha α) : WithAlpha α :=
  let valid := Scalar.isValidDivisor p.2
  (p.1.map (unpremulC valid p.2), p.2)

/-- `PreAlpha::new_opaque` -/
def newOpaque (c : List α) : WithAlpha α := (c, 1.0)

/-! ### `BlendInput` and `blend_separable` -/

structure BlendInput (α : Type) where
  color : List α
  colorPre : List α
  alpha : α

/-- `BlendInput::new_opaque` -/
def BlendInput.newOpaque (c : List α) : BlendInput α := ⟨c, c, 1.0⟩

/-- `From<Alpha<C, T>> for BlendInput<C>` -/
def BlendInput.ofAlpha (c : WithAlpha α) : BlendInput α :=
  let pre := premultiply c.1 c.2
  ⟨c.1, pre.1, pre.2⟩

/-- `From<PreAlpha<C>> for BlendInput<C>` -/
def BlendInput.ofPre (p : WithAlpha α) : BlendInput α :=
  let u := unpremultiply p
  ⟨u.1, p.1, u.2⟩

/-- the loop body of `blend_separable`:
    `src_pre * (1 - dst_alpha) + blend(src, dst) * src_alpha * dst_alpha + (1 - src_alpha) * dst_pre` -/
def blendComp (f : α → α → α) (srcA dstA src srcPre dst dstPre : α) : α :=
  srcPre * (1.0 - dstA) + f src dst * srcA * dstA + (1.0 - srcA) * dstPre

/-- the zipped iteration over the four cast arrays -/
def blendList (f : α → α → α) (srcA dstA : α) : List α → List α → List α → List α → List α
  | s :: ss, sp :: sps, d :: ds, dp :: dps => blendComp f srcA dstA s sp d dp :: blendList f srcA dstA ss sps ds dps
  | _, _, _, _ => []

/-- `blend_separable` -/
def blendSeparable (f : α → α → α) (src dst : BlendInput α) : WithAlpha α :=
  (blendList f src.alpha dst.alpha src.color src.colorPre dst.color dst.colorPre, blendAlpha src.alpha dst.alpha)

/-- `impl Blend for PreAlpha<C>` -/
def blendPre (f : α → α → α) (s d : WithAlpha α) : WithAlpha α :=
  blendSeparable f (BlendInput.ofPre s) (BlendInput.ofPre d)
/-- `impl Blend for C` -/
def blendOpaque (f : α → α → α) (s d : List α) : List α :=
  (unpremultiply (blendSeparable f (BlendInput.newOpaque s) (BlendInput.newOpaque d))).1
/-- `impl Blend for Alpha<C, T>` -/
def blendStraight (f : α → α → α) (s d : WithAlpha α) : WithAlpha α :=
  unpremultiply (blendSeparable f (BlendInput.ofAlpha s) (BlendInput.ofAlpha d))

/-! ### Porter-Duff operators (`compose.rs`) -/

inductive Op | over | inside | outside | atop | xor | plus
deriving DecidableEq, Repr

def Op.ofString? : String → Option Op
  | "over" => some .over | "inside" => some .inside | "outside" => some .outside | "atop" => some .atop
  | "xor" => some .xor | "plus" => some .plus | _ => none

/-- the loop bodies: new `*dst` from `src`, old `*dst`, `self.alpha`, `other.alpha` -/
def Op.comp : Op → (srcA dstA src dst : α) → α
  | .over, srcA, _, src, dst => src + (1.0 - srcA) * dst
  | .inside, _, dstA, src, _ => src * dstA
  | .outside, _, dstA, src, _ => src * (1.0 - dstA)
  | .atop, srcA, dstA, src, dst => src * dstA + (1.0 - srcA) * dst
  | .xor, srcA, dstA, src, dst => src * (1.0 - dstA) + (1.0 - srcA) * dst
  | .plus, _, _, src, dst => src + dst

/-- the alpha assignments -/
def Op.alpha : Op → (srcA dstA : α) → α
  | .over, s, d => blendAlpha s d
  | .inside, s, d => Scalar.clamp (s * d) 0.0 1.0
  | .outside, s, d => Scalar.clamp (s * (1.0 - d)) 0.0 1.0
  | .atop, _, d => Scalar.clamp d 0.0 1.0
  | .xor, s, d => Scalar.clamp (s * (1.0 - d) + (1.0 - s) * d) 0.0 1.0   -- after the C08 repair (was `s + d - (1 + 1) * s * d`)
  | .plus, s, d => Scalar.clamp (s + d) 0.0 1.0

def composeList (op : Op) (srcA dstA : α) : List α → List α → List α
  | s :: ss, d :: ds => op.comp srcA dstA s d :: composeList op srcA dstA ss ds
  | _, _ => []

/-- `impl Compose for PreAlpha<C>` -/
def composePre (op : Op) (s d : WithAlpha α) : WithAlpha α :=
  (composeList op s.2 d.2 s.1 d.1, op.alpha s.2 d.2)

/-- the shared shape of `impl Compose for Alpha<C, T>` and `impl BlendWith for Alpha<C, T>`:
    `self.premultiply().f(other.premultiply()).unpremultiply()` -/
def viaStraight (f : WithAlpha α → WithAlpha α → WithAlpha α) (s d : WithAlpha α) : WithAlpha α :=
  unpremultiply (f (premultiply s.1 s.2) (premultiply d.1 d.2))
/-- the shared shape of `impl Compose for C` and `impl BlendWith for C`:
    `PreAlpha::new_opaque(self).f(PreAlpha::new_opaque(other)).unpremultiply().color` -/
def viaOpaque (f : WithAlpha α → WithAlpha α → WithAlpha α) (s d : List α) : List α :=
  (unpremultiply (f (newOpaque s) (newOpaque d))).1

def composeStraight (op : Op) : WithAlpha α → WithAlpha α → WithAlpha α := viaStraight (composePre op)
def composeOpaque (op : Op) : List α → List α → List α := viaOpaque (composePre op)

/-! ### `Equations` (`equations.rs`) — the OpenGL-style blend function usable with `blend_with` -/

inductive Equation | add | subtract | reverseSubtract | min | max
deriving DecidableEq, Repr

inductive Parameter
  | one | zero | sourceColor | oneMinusSourceColor | destinationColor | oneMinusDestinationColor
  | sourceAlpha | oneMinusSourceAlpha | destinationAlpha | oneMinusDestinationAlpha
deriving DecidableEq, Repr

inductive ParamOut (α : Type) | color (c : WithAlpha α) | constant (c : α)

/-- `Parameter::apply_to` (the `OneMinus…Color` forms map `1 - a` over the whole `PreAlpha` array, alpha included) -/
def Parameter.applyTo : Parameter → (source destination : WithAlpha α) → ParamOut α
  | .one, _, _ => .constant 1.0
  | .zero, _, _ => .constant 0.0
  | .sourceColor, s, _ => .color s
  | .oneMinusSourceColor, s, _ => .color (s.1.map (fun a => (1.0 : α) - a), 1.0 - s.2)
  | .destinationColor, _, d => .color d
  | .oneMinusDestinationColor, _, d => .color (d.1.map (fun a => (1.0 : α) - a), 1.0 - d.2)
  | .sourceAlpha, s, _ => .constant s.2
  | .oneMinusSourceAlpha, s, _ => .constant (1.0 - s.2)
  | .destinationAlpha, _, d => .constant d.2
  | .oneMinusDestinationAlpha, _, d => .constant (1.0 - d.2)

/-- `ParamOut::mul_constant`: `c.alpha * other` / `c * other` -/
def ParamOut.mulConstant : ParamOut α → α → α
  | .color c, o => c.2 * o
  | .constant c, o => c * o

def mulLists : List α → List α → List α
  | x :: xs, y :: ys => x * y :: mulLists xs ys
  | _, _ => []

/-- `ParamOut::mul_color`: `other * c.color` / `other * c` -/
def ParamOut.mulColor : ParamOut α → List α → List α
  | .color c, o => mulLists o c.1
  | .constant c, o => o.map (fun x => x * c)

def Equation.isMinMax : Equation → Bool
  | .min | .max => true | _ => false

def Equation.op : Equation → α → α → α
  | .add, s, d => s + d
  | .subtract, s, d => s - d
  | .reverseSubtract, s, d => d - s
  | .min, s, d => Scalar.min s d
  | .max, s, d => Scalar.max s d

def zipOp (f : α → α → α) : List α → List α → List α
  | x :: xs, y :: ys => f x y :: zipOp f xs ys
  | _, _ => []

structure Equations where
  colorEquation : Equation
  alphaEquation : Equation
  colorSource : Parameter
  colorDestination : Parameter
  alphaSource : Parameter
  alphaDestination : Parameter

/-- `impl BlendFunction<C> for Equations::apply_to` -/
def Equations.applyTo (e : Equations) (source destination : WithAlpha α) : WithAlpha α :=
  let (srcColor, dstColor) :=
    if e.colorEquation.isMinMax then (source.1, destination.1)
    else ((e.colorSource.applyTo source destination).mulColor source.1,
          (e.colorDestination.applyTo source destination).mulColor destination.1)
  let (srcAlpha, dstAlpha) :=
    if e.alphaEquation.isMinMax then (source.2, destination.2)
    else ((e.alphaSource.applyTo source destination).mulConstant source.2,
          (e.alphaDestination.applyTo source destination).mulConstant destination.2)
  (zipOp e.colorEquation.op srcColor dstColor, e.alphaEquation.op srcAlpha dstAlpha)

end Blend
