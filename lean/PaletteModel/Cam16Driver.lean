/-
  Protocol lines of C16 (viewing conditions first, then the colour):

    cam16fwd <wp> <surround> <disc>        | P7 X Y Z        | J C h Q M s     Cam16::from_xyz
    cam16pfx <wp> <surround> <disc> <kind> | P7 X Y Z        | l c h           Cam16{kind}::from_xyz
    cam16inv <wp> <surround> <disc> <kind> | P7 l c h        | X Y Z           Cam16{kind}::into_xyz
    cam16ful <wp> <surround> <disc> <kind> | P7 l c h        | J C h Q M s     Cam16{kind}::into_full
    cam16fxz <wp> <surround> <disc>        | P7 J C h Q M s  | X Y Z           Cam16::into_xyz
    ucs <jmh2ucs|ucs2jmh|jmh2jab|jab2jmh>  | c0 c1 c2        | d0 d1 d2        FromColorUnclamped between Cam16Jmh / Cam16UcsJmh / Cam16UcsJab

  `<wp>` = `static:<Name>` (the model takes `Wp::get_xyz()` from `Gen/Matrices.lean`; the three values the harness printed
  through the public API are compared with it bit for bit — the cross-check of that extraction) or `dyn` (values used as given);
  `<surround>` = dark|dim|average|percent, `<disc>` = auto|custom, `<kind>` = Jch|Jmh|Jsh|Qch|Qmh|Qsh.
  `P7` = `wx wy wz L_A Y_b surround-percent discounting-degree` (the last two only read for `percent` / `custom`).
  Component type from the token prefix (`x…` f32, `X…` f64).

  Tolerance: 8 ulps of max(|impl|, |model|, scale) per component.  The model repeats the operation order and shares libm with
  Rust, so almost every line agrees bit for bit; the scale only matters for components obtained by cancellation, where one
  differing libm call upstream is amplified: scale 1 for XYZ (white = 1), 1 for the attributes (J, Q ~ 100), 360 for a hue in
  degrees.
-/
import PaletteModel.Proto
import PaletteModel.Color.Cam16

namespace Cam16
open Proto

/-- the component type as the driver sees it -/
class Fl (α : Type) extends Scalar α where
  parse : String → Option α
  close : α → α → α → Nat → Bool
  shw : α → String
  tag : String
  sameBits : α → α → Bool

instance : Fl Float32 where
  parse := f32?
  close := closeAbs32
  shw := showF32
  tag := "f32"
  sameBits := fun a b => a.toBits == b.toBits

instance : Fl Float where
  parse := f64?
  close := closeAbs64
  shw := showF64
  tag := "f64"
  sameBits := fun a b => a.toBits == b.toBits

variable {α : Type} [Fl α]

def closeList (m impl scale : List α) : Bool :=
  m.length == impl.length && m.length == scale.length &&
  (List.zip m (List.zip impl scale)).all fun (a, b, s) => Fl.close a b s 8

def showList (xs : List α) : String := " ".intercalate (xs.map Fl.shw)

def Full.toList (f : Full α) : List α := [f.lightness, f.chroma, f.hue, f.brightness, f.colorfulness, f.saturation]

def attrScale : List α := [1.0, 1.0, 360.0, 1.0, 1.0, 1.0]
def xyzScale : List α := [1.0, 1.0, 1.0]

/-- viewing conditions from the config tokens and the seven leading inputs -/
def params? (wp sur disc : String) (p7 : List α) : Except String (Parameters α) :=
  match p7 with
  | [wx, wy, wz, la, yb, sp, dv] => do
    let white ← match wp.splitOn ":" with
      | ["dyn"] => pure (⟨wx, wy, wz⟩ : V3 α)
      | ["static", name] =>
        match Gen.Mat.whitePoints.find? (·.1 == name) with
        | none => throw s!"unknown white point {name}"
        | some _ =>
          let w : V3 α := Color.whitePoint name
          -- the extraction of the white point table, checked against what `Wp::get_xyz()` returned to the harness
          if Fl.sameBits w.c0 wx && Fl.sameBits w.c1 wy && Fl.sameBits w.c2 wz then pure w
          else throw s!"white point {name}: extracted {showList [w.c0, w.c1, w.c2]} but the implementation reports {showList [wx, wy, wz]}"
      | _ => throw s!"bad white point token {wp}"
    let surround ← match sur with
      | "dark" => pure Surround.dark | "dim" => pure Surround.dim | "average" => pure Surround.average
      | "percent" => pure (Surround.percent sp) | _ => throw s!"bad surround {sur}"
    let discounting ← match disc with
      | "auto" => pure Discounting.auto | "custom" => pure (Discounting.custom dv) | _ => throw s!"bad discounting {disc}"
    pure { whitePoint := white, adaptingLuminance := la, backgroundLuminance := yb, surround := surround, discounting := discounting }
  | _ => throw "expected 7 viewing-condition values"

def verdict (tagName : String) (m impl scale : List α) : Verdict :=
  if closeList m impl scale then .agree [tagName ++ ":" ++ Fl.tag α] else .disagree s!"model={showList m}"

/-- is the luminance attribute of this kind zero (the black branch)? -/
def blackTag (v : α) : String := if Scalar.eqv v (0.0 : α) then "black" else "nonblack"

def handleT (α : Type) [Fl α] (op : String) (cfg inp outp : List String) : Verdict :=
  match inp.mapM (Fl.parse (α := α)), outp.mapM (Fl.parse (α := α)) with
  | some i, some o =>
    if op == "ucs" then
      match cfg, i with
      | [which], [a, b, c] =>
        let v : V3 α := ⟨a, b, c⟩
        match which with
        | "jmh2ucs" => verdict which (jmhToUcs v).toList o [1.0, 1.0, 360.0]
        | "ucs2jmh" => verdict which (ucsToJmh v).toList o [1.0, 1.0, 360.0]
        | "jmh2jab" => verdict which (ucsJmhToJab v).toList o [1.0, 1.0, 1.0]
        | "jab2jmh" => verdict which (ucsJabToJmh v).toList o [1.0, 1.0, 360.0]
        | _ => .bad s!"unknown ucs conversion {which}"
      | _, _ => .bad "malformed ucs line"
    else
      match cfg with
      | wp :: sur :: disc :: rest =>
        match params? wp sur disc (i.take 7) with
        | .error e => if e.startsWith "white point" then .disagree e else .bad e
        | .ok prm =>
          let dep := prepareParameters prm
          let cfgTag := sur ++ "-" ++ disc ++ "-" ++ (if wp == "dyn" then "dyn" else "static")
          match op, rest, i.drop 7 with
          | "cam16fwd", [], [x, y, z] =>
            match verdict "fwd" (xyzToCam16 ⟨x, y, z⟩ dep).toList o attrScale with
            | .agree t => .agree (t ++ ["cfg:" ++ cfgTag])
            | v => v
          | "cam16pfx", [k], [x, y, z] =>
            match PKind.ofString? k with
            | none => .bad s!"unknown partial type {k}"
            | some kind => verdict ("pfx-" ++ k) (kind.fromXyz ⟨x, y, z⟩ dep).toList o [1.0, 1.0, 360.0]
          | "cam16inv", [k], [l, c, h] =>
            match PKind.ofString? k with
            | none => .bad s!"unknown partial type {k}"
            | some kind =>
              match verdict ("inv-" ++ k) (kind.intoXyz ⟨l, c, h⟩ dep).toList o xyzScale with
              | .agree t => .agree (t ++ ["inv-" ++ blackTag l])
              | v => v
          | "cam16ful", [k], [l, c, h] =>
            match PKind.ofString? k with
            | none => .bad s!"unknown partial type {k}"
            | some kind =>
              match verdict ("ful-" ++ k) (kind.intoFull ⟨l, c, h⟩ dep).toList o attrScale with
              | .agree t => .agree (t ++ ["ful-" ++ blackTag l])
              | v => v
          | "cam16fxz", [], [j, c, h, q, m, s] =>
            verdict "fxz" (fullIntoXyz ⟨j, c, h, q, m, s⟩ dep).toList o xyzScale
          | _, _, _ => .bad s!"malformed {op} line"
      | _ => .bad s!"malformed {op} line"
  | _, _ => .bad "unparsable number"

def handle (op : String) (cfg inp outp : List String) : Verdict :=
  match inp.head? with
  | some t => if t.startsWith "x" then handleT Float32 op cfg inp outp else handleT Float op cfg inp outp
  | none => .bad "no inputs"

end Cam16
