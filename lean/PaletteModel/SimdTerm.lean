/-
  C17 — a syntax for "built from the operations of the component interface", with the operations as parameters.

  * `Op` names the primitive operations a mask-generic function body can use: the `VScalar` interface of `Simd.lean` (arithmetic,
    `num.rs` functions, comparisons → mask, `select`, mask `& | ^ !`, `from_bool`, literals / `from_f64`), `VFused`
    (`mul_add`, `mul_sub`) and `Angle` (π, `to_degrees`, `to_radians`, `hypot`).  The horizontal mask reductions `is_true` /
    `is_false` are deliberately *not* operations of the syntax: they are the one thing a SIMD value offers that is not lane-wise.
  * `Ops α μ` is an interpretation of all of them as plain functions (a record, not a class): the scalar type's own
    (`Ops.ofInst` at `Simd.ofScalar`), what one lane of a `wide` vector computes, a whole `wide` vector type, the reals …
  * `Tm` / `Mk` are value / mask terms over variables `Nat`; `Tm.eval O env` interprets a term under `O`.
  * `Tm` itself implements the interface (`VScalar Tm Mk`, `VFused Tm`, `Angle Tm`: every operation builds syntax), so a
    mask-generic body — which is polymorphic in the interface — *reifies itself* when it is instantiated at `Tm`:
    `f (α := Tm) (var 0) (var 1) …` is the syntax tree of `f`, and `Tm.eval O env` of that tree is `f` at `O` (checked per
    function by `rfl`, `PaletteProofs/C17_Edges.lean`).
  * `Tm.usesOnly P` decides that a term only uses operations from `P`.

  The theorems (a homomorphism between two interpretations that is only required on the operations a term uses commutes with
  evaluation — lane projection is one, "agrees on the exact operations" another) are in `PaletteProofs/C17_LaneWise.lean`.

  No Mathlib import (model file).
-/
import PaletteModel.SimdPrim

namespace Simd

/-- the primitive operations of the component interface -/
inductive Op
  | add | sub | mul | div | neg
  | abs | sqrt | cbrt | exp | ln | floor | ceil | round | sin | cos | radToDeg | degToRad
  | powf | atan2 | min | max | hypot
  | mulAdd | mulSub
  | pi | lit | const
  | lt | le | eq | ne | ge | gt | valid
  | select | mand | mor | mxor | mnot | fromBool
deriving DecidableEq, Repr

/-- an interpretation of the interface: every operation as a function on components `α` and masks `μ` -/
structure Ops (α μ : Type) where
  add : α → α → α
  sub : α → α → α
  mul : α → α → α
  div : α → α → α
  neg : α → α
  abs : α → α
  sqrt : α → α
  cbrt : α → α
  exp : α → α
  ln : α → α
  floor : α → α
  ceil : α → α
  round : α → α
  sin : α → α
  cos : α → α
  radToDeg : α → α
  degToRad : α → α
  powf : α → α → α
  atan2 : α → α → α
  min : α → α → α
  max : α → α → α
  hypot : α → α → α
  mulAdd : α → α → α → α
  mulSub : α → α → α → α
  pi : α
  lit : Nat → Bool → Nat → α
  const : K → α
  lt : α → α → μ
  le : α → α → μ
  eq : α → α → μ
  ne : α → α → μ
  ge : α → α → μ
  gt : α → α → μ
  valid : α → μ
  select : μ → α → α → α
  mand : μ → μ → μ
  mor : μ → μ → μ
  mxor : μ → μ → μ
  mnot : μ → μ
  fromBool : Bool → μ
  /-- `BoolMask::is_true` / `is_false`: part of the Rust interface, not of the term syntax (horizontal) -/
  isTrue : μ → Bool
  isFalse : μ → Bool

/-- the interpretation given by instances of the three classes the mask-generic bodies are written against -/
def Ops.ofInst (α : Type) {μ : Type} [VScalar α μ] [VFused α] [Angle α] : Ops α μ where
  add := (· + ·)
  sub := (· - ·)
  mul := (· * ·)
  div := (· / ·)
  neg := fun a => -a
  abs := VScalar.abs
  sqrt := VScalar.sqrt
  cbrt := VScalar.cbrt
  exp := VScalar.exp
  ln := VScalar.ln
  floor := VScalar.floor
  ceil := VScalar.ceil
  round := VScalar.round
  sin := VScalar.sin
  cos := VScalar.cos
  radToDeg := Angle.radToDeg
  degToRad := Angle.degToRad
  powf := VScalar.powf
  atan2 := VScalar.atan2
  min := VScalar.min
  max := VScalar.max
  hypot := Angle.hypot
  mulAdd := VFused.mulAdd
  mulSub := VFused.mulSub
  pi := Angle.pi
  lit := fun m s e => OfScientific.ofScientific m s e
  const := VScalar.const
  lt := VScalar.lt
  le := VScalar.le
  eq := VScalar.eq
  ne := VScalar.ne
  ge := VScalar.ge
  gt := VScalar.gt
  valid := VScalar.isValidDivisor
  select := VScalar.select
  mand := Mask.and
  mor := Mask.or
  mxor := Mask.xor
  mnot := Mask.not
  fromBool := Mask.fromBool
  isTrue := Mask.isTrue
  isFalse := Mask.isFalse

/-! ### … and back: an interpretation as instances (so that a body can be run on an *arbitrary* interpretation) -/
section toInst
variable {α μ : Type}

@[reducible] def Ops.vscalar (O : Ops α μ) : VScalar α μ where
  add := O.add
  sub := O.sub
  mul := O.mul
  div := O.div
  neg := O.neg
  ofScientific := O.lit
  and := O.mand
  or := O.mor
  xor := O.mxor
  not := O.mnot
  fromBool := O.fromBool
  isTrue := O.isTrue
  isFalse := O.isFalse
  const := O.const
  abs := O.abs
  sqrt := O.sqrt
  cbrt := O.cbrt
  exp := O.exp
  ln := O.ln
  floor := O.floor
  ceil := O.ceil
  round := O.round
  sin := O.sin
  cos := O.cos
  powf := O.powf
  atan2 := O.atan2
  min := O.min
  max := O.max
  lt := O.lt
  le := O.le
  eq := O.eq
  ne := O.ne
  ge := O.ge
  gt := O.gt
  isValidDivisor := O.valid
  select := O.select

@[reducible] def Ops.vfused (O : Ops α μ) : VFused α := ⟨O.mulAdd, O.mulSub⟩
@[reducible] def Ops.angle (O : Ops α μ) : Angle α := ⟨O.pi, O.radToDeg, O.degToRad, O.hypot⟩
end toInst

/-- every operation lane by lane (`num/wide.rs`, `bool_mask/wide.rs`, `angle/wide.rs`; `is_true` = all lanes, `is_false` = no lane) -/
def Ops.lanes {α μ : Type} (n : Nat) (V : Ops α μ) : Ops (Lanes n α) (Lanes n μ) where
  add a b := fun i => V.add (a i) (b i)
  sub a b := fun i => V.sub (a i) (b i)
  mul a b := fun i => V.mul (a i) (b i)
  div a b := fun i => V.div (a i) (b i)
  neg a := fun i => V.neg (a i)
  abs a := fun i => V.abs (a i)
  sqrt a := fun i => V.sqrt (a i)
  cbrt a := fun i => V.cbrt (a i)
  exp a := fun i => V.exp (a i)
  ln a := fun i => V.ln (a i)
  floor a := fun i => V.floor (a i)
  ceil a := fun i => V.ceil (a i)
  round a := fun i => V.round (a i)
  sin a := fun i => V.sin (a i)
  cos a := fun i => V.cos (a i)
  radToDeg a := fun i => V.radToDeg (a i)
  degToRad a := fun i => V.degToRad (a i)
  powf a b := fun i => V.powf (a i) (b i)
  atan2 a b := fun i => V.atan2 (a i) (b i)
  min a b := fun i => V.min (a i) (b i)
  max a b := fun i => V.max (a i) (b i)
  hypot a b := fun i => V.hypot (a i) (b i)
  mulAdd x m a := fun i => V.mulAdd (x i) (m i) (a i)
  mulSub x m s := fun i => V.mulSub (x i) (m i) (s i)
  pi := fun _ => V.pi
  lit m s e := fun _ => V.lit m s e
  const k := fun _ => V.const k
  lt a b := fun i => V.lt (a i) (b i)
  le a b := fun i => V.le (a i) (b i)
  eq a b := fun i => V.eq (a i) (b i)
  ne a b := fun i => V.ne (a i) (b i)
  ge a b := fun i => V.ge (a i) (b i)
  gt a b := fun i => V.gt (a i) (b i)
  valid a := fun i => V.valid (a i)
  select m a b := fun i => V.select (m i) (a i) (b i)
  mand p q := fun i => V.mand (p i) (q i)
  mor p q := fun i => V.mor (p i) (q i)
  mxor p q := fun i => V.mxor (p i) (q i)
  mnot p := fun i => V.mnot (p i)
  fromBool b := fun _ => V.fromBool b
  isTrue m := (List.finRange n).all fun i => V.isTrue (m i)
  isFalse m := (List.finRange n).all fun i => V.isFalse (m i)

/-! ## terms -/

inductive U1 | neg | abs | sqrt | cbrt | exp | ln | floor | ceil | round | sin | cos | radToDeg | degToRad
deriving DecidableEq, Repr
inductive B2 | add | sub | mul | div | powf | atan2 | min | max | hypot
deriving DecidableEq, Repr
inductive T3 | mulAdd | mulSub
deriving DecidableEq, Repr

def U1.op : U1 → Op
  | .neg => .neg | .abs => .abs | .sqrt => .sqrt | .cbrt => .cbrt | .exp => .exp | .ln => .ln | .floor => .floor | .ceil => .ceil
  | .round => .round | .sin => .sin | .cos => .cos | .radToDeg => .radToDeg | .degToRad => .degToRad
def B2.op : B2 → Op
  | .add => .add | .sub => .sub | .mul => .mul | .div => .div | .powf => .powf | .atan2 => .atan2 | .min => .min | .max => .max
  | .hypot => .hypot
def T3.op : T3 → Op
  | .mulAdd => .mulAdd | .mulSub => .mulSub
def Cmp.op : Cmp → Op
  | .lt => .lt | .le => .le | .eq => .eq | .ne => .ne | .ge => .ge | .gt => .gt

mutual
/-- value terms -/
inductive Tm where
  | var (i : Nat)
  | lit (m : Nat) (s : Bool) (e : Nat)
  | const (k : K)
  | pi
  | un (o : U1) (a : Tm)
  | bin (o : B2) (a b : Tm)
  | tri (o : T3) (a b c : Tm)
  | select (c : Mk) (a b : Tm)
/-- mask terms -/
inductive Mk where
  | cmp (o : Cmp) (a b : Tm)
  | valid (a : Tm)
  | and (p q : Mk)
  | or (p q : Mk)
  | xor (p q : Mk)
  | not (p : Mk)
  | fromBool (b : Bool)
end

/-- the free interpretation: every operation builds syntax.  (`is_true`/`is_false` have no term; a body that used them would not
    be reified faithfully — the per-function `rfl` checks of `C17_Edges` would fail — and the translator refuses them anyway.) -/
instance instVScalarTm : VScalar Tm Mk where
  add := Tm.bin .add
  sub := Tm.bin .sub
  mul := Tm.bin .mul
  div := Tm.bin .div
  neg := Tm.un .neg
  ofScientific := Tm.lit
  and := Mk.and
  or := Mk.or
  xor := Mk.xor
  not := Mk.not
  fromBool := Mk.fromBool
  isTrue := fun _ => false
  isFalse := fun _ => false
  const := Tm.const
  abs := Tm.un .abs
  sqrt := Tm.un .sqrt
  cbrt := Tm.un .cbrt
  exp := Tm.un .exp
  ln := Tm.un .ln
  floor := Tm.un .floor
  ceil := Tm.un .ceil
  round := Tm.un .round
  sin := Tm.un .sin
  cos := Tm.un .cos
  powf := Tm.bin .powf
  atan2 := Tm.bin .atan2
  min := Tm.bin .min
  max := Tm.bin .max
  lt := Mk.cmp .lt
  le := Mk.cmp .le
  eq := Mk.cmp .eq
  ne := Mk.cmp .ne
  ge := Mk.cmp .ge
  gt := Mk.cmp .gt
  isValidDivisor := Mk.valid
  select := Tm.select

instance instVFusedTm : VFused Tm := ⟨Tm.tri .mulAdd, Tm.tri .mulSub⟩
instance instAngleTm : Angle Tm := ⟨Tm.pi, Tm.un .radToDeg, Tm.un .degToRad, Tm.bin .hypot⟩

section eval
variable {α μ : Type}

def U1.eval (O : Ops α μ) : U1 → α → α
  | .neg => O.neg | .abs => O.abs | .sqrt => O.sqrt | .cbrt => O.cbrt | .exp => O.exp | .ln => O.ln | .floor => O.floor
  | .ceil => O.ceil | .round => O.round | .sin => O.sin | .cos => O.cos | .radToDeg => O.radToDeg | .degToRad => O.degToRad
def B2.eval (O : Ops α μ) : B2 → α → α → α
  | .add => O.add | .sub => O.sub | .mul => O.mul | .div => O.div | .powf => O.powf | .atan2 => O.atan2 | .min => O.min
  | .max => O.max | .hypot => O.hypot
def T3.eval (O : Ops α μ) : T3 → α → α → α → α
  | .mulAdd => O.mulAdd | .mulSub => O.mulSub
def Cmp.evalO (O : Ops α μ) : Cmp → α → α → μ
  | .lt => O.lt | .le => O.le | .eq => O.eq | .ne => O.ne | .ge => O.ge | .gt => O.gt

mutual
def Tm.eval (O : Ops α μ) (env : Nat → α) : Tm → α
  | .var i => env i
  | .lit m s e => O.lit m s e
  | .const k => O.const k
  | .pi => O.pi
  | .un o a => o.eval O (a.eval O env)
  | .bin o a b => o.eval O (a.eval O env) (b.eval O env)
  | .tri o a b c => o.eval O (a.eval O env) (b.eval O env) (c.eval O env)
  | .select c a b => O.select (c.eval O env) (a.eval O env) (b.eval O env)
def Mk.eval (O : Ops α μ) (env : Nat → α) : Mk → μ
  | .cmp o a b => o.evalO O (a.eval O env) (b.eval O env)
  | .valid a => O.valid (a.eval O env)
  | .and p q => O.mand (p.eval O env) (q.eval O env)
  | .or p q => O.mor (p.eval O env) (q.eval O env)
  | .xor p q => O.mxor (p.eval O env) (q.eval O env)
  | .not p => O.mnot (p.eval O env)
  | .fromBool b => O.fromBool b
end
end eval

mutual
/-- the term uses operations from `P` only -/
def Tm.usesOnly (P : Op → Bool) : Tm → Bool
  | .var _ => true
  | .lit _ _ _ => P .lit
  | .const _ => P .const
  | .pi => P .pi
  | .un o a => P o.op && a.usesOnly P
  | .bin o a b => P o.op && a.usesOnly P && b.usesOnly P
  | .tri o a b c => P o.op && a.usesOnly P && b.usesOnly P && c.usesOnly P
  | .select c a b => P .select && c.usesOnly P && a.usesOnly P && b.usesOnly P
def Mk.usesOnly (P : Op → Bool) : Mk → Bool
  | .cmp o a b => P o.op && a.usesOnly P && b.usesOnly P
  | .valid a => P .valid && a.usesOnly P
  | .and p q => P .mand && p.usesOnly P && q.usesOnly P
  | .or p q => P .mor && p.usesOnly P && q.usesOnly P
  | .xor p q => P .mxor && p.usesOnly P && q.usesOnly P
  | .not p => P .mnot && p.usesOnly P
  | .fromBool _ => P .fromBool
end

/-! ### environments: the arguments of a body as a list of components -/

/-- variable `k` is the `k`-th component of the argument list -/
def envL {α : Type} (l : List α) (d : α) : Nat → α := fun k => l.getD k d

/-- three consecutive variables as a colour -/
def vars3 (off : Nat) : V3 Tm := ⟨.var off, .var (off + 1), .var (off + 2)⟩
/-- nine consecutive variables as a matrix -/
def vars9 (off : Nat) : M3 Tm :=
  ⟨.var off, .var (off + 1), .var (off + 2), .var (off + 3), .var (off + 4), .var (off + 5), .var (off + 6), .var (off + 7), .var (off + 8)⟩

def v3UsesOnly (P : Op → Bool) (t : V3 Tm) : Bool := t.c0.usesOnly P && t.c1.usesOnly P && t.c2.usesOnly P
def v3Eval {α μ : Type} (O : Ops α μ) (env : Nat → α) (t : V3 Tm) : V3 α := ⟨t.c0.eval O env, t.c1.eval O env, t.c2.eval O env⟩

/-! ### named sets of operations -/

/-- the operations for which one lane of a `wide` vector computes the *same function* as the scalar type — trusted of the `wide`
    crate (`+ − × ÷ abs sqrt min max`, the six `cmp_*`, `blend`, the mask bit operations are single IEEE / bitwise instructions)
    or read off palette's own source (`cbrt`, `floor`, `ceil` loop over the lanes with the scalar function; `from_f64` / literals are
    `splat`; `is_valid_divisor` is the lane-wise `is_normal` after the repair).
    NOT in the set: `neg` (`wide`: `0 − x`), `powf sin cos atan2 exp ln` (polynomial approximations), `round` (ties to even instead
    of away from zero), `mul_add`/`mul_sub` (fused or not depending on the target features, independently of the scalar type),
    `to_degrees`/`to_radians` (factor computed in the lane type), `hypot` (`sqrt(a² + b²)`), π (equal, but only used with the former). -/
def exactOps : Op → Bool
  | .add | .sub | .mul | .div | .abs | .sqrt | .cbrt | .floor | .ceil | .min | .max | .lit | .const
  | .lt | .le | .eq | .ne | .ge | .gt | .valid | .select | .mand | .mor | .mxor | .mnot | .fromBool => true
  | _ => false

/-- `exactOps` and `neg` -/
def exactNegOps : Op → Bool
  | .neg => true
  | o => exactOps o

/-- everything -/
def allOps : Op → Bool := fun _ => true

end Simd

namespace Simd

mutual
/-- every operation occurrence of a term, in order -/
def Tm.opsUsed : Tm → List Op
  | .var _ => []
  | .lit _ _ _ => [.lit]
  | .const _ => [.const]
  | .pi => [.pi]
  | .un o a => o.op :: a.opsUsed
  | .bin o a b => o.op :: (a.opsUsed ++ b.opsUsed)
  | .tri o a b c => o.op :: (a.opsUsed ++ b.opsUsed ++ c.opsUsed)
  | .select c a b => .select :: (c.opsUsed ++ a.opsUsed ++ b.opsUsed)
def Mk.opsUsed : Mk → List Op
  | .cmp o a b => o.op :: (a.opsUsed ++ b.opsUsed)
  | .valid a => .valid :: a.opsUsed
  | .and p q => .mand :: (p.opsUsed ++ q.opsUsed)
  | .or p q => .mor :: (p.opsUsed ++ q.opsUsed)
  | .xor p q => .mxor :: (p.opsUsed ++ q.opsUsed)
  | .not p => .mnot :: p.opsUsed
  | .fromBool _ => [.fromBool]
end

/-- insert without duplicates, keeping first occurrences in order -/
def insertOp (o : Op) (l : List Op) : List Op := if l.contains o then l else l ++ [o]

/-- the operations of a list of terms that are *not* in `exactOps` (each once, in order of first use): what the lanes of the
    result depend on beyond the IEEE-exact operations -/
def nonExact (ts : List Tm) : List Op :=
  (ts.flatMap Tm.opsUsed).foldl (fun acc o => if exactOps o then acc else insertOp o acc) []

/-- `exactOps` plus the listed operations -/
def exactPlus (l : List Op) : Op → Bool := fun o => exactOps o || l.contains o

def v3Terms (t : V3 Tm) : List Tm := [t.c0, t.c1, t.c2]

end Simd
