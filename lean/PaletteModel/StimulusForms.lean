/-
  Explicit model functions for the number-format conversion of *whole colours* (C06): `Rgb::into_format`, `Luma::into_format`,
  their `Alpha` forms and the blanket `FromStimulus`.  DESIGN.md §3 C06 describes `into_format` as "the component-wise map";
  here that map is a definition, so `PaletteProofs/Tie_Format.lean` can prove the translated Rust bodies equal to it and
  instantiate the per-component conversion with the arms of `stimulus.rs` (`Stim.f32ToUint 8`, …, tied in `Tie_Stimulus.lean`).

  A colour is the list of its components in struct order (as in `Ops.lean` / `Clamp.lean`).  No Mathlib.
-/
namespace Stim

/-- blanket `impl<T, U: IntoStimulus<T>> FromStimulus<U> for T`: `other.into_stimulus()` -/
def fromStimulus {σ τ : Type} (intoStimulus : σ → τ) (other : σ) : τ := intoStimulus other

/-- `Rgb<S, T>::into_format::<U>()`, `Luma<S, T>::into_format::<U>()`: `U::from_stimulus` on every component, in struct order -/
def intoFormat {σ τ : Type} (conv : σ → τ) (c : List σ) : List τ := c.map conv

/-- `Alpha<Rgb<S, T>, A>::into_format::<U, B>()`: the colour by its own `into_format`, the alpha by `B::from_stimulus` -/
def intoFormatAlpha {γ γ' σ τ : Type} (colorFmt : γ → γ') (convA : σ → τ) (c : γ × σ) : γ' × τ := (colorFmt c.1, convA c.2)

end Stim
