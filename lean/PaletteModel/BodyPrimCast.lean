/-
  Hand-written prelude of the family `cast` of the translator (`tools/rust2lean_cast.py`: `Gen/BodiesCast.lean`, tied in
  `PaletteProofs/Tie_Cast.lean`).

  The functions of `palette/src/cast/array.rs`, `cast/uint.rs` and the cast traits do two things: *unsafe pointer work* (re-typing an
  address) and *arithmetic and control flow around it* (layout asserts, `len * N`, `len / N`, `len % N != 0`, capacity tests, which error
  is built from which buffer, in which order).  The translator re-reads the second part from the source text on every run; the first part
  is given the reading below: a pointer is an address plus the components stored there, a slice is a pointer plus a length, a vector is
  the model's `Cast.Buf` (address, length, capacity, memory), and every std function that only re-types or moves a pointer is the
  identity on those raw parts.  Each definition quotes what the Rust reference / std documentation says the construct does.

  Everything is a plain structural definition (`rfl` / `simp only` / `cases` see through it).  No Mathlib import (the driver links `PaletteModel`).
-/
import PaletteModel.Cast

namespace CPrim

/-! ## control flow: a computation that may panic -/

/-- the value of a Rust expression that may panic (`assert!`, `assert_eq!`, `Result::unwrap`) -/
inductive Res (β : Type) where
  | val (v : β)
  | panic
deriving DecidableEq, Repr

/-- `let x = e; rest` where `e` may panic: a panic propagates (unwinding leaves the function), otherwise `rest` sees the value -/
def Res.bind {β γ : Type} (r : Res β) (f : β → Res γ) : Res γ :=
  match r with
  | .val v => f v
  | .panic => .panic

/-- `assert!(c); rest` - std: "panics if the provided expression cannot be evaluated to true at runtime" -/
def assert {β : Type} (c : Prop) [Decidable c] (rest : Res β) : Res β := if c then rest else .panic

/-- `assert_eq!(a, b, ..); rest` - std: "panics if the two expressions are not equal to each other (using PartialEq)"; `usize`: `=` on `Nat` -/
def assertEq {β : Type} (a b : Nat) (rest : Res β) : Res β := if a = b then rest else .panic

/-- `Result::unwrap` - std: "returns the contained Ok value ... panics if the value is an Err" -/
def unwrap {ε β : Type} : Except ε β → Res β
  | .ok v => .val v
  | .error _ => .panic

/-! ## the types whose size and alignment the asserts compare -/

/-- a type expression inside `core::mem::size_of::<..>()` / `align_of::<..>()`.  The functions are generic, so the two layout functions
    `sizeOf alignOf : Ty → Nat` are parameters of every translated body (the asserts compare their values, the ties hold for all of them). -/
inductive Ty where
  | var (i : Nat)              -- the `i`-th type parameter of the function (`T`; `A`, `B` of `map_*_in_place`)
  | array (t : Ty)             -- `<t as ArrayCast>::Array`
  | uint (t : Ty)              -- `<t as UintCast>::Uint`
  | item (t : Ty)              -- `<<t as ArrayCast>::Array as ArrayExt>::Item`
  | arr (t : Ty) (k : Nat)     -- `[t; k]`
deriving DecidableEq, Repr

/-- instantiate the callee's first type parameter with the caller's type `a` (`into_array::<B>(..)` inside `map_vec_in_place<A, B, F>`) -/
def Ty.inst : Ty → Ty → Ty
  | .var 0, a => a
  | .var (i + 1), _ => .var (i + 1)
  | .array t, a => .array (t.inst a)
  | .uint t, a => .uint (t.inst a)
  | .item t, a => .item (t.inst a)
  | .arr t k, a => .arr (t.inst a) k

/-! ## raw parts -/

/-- `*const E`, `*mut E`, `&E`, `&mut E`, `Box<E>`: an address, and what the model keeps beside it - the components stored there.
    (Reference: a reference / `Box` to a sized type is a thin pointer.) -/
structure Ptr (α : Type) where
  id : Nat
  mem : List α
deriving DecidableEq, Repr

/-- `&[E]`, `&mut [E]`, `*mut [E]`, `Box<[E]>`: reference: "a slice is a pointer and a length" (counted in elements of `E`) -/
structure Slice (α : Type) where
  id : Nat
  len : Nat
  mem : List α
deriving DecidableEq, Repr

/-- `ptr.cast::<U>()` - std: "casts to a pointer of another type": same address -/
def Ptr.cast {α : Type} (p : Ptr α) : Ptr α := p

/-- `slice.as_ptr()` / `as_mut_ptr()` - std: "returns a raw pointer to the slice's buffer" -/
def Slice.asPtr {α : Type} (s : Slice α) : Ptr α := { id := s.id, mem := s.mem }
def Slice.asMutPtr {α : Type} (s : Slice α) : Ptr α := { id := s.id, mem := s.mem }

/-- `core::slice::from_raw_parts(data, len)` / `from_raw_parts_mut` - std: "forms a slice from a pointer and a length. The len
    argument is the number of elements, not the number of bytes": a view of the same address with `len` elements -/
def sliceFromRawParts {α : Type} (data : Ptr α) (len : Nat) : Slice α := { id := data.id, len := len, mem := data.mem }
def sliceFromRawPartsMut {α : Type} (data : Ptr α) (len : Nat) : Slice α := { id := data.id, len := len, mem := data.mem }

/-- `Vec::from_raw_parts(ptr, length, capacity)` - std: "creates a Vec<T> directly from a pointer, a length, and a capacity":
    the model's buffer constructor -/
def vecFromRawParts {α : Type} (ptr : Ptr α) (length capacity : Nat) : Cast.Buf α :=
  { id := ptr.id, len := length, cap := capacity, mem := ptr.mem }

/-- `&*p`, `&mut *p` on a raw pointer, `let p: *const T = reference;`: the reference and the raw pointer are the same address -/
def reborrow {τ : Type} (p : τ) : τ := p

/-- `ManuallyDrop::new(x)` - std: "wrap a value to be manually dropped"; `repr(transparent)`, derefs to `x`: no effect on the raw parts -/
def manuallyDropNew {τ : Type} (x : τ) : τ := x
/-- `ManuallyDrop::into_inner(x)` - std: "extracts the value from the ManuallyDrop container" -/
def manuallyDropIntoInner {τ : Type} (x : τ) : τ := x

/-- `Box::leak(b)` - std: "consumes and leaks the Box, returning a mutable reference": same pointer (and length, for `Box<[E]>`) -/
def boxLeak {τ : Type} (b : τ) : τ := b
/-- `Box::into_raw(b)` - std: "consumes the Box, returning a wrapped raw pointer" -/
def boxIntoRaw {τ : Type} (b : τ) : τ := b
/-- `Box::from_raw(raw)` - std: "constructs a box from a raw pointer": same pointer (and length) -/
def boxFromRaw {τ : Type} (raw : τ) : τ := raw

/-- `transmute_copy::<Src, Dst>(&src)` between two types of the same size (asserted just before) - std: "interprets src as having type
    &Dst, and then reads src": the same bits -/
def transmuteCopy {τ : Type} (src : τ) : τ := src

/-- `transmute_copy` whose destination type is the fixed-size array `[_; k]` (the function's declared return type): the same bits, seen as
    `k` elements; a by-value array has no capacity beyond its length -/
def transmuteArray {α : Type} (k : Nat) (src : Cast.Buf α) : Cast.Buf α := { id := src.id, len := k, cap := k, mem := src.mem }

/-- `<[E]>::as_ref()` / `as_mut()` / deref of a slice: itself -/
def Slice.asRefSlice {α : Type} (s : Slice α) : Slice α := s

/-! ## the error types of `cast/array.rs` (field lists and variants re-read from the source and compared on every run) -/

/-- `pub struct SliceCastError;` -/
structure SliceCastError where
deriving DecidableEq, Repr

/-- `pub struct BoxedSliceCastError<T> { pub values: Box<[T]> }` -/
structure BoxedSliceCastError (α : Type) where
  values : Slice α
deriving DecidableEq, Repr

/-- `pub enum VecCastErrorKind { LengthMismatch, CapacityMismatch }` -/
inductive VecCastErrorKind where
  | lengthMismatch
  | capacityMismatch
deriving DecidableEq, Repr

/-- `pub struct VecCastError<T> { pub kind: VecCastErrorKind, pub values: Vec<T> }` -/
structure VecCastError (α : Type) where
  kind : VecCastErrorKind
  values : Cast.Buf α
deriving DecidableEq, Repr

end CPrim

namespace Cast

/-- `vec.as_mut_ptr()` / `as_ptr()` - std: "returns a raw pointer to the vector's buffer" -/
def Buf.asMutPtr {α : Type} (b : Buf α) : CPrim.Ptr α := { id := b.id, mem := b.mem }
def Buf.asPtr {α : Type} (b : Buf α) : CPrim.Ptr α := { id := b.id, mem := b.mem }

/-- `vec.as_ref()` / `as_mut()` / deref coercion `&Vec<E> → &[E]`, `&[E; K] → &[E]`: std: "extracts a slice containing the entire
    vector": the `len` initialised elements at the same address (the capacity is not part of a slice) -/
def Buf.asRefSlice {α : Type} (b : Buf α) : CPrim.Slice α := { id := b.id, len := b.len, mem := b.mem }

end Cast
