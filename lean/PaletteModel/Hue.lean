/-
  Model of `palette/src/angle.rs` (`impl_angle_float!`, `impl_from_angle_u8!`, same bodies in `angle/wide.rs`) and of the
  hue newtypes of `palette/src/hues.rs` (`make_hues!`: `RgbHue`, `LabHue`, `LuvHue`, `OklabHue`, `Cam16Hue` are one macro
  body, a transparent wrapper around the stored angle — so a hue *is* its stored angle here).

  Written once against `Scalar α` (+ the three constants and two casts of `AngleConsts`), expression for expression after
  the Rust; executed at `Float`/`Float32` by the driver and read at `ℝ` by `PaletteProofs/C11_Hue.lean`.

  `Hue.Bits` repeats the normal forms and the `u8` conversions on `Float32`/`Float` with `floor/ceil/round` written out
  on bit patterns (Lean's `Float32.floor/round` are opaque to the kernel, `+ - * / < toUIntN` are not), so that finite
  domains can be decided by kernel evaluation; the driver runs both transcriptions against the implementation.
-/
import PaletteModel.Scalar
import PaletteModel.Stimulus

namespace Hue

/-- What a float type contributes beyond `Scalar`: the factor of `to_radians` (`consts::PI / 180.0`, evaluated in the
    type), the factor of `to_degrees` (`f64`: `180.0 / consts::PI`; `f32`: the literal `57.2957795130823208767981548141051703_f32`),
    `T::from_f64(core::f64::consts::PI)`, and the casts `u8 as T` / `T as u8` (saturating, NaN ↦ 0). -/
class AngleConsts (α : Type) where
  pi : α
  radsPerDeg : α
  degsPerRad : α
  ofU8 : Nat → α
  toU8 : α → Nat

instance : AngleConsts Float where
  pi := Float.ofBits 0x400921FB54442D18
  radsPerDeg := Float.ofBits 0x400921FB54442D18 / 180.0
  degsPerRad := 180.0 / Float.ofBits 0x400921FB54442D18
  ofU8 := fun n => (UInt8.ofNat n).toFloat
  toU8 := fun x => x.toUInt8.toNat

instance : AngleConsts Float32 where
  pi := Float32.ofBits 0x40490fdb
  radsPerDeg := Float32.ofBits 0x40490fdb / Float32.ofBits 0x43340000
  degsPerRad := Float32.ofBits 0x42652ee1
  ofU8 := fun n => (UInt8.ofNat n).toFloat32
  toU8 := fun x => x.toUInt8.toNat

variable {α : Type} [Scalar α] [AngleConsts α]

/-! ### `angle.rs` -/

/-- `HalfRotation::half_rotation`, `FullRotation::full_rotation` for `f32/f64`; `u8::half_rotation() = 128` -/
def halfRotation : α := 180.0
def fullRotation : α := 360.0
def halfRotationU8 : Nat := 128

/-- `SignedAngle::normalize_signed_angle`: `self - Round::ceil(((self + 180.0) / 360.0) - 1.0) * 360.0` -/
def normalizeSigned (x : α) : α := x - Scalar.ceil (((x + 180.0) / 360.0) - 1.0) * 360.0

/-- `UnsignedAngle::normalize_unsigned_angle`: `self - (Round::floor(self / 360.0) * 360.0)` -/
def normalizeUnsigned (x : α) : α := x - (Scalar.floor (x / 360.0) * 360.0)

/-- `AngleEq::angle_eq`: `self.normalize_unsigned_angle() == other.normalize_unsigned_angle()` -/
def angleEq (a b : α) : Prop := Scalar.eqv (normalizeUnsigned a) (normalizeUnsigned b)
instance (a b : α) : Decidable (angleEq a b) := by unfold angleEq; exact inferInstance

/-- `RealAngle::degrees_to_radians` = `self.to_radians()` = `self * (PI / 180)` -/
def degreesToRadians (x : α) : α := x * AngleConsts.radsPerDeg
/-- `RealAngle::radians_to_degrees` = `self.to_degrees()` = `self * (180 / PI)` -/
def radiansToDegrees (x : α) : α := x * AngleConsts.degsPerRad

/-- `FromAngle<u8> for f32/f64`: `(angle as T / 256.0) * T::full_rotation()` -/
def u8ToFloat (n : Nat) : α := ((AngleConsts.ofU8 n : α) / 256.0) * 360.0

/-- `FromAngle<f32/f64> for u8` -/
def floatToU8 (x : α) : Nat :=
  let normalized := normalizeUnsigned x / 360.0
  let rounded := Scalar.round (normalized * 256.0)
  if 255.5 < rounded then 0 else AngleConsts.toU8 rounded

/-! ### `hues.rs` (`$name<T>(T)`: the argument is the stored angle `self.0`) -/

def fromDegrees (d : α) : α := d                                           -- alias of `new`
def fromRadians (r : α) : α := radiansToDegrees r
def intoRawDegrees (h : α) : α := h
def intoRawRadians (h : α) : α := degreesToRadians h
def intoDegrees (h : α) : α := normalizeSigned h                           -- also `From<$name<T>> for T`
def intoRadians (h : α) : α := degreesToRadians (normalizeSigned h)
def intoPositiveDegrees (h : α) : α := normalizeUnsigned h
def intoPositiveRadians (h : α) : α := degreesToRadians (normalizeUnsigned h)

/-- `from_cartesian(a, b)`: `from_radians(T::from_f64(PI) + T::atan2(-b, -a))` -/
def fromCartesian (a b : α) : α := fromRadians (AngleConsts.pi + Scalar.atan2 (-b) (-a))

/-- `into_cartesian`: `let (b, a) = self.into_raw_radians().sin_cos(); (a, b)` -/
def intoCartesian (h : α) : α × α :=
  let r := intoRawRadians h
  (Scalar.cos r, Scalar.sin r)

/-- `PartialEq for $name<T>` and `PartialEq<T> for $name<T>` -/
def hueEq (a b : α) : Prop := angleEq a b
instance (a b : α) : Decidable (hueEq a b) := by unfold hueEq; exact inferInstance

/-- `Add`/`Sub` in all their forms (`hue ∘ hue`, `hue ∘ T`, `T ∘ hue`, and the assigning ones) act on the stored angle -/
def add (a b : α) : α := a + b
def sub (a b : α) : α := a - b

/-! ### kernel-transparent transcription on IEEE bit patterns -/
namespace Bits

/-- `f32::floor`.  Truncation through `toUInt32` is exact below 2^23; from there on every float is an integer. -/
def floor32 (x : Float32) : Float32 :=
  if x.isNaN then x else
  if Float32.ofBits 0x4b000000 ≤ Float32.abs x then x else
  if Float32.ofBits 0 < x then x.toUInt32.toFloat32 else
  if x < Float32.ofBits 0 then
    let a := -x
    let t := a.toUInt32.toFloat32
    if t < a then -(t + Float32.ofBits 0x3f800000) else x
  else x                                                    -- ±0 keeps its sign
/-- `f32::ceil` -/
def ceil32 (x : Float32) : Float32 := -(floor32 (-x))

def floor64 (x : Float) : Float :=
  if x.isNaN then x else
  if Float.ofBits 0x4330000000000000 ≤ Float.abs x then x else
  if Float.ofBits 0 < x then x.toUInt64.toFloat else
  if x < Float.ofBits 0 then
    let a := -x
    let t := a.toUInt64.toFloat
    if t < a then -(t + Float.ofBits 0x3ff0000000000000) else x
  else x
def ceil64 (x : Float) : Float := -(floor64 (-x))

def c360f : Float32 := Float32.ofBits 0x43b40000
def c180f : Float32 := Float32.ofBits 0x43340000
def c256f : Float32 := Float32.ofBits 0x43800000
def c360d : Float := Float.ofBits 0x4076800000000000
def c180d : Float := Float.ofBits 0x4066800000000000
def c256d : Float := Float.ofBits 0x4070000000000000

def normS32 (x : Float32) : Float32 := x - ceil32 (((x + c180f) / c360f) - Float32.ofBits 0x3f800000) * c360f
def normU32 (x : Float32) : Float32 := x - (floor32 (x / c360f) * c360f)
def normS64 (x : Float) : Float := x - ceil64 (((x + c180d) / c360d) - Float.ofBits 0x3ff0000000000000) * c360d
def normU64 (x : Float) : Float := x - (floor64 (x / c360d) * c360d)

/-- IEEE `==` through the order (as `Scalar.eqv`) -/
def angleEq32 (a b : Float32) : Bool := decide (normU32 a ≤ normU32 b) && decide (normU32 b ≤ normU32 a)
def angleEq64 (a b : Float) : Bool := decide (normU64 a ≤ normU64 b) && decide (normU64 b ≤ normU64 a)

def u8ToF32 (n : Nat) : Float32 := ((UInt8.ofNat n).toFloat32 / c256f) * c360f
def u8ToF64 (n : Nat) : Float := ((UInt8.ofNat n).toFloat / c256d) * c360d

def f32ToU8 (x : Float32) : Nat :=
  let normalized := normU32 x / c360f
  let rounded := Stim.round32 (normalized * c256f)
  if Float32.ofBits 0x437f8000 < rounded then 0 else rounded.toUInt8.toNat       -- 255.5
def f64ToU8 (x : Float) : Nat :=
  let normalized := normU64 x / c360d
  let rounded := Stim.round64 (normalized * c256d)
  if Float.ofBits 0x406ff00000000000 < rounded then 0 else rounded.toUInt8.toNat

end Bits
end Hue
