/-
  Model of colour <-> packed integer: `palette/src/cast/packed.rs` (`ComponentOrder<C, u16/u32> for T` through
  `from_be_bytes`/`to_be_bytes`), `rgb/channels.rs`, `luma/channels.rs` (the per-order permutations, taken from
  `Gen/Channels.lean`), `Rgb/Rgba::{into_u32, from_u32}`, `Luma/Lumaa::{into_u16, from_u16}` and the `From` impls
  between `u32`/`u16` and the colours.

  A colour is its component list `[red, green, blue, alpha]` / `[luma, alpha]`, components as `Nat` (< 256).
-/
import PaletteModel.Gen.Channels

namespace Packed

/-- a channel order: `pack[i]` = which component goes to slot `i`; `unpack[k]` = which slot component `k` comes from -/
structure Order where
  name : List Nat
  pack : List Nat
  unpack : List Nat
  deriving DecidableEq, Repr

def zip3 : List (List Nat) → List (List Nat) → List (List Nat) → List Order
  | n :: ns, p :: ps, u :: us => ⟨n, p, u⟩ :: zip3 ns ps us
  | _, _, _ => []

/-- the four RGBA orders of `rgb/channels.rs` -/
def rgbaOrders : List Order := zip3 Gen.Channels.rgbaOrderNames Gen.Channels.rgbaPack Gen.Channels.rgbaUnpack
/-- the two luma orders of `luma/channels.rs` -/
def lumaOrders : List Order := zip3 Gen.Channels.lumaOrderNames Gen.Channels.lumaPack Gen.Channels.lumaUnpack

def findOrder (os : List Order) (name : List Nat) : Option Order := os.find? (fun o => o.name == name)

/-- `[xs[p0], xs[p1], …]` -/
def permute (p : List Nat) (xs : List Nat) : List Nat := p.map fun i => xs.getD i 0

/-- `O::pack(color) -> [T; N]` -/
def packArr (o : Order) (c : List Nat) : List Nat := permute o.pack c
/-- `O::unpack([T; N]) -> color` -/
def unpackArr (o : Order) (p : List Nat) : List Nat := permute o.unpack p

/-- `uN::from_be_bytes` -/
def fromBeBytes : List Nat → Nat
  | [] => 0
  | b :: bs => b * 256 ^ bs.length + fromBeBytes bs

/-- `x.to_be_bytes()` for an `n`-byte integer -/
def toBeBytes : Nat → Nat → List Nat
  | 0, _ => []
  | n + 1, x => (x / 256 ^ n % 256) :: toBeBytes n x

/-- `<O as ComponentOrder<Rgba<S, u8>, u32>>::pack` (and `Packed::<O, u32>::pack(c).color`) -/
def packU32 (o : Order) (c : List Nat) : Nat := fromBeBytes (packArr o c)
/-- `<O as ComponentOrder<Rgba<S, u8>, u32>>::unpack` -/
def unpackU32 (o : Order) (x : Nat) : List Nat := unpackArr o (toBeBytes 4 x)
/-- the same for `Lumaa<S, u8>` and `u16` -/
def packU16 (o : Order) (c : List Nat) : Nat := fromBeBytes (packArr o c)
def unpackU16 (o : Order) (x : Nat) : List Nat := unpackArr o (toBeBytes 2 x)

/-- `Rgba::from(rgb)` / `Lumaa::from(luma)`: alpha = `max_intensity()` = 255 for `u8` -/
def withAlpha (c : List Nat) : List Nat := c ++ [255]

/-- `Rgb::into_u32::<O>` -/
def rgbIntoU32 (o : Order) (c : List Nat) : Nat := packU32 o (withAlpha c)
/-- `Rgb::from_u32::<O>`: `O::unpack(color).color` -/
def rgbFromU32 (o : Order) (x : Nat) : List Nat := (unpackU32 o x).take 3
def lumaIntoU16 (o : Order) (c : List Nat) : Nat := packU16 o (withAlpha c)
def lumaFromU16 (o : Order) (x : Nat) : List Nat := (unpackU16 o x).take 1

/-- the orders the plain `From` impls name -/
def defaultOrder (os : List Order) (name : List Nat) : Order := (findOrder os name).getD ⟨[], [], []⟩

end Packed
