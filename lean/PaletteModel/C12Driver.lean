import PaletteModel.Proto
import PaletteModel.Hex
import PaletteModel.Packed
import PaletteModel.Named

/-!
  Protocol lines of C12 (byte strings as hex, `-` for the empty string):

  * `hexparse <rgb|rgba> <u8|u16|u32|f32|f64> | <bytes> | ok c… | err:<kind> | panic`
  * `hexfmt <rgb|rgba> <u8|u16|u32> <x|X> <width|-> | c… | <bytes>`
  * `pack <Order> | r g b a | x`, `unpack <Order> | x | r g b a`, `lpack <Order> | l a | x`, `lunpack <Order> | x | l a`
  * `intoint <rgb|rgba|luma|lumaa> <Order|default> | c… | x`, `fromint <…> <Order|default> | x | c…`
  * `named | <bytes> | some r g b | none`, `namedentry | <bytes> | r g b`, `namedcount | | n`
-/
namespace C12Drv
open Proto

def bytes? (tok : String) : Option (List UInt8) :=
  if tok == "-" then some [] else
  let rec go : List Char → Option (List UInt8)
    | [] => some []
    | [_] => none
    | a :: b :: r =>
      match hexDigit? a, hexDigit? b, go r with
      | some x, some y, some t => some (UInt8.ofNat (x * 16 + y) :: t)
      | _, _, _ => none
  go tok.toList

def showBytes (bs : List UInt8) : String :=
  if bs.isEmpty then "-" else String.join (bs.map fun b => hexOfNat b.toNat 2)

def nats? (toks : List String) : Option (List Nat) := toks.mapM String.toNat?

def ascii (s : String) : List Nat := s.toList.map Char.toNat

def showErr : Hex.Err → String
  | .parseInt .empty => "err:int:empty"
  | .parseInt .invalidDigit => "err:int:invalid"
  | .parseInt .posOverflow => "err:int:overflow"
  | .hexFormat => "err:hexformat"
  | .rgbaHexFormat => "err:rgbahexformat"

def showOutcome (f : α → String) : Hex.Outcome (List α) → List String
  | .ok cs => "ok" :: cs.map f
  | .err e => [showErr e]
  | .panic => ["panic"]

def parseModel (alpha : Bool) (ty : String) (s : List UInt8) : Option (List String) :=
  let nat := fun (n : Nat) => toString n
  match alpha, ty with
  | false, "u8" => some (showOutcome nat (Hex.fromStrRgbU8 s))
  | true, "u8" => some (showOutcome nat (Hex.fromStrRgbaU8 s))
  | false, "u16" => some (showOutcome nat (Hex.fromStrRgbU16 s))
  | true, "u16" => some (showOutcome nat (Hex.fromStrRgbaU16 s))
  | false, "u32" => some (showOutcome nat (Hex.fromStrRgbU32 s))
  | true, "u32" => some (showOutcome nat (Hex.fromStrRgbaU32 s))
  | false, "f32" => some (showOutcome showF32 (Hex.fromStrRgbF32 Stim.uintToF32 s))
  | true, "f32" => some (showOutcome showF32 (Hex.fromStrRgbaF32 Stim.uintToF32 s))
  | false, "f64" => some (showOutcome showF64 (Hex.fromStrRgbF64 Stim.uintToF64 s))
  | true, "f64" => some (showOutcome showF64 (Hex.fromStrRgbaF64 Stim.uintToF64 s))
  | _, _ => none

def alpha? : String → Option Bool
  | "rgb" => some false | "rgba" => some true | _ => none

def sizeOf? : String → Option Nat
  | "u8" => some 1 | "u16" => some 2 | "u32" => some 4 | _ => none

def cmp (model impl : List String) (tags : List String) : Verdict :=
  if model == impl then .agree tags else .disagree s!"model={" ".intercalate model}"

def handleHexParse (cfg inp outp : List String) : Verdict :=
  match cfg, inp with
  | [k, ty], [b] =>
    match alpha? k, bytes? b with
    | some a, some s =>
      match parseModel a ty s with
      | some m =>
        let tag := match m with
          | "ok" :: _ => s!"ok:{(Hex.stripHash s).length}"
          | t :: _ => t
          | [] => "?"
        cmp m outp [tag]
      | none => .bad "unknown component type"
    | _, _ => .bad "unparsable hexparse line"
  | _, _ => .bad "malformed hexparse line"

def handleHexFmt (cfg inp outp : List String) : Verdict :=
  match cfg, outp with
  | [k, ty, xX, w], [o] =>
    match alpha? k, sizeOf? ty, nats? inp, (if w == "-" then some none else w.toNat?.map some) with
    | some a, some sz, some c, some width =>
      let upper := xX == "X"
      let m := if a then Hex.fmtRgba upper width sz c else Hex.fmtRgb upper width sz c
      cmp [showBytes m] [o] [if width.isSome then "width" else "default"]
    | _, _, _, _ => .bad "unparsable hexfmt line"
  | _, _ => .bad "malformed hexfmt line"

def orderOf (os : List Packed.Order) (dflt : List Nat) (name : String) : Option Packed.Order :=
  if name == "default" then Packed.findOrder os dflt else Packed.findOrder os (ascii name)

def showNats (xs : List Nat) : List String := xs.map toString

def handlePacked (op : String) (cfg inp outp : List String) : Verdict :=
  match op, cfg with
  | "pack", [o] =>
    match Packed.findOrder Packed.rgbaOrders (ascii o), nats? inp with
    | some ord, some c => cmp [toString (Packed.packU32 ord c)] outp [o]
    | _, _ => .bad "unknown order or unparsable pack line"
  | "unpack", [o] =>
    match Packed.findOrder Packed.rgbaOrders (ascii o), nats? inp with
    | some ord, some [x] => cmp (showNats (Packed.unpackU32 ord x)) outp [o]
    | _, _ => .bad "unknown order or unparsable unpack line"
  | "lpack", [o] =>
    match Packed.findOrder Packed.lumaOrders (ascii o), nats? inp with
    | some ord, some c => cmp [toString (Packed.packU16 ord c)] outp [o]
    | _, _ => .bad "unknown order or unparsable lpack line"
  | "lunpack", [o] =>
    match Packed.findOrder Packed.lumaOrders (ascii o), nats? inp with
    | some ord, some [x] => cmp (showNats (Packed.unpackU16 ord x)) outp [o]
    | _, _ => .bad "unknown order or unparsable lunpack line"
  | "intoint", [k, o] =>
    match k, nats? inp with
    | "rgb", some c => match orderOf Packed.rgbaOrders Gen.Channels.intoU32Rgb o with
      | some ord => cmp [toString (Packed.rgbIntoU32 ord c)] outp [k ++ ":" ++ o] | none => .bad "unknown order"
    | "rgba", some c => match orderOf Packed.rgbaOrders Gen.Channels.intoU32Rgba o with
      | some ord => cmp [toString (Packed.packU32 ord c)] outp [k ++ ":" ++ o] | none => .bad "unknown order"
    | "luma", some c => match orderOf Packed.lumaOrders Gen.Channels.intoU16Luma o with
      | some ord => cmp [toString (Packed.lumaIntoU16 ord c)] outp [k ++ ":" ++ o] | none => .bad "unknown order"
    | "lumaa", some c => match orderOf Packed.lumaOrders Gen.Channels.intoU16Lumaa o with
      | some ord => cmp [toString (Packed.packU16 ord c)] outp [k ++ ":" ++ o] | none => .bad "unknown order"
    | _, _ => .bad "unparsable intoint line"
  | "fromint", [k, o] =>
    match k, nats? inp with
    | "rgb", some [x] => match orderOf Packed.rgbaOrders Gen.Channels.fromU32Rgb o with
      | some ord => cmp (showNats (Packed.rgbFromU32 ord x)) outp [k ++ ":" ++ o] | none => .bad "unknown order"
    | "rgba", some [x] => match orderOf Packed.rgbaOrders Gen.Channels.fromU32Rgba o with
      | some ord => cmp (showNats (Packed.unpackU32 ord x)) outp [k ++ ":" ++ o] | none => .bad "unknown order"
    | "luma", some [x] => match orderOf Packed.lumaOrders Gen.Channels.fromU16Luma o with
      | some ord => cmp (showNats (Packed.lumaFromU16 ord x)) outp [k ++ ":" ++ o] | none => .bad "unknown order"
    | "lumaa", some [x] => match orderOf Packed.lumaOrders Gen.Channels.fromU16Lumaa o with
      | some ord => cmp (showNats (Packed.unpackU16 ord x)) outp [k ++ ":" ++ o] | none => .bad "unknown order"
    | _, _ => .bad "unparsable fromint line"
  | _, _ => .bad "malformed packed line"

/-- is `(key, colour)` an entry of the (resolved) phf entry list? -/
def isEntry (k c : List Nat) : List (List Nat) → List (List Nat) → Bool
  | key :: ks, v :: vs => (key == k && v == c) || isEntry k c ks vs
  | _, _ => false

def handleNamed (op : String) (inp outp : List String) : Verdict :=
  match op, inp with
  | "named", [b] =>
    match bytes? b with
    | some s =>
      match Named.fromStr s with
      | some c => cmp ("some" :: showNats c) outp ["hit"]
      | none => cmp ["none"] outp ["miss"]
    | none => .bad "unparsable named line"
  | "namedentry", [b] =>
    match bytes? b, nats? outp with
    | some s, some c =>
      if isEntry (s.map UInt8.toNat) c Gen.Named.phfKeys Named.phfColors then .agree ["entry"]
      else .disagree "entries() yields a pair that is not in the extracted table"
    | _, _ => .bad "unparsable namedentry line"
  | "namedcount", [] =>
    cmp [toString Gen.Named.phfKeys.length] outp ["count"]
  | _, _ => .bad "malformed named line"

def handle (op : String) (cfg inp outp : List String) : Verdict :=
  match op with
  | "hexparse" => handleHexParse cfg inp outp
  | "hexfmt" => handleHexFmt cfg inp outp
  | "named" | "namedentry" | "namedcount" => handleNamed op inp outp
  | _ => handlePacked op cfg inp outp

end C12Drv
