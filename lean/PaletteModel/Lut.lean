/-
  Model of `palette/src/encoding/lut.rs` on raw bit patterns (`Nat`), tables from `Gen/Lut.lean`.
-/
import PaletteModel.Gen.Lut
import PaletteModel.Stimulus   -- f64ToF32 (the `linear as f32` in front of the LUT)

namespace Lut

/-- the clamping in front of the unchecked read, on f32 bit patterns:
    `if input.partial_cmp(&min_float) != Some(Greater) { min_float } else if input > max_float { max_float }`
    (`min_float > 0`): sign bit set (negatives, −0, negative NaN), NaN, or `≤ min` ↦ `min`; above `max` (and +∞) ↦ `max`. -/
def clampBits (minBits maxBits bits : Nat) : Nat :=
  if bits ≥ 0x80000000 then minBits
  else if bits > 0x7f800000 then minBits
  else if bits ≤ minBits then minBits
  else if bits > maxBits then maxBits
  else bits

/-- `unsafe_linear_float_to_encoded_uint!` body after clamping; `bw` = bit width, `miw` = mantissa index width.
    Returns `(index, raw result before `as`)`.  Arithmetic is in `Nat`; `noOverflow` theorems show it never
    reaches the width of the `$lut` integer type. -/
def cellIndex (minBits miw b : Nat) : Nat := (b - minBits) >>> (23 - miw)
def cellT (bw miw b : Nat) : Nat := (b >>> (23 - miw - bw)) &&& (2^bw - 1)
def cellRes (bw entry t : Nat) : Nat :=
  let bias := (entry >>> (2 * bw)) <<< (bw + 1)
  let scale := entry &&& (2^(2 * bw) - 1)
  (bias + scale * t) >>> (2 * bw)

def encodeClamped (table : List Nat) (minBits bw miw b : Nat) : Nat :=
  cellRes bw (table.getD (cellIndex minBits miw b) 0) (cellT bw miw b)

/-- `linear_f32_to_encoded_u8` on an arbitrary f32 bit pattern -/
def encU8 (table : List Nat) (minBits bits : Nat) : Nat :=
  encodeClamped table minBits 8 3 (clampBits minBits Gen.Lut.maxFloatBits bits) % 256

/-- `linear_f32_to_encoded_u16_with_linear_scale` on an arbitrary f32 bit pattern -/
def encU16 (table : List Nat) (scaleBits minBits bits : Nat) : Nat :=
  -- `partial_cmp(&0.0) != Some(Greater)` ↦ 0.0 ; `> max_float` ↦ max_float
  let b := if bits ≥ 0x80000000 then 0 else if bits > 0x7f800000 then 0 else if bits == 0 then 0
           else if bits > Gen.Lut.maxFloatBits then Gen.Lut.maxFloatBits else bits
  if b < minBits then
    -- `((linear_scale * input + 8388608.0).to_bits() & 65535) as u16`
    let x := Float32.ofBits (UInt32.ofNat scaleBits) * Float32.ofBits (UInt32.ofNat b) + Float32.ofBits 0x4b000000
    x.toBits.toNat % 65536
  else
    encodeClamped table minBits 16 7 b % 65536

inductive Enc | srgb | recOetf | adobeRgb | p3Gamma
deriving DecidableEq, Repr

def Enc.table : Enc → List Nat
  | .srgb => Gen.Lut.srgbEnc | .recOetf => Gen.Lut.recOetfEnc | .adobeRgb => Gen.Lut.adobeRgbEnc | .p3Gamma => Gen.Lut.p3GammaEnc
def Enc.minFloat : Enc → Nat
  | .srgb => Gen.Lut.srgbMinFloat | .recOetf => Gen.Lut.recOetfMinFloat | .adobeRgb => Gen.Lut.adobeRgbMinFloat | .p3Gamma => Gen.Lut.p3GammaMinFloat
def Enc.dec32 : Enc → List Nat
  | .srgb => Gen.Lut.srgbDec32 | .recOetf => Gen.Lut.recOetfDec32 | .adobeRgb => Gen.Lut.adobeRgbDec32 | .p3Gamma => Gen.Lut.p3GammaDec32
def Enc.dec64 : Enc → List Nat
  | .srgb => Gen.Lut.srgbDec64 | .recOetf => Gen.Lut.recOetfDec64 | .adobeRgb => Gen.Lut.adobeRgbDec64 | .p3Gamma => Gen.Lut.p3GammaDec64
def Enc.all : List Enc := [.srgb, .recOetf, .adobeRgb, .p3Gamma]

def Enc.ofString? : String → Option Enc
  | "srgb" => some .srgb | "rec" => some .recOetf | "adobe" => some .adobeRgb | "p3" => some .p3Gamma | _ => none

/-- `FromLinear<f32, u8>::from_linear` -/
def fromLinearU8 (e : Enc) (bits : Nat) : Nat := encU8 e.table e.minFloat bits
/-- `FromLinear<f64, u8>::from_linear` = the f32 path after `linear as f32` -/
def fromLinearU8_f64 (e : Enc) (bits64 : Nat) : Nat :=
  fromLinearU8 e (Stim.f64ToF32 (Float.ofBits (UInt64.ofNat bits64))).toBits.toNat
/-- `IntoLinear<f32, u8>` / `IntoLinear<f64, u8>`: table reads -/
def intoLinear32 (e : Enc) (code : Nat) : Nat := e.dec32.getD code 0
def intoLinear64 (e : Enc) (code : Nat) : Nat := e.dec64.getD code 0

def prophotoFromLinearU16 (bits : Nat) : Nat :=
  encU16 Gen.Lut.prophotoEnc Gen.Lut.prophotoLinearScaleBits Gen.Lut.prophotoMinFloat bits

end Lut
