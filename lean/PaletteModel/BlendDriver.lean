import PaletteModel.Proto
import PaletteModel.Blend

namespace Blend
open Proto

/-- what the driver needs from a component type besides `Scalar` -/
class Wire (α : Type) where
  parse? : String → Option α
  str : α → String
  ulps : α → α → Nat
  close : α → α → α → Nat → Bool
  isNaN : α → Bool

instance : Wire Float32 := ⟨f32?, showF32, ulps32, closeAbs32, Float32.isNaN⟩
instance : Wire Float := ⟨f64?, showF64, ulps64, closeAbs64, Float.isNaN⟩

variable {α : Type} [Scalar α] [Wire α]

/-- Comparison of one output number.  The model mirrors the operation order, so bit-equality is what is observed
    (tag `exact`); the accepted distance is 8 ulps of the value itself, or 8 ulps of `scale` (the result alpha for a
    premultiplied component — all three summands of `blend_separable` are non-negative on the property's domain, so there
    is no cancellation below that scale; 1 for straight components). -/
def near (m o scale : α) : Bool :=
  Wire.ulps m o ≤ 8 || Wire.close m o scale 8

def nearAll (scale : α) : List α → List α → Bool
  | m :: ms, o :: os => near m o scale && nearAll scale ms os
  | [], [] => true
  | _, _ => false

def sameAll : List α → List α → Bool
  | m :: ms, o :: os => (Wire.ulps m o == 0) && sameAll ms os
  | [], [] => true
  | _, _ => false

def showAll (xs : List α) : String := " ".intercalate (xs.map Wire.str)

/-- parse `n c1..cn a  c1..cn a` -/
def parseTwo (inp : List String) : Option (WithAlpha α × WithAlpha α) :=
  match inp with
  | nTok :: rest =>
    match nTok.toNat? with
    | none => none
    | some n =>
      match rest.mapM (Wire.parse? (α := α)) with
      | none => none
      | some xs =>
        if xs.length != 2 * n + 2 then none else
        let s := xs.take n; let sa := xs.getD n (0.0 : α)
        let d := (xs.drop (n + 1)).take n; let da := xs.getD (2 * n + 1) (0.0 : α)
        some ((s, sa), (d, da))
  | _ => none

/-- branch tags of the per-mode function on one component pair (straight colours as `blend_separable` sees them) -/
def modeTag (m : Mode) (src dst : α) : String :=
  match m with
  | .hardLight => if src + src ≤ 1.0 then "2s≤1" else "2s>1"
  | .overlay => if dst + dst ≤ 1.0 then "2d≤1" else "2d>1"
  | .dodge => if dst ≤ 0.0 then "d≤0" else if (1.0 : α) ≤ src then "s≥1" else
      if (1.0 : α) ≤ dst / (1.0 - src) then "min=1" else "quot"
  | .burn => if (1.0 : α) ≤ dst then "d≥1" else if src ≤ 0.0 then "s≤0" else
      if (1.0 : α) ≤ (1.0 - dst) / src then "min=1" else "quot"
  | .softLight => (if src + src ≤ 1.0 then "2s≤1" else "2s>1") ++ (if dst * 4.0 ≤ 1.0 then ",4d≤1" else ",4d>1")
  | .darken | .lighten => if src ≤ dst then "s≤d" else "s>d"
  | .difference => if src ≤ dst then "s≤d" else "s>d"
  | _ => "-"

def alphaTag (a : α) : String :=
  if a ≤ 0.0 then "a=0" else if (1.0 : α) ≤ a then "a=1" else if Scalar.isValidDivisor a then "0<a<1" else "a-subnormal"

def finishCmp (form : String) (m : WithAlpha α) (outp : List String) (tags : List String) : Verdict :=
  match outp.mapM (Wire.parse? (α := α)) with
  | none => .bad "unparsable outputs"
  | some o =>
    -- opaque forms return the colour only
    let mAll := if form == "opaque" then m.1 else m.1 ++ [m.2]
    if mAll.length != o.length then .bad s!"expected {mAll.length} outputs, got {o.length}" else
    let scale : α := if form == "pre" then Scalar.max m.2 (0.0 : α) else 1.0
    if sameAll mAll o then .agree ("exact" :: tags)
    else if nearAll scale mAll o then .agree ("close" :: tags)
    else .disagree s!"model={showAll mAll}"

def handleBlend (cfg inp outp : List String) : Verdict :=
  match cfg with
  | [mode, form] =>
    match Mode.ofString? mode, parseTwo (α := α) inp with
    | some m, some (s, d) =>
      let f : α → α → α := m.fn
      let res : Option (WithAlpha α × BlendInput α × BlendInput α) :=
        if form == "opaque" then
          some ((blendOpaque f s.1 d.1, 1.0), BlendInput.newOpaque s.1, BlendInput.newOpaque d.1)
        else if form == "alpha" then some (blendStraight f s d, BlendInput.ofAlpha s, BlendInput.ofAlpha d)
        else if form == "pre" then some (blendPre f s d, BlendInput.ofPre s, BlendInput.ofPre d)
        else none
      match res with
      | none => .bad "unknown form"
      | some (r, bs, bd) =>
        let t := match bs.color, bd.color with
          | x :: _, y :: _ => modeTag m x y
          | _, _ => "empty"
        finishCmp form r outp [mode ++ ":" ++ t, form ++ ":" ++ alphaTag bs.alpha ++ "/" ++ alphaTag bd.alpha]
    | none, _ => .bad "unknown blend mode"
    | _, none => .bad "unparsable blend inputs"
  | _ => .bad "malformed blend line"

def runForm (form : String) (f : WithAlpha α → WithAlpha α → WithAlpha α) (s d : WithAlpha α) : Option (WithAlpha α) :=
  if form == "opaque" then some (viaOpaque f s.1 d.1, 1.0)
  else if form == "alpha" then some (viaStraight f s d)
  else if form == "pre" then some (f s d)
  else none

def handleCompose (cfg inp outp : List String) : Verdict :=
  match cfg with
  | [opn, form] =>
    match Op.ofString? opn, parseTwo (α := α) inp with
    | some op, some (s, d) =>
      match runForm form (composePre op) s d with
      | none => .bad "unknown form"
      | some r =>
        let sa := if form == "opaque" then (1.0 : α) else s.2
        let da := if form == "opaque" then (1.0 : α) else d.2
        finishCmp form r outp [opn, form ++ ":" ++ alphaTag sa ++ "/" ++ alphaTag da]
    | none, _ => .bad "unknown compose operator"
    | _, none => .bad "unparsable compose inputs"
  | _ => .bad "malformed compose line"

def Equation.ofString? : String → Option Equation
  | "add" => some .add | "sub" => some .subtract | "rsub" => some .reverseSubtract | "min" => some .min | "max" => some .max
  | _ => none
def Parameter.ofString? : String → Option Parameter
  | "1" => some .one | "0" => some .zero | "sc" => some .sourceColor | "1-sc" => some .oneMinusSourceColor
  | "dc" => some .destinationColor | "1-dc" => some .oneMinusDestinationColor | "sa" => some .sourceAlpha
  | "1-sa" => some .oneMinusSourceAlpha | "da" => some .destinationAlpha | "1-da" => some .oneMinusDestinationAlpha
  | _ => none

/-- `blendwith <form> fn <op>` (a Rust closure that calls the real `Compose` operator on `PreAlpha`) or
    `blendwith <form> eq <ceq> <aeq> <cs> <cd> <as> <ad>` (an `Equations` value) -/
def handleBlendWith (cfg inp outp : List String) : Verdict :=
  match parseTwo (α := α) inp with
  | none => .bad "unparsable blendwith inputs"
  | some (s, d) =>
    match cfg with
    | [form, "fn", opn] =>
      match Op.ofString? opn with
      | none => .bad "unknown compose operator"
      | some op =>
        match runForm form (composePre op) s d with
        | none => .bad "unknown form"
        | some r => finishCmp form r outp ["fn:" ++ opn, form]
    | [form, "eq", ce, ae, cs, cd, as, ad] =>
      match Equation.ofString? ce, Equation.ofString? ae, Parameter.ofString? cs, Parameter.ofString? cd,
            Parameter.ofString? as, Parameter.ofString? ad with
      | some ce', some ae', some cs', some cd', some as', some ad' =>
        let e : Equations := ⟨ce', ae', cs', cd', as', ad'⟩
        match runForm form (e.applyTo) s d with
        | none => .bad "unknown form"
        | some r =>
          -- Equations are not restricted to the property's domain: results may be negative / cancel; compare at scale 1
          match outp.mapM (Wire.parse? (α := α)) with
          | none => .bad "unparsable outputs"
          | some o =>
            let mAll := if form == "opaque" then r.1 else r.1 ++ [r.2]
            if sameAll mAll o then .agree ["exact", "eq:" ++ ce ++ "/" ++ ae, form]
            else if nearAll (1.0 : α) mAll o then .agree ["close", "eq:" ++ ce ++ "/" ++ ae, form]
            else .disagree s!"model={showAll mAll}"
      | _, _, _, _, _, _ => .bad "unknown equation/parameter"
    | _ => .bad "malformed blendwith line"

/-- `premul | n c1..cn a | p1..pn pa u1..un ua`: `premultiply` then `unpremultiply` of that;
    `unpremul | n p1..pn a | u1..un ua`: `unpremultiply` of an arbitrary `PreAlpha` -/
def handlePremul (op : String) (inp outp : List String) : Verdict :=
  match inp with
  | nTok :: rest =>
    match nTok.toNat?, rest.mapM (Wire.parse? (α := α)), outp.mapM (Wire.parse? (α := α)) with
    | some n, some xs, some o =>
      if xs.length != n + 1 then .bad "premul: wrong input count" else
      let c := xs.take n; let a := xs.getD n (0.0 : α)
      if op == "premul" then
        let p := premultiply c a
        let u := unpremultiply p
        let mAll := p.1 ++ [p.2] ++ u.1 ++ [u.2]
        if sameAll mAll o then .agree ["premul:" ++ alphaTag a] else .disagree s!"model={showAll mAll}"
      else
        let u := unpremultiply (c, a)
        let mAll := u.1 ++ [u.2]
        if sameAll mAll o then .agree ["unpremul:" ++ alphaTag a] else .disagree s!"model={showAll mAll}"
    | _, _, _ => .bad "premul: unparsable"
  | _ => .bad "malformed premul line"

def isF32Line (inp : List String) : Bool :=
  match inp with
  | _ :: t :: _ => t.startsWith "x"
  | _ => false

/-- ops: `blend`, `compose`, `blendwith`, `premul`, `unpremul`; the float type is read off the first number token -/
def handle (op : String) (cfg0 inp outp : List String) : Verdict :=
  -- the first config token names the colour type (informative only: the code is the same macro / generic impl for all)
  let cfg := cfg0.drop 1
  if isF32Line inp then
    match op with
    | "blend" => handleBlend (α := Float32) cfg inp outp
    | "compose" => handleCompose (α := Float32) cfg inp outp
    | "blendwith" => handleBlendWith (α := Float32) cfg inp outp
    | "premul" | "unpremul" => handlePremul (α := Float32) op inp outp
    | _ => .bad "unknown blend op"
  else
    match op with
    | "blend" => handleBlend (α := Float) cfg inp outp
    | "compose" => handleCompose (α := Float) cfg inp outp
    | "blendwith" => handleBlendWith (α := Float) cfg inp outp
    | "premul" | "unpremul" => handlePremul (α := Float) op inp outp
    | _ => .bad "unknown blend op"

end Blend
