import PaletteModel.Proto
import PaletteModel.Stimulus

namespace Stim
open Proto

def width? : String → Option Nat
  | "u8" => some 8 | "u16" => some 16 | "u32" => some 32 | "u64" => some 64 | "u128" => some 128 | _ => none

/-- `stim <src> <dst> | <input> | <output>` -/
def handle (cfg inp outp : List String) : Verdict :=
  match cfg, inp, outp with
  | [src, dst], [i], [o] =>
    let res : Option (String × List String) :=
      match width? src, width? dst with
      | some w, some w' => i.toNat?.map fun n => (toString (uintToUint w w' n), [if w == w' then "id" else if w < w' then "widen" else "narrow"])
      | some w, none =>
        i.toNat?.map fun n =>
          if dst == "f32" then (showF32 (uintToF32 w n), ["u2f"]) else (showF64 (uintToF64 w n), ["u2f"])
      | none, some w' =>
        if src == "f32" then (f32? i).map fun x => (toString (f32ToUint w' x), [if w' ≤ 16 then "magic23" else match f64Magic (maxF64 w') (f32ToF64 x) with | .inl _ => "magic52" | .inr _ => "big"])
        else (f64? i).map fun x => (toString (f64ToUint w' x), [match f64Magic (maxF64 w') x with | .inl _ => "magic52" | .inr _ => "big"])
      | none, none =>
        if src == "f32" && dst == "f64" then (f32? i).map fun x => (showF64 (f32ToF64 x), ["f2f"])
        else if src == "f64" && dst == "f32" then (f64? i).map fun x => (showF32 (f64ToF32 x), ["f2f"])
        else some (i, ["id"])
    match res with
    | none => .bad "unparsable stim line"
    | some (m, tags) =>
      -- NaN payloads are not part of the contract: compare NaN-ness only
      let nanEq := match f32? m, f32? o with
        | some a, some b => a.isNaN && b.isNaN
        | _, _ => match f64? m, f64? o with
          | some a, some b => a.isNaN && b.isNaN
          | _, _ => false
      if m == o || nanEq then .agree tags else .disagree s!"model={m}"
  | _, _, _ => .bad "malformed stim line"

end Stim
