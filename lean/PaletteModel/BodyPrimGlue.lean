/-
  Hand-written prelude of the *glue* families of the translator (`tools/rust2lean_glue.py`: `Gen/BodiesConvert.lean`,
  `Gen/BodiesAlpha.lean`, `Gen/BodiesFormat.lean`).

  The glue code of palette (`convert/from_into_color*.rs`, `convert/try_from_into_color.rs`, the forwarding impls of
  `alpha/alpha.rs`, the `[T]` impls of `lib.rs`, `into_format`) is generic over *types* (`impl<T, U> FromColor<T> for U`,
  `impl<C, T> Clamp for Alpha<C, T>`), and everything it does is dispatched through trait bounds.  Its translation is
  therefore generic over Lean types, and every trait method it calls is a *parameter* of the translated definition
  (dictionary passing); the few constructs that are not calls are given a reading here.  Everything is a plain structural
  definition that `rfl` / one list induction sees through.

  No Mathlib import (the driver links `PaletteModel`).
-/
namespace Prim

/-- `Alpha<C, T>` (alpha/alpha.rs: `pub struct Alpha<C, T> { pub color: C, pub alpha: T }`) at a generic colour type `C` and alpha
    type `T`; the field list is re-read from the `struct` on every run -/
structure AlphaOf (γ τ : Type) where
  color : γ
  alpha : τ

/-- `OutOfBounds<T>` (convert/try_from_into_color.rs: `pub struct OutOfBounds<T> { color: T }`) -/
structure OutOfBounds (τ : Type) where
  color : τ

/-- `Rgb<S, T>` (rgb/rgb.rs) at a generic component type, without the `PhantomData` field `standard` -/
structure Rgb3 (τ : Type) where
  red : τ
  green : τ
  blue : τ
def Rgb3.toList {τ : Type} (c : Rgb3 τ) : List τ := [c.red, c.green, c.blue]

/-- `Luma<S, T>` (luma/luma.rs), without the `PhantomData` field `standard` -/
structure Luma1 (τ : Type) where
  luma : τ
def Luma1.toList {τ : Type} (c : Luma1 τ) : List τ := [c.luma]

/-- `cast::map_vec_in_place(values, map)` and `cast::map_slice_box_in_place(values, map)` (cast/array.rs; *read*, their text is pinned
    by digest): after the two layout asserts, `for item in &mut *values { let input = ptr::read(item); let output =
    into_array(map(from_array(input))); ptr::write(item, output); }` over the buffer reinterpreted as arrays, and the buffer
    reinterpreted as `Vec<B>` / `Box<[B]>` (same pointer, length, capacity).  On values: every item, in order, replaced by `map item`.
    (The memory side of this `unsafe` code - nothing read twice, nothing dropped twice, also when `map` panics - is C13's
    `InPlace.readMapWrite` / `InPlacePanic`; the casts are C04.) -/
def mapInPlace {σ τ : Type} (map : σ → τ) : List σ → List τ
  | [] => []
  | item :: rest => map item :: mapInPlace map rest

/-- `for x in self { <statements that update x> }` and `self.iter_mut().for_each(f)` on `&mut [T]`: every element, in order, replaced
    by the final state of the loop variable -/
def forEachMut {σ : Type} (f : σ → σ) : List σ → List σ
  | [] => []
  | item :: rest => f item :: forEachMut f rest

/-- `for item in xs { s = step(s, item); if stop(s) { break; } }` with one state variable `s` -/
def forBreak {σ β : Type} (step : β → σ → β) (stop : β → Bool) : β → List σ → β
  | s, [] => s
  | s, item :: rest => let s' := step s item; if stop s' then s' else forBreak step stop s' rest

end Prim
