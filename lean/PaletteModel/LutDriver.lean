import PaletteModel.Proto
import PaletteModel.Lut

namespace Lut
open Proto

def bitsOf? (tok : String) : Option (Bool × Nat) :=
  match tok.toList with
  | 'x' :: r => (hexNat? r).map fun n => (false, n)
  | 'X' :: r => (hexNat? r).map fun n => (true, n)
  | _ => none

/-- `lutenc <enc> | <float bits> | <code>`, `lutdec <enc> <f32|f64> | <code> | <float bits>`,
    `lutenc16 prophoto | <float bits> | <code>`, `lutdec16 prophoto | <code> | <f64 bits>` (every 257th code is in `Gen`) -/
def handle (op : String) (cfg inp outp : List String) : Verdict :=
  match op, cfg, inp, outp with
  | "lutenc", [e], [i], [o] =>
    match Enc.ofString? e, bitsOf? i, o.toNat? with
    | some enc, some (is64, b), some code =>
      let m := if is64 then fromLinearU8_f64 enc b else fromLinearU8 enc b
      if m == code then .agree [if is64 then "f64" else "f32"] else .disagree s!"model={m}"
    | _, _, _ => .bad "unparsable lutenc"
  | "lutdec", [e, ty], [i], [o] =>
    match Enc.ofString? e, i.toNat?, bitsOf? o with
    | some enc, some code, some (_, b) =>
      let m := if ty == "f64" then intoLinear64 enc code else intoLinear32 enc code
      if m == b then .agree [ty] else .disagree s!"model={m}"
    | _, _, _ => .bad "unparsable lutdec"
  | "lutenc16", [_], [i], [o] =>
    match bitsOf? i, o.toNat? with
    | some (is64, b), some code =>
      let b32 := if is64 then (Stim.f64ToF32 (Float.ofBits (UInt64.ofNat b))).toBits.toNat else b
      let m := prophotoFromLinearU16 b32
      if m == code then .agree [if b32 < Gen.Lut.prophotoMinFloat || b32 ≥ 0x80000000 then "linear-segment" else "table"] else .disagree s!"model={m}"
    | _, _ => .bad "unparsable lutenc16"
  | "lutdec16", [_], [i], [o] =>
    match i.toNat?, bitsOf? o with
    | some code, some (_, b) =>
      if code % 257 == 0 then
        let m := Gen.Lut.prophotoDec64Stride257.getD (code / 257) 0
        if m == b then .agree ["stride"] else .disagree s!"model={m}"
      else .bad "lutdec16 code not on the extracted stride"
    | _, _ => .bad "unparsable lutdec16"
  | _, _, _, _ => .bad "malformed lut line"

end Lut
