/-
  Model of the colour operators (C10): `macros/mix.rs`, `macros/lighten_saturate.rs`, `macros/hue.rs`,
  `macros/arithmetics.rs`, `macros/color_theory.rs` + `color_theory.rs`, the blanket `Darken`/`Desaturate` and the slice
  impls of `lib.rs`, the forwarding impls of `alpha/alpha.rs` and `blend/pre_alpha.rs`.

  A colour is the list of its components in struct (= array cast) order; which component an instantiation moves, with
  which limits, comes from `Gen/Ops.lean` (regenerated from the sources), never from this file.
  By-value and assigning bodies are transcribed separately (they are separate macro output).
  Generic over the law-free `Scalar` interface; no Mathlib.
-/
import PaletteModel.Scalar

namespace Ops
open Scalar
variable {α : Type} [Scalar α]

/-- `T::zero()` / `T::one()` -/
def zero : α := 0.0
def one : α := 1.0

/-! ## `angle.rs`: `SignedAngle::normalize_signed_angle` (f32/f64), used by `Hue::into_degrees` -/
def normSigned (x : α) : α := x - ceil (((x + 180.0) / 360.0) - 1.0) * 360.0

/-! ## `macros/arithmetics.rs` -/

/-- `Add<Self>`: `$self_ty { $($element: self.$element + other.$element,)+ }` -/
def addC : List α → List α → List α
  | x :: xs, y :: ys => (x + y) :: addC xs ys
  | _, _ => []
def subC : List α → List α → List α
  | x :: xs, y :: ys => (x - y) :: subC xs ys
  | _, _ => []
def mulC : List α → List α → List α
  | x :: xs, y :: ys => (x * y) :: mulC xs ys
  | _, _ => []
def divC : List α → List α → List α
  | x :: xs, y :: ys => (x / y) :: divC xs ys
  | _, _ => []
/-- `Add<T>`: `$($element: self.$element + c.clone(),)+` -/
def addS (a : List α) (c : α) : List α := a.map (· + c)
def subS (a : List α) (c : α) : List α := a.map (· - c)
def mulS (a : List α) (c : α) : List α := a.map (· * c)
def divS (a : List α) (c : α) : List α := a.map (· / c)

/-- `AddAssign<Self>`: `$( self.$element += other.$element; )+` — one statement per element, each updating its own field;
    the remaining fields of `self` (none, for a complete element list) stay as they are -/
def addAssignC : List α → List α → List α
  | x :: xs, y :: ys => (x + y) :: addAssignC xs ys
  | xs, _ => xs
def subAssignC : List α → List α → List α
  | x :: xs, y :: ys => (x - y) :: subAssignC xs ys
  | xs, _ => xs
def mulAssignC : List α → List α → List α
  | x :: xs, y :: ys => (x * y) :: mulAssignC xs ys
  | xs, _ => xs
def divAssignC : List α → List α → List α
  | x :: xs, y :: ys => (x / y) :: divAssignC xs ys
  | xs, _ => xs
/-- `AddAssign<T>`: `$( self.$element += c.clone(); )+` -/
def addAssignS : List α → α → List α
  | x :: xs, c => (x + c) :: addAssignS xs c
  | [], _ => []
def subAssignS : List α → α → List α
  | x :: xs, c => (x - c) :: subAssignS xs c
  | [], _ => []
def mulAssignS : List α → α → List α
  | x :: xs, c => (x * c) :: mulAssignS xs c
  | [], _ => []
def divAssignS : List α → α → List α
  | x :: xs, c => (x / c) :: divAssignS xs c
  | [], _ => []

/-! ## `macros/mix.rs` -/

/-- `impl_mix!::mix`: `let factor = clamp(factor, 0, 1); self.clone() + (other - self) * factor` (colour arithmetic) -/
def mixLin (a b : List α) (factor : α) : List α :=
  let factor := clamp factor zero one
  addC a (mulS (subC b a) factor)
/-- `impl_mix!::mix_assign`: `*self += (other - self.clone()) * factor` -/
def mixLinAssign (a b : List α) (factor : α) : List α :=
  let factor := clamp factor zero one
  addAssignC a (mulS (subC b a) factor)

/-- role of a component in `impl_mix_hue!` -/
inductive Role | lin | hue
deriving DecidableEq, Repr

/-- `let hue = (other.hue - self.hue.clone()).into_degrees();` / `let $other_field = other.$other_field - &self.$other_field;` -/
def diffC : Role → α → α → α
  | .lin, a, b => b - a
  | .hue, a, b => normSigned (b - a)

def diffs : List Role → List α → List α → List α
  | r :: rs, x :: xs, y :: ys => diffC r x y :: diffs rs xs ys
  | _, _, _ => []

/-- `impl_mix_hue!::mix`: all differences first, then the struct literal `field: self.field + diff * factor` -/
def mixHue (roles : List Role) (a b : List α) (factor : α) : List α :=
  let factor := clamp factor zero one
  let d := diffs roles a b
  List.zipWith (fun x dx => x + dx * factor) a d

def mixHueAssignGo : List α → List α → α → List α
  | x :: xs, dx :: ds, f => (x + dx * f) :: mixHueAssignGo xs ds f      -- `self.$other_field += $other_field * &factor;`
  | xs, _, _ => xs
/-- `impl_mix_hue!::mix_assign` -/
def mixHueAssign (roles : List Role) (a b : List α) (factor : α) : List α :=
  let factor := clamp factor zero one
  let d := diffs roles a b
  mixHueAssignGo a d factor

/-- roles of an `n`-component struct whose hue sits at index `h` (`h ≥ n`: no hue) -/
def roles (n h : Nat) : List Role := (List.range n).map fun i => if i = h then Role.hue else Role.lin

/-! ## `macros/lighten_saturate.rs` -/

/-- what `_impl_increase_value_trait!` does with a component: `increase {c => [min, max]}` or `other {c}` -/
inductive Inc (α : Type) | increase (lo hi : α) | other

/-- `let difference = lazy_select!{ if factor.gt_eq(&T::zero()) => $get_max - &self.$component, else => self.$component.clone() };
    let $component = difference.max(T::zero()) * &factor;` -/
def incDelta (hi c f : α) : α :=
  let difference := if zero ≤ f then hi - c else c
  Scalar.max difference zero * f

/-- the struct literal of the by-value form: `$component: crate::clamp(self.$component + $component, $get_min, $get_max)`,
    `$other_component: self.$other_component` -/
def incBuild : List (Inc α) → List α → List α → List α
  | .increase lo hi :: ss, x :: xs, d :: ds => clamp (x + d) lo hi :: incBuild ss xs ds
  | .other :: ss, x :: xs, _ :: ds => x :: incBuild ss xs ds
  | _, xs, _ => xs

/-- the `let $component = difference.max(T::zero()) * &factor;` pass (entries of `other` components are unused placeholders) -/
def incDeltas : List (Inc α) → List α → α → List α
  | .increase _ hi :: ss, x :: xs, f => incDelta hi x f :: incDeltas ss xs f
  | .other :: ss, x :: xs, f => x :: incDeltas ss xs f
  | _, _, _ => []

/-- relative form, by value: deltas of all `increase` components first, then the struct literal -/
def incValue (spec : List (Inc α)) (c : List α) (f : α) : List α :=
  incBuild spec c (incDeltas spec c f)

/-- relative form, assigning: per component `self.c += difference.max(0) * &factor; clamp_assign(&mut self.c, min, max);` -/
def incAssign : List (Inc α) → List α → α → List α
  | .increase lo hi :: ss, x :: xs, f =>
    let difference := if zero ≤ f then hi - x else x
    let x1 := x + Scalar.max difference zero * f
    clamp x1 lo hi :: incAssign ss xs f
  | .other :: ss, x :: xs, f => x :: incAssign ss xs f
  | _, xs, _ => xs

/-- fixed form, by value: `$component: crate::clamp(self.$component + $get_max * &amount, $get_min, $get_max)` -/
def incFixedValue (spec : List (Inc α)) (c : List α) (amount : α) : List α :=
  List.zipWith (fun s x => match s with | .increase lo hi => clamp (x + hi * amount) lo hi | .other => x) spec c ++ c.drop spec.length

/-- fixed form, assigning: `self.$component += $get_max * &amount; crate::clamp_assign(&mut self.$component, $get_min, $get_max);` -/
def incFixedAssign : List (Inc α) → List α → α → List α
  | .increase lo hi :: ss, x :: xs, a =>
    let x1 := x + hi * a
    clamp x1 lo hi :: incFixedAssign ss xs a
  | .other :: ss, x :: xs, a => x :: incFixedAssign ss xs a
  | _, xs, _ => xs

/-- `lib.rs`: `impl<T: Lighten> Darken for T { fn darken(self, factor) { self.lighten(-factor) } }` (same for `Desaturate`) -/
def decValue (spec : List (Inc α)) (c : List α) (f : α) : List α := incValue spec c (-f)
def decFixedValue (spec : List (Inc α)) (c : List α) (a : α) : List α := incFixedValue spec c (-a)
def decAssign (spec : List (Inc α)) (c : List α) (f : α) : List α := incAssign spec c (-f)
def decFixedAssign (spec : List (Inc α)) (c : List α) (a : α) : List α := incFixedAssign spec c (-a)

/-! ### `impl_lighten_hwb!` : whiteness and blackness (hue is carried along) -/

structure HwbLim (α : Type) where
  minW : α
  maxW : α
  minB : α
  maxB : α

def hwbLighten (l : HwbLim α) (w b f : α) : α × α :=
  let differenceWhiteness := if zero ≤ f then l.maxW - w else w
  let deltaWhiteness := Scalar.max differenceWhiteness zero * f
  let differenceBlackness := if zero ≤ f then b else l.maxB - b
  let deltaBlackness := Scalar.max differenceBlackness zero * f
  (Scalar.max (w + deltaWhiteness) l.minW, Scalar.max (b - deltaBlackness) l.minB)

def hwbLightenAssign (l : HwbLim α) (w b f : α) : α × α :=
  let differenceWhiteness := if zero ≤ f then l.maxW - w else w
  let w1 := w + Scalar.max differenceWhiteness zero * f
  let w2 := Scalar.max w1 l.minW                       -- clamp_min_assign = f32::max(self, min)
  let differenceBlackness := if zero ≤ f then b else l.maxB - b
  let b1 := b - Scalar.max differenceBlackness zero * f
  let b2 := Scalar.max b1 l.minB
  (w2, b2)

/-- fixed form (after the C10 repair: whiteness and blackness are limited to their maxima as well, like every other `Lighten`
    impl does with `crate::clamp`): `(self.whiteness + Self::max_whiteness() * &amount).max(Self::min_whiteness()).min(Self::max_whiteness())` -/
def hwbLightenFixed (l : HwbLim α) (w b a : α) : α × α :=
  (Scalar.min (Scalar.max (w + l.maxW * a) l.minW) l.maxW, Scalar.min (Scalar.max (b - l.maxB * a) l.minB) l.maxB)

/-- `self.whiteness += max * &amount; clamp_min_assign(..); ClampAssign::clamp_max_assign(..);` and the same for blackness -/
def hwbLightenFixedAssign (l : HwbLim α) (w b a : α) : α × α :=
  let w1 := w + l.maxW * a
  let w2 := Scalar.max w1 l.minW
  let w3 := Scalar.min w2 l.maxW
  let b1 := b - l.maxB * a
  let b2 := Scalar.max b1 l.minB
  let b3 := Scalar.min b2 l.maxB
  (w3, b3)

/-- the fixed form as it was before the repair: bounded below only (`Hwb(_, 0.5, 0.2).lighten_fixed(1.0)` has whiteness 1.5) -/
def hwbLightenFixedOld (l : HwbLim α) (w b a : α) : α × α :=
  (Scalar.max (w + l.maxW * a) l.minW, Scalar.max (b - l.maxB * a) l.minB)

/-! ## `macros/hue.rs` -/

/-- `shift_hue`: `self.hue = self.hue + amount; self` (`Hue<T> + T` = `Hue(self.0 + other)`, `hues.rs`) -/
def shiftHue (h : Nat) (c : List α) (amount : α) : List α := c.modify h (· + amount)
/-- `shift_hue_assign`: `self.hue += amount;` -/
def shiftHueAssign : Nat → List α → α → List α
  | 0, x :: xs, amount => (x + amount) :: xs
  | h + 1, x :: xs, amount => x :: shiftHueAssign h xs amount
  | _, [], _ => []
/-- `with_hue`: `self.hue = hue.into(); self` -/
def withHue (h : Nat) (c : List α) (hue : α) : List α := c.set h hue
/-- `set_hue`: `self.hue = hue.into();` -/
def setHue : Nat → List α → α → List α
  | 0, _ :: xs, hue => hue :: xs
  | h + 1, x :: xs, hue => x :: setHue h xs hue
  | _, [], _ => []
/-- `get_hue` -/
def getHue (h : Nat) (c : List α) : Option α := c[h]?

/-! ## `color_theory.rs` (blanket impls over `ShiftHue`) and `macros/color_theory.rs` (Lab-like types) -/

/-- `HalfRotation::half_rotation()` for f32/f64 -/
def halfRotation : α := 180.0

def complementary (h : Nat) (c : List α) : List α := shiftHue h c halfRotation
def splitComplementary (h : Nat) (c : List α) : List α × List α := (shiftHue h c 150.0, shiftHue h c 210.0)
def analogous (h : Nat) (c : List α) : List α × List α := (shiftHue h c 330.0, shiftHue h c 30.0)
def analogousSecondary (h : Nat) (c : List α) : List α × List α := (shiftHue h c 300.0, shiftHue h c 60.0)
def triadic (h : Nat) (c : List α) : List α × List α := (shiftHue h c 120.0, shiftHue h c 240.0)
def tetradic (h : Nat) (c : List α) : List α × List α × List α := (shiftHue h c 90.0, shiftHue h c 180.0, shiftHue h c 270.0)

/-- `impl_lab_color_schemes!::complementary`: `Self { $a: -self.$a, $b: -self.$b, other.. }`; `ia`, `ib` = positions of `$a`, `$b` -/
def labComplementary (ia ib : Nat) (c : List α) : List α :=
  match c[ia]?, c[ib]? with
  | some a, some b => (c.set ia (-a)).set ib (-b)
  | _, _ => c
/-- `impl_lab_color_schemes!::tetradic` -/
def labTetradic (ia ib : Nat) (c : List α) : List α × List α × List α :=
  match c[ia]?, c[ib]? with
  | some a, some b =>
    let first := (c.set ia (-b)).set ib a
    let second := labComplementary ia ib c
    let third := labComplementary ia ib first
    (first, second, third)
  | _, _ => (c, c, c)

/-! ## `alpha/alpha.rs`, `blend/pre_alpha.rs`: forwarding -/

/-- `Alpha<C, T>` and `PreAlpha<C>` have the same shape `{ color, alpha }` and the same forwarding bodies for the operators
    they both implement (`Mix`, `MixAssign`, arithmetic) -/
structure Alpha (α : Type) where
  color : List α
  alpha : α

namespace Alpha
/-- `Mix for Alpha<C, C::Scalar>` / `Mix for PreAlpha<C>`; `mixC` is the colour's own `mix` -/
def mix (mixC : List α → List α → α → List α) (a b : Alpha α) (factor : α) : Alpha α :=
  let factor := clamp factor zero one
  { color := mixC a.color b.color factor, alpha := a.alpha + factor * (b.alpha - a.alpha) }
/-- `MixAssign`: `self.color.mix_assign(other.color, factor.clone()); self.alpha += factor * (other.alpha - self.alpha.clone());` -/
def mixAssign (mixAssignC : List α → List α → α → List α) (a b : Alpha α) (factor : α) : Alpha α :=
  let factor := clamp factor zero one
  let color := mixAssignC a.color b.color factor
  let alpha := a.alpha + factor * (b.alpha - a.alpha)
  { color, alpha }
/-- `Lighten`/`Saturate`/`ShiftHue`/`WithHue` (by value): `Alpha { color: self.color.op(x), alpha: self.alpha }` -/
def map1 (op : List α → α → List α) (a : Alpha α) (x : α) : Alpha α := { color := op a.color x, alpha := a.alpha }
/-- `LightenAssign`/`SaturateAssign`/`ShiftHueAssign`/`SetHue`: `self.color.op_assign(x);` -/
def assign1 (opAssign : List α → α → List α) (a : Alpha α) (x : α) : Alpha α := { a with color := opAssign a.color x }
/-- `Complementary for Alpha<Lab-like>` and, through `ShiftHue for Alpha`, the blanket colour-theory impls -/
def map0 (op : List α → List α) (a : Alpha α) : Alpha α := { color := op a.color, alpha := a.alpha }
/-- `Add for Alpha<C, T>`: `color: self.color + other.color, alpha: self.alpha + other.alpha` (same for `-`, `*`, `/`) -/
def binC (opC : List α → List α → List α) (opT : α → α → α) (a b : Alpha α) : Alpha α :=
  { color := opC a.color b.color, alpha := opT a.alpha b.alpha }
/-- `Add<T> for Alpha<C, T>`: `color: self.color + c.clone(), alpha: self.alpha + c` -/
def binS (opS : List α → α → List α) (opT : α → α → α) (a : Alpha α) (c : α) : Alpha α :=
  { color := opS a.color c, alpha := opT a.alpha c }
/-- `AddAssign`: `self.color += other.color; self.alpha += other.alpha;` -/
def binAssignC (opAssignC : List α → List α → List α) (opT : α → α → α) (a b : Alpha α) : Alpha α :=
  let color := opAssignC a.color b.color
  let alpha := opT a.alpha b.alpha
  { color, alpha }
def binAssignS (opAssignS : List α → α → List α) (opT : α → α → α) (a : Alpha α) (c : α) : Alpha α :=
  let color := opAssignS a.color c
  let alpha := opT a.alpha c
  { color, alpha }
end Alpha

/-! ## slices (`lib.rs`): `for color in self { color.op_assign(x.clone()); }` -/
def sliceAssign (opAssign : List α → α → List α) : List (List α) → α → List (List α)
  | c :: cs, x => opAssign c x :: sliceAssign opAssign cs x
  | [], _ => []

end Ops
