import PaletteModel.Proto
import PaletteModel.InPlace
import PaletteModel.Gen.InPlace

/-
  `hist <f32|f64> <K> <single|slice|vec|box> <u0> <n> <cap> | <op>* ; <init values> ; <written values> | ( ; <obs> )*`

  ops:  `fcm:<c|u>:<T>:<via>`  `deref`  `w:<i>:<k>`  `then:<c|u>:<C>`  `toU`  `toC`  `restore`  `drop`  `forget`  `own:<c|u>:<T>:<via>`
        (`via` = which public entry point the harness used: `from_*`/`into_*`/`cast::map_*_in_place`; they are the same
        function by the blanket impls, the model does not distinguish them)
  obs (one per op, taken after it):
        `<static type of the access path> <original|-> <c|u|-> <same address 0/1> <len> <capacity|-> <bits equal 0/1> <term>*`
  where the terms are the ones the harness evaluated with the out-of-place conversions and found (bits equal = 1) to be
  the contents of the real buffer.  The handler replays the history through `InPlace.step` and requires after every
  operation: same static type, same pending guard (original, clamped), the model's length and capacity, address unchanged,
  and **the model's terms are exactly the harness's terms**.
-/
namespace InPlace
open Proto

partial def Term.render : Term → String
  | .src i => "s" ++ toString i
  | .written k => "w" ++ toString k
  | .conv cl a b t => (if cl then "c" else "u") ++ toString a ++ "." ++ toString b ++ "(" ++ t.render ++ ")"

def form? : String → Option Form
  | "single" => some .single | "slice" => some .slice | "vec" => some .vec | "box" => some .boxed | _ => none

def cl? : String → Option Bool
  | "c" => some true | "u" => some false | _ => none

def op? (tok : String) : Option Op :=
  match tok.splitOn ":" with
  | ["fcm", c, t, _] => do some (.fromColorMut (← cl? c) (← t.toNat?))
  | ["deref"] => some .deref
  | ["w", i, k] => do some (.write (← i.toNat?) (← k.toNat?))
  | ["then", "c", c] => do some (.thenInto (← c.toNat?))
  | ["then", "u", c] => do some (.thenIntoUnclamped (← c.toNat?))
  | ["toU"] => some .intoUnclampedGuard
  | ["toC"] => some .intoClampedGuard
  | ["restore"] => some .restore
  | ["drop"] => some .drop
  | ["forget"] => some .forget
  | ["own", c, t, _] => do some (.ownedFromColor (← cl? c) (← t.toNat?))
  | _ => none

def opTag : Op → String
  | .fromColorMut true _ => "from_color_mut" | .fromColorMut false _ => "from_color_unclamped_mut"
  | .deref => "deref" | .write _ _ => "write" | .thenInto _ => "then_into" | .thenIntoUnclamped _ => "then_into_unclamped"
  | .intoUnclampedGuard => "into_unclamped_guard" | .intoClampedGuard => "into_clamped_guard"
  | .restore => "restore" | .drop => "drop" | .forget => "forget" | .ownedFromColor _ _ => "owned_from_color"

/-- split a token list at the `;` tokens -/
def splitSemi (toks : List String) : List (List String) :=
  let (cur, acc) := toks.foldl (fun (p : List String × List (List String)) t => if t == ";" then ([], p.1.reverse :: p.2) else (t :: p.1, p.2)) ([], [])
  (cur.reverse :: acc).reverse

/-- compare the model state with one observation; `none` = equal -/
def diffObs (id0 : Nat) (s : State) (obs : List String) : Option String :=
  match obs with
  | ty :: orig :: cl :: same :: len :: cap :: ok :: terms =>
    let mTy := match viewTy s.rootTy s.guards with | some t => toString t | none => "none"
    let (mOrig, mCl) := match s.guards with | g :: _ => (toString g.original, if g.clamped then "c" else "u") | [] => ("-", "-")
    if mTy != ty then some s!"static type: model {mTy}, implementation {ty}"
    else if mOrig != orig || mCl != cl then some s!"pending guard: model ({mOrig},{mCl}), implementation ({orig},{cl})"
    else if same != (if s.buf.id == id0 then "1" else "0") then some "address changed on the implementation"
    else if toString s.buf.elems.length != len then some s!"length: model {s.buf.elems.length}, implementation {len}"
    else if cap != "-" && toString s.buf.cap != cap then some s!"capacity: model {s.buf.cap}, implementation {cap}"
    else if ok != "1" then some "the implementation's buffer is not the value of the terms (see the oracle failure)"
    else
      let rec go (i : Nat) : List Term → List String → Option String
        | [], [] => none
        | t :: ts, x :: xs => if t.render == x then go (i + 1) ts xs else some s!"slot {i}: model term {t.render}, harness term {x}"
        | _, _ => some "number of terms"
      go 0 s.buf.elems terms
  | _ => some "malformed observation"

def handle (cfg inp outp : List String) : Verdict :=
  match cfg with
  | [fl, k, form, u0, n, cap] =>
    match form? form, u0.toNat?, n.toNat?, cap.toNat?, k.toNat? with
    | some form, some u0, some n, some cap, some k =>
      if fl != "f32" && fl != "f64" then .bad "component type" else
      match splitSemi inp, splitSemi outp with
      | [opToks, initToks, _written], _ :: obss =>
        if initToks.length != n * k then .bad "initial values" else
        match opToks.mapM op? with
        | none => .bad "unparsable operation"
        | some ops =>
          if ops.length != obss.length then .bad s!"{ops.length} operations but {obss.length} observations" else
          let s0 := fresh form u0 0 cap n
          let rec go (idx : Nat) (s : State) (depth : Nat) : List Op → List (List String) → Except String Nat
            | [], _ => .ok depth
            | op :: ops, obs :: obss =>
              match step op s with
              | none => .error s!"op {idx} ({opTag op}) is not possible in the model state (panic / not expressible)"
              | some s' =>
                match diffObs 0 s' obs with
                | some msg => .error s!"after op {idx} ({opTag op}): {msg}"
                | none => go (idx + 1) s' (max depth s'.guards.length) ops obss
            | _, [] => .error "observations ran out"
          match go 0 s0 0 ops obss with
          | .error msg => .disagree msg
          | .ok depth =>
            let kinds := (ops.map opTag).eraseDups
            .agree ([s!"form:{form_tag form}", s!"nesting:{depth}", s!"len:{if n == 0 then "0" else if n == 1 then "1" else "2+"}"] ++ kinds)
      | _, _ => .bad "malformed hist line (sections)"
    | _, _, _, _, _ => .bad "malformed hist config"
  | _ => .bad "malformed hist line"
where form_tag : Form → String
  | .single => "single" | .slice => "slice" | .vec => "vec" | .boxed => "box"

/-- `gapi <clamped|unclamped> | <methods the harness calls on this guard type> | <traits it uses>`:
    cross-check of the extraction `Gen/InPlace.lean` by what the harness, compiled against the real crate, exercises -/
def handleApi (cfg inp outp : List String) : Verdict :=
  let sorted (l : List String) := l.mergeSort (· ≤ ·)
  match cfg with
  | ["clamped"] =>
    if sorted inp == sorted Gen.InPlace.clampedGuardMethodNames && sorted outp == sorted Gen.InPlace.clampedGuardTraitNames then .agree ["clamped"]
    else .disagree s!"extracted methods {Gen.InPlace.clampedGuardMethodNames} traits {Gen.InPlace.clampedGuardTraitNames}"
  | ["unclamped"] =>
    if sorted inp == sorted Gen.InPlace.unclampedGuardMethodNames && sorted outp == sorted Gen.InPlace.unclampedGuardTraitNames then .agree ["unclamped"]
    else .disagree s!"extracted methods {Gen.InPlace.unclampedGuardMethodNames} traits {Gen.InPlace.unclampedGuardTraitNames}"
  | _ => .bad "malformed gapi line"

end InPlace
