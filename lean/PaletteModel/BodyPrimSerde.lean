/-
  Hand-written prelude of the family `serde` of the translator (`tools/rust2lean_serde.py` -> `Gen/BodiesSerde.lean`).

  palette's serde support (`serde.rs`, `serde/alpha_serializer.rs`, `serde/alpha_deserializer.rs`, the `Serialize` / `Deserialize`
  impls of `Alpha` and `PreAlpha`) is generic over serde's traits: every call on the wrapped serializer / deserializer / visitor /
  map access is a *parameter* of the translated definition.  What is not a call gets its reading here, each with what the Rust
  reference / serde's documentation says the construct does.  Plain structural definitions only; no Mathlib (the driver links
  `PaletteModel`).
-/
namespace Prim

/-! ## the structs and enums of the two wrapper modules (field / variant lists re-read from the definitions on every run) -/

/-- `pub(crate) struct AlphaSerializer<'a, S, A> { pub inner: S, pub alpha: &'a A }`: a shared reference is read as its referent -/
structure AlphaSerializer (S A : Type) where
  inner : S
  alpha : A

/-- `pub(crate) struct AlphaDeserializer<'a, D, A> { pub inner: D, pub alpha: &'a mut Option<A> }`.  The `&mut` cell is read as its
    *current content*; a body that writes it (`*self.alpha = e`) returns the new content next to its value (state passing), and the
    owner of the cell (`let mut alpha = None; .. alpha: &mut alpha ..`) rebinds its local from that. -/
structure AlphaDeserializer (D A : Type) where
  inner : D
  alpha : Option A

/-- `struct AlphaSeqVisitor<'a, D, A> { inner: D, alpha: &'a mut Option<A> }` -/
structure AlphaSeqVisitor (V A : Type) where
  inner : V
  alpha : Option A

/-- `struct AlphaMapVisitor<'a, D, A> { inner: D, alpha: &'a mut Option<A>, field_count: Option<usize> }` -/
structure AlphaMapVisitor (V A : Type) where
  inner : V
  alpha : Option A
  field_count : Option Nat

/-- `struct MapWrapper<'a, T, A> { inner: T, alpha: &'a mut Option<A>, field_count: Option<usize> }` -/
structure MapWrapper (M A : Type) where
  inner : M
  alpha : Option A
  field_count : Option Nat

/-- `struct AlphaFieldDeserializerSeed<T> { inner: T, field_count: Option<usize> }` -/
structure AlphaFieldDeserializerSeed (K : Type) where
  inner : K
  field_count : Option Nat

/-- `struct AlphaFieldVisitor<T> { inner: T, field_count: Option<usize> }` -/
structure AlphaFieldVisitor (K : Type) where
  inner : K
  field_count : Option Nat

/-- `enum AlphaField<A, O> { Alpha(A), Other(O) }` -/
inductive AlphaField (A O : Type) where
  | alpha (a : A)
  | other (o : O)

/-- `enum StructField<'de> { Unsigned(u64), Str(&'de str), Bytes(&'de [u8]) }` (`u64` as `Nat`) -/
inductive StructField where
  | unsigned (v : Nat)
  | str (v : String)
  | bytes (v : List UInt8)
  deriving DecidableEq, Repr

/-- `struct StructFieldDeserializer<'a, E> { struct_field: StructField<'a>, error: PhantomData<fn() -> E> }` without the `PhantomData` -/
structure StructFieldDeserializer where
  struct_field : StructField
  deriving DecidableEq, Repr

/-- `serde::de::Unexpected::Unsigned(u64)`: the only variant these bodies build -/
inductive Unexpected where
  | unsigned (v : Nat)
  deriving DecidableEq, Repr

/-- `PreAlpha<C>` (blend/pre_alpha.rs: `pub struct PreAlpha<C: Premultiply> { pub color: C, pub alpha: C::Scalar }`) at a generic
    colour type and scalar type -/
structure PreAlphaOf (γ τ : Type) where
  color : γ
  alpha : τ

/-! ## std / language constructs -/

/-- the `?` operator on a `Result` whose error type is the function's own: "If the value is `Err(e)`, returns `Err(From::from(e))` from the enclosing
    function, otherwise unwraps the `Ok` value" (Rust reference; `From<E> for E` is the identity) -/
def tryE {ε σ β : Type} (r : Except ε σ) (rest : σ → Except ε β) : Except ε β :=
  match r with
  | .ok x => rest x
  | .error e => .error e

/-- `Option::ok_or_else(self, err)`: "Transforms the `Option<T>` into a `Result<T, E>`, mapping `Some(v)` to `Ok(v)` and `None` to
    `Err(err())`" (std) -/
def okOrElse {τ ε : Type} (o : Option τ) (err : Unit → ε) : Except ε τ :=
  match o with
  | some v => .ok v
  | none => .error (err ())

/-- `Option::unwrap_or_else(self, f)`: "Returns the contained `Some` value or computes it from a closure" (std) -/
def unwrapOrElse {τ : Type} (o : Option τ) (f : Unit → τ) : τ :=
  match o with
  | some v => v
  | none => f ()

/-- a byte-string literal `b"lit"` (ASCII in these sources): the UTF-8 bytes of the text -/
def bstr (s : String) : List UInt8 := s.toUTF8.toList

/-- outcome of one turn of a `loop { .. }`: the next turn's state, or the value of the `return` that leaves it -/
inductive Flow (σ ρ : Type) where
  | next (s : σ)
  | done (r : ρ)

/-- `loop { body }` whose only exits are `return`s (and `?`): run `step` until it is `done` or fails.  A total reading needs a
    bound: `none` = not finished within `fuel` turns (the Rust loop itself has no bound: each turn consumes one key of
    the wrapped map access, so a finite map ends it). -/
def loopFuel {σ ρ ε : Type} : Nat → (σ → Except ε (Flow σ ρ)) → σ → Option (Except ε ρ)
  | 0, _, _ => none
  | fuel + 1, step, s =>
    match step s with
    | .error e => some (.error e)
    | .ok (.done r) => some (.ok r)
    | .ok (.next s') => loopFuel fuel step s'

end Prim
