/-
  Model of hex-string parsing and formatting of `Rgb`/`Rgba`:
  `palette/src/rgb/hex.rs`, the ten `FromStr` impls of `palette/src/rgb/rgb.rs`, `LowerHex`/`UpperHex` of
  `Rgb` (`rgb.rs`) and `Alpha` (`alpha/alpha.rs`), and the part of `core` they lean on
  (`str::strip_prefix`, `str` slicing by byte index, `uN::from_str_radix`, `{:0width$x}`).

  Text is a list of *bytes*: the code switches on the byte length and slices at byte indices.  An outcome is
  `ok`, `err` or `panic` (slicing inside a multi-byte character panics in Rust); that `panic` is never reached
  from the public entry points is a theorem (`C12_Hex`), not a modelling decision.

  The model follows the code *with* the D3 repair (`check_hex_digits` in `hex.rs`): every byte must be an
  ASCII hex digit before anything is sliced.  The un-repaired bodies are kept as `…Body` so that the
  witnesses of D3 (`"+f+f+f"` accepted, `"é1"` panics) stay checkable (`C12_Hex`, section "D3").
-/
import PaletteModel.Stimulus

namespace Hex

abbrev Bytes := List UInt8

/-- `core::num::IntErrorKind` (the kinds an unsigned parse can give) -/
inductive IntErr where
  | empty | invalidDigit | posOverflow
  deriving DecidableEq, Repr

/-- `palette::rgb::FromHexError` -/
inductive Err where
  | parseInt (k : IntErr)
  | hexFormat
  | rgbaHexFormat
  deriving DecidableEq, Repr

inductive Outcome (α : Type) where
  | ok (v : α)
  | err (e : Err)
  | panic
  deriving Repr

instance [DecidableEq α] : DecidableEq (Outcome α) := fun a b =>
  match a, b with
  | .ok x, .ok y => if h : x = y then isTrue (by rw [h]) else isFalse (fun e => h (by cases e; rfl))
  | .err x, .err y => if h : x = y then isTrue (by rw [h]) else isFalse (fun e => h (by cases e; rfl))
  | .panic, .panic => isTrue rfl
  | .ok _, .err _ | .ok _, .panic | .err _, .ok _ | .err _, .panic | .panic, .ok _ | .panic, .err _ =>
    isFalse (fun e => by cases e)

/-- `?` -/
@[inline] def Outcome.bind (x : Outcome α) (f : α → Outcome β) : Outcome β :=
  match x with
  | .ok v => f v
  | .err e => .err e
  | .panic => .panic

/-- `Ok(x?.f())` -/
@[inline] def Outcome.map (f : α → β) (x : Outcome α) : Outcome β := x.bind fun v => .ok (f v)

def Outcome.isOk : Outcome α → Bool
  | .ok _ => true
  | _ => false

/-! ## `core` -/

/-- `char::is_ascii_hexdigit` on a byte -/
def isHexDigit (b : UInt8) : Bool :=
  let n := b.toNat
  (48 ≤ n && n ≤ 57) || (65 ≤ n && n ≤ 70) || (97 ≤ n && n ≤ 102)

/-- `(c as char).to_digit(16)` -/
def toDigit (b : UInt8) : Option Nat :=
  let n := b.toNat
  if 48 ≤ n && n ≤ 57 then some (n - 48)
  else if 97 ≤ n && n ≤ 102 then some (n - 87)
  else if 65 ≤ n && n ≤ 70 then some (n - 55)
  else none

/-- digit loop of `from_ascii_radix`: an invalid digit is reported before an overflow at the same position
    (the unchecked fast path of short inputs computes the same value, it cannot overflow) -/
def digitsLoop (bits : Nat) : Bytes → Nat → Except IntErr Nat
  | [], acc => .ok acc
  | c :: cs, acc =>
    match toDigit c with
    | none => .error .invalidDigit
    | some x => if acc * 16 + x < 2 ^ bits then digitsLoop bits cs (acc * 16 + x) else .error .posOverflow

/-- `uN::from_str_radix(src, 16)` for an unsigned `N = bits`: empty → `Empty`; a lone sign → `InvalidDigit`;
    one leading `+` is skipped; `-` is not a sign for unsigned types and fails as a digit -/
def fromStrRadix16 (bits : Nat) (src : Bytes) : Except IntErr Nat :=
  match src with
  | [] => .error .empty
  | [c] => if c.toNat = 43 ∨ c.toNat = 45 then .error .invalidDigit else digitsLoop bits [c] 0
  | c :: rest => if c.toNat = 43 then digitsLoop bits rest 0 else digitsLoop bits (c :: rest) 0

/-- `str::is_char_boundary(i)`: start, end, or a byte that is not a UTF-8 continuation byte (`(b as i8) >= -0x40`) -/
def isCharBoundary (s : Bytes) (i : Nat) : Bool :=
  if i = 0 then true
  else if s.length ≤ i then i = s.length
  else let b := (s.getD i 0).toNat; b < 128 || 192 ≤ b

/-- `&s[i..j]`; `none` is the panic of `str` indexing -/
def slice (s : Bytes) (i j : Nat) : Option Bytes :=
  if i ≤ j ∧ isCharBoundary s i ∧ isCharBoundary s j then some ((s.drop i).take (j - i)) else none

/-- `hex.strip_prefix('#').map_or(hex, |stripped| stripped)` -/
def stripHash : Bytes → Bytes
  | [] => []
  | c :: r => if c.toNat = 35 then r else c :: r

/-! ## `rgb/hex.rs` -/

/-- `uN::from_str_radix(&hex[i..j], 16)?` (the `?` lands in `FromHexError::ParseIntError`) -/
def comp (bits : Nat) (hex : Bytes) (i j : Nat) : Outcome Nat :=
  match slice hex i j with
  | none => .panic
  | some t =>
    match fromStrRadix16 bits t with
    | .ok v => .ok v
    | .error k => .err (.parseInt k)

/-- `check_hex_digits` (the D3 repair).  The Rust walks `char`s; a `char` is an ASCII hex digit iff it is one byte
    and that byte is one, and all bytes of a multi-byte character are ≥ 0x80, so "every char" = "every byte".
    The error is what `u8::from_str_radix` says about the offending character alone: `InvalidDigit`. -/
def checkHexDigits (hex : Bytes) : Outcome Unit :=
  if hex.all isHexDigit then .ok () else .err (.parseInt .invalidDigit)

def rgbFromHex4bitBody (hex : Bytes) : Outcome (List Nat) :=
  (comp 8 hex 0 1).bind fun red =>
  (comp 8 hex 1 2).bind fun green =>
  (comp 8 hex 2 3).bind fun blue =>
  .ok [red * 17, green * 17, blue * 17]

def rgbaFromHex4bitBody (rgb : Bytes → Outcome (List Nat)) (hex : Bytes) : Outcome (List Nat) :=
  (rgb hex).bind fun c =>
  (comp 8 hex 3 4).bind fun alpha =>
  .ok (c ++ [alpha * 17])

def rgbFromHexBody (bits : Nat) (hex : Bytes) : Outcome (List Nat) :=
  let w := bits / 4
  (comp bits hex 0 w).bind fun red =>
  (comp bits hex w (2 * w)).bind fun green =>
  (comp bits hex (2 * w) (3 * w)).bind fun blue =>
  .ok [red, green, blue]

def rgbaFromHexBody (bits : Nat) (rgb : Bytes → Outcome (List Nat)) (hex : Bytes) : Outcome (List Nat) :=
  let w := bits / 4
  (rgb hex).bind fun c =>
  (comp bits hex (3 * w) (4 * w)).bind fun alpha =>
  .ok (c ++ [alpha])

def rgbFromHex4bit (hex : Bytes) : Outcome (List Nat) := (checkHexDigits hex).bind fun _ => rgbFromHex4bitBody hex
def rgbaFromHex4bit (hex : Bytes) : Outcome (List Nat) := rgbaFromHex4bitBody rgbFromHex4bit hex
def rgbFromHex8bit (hex : Bytes) : Outcome (List Nat) := (checkHexDigits hex).bind fun _ => rgbFromHexBody 8 hex
def rgbaFromHex8bit (hex : Bytes) : Outcome (List Nat) := rgbaFromHexBody 8 rgbFromHex8bit hex
def rgbFromHex16bit (hex : Bytes) : Outcome (List Nat) := (checkHexDigits hex).bind fun _ => rgbFromHexBody 16 hex
def rgbaFromHex16bit (hex : Bytes) : Outcome (List Nat) := rgbaFromHexBody 16 rgbFromHex16bit hex
def rgbFromHex32bit (hex : Bytes) : Outcome (List Nat) := (checkHexDigits hex).bind fun _ => rgbFromHexBody 32 hex
def rgbaFromHex32bit (hex : Bytes) : Outcome (List Nat) := rgbaFromHexBody 32 rgbFromHex32bit hex

/-! ## the `FromStr` impls of `rgb/rgb.rs`, in source order.  Components are `[red, green, blue(, alpha)]`.
    `into_format()` between integer widths is `Stim.widen` (C06's model of `stimulus.rs`); into a float type it is
    the parameter `conv srcBits n` (executed with `Stim.uintToF32/64`, left abstract in the theorems). -/

def fromStrRgbU8 (hex : Bytes) : Outcome (List Nat) :=
  let hexCode := stripHash hex
  if hexCode.length = 3 then rgbFromHex4bit hexCode
  else if hexCode.length = 6 then rgbFromHex8bit hexCode
  else .err .hexFormat

def fromStrRgbaU8 (hex : Bytes) : Outcome (List Nat) :=
  let hexCode := stripHash hex
  if hexCode.length = 4 then rgbaFromHex4bit hexCode
  else if hexCode.length = 8 then rgbaFromHex8bit hexCode
  else .err .rgbaHexFormat

def fromStrRgbU16 (hex : Bytes) : Outcome (List Nat) :=
  let hexCode := stripHash hex
  if hexCode.length = 3 ∨ hexCode.length = 6 then (fromStrRgbU8 hexCode).map (List.map (Stim.widen 8 16))
  else if hexCode.length = 12 then rgbFromHex16bit hexCode
  else .err .hexFormat

def fromStrRgbaU16 (hex : Bytes) : Outcome (List Nat) :=
  let hexCode := stripHash hex
  if hexCode.length = 4 ∨ hexCode.length = 8 then (fromStrRgbaU8 hexCode).map (List.map (Stim.widen 8 16))
  else if hexCode.length = 16 then rgbaFromHex16bit hexCode
  else .err .rgbaHexFormat

def fromStrRgbU32 (hex : Bytes) : Outcome (List Nat) :=
  let hexCode := stripHash hex
  if hexCode.length = 3 ∨ hexCode.length = 6 then (fromStrRgbU8 hexCode).map (List.map (Stim.widen 8 32))
  else if hexCode.length = 12 then (fromStrRgbU16 hexCode).map (List.map (Stim.widen 16 32))
  else if hexCode.length = 24 then rgbFromHex32bit hexCode
  else .err .hexFormat

def fromStrRgbaU32 (hex : Bytes) : Outcome (List Nat) :=
  let hexCode := stripHash hex
  if hexCode.length = 4 ∨ hexCode.length = 8 then (fromStrRgbaU8 hexCode).map (List.map (Stim.widen 8 32))
  else if hexCode.length = 16 then (fromStrRgbaU16 hexCode).map (List.map (Stim.widen 16 32))
  else if hexCode.length = 32 then rgbaFromHex32bit hexCode
  else .err .rgbaHexFormat

def fromStrRgbF32 (conv : Nat → Nat → φ) (hex : Bytes) : Outcome (List φ) :=
  let hexCode := stripHash hex
  if hexCode.length = 3 ∨ hexCode.length = 6 then (fromStrRgbU8 hexCode).map (List.map (conv 8))
  else if hexCode.length = 12 then (fromStrRgbU16 hexCode).map (List.map (conv 16))
  else .err .hexFormat

def fromStrRgbaF32 (conv : Nat → Nat → φ) (hex : Bytes) : Outcome (List φ) :=
  let hexCode := stripHash hex
  if hexCode.length = 4 ∨ hexCode.length = 8 then (fromStrRgbaU8 hexCode).map (List.map (conv 8))
  else if hexCode.length = 16 then (fromStrRgbaU16 hexCode).map (List.map (conv 16))
  else .err .rgbaHexFormat

def fromStrRgbF64 (conv : Nat → Nat → φ) (hex : Bytes) : Outcome (List φ) :=
  let hexCode := stripHash hex
  if hexCode.length = 3 ∨ hexCode.length = 6 then (fromStrRgbU8 hexCode).map (List.map (conv 8))
  else if hexCode.length = 12 then (fromStrRgbU16 hexCode).map (List.map (conv 16))
  else if hexCode.length = 24 then (fromStrRgbU32 hexCode).map (List.map (conv 32))
  else .err .hexFormat

def fromStrRgbaF64 (conv : Nat → Nat → φ) (hex : Bytes) : Outcome (List φ) :=
  let hexCode := stripHash hex
  if hexCode.length = 4 ∨ hexCode.length = 8 then (fromStrRgbaU8 hexCode).map (List.map (conv 8))
  else if hexCode.length = 16 then (fromStrRgbaU16 hexCode).map (List.map (conv 16))
  else if hexCode.length = 32 then (fromStrRgbaU32 hexCode).map (List.map (conv 32))
  else .err .rgbaHexFormat

/-! ## the code as it was before the D3 repair (no `check_hex_digits`): only for the witnesses in `C12_Hex` -/
namespace Legacy
def rgbFromHex4bit (hex : Bytes) : Outcome (List Nat) := rgbFromHex4bitBody hex
def rgbFromHex8bit (hex : Bytes) : Outcome (List Nat) := rgbFromHexBody 8 hex
def fromStrRgbU8 (hex : Bytes) : Outcome (List Nat) :=
  let hexCode := stripHash hex
  if hexCode.length = 3 then rgbFromHex4bit hexCode
  else if hexCode.length = 6 then rgbFromHex8bit hexCode
  else .err .hexFormat
end Legacy

/-! ## `LowerHex` / `UpperHex` -/

/-- one hex digit (`d < 16`) as an ASCII byte -/
def digitChar (upper : Bool) (d : Nat) : UInt8 :=
  if d < 10 then UInt8.ofNat (48 + d) else if upper then UInt8.ofNat (55 + d) else UInt8.ofNat (87 + d)

/-- digits of `n`, most significant first, no leading zeros, `"0"` for zero (`fuel` ≥ number of digits) -/
def hexDigits (upper : Bool) : Nat → Nat → Bytes
  | 0, _ => []
  | fuel + 1, n => (if n / 16 = 0 then [] else hexDigits upper fuel (n / 16)) ++ [digitChar upper (n % 16)]

/-- `{:0width$x}` / `{:0width$X}` of an unsigned integer below 2^128: zero-padded to *at least* `width` -/
def fmtComp (upper : Bool) (width : Nat) (n : Nat) : Bytes :=
  let ds := hexDigits upper 32 n
  List.replicate (width - ds.length) 48 ++ ds

/-- `LowerHex`/`UpperHex for Rgb<S, T>`: `size = f.width().unwrap_or(size_of::<T>() * 2)`, components in r, g, b order -/
def fmtRgb (upper : Bool) (width : Option Nat) (sizeOfT : Nat) (c : List Nat) : Bytes :=
  let size := width.getD (sizeOfT * 2)
  c.flatMap (fmtComp upper size)

/-- `LowerHex`/`UpperHex for Alpha<C, T>`: `"{:0width$x}{:0width$x}"` of the colour and the alpha with
    `width = size`; the colour's own impl sees that width.  `c = [r, g, b, a]`. -/
def fmtRgba (upper : Bool) (width : Option Nat) (sizeOfT : Nat) (c : List Nat) : Bytes :=
  let size := width.getD (sizeOfT * 2)
  fmtRgb upper (some size) sizeOfT (c.take 3) ++ (c.drop 3).flatMap (fmtComp upper size)

end Hex
