/-
  Second part of the hand-written prelude of the translated Rust bodies (`tools/rust2lean.py`), for the families added after
  C01/C02: CAM16 (`Gen/BodiesCam16.lean`), colour difference (`Gen/BodiesDiff.lean`), blending (`Gen/BodiesBlend.lean`).
  Like `BodyPrim.lean` it only gives a Lean reading to constructs that are not themselves float code of the translated
  functions; everything is a plain definition / structure that `rfl` sees through.

  No Mathlib import (the generated files live under `PaletteModel/`).
-/
import PaletteModel.BodyPrim

namespace Prim
variable {α : Type} [Scalar α]

/-- `Powi::powi(self, 7)` for `f32`/`f64`: `llvm.powi` with the constant exponent 7, expanded by square-and-multiply
    (`x·x²`, then `·x⁴`) — the reading `Diff.powi7` transcribes; stated here so that the translator does not depend on the model -/
def powi7 (x : α) : α :=
  let x2 := x * x
  let x3 := x * x2
  let x4 := x2 * x2
  x3 * x4

/-- `struct Adapt<T> { f_l: T }` (cam16/math.rs).  The model `Cam16.Dep` stores the field flat (`adaptFL`); the translator
    rebuilds the Rust struct where the source reads `parameters.adapt` and projects it where the source builds `DependentParameters`. -/
structure Adapt (α : Type) where
  fL : α

/-- `struct Unadapt<T> { constant: T, exponent: T }` (cam16/math.rs); flat in `Cam16.Dep` as `unadaptConstant`, `unadaptExponent` -/
structure Unadapt (α : Type) where
  constant : α
  exponent : α

end Prim

namespace Prim
variable {α : Type} [Scalar α]

/-! ### blending: a generic colour `C: ArrayCast<Array = [T; N]>` is the list of its components -/

/-- `for (src, dst) in zip_colors(x, &mut y) { *dst = f(src, *dst); }` (blend.rs `zip_colors`: the components of `x` by value zipped with
    mutable references to the components of `y`); both arrays have the same length `N`, the shorter list rules otherwise -/
def zipWith (f : α → α → α) : List α → List α → List α
  | x :: xs, y :: ys => f x y :: zipWith f xs ys
  | _, _ => []

/-- the loop of `blend_separable` over `zip_input(src, dst, &mut dst_pre, dst_alpha)` (blend/blend.rs): the four cast arrays
    `src.color`, `src.color_pre`, `dst`, `dst_pre` in lock step, the new `dst_pre[i]` computed from the four i-th components -/
def zip4With (f : α → α → α → α → α) : List α → List α → List α → List α → List α
  | a :: as, b :: bs, c :: cs, d :: ds => f a b c d :: zip4With f as bs cs ds
  | _, _, _, _ => []

/-- `struct Parameters { source, destination }` of blend/equations.rs (the model `Blend.Equations` stores the two pairs flat) -/
structure ParamPair (β : Type) where
  source : β
  destination : β

/-- `PreAlpha<C>` at a three-component colour `C` (the instantiations of `impl_premultiply!` that are translated) -/
abbrev PreAlpha3 (α : Type) := V3 α × α

end Prim
