/-
  Protocol handlers of C19.

    smpstd  <Ty> <f32|f64> <plain|alpha> | wx wy wz  g1..gk [gAlpha]                      | c1..cn [alpha]
    smpuni  <Ty> <f32|f64> <new|incl> <plain|alpha> | lo1..lon [aLo]  hi1..hin [aHi]  u1..uk [uAlpha] | c1..cn [alpha]
    smpmeta <Ty> <f32|f64> | wx wy wz | n name1..namen  k (idx lo (hi|-))*k

  `g` are the `rng.gen::<T>()` values of the scripted generator, `u` the fractions `value0_1` that rand's
  `UniformFloat::sample` forms from the scripted words (obtained by the harness through `Uniform::new(0, 1)` on a clone of the
  generator), all in the order in which palette's code consumes the generator.

  rand's `UniformFloat` (rand 0.8, distributions/uniform.rs) — the *instance of the model's parameter* used for the replay:
      new:            scale = high - low;              while scale * max_rand + low >= high { scale = prev(scale) }
      new_inclusive:  scale = (high - low) / max_rand; while scale * max_rand + low >  high { scale = prev(scale) }
      sample:         value0_1 * scale + low
  with `max_rand = 1 - 2^-23` (f32) / `1 - 2^-52` (f64).
-/
import PaletteModel.Proto
import PaletteModel.Sampling

namespace Sampling
open Proto Gen.Sampling

/-- what the driver needs from a concrete float type besides `Scalar` -/
class RandPrim (α : Type) [Scalar α] where
  maxRand : α
  prev : α → α                 -- `from_bits(to_bits() - 1)`
  parse? : String → Option α
  render : α → String
  close : α → α → α → Nat → Bool   -- closeAbs
  absv : α → α
  isNaN : α → Bool
  tag : String

instance : RandPrim Float where
  maxRand := 1.0 - Float.ofScientific 2220446049250313080847263336181640625 true 52  -- 2^-52
  prev := fun x => Float.ofBits (x.toBits - 1)
  parse? := f64?
  render := showF64
  close := closeAbs64
  absv := Float.abs
  isNaN := Float.isNaN
  tag := "f64"

instance : RandPrim Float32 where
  maxRand := (1.0 : Float32) - Float32.ofScientific 11920928955078125 true 23          -- 2^-23
  prev := fun x => Float32.ofBits (x.toBits - 1)
  parse? := f32?
  render := showF32
  close := closeAbs32
  absv := Float32.abs
  isNaN := Float32.isNaN
  tag := "f32"

section generic
variable {α : Type} [Scalar α] [RandPrim α]

def randScale (incl : Bool) (iv : Iv α) : α := Id.run do
  let mr : α := RandPrim.maxRand
  let mut scale := if incl then (iv.hi - iv.lo) / mr else iv.hi - iv.lo
  for _ in [0:4000000] do   -- rand decrements one ulp of `scale` at a time: up to ulp(high)/ulp(scale) rounds
    let top := scale * mr + iv.lo
    if (if incl then decide (iv.hi < top) else decide (iv.hi ≤ top)) then scale := RandPrim.prev scale else break
  return scale

/-- rand's precondition (`assert!(low < high)` / `assert!(low <= high)`) -/
def randOk (incl : Bool) (iv : Iv α) : Bool := if incl then decide (iv.lo ≤ iv.hi) else decide (iv.lo < iv.hi)

def randDraw (incl : Bool) (iv : Iv α) (u : α) : α := u * randScale incl iv + iv.lo

def boolTok (b : Bool) : String := if b then "1" else "0"

/-- natural scale of a component for the comparison of a uniform sample: the larger end of the component (at least 1; 360 for
    a hue, whose ends may be any representative of the angle) -/
def scaleOf (names : List String) (lo hi : List α) (i : Nat) : α :=
  let one : α := 1.0
  if names.getD i "" == "hue" then (360.0 : α) else
  match lo[i]?, hi[i]? with
  | some l, some h => Scalar.max one (Scalar.max (RandPrim.absv l) (RandPrim.absv h))
  | _, _ => one

def closeAll (scales model impl : List α) : Bool :=
  model.length == impl.length && scales.length == model.length &&
  (List.range model.length).all fun i =>
    match model[i]?, impl[i]?, scales[i]? with
    | some m, some y, some s => RandPrim.close m y s 4
    | _, _, _ => false

def showList (xs : List α) : String := " ".intercalate (xs.map RandPrim.render)

def handleStd (ty : Ty) (alpha : Bool) (inp outp : List String) : Verdict :=
  match inp.mapM (RandPrim.parse? (α := α)), outp.mapM (RandPrim.parse? (α := α)) with
  | some (wx :: wy :: wz :: g), some impl =>
    let (gc, ga) := if alpha then (g.dropLast, g.getLast?) else (g, none)
    let col := standard ty wx wy wz gc
    if col.isEmpty then .bad s!"smpstd: wrong number of draws for {ty.name}" else
    let model := match ga with | some a => col ++ [a] | none => col
    -- Standard values are compared in ulps of the component's own range: the model evaluated at the extreme draws 0 and 1
    let zeros := gc.map fun _ => (0.0 : α)
    let ones := gc.map fun _ => (1.0 : α)
    let sc := ((standard ty wx wy wz zeros).zip (standard ty wx wy wz ones)).map fun (a, b) =>
      Scalar.max (1.0 : α) (Scalar.max (RandPrim.absv a) (RandPrim.absv b))
    let sc := if alpha then sc ++ [(1.0 : α)] else sc
    if closeAll sc model impl then .agree [s!"std:{ty.name}:{RandPrim.tag α}"]
    else .disagree s!"model={showList model}"
  | _, _ => .bad "smpstd: unparsable"

def handleUni (ty : Ty) (incl alpha : Bool) (inp outp : List String) : Verdict :=
  match inp.mapM (RandPrim.parse? (α := α)), outp with
  | some xs, outp =>
    let names := comps ty
    let n := names.length + (if alpha then 1 else 0)
    let lo := xs.take n
    let hi := (xs.drop n).take n
    let us := xs.drop (2 * n)
    let ivs := if alpha then alphaEnds ty (lo.take (n - 1)) (hi.take (n - 1)) (lo.getD (n - 1) (0.0 : α)) (hi.getD (n - 1) (0.0 : α))
               else uniformEnds ty lo hi
    if ivs.isEmpty then .bad s!"smpuni: wrong number of components for {ty.name}" else
    if us.length != ivs.length then .bad s!"smpuni: {us.length} fractions for {ivs.length} primitive samplers" else
    -- rand's own precondition decides whether construction panics
    if !(ivs.all (randOk incl)) then
      if outp == ["panic"] then .agree [s!"uni:{ty.name}:rand-precondition-panic"] else .disagree "model: rand's precondition fails (construction panics)"
    else
    match outp.mapM (RandPrim.parse? (α := α)) with
    | none => .disagree s!"implementation reports {outp} but rand's preconditions hold in the model"
    | some impl =>
      let ds := (ivs.zip us).map fun (iv, u) => randDraw incl iv u
      let model := if alpha then alphaSample ty ds.dropLast (ds.getLast?.getD (0.0 : α)) else uniformSample ty ds
      let names' := if alpha then names ++ ["alpha"] else names
      let hueIv := match family ty with
        | .cartesian => none
        | .cylinder => ivs[2]?
        | _ => ivs[0]?
      let wrapTag := match hueIv with
        | some iv => if decide ((360.0 : α) ≤ iv.hi) then ":hue-unwrapped" else ":hue-plain"
        | none => ""
      let biTag := match family ty, ds with
        | .hsl_bicone, [_, d1, _] => if decide (d1 ≤ (0.5 : α)) then ":lower-cone" else ":upper-cone"
        | _, _ => ""
      if closeAll ((List.range names'.length).map (scaleOf names' lo hi)) model impl then
        .agree [s!"uni:{ty.name}:{RandPrim.tag α}:{if incl then "incl" else "new"}{wrapTag}{biTag}"]
      else .disagree s!"model={showList model} draws={showList ds}"
  | _, _ => .bad "smpuni: unparsable"

/-- cross-check of the extraction: component names and `is_within_bounds` numbers printed through the public accessors -/
def handleMeta (ty : Ty) (inp outp : List String) : Verdict :=
  match inp.mapM (RandPrim.parse? (α := α)) with
  | some [wx, wy, wz] =>
    let names := comps ty
    let bs := stdBounds ty wx wy wz
    let want : List String := [toString names.length] ++ names ++ [toString bs.length] ++
      bs.flatMap fun (i, l, h) => [toString i, RandPrim.render l, match h with | some h => RandPrim.render h | none => "-"]
    -- `-0.0` never occurs; bounds are compared as bit patterns
    if want == outp then .agree [s!"meta:{ty.name}"] else .disagree s!"extracted={want}"
  | _ => .bad "smpmeta: unparsable"

end generic

def tyOf? (s : String) : Option Ty := Ty.all.find? (fun t => t.name == s)

def handle (op : String) (cfg inp outp : List String) : Verdict :=
  match op, cfg with
  | "smpstd", [t, fl, al] =>
    match tyOf? t with
    | none => .bad s!"unknown sampled type {t}"
    | some ty => if fl == "f32" then handleStd (α := Float32) ty (al == "alpha") inp outp else handleStd (α := Float) ty (al == "alpha") inp outp
  | "smpuni", [t, fl, k, al] =>
    match tyOf? t with
    | none => .bad s!"unknown sampled type {t}"
    | some ty =>
      if fl == "f32" then handleUni (α := Float32) ty (k == "incl") (al == "alpha") inp outp
      else handleUni (α := Float) ty (k == "incl") (al == "alpha") inp outp
  | "smpmeta", [t, fl] =>
    match tyOf? t with
    | none => .bad s!"unknown sampled type {t}"
    | some ty => if fl == "f32" then handleMeta (α := Float32) ty inp outp else handleMeta (α := Float) ty inp outp
  | _, _ => .bad "malformed sampling line"

end Sampling
