/-
  Hand-written prelude of the family `soa` of the translator (`tools/rust2lean_soa.py` -> `Gen/BodiesSoa.lean`,
  tied in `PaletteProofs/Tie_Soa.lean`): readings of the `std` / language constructs the struct-of-arrays macro bodies
  (`palette/src/macros/struct_of_arrays.rs`, `alpha::Iter` and `Extend` / `FromIterator` of `alpha/alpha.rs`) are made of.

  `Vec<T>` / `[T]` / `Box<[T]>` / `[T; N]` contents are a `List α`; every reading below is the *column operation of
  `PaletteModel/Soa.lean`* (`drainCol`, `sliceCol`, `splitCol`, `Rng.resolve`, append / `dropLast` / `getLast?` / `[i]?`), i.e.
  exactly what the C18 model assumes about `Vec` (spec/props.json C18 `trusted`, DESIGN 2.9-2; replayed against the real `Vec`
  by the correspondence run).  Nothing here is proved about `std`; each line says what the Rust reference documents.

  A colour struct whose components are collections is the vector of its columns in the order the *invocation* lists them
  (`hue` first if the macro is a `_hue` one, then the `[..]` element list): `Soa.Cols α k`; a colour value is `Soa.Row α k`; the
  generated `Iter<I>` struct is `Vector (ColIter α) k`.  `Alpha<C, A>` over them is `Soa.Nest α k` resp. `AIter`.

  No Mathlib import (the driver links `PaletteModel`).
-/
import PaletteModel.Soa
import PaletteModel.SoaNested
import PaletteModel.BodyPrimGlue

namespace SoaPrim
open Soa

/-- `Vec::with_capacity(n)`: "constructs a new, empty `Vec<T>` with at least the specified capacity" (capacity is not contents) -/
def vecWithCapacity {α : Type} (_capacity : Nat) : List α := []

/-- `C::default()` for `Vec<T>`: "creates an empty `Vec<T>`" -/
def vecDefault {α : Type} : List α := []

/-- `Vec::push(x)`: "appends an element to the back of a collection" -/
def vecPush {α : Type} (c : List α) (x : α) : List α := c ++ [x]

/-- `c.extend(core::iter::once(x))` (`Extend<T> for Vec<T>`: "extends a collection with the contents of an iterator"; `once(x)` yields
    exactly `x`) -/
def vecExtendOnce {α : Type} (c : List α) (x : α) : List α := c ++ [x]

/-- `Vec::pop()`: "removes the last element from a vector and returns it, or `None` if it is empty": `(new contents, result)` -/
def vecPop {α : Type} (c : List α) : List α × Option α := (c.dropLast, c.getLast?)

/-- `Vec::clear()`: "clears the vector, removing all values" -/
def vecClear {α : Type} (_c : List α) : List α := []

/-- the iterator over one column (`slice::Iter`, `slice::IterMut`, `vec::Drain`, `vec::IntoIter`, `array::IntoIter`): `rest` is what it
    can still yield; `pre` / `post` record what it yielded from the front / back (for `IterMut`: the places handed out) -/
structure ColIter (α : Type) where
  pre : List α
  rest : List α
  post : List α

/-- `IntoIterator::into_iter` of a column (by value, `&`, `&mut`, `&*`, `&mut *` forms alike): iterates the contents front to back -/
def colIntoIter {α : Type} (c : List α) : ColIter α := { pre := [], rest := c, post := [] }

/-- `Iterator::next`: "advances the iterator and returns the next value; `None` when iteration is finished": `(iterator after, item)` -/
def ColIter.next {α : Type} (it : ColIter α) : ColIter α × Option α :=
  ({ pre := it.pre ++ (match it.rest.head? with | none => [] | some x => [x]), rest := it.rest.tail, post := it.post }, it.rest.head?)

/-- `DoubleEndedIterator::next_back`: "removes and returns an element from the end of the iterator" -/
def ColIter.nextBack {α : Type} (it : ColIter α) : ColIter α × Option α :=
  ({ pre := it.pre, rest := it.rest.dropLast, post := (match it.rest.getLast? with | none => [] | some x => [x]) ++ it.post }, it.rest.getLast?)

/-- `ExactSizeIterator::len`: "the exact remaining length of the iterator" -/
def ColIter.len {α : Type} (it : ColIter α) : Nat := it.rest.length

/-- `Iterator::size_hint` of the five column iterators: `(n, Some(n))` with `n` the remaining length (trusted as in `Soa.Zip.sizeHint`) -/
def ColIter.sizeHint {α : Type} (it : ColIter α) : Nat × Option Nat := (it.rest.length, some it.rest.length)

/-- `Iterator::count`: "consumes the iterator, counting the number of iterations" -/
def ColIter.count {α : Type} (it : ColIter α) : Nat := it.rest.length

/-- result of a method that may panic while it mutates `self` (`Vec::drain` "panics if the starting point is greater than the end point
    or if the end point is greater than the length of the vector"): the receiver as it is left, and the value if there was no panic.
    `ok s v`: `s` is the receiver *after the returned `Drain`s are dropped* (std: "the full range is removed even if the iterator is not
    consumed until the end"); `panic s`: the receiver after unwinding (the `Drain`s created before the panic are dropped) -/
inductive Outcome (σ β : Type) where
  | ok (s : σ) (v : β)
  | panic (s : σ)

/-- `Vec::drain(range)` on one column: `none` = panic (nothing touched), else `(contents once the Drain is dropped, the Drain)` -/
def vecDrain {α : Type} (c : List α) (r : Rng) : Option (List α × ColIter α) :=
  (drainCol r c).map fun p => (p.1, colIntoIter p.2)

/-- `slice::get(i)` with `i: usize`: "`None` if out of bounds" -/
def sliceGet {α : Type} (c : List α) (i : Nat) : Option α := c[i]?

/-- `slice::get(range)`: the sub-slice, "`None` if out of bounds" (`Rng.resolve`) -/
def sliceGetRange {α : Type} (c : List α) (r : Rng) : Option (List α) := sliceCol r c

/-- `slice::get_mut(i)`: the place at `i` (its current value; the write through it is `List.set i`, applied by the caller of the body) -/
def sliceGetMut {α : Type} (c : List α) (i : Nat) : Option α := c[i]?

/-- `slice::get_mut(range)`: the sub-slice with what surrounds it (so that writes through it land in the column): `(before, window, after)` -/
def sliceGetMutRange {α : Type} (c : List α) (r : Rng) : Option (List α × List α × List α) := splitCol r c

/-- `for x in iter { body }` over a finite iterator given as the list of its items, threading the mutated receiver -/
def forIn {σ ρ : Type} (items : List ρ) (init : σ) (body : σ → ρ → σ) : σ := items.foldl body init

/-- `alpha::Iter<C, A>` (alpha/alpha.rs: `pub struct Iter<C, A> { pub(crate) color: C, pub(crate) alpha: A }`) -/
structure AIter (γ τ : Type) where
  color : γ
  alpha : τ

/-! ## views used by the tie statements (how a translated value is read as the model's) -/

/-- the generated `Iter<I>` struct (one column iterator per column) as the model's `Soa.Zip` -/
def toZip {α : Type} {k : Nat} (it : Vector (ColIter α) k) : Zip α k :=
  { pre := it.map (·.pre), rest := it.map (·.rest), post := it.map (·.post) }

/-- `alpha::Iter<C, A>` over the model's colour iterator and one column iterator, as the model's `Soa.NZip`, and back -/
def nzipOf {α : Type} {k : Nat} (it : AIter (Zip α k) (ColIter α)) : NZip α k :=
  { color := it.color, pre := it.alpha.pre, rest := it.alpha.rest, post := it.alpha.post }
def ofNZip {α : Type} {k : Nat} (z : NZip α k) : AIter (Zip α k) (ColIter α) :=
  { color := z.color, alpha := { pre := z.pre, rest := z.rest, post := z.post } }

/-- `alpha::Iter<Iter<I>, I>` as the model's `Soa.NZip` -/
def toNZip {α : Type} {k : Nat} (it : AIter (Vector (ColIter α) k) (ColIter α)) : NZip α k :=
  nzipOf { color := toZip it.color, alpha := it.alpha }

/-- an `Alpha<Color<T>, T>` value built from its two halves, as the flat row of the model (`Soa.joinItem`) -/
def joinAlpha {α : Type} {k : Nat} (p : Prim.AlphaOf (Row α k) α) : Row α (k + 1) := p.color.push p.alpha

/-- an `Alpha<Color<C>, C>` collection / an `Alpha` colour value as the generic pair the dictionary-passing bodies of alpha.rs work on -/
def nestPair {α : Type} {k : Nat} (n : Nest α k) : Prim.AlphaOf (Cols α k) (List α) := { color := n.color, alpha := n.alpha }
def pairNest {α : Type} {k : Nat} (p : Prim.AlphaOf (Cols α k) (List α)) : Nest α k := { color := p.color, alpha := p.alpha }
def rowPair {α : Type} {k : Nat} (r : Row α (k + 1)) : Prim.AlphaOf (Row α k) α := { color := rowColor r, alpha := rowAlpha r }

/-- a `&mut self` method returning `Option<Color>` as a model step -/
def obsItem {α : Type} {k : Nat} (r : Cols α k × Option (Row α k)) : Cols α k × Obs α k := (r.1, .item r.2)

/-- `drain(range)` followed by a read-only iterator script and `drop`, as a model step: the observation is what the model's iterator
    yields on the drained columns -/
def obsDrain {α : Type} {k : Nat} (r : Outcome (Cols α k) (Vector (ColIter α) k)) (script : List (Step α k)) : Cols α k × Obs α k :=
  match r with
  | .ok s it => (s, .steps ((toZip it).run (script.map Step.readOnly)).2)
  | .panic s => (s, .panic)

def obsDrainN {α : Type} {k : Nat} (r : Outcome (Nest α k) (AIter (Vector (ColIter α) k) (ColIter α))) (script : List (Step α (k + 1))) :
    Nest α k × Obs α (k + 1) :=
  match r with
  | .ok s it => (s, .steps ((toNZip it).run (script.map Step.readOnly)).2)
  | .panic s => (s, .panic)

def obsItemN {α : Type} {k : Nat} (r : Nest α k × Option (Row α (k + 1))) : Nest α k × Obs α (k + 1) := (r.1, .item r.2)

/-- `get(range)` followed by a read-only iterator script over the returned slice-form colour -/
def obsSlice {α : Type} {k : Nat} (s : Cols α k) (o : Option (Cols α k)) (script : List (Step α k)) : Cols α k × Obs α k :=
  match o with
  | some sub => (s, .steps (runRead sub script))
  | none => (s, .noSlice)

def obsSliceN {α : Type} {k : Nat} (n : Nest α k) (o : Option (Nest α k)) (script : List (Step α (k + 1))) : Nest α k × Obs α (k + 1) :=
  match o with
  | some sub => (n, .steps (nrunRead sub.color sub.alpha script))
  | none => (n, .noSlice)

/-- `get_mut(i).map(|mut c| { old = c.copied(); c.set(w); old })`: the write goes through the places the body returned -/
def obsGetMut {α : Type} {k : Nat} (s : Cols α k) (o : Option (Row α k)) (i : Nat) (w : Row α k) : Cols α k × Obs α k :=
  match o with
  | some old => (Vector.zipWith (fun c x => c.set i x) s w, .item (some old))
  | none => (s, .item none)

def obsGetMutN {α : Type} {k : Nat} (n : Nest α k) (o : Option (Row α (k + 1))) (i : Nat) (w : Row α (k + 1)) : Nest α k × Obs α (k + 1) :=
  match o with
  | some old => ({ color := Vector.zipWith (fun c x => c.set i x) n.color (rowColor w), alpha := n.alpha.set i (rowAlpha w) }, .item (some old))
  | none => (n, .item none)

/-- `get_mut(range)` followed by an `iter_mut` script (with writes) over the returned `&mut [T]`-form colour, then dropped -/
def obsSplit {α : Type} {k : Nat} (s : Cols α k) (o : Option (Vector (List α × List α × List α) k)) (script : List (Step α k)) : Cols α k × Obs α k :=
  match o with
  | some v =>
    let res := (Zip.mk (v.map (·.1)) (v.map (·.2.1)) (v.map (·.2.2))).run script
    (res.1.close, .steps res.2)
  | none => (s, .noSlice)

def obsSplitN {α : Type} {k : Nat} (n : Nest α k) (o : Option (Prim.AlphaOf (Vector (List α × List α × List α) k) (List α × List α × List α)))
    (script : List (Step α (k + 1))) : Nest α k × Obs α (k + 1) :=
  match o with
  | some p =>
    let res := (NZip.mk (Zip.mk (p.color.map (·.1)) (p.color.map (·.2.1)) (p.color.map (·.2.2))) p.alpha.1 p.alpha.2.1 p.alpha.2.2).run script
    (res.1.close, .steps res.2)
  | none => (n, .noSlice)

end SoaPrim
