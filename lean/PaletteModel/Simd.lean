/-
  C17 — the component representation: scalar `f32`/`f64` versus SIMD vectors (`wide::{f32x4, f32x8, f64x2, f64x4}`).

  palette's generic code is written against a *mask-generic* interface: comparisons (`PartialCmp::lt`, …,
  `IsValidDivisor::is_valid_divisor`) return `T::Mask`, masks are combined with `& | ^ !` (`BitOps`) and consumed by
  `Select::select` / `LazySelect::lazy_select` (`bool_mask.rs`).  For `f32`/`f64` the mask is `bool` and `lazy_select`
  is an `if`; for the `wide` types the mask is a vector of all-ones / all-zeros lanes, **both** branches are evaluated
  and blended (`bool_mask/wide.rs`), and every numeric trait is the lane-wise operation (`num/wide.rs`).

  * `VScalar α μ`  — that interface (law-free), with
      - `ofScalar : [Scalar α] → VScalar α Bool`       (mask = `bool`, `select` = `if`) and
      - `lanes    : [VScalar α μ] → VScalar (Lanes n α) (Lanes n μ)`   (every operation lifted pointwise, comparisons
        produce masks, `select` is the lane-wise blend) for every lane count `n`.
  * model functions written once in the mask-generic style (`select (lt a b) x y`), as the Rust source is.
  * `Rgb → Hsv` / `Rgb → Hsl`: the one place where the two representations run different algorithms
    (`TypeId::of::<T::Mask>() == TypeId::of::<bool>()`, hsv.rs:281 / hsl.rs:281): both are transcribed.
  * array ↔ SIMD colour packing (`macros/simd.rs`).

  No Mathlib import (the driver links this file).
-/
import PaletteModel.Scalar
import PaletteModel.Color.Basic
import PaletteModel.Color.Cie

namespace Simd

/-- `BoolMask + BitOps` (bool_mask.rs) -/
class Mask (μ : Type) where
  and : μ → μ → μ
  or : μ → μ → μ
  xor : μ → μ → μ
  not : μ → μ
  /-- `BoolMask::from_bool` -/
  fromBool : Bool → μ
  /-- `BoolMask::is_true`: all lanes true -/
  isTrue : μ → Bool
  /-- `BoolMask::is_false`: all lanes false -/
  isFalse : μ → Bool

/-- the mask-generic component interface (`T: Real + Arithmetics + MinMax + PartialCmp + IsValidDivisor + …`,
    `T::Mask: BoolMask + BitOps + LazySelect<T>`) -/
class VScalar (α : Type) (μ : outParam Type) extends Add α, Sub α, Mul α, Div α, Neg α, OfScientific α, Mask μ where
  const : K → α
  abs : α → α
  sqrt : α → α
  cbrt : α → α
  exp : α → α
  ln : α → α
  floor : α → α
  ceil : α → α
  round : α → α
  sin : α → α
  cos : α → α
  powf : α → α → α
  atan2 : α → α → α
  min : α → α → α
  max : α → α → α
  /-- `PartialCmp` -/
  lt : α → α → μ
  le : α → α → μ
  eq : α → α → μ
  ne : α → α → μ
  ge : α → α → μ
  gt : α → α → μ
  /-- `IsValidDivisor::is_valid_divisor` -/
  isValidDivisor : α → μ
  /-- `Select::select(mask, a, b)` -/
  select : μ → α → α → α

/-! ### scalar representation: `Mask = bool` -/

instance instMaskBool : Mask Bool where
  and := (· && ·)
  or := (· || ·)
  xor := Bool.xor
  not := (!·)
  fromBool := id
  isTrue := id
  isFalse := (!·)

/-- `f32`/`f64` (any `Scalar`): `impl_has_bool_mask!`, `impl PartialCmp for f32` (`<`, `<=`, `==`, …), `impl Select<T> for bool` = `if` -/
instance ofScalar {α : Type} [Scalar α] : VScalar α Bool where
  const := Scalar.const
  abs := Scalar.abs
  sqrt := Scalar.sqrt
  cbrt := Scalar.cbrt
  exp := Scalar.exp
  ln := Scalar.ln
  floor := Scalar.floor
  ceil := Scalar.ceil
  round := Scalar.round
  sin := Scalar.sin
  cos := Scalar.cos
  powf := Scalar.powf
  atan2 := Scalar.atan2
  min := Scalar.min
  max := Scalar.max
  lt a b := decide (a < b)
  le a b := decide (a ≤ b)
  eq a b := decide (Scalar.eqv a b)
  ne a b := !decide (Scalar.eqv a b)
  ge a b := decide (b ≤ a)
  gt a b := decide (b < a)
  isValidDivisor := Scalar.isValidDivisor
  select m x y := if m = true then x else y

/-! ### SIMD representation: `n` lanes -/

/-- a SIMD vector with `n` lanes (`wide::f32x4` = `Lanes 4 Float32`, …) -/
abbrev Lanes (n : Nat) (α : Type) : Type := Fin n → α

/-- wide masks (`bool_mask/wide.rs`): lane-wise bit operations; `is_true` = `all()`, `is_false` = `none()` -/
instance instMaskLanes {n : Nat} {μ : Type} [Mask μ] : Mask (Lanes n μ) where
  and a b := fun i => Mask.and (a i) (b i)
  or a b := fun i => Mask.or (a i) (b i)
  xor a b := fun i => Mask.xor (a i) (b i)
  not a := fun i => Mask.not (a i)
  fromBool b := fun _ => Mask.fromBool b
  isTrue m := (List.finRange n).all fun i => Mask.isTrue (m i)
  isFalse m := (List.finRange n).all fun i => Mask.isFalse (m i)

/-- `num/wide.rs` + `bool_mask/wide.rs`: every operation lane by lane; `T::from_f64` = `splat`; comparisons produce masks;
    `select` = `blend`.  (`is_valid_divisor` as after the repair: the lane-wise scalar predicate.) -/
instance lanes {n : Nat} {α μ : Type} [VScalar α μ] : VScalar (Lanes n α) (Lanes n μ) where
  add a b := fun i => a i + b i
  sub a b := fun i => a i - b i
  mul a b := fun i => a i * b i
  div a b := fun i => a i / b i
  neg a := fun i => - a i
  ofScientific m s e := fun _ => OfScientific.ofScientific m s e
  const k := fun _ => VScalar.const k
  abs a := fun i => VScalar.abs (a i)
  sqrt a := fun i => VScalar.sqrt (a i)
  cbrt a := fun i => VScalar.cbrt (a i)
  exp a := fun i => VScalar.exp (a i)
  ln a := fun i => VScalar.ln (a i)
  floor a := fun i => VScalar.floor (a i)
  ceil a := fun i => VScalar.ceil (a i)
  round a := fun i => VScalar.round (a i)
  sin a := fun i => VScalar.sin (a i)
  cos a := fun i => VScalar.cos (a i)
  powf a b := fun i => VScalar.powf (a i) (b i)
  atan2 a b := fun i => VScalar.atan2 (a i) (b i)
  min a b := fun i => VScalar.min (a i) (b i)
  max a b := fun i => VScalar.max (a i) (b i)
  lt a b := fun i => VScalar.lt (a i) (b i)
  le a b := fun i => VScalar.le (a i) (b i)
  eq a b := fun i => VScalar.eq (a i) (b i)
  ne a b := fun i => VScalar.ne (a i) (b i)
  ge a b := fun i => VScalar.ge (a i) (b i)
  gt a b := fun i => VScalar.gt (a i) (b i)
  isValidDivisor a := fun i => VScalar.isValidDivisor (a i)
  select m a b := fun i => VScalar.select (m i) (a i) (b i)

/-- `FromScalar::from_scalar` = `splat` -/
def splat {n : Nat} {α : Type} (x : α) : Lanes n α := fun _ => x

/-! ## mask-generic model functions (each is one Rust function, generic in `T`) -/

section generic
variable {α μ : Type} [VScalar α μ]
open VScalar

/-- `lazy_select! { if c => a, else => b }` = `LazySelect::lazy_select(c, || a, || b)`: for `bool` an `if`, for SIMD masks
    `let a = a(); let b = b(); self.select(a, b)` — in a pure model both are `select` -/
def lazySelect (c : μ) (a b : α) : α := select c a b

/-- `MulAdd::mul_add` (wide without the `fma` target feature: `(self * m) + a`) -/
def mulAdd (x m a : α) : α := x * m + a
/-- `MulSub::mul_sub` -/
def mulSub (x m s : α) : α := x * m - s

/-- `num::Clamp::clamp` for the wide types: `self.min(max).max(min)` -/
def clampMinMax (v lo hi : α) : α := max (min v hi) lo

/-- `encoding/srgb.rs` `IntoLinear<T, T> for Srgb` -/
def srgbIntoLinear (x : α) : α :=
  lazySelect (le x 0.04045) (const (1.0 / 12.92) * x)
    (powf (mulAdd x (const (1.0 / 1.055)) (const (0.055 / 1.055))) 2.4)

/-- `encoding/srgb.rs` `FromLinear<T, T> for Srgb` -/
def srgbFromLinear (x : α) : α :=
  lazySelect (le x 0.0031308) (12.92 * x) (mulSub (powf x (const (1.0 / 2.4))) 1.055 0.055)

/-- `Rgb<Srgb,T>::into_linear` / `from_linear`: the transfer function on each channel -/
def rgbIntoLinear (c : V3 α) : V3 α := ⟨srgbIntoLinear c.c0, srgbIntoLinear c.c1, srgbIntoLinear c.c2⟩
def rgbFromLinear (c : V3 α) : V3 α := ⟨srgbFromLinear c.c0, srgbFromLinear c.c1, srgbFromLinear c.c2⟩

/-- yxy.rs `FromColorUnclamped<Xyz> for Yxy` — result `(x, y, luma)` -/
def xyzToYxy (c : V3 α) : V3 α :=
  let sum := c.c0 + c.c1 + c.c2
  let mask := isValidDivisor sum
  ⟨lazySelect mask (c.c0 / sum) 0.0, lazySelect mask (c.c1 / sum) 0.0, c.c1⟩

/-- xyz.rs `FromColorUnclamped<Yxy> for Xyz`: `Xyz{x/y, 1, (1−x−y)/y} * luma` -/
def yxyToXyz (c : V3 α) : V3 α :=
  let x := c.c0; let y := c.c1; let luma := c.c2
  let mask := isValidDivisor y
  let z' := lazySelect mask ((1.0 - x - y) / y) 0.0
  let x' := lazySelect mask (x / y) 0.0
  ⟨x' * luma, 1.0 * luma, z' * luma⟩

/-- hsv.rs `FromColorUnclamped<Hsl> for Hsv` — `(hue, saturation, value)` from `(hue, saturation, lightness)` -/
def hslToHsv (c : V3 α) : V3 α :=
  let x := lazySelect (lt c.c2 0.5) c.c2 (1.0 - c.c2) * c.c1
  let value := c.c2 + x
  let saturation := lazySelect (isValidDivisor value) (x * 2.0 / value) 0.0
  ⟨c.c0, saturation, value⟩

/-- hsl.rs `FromColorUnclamped<Hsv> for Hsl` -/
def hsvToHsl (c : V3 α) : V3 α :=
  let saturation := c.c1; let value := c.c2
  let x := (2.0 - saturation) * value
  let sat' := lazySelect (Mask.not (isValidDivisor value)) 0.0
    (lazySelect (lt x 1.0)
      (lazySelect (isValidDivisor x) (saturation * value / x) 0.0)
      (let denom := 2.0 - x
       lazySelect (isValidDivisor denom) (saturation * value / denom) 0.0))
  ⟨c.c0, sat', x / 2.0⟩

/-- hwb.rs `FromColorUnclamped<Hsv> for Hwb` — `(hue, whiteness, blackness)` -/
def hsvToHwb (c : V3 α) : V3 α := ⟨c.c0, (1.0 - c.c1) * c.c2, 1.0 - c.c2⟩

/-- hsv.rs `FromColorUnclamped<Hwb> for Hsv` -/
def hwbToHsv (c : V3 α) : V3 α :=
  let value := 1.0 - c.c2
  let saturation := lazySelect (isValidDivisor value) (1.0 - c.c1 / value) 0.0
  ⟨c.c0, saturation, value⟩

/-- the hue part shared by the branch-free `Rgb → Hsv` and `Rgb → Hsl` (hsv.rs:336-385, hsl.rs:350-399), in degrees -/
def maskHue (red green blue value chroma : α) : α :=
  let six : α := 6.0
  -- the maximum component is `false`, the other two `true`
  let x := ne value red
  let y := Mask.or (eq value red) (ne value green)
  let z := Mask.or (eq value red) (eq value green)
  let hueBase := select x (select z (const (-4.0)) 4.0) 0.0 + six
  let redM := lazySelect x (select y red (-red)) 0.0
  let greenM := lazySelect y (select z green (-green)) 0.0
  let blueM := lazySelect z (select y (-blue) blue) 0.0
  let hue := lazySelect (eq chroma 0.0) 0.0 (hueBase + (redM + greenM + blueM) / chroma)
  let hueSub := select (ge hue six) six 0.0
  let hue := hue - hueSub
  hue * 60.0

/-- hsv.rs:318-390: `Rgb → Hsv`, the branch taken when `T::Mask` is not `bool` -/
def rgbToHsvMask (c : V3 α) : V3 α :=
  let red := max c.c0 0.0; let green := max c.c1 0.0; let blue := max c.c2 0.0
  let value := max (max red green) blue
  let mn := min (min red green) blue
  let chroma := value - mn
  let saturation := lazySelect (eq chroma 0.0) 0.0 (chroma / value)
  ⟨maskHue red green blue value chroma, saturation, value⟩

/-- hsl.rs:325-404: `Rgb → Hsl`, the branch taken when `T::Mask` is not `bool` -/
def rgbToHslMask (c : V3 α) : V3 α :=
  let red := max c.c0 0.0; let green := max c.c1 0.0; let blue := max c.c2 0.0
  let mx := max (max red green) blue
  let mn := min (min red green) blue
  let sum := mx + mn
  let lightness := 0.5 * sum
  let chroma := mx - mn
  -- `(1 − max) + (1 − min)` instead of `2 − sum` (repair 4f36dd5: `2 − sum` rounds to 0 next to white)
  -- saturation 0 also when the selected divisor is 0 (repair c404fc5: out-of-gamut `max = 1 + δ`, `min = 1 − δ`)
  let divisor := select (gt sum 1.0) ((1.0 - mx) + (1.0 - mn)) sum
  let saturation := lazySelect (Mask.or (eq mn mx) (eq divisor 0.0)) 0.0 (chroma / divisor)
  ⟨maskHue red green blue mx chroma, saturation, lightness⟩

/-- `impl_clamp!` for `Rgb` on a mask-generic component: every channel `crate::clamp(c, 0, 1)` (wide: `min` then `max`) -/
def rgbClampMinMax (c : V3 α) : V3 α := ⟨clampMinMax c.c0 0.0 1.0, clampMinMax c.c1 0.0 1.0, clampMinMax c.c2 0.0 1.0⟩

end generic

/-! ## the scalar-only algorithms (`T::Mask == bool`) -/

section scalar
variable {α : Type} [Scalar α]
open Scalar

/-- hsv.rs:301-310 after the maximum has been found: `(max, min, sep, coeff)` ↦ `(h, s, v)` -/
def hsvOfParts (mx mn sep coeff : α) : V3 α :=
  if ¬ eqv mx mn then
    let d := mx - mn
    ⟨(sep / d + coeff) * 60.0, d / mx, mx⟩
  else ⟨0.0, 0.0, mx⟩

/-- hsv.rs:282-317: `Rgb → Hsv`, the branch taken for `f32`/`f64`.  The Rust code builds the tuple `(max, min, sep, coeff)` with
    two nested `if`s and then continues; here the continuation `hsvOfParts` is applied inside each leaf (same conditions, same
    order: `red > green`, `blue > max`, `blue < min`). -/
def rgbToHsvScalar (c : V3 α) : V3 α :=
  let red := Scalar.max c.c0 0.0; let green := Scalar.max c.c1 0.0; let blue := Scalar.max c.c2 0.0
  if green < red then
    if red < blue then hsvOfParts blue green (red - green) 4.0
    else hsvOfParts red (if blue < green then blue else green) (green - blue) 0.0
  else
    if green < blue then hsvOfParts blue red (red - green) 4.0
    else hsvOfParts green (if blue < red then blue else red) (blue - red) 2.0

/-- hsl.rs:301-324 -/
def hslOfParts (mx mn sep coeff : α) : V3 α :=
  let sum := mx + mn
  let l := sum / 2.0
  if ¬ eqv mx mn then
    let d := mx - mn
    -- `inverted_sum = (1 − max) + (1 − min)` instead of `2 − sum` (repair 4f36dd5)
    -- saturation 0 when the selected divisor is 0 (repair c404fc5)
    let divisor := if 1.0 < sum then (1.0 - mx) + (1.0 - mn) else sum
    let s := if eqv divisor 0.0 then 0.0 else d / divisor
    ⟨(sep / d + coeff) * 60.0, s, l⟩
  else ⟨0.0, 0.0, l⟩

/-- hsl.rs:282-324: `Rgb → Hsl`, the branch taken for `f32`/`f64` -/
def rgbToHslScalar (c : V3 α) : V3 α :=
  let red := Scalar.max c.c0 0.0; let green := Scalar.max c.c1 0.0; let blue := Scalar.max c.c2 0.0
  if green < red then
    if red < blue then hslOfParts blue green (red - green) 4.0
    else hslOfParts red (if blue < green then blue else green) (green - blue) 0.0
  else
    if green < blue then hslOfParts blue red (red - green) 4.0
    else hslOfParts green (if blue < red then blue else red) (blue - red) 2.0

/-- `impl_clamp!` for `Rgb<_, f32>`: `f32::clamp` per channel -/
def rgbClampScalar (c : V3 α) : V3 α := ⟨Scalar.clamp c.c0 0.0 1.0, Scalar.clamp c.c1 0.0 1.0, Scalar.clamp c.c2 0.0 1.0⟩

end scalar

/-! ## array ↔ SIMD colour packing (`macros/simd.rs`, `impl_simd_array_conversion!`) -/

section pack
variable {α : Type}

/-- `From<[Color<T>; N]> for Color<V>`: one SIMD vector per component, lane `i` from colour `i` -/
def pack {n : Nat} (cs : Fin n → V3 α) : V3 (Lanes n α) := ⟨fun i => (cs i).c0, fun i => (cs i).c1, fun i => (cs i).c2⟩
/-- `From<Color<V>> for [Color<T>; N]` -/
def unpack {n : Nat} (v : V3 (Lanes n α)) : Fin n → V3 α := fun i => ⟨v.c0 i, v.c1 i, v.c2 i⟩

/-- `Alpha<Color<V>, V>` ↔ `[Alpha<Color<T>, T>; N]` -/
def packAlpha {n : Nat} (cs : Fin n → V3 α × α) : V3 (Lanes n α) × Lanes n α := (pack (fun i => (cs i).1), fun i => (cs i).2)
def unpackAlpha {n : Nat} (v : V3 (Lanes n α) × Lanes n α) : Fin n → V3 α × α := fun i => (unpack v.1 i, v.2 i)

/-- The loop as written (`for (index, color) in colors.enumerate() { red[index] = color.red; … }` over default-initialised
    arrays), on lists of any length: `acc` are the component arrays, `index` the running index. -/
def packLoop : List (V3 α) → Nat → V3 (List α) → V3 (List α)
  | [], _, acc => acc
  | c :: cs, index, acc => packLoop cs (index + 1) ⟨acc.c0.set index c.c0, acc.c1.set index c.c1, acc.c2.set index c.c2⟩

/-- `From<[Color<T>; N]> for Color<V>` with `V::from_array` read as the identity on lane lists -/
def packList (dflt : α) (colors : List (V3 α)) : V3 (List α) :=
  let init := List.replicate colors.length dflt
  packLoop colors 0 ⟨init, init, init⟩

/-- `for (index, (r, g, b)) in (0..).zip(red).zip(green).zip(blue) { colors[index] = Color { r, g, b } }` -/
def unpackLoop : List α → List α → List α → Nat → List (V3 α) → List (V3 α)
  | r :: rs, g :: gs, b :: bs, index, acc => unpackLoop rs gs bs (index + 1) (acc.set index ⟨r, g, b⟩)
  | _, _, _, _, acc => acc

/-- `From<Color<V>> for [Color<T>; N]`, `N` = the lane count, `colors = Self::default()` -/
def unpackList (dflt : V3 α) (n : Nat) (v : V3 (List α)) : List (V3 α) :=
  unpackLoop v.c0 v.c1 v.c2 0 (List.replicate n dflt)

end pack

/-! ## lanes ↔ lists (driver plumbing) -/

def Lanes.ofList {n : Nat} {α : Type} (l : List α) (d : α) : Lanes n α := fun i => l.getD i.val d
def Lanes.toList {n : Nat} {α : Type} (v : Lanes n α) : List α := (List.finRange n).map v

/-! ## a syntax for "every function built from the Scalar operations and select" (used by the lifting theorem) -/

inductive Un | neg | abs | sqrt | cbrt | exp | ln | floor | ceil | round | sin | cos
inductive Bin | add | sub | mul | div | powf | atan2 | min | max
inductive Cmp | lt | le | eq | ne | ge | gt

mutual
/-- value expressions over variables `ι` -/
inductive Expr (ι : Type) where
  | var (i : ι)
  | lit (m : Nat) (s : Bool) (e : Nat)
  | const (k : K)
  | un (o : Un) (a : Expr ι)
  | bin (o : Bin) (a b : Expr ι)
  | select (c : MExpr ι) (a b : Expr ι)
/-- mask expressions -/
inductive MExpr (ι : Type) where
  | cmp (o : Cmp) (a b : Expr ι)
  | valid (a : Expr ι)
  | and (p q : MExpr ι)
  | or (p q : MExpr ι)
  | xor (p q : MExpr ι)
  | not (p : MExpr ι)
  | fromBool (b : Bool)
end

section eval
variable {α μ : Type} [VScalar α μ]

def Un.eval : Un → α → α
  | .neg => fun a => -a | .abs => VScalar.abs | .sqrt => VScalar.sqrt | .cbrt => VScalar.cbrt | .exp => VScalar.exp | .ln => VScalar.ln
  | .floor => VScalar.floor | .ceil => VScalar.ceil | .round => VScalar.round | .sin => VScalar.sin | .cos => VScalar.cos
def Bin.eval : Bin → α → α → α
  | .add => (· + ·) | .sub => (· - ·) | .mul => (· * ·) | .div => (· / ·) | .powf => VScalar.powf | .atan2 => VScalar.atan2
  | .min => VScalar.min | .max => VScalar.max
def Cmp.eval : Cmp → α → α → μ
  | .lt => VScalar.lt | .le => VScalar.le | .eq => VScalar.eq | .ne => VScalar.ne | .ge => VScalar.ge | .gt => VScalar.gt

mutual
def Expr.eval {ι : Type} (env : ι → α) : Expr ι → α
  | .var i => env i
  | .lit m s e => OfScientific.ofScientific m s e
  | .const k => VScalar.const k
  | .un o a => o.eval (a.eval env)
  | .bin o a b => o.eval (a.eval env) (b.eval env)
  | .select c a b => VScalar.select (c.eval env) (a.eval env) (b.eval env)
def MExpr.eval {ι : Type} (env : ι → α) : MExpr ι → μ
  | .cmp o a b => o.eval (a.eval env) (b.eval env)
  | .valid a => VScalar.isValidDivisor (a.eval env)
  | .and p q => Mask.and (p.eval env) (q.eval env)
  | .or p q => Mask.or (p.eval env) (q.eval env)
  | .xor p q => Mask.xor (p.eval env) (q.eval env)
  | .not p => Mask.not (p.eval env)
  | .fromBool b => Mask.fromBool b
end
end eval

end Simd
