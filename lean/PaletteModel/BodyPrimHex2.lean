/-
  Readings used by family `hex2` of the source-text tie (tools/rust2lean_hex2.py, Gen/BodiesHex2.lean) beyond PaletteModel/BodyPrimHex.lean.
  Plain definitions that `rfl` sees through.  No Mathlib import.
-/
import PaletteModel.BodyPrimHex
import PaletteModel.Packed

namespace Hex2Prim

/-- `[T; 1]`: an array of exactly one element -/
structure Arr1 (τ : Type) where
  x : τ
deriving DecidableEq, Repr

/-- the array expression `[x]` (one element) -/
def arr1 {τ : Type} (x : τ) : Arr1 τ := ⟨x⟩
/-- the irrefutable pattern `let [x] = a;` on a `[T; 1]`: binds the one element -/
def get1 {τ : Type} (a : Arr1 τ) : τ := a.x

/-- `uN::from_be_bytes(bytes)` (core: "Creates a native endian integer value from its representation as a byte array in big endian") for an
    N-byte array given as the list of its bytes: the model's own `Packed.fromBeBytes` -/
def fromBeBytes (bytes : List Nat) : Nat := Packed.fromBeBytes bytes
/-- `x.to_be_bytes()` of an `n`-byte integer (core: "the memory representation of this integer as a byte array in big-endian (network) byte
    order"): the model's own `Packed.toBeBytes n` -/
def toBeBytes (n : Nat) (x : Nat) : List Nat := Packed.toBeBytes n x

end Hex2Prim
