/-
  Explicit model functions for what C01 says about transparency ("Attaching a transparency value never changes the converted color,
  and the transparency value itself comes out unchanged"): the conversion of a colour with alpha, and the `WithAlpha` operations
  it is written with.  Until now this clause was law-free *in the statement of theorems* only and bit-exact in the oracle; these
  definitions are what `PaletteProofs/Tie_Glue2Alpha.lean` proves the translated Rust bodies (`Gen/BodiesGlue2Alpha.lean`) equal to,
  and what the C01 clause is proved about there.  Generic over the colour types `γ γ'`, the alpha type `τ` and the source type `σ`
  (a plain colour or an `Alpha`): no arithmetic at all.

  No Mathlib import.
-/
import PaletteModel.BodyPrimGlue

namespace AlphaForms
variable {σ γ γ' ω τ : Type}

/-- `WithAlpha::split` of `Alpha<C, A>`: colour and alpha -/
def split (a : Prim.AlphaOf γ τ) : γ × τ := (a.color, a.alpha)
/-- `WithAlpha::with_alpha` of `Alpha<C, A>`: the alpha replaced, the colour kept -/
def withAlpha (a : Prim.AlphaOf γ τ) (alpha : τ) : Prim.AlphaOf γ τ := { a with alpha := alpha }
/-- `WithAlpha::without_alpha` of `Alpha<C, A>`, `Deref` / `DerefMut`: the colour -/
def withoutAlpha (a : Prim.AlphaOf γ τ) : γ := a.color

/-- `WithAlpha::with_alpha` of a plain colour (`#[derive(WithAlpha)]`), `From<C> for Alpha<C, T>` at `max_alpha()`: attach an alpha -/
def attach (c : γ) (alpha : τ) : Prim.AlphaOf γ τ := ⟨c, alpha⟩
/-- `WithAlpha::without_alpha` of a plain colour -/
def plainWithoutAlpha (c : γ) : γ := c
/-- `WithAlpha::split` of a plain colour: itself and the opaque alpha `Stimulus::max_intensity()` -/
def plainSplit (maxIntensity : τ) (c : γ) : γ × τ := (c, maxIntensity)

/-- trait default `WithAlpha::opaque`: `self.with_alpha(A::max_intensity())` -/
def opaqueOf (maxIntensity : τ) (withAlpha : σ → τ → ω) (x : σ) : ω := withAlpha x maxIntensity
/-- trait default `WithAlpha::transparent`: `self.with_alpha(A::zero())` -/
def transparentOf (zero : τ) (withAlpha : σ → τ → ω) (x : σ) : ω := withAlpha x zero

/-- `impl<C1: WithAlpha<T>, C2, T> FromColorUnclamped<C1> for Alpha<C2, T>`: split the source, convert the colour, re-attach the alpha.
    `split` is the source's `WithAlpha::split`, `conv` the unclamped conversion `C1::Color → C2` (a route of C01) -/
def convertWith (split : σ → γ × τ) (conv : γ → γ') (x : σ) : Prim.AlphaOf γ' τ := ⟨conv (split x).1, (split x).2⟩

/-- the conversion `Alpha<C1, T> → Alpha<C2, T>` (C01's `convertAlpha`): `convertWith` at `Alpha`'s own `split` -/
def convertAlpha (conv : γ → γ') (a : Prim.AlphaOf γ τ) : Prim.AlphaOf γ' τ := convertWith split conv a
/-- the conversion `C1 → Alpha<C2, T>` from a plain colour: `convertWith` at the derived `split` -/
def convertPlain (maxIntensity : τ) (conv : γ → γ') (c : γ) : Prim.AlphaOf γ' τ := convertWith (plainSplit maxIntensity) conv c

end AlphaForms
