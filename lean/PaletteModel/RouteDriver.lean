import PaletteModel.Proto
import PaletteModel.Route
import PaletteModel.RouteEval

namespace Route
open Proto

def dumpRoutes : List String :=
  (List.range nColors).flatMap fun a => (List.range nColors).filterMap fun b =>
    (routeOf a b).map fun p => s!"ROUTE {a} {b} : " ++ " ".intercalate (p.map toString)

/-- `routecmp <A> <B> <i,j,k|none> | x | direct | composed`: the harness composed the hand-written edges along the path it read from
    the model's table; the derived conversion must be that composition bit for bit, and the path must be the model's route -/
def handle (cfg inp outp : List String) : Verdict :=
  match cfg with
  | [a, b, path] =>
    match indexOf? a, indexOf? b with
    | some ia, some ib =>
      let mine := (routeOf ia ib).map fun p => ",".intercalate (p.map toString)
      if mine.getD "none" != path then .disagree s!"model route {mine}" else
      -- sections: inp = x, outp = direct; the composed result is the 4th section, which the generic splitter does not pass: it is
      -- appended to `outp` after a "|" token by the caller (see Driver.lean)
      let (direct, composed) := (outp.takeWhile (· != "|"), (outp.dropWhile (· != "|")).drop 1)
      if path == "none" then .agree ["no-route"] else
      -- the whole-route interpreter the C01_Whole theorems are about (`RouteEval.runPath`: `Conv.edge?` composed along the chain)
      -- must be able to run this chain under the harness configuration
      if !(RouteEval.executable ((routeOf ia ib).getD [])) then
        .disagree s!"route {path} is not executable by the model's route interpreter (a hop without an edge in Conv.edge?)" else
      if direct == composed then .agree [if (routeOf ia ib) == some (treePath ia ib) then "tree-path" else "shortcut"]
      else .disagree s!"direct conversion differs from the composition of hand-written edges along {path}"
    | _, _ => .bad "routecmp: unknown colour name"
  | _ => .bad "malformed routecmp line"

end Route
