import PaletteModel.Proto
import PaletteModel.Hue
import PaletteModel.Gen.Hue

namespace Hue
open Proto

/-- text form and comparison of one float type -/
structure Fmt (α : Type) where
  parse : String → Option α
  render : α → String
  isNaN : α → Bool
  close : α → α → α → Nat → Bool
  one : α
  turn : α
  zero : α

def fmt32 : Fmt Float32 := ⟨f32?, showF32, Float32.isNaN, closeAbs32, Float32.ofBits 0x3f800000, Float32.ofBits 0x43b40000, Float32.ofBits 0⟩
def fmt64 : Fmt Float := ⟨f64?, showF64, Float.isNaN, closeAbs64, Float.ofBits 0x3ff0000000000000, Float.ofBits 0x4076800000000000, Float.ofBits 0⟩

/-- the kernel-transparent transcription of the same type (`Hue.Bits`) -/
structure Twin (α : Type) where
  normS : α → α
  normU : α → α
  eq : α → α → Bool
  ofU8 : Nat → α
  toU8 : α → Nat

def twin32 : Twin Float32 := ⟨Bits.normS32, Bits.normU32, Bits.angleEq32, Bits.u8ToF32, Bits.f32ToU8⟩
def twin64 : Twin Float := ⟨Bits.normS64, Bits.normU64, Bits.angleEq64, Bits.u8ToF64, Bits.f64ToU8⟩

section
variable {α : Type} [Scalar α] [AngleConsts α] (F : Fmt α) (T : Twin α)

/-- bit-exact, except that all NaNs are one value -/
def same (a : α) (o : String) : Bool :=
  F.render a == o || (F.isNaN a && ((F.parse o).map F.isNaN == some true))

def allSame : List α → List String → Bool
  | [], [] => true
  | a :: as, o :: os => same F a o && allSame as os
  | _, _ => false

def renderAll (xs : List α) : String := " ".intercalate (xs.map F.render)

def handleAt (op : String) (inp outp : List String) : Verdict :=
  match op, inp.mapM F.parse with
  | _, none => if op == "hu8" then
      match inp, outp with
      | [n], [o] => match n.toNat? with
        | some n =>
          let m : α := u8ToFloat n
          let t := T.ofU8 n
          if same F m o && same F t o then .agree ["u8->float"] else .disagree s!"model={F.render m} bits-model={F.render t}"
        | none => .bad "hu8: bad code"
      | _, _ => .bad "malformed hu8 line"
    else .bad "unparsable float"
  | "hnorm", some [x] =>
    let s := intoDegrees x; let u := intoPositiveDegrees x
    let m := [s, u, intoRadians x, intoPositiveRadians x, intoRawRadians x, intoDegrees x]
    if !(allSame F m outp) then .disagree s!"model={renderAll F m}" else
    -- the bit-level transcription must give the same two normal forms
    if !(allSame F [T.normS x, T.normU x] (outp.take 2)) then .disagree s!"bits-model={renderAll F [T.normS x, T.normU x]}" else
    let q : α := Scalar.floor (x / 360.0)
    let c : α := Scalar.ceil (((x + 180.0) / 360.0) - 1.0)
    .agree [if F.isNaN u then "u:nan" else if q < F.zero then "u:k<0" else if F.zero < q then "u:k>0" else "u:k=0",
            if F.isNaN s then "s:nan" else if c < F.zero then "s:k<0" else if F.zero < c then "s:k>0" else "s:k=0"]
  | "heq", some [x, y] =>
    let e := decide (hueEq x y)
    let txt := if e then "1" else "0"
    if outp == [txt, txt] && T.eq x y == e then .agree [if e then "equal" else "unequal"]
    else .disagree s!"model={txt} bits-model={T.eq x y}"
  | "hops", some [x, y] =>
    let a := add x y; let a' := add y x; let s := sub x y; let s' := sub y x
    let m := [a, a, a', a, a, s, s, s', s, s]
    if allSame F m outp then .agree ["add-sub"] else .disagree s!"model={renderAll F m}"
  | "hrad", some [r] =>
    let m := intoRawDegrees (fromRadians r)
    if allSame F [m] outp then .agree ["from-radians"] else .disagree s!"model={F.render m}"
  | "hcart", some [a, b] =>
    let h := fromCartesian a b
    let (ca, cb) := intoCartesian h
    match outp.mapM F.parse with
    | some [h', ca', cb'] =>
      -- libm (`atan2`, `sin`, `cos`) is shared with the implementation: 8 ulps of the natural scale (a turn / the unit circle)
      if F.close h h' F.turn 8 && F.close ca ca' F.one 8 && F.close cb cb' F.one 8 then .agree ["cartesian"]
      else .disagree s!"model={renderAll F [h, ca, cb]}"
    | _ => .bad "malformed hcart output"
  | "hcart2", some [h] =>
    let (ca, cb) := intoCartesian h
    match outp.mapM F.parse with
    | some [ca', cb'] =>
      if F.close ca ca' F.one 8 && F.close cb cb' F.one 8 then .agree ["into-cartesian"] else .disagree s!"model={renderAll F [ca, cb]}"
    | _ => .bad "malformed hcart2 output"
  | "hconst", some [] =>
    let m : List α := [halfRotation, fullRotation]
    if allSame F m outp then .agree ["rotation-constants"] else .disagree s!"model={renderAll F m}"
  | "hfu8", some [x] =>
    match outp with
    | [o] =>
      let m := floatToU8 x
      let t := T.toU8 x
      if toString m == o && toString t == o then
        let rounded : α := Scalar.round ((normalizeUnsigned x / 360.0) * 256.0)
        .agree [if (255.5 : α) < rounded then "float->u8:wrap" else "float->u8:plain"]
      else .disagree s!"model={m} bits-model={t}"
    | _ => .bad "malformed hfu8 line"
  | _, _ => .bad s!"malformed {op} line"
end

/-- `<op> <HueType> <f32|f64> | inputs | outputs`; `hfmt <HueType> <src> | x | y` is `into_format` between the float types -/
def handle (op : String) (cfg inp outp : List String) : Verdict :=
  match cfg with
  | ["u8"] => if op == "hconst" && outp == [toString halfRotationU8] then .agree ["rotation-constants"] else .disagree s!"model={halfRotationU8}"
  | [hue, ty] =>
    -- the hue types are the ones `make_hues!` is instantiated for in the current source (regenerated list)
    if !(Gen.Hue.hueTypes.contains hue) then .bad s!"unknown hue type {hue}" else
    if op == "hfmt" then
      match ty, inp, outp with
      | "f32", [i], [o] => match f32? i, f64? o with
        | some x, some y => let m := Stim.f32ToF64 x
                            if showF64 m == showF64 y || (m.isNaN && y.isNaN) then .agree ["f32->f64"] else .disagree s!"model={showF64 m}"
        | _, _ => .bad "unparsable hfmt line"
      | "f64", [i], [o] => match f64? i, f32? o with
        | some x, some y => let m := Stim.f64ToF32 x
                            if showF32 m == showF32 y || (m.isNaN && y.isNaN) then .agree ["f64->f32"] else .disagree s!"model={showF32 m}"
        | _, _ => .bad "unparsable hfmt line"
      | _, _, _ => .bad "malformed hfmt line"
    else if ty == "f32" then handleAt fmt32 twin32 op inp outp
    else if ty == "f64" then handleAt fmt64 twin64 op inp outp
    else .bad s!"unknown float type {ty}"
  | _ => .bad "malformed hue line"

end Hue
