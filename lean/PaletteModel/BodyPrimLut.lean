/-
  Hand-written prelude of `PaletteModel/Gen/BodiesLut.lean` (family `lut`: the lookup-table transfer functions of
  `palette/src/encoding/lut.rs` and the integer `FromLinear` / `IntoLinear` impls, translated by `tools/rust2lean_lut.py`).
  Readings of what the *standard library / the language* defines in those bodies; everything else in them is translated.
  Each is a plain definition that `rfl` / `unfold` sees through.  No Mathlib import (the driver links `PaletteModel`).
-/
import PaletteModel.Stimulus

namespace Prim.Lut

/-- `<f32 as PartialOrd>::partial_cmp` (core::cmp, `partial_ord_impl!` for floats):
    `match (*self <= *other, *self >= *other) { (false, false) => None, (false, true) => Some(Greater), (true, false) => Some(Less), (true, true) => Some(Equal) }` -/
def partialCmp32 (a b : Float32) : Option Ordering :=
  match decide (a ≤ b), decide (b ≤ a) with
  | false, false => none
  | false, true => some .gt
  | true, false => some .lt
  | true, true => some .eq

/-- `<f64 as PartialOrd>::partial_cmp`: the same `match` at `f64` -/
def partialCmp64 (a b : Float) : Option Ordering :=
  match decide (a ≤ b), decide (b ≤ a) with
  | false, false => none
  | false, true => some .gt
  | true, false => some .lt
  | true, true => some .eq

/-- `*slice.get_unchecked(i)`: the `i`-th element; the reference makes `i >= len` undefined behaviour, so the value read here for such an `i` (0)
    carries no meaning - `C05.index_in_bounds` proves `i < len` for every input of the callers, which is what the `unsafe` relies on -/
def getUnchecked {α : Type} [OfNat α 0] (t : List α) (i : Nat) : α := t.getD i 0

/-- `TABLE[i]` on a `[f32; N]` of codegen.rs, held in Gen/Lut.lean as the list of the entries' bit patterns: the float with the `i`-th pattern.
    (Rust panics for `i >= N`; the index is a `u8` / `u16` and `N` = 256 / 65536, decided in the tie module, so that arm is unreachable.) -/
def indexF32 (t : List Nat) (i : Nat) : Float32 := Float32.ofBits (UInt32.ofNat (t.getD i 0))

/-- `TABLE[i]` on a `[f64; N]` of codegen.rs (list of bit patterns) -/
def indexF64 (t : List Nat) (i : Nat) : Float := Float.ofBits (UInt64.ofNat (t.getD i 0))

end Prim.Lut
