/-
  Hand-written prelude of the family `guard` of the translator (`tools/rust2lean_guard.py` -> `Gen/BodiesGuard.lean`): the readings of
  the std / language constructs that occur in `convert/from_into_color_mut.rs`, `convert/from_into_color_unclamped_mut.rs` and in the
  in-place maps / owned-buffer casts of `cast/array.rs`.  Each entry names what the Rust reference / std documentation says the
  construct does.  Everything is a plain structural definition (`rfl`, `cases`, one list induction see through all of them).

  Representation (the one of the hand model `PaletteModel/InPlace.lean`, so that the ties are equalities of the same kind of object):
    * a colour *type* (`T`, `U`, `C`; `[T]` is read as its element type, the slice-ness is the `Form` of the model) is an `InPlace.Ty`;
    * a reference `&'a mut T` into the one memory region these bodies work on is represented by the static type of its referent;
      the region's contents are an explicit state `m` threaded through the translated body (state passing);
    * both guard structs, `FromColorMutGuard { current, original }` and `FromColorUnclampedMutGuard { current, original }`, are
      `InPlace.Guard { current, original, clamped }`: `original : PhantomData<&'a mut U>` carries the *type* `U` (read from the declared
      type of the struct literal), `clamped` records which of the two structs the value is (read from the name in the literal).
  No Mathlib import (the driver links `PaletteModel`).
-/
import PaletteModel.InPlace
import PaletteModel.BodyPrimGlue

namespace Prim

abbrev Ty := InPlace.Ty
abbrev Guard := InPlace.Guard

/-- `Option::take(&mut self)` (core::option): "Takes the value out of the option, leaving a `None` in its place."
    Returns the value taken and the new content of the place. -/
def optTake {α : Type} (o : Option α) : Option α × Option α := (o, none)

/-- `Option::map(self, f)` (core::option): "Maps an `Option<T>` to `Option<U>` by applying a function to a contained value (if `Some`) or
    returns `None` (if `None`)"; `f` may change the memory, so the memory is threaded through. -/
def optMapM {α β μ : Type} (o : Option α) (f : α → μ → β × μ) (m : μ) : Option β × μ :=
  match o with
  | none => (none, m)
  | some a => let (b, m') := f a m; (some b, m')

/-- `Option::and_then(self, f)` (core::option): "Returns `None` if the option is `None`, otherwise calls `f` with the wrapped value and
    returns the result." -/
def optAndThenM {α β μ : Type} (o : Option α) (f : α → μ → Option β × μ) (m : μ) : Option β × μ :=
  match o with
  | none => (none, m)
  | some a => f a m

/-- `Option::as_ref(&self)` / `Option::as_mut(&mut self)` (core::option): "Converts from `&Option<T>` to `Option<&T>`" - a reference to
    the contained reference, which auto-dereferences to it where it is returned; the option itself is left as it is. -/
def optAsRef {α : Type} (o : Option α) : Option α := o

/-- the reference casts `cast::from_array_mut(cast::into_array_mut(r))` / `cast::from_array_slice_mut(cast::into_array_slice_mut(r))`
    (cast/array.rs, C04: `&mut *ptr.cast::<T>()`, `from_raw_parts_mut(ptr.cast(), len)`): the same address and length, the referent now
    read as the `target` type (the declared type of the place that receives the reference). -/
def castRef (target : Ty) (_r : Ty) : Ty := target

/-! ### owned buffers (`cast/array.rs`) -/

/-- a `Vec<T>` as the triple `Vec::from_raw_parts` takes ("`ptr`, `length`, `capacity`") plus the contents of the `length` initialised
    slots behind `ptr` -/
structure VecV (κ : Type) where
  ptr : Nat
  len : Nat
  cap : Nat
  elems : List κ
  deriving DecidableEq, Repr

/-- a raw pointer `*mut T` into an allocation: the address and the slots behind it -/
structure RawPtr (κ : Type) where
  addr : Nat
  slots : List κ
  deriving DecidableEq, Repr

/-- a `Box<[T]>` / `&mut [T]` / `*mut [T]`: a fat pointer (address, length) plus the contents -/
structure SliceV (κ : Type) where
  ptr : Nat
  len : Nat
  elems : List κ
  deriving DecidableEq, Repr

/-- `ManuallyDrop::new(value)` (core::mem): "Wrap a value to be manually dropped" - the same value; the wrapper only inhibits the
    destructor (what that means when `map` panics is `InPlace.mapLoopPanic`, `md = true`). -/
def manuallyDropNew {α : Type} (v : α) : α := v
/-- `ManuallyDrop::into_inner(slot)`: "Extracts the value from the `ManuallyDrop` container." -/
def manuallyDropIntoInner {α : Type} (v : α) : α := v
/-- `Vec::as_mut_ptr(&mut self)`: "Returns a raw mutable pointer to the vector's buffer" -/
def vecAsMutPtr {κ : Type} (v : VecV κ) : RawPtr κ := { addr := v.ptr, slots := v.elems }
/-- `Vec::len(&self)` -/
def vecLen {κ : Type} (v : VecV κ) : Nat := v.len
/-- `Vec::capacity(&self)` -/
def vecCapacity {κ : Type} (v : VecV κ) : Nat := v.cap
/-- `ptr.cast::<U>()` (core::ptr): "Casts to a pointer of another type": same address -/
def ptrCast {κ : Type} (p : RawPtr κ) : RawPtr κ := p
/-- `Vec::from_raw_parts(ptr, length, capacity)`: "Creates a `Vec<T>` directly from a pointer, a length, and a capacity." -/
def vecFromRawParts {κ : Type} (p : RawPtr κ) (length capacity : Nat) : VecV κ :=
  { ptr := p.addr, len := length, cap := capacity, elems := p.slots }
/-- `Box::leak(b)` on a `Box<[T]>`: "Consumes and leaks the `Box`, returning a mutable reference, `&'a mut T`" - same address and length -/
def boxLeak {κ : Type} (b : SliceV κ) : SliceV κ := b
/-- `Box::from_raw(raw)`: "Constructs a box from a raw pointer" - same address and length -/
def boxFromRaw {κ : Type} (b : SliceV κ) : SliceV κ := b
/-- `<[T]>::as_mut_ptr(&mut self)` -/
def sliceAsMutPtr {κ : Type} (s : SliceV κ) : RawPtr κ := { addr := s.ptr, slots := s.elems }
/-- `<[T]>::len(&self)` -/
def sliceLen {κ : Type} (s : SliceV κ) : Nat := s.len
/-- `core::slice::from_raw_parts_mut(data, len)`: "Forms a mutable slice from a pointer and a length." -/
def sliceFromRawPartsMut {κ : Type} (p : RawPtr κ) (len : Nat) : SliceV κ := { ptr := p.addr, len := len, elems := p.slots }
/-- `core::ptr::read(src)`: "Reads the value from `src` without moving it" - a bitwise copy of the slot -/
def ptrRead {κ : Type} (slot : κ) : κ := slot
/-- `core::ptr::write(dst, src)`: "Overwrites a memory location with the given value without reading or dropping the old value": the new
    content of the slot -/
def ptrWrite {κ : Type} (_slot : κ) (v : κ) : κ := v
/-- `cast::into_array::<T>(color)` / `cast::from_array::<T>(array)` by value (cast/array.rs, `transmute_copy` behind the layout asserts, C04):
    the same bits -/
def intoArray {κ : Type} (c : κ) : κ := c
def fromArray {κ : Type} (a : κ) : κ := a

end Prim
