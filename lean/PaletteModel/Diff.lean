/-
  Model of `palette/src/color_difference.rs`, `macros/color_difference.rs` and the difference impls of
  `lab.rs`, `lch.rs`, `luv.rs`, `oklab/properties.rs`, `cam16/ucs_jab.rs`, `cam16/ucs_jmh.rs`, `rgb/rgb.rs`, `luma/luma.rs`,
  generic over the component type (`class Scalar`), expression for expression.

  `T::one()`/`T::zero()` are the literals `1.0`/`0.0`; `lazy_select!` is `if … then … else …` in the same arm order;
  `x.eq(&y)` (IEEE `==`) is `Scalar.eqv`; `x.gt_eq(&y)` is `y ≤ x`.

  No Mathlib import here.
-/
import PaletteModel.Scalar

namespace Diff
open Scalar
variable {α : Type} [Scalar α]

/-- `core::f64::consts::PI` (the `f64` nearest to π; `3.141592653589793` is its shortest round-trip decimal) -/
def PI : K := 3.141592653589793

/-- `f64::to_radians` = `self * (PI / 180.0)` (`RealAngle::degrees_to_radians`) -/
def D2R : K := PI / 180.0
/-- `f64::to_degrees` = `self * (180.0 / PI)` (`RealAngle::radians_to_degrees`) -/
def R2D : K := 180.0 / PI

/-- `Hypot::hypot`.  Lean's `Float` has no `hypot`; `sqrt(x² + y²)` is the exact reading and within an ulp of libm's for the
    magnitudes of colour components (no overflow/underflow in the nominal boxes). -/
def hypot (x y : α) : α := sqrt (x * x + y * y)

/-- `Powi::powi(self, 7)`: LLVM's expansion of a constant `powi` (square and multiply: `x·x²`, then `·x⁴`) -/
def powi7 (x : α) : α :=
  let x2 := x * x
  let x3 := x * x2
  let x4 := x2 * x2
  x3 * x4

/-! ## `LabColorDiff` -/

/-- `pub(crate) struct LabColorDiff<T> { l, a, b, chroma }` -/
structure LabColorDiff (α : Type) where
  l : α
  a : α
  b : α
  chroma : α

/-- `impl From<Lab<Wp, T>> for LabColorDiff<T>`: `chroma: color.a.hypot(color.b)` -/
def fromLab (l a b : α) : LabColorDiff α := ⟨l, a, b, hypot a b⟩

/-- `LabHue::into_cartesian` ∘ `into_raw_radians`: `(cos, sin)` of `hue.to_radians()` -/
def hueCos (d2r h : α) : α := cos (h * d2r)
def hueSin (d2r h : α) : α := sin (h * d2r)

/-- `impl FromColorUnclamped<Lch<Wp, T>> for Lab<Wp, T>` (`lab.rs`): `chroma = color.chroma.max(0)`, `a = cos·chroma`, `b = sin·chroma`.
    The same body serves `FromColorUnclamped<Cam16UcsJmh<T>> for Cam16UcsJab<T>` (`cam16/ucs_jab.rs`). -/
def polarToRectWith (d2r l c h : α) : α × α × α :=
  let chroma := Scalar.max c 0.0
  (l, hueCos d2r h * chroma, hueSin d2r h * chroma)
def polarToRect (l c h : α) : α × α × α := polarToRectWith (const D2R) l c h

/-- `impl From<Lch<Wp, T>> for LabColorDiff<T>`: the chroma is **reused** (not recomputed, not clamped), l/a/b come from the conversion -/
def fromLchWith (d2r l c h : α) : LabColorDiff α :=
  let r := polarToRectWith d2r l c h
  ⟨r.1, r.2.1, r.2.2, c⟩
def fromLch (l c h : α) : LabColorDiff α := fromLchWith (const D2R) l c h

/-! ## `get_ciede2000_difference` -/

/-- `twenty_five_pow_seven` -/
def tf7 : α := 6103515625.0

/-- `g = 0.5 * (1 - sqrt(c̄⁷ / (c̄⁷ + 25⁷)))`, `c̄ = (chroma₁ + chroma₂)/2` -/
def gOf (chroma1 chroma2 : α) : α :=
  let cBar := (chroma1 + chroma2) / 2.0
  let cBar7 := powi7 cBar
  0.5 * (1.0 - sqrt (cBar7 / (cBar7 + tf7)))

/-- `a_prime = a * (1 + g)` -/
def aPrime (g a : α) : α := a * (1.0 + g)
/-- `c_prime = sqrt(a'·a' + b·b)` -/
def cPrime (ap b : α) : α := sqrt (ap * ap + b * b)

/-- the closure `calc_h_prime(b, a_prime)` -/
def calcHPrime (r2d b ap : α) : α :=
  if eqv b 0.0 ∧ eqv ap 0.0 then 0.0
  else
    let result := atan2 b ap * r2d
    if result < 0.0 then result + 360.0 else result

/-- `delta_h_prime` (four-arm `lazy_select!`) -/
def deltaHPrime (c1p c2p h1p h2p : α) : α :=
  let hDiff := h2p - h1p
  let hAbs := abs hDiff
  if eqv c1p 0.0 ∨ eqv c2p 0.0 then 0.0
  else if hAbs ≤ 180.0 then hDiff
  else if h2p ≤ h1p then hDiff + 360.0
  else hDiff - 360.0

/-- `delta_big_h_prime = 2 * sqrt(c1'·c2') * sin(Δh'/2 · π/180)` -/
def bigDeltaH (d2r c1p c2p dh : α) : α :=
  2.0 * sqrt (c1p * c2p) * sin (dh / 2.0 * d2r)

/-- `h_bar_prime` **as repaired** (finding D7): Sharma–Wu–Dalal eq. (14) has *four* cases; when the hues are more than 180° apart the
    mean is `(h₁′+h₂′+360)/2` only while `h₁′+h₂′ < 360`, and `(h₁′+h₂′−360)/2` otherwise, so that `h̄′ ∈ [0, 360)`. -/
def hBarPrime (c1p c2p h1p h2p : α) : α :=
  let hSum := h1p + h2p
  let hAbs := abs (h2p - h1p)
  if eqv c1p 0.0 ∨ eqv c2p 0.0 then hSum
  else if hAbs ≤ 180.0 then hSum / 2.0
  else if hSum < 360.0 then (hSum + 360.0) / 2.0
  else (hSum - 360.0) / 2.0

/-- the body as it was before the repair: three arms, `(sum + 360)/2` whenever `|Δ| > 180` — off by a full turn when `sum ≥ 360`,
    which `T` (360°-periodic) does not see but the Gaussian `Δθ = 30·exp(−((h̄′−275)/25)²)` does -/
def hBarPrimeOld (c1p c2p h1p h2p : α) : α :=
  let hSum := h1p + h2p
  let hAbs := abs (h2p - h1p)
  if eqv c1p 0.0 ∨ eqv c2p 0.0 then hSum
  else if 180.0 < hAbs then (hSum + 360.0) / 2.0
  else hSum / 2.0

/-- `t = 1 − 0.17 cos(h̄′−30) + 0.24 cos(2h̄′) + 0.32 cos(3h̄′+6) − 0.20 cos(4h̄′−63)` -/
def bigT (d2r hBar : α) : α :=
  1.0 - 0.17 * cos ((hBar - 30.0) * d2r)
    + 0.24 * cos ((hBar * 2.0) * d2r)
    + 0.32 * cos ((hBar * 3.0 + 6.0) * d2r)
    - 0.20 * cos ((hBar * 4.0 - 63.0) * d2r)

def sL (lBar : α) : α :=
  1.0 + ((0.015 * (lBar - 50.0) * (lBar - 50.0)) / sqrt ((lBar - 50.0) * (lBar - 50.0) + 20.0))
def sC (cBarP : α) : α := 1.0 + 0.045 * cBarP
def sH (cBarP t : α) : α := 1.0 + 0.015 * cBarP * t

def deltaTheta (hBar : α) : α :=
  30.0 * exp (-(((hBar - 275.0) / 25.0) * ((hBar - 275.0) / 25.0)))
def rC (cBarP : α) : α :=
  let c7 := powi7 cBarP
  2.0 * sqrt (c7 / (c7 + tf7))
def rT (d2r cBarP hBar : α) : α :=
  -(rC cBarP) * sin (2.0 * deltaTheta hBar * d2r)

/-- the last expression of `get_ciede2000_difference` with `k_l = k_c = k_h = 1` -/
def combine (dL dC dH sl sc sh rt : α) : α :=
  let kL : α := 1.0
  let kC : α := 1.0
  let kH : α := 1.0
  sqrt ((dL / (kL * sl)) * (dL / (kL * sl))
    + (dC / (kC * sc)) * (dC / (kC * sc))
    + (dH / (kH * sh)) * (dH / (kH * sh))
    + (rt * dC * dH) / (kC * sc * kH * sh))

/-- everything `get_ciede2000_difference` computes before the final expression -/
structure Inter (α : Type) where
  c1p : α
  c2p : α
  h1p : α
  h2p : α
  dh : α
  dH : α
  hBar : α
  lBar : α
  cBarP : α
  dL : α
  dC : α

def inter (d2r r2d : α) (this other : LabColorDiff α) : Inter α :=
  let g := gOf this.chroma other.chroma
  let a1p := aPrime g this.a
  let a2p := aPrime g other.a
  let c1p := cPrime a1p this.b
  let c2p := cPrime a2p other.b
  let h1p := calcHPrime r2d this.b a1p
  let h2p := calcHPrime r2d other.b a2p
  let dh := deltaHPrime c1p c2p h1p h2p
  { c1p := c1p, c2p := c2p, h1p := h1p, h2p := h2p, dh := dh
    dH := bigDeltaH d2r c1p c2p dh
    hBar := hBarPrime c1p c2p h1p h2p
    lBar := (this.l + other.l) / 2.0
    cBarP := (c1p + c2p) / 2.0
    dL := other.l - this.l
    dC := c2p - c1p }

/-- `get_ciede2000_difference(this, other)`, the degree/radian factors kept as parameters (read at `π/180`, `180/π` in the proofs) -/
def ciede2000With (d2r r2d : α) (this other : LabColorDiff α) : α :=
  let i := inter d2r r2d this other
  combine i.dL i.dC i.dH (sL i.lBar) (sC i.cBarP) (sH i.cBarP (bigT d2r i.hBar)) (rT d2r i.cBarP i.hBar)

/-- with the constants the code uses: `T::from_f64(PI / 180.0)` and `f64::to_degrees` -/
def ciede2000 (this other : LabColorDiff α) : α := ciede2000With (const D2R) (const R2D) this other

/-- the pre-repair function, for the witness theorem and for the driver's diagnosis -/
def ciede2000OldWith (d2r r2d : α) (this other : LabColorDiff α) : α :=
  let i := inter d2r r2d this other
  let hBar := hBarPrimeOld i.c1p i.c2p i.h1p i.h2p
  combine i.dL i.dC i.dH (sL i.lBar) (sC i.cBarP) (sH i.cBarP (bigT d2r hBar)) (rT d2r i.cBarP hBar)

/-- the final expression for a given mean hue: used by the driver to evaluate the *other* arm of the `h_prime_sum < 360` test when the sum
    is within rounding of 360 (where the reference formula itself jumps, because `Δθ` is not 360°-periodic) -/
def ciede2000OfHBar (d2r : α) (i : Inter α) (hBar : α) : α :=
  combine i.dL i.dC i.dH (sL i.lBar) (sC i.cBarP) (sH i.cBarP (bigT d2r hBar)) (rT d2r i.cBarP hBar)

/-- `ImprovedCiede2000::improved_difference` = `1.43 * difference.powf(0.7)` -/
def improvedOfCiede (d : α) : α := 1.43 * powf d 0.7

/-! ## Euclidean distance, ΔE, improved ΔE, HyAB -/

/-- `impl_euclidean_distance!` for three components: `difference = self - other; sq = difference * difference; sq.c1 + sq.c2 + sq.c3` -/
def distSq3 (x1 x2 x3 y1 y2 y3 : α) : α :=
  (x1 - y1) * (x1 - y1) + (x2 - y2) * (x2 - y2) + (x3 - y3) * (x3 - y3)
/-- one component (`Luma`) -/
def distSq1 (x y : α) : α := (x - y) * (x - y)

/-- `EuclideanDistance::distance` = `distance_squared.sqrt()`; `DeltaE for Lab / Cam16UcsJab` = `distance` -/
def dist3 (x1 x2 x3 y1 y2 y3 : α) : α := sqrt (distSq3 x1 x2 x3 y1 y2 y3)
def dist1 (x y : α) : α := sqrt (distSq1 x y)

/-- `ImprovedDeltaE for Lab`: `1.26 * distance_squared.powf(0.55 * 0.5)` -/
def improvedDeltaELab (x1 x2 x3 y1 y2 y3 : α) : α :=
  1.26 * powf (distSq3 x1 x2 x3 y1 y2 y3) (const (0.55 * 0.5))
/-- `ImprovedDeltaE for Cam16UcsJab`: `1.41 * distance_squared.powf(0.63 * 0.5)` -/
def improvedDeltaEJab (x1 x2 x3 y1 y2 y3 : α) : α :=
  1.41 * powf (distSq3 x1 x2 x3 y1 y2 y3) (const (0.63 * 0.5))

/-- `DeltaE for Lch` / `Cam16UcsJmh`: convert both to the rectangular form, then the rectangular ΔE -/
def deltaEPolarWith (d2r l1 c1 h1 l2 c2 h2 : α) : α :=
  let p := polarToRectWith d2r l1 c1 h1
  let q := polarToRectWith d2r l2 c2 h2
  dist3 p.1 p.2.1 p.2.2 q.1 q.2.1 q.2.2
def improvedDeltaELchWith (d2r l1 c1 h1 l2 c2 h2 : α) : α :=
  let p := polarToRectWith d2r l1 c1 h1
  let q := polarToRectWith d2r l2 c2 h2
  improvedDeltaELab p.1 p.2.1 p.2.2 q.1 q.2.1 q.2.2
def improvedDeltaEJmhWith (d2r l1 c1 h1 l2 c2 h2 : α) : α :=
  let p := polarToRectWith d2r l1 c1 h1
  let q := polarToRectWith d2r l2 c2 h2
  improvedDeltaEJab p.1 p.2.1 p.2.2 q.1 q.2.1 q.2.2

/-- `impl_hyab!`: `|ΔL| + sqrt(Δc₁·Δc₁ + Δc₂·Δc₂)` -/
def hyab (l1 a1 b1 l2 a2 b2 : α) : α :=
  let lightness := l1 - l2
  let chroma1 := a1 - a2
  let chroma2 := b1 - b2
  abs lightness + sqrt (chroma1 * chroma1 + chroma2 * chroma2)

/-! ## WCAG 2.1 relative contrast (on the two relative luminances) -/

/-- `MinMax::min_max` for `f32`/`f64`: `if self > other { (other, self) } else { (self, other) }` -/
def minMax (x y : α) : α × α := if y < x then (y, x) else (x, y)

/-- `Wcag21RelativeContrast::relative_contrast` -/
def relativeContrast (l1 l2 : α) : α :=
  let mm := minMax l1 l2
  (0.05 + mm.2) / (0.05 + mm.1)

/-- the threshold predicates: `relative_contrast.gt_eq(threshold)` -/
def hasMinContrastText (l1 l2 : α) : Bool := decide ((4.5 : α) ≤ relativeContrast l1 l2)
def hasMinContrastLargeText (l1 l2 : α) : Bool := decide ((3.0 : α) ≤ relativeContrast l1 l2)
def hasEnhancedContrastText (l1 l2 : α) : Bool := decide ((7.0 : α) ≤ relativeContrast l1 l2)
def hasEnhancedContrastLargeText (l1 l2 : α) : Bool := decide ((4.5 : α) ≤ relativeContrast l1 l2)
def hasMinContrastGraphics (l1 l2 : α) : Bool := decide ((3.0 : α) ≤ relativeContrast l1 l2)

end Diff
