import PaletteModel.Proto
import PaletteModel.Cast

namespace Cast
open Proto

/-- hex digits per component in a memory blob -/
def hexWidth? : String → Option Nat
  | "u8" => some 2 | "u16" => some 4 | "u32" => some 8 | "u64" => some 16 | "u128" => some 32
  | "f32" => some 8 | "f64" => some 16 | _ => none

def bitsOfComp? (c : String) : Option Nat := (hexWidth? c).map (· * 4)

/-- `-` is the empty memory; otherwise `w` hex digits per component -/
def parseBlob (w : Nat) (tok : String) : Option (List Nat) :=
  if tok == "-" then some [] else
  let cs := tok.toList
  if w == 0 || cs.length % w ≠ 0 then none else
  let rec go (fuel : Nat) (l : List Char) (acc : List Nat) : Option (List Nat) :=
    match fuel with
    | 0 => if l.isEmpty then some acc.reverse else none
    | k + 1 =>
      if l.isEmpty then some acc.reverse else
      match hexNat? (l.take w) with
      | some v => go k (l.drop w) (v :: acc)
      | none => none
  go (cs.length / w + 1) cs []

/-- `same`: what the token `=` stands for (the input's component sequence) -/
def parseBuf (w : Nat) (same : Option (List Nat) := none) : List String → Option (Buf Nat)
  | [i, l, c, m] =>
    match i.toNat?, l.toNat?, c.toNat?, (if m == "=" then same else parseBlob w m) with
    | some i, some l, some c, some m => some { id := i, len := l, cap := c, mem := m }
    | _, _, _, _ => none
  | _ => none

def showErr : ErrKind → String
  | .slice => "err:slice" | .boxedSlice => "err:boxed" | .lengthMismatch => "err:length" | .capacityMismatch => "err:capacity"

def showOutcome : Outcome Nat → String
  | .ok b => s!"ok id={b.id} len={b.len} cap={b.cap} mem={b.mem.length} comps"
  | .err k (some b) => s!"{showErr k} id={b.id} len={b.len} cap={b.cap}"
  | .err k none => showErr k
  | .panic => "panic"

/-- the implementation's outcome, as printed by the harness -/
def parseOutcome (w : Nat) (same : List Nat) : List String → Option (Outcome Nat)
  | ["panic"] => some .panic
  | ["err:slice"] => some (.err .slice none)
  | "ok" :: r => (parseBuf w (some same) r).map .ok
  | "err:boxed" :: r => (parseBuf w (some same) r).map fun b => .err .boxedSlice (some b)
  | "err:length" :: r => (parseBuf w (some same) r).map fun b => .err .lengthMismatch (some b)
  | "err:capacity" :: r => (parseBuf w (some same) r).map fun b => .err .capacityMismatch (some b)
  | _ => none

def tagOf : Outcome Nat → String
  | .ok _ => "ok" | .err k _ => showErr k | .panic => "panic"

/-- which `try_from_component_*` a buffer form goes through -/
def tryFrom (form : String) (n : Nat) (b : Buf Nat) : Outcome Nat :=
  if form == "vec" then tryFromComponentVec n b
  else if form == "boxslice" then tryFromComponentSliceBox n b
  else tryFromComponentSlice n b

/-- sort `(name, pos)` by position (insertion sort; the lists have ≤ 20 entries) -/
def byPos (xs : List (String × Nat)) : List String :=
  let ins (x : String × Nat) (l : List (String × Nat)) : List (String × Nat) :=
    let (a, b) := l.span (fun y => y.2 ≤ x.2)
    a ++ x :: b
  (xs.foldl (fun acc x => ins x acc) []).map (·.1)

def handleFields (cfg inp outp : List String) : Verdict :=
  match cfg, outp with
  | [ty, _comp], lenTok :: posToks =>
    match parseTy ty, lenTok.toNat?, posToks.mapM (·.toNat?) with
    | some t, some len, some pos =>
      if pos.length ≠ inp.length then .bad "fields: names and positions differ in number" else
      let observed := byPos (inp.zip pos)
      match fieldsOf t, channels t with
      | some fs, some n =>
        if fs ≠ observed then .disagree s!"model field order = {fs}, observed through the cast = {observed}"
        else if n ≠ len then .disagree s!"model channel count = {n}, ArrayCast::Array::LENGTH = {len}"
        else if fs.length ≠ n then .disagree s!"extracted field list {fs} does not have the declared array length {n}"
        else .agree [match t with | .base _ => "base" | .alpha _ => "alpha" | .preAlpha _ => "prealpha" | .packed _ => "packed"]
      | _, _ => .disagree s!"type {ty} has no field list / channel count in Gen.Types"
    | _, _, _ => .bad "unparsable fields line"
  | _, _ => .bad "malformed fields line"

def handleLayout (cfg inp outp : List String) : Verdict :=
  match cfg, inp.mapM (·.toNat?), outp.mapM (·.toNat?) with
  | [ty, _comp], some [sizeT, alignT], some [sizeC, alignC, sizeA, alignA, len] =>
    match (parseTy ty).bind channels with
    | some n =>
      if n ≠ len then .disagree s!"model channel count = {n}" else
      if layoutOk n sizeT alignT sizeC alignC && layoutOk n sizeT alignT sizeA alignA then .agree ["layout"]
      else .disagree s!"model: size = {n * sizeT}, align = {alignT}"
    | none => .disagree s!"type {ty} not in Gen.Types"
  | _, _, _ => .bad "malformed layout line"

/-- `cast <op> <form> <api> <Ty> <comp> | <n> <id> <len> <cap> <blob> [<N> <M>] | <status> [<id> <len> <cap> <blob>]` -/
def handleCast (cfg inp outp : List String) : Verdict :=
  match cfg with
  | [op, form, _api, ty, comp] =>
    match hexWidth? comp, inp with
    | some w, nTok :: rest =>
      let isUint := op == "intoUints" || op == "fromUints"
      let nModel : Option Nat :=
        if isUint then
          match bitsOfComp? comp with
          | some bits => if Gen.Types.uintCasts.contains (ty, bits, bits) then some 1 else none
          | none => none
        else (parseTy ty).bind channels
      match nTok.toNat?, nModel, parseBuf w none (rest.take 4) with
      | some n, some nm, some b =>
        match parseOutcome w b.mem outp with
        | none => .bad "unparsable cast outcome"
        | some impl =>
        if n ≠ nm then .disagree s!"model channel count of {ty} = {nm}" else
        if n == 0 then .bad "channel count 0" else
        let extra := (rest.drop 4).mapM (·.toNat?)
        let inUnit := if op == "tryFromComponents" || op == "fromComponents" || op == "fromComponentArray" then 1 else n
        if !(decide (WF inUnit b)) then .bad s!"input buffer is not well formed for unit {inUnit}" else
        let model : Option (Outcome Nat) :=
          match op, extra with
          | "intoArrays", some [] | "fromArrays", some [] | "intoUints", some [] | "fromUints", some [] => some (.ok (sameUnit b))
          | "intoComponents", some [] => some (.ok (intoComponents n b))
          | "tryFromComponents", some [] => some (tryFrom form n b)
          | "fromComponents", some [] => some (unwrap (tryFrom form n b))
          | "intoComponentArray", some [bigN, bigM] => some (intoComponentArray n bigN bigM b)
          | "fromComponentArray", some [bigN, bigM] => some (fromComponentArray n bigN bigM b)
          | _, _ => none
        match model with
        | none => .bad s!"unknown cast op {op}"
        | some m =>
          if m == impl then .agree [op ++ "/" ++ tagOf m] else .disagree s!"model: {showOutcome m}; impl: {showOutcome impl}"
      | _, none, _ => .disagree s!"type {ty} ({comp}) is not a castable type of Gen.Types"
      | _, _, _ => .bad "unparsable cast line"
    | _, _ => .bad "unparsable cast line (component type / inputs)"
  | _ => .bad "malformed cast line"

def handle (op : String) (cfg inp outp : List String) : Verdict :=
  match op with
  | "c04fields" => handleFields cfg inp outp
  | "c04layout" => handleLayout cfg inp outp
  | "cast" => handleCast cfg inp outp
  | _ => .bad "unknown C04 op"

end Cast
