/-
  C20 — model of palette's serde support.

  * `Tree α`  : the part of serde's *data model* that the colour types and the alpha wrappers speak
                (what a `Serialize` impl tells a `Serializer`), first-order: a colour is a struct of leaves,
                a leaf (`Val`) is a number or a newtype struct around a number (a hue).
  * `serColor`: what `#[derive(Serialize)]` on a colour struct emits; field names/order/kinds come from
                `Gen/Serde.lean` (regenerated from the struct definitions; `serde(skip)` fields are absent).
  * `alphaSer`: `palette/src/serde/alpha_serializer.rs`, method for method.
  * `GTree α` : what a format hands back to a `Deserializer` user (a map with ordered entries, or a sequence).
  * `present` : how a format shows a data-model tree (struct ↦ map; newtype struct ↦ the value itself in JSON,
                a one-element tuple `(v)` in RON); `presentSeq`: the compact form (a struct is the sequence of its values).
                This is the *trusted* description of serde_json / ron (DESIGN §2.9-2).
  * `deColor` : what `#[derive(Deserialize)]` does with a map / a sequence (`visit_map` / `visit_seq`).
  * `deAlphaRaw`: `palette/src/serde/alpha_deserializer.rs` around it (`AlphaMapVisitor`, `MapWrapper`,
                `AlphaFieldVisitor`), `deAlpha` / `deAlphaOpt`: `Alpha::deserialize`, `PreAlpha::deserialize`,
                `deserialize_with_optional_alpha`, `deserialize_with_optional_pre_alpha`.
  The component type is a parameter `α`: components are only moved, never computed on.
-/
import PaletteModel.Gen.Serde

namespace Serde

/-! ## serde data model -/

/-- a leaf: `serialize_f32/f64/u8 x`, or `serialize_newtype_struct name x`, or something the colour types never emit -/
inductive Val (α : Type) where
  | num (x : α)
  | newtype (name : String) (x : α)
  | other (what : String)
  deriving DecidableEq, Repr

/-- map key / struct field identifier as a deserializer may present it (`visit_str` or `visit_u64`) -/
inductive Key where
  | str (s : String)
  | idx (n : Nat)
  deriving DecidableEq, Repr

inductive Tree (α : Type) where
  | val (v : Val α)
  | unit
  | unitStruct (name : String)
  | seq (len : Option Nat) (xs : List (Val α))
  | tuple (len : Nat) (xs : List (Val α))
  | tupleStruct (name : String) (len : Nat) (xs : List (Val α))
  | map (len : Option Nat) (es : List (Key × Val α))
  | struct (name : String) (len : Nat) (fs : List (String × Val α))
  deriving DecidableEq, Repr

/-- the declared length equals the number of elements actually written (length-prefixed formats rely on it) -/
def Tree.wf : Tree α → Bool
  | .seq (some n) xs => n == xs.length
  | .tuple n xs => n == xs.length
  | .tupleStruct _ n xs => n == xs.length
  | .map (some n) es => n == es.length
  | .struct _ n fs => n == fs.length
  | _ => true

/-! ## colour descriptors (from `Gen/Serde.lean`) -/

structure Field where
  name : String
  /-- name of the hue newtype struct if the field is a hue, `none` for a plain component `T` -/
  hue : Option String
  deriving DecidableEq, Repr

structure Desc where
  name : String
  fields : List Field
  deriving DecidableEq, Repr

def Desc.ofRaw (r : String × List (String × String)) : Desc :=
  { name := r.1, fields := r.2.map fun (f, h) => { name := f, hue := if h == "" then none else some h } }

def colors : List Desc := Gen.Serde.colors.map Desc.ofRaw

def Desc.names (d : Desc) : List String := d.fields.map (·.name)

def findDesc (n : String) : Option Desc := colors.find? (·.name == n)

/-- static configuration read from the sources -/
structure Cfg where
  /-- hue newtypes are `#[serde(transparent)]` -/
  hueTransparent : Bool
  serStructKey : String
  serMapKey : String
  lenSeq : Nat
  lenTuple : Nat
  lenTupleStruct : Nat
  lenMap : Nat
  lenStruct : Nat
  newtypeTupleLen : Nat
  deStrKey : String
  deDupName : String
  missingName : String
  deriving Repr

def cfgAlpha : Cfg :=
  { hueTransparent := Gen.Serde.hueTransparent, serStructKey := Gen.Serde.serStructAlphaKey, serMapKey := Gen.Serde.serMapAlphaKey,
    lenSeq := Gen.Serde.serLenPlus_seq, lenTuple := Gen.Serde.serLenPlus_tuple, lenTupleStruct := Gen.Serde.serLenPlus_tupleStruct,
    lenMap := Gen.Serde.serLenPlus_map, lenStruct := Gen.Serde.serLenPlus_struct, newtypeTupleLen := Gen.Serde.serNewtypeAsTupleLen,
    deStrKey := Gen.Serde.deStrAlphaKey, deDupName := Gen.Serde.deDuplicateName, missingName := Gen.Serde.alphaMissingName }

/-- `PreAlpha` shares both wrappers with `Alpha`; only the `missing_field` literal is its own -/
def cfgPreAlpha : Cfg := { cfgAlpha with missingName := Gen.Serde.preAlphaMissingName }

/-! ## serialization -/

/-- a field value: `T::serialize` is a number; a derived newtype struct calls `serialize_newtype_struct(name, &self.0)`,
    a `serde(transparent)` one forwards to the inner value -/
def encField (tr : Bool) (f : Field) (x : α) : Val α :=
  match f.hue with
  | some h => if tr then .num x else .newtype h x
  | none => .num x

/-- `#[derive(Serialize)]`: `serialize_struct(name, n)`, one `serialize_field(key, value)` per non-skipped field in
    declaration order, `end()` -/
def serColor (tr : Bool) (d : Desc) (c : List α) : Tree α :=
  .struct d.name d.fields.length (List.zipWith (fun f x => (f.name, encField tr f x)) d.fields c)

/-- a hue serialized on its own -/
def serHue (tr : Bool) (name : String) (x : α) : Tree α :=
  .val (if tr then .num x else .newtype name x)

/-- `AlphaSerializer { inner, alpha }` seen as a transformer of what reaches `inner`; `none` = `unimplemented!()` panic.
    The wrapped `Serialize*` objects forward every element and emit the alpha in `end()`. -/
def alphaSer (g : Cfg) (t : Tree α) (a : Val α) : Option (Tree α) :=
  match t with
  | .seq len xs => some (.seq (len.map (· + g.lenSeq)) (xs ++ [a]))                      -- serialize_seq / SerializeSeq::end
  | .tuple len xs => some (.tuple (len + g.lenTuple) (xs ++ [a]))                         -- serialize_tuple / SerializeTuple::end
  | .tupleStruct n len xs => some (.tupleStruct n (len + g.lenTupleStruct) (xs ++ [a]))   -- serialize_tuple_struct
  | .map len es => some (.map (len.map (· + g.lenMap)) (es ++ [(.str g.serMapKey, a)]))   -- serialize_map / serialize_entry("alpha", ..)
  | .struct n len fs => some (.struct n (len + g.lenStruct) (fs ++ [(g.serStructKey, a)])) -- serialize_struct / serialize_field("alpha", ..)
  | .val (.newtype n x) => some (.tupleStruct n (g.newtypeTupleLen + g.lenTupleStruct) [.num x, a]) -- serialize_newtype_struct
  | .unitStruct n => match a with                                                           -- inner.serialize_newtype_struct(name, alpha)
      | .num x => some (.val (.newtype n x))
      | _ => none
  | .unit => some (.tuple (0 + g.lenTuple) [a])                                             -- self.serialize_tuple(0)?.end()
  | .val _ => none                                                                          -- every primitive: alpha_serializer_error()

/-- `Alpha<C, T>::serialize` / `PreAlpha<C>::serialize` -/
def serAlpha (g : Cfg) (d : Desc) (c : List α) (a : α) : Option (Tree α) :=
  alphaSer g (serColor g.hueTransparent d c) (.num a)

/-- `serialize_as_array`: `[T; N]` serializes as a tuple of its `N` elements (the values `cast::into_array_ref` gives) -/
def serAsArray (arr : List α) : Tree α := .tuple arr.length (arr.map .num)

/-- `serialize_as_uint`: the integer `cast::into_uint_ref` gives -/
def serAsUint (u : α) : Tree α := .val (.num u)

/-! ## what a format shows (trusted description of serde_json / ron) -/

/-- generic value as a format reads it back -/
inductive GVal (α : Type) where
  | num (x : α)
  | wrapped (x : α)       -- `(x)`: a one-element tuple
  | other (what : String)  -- anything else (string, bool, null, nested map, …)
  deriving DecidableEq, Repr

inductive GTree (α : Type) where
  | val (v : GVal α)
  | seq (xs : List (GVal α))
  | map (es : List (Key × GVal α))
  deriving DecidableEq, Repr

structure Fmt where
  /-- a newtype struct is written and read as `(v)` (RON) instead of `v` (JSON) -/
  newtypeWrapped : Bool
  /-- `deserialize_struct` accepts a sequence (JSON: yes; RON: no) -/
  structFromSeq : Bool
  deriving DecidableEq, Repr

def json : Fmt := { newtypeWrapped := false, structFromSeq := true }
def ron : Fmt := { newtypeWrapped := true, structFromSeq := false }

def presentVal (f : Fmt) : Val α → GVal α
  | .num x => .num x
  | .newtype _ x => if f.newtypeWrapped then .wrapped x else .num x
  | .other w => .other w

/-- self-describing presentation -/
def present (f : Fmt) : Tree α → GTree α
  | .val (.num x) => .val (.num x)
  | .val (.newtype _ x) => if f.newtypeWrapped then .seq [.num x] else .val (.num x)
  | .val (.other w) => .val (.other w)
  | .unit => .val (.other "unit")
  | .unitStruct _ => .val (.other "unit")
  | .seq _ xs => .seq (xs.map (presentVal f))
  | .tuple _ xs => .seq (xs.map (presentVal f))
  | .tupleStruct _ _ xs => .seq (xs.map (presentVal f))
  | .map _ es => .map (es.map fun (k, v) => (k, presentVal f v))
  | .struct _ _ fs => .map (fs.map fun (k, v) => (.str k, presentVal f v))

/-- compact presentation: a struct is the sequence of its field values, names dropped -/
def presentSeq (f : Fmt) : Tree α → GTree α
  | .struct _ _ fs => .seq (fs.map fun (_, v) => presentVal f v)
  | .map _ es => .seq (es.map fun (_, v) => presentVal f v)
  | t => present f t

/-- struct fields addressed by index instead of by name (`visit_u64` identifiers) -/
def presentIdx (f : Fmt) : Tree α → GTree α
  | .struct _ _ fs => .map (fs.zipIdx.map fun ((_, v), i) => (.idx i, presentVal f v))
  | t => present f t

/-! ## deserialization -/

inductive Err where
  | missingField (name : String)
  | duplicateField (name : String)
  | invalidLength (n : Nat)
  | invalidType
  | trailing
  deriving DecidableEq, Repr

abbrev Res (β : Type) := Except Err β

/-- `T::deserialize` for a number -/
def decodeNum : GVal α → Res α
  | .num x => .ok x
  | _ => .error .invalidType

/-- a field of the colour: a component, or a hue (`deserialize_newtype_struct` ⇒ `(v)` in RON, `v` in JSON;
    transparent ⇒ the number itself everywhere) -/
def decodeField (tr : Bool) (f : Fmt) (fd : Field) (v : GVal α) : Res α :=
  match fd.hue with
  | none => decodeNum v
  | some _ =>
    if tr then decodeNum v
    else if f.newtypeWrapped then (match v with | .wrapped x => .ok x | _ => .error .invalidType)
    else decodeNum v

/-- `__FieldVisitor`: `visit_str` matches the names, `visit_u64` the positions; everything else is `__ignore` -/
def fieldIndex (names : List String) : Key → Option Nat
  | .str s => let i := names.idxOf s; if i < names.length then some i else none
  | .idx n => if n < names.length then some n else none

def getSlot (slots : List (Option α)) (i : Nat) : Option α := (slots[i]?).join

/-- one turn of the derived `visit_map` loop -/
def mapStep (tr : Bool) (f : Fmt) (d : Desc) (slots : List (Option α)) (kv : Key × GVal α) : Res (List (Option α)) :=
  match fieldIndex d.names kv.1 with
  | none => .ok slots                                       -- `next_value::<IgnoredAny>()`
  | some i =>
    match d.fields[i]? with
    | none => .ok slots
    | some fd =>
      if (getSlot slots i).isSome then .error (.duplicateField fd.name)
      else match decodeField tr f fd kv.2 with
        | .ok x => .ok (slots.set i (some x))
        | .error e => .error e

def foldRes (step : σ → β → Res σ) : σ → List β → Res σ
  | s, [] => .ok s
  | s, b :: bs => match step s b with
    | .ok s' => foldRes step s' bs
    | .error e => .error e

/-- after the loop: every field must have been seen (`missing_field`, first one in declaration order) -/
def collect : List Field → List (Option α) → Res (List α)
  | [], _ => .ok []
  | fd :: fds, slots =>
    match slots.head?.join with
    | none => .error (.missingField fd.name)
    | some x => match collect fds slots.tail with
      | .ok xs => .ok (x :: xs)
      | .error e => .error e

/-- derived `visit_seq`: one `next_element` per field, `invalid_length(i)` when the sequence ends early; returns the rest -/
def seqFields (tr : Bool) (f : Fmt) : List Field → Nat → List (GVal α) → Res (List α × List (GVal α))
  | [], _, rest => .ok ([], rest)
  | _ :: _, i, [] => .error (.invalidLength i)
  | fd :: fds, i, v :: vs =>
    match decodeField tr f fd v with
    | .error e => .error e
    | .ok x => match seqFields tr f fds (i + 1) vs with
      | .ok (xs, rest) => .ok (x :: xs, rest)
      | .error e => .error e

/-- `C::deserialize(deserializer)` on a colour struct: `deserialize_struct(name, FIELDS, visitor)` -/
def deColor (tr : Bool) (f : Fmt) (d : Desc) : GTree α → Res (List α)
  | .map es =>
    match foldRes (mapStep tr f d) (d.fields.map fun _ => none) es with
    | .ok slots => collect d.fields slots
    | .error e => .error e
  | .seq xs =>
    if f.structFromSeq then
      match seqFields tr f d.fields 0 xs with
      | .ok (c, []) => .ok c
      | .ok (_, _ :: _) => .error .trailing                 -- the format's `end_seq`
      | .error e => .error e
    else .error .invalidType
  | .val _ => .error .invalidType

/-- `AlphaFieldVisitor`: is this identifier the alpha?  `visit_str`: `v == "alpha"`; `visit_u64`: `v == field_count`
    (`field_count = Some(fields.len())` on the `deserialize_struct` path) -/
def isAlphaKey (g : Cfg) (fieldCount : Nat) : Key → Bool
  | .str s => s == g.deStrKey
  | .idx n => n == fieldCount

/-- `MapWrapper::next_key_seed` interleaved with the wrapped visitor's loop -/
def alphaMapStep (g : Cfg) (f : Fmt) (d : Desc) (st : List (Option α) × Option α) (kv : Key × GVal α) :
    Res (List (Option α) × Option α) :=
  if isAlphaKey g d.fields.length kv.1 then
    if st.2.isSome then .error (.duplicateField g.deDupName)
    else match decodeNum kv.2 with
      | .ok a => .ok (st.1, some a)
      | .error e => .error e
  else match mapStep g.hueTransparent f d st.1 kv with
    | .ok s => .ok (s, st.2)
    | .error e => .error e

/-- `C::deserialize(AlphaDeserializer { inner, alpha: &mut alpha })`: the colour and what ended up in `alpha` -/
def deAlphaRaw (g : Cfg) (f : Fmt) (d : Desc) : GTree α → Res (List α × Option α)
  | .map es =>
    match foldRes (alphaMapStep g f d) (d.fields.map fun _ => none, none) es with
    | .ok (slots, a) => (match collect d.fields slots with
      | .ok c => .ok (c, a)
      | .error e => .error e)
    | .error e => .error e
  | .seq xs =>
    if f.structFromSeq then
      -- `AlphaMapVisitor::visit_seq`: the colour's `visit_seq`, then `*self.alpha = seq.next_element()?`
      match seqFields g.hueTransparent f d.fields 0 xs with
      | .ok (c, []) => .ok (c, none)
      | .ok (c, [v]) => (match decodeNum v with
        | .ok a => .ok (c, some a)
        | .error e => .error e)
      | .ok (_, v :: _ :: _) => (match decodeNum (α := α) v with
        | .ok _ => .error .trailing
        | .error e => .error e)
      | .error e => .error e
    else .error .invalidType
  | .val _ => .error .invalidType

/-- `Alpha::deserialize` / `PreAlpha::deserialize`: a missing alpha is an error -/
def deAlpha (g : Cfg) (f : Fmt) (d : Desc) (t : GTree α) : Res (List α × α) :=
  match deAlphaRaw g f d t with
  | .ok (c, some a) => .ok (c, a)
  | .ok (_, none) => .error (.missingField g.missingName)
  | .error e => .error e

/-- `deserialize_with_optional_alpha` / `deserialize_with_optional_pre_alpha`: `alpha.unwrap_or_else(max_intensity)` -/
def deAlphaOpt (g : Cfg) (f : Fmt) (d : Desc) (maxIntensity : α) (t : GTree α) : Res (List α × α) :=
  match deAlphaRaw g f d t with
  | .ok (c, a) => .ok (c, a.getD maxIntensity)
  | .error e => .error e

/-- the constants of a component type that a default for a missing alpha can name (`Stimulus::max_intensity`, `num::One::one`,
    `num::Zero::zero` / `Stimulus::min_intensity`) -/
structure CompConsts (α : Type) where
  maxIntensity : α
  one : α
  zero : α

/-- what the helpers' `alpha.unwrap_or_else(<T>::<name>)` evaluates to; `name` is read from serde.rs on every run -/
def optDefault (name : String) (k : CompConsts α) : Option α :=
  if name == "max_intensity" then some k.maxIntensity
  else if name == "one" then some k.one
  else if name == "zero" || name == "min_intensity" || name == "default" then some k.zero
  else none

/-- a hue on its own -/
def deHue (tr : Bool) (f : Fmt) : GTree α → Res α
  | .val (.num x) => if !tr && f.newtypeWrapped then .error .invalidType else .ok x
  | .seq [.num x] => if !tr && f.newtypeWrapped then .ok x else .error .invalidType
  | _ => .error .invalidType

/-- `deserialize_as_array`: `[T; N]::deserialize` (a tuple of exactly `N` numbers), then `cast::from_array` -/
def deAsArray (n : Nat) : GTree α → Res (List α)
  | .seq xs =>
    if xs.length < n then .error (.invalidLength xs.length)
    else if n < xs.length then .error .trailing
    else xs.mapM decodeNum
  | _ => .error .invalidType

/-- `deserialize_as_uint` -/
def deAsUint : GTree α → Res α
  | .val v => decodeNum v
  | _ => .error .invalidType

end Serde
