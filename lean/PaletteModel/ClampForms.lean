/-
  Explicit model functions for the *forms* of the bounds contract (C03) that `Clamp.lean` had only inside theorem statements
  (`C03.alpha_clamp`, `C03.fromColor_eq`, "slices = `map`"): the clamping / checked conversion *as a function of the unclamped
  conversion*, the collection forms, `Alpha<C, T>` and `[T]`.  Every one is written with the functions of `Clamp.lean`
  (`clampAll`, `withinAll`, `clampV`, `fromColor`, `tryFrom`), so the theorems of `PaletteProofs/C03_Clamp.lean` apply to them
  (`PaletteProofs/C03_Forms.lean`), and `PaletteProofs/Tie_Convert.lean` / `Tie_Alpha.lean` prove the translated Rust glue equal to them.

  Order-only, generic over `<` / `≤` like `Clamp.lean`; no Mathlib.
-/
import PaletteModel.Clamp

namespace Clamp

section order
variable {α σ : Type} [LT α] [LE α] [DecidableRel (α := α) (· < ·)] [DecidableRel (α := α) (· ≤ ·)]

/-- `U::from_color(t)` (`convert/from_into_color.rs`) for the unclamped conversion `u : T → U` into a type with bounds table `bs` -/
def fromColorOf (u : σ → List α) (bs : List (Bound α)) (t : σ) : List α := fromColor (u t) bs
/-- `U::try_from_color(t)` (`convert/try_from_into_color.rs`); the error carries the colour `OutOfBounds::color` hands back -/
def tryFromOf (u : σ → List α) (bs : List (Bound α)) (t : σ) : Except (List α) (List α) := tryFrom (u t) bs
/-- `Vec<U>::from_color(Vec<T>)`, `Box<[U]>::from_color(Box<[T]>)`: every element converted with `from_color`, in order -/
def fromColorList (u : σ → List α) (bs : List (Bound α)) (ts : List σ) : List (List α) := ts.map (fromColorOf u bs)
/-- `Vec<U>::from_color_unclamped(Vec<T>)`, `Box<[U]>::from_color_unclamped(Box<[T]>)` -/
def unclampedList {τ : Type} (u : σ → τ) (ts : List σ) : List τ := ts.map u

/-- `T::into_color_unclamped(self)`: `U::from_color_unclamped(self)` -/
def intoUnclampedOf {τ : Type} (u : σ → τ) (t : σ) : τ := u t

/-- `Clamp for Alpha<C, T>` / `ClampAssign for Alpha<C, T>` (`alpha/alpha.rs`): the colour clamped by its own table, the alpha
    clamped to `[min_alpha, max_alpha] = [lo, hi]` -/
def alphaClamp (bs : List (Bound α)) (lo hi : α) (c : List α) (a : α) : List α × α := (clampAll c bs, clampV a lo hi)
/-- `IsWithinBounds for Alpha<C, T>`: `self.color.is_within_bounds() & self.alpha.gt_eq(&min_alpha) & self.alpha.lt_eq(&max_alpha)` -/
def alphaWithin (bs : List (Bound α)) (lo hi : α) (c : List α) (a : α) : Bool :=
  withinAll c bs && decide (lo ≤ a) && decide (a ≤ hi)

/-- `ClampAssign for [T]` (`lib.rs`): `self.iter_mut().for_each(T::clamp_assign)` -/
def sliceClamp (bs : List (Bound α)) (cs : List (List α)) : List (List α) := cs.map (clampAll · bs)
/-- `IsWithinBounds for [T]` (`lib.rs`): the conjunction over the items (the loop stops at the first `false`) -/
def sliceWithin (bs : List (Bound α)) (cs : List (List α)) : Bool := cs.all (withinAll · bs)
end order

end Clamp
