import PaletteModel.Proto
import PaletteModel.Clamp
import PaletteModel.Gen.Bounds

namespace Clamp
open Proto

/-- a component value of any of the component types the harness uses -/
inductive Num | f32 (x : Float32) | f64 (x : Float) | int (n : Nat)

def Num.parse? (t : String) : Option Num :=
  match f32? t with
  | some x => some (.f32 x)
  | none => match f64? t with
    | some x => some (.f64 x)
    | none => t.toNat?.map .int

def Num.show : Num → String
  | .f32 x => showF32 x | .f64 x => showF64 x | .int n => toString n

def Num.ltb : Num → Num → Bool
  | .f32 x, .f32 y => decide (x < y) | .f64 x, .f64 y => decide (x < y) | .int x, .int y => decide (x < y) | _, _ => false
def Num.leb : Num → Num → Bool
  | .f32 x, .f32 y => decide (x ≤ y) | .f64 x, .f64 y => decide (x ≤ y) | .int x, .int y => decide (x ≤ y) | _, _ => false
instance : LT Num := ⟨fun a b => a.ltb b = true⟩
instance : LE Num := ⟨fun a b => a.leb b = true⟩
instance : DecidableRel (α := Num) (· < ·) := fun a b => inferInstanceAs (Decidable (a.ltb b = true))
instance : DecidableRel (α := Num) (· ≤ ·) := fun a b => inferInstanceAs (Decidable (a.leb b = true))
instance : Add Num := ⟨fun a b => match a, b with
  | .f32 x, .f32 y => .f32 (x + y) | .f64 x, .f64 y => .f64 (x + y) | .int x, .int y => .int (x + y) | a, _ => a⟩
instance : Sub Num := ⟨fun a b => match a, b with
  | .f32 x, .f32 y => .f32 (x - y) | .f64 x, .f64 y => .f64 (x - y) | .int x, .int y => .int (x - y) | a, _ => a⟩
instance : Div Num := ⟨fun a b => match a, b with
  | .f32 x, .f32 y => .f32 (x / y) | .f64 x, .f64 y => .f64 (x / y) | .int x, .int y => .int (x / y) | a, _ => a⟩

def parseBounds : List String → Option (List (Bound Num))
  | [] => some []
  | "*" :: "*" :: r => (parseBounds r).map (.untouched :: ·)
  | lo :: "-" :: r => do let l ← Num.parse? lo; let rest ← parseBounds r; pure (.minOnly l :: rest)
  | lo :: hi :: r => do let l ← Num.parse? lo; let h ← Num.parse? hi; let rest ← parseBounds r; pure (.both l h :: rest)
  | _ => none

/-- shape of a type's clamped components according to the macro invocations extracted from the source:
    the sequence of "has an upper bound" flags, in declaration order -/
def genShape (key : String) : Option (List Bool) :=
  (Gen.Bounds.entries.find? (fun e => e.1 == key)).map fun e => e.2.2.map (fun c => c.2.2 != "None")

def shapeOf : List (Bound Num) → List Bool
  | [] => []
  | .both _ _ :: r => true :: shapeOf r
  | .minOnly _ :: r => false :: shapeOf r
  | .untouched :: r => shapeOf r

def boolTok (b : Bool) : String := if b then "1" else "0"

/-- `clamp <TypeKey> | <n> v1..vn b1lo b1hi .. | c1..cn withinBefore withinAfter`
    `clamphwb | zero one w b | w' b' withinBefore withinAfter` -/
def handle (op : String) (cfg inp outp : List String) : Verdict :=
  match op, cfg, inp with
  | "clamp", [key], nTok :: rest =>
    match nTok.toNat? with
    | none => .bad "clamp: bad n"
    | some n =>
      match (rest.take n).mapM Num.parse?, parseBounds (rest.drop n) with
      | some vs, some bs =>
        if bs.length != n then .bad "clamp: bounds/components mismatch" else
        match genShape key with
        | none => .bad s!"clamp: type {key} not in the extracted bounds table"
        | some sh =>
          if sh != shapeOf bs then .disagree s!"bounds shape from the accessors {shapeOf bs} differs from the macro invocation {sh}" else
          let c := clampAll vs bs
          let m := c.map Num.show ++ [boolTok (withinAll vs bs), boolTok (withinAll c bs)]
          if m == outp then .agree ["clamp:" ++ (if withinAll vs bs then "inside" else "outside")] else .disagree s!"model={m}"
      | _, _ => .bad "clamp: unparsable"
  | "clamphwb", [], [z, o, w, b] =>
    match Num.parse? z, Num.parse? o, Num.parse? w, Num.parse? b with
    | some z, some o, some w, some b =>
      let (w', b') := hwbClamp z o w b
      let m := [w'.show, b'.show, boolTok (hwbWithin z o w b), boolTok (hwbWithin z o w' b')]
      if m == outp then .agree ["hwb:" ++ (if hwbWithin z o w b then "inside" else "outside")] else .disagree s!"model={m}"
    | _, _, _, _ => .bad "clamphwb: unparsable"
  | _, _, _ => .bad "malformed clamp line"

end Clamp
