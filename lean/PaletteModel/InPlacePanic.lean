/-
  C13 — what the in-place conversions leave behind when a colour conversion **panics** half way through a buffer.

  Extension of the symbolic model `PaletteModel/InPlace.lean` (which it does not change): the same terms, buffers, guards and
  operations, plus the outcome "the element conversion called for the `k`-th time (0-based) inside this operation panics".
  Transcribed from the same sources:

    * `impl FromColorMut<U> for T` (one colour):
          let color_clone = color.clone();
          let result: &mut T = cast::from_array_mut(cast::into_array_mut(color));
          *result = color_clone.into_color();                 // <- the panic happens here, before the assignment
      so the element keeps its old value, and no guard is returned.
    * `impl FromColorMut<[U]> for [T]`:
          for color in &mut *colors { core::mem::forget(T::from_color_mut(color)); }
          FromColorMutGuard { current: Some(..), .. }         // <- never reached
      the elements before `k` are converted (their guards were forgotten), the others are not, **nothing rolls this back**:
      there is no drop guard in the loop, and the slice guard that would restore does not exist yet.
    * `Drop for From…MutGuard`:  `forget(self.current.take().map(U::from_color_mut))`, and the expression
      `self.current.take().map(X::from_color_mut).and_then(..)` of `then_into_*` / `restore`: `current` is taken **before** the
      conversion runs, so when the conversion panics the guard that is being dropped / consumed holds `None` and its `Drop`
      (run by the unwinding) does nothing: no second back-conversion is attempted.
    * the unwinding then drops every other live guard (innermost first; they still hold `Some`): each converts the whole buffer
      back with its own conversion, whatever the elements hold at that point.
    * `cast::map_vec_in_place` / `map_slice_box_in_place`:
          let mut values = ManuallyDrop::new(into_array_vec(values));
          for item in &mut *values {
              let input = unsafe { core::ptr::read(item) };          // bitwise copy: the slot and `input` alias one value
              let output = into_array::<B>(map(from_array::<A>(input)));   // `input` is moved into `map`; a panic drops it there
              unsafe { core::ptr::write(item, output) };             // overwrites without dropping
          }
      "`values` will not be dropped on panic": the allocation and every element still in it are **leaked**; the one value that was
      moved into `map` is dropped by the unwinding, exactly once.  Without the `ManuallyDrop` it would be dropped a second time
      through its slot (`md = false` below is that counterfactual; the driver and the theorems about the code use `md = true`).

  A panic inside a `Drop` that runs during an unwinding aborts the process; histories with a second panic are not modelled.
  No Mathlib here (this file is linked into the driver).
-/
import PaletteModel.InPlace

namespace InPlace

/-! ## the element loop with a panicking conversion -/

/-- the loop of `impl FromColorMut<[U]> for [T]` when the `k`-th call of `T::from_color_mut` panics: the elements before it hold
    the converted colour, it and the ones after it are untouched.  (`k ≥` length: no call panics, every element is converted.) -/
def convLoopPanic (cl : Bool) (U T : Ty) : Nat → List Term → List Term
  | _, [] => []
  | 0, color :: rest => color :: rest
  | k + 1, color :: rest => (fromColorMutElem cl U T color).2 :: convLoopPanic cl U T k rest

/-- how many element conversions `from_color_mut` performs on this buffer -/
def convCalls (form : Form) (b : Buffer) : Nat :=
  match form with
  | .single => min 1 b.elems.length
  | _ => b.elems.length

/-- the memory after `T::from_color_mut(r)` panicked in its `k`-th element conversion (`k < convCalls`); no guard exists -/
def fromColorMutPanic (cl : Bool) (U T : Ty) (form : Form) (b : Buffer) (k : Nat) : Buffer :=
  match form with
  | .single => b                                  -- the only conversion panics before `*result = …`
  | _ => { b with elems := convLoopPanic cl U T k b.elems }

/-- `self.current.take().map(X::from_color_mut)…` of `then_into_*` / `restore` when `X::from_color_mut` panics: the inner guard is
    never created; the unwinding drops `self`, whose `current` has been taken -/
def takeMapTakePanic (form : Form) (cl : Bool) (X : Ty) (self : Guard) (b : Buffer) (k : Nat) : Option Buffer :=
  let (taken, self') := self.take
  match taken with
  | none => none                                  -- `None.map(..)`: nothing is converted, nothing panics
  | some T =>
    let b1 := fromColorMutPanic cl T X form b k
    some (dropGuard form self' b1)

/-- `Drop::drop` when `U::from_color_mut` panics: `current` has been taken, the guard is gone -/
def dropGuardPanic (form : Form) (self : Guard) (b : Buffer) (k : Nat) : Option Buffer :=
  let (taken, _) := self.take
  match taken with
  | none => none
  | some T => some (fromColorMutPanic self.clamped T self.original form b k)

/-- the state in which the unwinding leaves the panicking operation (the operation's own temporaries are gone, the other live
    guards are still to be dropped).  `none`: the operation performs no `k`-th conversion (so it does not panic there), or is not
    expressible at this point. -/
def panicStep (op : Op) (k : Nat) (s : State) : Option State :=
  if convCalls s.form s.buf ≤ k then none else
  match op, s.guards with
  | .fromColorMut cl T, [] => some { s with buf := fromColorMutPanic cl s.rootTy T s.form s.buf k }
  | .fromColorMut cl T, g :: _ =>
    match g.current with
    | none => none
    | some cur => some { s with buf := fromColorMutPanic cl cur T s.form s.buf k }      -- `g` stays alive until the unwinding reaches it
  | .thenInto C, g :: gs => (takeMapTakePanic s.form true C g s.buf k).map fun b => { s with buf := b, guards := gs }
  | .thenIntoUnclamped C, g :: gs => (takeMapTakePanic s.form false C g s.buf k).map fun b => { s with buf := b, guards := gs }
  | .restore, g :: gs => (takeMapTakePanic s.form g.clamped g.original g s.buf k).map fun b => { s with buf := b, guards := gs }
  | .drop, g :: gs => (dropGuardPanic s.form g s.buf k).map fun b => { s with buf := b, guards := gs }
  | _, _ => none

/-- the unwinding: every live guard goes out of scope, innermost first -/
def unwindGo (form : Form) : List Guard → Buffer → Buffer
  | [], b => b
  | g :: gs, b => unwindGo form gs (dropGuard form g b)

def unwind (s : State) : State := { s with buf := unwindGo s.form s.guards s.buf, guards := [] }

/-! ## `map_vec_in_place` / `map_slice_box_in_place` with a panicking closure -/

/-- what is left of an owned buffer whose in-place map panicked -/
structure Leak where
  /-- the contents of the allocation at the moment of the panic -/
  slots : List Term
  /-- the values whose destructor ran, in order -/
  dropped : List Term
  /-- was the allocation released? -/
  freed : Bool
  deriving DecidableEq, Repr, Inhabited

inductive MapOutcome where
  | finished (elems : List Term)
  | panicked (l : Leak)
  deriving DecidableEq, Repr, Inhabited

/-- the loop, `done` = the slots already overwritten; `md` = `values` is wrapped in `ManuallyDrop` (in the code: yes) -/
def mapLoopPanic (map : Term → Term) (md : Bool) : Nat → List Term → List Term → MapOutcome
  | _, done, [] => .finished done
  | 0, done, item :: rest =>
    -- `input = ptr::read(item)`; `map(input)` panics and drops its argument; the slot still holds the same bits
    let slots := done ++ item :: rest
    .panicked { slots := slots, dropped := item :: (if md then [] else slots), freed := !md }
  | k + 1, done, item :: rest => mapLoopPanic map md k (done ++ [map item]) rest

/-- `Vec::<B>::from_color(vec)` / `cast::map_vec_in_place(vec, f)` (and the boxed-slice forms) whose conversion panics on call `k` -/
def ownedPanic (cl : Bool) (A B : Ty) (b : Buffer) (k : Nat) : MapOutcome :=
  mapLoopPanic (Term.conv cl A B) true k [] b.elems

/-! ## histories with panics -/

inductive PStep where
  /-- an operation that completes -/
  | op (o : Op)
  /-- an operation in which the `k`-th element conversion panics; the panic is caught outside all guards (`catch_unwind`) -/
  | panicIn (o : Op) (k : Nat)
  /-- a panic in the user's code while guards are alive: only the unwinding -/
  | userPanic
  deriving DecidableEq, Repr, Inhabited

inductive Final where
  | state (s : State)
  /-- the owner was consumed by a by-value conversion that panicked: nothing is left to observe but what was dropped -/
  | leaked (l : Leak)
  deriving DecidableEq, Repr, Inhabited

def stepP (p : PStep) (s : State) : Option Final :=
  match p with
  | .op o => (step o s).map .state
  | .userPanic => some (.state (unwind s))
  | .panicIn (.ownedFromColor cl T) k =>
    if s.guards = [] ∧ (s.form = .vec ∨ s.form = .boxed) then
      match ownedPanic cl s.rootTy T s.buf k with
      | .finished _ => none
      | .panicked l => some (.leaked l)
    else none
  | .panicIn o k => (panicStep o k s).map fun s' => .state (unwind s')

def runP : List PStep → State → Option Final
  | [], s => some (.state s)
  | p :: ps, s =>
    match stepP p s with
    | none => none
    | some (.state s') => runP ps s'
    | some (.leaked l) => if ps.isEmpty then some (.leaked l) else none

end InPlace
