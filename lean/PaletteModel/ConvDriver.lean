/-
  `conv <Src[:cfg]> <Dst[:cfg]> | c0 c1 c2 | d0 d1 d2` — dispatch to the edge functions of the colour families.
  Each family contributes `edge? : (src dst : String × String) → Option (V3 α → V3 α × scale)`.
-/
import PaletteModel.Proto
import PaletteModel.Color.Cie

namespace Conv
open Proto

/-- split `Name:cfg` -/
def tyCfg (tok : String) : String × String :=
  match tok.splitOn ":" with
  | [a, b] => (a, b)
  | _ => (tok, "")

/-- an edge of the model together with the natural scale of each output component (for the ulp tolerance: components
    obtained by cancellation are compared relative to the magnitude they were cancelled from) -/
structure Edge (α : Type) where
  f : V3 α → V3 α
  scale : V3 α → V3 α     -- from the *input*

variable {α : Type} [Scalar α]

def ones : V3 α := ⟨1.0, 1.0, 1.0⟩

/-- CIE family.  cfg of Xyz/Yxy/Lab/Lch/Luv/Lchuv/Hsluv = white point name (`Any` for the Xyz side of a bare cone matrix),
    cfg of Lms = cone matrix name.  Scales: `L*` is obtained as `116·f − 16` (scale 116), `a*`/`b*` as `500·(fx − fy)`/`200·(fy − fz)`
    (scales 500/200), `u*`/`v*` as `13·L·(u′ − u′ₙ)` with `13·L·u′ ≤ 13·100·0.7` (scale 1000); a stored hue is an angle (scale 360);
    a cartesian component `chroma·cos h` is compared relative to the chroma. -/
def cieEdge? [Angle α] {β : Type} [Scalar β] [ViaF64 α β] (src dst : String × String) : Option (Edge α) :=
  let wpKnown (n : String) : Bool := Gen.Mat.whitePoints.any (·.1 == n)
  let sameWp : Bool := src.2 == dst.2 && wpKnown src.2
  let wp : V3 α := Color.whitePoint src.2
  match src.1, dst.1 with
  | "Xyz", "Yxy" => if src.2 == dst.2 then some ⟨Cie.xyzToYxy, fun _ => ones⟩ else none
  | "Yxy", "Xyz" => if src.2 == dst.2 then some ⟨Cie.yxyToXyz, fun _ => ones⟩ else none
  | "Xyz", "Lab" => if sameWp then some ⟨Cie.xyzToLab wp, fun _ => ⟨116.0, 500.0, 200.0⟩⟩ else none
  | "Lab", "Xyz" => if sameWp then some ⟨Cie.labToXyz wp, fun _ => ones⟩ else none
  | "Lab", "Lch" => if sameWp then some ⟨Cie.labToLch, fun _ => ⟨1.0, 0.0, 360.0⟩⟩ else none
  | "Lch", "Lab" => if sameWp then some ⟨Cie.lchToLab, fun c => ⟨0.0, c.c1, c.c1⟩⟩ else none
  | "Xyz", "Luv" => if sameWp then some ⟨Cie.xyzToLuv wp, fun _ => ⟨116.0, 1000.0, 1000.0⟩⟩ else none
  | "Luv", "Xyz" => if sameWp then some ⟨Cie.luvToXyz wp, fun _ => ones⟩ else none
  | "Luv", "Lchuv" => if sameWp then some ⟨Cie.luvToLchuv, fun _ => ⟨1.0, 0.0, 360.0⟩⟩ else none
  | "Lchuv", "Luv" => if sameWp then some ⟨Cie.lchuvToLuv, fun c => ⟨0.0, c.c1, c.c1⟩⟩ else none
  | "Lchuv", "Hsluv" => if sameWp then some ⟨Cie.lchuvToHsluv, fun _ => ⟨0.0, 0.0, 0.0⟩⟩ else none
  | "Hsluv", "Lchuv" => if sameWp then some ⟨Cie.hsluvToLchuv, fun _ => ⟨0.0, 0.0, 0.0⟩⟩ else none
  | "Xyz", "Lms" => if src.2 == "Any" then (Cie.coneMatrix? dst.2).map fun (a, _) => ⟨Cie.xyzToLms a, fun _ => ones⟩ else none
  | "Lms", "Xyz" => if dst.2 == "Any" then (Cie.coneMatrix? src.2).map fun (_, b) => ⟨Cie.lmsToXyz b, fun _ => ones⟩ else none
  | _, _ => none

def edge? [Angle α] {β : Type} [Scalar β] [ViaF64 α β] (src dst : String × String) : Option (Edge α) :=
  cieEdge? src dst

def handle (cfg inp outp : List String) : Verdict :=
  match cfg with
  | [s, d] =>
    let (src, dst) := (tyCfg s, tyCfg d)
    match inp.mapM f32?, outp.mapM f32? with
    | some [a, b, c], some [x, y, z] =>
      match edge? (α := Float32) src dst with
      | none => .bad s!"no model edge {s} -> {d}"
      | some e =>
        let m := e.f ⟨a, b, c⟩
        let sc := e.scale ⟨a, b, c⟩
        if closeAbs32 m.c0 x sc.c0 8 && closeAbs32 m.c1 y sc.c1 8 && closeAbs32 m.c2 z sc.c2 8 then .agree [src.1 ++ "->" ++ dst.1 ++ ":f32"]
        else .disagree s!"model={showF32 m.c0} {showF32 m.c1} {showF32 m.c2}"
    | _, _ =>
      match inp.mapM f64?, outp.mapM f64? with
      | some [a, b, c], some [x, y, z] =>
        match edge? (α := Float) src dst with
        | none => .bad s!"no model edge {s} -> {d}"
        | some e =>
          let m := e.f ⟨a, b, c⟩
          let sc := e.scale ⟨a, b, c⟩
          if closeAbs64 m.c0 x sc.c0 8 && closeAbs64 m.c1 y sc.c1 8 && closeAbs64 m.c2 z sc.c2 8 then .agree [src.1 ++ "->" ++ dst.1 ++ ":f64"]
          else .disagree s!"model={showF64 m.c0} {showF64 m.c1} {showF64 m.c2}"
      | _, _ => .bad "unparsable conv line"
  | _ => .bad "malformed conv line"

end Conv
