/-
  `conv <Src[:cfg]> <Dst[:cfg]> | c0 c1 c2 | d0 d1 d2` — dispatch to the edge functions of the colour families.
  Each family contributes `edge? : (src dst : String × String) → Option (V3 α → V3 α × scale)`.
-/
import PaletteModel.Proto
import PaletteModel.Color.Cie
import PaletteModel.Color.RgbFamily
import PaletteModel.Color.Ok

namespace Conv
open Proto

/-- split `Name:cfg` -/
def tyCfg (tok : String) : String × String :=
  match tok.splitOn ":" with
  | [a, b] => (a, b)
  | _ => (tok, "")

/-- an edge of the model together with the natural scale of each output component (for the ulp tolerance: components
    obtained by cancellation are compared relative to the magnitude they were cancelled from) -/
structure Edge (α : Type) where
  f : V3 α → V3 α
  scale : V3 α → V3 α     -- from the *input*

variable {α : Type} [Scalar α]

def ones : V3 α := ⟨1.0, 1.0, 1.0⟩

/-- CIE family.  cfg of Xyz/Yxy/Lab/Lch/Luv/Lchuv/Hsluv = white point name (`Any` for the Xyz side of a bare cone matrix),
    cfg of Lms = cone matrix name.  Scales: `L*` is obtained as `116·f − 16` (scale 116), `a*`/`b*` as `500·(fx − fy)`/`200·(fy − fz)`
    (scales 500/200), `u*`/`v*` as `13·L·(u′ − u′ₙ)` with `13·L·u′ ≤ 13·100·0.7` (scale 1000); a stored hue is an angle (scale 360);
    a cartesian component `chroma·cos h` is compared relative to the chroma. -/
def cieEdge? [Angle α] {β : Type} [Scalar β] [ViaF64 α β] (src dst : String × String) : Option (Edge α) :=
  let wpKnown (n : String) : Bool := Gen.Mat.whitePoints.any (·.1 == n)
  let sameWp : Bool := src.2 == dst.2 && wpKnown src.2
  let wp : V3 α := Color.whitePoint src.2
  match src.1, dst.1 with
  | "Xyz", "Yxy" => if src.2 == dst.2 then some ⟨Cie.xyzToYxy, fun _ => ones⟩ else none
  | "Yxy", "Xyz" => if src.2 == dst.2 then some ⟨Cie.yxyToXyz, fun _ => ones⟩ else none
  | "Xyz", "Lab" => if sameWp then some ⟨Cie.xyzToLab wp, fun _ => ⟨116.0, 500.0, 200.0⟩⟩ else none
  | "Lab", "Xyz" => if sameWp then some ⟨Cie.labToXyz wp, fun _ => ones⟩ else none
  | "Lab", "Lch" => if sameWp then some ⟨Cie.labToLch, fun _ => ⟨1.0, 0.0, 360.0⟩⟩ else none
  | "Lch", "Lab" => if sameWp then some ⟨Cie.lchToLab, fun c => ⟨0.0, c.c1, c.c1⟩⟩ else none
  | "Xyz", "Luv" => if sameWp then some ⟨Cie.xyzToLuv wp, fun _ => ⟨116.0, 1000.0, 1000.0⟩⟩ else none
  | "Luv", "Xyz" => if sameWp then some ⟨Cie.luvToXyz wp, fun _ => ones⟩ else none
  | "Luv", "Lchuv" => if sameWp then some ⟨Cie.luvToLchuv, fun _ => ⟨1.0, 0.0, 360.0⟩⟩ else none
  | "Lchuv", "Luv" => if sameWp then some ⟨Cie.lchuvToLuv, fun c => ⟨0.0, c.c1, c.c1⟩⟩ else none
  | "Lchuv", "Hsluv" => if sameWp then some ⟨Cie.lchuvToHsluv, fun _ => ⟨0.0, 0.0, 0.0⟩⟩ else none
  | "Hsluv", "Lchuv" => if sameWp then some ⟨Cie.hsluvToLchuv, fun _ => ⟨0.0, 0.0, 0.0⟩⟩ else none
  | "Xyz", "Lms" => if src.2 == "Any" then (Cie.coneMatrix? dst.2).map fun (a, _) => ⟨Cie.xyzToLms a, fun _ => ones⟩ else none
  | "Lms", "Xyz" => if dst.2 == "Any" then (Cie.coneMatrix? src.2).map fun (_, b) => ⟨Cie.lmsToXyz b, fun _ => ones⟩ else none
  | _, _ => none

/-! #### RGB family: Rgb, Hsv, Hsl, Hwb, Luma (cfg = RGB standard name of `Color.standard?`; a luma standard is named by
     the RGB standard with the same white point and transfer function, `Linear<D65>` = `LinSrgb`).  A destination cfg
     `<std>+simd` selects the mask-generic branch of `Hsv`/`Hsl ← Rgb` (the harness runs it through `wide` lanes). -/

/-- hue outputs: absolute tolerance in ulps of a full turn -/
def hueScale : V3 α := ⟨360.0, 1.0, 1.0⟩

def stripSimd (cfg : String) : String × Bool :=
  -- fast path, same result (`splitOn` of a string without the separator is `[cfg]`): `String.splitOn` does not reduce in the
  -- kernel, `toList.contains` does, so the whole-route theorems (`PaletteProofs/C01_Whole*.lean`) can evaluate the dispatch
  if !cfg.toList.contains '+' then (cfg, false) else
  match cfg.splitOn "+" with
  | [a, "simd"] => (a, true)
  | _ => (cfg, false)

def rgbEdge? (src dst : String × String) : Option (Edge α) :=
  let (dcfg, simd) := stripSimd dst.2
  let isStd (t : String) : Bool := t == "Rgb" || t == "Hsv" || t == "Hsl" || t == "Hwb" || t == "Luma"
  -- standard-parametrised types carry an RGB standard name, Xyz/Yxy a white point name
  let s? := if isStd src.1 then RgbFam.Std.of? src.2 else none
  let d? := if isStd dst.1 then RgbFam.Std.of? dcfg else none
  match src.1, dst.1, s?, d? with
  | "Rgb", "Xyz", some s, none => if s.wp == dst.2 then some ⟨RgbFam.rgbToXyz s.toXyz s.tf, fun _ => ones⟩ else none
  | "Luma", "Xyz", some s, none => if s.wp == dst.2 then some ⟨RgbFam.lumaToXyz s, fun _ => ones⟩ else none
  | "Luma", "Yxy", some s, none => if s.wp == dst.2 then some ⟨RgbFam.lumaToYxy s, fun _ => ones⟩ else none
  | "Xyz", "Rgb", none, some d => if d.wp == src.2 && !simd then some ⟨RgbFam.xyzToRgb d.fromXyz d.tf, fun _ => ones⟩ else none
  | "Xyz", "Luma", none, some d => if d.wp == src.2 && !simd then some ⟨RgbFam.xyzToLuma d, fun _ => ones⟩ else none
  | "Yxy", "Luma", none, some d => if d.wp == src.2 && !simd then some ⟨RgbFam.yxyToLuma d, fun _ => ones⟩ else none
  | a, b, some s, some d =>
    let same := s.name == d.name
    match a, b with
    | "Rgb", "Rgb" => if s.wp == d.wp && !simd then some ⟨RgbFam.rgbToRgb s d, fun _ => ones⟩ else none
    | "Rgb", "Hsv" => if same then some ⟨if simd then RgbFam.rgbToHsvMask else RgbFam.rgbToHsv, fun _ => hueScale⟩ else none
    | "Rgb", "Hsl" => if same then some ⟨if simd then RgbFam.rgbToHslMask else RgbFam.rgbToHsl, fun _ => hueScale⟩ else none
    | "Hsv", "Rgb" => if same && !simd then some ⟨RgbFam.hsvToRgb, fun _ => ones⟩ else none
    | "Hsl", "Rgb" => if same && !simd then some ⟨RgbFam.hslToRgb, fun _ => ones⟩ else none
    | "Hsl", "Hsv" => if same && !simd then some ⟨RgbFam.hslToHsv, fun _ => hueScale⟩ else none
    | "Hsv", "Hsl" => if same && !simd then some ⟨RgbFam.hsvToHsl, fun _ => hueScale⟩ else none
    | "Hsv", "Hwb" => if same && !simd then some ⟨RgbFam.hsvToHwb, fun _ => hueScale⟩ else none
    | "Hwb", "Hsv" => if same && !simd then some ⟨RgbFam.hwbToHsv, fun _ => hueScale⟩ else none
    | "Hsv", "Hsv" => if s.wp == d.wp && !simd then
        some ⟨RgbFam.hsvToHsv s d, fun _ => hueScale⟩ else none
    | "Hsl", "Hsl" => if s.wp == d.wp && !simd then
        some ⟨RgbFam.hslToHsl s d, fun _ => hueScale⟩ else none
    | "Hwb", "Hwb" => if s.wp == d.wp && !simd then
        some ⟨RgbFam.hwbToHwb s d, fun _ => hueScale⟩ else none
    | "Luma", "Luma" => if s.wp == d.wp && !simd then some ⟨RgbFam.lumaToLuma s d, fun _ => ones⟩ else none
    | "Luma", "Rgb" => if s.wp == d.wp && !simd then some ⟨RgbFam.lumaToRgb s d, fun _ => ones⟩ else none
    | _, _ => none
  | _, _, _, _ => none


section OkFamily
variable [Angle α]

/-- standards the Ok family is driven with: the RGB space must have the D65 white point -/
def okStd? (cfg : String) : Option (Color.RgbSpaceData × Transfer.Fn) :=
  match Color.standard? cfg with
  | some (sp, tf) => match Color.rgbSpace? sp with
    | some d => if d.wp == "D65" then some (d, tf) else none
    | none => none
  | none => none

def absMax3 (v : V3 α) : α := Scalar.max (Scalar.abs v.c0) (Scalar.max (Scalar.abs v.c1) (Scalar.abs v.c2))

/-- Ottosson family.  Scales (see `Edge`): the opponent components a, b of Oklab are differences of the cube roots of the
    cone responses (coefficients up to 2.43), so they are compared relative to 2.5·∛max|input|, never tighter than that;
    linear RGB / XYZ obtained from Oklab are differences of cubes with coefficients up to 4.08 → 4.1·max|lms'|³, bounded
    through (|l| + |a| + 1.3|b|)³; a hue is compared with the absolute tolerance of 360°; Cartesian components rebuilt from
    a hue are relative to the chroma.  Okhsl/Okhsv outputs are compared on their own unit scale. -/
def okEdge? (src dst : String × String) : Option (Edge α) :=
  let cbrtScale : V3 α → V3 α := fun c => let m := 2.5 * Scalar.cbrt (absMax3 c); ⟨m, m, m⟩
  let cubeScale : V3 α → V3 α := fun c =>
    let u := Scalar.abs c.c0 + Scalar.abs c.c1 + 1.3 * Scalar.abs c.c2
    let m := 4.1 * (u * u * u); ⟨m, m, m⟩
  match src.1, dst.1 with
  | "Xyz", "Oklab" => if src.2 == "D65" then some ⟨Ok.xyzToOklab, cbrtScale⟩ else none
  | "Oklab", "Xyz" => if dst.2 == "D65" then some ⟨Ok.oklabToXyz, cubeScale⟩ else none
  | "Rgb", "Oklab" => (okStd? src.2).map fun (sp, tf) => ⟨Ok.rgbToOklab sp tf, fun _ => ⟨2.5, 2.5, 2.5⟩⟩
  | "Oklab", "Rgb" => (okStd? dst.2).map fun (sp, tf) => ⟨Ok.oklabToRgb sp tf, fun c => let s := cubeScale c; ⟨Scalar.max s.c0 1.0, Scalar.max s.c1 1.0, Scalar.max s.c2 1.0⟩⟩
  | "Oklab", "Oklch" => some ⟨Ok.oklabToOklch, fun _ => ⟨1.0, 1.0, 360.0⟩⟩
  | "Oklch", "Oklab" => some ⟨Ok.oklchToOklab, fun c => ⟨1.0, Scalar.abs c.c1, Scalar.abs c.c1⟩⟩
  | "Okhsl", "Oklab" => some ⟨Ok.okhslToOklab, fun _ => ones⟩
  | "Oklab", "Okhsl" => some ⟨Ok.oklabToOkhsl, fun _ => ⟨360.0, 1.0, 1.0⟩⟩
  | "Okhsv", "Oklab" => some ⟨Ok.okhsvToOklab, fun _ => ones⟩
  | "Oklab", "Okhsv" => some ⟨Ok.oklabToOkhsv, fun _ => ⟨360.0, 1.0, 1.0⟩⟩
  | "Okhsv", "Okhwb" => some ⟨Ok.okhsvToOkhwb, fun _ => ones⟩
  | "Okhwb", "Okhsv" => some ⟨Ok.okhwbToOkhsv, fun _ => ones⟩
  | _, _ => none


end OkFamily

def edge? [Angle α] {β : Type} [Scalar β] [ViaF64 α β] (src dst : String × String) : Option (Edge α) :=
  ((cieEdge? src dst).orElse fun _ => rgbEdge? src dst).orElse fun _ => okEdge? src dst

/-- a colour with fewer than three components (`Luma`) is carried with zero padding; only the components the
    implementation printed are compared -/
def pad3 (zero : α) : List α → Option (V3 α)
  | [a] => some ⟨a, zero, zero⟩
  | [a, b, c] => some ⟨a, b, c⟩
  | _ => none

def handle (cfg inp outp : List String) : Verdict :=
  match cfg with
  | [s, d] =>
    let (src, dst) := (tyCfg s, tyCfg d)
    match (inp.mapM f32?).bind (pad3 (0.0 : Float32)), outp.mapM f32? with
    | some i, some o =>
      if o.length != 1 && o.length != 3 then .bad "conv line: 1 or 3 output components expected" else
      match edge? (α := Float32) src dst with
      | none => .bad s!"no model edge {s} -> {d}"
      | some e =>
        let m := e.f i
        let sc := e.scale i
        if (List.zip o (List.zip m.toList sc.toList)).all (fun (x, mm, ss) => closeAbs32 mm x ss 8) then .agree [src.1 ++ "->" ++ dst.1 ++ (if (stripSimd dst.2).2 then "+simd" else "") ++ ":f32"]
        else .disagree s!"model={showF32 m.c0} {showF32 m.c1} {showF32 m.c2}"
    | _, _ =>
      match (inp.mapM f64?).bind (pad3 (0.0 : Float)), outp.mapM f64? with
      | some i, some o =>
        if o.length != 1 && o.length != 3 then .bad "conv line: 1 or 3 output components expected" else
        match edge? (α := Float) src dst with
        | none => .bad s!"no model edge {s} -> {d}"
        | some e =>
          let m := e.f i
          let sc := e.scale i
          if (List.zip o (List.zip m.toList sc.toList)).all (fun (x, mm, ss) => closeAbs64 mm x ss 8) then .agree [src.1 ++ "->" ++ dst.1 ++ (if (stripSimd dst.2).2 then "+simd" else "") ++ ":f64"]
          else .disagree s!"model={showF64 m.c0} {showF64 m.c1} {showF64 m.c2}"
      | _, _ => .bad "unparsable conv line"
  | _ => .bad "malformed conv line"

end Conv
