/-
  `conv <Src[:cfg]> <Dst[:cfg]> | c0 c1 c2 | d0 d1 d2` — dispatch to the edge functions of the colour families.
  Each family contributes `edge? : (src dst : String × String) → Option (V3 α → V3 α × scale)`.
-/
import PaletteModel.Proto
import PaletteModel.Color.Cie

namespace Conv
open Proto

/-- split `Name:cfg` -/
def tyCfg (tok : String) : String × String :=
  match tok.splitOn ":" with
  | [a, b] => (a, b)
  | _ => (tok, "")

/-- an edge of the model together with the natural scale of each output component (for the ulp tolerance: components
    obtained by cancellation are compared relative to the magnitude they were cancelled from) -/
structure Edge (α : Type) where
  f : V3 α → V3 α
  scale : V3 α → V3 α     -- from the *input*

variable {α : Type} [Scalar α]

def ones : V3 α := ⟨1.0, 1.0, 1.0⟩

def cieEdge? (src dst : String × String) : Option (Edge α) :=
  match src.1, dst.1 with
  | "Xyz", "Yxy" => if src.2 == dst.2 then some ⟨Cie.xyzToYxy, fun _ => ones⟩ else none
  | "Yxy", "Xyz" => if src.2 == dst.2 then some ⟨Cie.yxyToXyz, fun _ => ones⟩ else none
  | _, _ => none

def edge? (src dst : String × String) : Option (Edge α) :=
  cieEdge? src dst

def handle (cfg inp outp : List String) : Verdict :=
  match cfg with
  | [s, d] =>
    let (src, dst) := (tyCfg s, tyCfg d)
    match inp.mapM f32?, outp.mapM f32? with
    | some [a, b, c], some [x, y, z] =>
      match edge? (α := Float32) src dst with
      | none => .bad s!"no model edge {s} -> {d}"
      | some e =>
        let m := e.f ⟨a, b, c⟩
        let sc := e.scale ⟨a, b, c⟩
        if closeAbs32 m.c0 x sc.c0 8 && closeAbs32 m.c1 y sc.c1 8 && closeAbs32 m.c2 z sc.c2 8 then .agree [src.1 ++ "->" ++ dst.1 ++ ":f32"]
        else .disagree s!"model={showF32 m.c0} {showF32 m.c1} {showF32 m.c2}"
    | _, _ =>
      match inp.mapM f64?, outp.mapM f64? with
      | some [a, b, c], some [x, y, z] =>
        match edge? (α := Float) src dst with
        | none => .bad s!"no model edge {s} -> {d}"
        | some e =>
          let m := e.f ⟨a, b, c⟩
          let sc := e.scale ⟨a, b, c⟩
          if closeAbs64 m.c0 x sc.c0 8 && closeAbs64 m.c1 y sc.c1 8 && closeAbs64 m.c2 z sc.c2 8 then .agree [src.1 ++ "->" ++ dst.1 ++ ":f64"]
          else .disagree s!"model={showF64 m.c0} {showF64 m.c1} {showF64 m.c2}"
      | _, _ => .bad "unparsable conv line"
  | _ => .bad "malformed conv line"

end Conv
