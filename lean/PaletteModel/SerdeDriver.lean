import PaletteModel.Proto
import PaletteModel.Serde

/-!
  C20 protocol lines (components are opaque tokens: bit patterns `x…`/`X…` or decimal `u8`s — the model only moves them):

  * `ser <Type> <comp> <wrap> | c… [a] | <tree>`          data-model tree recorded from the real `Serialize` impl
  * `shape <fmt> <Type> <comp> <wrap> | c… [a] | <gtree>` text re-parsed to a generic value (`serde_json::Value`/`ron::Value`)
  * `de <fmt> <Type> <comp> <mode> | <M|L|V> items… | ok c… a | err:<kind>`   hand-built inputs
  * `arr <ser|json|ron> | c… | <tree|gtree>`, `arrde <fmt> <n> | L items… | …`   `palette::serde::as_array`
  * `uint <ser|json|ron> | u | <tree|gtree>`, `uintde <fmt> | V item | …`        `palette::serde::as_uint`
  * `maxint <comp> | | <token>`                            `Stimulus::max_intensity` used by the optional-alpha helpers
  * `desc <Type> | name… | phantom…`                        field tables of the extraction, cross-checked by execution
  `<wrap>` ∈ plain, alpha, prealpha; `<mode>` additionally optalpha, optprealpha; `<fmt>` ∈ json, ron, tree (the harness's own
  lenient self-describing deserializer, same rules as json), treeidx.
-/
namespace Serde
open Proto

def showVal : Val String → String
  | .num x => x
  | .newtype n x => s!"N:{n}({x})"
  | .other w => s!"?{w}"

def showKey : Key → String
  | .str s => s
  | .idx n => s!"#{n}"

def showLen : Option Nat → String
  | some n => toString n
  | none => "?"

def showTree : Tree String → String
  | .val v => showVal v
  | .unit => "U"
  | .unitStruct n => s!"US:{n}"
  | .seq len xs => s!"Q:{showLen len}[{",".intercalate (xs.map showVal)}]"
  | .tuple len xs => s!"T:{len}[{",".intercalate (xs.map showVal)}]"
  | .tupleStruct n len xs => s!"TS:{n}:{len}[{",".intercalate (xs.map showVal)}]"
  | .map len es => "M:" ++ showLen len ++ "{" ++ ",".intercalate (es.map fun (k, v) => showKey k ++ "=" ++ showVal v) ++ "}"
  | .struct n len fs => "S:" ++ n ++ ":" ++ toString len ++ "{" ++ ",".intercalate (fs.map fun (k, v) => k ++ "=" ++ showVal v) ++ "}"

def showGVal : GVal String → String
  | .num x => x
  | .wrapped x => s!"({x})"
  | .other w => s!"?{w}"

def showGTree : GTree String → String
  | .val v => showGVal v
  | .seq xs => s!"[{",".intercalate (xs.map showGVal)}]"
  | .map es => "{" ++ ",".intercalate (es.map fun (k, v) => showKey k ++ "=" ++ showGVal v) ++ "}"

def showErr : Err → String
  | .missingField n => s!"err:missing:{n}"
  | .duplicateField n => s!"err:dup:{n}"
  | .invalidLength n => s!"err:len:{n}"
  | .invalidType => "err:type"
  | .trailing => "err:trailing"

def parseGVal (t : String) : GVal String :=
  if t.startsWith "?" then .other ((t.drop 1).toString)
  else if t.startsWith "(" && t.endsWith ")" then .wrapped (((t.drop 1).dropEnd 1).toString)
  else .num t

def parseKey (t : String) : Key :=
  if t.startsWith "#" then match ((t.drop 1).toString).toNat? with
    | some n => .idx n
    | none => .str t
  else .str t

def parseInput : List String → Option (GTree String)
  | "M" :: items =>
    (items.mapM fun (it : String) => match it.splitOn "=" with
      | [k, v] => some (parseKey k, parseGVal v)
      | _ => none).map .map
  | "L" :: items => some (.seq (items.map parseGVal))
  | ["V", it] => some (.val (parseGVal it))
  | _ => none

def fmt? : String → Option Fmt
  | "json" => some json | "ron" => some ron | "tree" => some json | "treeidx" => some json | _ => none

def maxIntensityTok : String → Option String
  | "f32" => some "x3f800000" | "f64" => some "X3ff0000000000000" | "u8" => some "255" | _ => none

/-- `max_intensity`, `one`, `zero` of the three component types of the harness, as tokens -/
def compConsts : String → Option (CompConsts String)
  | "f32" => some ⟨"x3f800000", "x3f800000", "x00000000"⟩
  | "f64" => some ⟨"X3ff0000000000000", "X3ff0000000000000", "X0000000000000000"⟩
  | "u8" => some ⟨"255", "1", "0"⟩
  | _ => none

/-- the value the optional-alpha helper named by `mode` gives a missing alpha, from the function name in serde.rs -/
def optDefaultTok (mode comp : String) : Option String :=
  (compConsts comp).bind fun k =>
    optDefault (if mode == "optprealpha" then Gen.Serde.optPreAlphaDefault else Gen.Serde.optAlphaDefault) k

def splitLast (xs : List String) : Option (List String × String) :=
  match xs.reverse with
  | a :: r => some (r.reverse, a)
  | [] => none

/-- model tree of a colour (or hue) value, by wrapper -/
def modelTree (ty wrap : String) (inp : List String) : Except String (Tree String × String) :=
  if Gen.Serde.hueNames.contains ty then
    match wrap, inp with
    | "plain", [x] => .ok (serHue Gen.Serde.hueTransparent ty x, "hue")
    | _, _ => .error "hue lines are plain with one component"
  else match findDesc ty with
  | none => .error s!"unknown colour type {ty}"
  | some d =>
    match wrap with
    | "plain" =>
      if inp.length != d.fields.length then .error "component count" else
      .ok (serColor Gen.Serde.hueTransparent d inp, "struct")
    | "alpha" | "prealpha" =>
      match splitLast inp with
      | none => .error "no components"
      | some (c, a) =>
        if c.length != d.fields.length then .error "component count" else
        match serAlpha (if wrap == "alpha" then cfgAlpha else cfgPreAlpha) d c a with
        | some t => .ok (t, "struct+alpha")
        | none => .error "model: AlphaSerializer panics"
    | _ => .error s!"unknown wrapper {wrap}"

def cmp (model impl : String) (tags : List String) : Verdict :=
  if model == impl then .agree tags else .disagree s!"model={model}"

def showRes (r : Res (List String × Option String)) : String :=
  match r with
  | .ok (c, a) => " ".intercalate ("ok" :: c ++ a.toList)
  | .error e => showErr e

def handle (op : String) (cfg inp outp : List String) : Verdict :=
  match op, cfg with
  | "ser", [ty, _, wrap] =>
    match modelTree ty wrap inp, outp with
    | .ok (t, tag), [o] => cmp (showTree t) o [tag, if t.wf then "wf" else "NOT-wf"]
    | .error e, _ => .bad e
    | _, _ => .bad "malformed ser line"
  | "shape", [f, ty, _, wrap] =>
    match fmt? f, modelTree ty wrap inp, outp with
    | some fm, .ok (t, tag), [o] => cmp (showGTree (present fm t)) o [f ++ ":" ++ tag]
    | none, _, _ => .bad "unknown format"
    | _, .error e, _ => .bad e
    | _, _, _ => .bad "malformed shape line"
  | "de", [f, ty, comp, mode] =>
    match fmt? f, parseInput inp, (if mode == "optalpha" || mode == "optprealpha" then optDefaultTok mode comp else maxIntensityTok comp) with
    | some fm, some t, some mx =>
      if Gen.Serde.hueNames.contains ty then
        let r : Res (List String × Option String) := (deHue Gen.Serde.hueTransparent fm t).map fun x => ([x], none)
        let m := showRes r
        let o := " ".intercalate outp
        if o == "err" then (if m.startsWith "err" then .agree ["hue:err"] else .disagree s!"model={m}")
        else cmp m o [if m.startsWith "ok" then "hue:ok" else "hue:err"]
      else
      match findDesc ty with
      | none => .bad s!"unknown colour type {ty}"
      | some d =>
        let r : Option (Res (List String × Option String)) :=
          match mode with
          | "plain" => some ((deColor Gen.Serde.hueTransparent fm d t).map fun c => (c, none))
          | "alpha" => some ((deAlpha cfgAlpha fm d t).map fun (c, a) => (c, some a))
          | "prealpha" => some ((deAlpha cfgPreAlpha fm d t).map fun (c, a) => (c, some a))
          | "optalpha" => some ((deAlphaOpt cfgAlpha fm d mx t).map fun (c, a) => (c, some a))
          | "optprealpha" => some ((deAlphaOpt cfgPreAlpha fm d mx t).map fun (c, a) => (c, some a))
          | _ => none
        match r with
        | none => .bad "unknown mode"
        | some r =>
          let m := showRes r
          let o := " ".intercalate outp
          let tag := mode ++ ":" ++ (match t with | .map _ => "map" | .seq _ => "seq" | .val _ => "val") ++ ":" ++
            (match r with | .ok _ => "ok" | .error e => ((showErr e).splitOn ":").take 2 |> ":".intercalate)
          -- an unclassified implementation error only has to be an error in the model too
          if o == "err" then (if m.startsWith "err" then .agree [tag] else .disagree s!"model={m}")
          else cmp m o [tag]
    | _, _, _ => .bad "malformed de line"
  | "arr", [kind] =>
    match outp with
    | [o] =>
      let t := serAsArray inp
      (match kind with
      | "ser" => cmp (showTree t) o ["arr:ser"]
      | "json" => cmp (showGTree (present json t)) o ["arr:json"]
      | "ron" => cmp (showGTree (present ron t)) o ["arr:ron"]
      | _ => .bad "arr kind")
    | _ => .bad "malformed arr line"
  | "arrde", [f, n] =>
    match fmt? f, n.toNat?, parseInput inp with
    | some _, some n, some t =>
      let m := match deAsArray n t with | .ok c => " ".intercalate ("ok" :: c) | .error e => showErr e
      let o := " ".intercalate outp
      if o == "err" then (if m.startsWith "err" then .agree ["arrde:err"] else .disagree s!"model={m}")
      else cmp m o [if m.startsWith "ok" then "arrde:ok" else "arrde:err"]
    | _, _, _ => .bad "malformed arrde line"
  | "uint", [kind] =>
    match inp, outp with
    | [u], [o] =>
      let t : Tree String := serAsUint u
      (match kind with
      | "ser" => cmp (showTree t) o ["uint:ser"]
      | "json" => cmp (showGTree (present json t)) o ["uint:json"]
      | "ron" => cmp (showGTree (present ron t)) o ["uint:ron"]
      | _ => .bad "uint kind")
    | _, _ => .bad "malformed uint line"
  | "uintde", [_] =>
    match parseInput inp with
    | some t =>
      let m := match deAsUint t with | .ok u => s!"ok {u}" | .error e => showErr e
      let o := " ".intercalate outp
      if o == "err" then (if m.startsWith "err" then .agree ["uintde:err"] else .disagree s!"model={m}")
      else cmp m o [if m.startsWith "ok" then "uintde:ok" else "uintde:err"]
    | none => .bad "malformed uintde line"
  | "maxint", [comp] =>
    match maxIntensityTok comp, outp with
    | some m, [o] => cmp m o ["maxint"]
    | _, _ => .bad "malformed maxint line"
  | "desc", [ty] =>
    -- extraction cross-check: field names (in order) as the running code serializes them, and nothing else
    match findDesc ty with
    | none => .bad s!"type {ty} serializes in the implementation but is not in Gen.Serde.colors"
    | some d => if d.names == inp then .agree ["desc"] else .disagree s!"model={d.names}"
  | "ntypes", [] =>
    match inp with
    | [n] => cmp (toString colors.length) n ["ntypes"]
    | _ => .bad "malformed ntypes line"
  | _, _ => .bad s!"malformed {op} line"

end Serde
