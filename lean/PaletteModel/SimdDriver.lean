/-
  C17 protocol lines.
    simd <Src> <Dst> <vt> | N  lane-major inputs (3 per lane) | lane-major outputs (3 per lane)
    pack <Type> <vt>      | N 3 lane-major scalars            | component-major SIMD fields, then the unpacked lane-major scalars
    vmask <vt>            | N a.. b.. x.. y..                 | lt le eq ne ge gt sel lazysel and or xor not valid (N each) all none
  `vt` ∈ f32, f64 (scalar code: `T::Mask = bool`, N = 1) or f32x4, f32x8, f64x2, f64x4 (the model lifted to `Lanes N`).
-/
import PaletteModel.Proto
import PaletteModel.Simd
import PaletteModel.Gen.Simd

namespace Simd
open Proto

/-- lane count and scalar type of a component representation, from the `impl_wide_float!` invocation extracted from
    `num/wide.rs` (scalar types: one lane) -/
def vtInfo (vt : String) : Option (Nat × String) :=
  if vt == "f32" || vt == "f64" then some (1, vt) else
  (Gen.Simd.wideTypes.find? (·.1 == vt)).map fun (_, sc, n) => (n, sc)

def chunk3 {α} : List α → Option (List (V3 α))
  | [] => some []
  | a :: b :: c :: r => (chunk3 r).map (⟨a, b, c⟩ :: ·)
  | _ => none

/-- how an edge is compared: `ulps = 0` → identical bits (or both zero) -/
structure EdgeM (α μ : Type) where
  f : V3 α → V3 α
  ulps : Nat

section edges
variable {α μ : Type} [VScalar α μ]

/-- the mask-generic edges (the same Rust function serves scalar and SIMD) -/
def genericEdge? (src dst : String) : Option (EdgeM α μ) :=
  match src, dst with
  | "Hsv", "Hsl" => some ⟨hsvToHsl, 0⟩
  | "Hsl", "Hsv" => some ⟨hslToHsv, 0⟩
  | "Hsv", "Hwb" => some ⟨hsvToHwb, 0⟩
  | "Hwb", "Hsv" => some ⟨hwbToHsv, 0⟩
  | "Xyz", "Yxy" => some ⟨xyzToYxy, 0⟩
  | "Yxy", "Xyz" => some ⟨yxyToXyz, 0⟩
  -- libm `powf` (scalar, behind Lean's `Float.pow` too) against `wide`'s polynomial `pow_f32x4`/`pow_f64x2`; fused against
  -- unfused `mul_add`: a few ulp of a value ≤ 1 (observed ≤ 3); anything larger is a different formula
  | "Rgb", "RgbL" => some ⟨rgbIntoLinear, 16⟩
  | "RgbL", "Rgb" => some ⟨rgbFromLinear, 16⟩
  | _, _ => none

/-- edges whose SIMD form is a different algorithm / different primitive than the scalar form -/
def simdEdge? (src dst : String) : Option (EdgeM α μ) :=
  match src, dst with
  | "Rgb", "Hsv" => some ⟨rgbToHsvMask, 0⟩
  | "Rgb", "Hsl" => some ⟨rgbToHslMask, 0⟩
  | "Rgb", "clamp" => some ⟨rgbClampMinMax, 0⟩
  | _, _ => genericEdge? src dst
end edges

def scalarEdge? {α : Type} [Scalar α] (src dst : String) : Option (EdgeM α Bool) :=
  match src, dst with
  | "Rgb", "Hsv" => some ⟨rgbToHsvScalar, 0⟩
  | "Rgb", "Hsl" => some ⟨rgbToHslScalar, 0⟩
  | "Rgb", "clamp" => some ⟨rgbClampScalar, 0⟩
  | _, _ => genericEdge? src dst

def same32 (a b : Float32) (ulps : Nat) : Bool :=
  if ulps == 0 then a.toBits == b.toBits || (a == 0 && b == 0) || (a.isNaN && b.isNaN) else closeAbs32 a b (Float32.ofScientific 1 true 3) ulps
def same64 (a b : Float) (ulps : Nat) : Bool :=
  if ulps == 0 then a.toBits == b.toBits || (a == 0 && b == 0) || (a.isNaN && b.isNaN) else closeAbs64 a b (Float.ofScientific 1 true 3) ulps

def v3same32 (a b : V3 Float32) (u : Nat) : Bool := same32 a.c0 b.c0 u && same32 a.c1 b.c1 u && same32 a.c2 b.c2 u
def v3same64 (a b : V3 Float) (u : Nat) : Bool := same64 a.c0 b.c0 u && same64 a.c1 b.c1 u && same64 a.c2 b.c2 u

def show32 (l : List (V3 Float32)) : String := " ".intercalate (l.map fun v => s!"{showF32 v.c0} {showF32 v.c1} {showF32 v.c2}")
def show64 (l : List (V3 Float)) : String := " ".intercalate (l.map fun v => s!"{showF64 v.c0} {showF64 v.c1} {showF64 v.c2}")

/-- evaluate an edge on `n` lanes through the lifted instance: pack, apply the function at `Lanes n α`, unpack -/
def runLanes {α μ : Type} [VScalar α μ] (n : Nat) (f : V3 (Lanes n α) → V3 (Lanes n α)) (ins : List (V3 α)) (d : V3 α) : List (V3 α) :=
  let cs : Fin n → V3 α := fun i => ins.getD i.val d
  (List.finRange n).map (unpack (f (pack cs)))

def handleSimd (cfg inp outp : List String) : Verdict :=
  match cfg, inp with
  | [src, dst, vt], nTok :: rest =>
    match vtInfo vt, nTok.toNat? with
    | some (n, sc), some n' =>
      if n != n' then .disagree s!"{vt} has {n} lanes in num/wide.rs, the implementation used {n'}" else
      if sc == "f32" then
        match rest.mapM f32? >>= chunk3, outp.mapM f32? >>= chunk3 with
        | some ins, some outs =>
          if ins.length != n || outs.length != n then .bad "simd: lane count mismatch" else
          if n == 1 && vt == "f32" then
            match scalarEdge? (α := Float32) src dst with
            | none => .bad s!"no scalar model edge {src} -> {dst}"
            | some e =>
              let m := ins.map e.f
              if (m.zip outs).all (fun (a, b) => v3same32 a b e.ulps) then .agree [s!"{src}->{dst}:f32"] else .disagree s!"model={show32 m}"
          else
            match simdEdge? (α := Lanes n Float32) src dst with
            | none => .bad s!"no SIMD model edge {src} -> {dst}"
            | some e =>
              let m := runLanes n e.f ins ⟨0, 0, 0⟩
              if (m.zip outs).all (fun (a, b) => v3same32 a b e.ulps) then .agree [s!"{src}->{dst}:{vt}"] else .disagree s!"model={show32 m}"
        | _, _ => .bad "simd: unparsable f32 line"
      else
        match rest.mapM f64? >>= chunk3, outp.mapM f64? >>= chunk3 with
        | some ins, some outs =>
          if ins.length != n || outs.length != n then .bad "simd: lane count mismatch" else
          if n == 1 && vt == "f64" then
            match scalarEdge? (α := Float) src dst with
            | none => .bad s!"no scalar model edge {src} -> {dst}"
            | some e =>
              let m := ins.map e.f
              if (m.zip outs).all (fun (a, b) => v3same64 a b e.ulps) then .agree [s!"{src}->{dst}:f64"] else .disagree s!"model={show64 m}"
          else
            match simdEdge? (α := Lanes n Float) src dst with
            | none => .bad s!"no SIMD model edge {src} -> {dst}"
            | some e =>
              let m := runLanes n e.f ins ⟨0, 0, 0⟩
              if (m.zip outs).all (fun (a, b) => v3same64 a b e.ulps) then .agree [s!"{src}->{dst}:{vt}"] else .disagree s!"model={show64 m}"
        | _, _ => .bad "simd: unparsable f64 line"
    | _, _ => .bad s!"simd: unknown component representation {vt}"
  | _, _ => .bad "malformed simd line"

/-- packing is polymorphic in the component: the bit patterns are carried as opaque tokens -/
def handlePack (cfg inp outp : List String) : Verdict :=
  match cfg, inp with
  | [ty, vt], nTok :: kTok :: rest =>
    match vtInfo vt, nTok.toNat?, kTok.toNat? with
    | some (n, _), some n', some 3 =>
      if n != n' then .disagree s!"{vt} has {n} lanes in num/wide.rs, the implementation used {n'}" else
      if !(Gen.Simd.packTypes.any (fun e => e.1 == ty && e.2.2.length == 3)) then .bad s!"pack: {ty} with 3 components is not in the extracted impl_simd_array_conversion table" else
      match chunk3 rest with
      | some ins =>
        if ins.length != n then .bad "pack: lane count mismatch" else
        let cs : Fin n → V3 String := fun i => ins.getD i.val ⟨"", "", ""⟩
        let p := pack cs
        let comp := Lanes.toList p.c0 ++ Lanes.toList p.c1 ++ Lanes.toList p.c2
        let un := ((List.finRange n).map (unpack p)).flatMap V3.toList
        -- the loops as written, on lists
        let pl := packList "?" ins
        let compL := pl.c0 ++ pl.c1 ++ pl.c2
        let unL := (unpackList ⟨"?", "?", "?"⟩ n pl).flatMap V3.toList
        if comp ++ un != outp then .disagree s!"model={comp ++ un}"
        else if compL ++ unL != outp then .disagree s!"loop model={compL ++ unL}"
        else .agree [s!"pack:{vt}"]
      | none => .bad "pack: unparsable"
    | _, _, _ => .bad "pack: unknown representation or component count"
  | _, _ => .bad "malformed pack line"

def bit (b : Bool) : String := if b then "1" else "0"

section vmask
variable {α : Type} [Scalar α]

/-- everything the harness prints for one `vmask` line, computed through the lifted instance -/
def maskModel (n : Nat) (a b x y : Lanes n α) (sh : α → String) : List String :=
  let L (m : Lanes n Bool) : List String := (Lanes.toList m).map bit
  let lt : Lanes n Bool := VScalar.lt a b
  let ne : Lanes n Bool := VScalar.ne a b
  let eq : Lanes n Bool := VScalar.eq a b
  L lt ++ L (VScalar.le a b) ++ L eq ++ L ne ++ L (VScalar.ge a b) ++ L (VScalar.gt a b)
    ++ (Lanes.toList (VScalar.select lt x y)).map sh ++ (Lanes.toList (lazySelect lt x y)).map sh
    ++ L (Mask.and lt ne) ++ L (Mask.or lt eq) ++ L (Mask.xor lt ne) ++ L (Mask.not lt)
    ++ L (VScalar.isValidDivisor a) ++ [bit (Mask.isTrue lt), bit (Mask.isFalse lt)]
end vmask

def handleMask (cfg inp outp : List String) : Verdict :=
  match cfg, inp with
  | [vt], nTok :: rest =>
    match vtInfo vt, nTok.toNat? with
    | some (n, sc), some n' =>
      if n != n' then .disagree s!"{vt} has {n} lanes in num/wide.rs, the implementation used {n'}" else
      if rest.length != 4 * n then .bad "vmask: wrong operand count" else
      if sc == "f32" then
        match rest.mapM f32? with
        | some v =>
          let g (k : Nat) : Lanes n Float32 := Lanes.ofList (v.drop (k * n)) 0
          let m := maskModel n (g 0) (g 1) (g 2) (g 3) showF32
          if m == outp then .agree [s!"vmask:{vt}"] else .disagree s!"model={m}"
        | none => .bad "vmask: unparsable"
      else
        match rest.mapM f64? with
        | some v =>
          let g (k : Nat) : Lanes n Float := Lanes.ofList (v.drop (k * n)) 0
          let m := maskModel n (g 0) (g 1) (g 2) (g 3) showF64
          if m == outp then .agree [s!"vmask:{vt}"] else .disagree s!"model={m}"
        | none => .bad "vmask: unparsable"
    | _, _ => .bad s!"vmask: unknown component representation {vt}"
  | _, _ => .bad "malformed vmask line"

def handle (op : String) (cfg inp outp : List String) : Verdict :=
  match op with
  | "simd" => handleSimd cfg inp outp
  | "simdpack" => handlePack cfg inp outp
  | "vmask" => handleMask cfg inp outp
  | _ => .bad s!"unknown op {op}"

end Simd
