/-
  Hand-written prelude of the family `glue2` of the source-text tie (`tools/rust2lean_glue2.py`: `Gen/BodiesGlue2Std.lean`,
  `Gen/BodiesGlue2Alpha.lean`, `Gen/BodiesGlue2N.lean`, `Gen/BodiesGlue2Pre.lean`): readings of the language constructs that the
  earlier preludes (`BodyPrim.lean`, `BodyPrimExt.lean`, `BodyPrimGlue.lean`) do not have yet.  Everything is a plain structural
  definition that `rfl` sees through.

  No Mathlib import (the driver links `PaletteModel`).
-/
import PaletteModel.BodyPrim
import PaletteModel.BodyPrimExt
import PaletteModel.BodyPrimGlue

namespace Prim
variable {α : Type} [Scalar α]

/-- a colour struct with ONE component (`Luma<S, T>`: `pub struct Luma<S, T> { pub luma: T, pub standard: PhantomData<S> }`): the
    Rust reference defines a struct as the product of its fields; the `PhantomData` field is zero-sized and carries no value, so it
    is dropped as for `V3`; the field list is re-read from the `struct` on every run and must have exactly one non-phantom entry -/
structure V1 (α : Type) where
  c0 : α
def V1.toList {α : Type} (v : V1 α) : List α := [v.c0]

/-- a colour struct with SIX components (`Cam16<T>`: lightness, chroma, hue, brightness, colorfulness, saturation), in struct
    field order (re-read on every run, exactly six non-phantom entries) -/
structure V6 (α : Type) where
  c0 : α
  c1 : α
  c2 : α
  c3 : α
  c4 : α
  c5 : α
def V6.toList {α : Type} (v : V6 α) : List α := [v.c0, v.c1, v.c2, v.c3, v.c4, v.c5]

/-- `a + b` on two `Luma`s: `impl_color_add!(Luma<S>, [luma], standard)` gives `Luma { luma: self.luma + other.luma, .. }`; the macro
    body itself is translated at `Luma` (`Gen.BodyGlue2N.addLuma` ..) and `Tie_Glue2N.v1Add_is_addLuma` .. prove this reading to BE
    that translation (same for the other seven) -/
def v1Add (a b : V1 α) : V1 α := ⟨a.c0 + b.c0⟩
def v1Sub (a b : V1 α) : V1 α := ⟨a.c0 - b.c0⟩
def v1Mul (a b : V1 α) : V1 α := ⟨a.c0 * b.c0⟩
def v1Div (a b : V1 α) : V1 α := ⟨a.c0 / b.c0⟩
def v1AddS (a : V1 α) (s : α) : V1 α := ⟨a.c0 + s⟩
def v1SubS (a : V1 α) (s : α) : V1 α := ⟨a.c0 - s⟩
def v1MulS (a : V1 α) (s : α) : V1 α := ⟨a.c0 * s⟩
def v1DivS (a : V1 α) (s : α) : V1 α := ⟨a.c0 / s⟩

/-- `PreAlpha<Self>` inside `impl_premultiply!` instantiated at the one-component colour `Luma`: (colour, alpha), as `PreAlpha3` -/
abbrev PreAlpha1 (α : Type) := V1 α × α

end Prim

namespace Glue2
/-- `fn reinterpret_as<St>(self) -> Hsv<St, T>` (hsv.rs, hsl.rs, hwb.rs): every component copied, only the `PhantomData` type changes -/
def reinterpret {α : Type} (c : V3 α) : V3 α := ⟨c.c0, c.c1, c.c2⟩
theorem reinterpret_id {α : Type} (c : V3 α) : reinterpret c = c := rfl
end Glue2
