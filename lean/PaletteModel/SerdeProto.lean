/-
  C20 — the *protocol level* of the serde model: what each method of `AlphaSerializer`, its `Serialize*` impls, `AlphaDeserializer`,
  its visitors, `MapWrapper` and the field visitor does, stated generically over the wrapped object (serde's traits are parameters,
  as in the Rust code), plus the two concrete ends that connect this level to the tree language of `PaletteModel/Serde.lean`:

  * `Serde.Proto.<method>`: hand-written model of one method (the functions `PaletteProofs/Tie_Serde.lean` proves the translated
    bodies `Gen.BodySerde.*` equal to).  Conventions as in `BodyPrimSerde.lean`: `Result` = `Except ε`, a `&mut self` method returns
    the new state, the alpha cell `&mut Option<A>` is its content and a method that writes it returns the new content.
  * `Ser` / `emit` / `rec`: a serializer as a bundle of its operations, the `Serialize` impl a `Tree` *denotes* (the calls it makes,
    in order), and the serializer that records those calls as a `Tree` again (`emit rec () t = ok t`: Tie_Serde `emit_rec`).
    `Serde.alphaSer g t a` is then a *theorem* about the methods: feeding `t` to the AlphaSerializer wrapped around the recorder
    records exactly `alphaSer cfgAlpha t a` (Tie_Serde `alphaSerializer_is_alphaSer`).
  * `keyIdentifier`: how a model key presents itself through `deserialize_identifier` (`visit_str` / `visit_u64`, what serde_json / ron
    do); Tie_Serde `fieldVisitor_is_isAlphaKey` identifies the translated field visitor over it with `Serde.isAlphaKey`.
  No Mathlib.
-/
import PaletteModel.Serde
import PaletteModel.BodyPrimGlue
import PaletteModel.BodyPrimSerde

namespace Serde.Proto
open Prim

variable {ε α β γ τ S Q A V K κ D W ρ M σ υ Sd Dk T : Type}

/-- the `?` operator (`Prim.tryE`) -/
abbrev andThen (r : Except ε σ) (f : σ → Except ε β) : Except ε β := Prim.tryE r f

/-! ## `AlphaSerializer`: the `Serializer` impl -/

def serMsg : String := "AlphaSerializer can only serialize structs, maps and sequences"
def deMsg : String := "AlphaDeserializer can only deserialize structs, maps and sequences"
def sfdMsg : String := "StructFieldDeserializer can only deserialize identifiers"

/-- every method outside {seq, tuple, tuple_struct, map, struct, newtype_struct, unit_struct, unit}: `unimplemented!` -/
def serUnsupported (panic : String → ε) : Except ε β := .error (panic serMsg)
def deUnsupported (panic : String → ε) : Except ε β := .error (panic deMsg)
def sfdUnsupported (panic : String → ε) : Except ε β := .error (panic sfdMsg)

/-- open the same kind of compound on the wrapped serializer, keep the alpha for `end` -/
def openWith (open_ : S → Except ε Q) (w : AlphaSerializer S A) : Except ε (AlphaSerializer Q A) :=
  andThen (open_ w.inner) fun q => .ok ⟨q, w.alpha⟩

/-- one more element than the colour announces: the alpha -/
def serSerializeSeq (inner : S → Option Nat → Except ε Q) (w : AlphaSerializer S A) (len : Option Nat) :=
  openWith (fun s => inner s (len.map (· + 1))) w
def serSerializeTuple (inner : S → Nat → Except ε Q) (w : AlphaSerializer S A) (len : Nat) :=
  openWith (fun s => inner s (len + 1)) w
def serSerializeTupleStruct (inner : S → String → Nat → Except ε Q) (w : AlphaSerializer S A) (name : String) (len : Nat) :=
  openWith (fun s => inner s name (len + 1)) w
def serSerializeMap (inner : S → Option Nat → Except ε Q) (w : AlphaSerializer S A) (len : Option Nat) :=
  openWith (fun s => inner s (len.map (· + 1))) w
def serSerializeStruct (inner : S → String → Nat → Except ε Q) (w : AlphaSerializer S A) (name : String) (len : Nat) :=
  openWith (fun s => inner s name (len + 1)) w

/-- a newtype struct `Name(v)` becomes the tuple struct `Name(v, alpha)`: declared length 1 + 1, the value first, the alpha last -/
def serSerializeNewtypeStruct (tupleStruct : S → String → Nat → Except ε Q) (put : Q → V → Except ε Q) (putAlpha : Q → A → Except ε Q)
    (fin : Q → Except ε β) (w : AlphaSerializer S A) (name : String) (value : V) : Except ε β :=
  andThen (tupleStruct w.inner name (1 + 1)) fun q => andThen (put q value) fun q => andThen (putAlpha q w.alpha) fin

/-- a unit struct `Name` becomes the newtype struct `Name(alpha)` -/
def serSerializeUnitStruct (newtypeStruct : S → String → A → Except ε β) (w : AlphaSerializer S A) (name : String) : Except ε β :=
  newtypeStruct w.inner name w.alpha

/-- `()` becomes the one-element tuple `(alpha)` -/
def serSerializeUnit (tuple : S → Nat → Except ε Q) (putAlpha : Q → A → Except ε Q) (fin : Q → Except ε β) (w : AlphaSerializer S A) : Except ε β :=
  andThen (tuple w.inner (0 + 1)) fun q => andThen (putAlpha q w.alpha) fin

def serIsHumanReadable (hr : S → Bool) (w : AlphaSerializer S A) : Bool := hr w.inner

/-! ## `AlphaSerializer`: the `Serialize{Seq,Tuple,TupleStruct,TupleVariant,Map,Struct,StructVariant}` impls -/

/-- elements / fields / entries of the colour go to the wrapped compound unchanged -/
def forward1 (put : Q → V → Except ε Q) (w : AlphaSerializer Q A) (v : V) : Except ε (AlphaSerializer Q A) :=
  andThen (put w.inner v) fun q => .ok { w with inner := q }
def forward2 (put : Q → K → V → Except ε Q) (w : AlphaSerializer Q A) (k : K) (v : V) : Except ε (AlphaSerializer Q A) :=
  andThen (put w.inner k v) fun q => .ok { w with inner := q }

/-- `end`: the alpha is written LAST, then the wrapped compound is closed -/
def endPlain (putAlpha : Q → A → Except ε Q) (fin : Q → Except ε β) (w : AlphaSerializer Q A) : Except ε β :=
  andThen (putAlpha w.inner w.alpha) fin
/-- keyed compounds: the alpha goes under the key `"alpha"` -/
def endKeyed (putAlpha : Q → String → A → Except ε Q) (fin : Q → Except ε β) (w : AlphaSerializer Q A) : Except ε β :=
  andThen (putAlpha w.inner "alpha" w.alpha) fin

def seqEnd (putAlpha : Q → A → Except ε Q) (fin : Q → Except ε β) (w : AlphaSerializer Q A) := endPlain putAlpha fin w
def tupleEnd (putAlpha : Q → A → Except ε Q) (fin : Q → Except ε β) (w : AlphaSerializer Q A) := endPlain putAlpha fin w
def tupleStructEnd (putAlpha : Q → A → Except ε Q) (fin : Q → Except ε β) (w : AlphaSerializer Q A) := endPlain putAlpha fin w
def tupleVariantEnd (putAlpha : Q → A → Except ε Q) (fin : Q → Except ε β) (w : AlphaSerializer Q A) := endPlain putAlpha fin w
def mapEnd (putAlpha : Q → String → A → Except ε Q) (fin : Q → Except ε β) (w : AlphaSerializer Q A) := endKeyed putAlpha fin w
def structEnd (putAlpha : Q → String → A → Except ε Q) (fin : Q → Except ε β) (w : AlphaSerializer Q A) := endKeyed putAlpha fin w
def structVariantEnd (putAlpha : Q → String → A → Except ε Q) (fin : Q → Except ε β) (w : AlphaSerializer Q A) := endKeyed putAlpha fin w

/-! ## `Serialize` / `Deserialize` of `Alpha`, `PreAlpha`; the helpers of serde.rs -/

/-- the colour serializes itself into an `AlphaSerializer` around the caller's serializer -/
def alphaSerialize (serColor : γ → AlphaSerializer S τ → Except ε β) (c : AlphaOf γ τ) (s : S) : Except ε β :=
  serColor c.color ⟨s, c.alpha⟩

/-- `serialize_as_array` / `serialize_as_uint`: serialize what the cast gives -/
def serializeVia (cast : σ → ρ) (ser : ρ → S → Except ε β) (v : σ) (s : S) : Except ε β := ser (cast v) s
/-- `deserialize_as_array` / `deserialize_as_uint`: deserialize the array / integer, cast back -/
def deserializeVia (uncast : ρ → σ) (de : D → Except ε ρ) (d : D) : Except ε σ := andThen (de d) fun r => .ok (uncast r)

/-- `Alpha::deserialize` / `PreAlpha::deserialize`: the colour reads itself from an `AlphaDeserializer` whose cell starts empty; an empty
    cell afterwards is `missing_field("alpha")` -/
def alphaDeserialize (deColor : AlphaDeserializer D τ → Except ε (γ × Option τ)) (missing : String → ε) (d : D) : Except ε (AlphaOf γ τ) :=
  match deColor ⟨d, none⟩ with
  | .ok (c, some a) => .ok ⟨c, a⟩
  | .ok (_, none) => .error (missing "alpha")
  | .error e => .error e

/-- `deserialize_with_optional_alpha` / `_pre_alpha`: an empty cell is `max_intensity()` (`minIntensity` is in scope and not used) -/
def optionalAlpha (deColor : AlphaDeserializer D τ → Except ε (γ × Option τ)) (maxIntensity _minIntensity : τ) (d : D) : Except ε (AlphaOf γ τ) :=
  match deColor ⟨d, none⟩ with
  | .ok (c, a) => .ok ⟨c, a.getD maxIntensity⟩
  | .error e => .error e

/-! ## `AlphaDeserializer`: which inner method, which length, which visitor, which `field_count` -/

def deDeserializeSeq (inner : D → AlphaSeqVisitor W A → Except ε ρ) (d : AlphaDeserializer D A) (v : W) : Except ε ρ :=
  inner d.inner ⟨v, d.alpha⟩
def deDeserializeTuple (inner : D → Nat → AlphaMapVisitor W A → Except ε ρ) (d : AlphaDeserializer D A) (len : Nat) (v : W) : Except ε ρ :=
  inner d.inner (len + 1) ⟨v, d.alpha, some len⟩
def deDeserializeTupleStruct (inner : D → String → Nat → AlphaMapVisitor W A → Except ε ρ) (d : AlphaDeserializer D A) (name : String) (len : Nat) (v : W) : Except ε ρ :=
  inner d.inner name (len + 1) ⟨v, d.alpha, some len⟩
def deDeserializeMap (inner : D → AlphaMapVisitor W A → Except ε ρ) (d : AlphaDeserializer D A) (v : W) : Except ε ρ :=
  inner d.inner ⟨v, d.alpha, none⟩
/-- the field list is passed on unchanged ("we can't add to the expected fields"); `field_count` = its length -/
def deDeserializeStruct (inner : D → String → List String → AlphaMapVisitor W A → Except ε ρ) (d : AlphaDeserializer D A) (name : String)
    (fields : List String) (v : W) : Except ε ρ :=
  inner d.inner name fields ⟨v, d.alpha, some fields.length⟩
def deDeserializeIgnoredAny (inner : D → AlphaSeqVisitor W A → Except ε ρ) (d : AlphaDeserializer D A) (v : W) : Except ε ρ :=
  inner d.inner ⟨v, d.alpha⟩
/-- `()` is read back from the one-element tuple `(alpha)` -/
def deDeserializeUnit (inner : D → Nat → AlphaMapVisitor W A → Except ε ρ) (d : AlphaDeserializer D A) (v : W) : Except ε ρ :=
  inner d.inner 1 ⟨v, d.alpha, none⟩
/-- a unit struct is read back from the newtype struct `Name(alpha)` -/
def deDeserializeUnitStruct (inner : D → String → AlphaMapVisitor W A → Except ε ρ) (d : AlphaDeserializer D A) (name : String) (v : W) : Except ε ρ :=
  inner d.inner name ⟨v, d.alpha, some 0⟩
/-- a newtype struct is read back from the tuple struct `Name(v, alpha)` -/
def deDeserializeNewtypeStruct (inner : D → String → Nat → AlphaMapVisitor W A → Except ε ρ) (d : AlphaDeserializer D A) (name : String) (v : W) : Except ε ρ :=
  inner d.inner name (1 + 1) ⟨v, d.alpha, some 1⟩

/-! ## the visitors -/

/-- the colour's `visit_seq` first, then ONE more element into the cell (`None` when the sequence is exhausted) -/
def seqVisitorVisitSeq (visitSeq : W → Q → Except ε (β × Q)) (next : Q → Except ε (Option A × Q)) (v : AlphaSeqVisitor W A) (seq : Q) :
    Except ε (β × Option A) :=
  andThen (visitSeq v.inner seq) fun r => andThen (next r.2) fun a => .ok (r.1, a.1)

/-- as above; without `field_count` (map / unit path) the colour is a unit and the sequence holds the alpha only -/
def mapVisitorVisitSeq (visitUnit : W → Except ε β) (visitSeq : W → Q → Except ε (β × Q)) (next : Q → Except ε (Option A × Q))
    (v : AlphaMapVisitor W A) (seq : Q) : Except ε (β × Option A) :=
  andThen (if v.field_count.isNone then andThen (visitUnit v.inner) (fun c => .ok (c, seq)) else visitSeq v.inner seq) fun r =>
    andThen (next r.2) fun a => .ok (r.1, a.1)

/-- the colour's `visit_map` over the `MapWrapper`; the cell is what the wrapper holds at the end -/
def mapVisitorVisitMap (visitMap : W → MapWrapper M A → Except ε (β × MapWrapper M A)) (v : AlphaMapVisitor W A) (map : M) :
    Except ε (β × Option A) :=
  andThen (visitMap v.inner ⟨map, v.alpha, v.field_count⟩) fun r => .ok (r.1, r.2.alpha)

def mapVisitorVisitNewtypeStruct (deAlpha : T → Except ε A) (visitUnit : W → Except ε β) (v : AlphaMapVisitor W A) (d : T) :
    Except ε (β × Option A) :=
  andThen (deAlpha d) fun a => andThen (visitUnit v.inner) fun c => .ok (c, some a)

/-! ## `MapWrapper` -/

/-- one turn of `next_key_seed`'s loop: ask the wrapped access for a key through the intercepting seed; an alpha key stores the
    next value in the cell (a second one is `duplicate_field("alpha")`) and goes round again with the seed it got back; any other key,
    or the end of the map, is returned -/
def nextKeySeedStep (nextKey : M → AlphaFieldDeserializerSeed K → Except ε (Option (AlphaField K κ) × M)) (nextValue : M → Except ε (A × M))
    (dup : String → ε) (w : MapWrapper M A) (seed : K) : Except ε (Flow (MapWrapper M A × K) (Option κ × MapWrapper M A)) :=
  match nextKey w.inner ⟨seed, w.field_count⟩ with
  | .error e => .error e
  | .ok (none, m) => .ok (.done (none, { w with inner := m }))
  | .ok (some (.other k), m) => .ok (.done (some k, { w with inner := m }))
  | .ok (some (.alpha seed'), m) =>
    if w.alpha.isSome then .error (dup "alpha")
    else andThen (nextValue m) fun r => .ok (.next ({ w with inner := r.2, alpha := some r.1 }, seed'))

def nextKeySeed (nextKey : M → AlphaFieldDeserializerSeed K → Except ε (Option (AlphaField K κ) × M)) (nextValue : M → Except ε (A × M))
    (dup : String → ε) (fuel : Nat) (w : MapWrapper M A) (seed : K) : Option (Except ε (Option κ × MapWrapper M A)) :=
  Prim.loopFuel fuel (fun st => nextKeySeedStep nextKey nextValue dup st.1 st.2) (w, seed)

def nextValueSeed (inner : M → Sd → Except ε (υ × M)) (w : MapWrapper M A) (seed : Sd) : Except ε (υ × MapWrapper M A) :=
  andThen (inner w.inner seed) fun r => .ok (r.1, { w with inner := r.2 })

/-! ## the field visitor -/

def seedDeserialize (deserializeIdentifier : Dk → AlphaFieldVisitor K → Except ε ρ) (s : AlphaFieldDeserializerSeed K) (d : Dk) : Except ε ρ :=
  deserializeIdentifier d ⟨s.inner, s.field_count⟩

/-- the alpha's identifier is intercepted (the seed is handed back unused), any other identifier is replayed to the wrapped seed -/
def intercept (sd : K → StructFieldDeserializer → Except ε κ) (v : AlphaFieldVisitor K) (isAlpha : Bool) (f : StructField) : Except ε (AlphaField K κ) :=
  if isAlpha then .ok (.alpha v.inner) else andThen (sd v.inner ⟨f⟩) fun k => .ok (.other k)

/-- a name is the alpha iff it is `"alpha"` -/
def fieldVisitStr (sd : K → StructFieldDeserializer → Except ε κ) (_it : Unexpected → String → ε) (v : AlphaFieldVisitor K) (s : String) :=
  intercept sd v (s == "alpha") (.str s)
def fieldVisitBytes (sd : K → StructFieldDeserializer → Except ε κ) (_it : Unexpected → String → ε) (v : AlphaFieldVisitor K) (b : List UInt8) :=
  intercept sd v (b == Prim.bstr "alpha") (.bytes b)
/-- a position is the alpha iff it is `field_count` (the one after the colour's fields); without `field_count`: `invalid_type` -/
def fieldVisitU64 (sd : K → StructFieldDeserializer → Except ε κ) (it : Unexpected → String → ε) (v : AlphaFieldVisitor K) (n : Nat) : Except ε (AlphaField K κ) :=
  match v.field_count with
  | none => .error (it (.unsigned n) "map key or struct field")
  | some fc => intercept sd v (n == fc) (.unsigned n)

/-- `StructFieldDeserializer::deserialize_identifier`: replay the identifier the way it came -/
def sfdDeserializeIdentifier (visitU64 : W → Nat → Except ε ρ) (visitStr : W → String → Except ε ρ) (visitBytes : W → List UInt8 → Except ε ρ)
    (d : StructFieldDeserializer) (v : W) : Except ε ρ :=
  match d.struct_field with
  | .unsigned n => visitU64 v n
  | .str s => visitStr v s
  | .bytes b => visitBytes v b

/-! ## a serializer as a bundle of operations; the `Serialize` impl a `Tree` denotes; the recording serializer -/

/-- abrupt outcomes of the recording serializer -/
inductive Fault where
  | panic (msg : String)     -- `unimplemented!`
  | protocol                 -- an element handed to a compound of another kind (no `Serialize` impl does that)
  | unrepresentable          -- a newtype struct around something that is not a number (no leaf `Val` for it)
  deriving DecidableEq, Repr

structure Ser (ε S Q β α : Type) where
  seq : S → Option Nat → Except ε Q
  tuple : S → Nat → Except ε Q
  tupleStruct : S → String → Nat → Except ε Q
  map : S → Option Nat → Except ε Q
  struct : S → String → Nat → Except ε Q
  newtypeStruct : S → String → Val α → Except ε β
  unitStruct : S → String → Except ε β
  unit : S → Except ε β
  /-- `serialize_f32` / `_f64` / `_u8` / .. and every other primitive method -/
  prim : S → Val α → Except ε β
  seqElement : Q → Val α → Except ε Q
  tupleElement : Q → Val α → Except ε Q
  tsField : Q → Val α → Except ε Q
  mapEntry : Q → Key → Val α → Except ε Q
  structField : Q → String → Val α → Except ε Q
  seqEnd : Q → Except ε β
  tupleEnd : Q → Except ε β
  tsEnd : Q → Except ε β
  mapEnd : Q → Except ε β
  structEnd : Q → Except ε β

def feed {γ : Type} (put : Q → γ → Except ε Q) : Q → List γ → Except ε Q
  | q, [] => .ok q
  | q, x :: xs => andThen (put q x) fun q' => feed put q' xs

/-- the calls a `Serialize` impl with data-model tree `t` makes on a serializer, in order -/
def emit (s : Ser ε S Q β α) (top : S) : Tree α → Except ε β
  | .val (.newtype n x) => s.newtypeStruct top n (.num x)
  | .val v => s.prim top v
  | .unit => s.unit top
  | .unitStruct n => s.unitStruct top n
  | .seq len xs => andThen (s.seq top len) fun q => andThen (feed s.seqElement q xs) s.seqEnd
  | .tuple len xs => andThen (s.tuple top len) fun q => andThen (feed s.tupleElement q xs) s.tupleEnd
  | .tupleStruct n len xs => andThen (s.tupleStruct top n len) fun q => andThen (feed s.tsField q xs) s.tsEnd
  | .map len es => andThen (s.map top len) fun q => andThen (feed (fun q (e : Key × Val α) => s.mapEntry q e.1 e.2) q es) s.mapEnd
  | .struct n len fs => andThen (s.struct top n len) fun q => andThen (feed (fun q (e : String × Val α) => s.structField q e.1 e.2) q fs) s.structEnd

/-- the serializer that records the calls as a `Tree` (compound in progress = the tree so far) -/
def rec : Ser Fault Unit (Tree α) (Tree α) α where
  seq _ len := .ok (.seq len [])
  tuple _ len := .ok (.tuple len [])
  tupleStruct _ n len := .ok (.tupleStruct n len [])
  map _ len := .ok (.map len [])
  struct _ n len := .ok (.struct n len [])
  newtypeStruct _ n v := match v with
    | .num x => .ok (.val (.newtype n x))
    | _ => .error .unrepresentable
  unitStruct _ n := .ok (.unitStruct n)
  unit _ := .ok .unit
  prim _ v := .ok (.val v)
  seqElement q v := match q with
    | .seq l xs => .ok (.seq l (xs ++ [v]))
    | _ => .error .protocol
  tupleElement q v := match q with
    | .tuple l xs => .ok (.tuple l (xs ++ [v]))
    | _ => .error .protocol
  tsField q v := match q with
    | .tupleStruct n l xs => .ok (.tupleStruct n l (xs ++ [v]))
    | _ => .error .protocol
  mapEntry q k v := match q with
    | .map l es => .ok (.map l (es ++ [(k, v)]))
    | _ => .error .protocol
  structField q k v := match q with
    | .struct n l fs => .ok (.struct n l (fs ++ [(k, v)]))
    | _ => .error .protocol
  seqEnd q := .ok q
  tupleEnd q := .ok q
  tsEnd q := .ok q
  mapEnd q := .ok q
  structEnd q := .ok q

/-! ## a map access backed by an entry list (what a self-describing format hands to `visit_map`) -/

/-- how a key presents itself to `deserialize_identifier(visitor)`: a name through `visit_str`, a position through `visit_u64` -/
def keyIdentifier (visitU64 : W → Nat → Except ε ρ) (visitStr : W → String → Except ε ρ) (k : Key) (v : W) : Except ε ρ :=
  match k with
  | .str s => visitStr v s
  | .idx n => visitU64 v n

/-- the model's key of an identifier that is replayed to the wrapped seed -/
def StructField.toKey? : StructField → Option Key
  | .unsigned n => some (.idx n)
  | .str s => some (.str s)
  | .bytes _ => none

end Serde.Proto
