/-
  Hand-written prelude of `PaletteModel/Gen/BodiesRand.lean` (family `rand`: palette's random-sampling code translated by
  `tools/rust2lean_rand.py`, C19).  It gives a Lean reading to what those bodies take from the `rand` crate and from the language.
  Everything is a plain definition that `rfl` / `unfold` sees through.

  THE RNG AND RAND'S PRIMITIVE DISTRIBUTIONS ARE PARAMETERS.  Nothing is assumed here about the values they return: the C19 theorems
  state what they need (`0 ≤ g < 1`, `a ≤ d < b`, `a ≤ d ≤ b`, uniformity) as hypotheses on the draws.

  No Mathlib import (the driver links `PaletteModel`).
-/
import PaletteModel.BodyPrim

namespace Prim.Rand

/-- `rand::distributions::Uniform<T>` for a float `T`, as far as palette is concerned: the record of what was handed to rand -
    `Uniform::new(low, high)` (rand 0.8 docs: "sampling from the half-open range [low, high)", panics unless `low < high`) or
    `Uniform::new_inclusive(low, high)` ("the closed range [low, high]", panics unless `low <= high`). -/
structure Uniform (α : Type) where
  lo : α
  hi : α
  inclusive : Bool

/-- `Uniform::new::<_, T>(low, high)` (`SampleBorrow` for `T` is the identity borrow) -/
def Uniform.new {α : Type} (lo hi : α) : Uniform α := ⟨lo, hi, false⟩
/-- `Uniform::new_inclusive::<_, T>(low, high)` -/
def Uniform.newInclusive {α : Type} (lo hi : α) : Uniform α := ⟨lo, hi, true⟩

/-- `rng: &mut R` with `R: Rng + ?Sized`, as a state that is threaded through the body, together with rand's two primitive float
    distributions AS PARAMETERS: `gen k` is the value `rng.gen::<T>()` (`Standard` for a float `T`) returns when it is the `k`-th
    primitive draw made from this generator, `draw u k` the value `u.sample(rng)` returns for `u : Uniform<T>` as the `k`-th primitive
    draw (it may depend on the interval handed to rand and on the position in the stream); `pos` = number of primitive draws made so far.
    (rand: every `Distribution::sample` takes `&mut R` and advances the generator; the value is a function of the generator state
    and of the distribution.) -/
structure Rng (α : Type) where
  gen : Nat → α
  draw : Uniform α → Nat → α
  pos : Nat

/-- the generator after `n` more primitive draws -/
def Rng.skip {α : Type} (r : Rng α) (n : Nat) : Rng α := ⟨r.gen, r.draw, r.pos + n⟩

/-- `rng.gen::<T>()` for the float component type: value of the next primitive draw, and the advanced generator -/
def Rng.genT {α : Type} (r : Rng α) : α × Rng α := (r.gen r.pos, r.skip 1)

/-- `u.sample(rng)` for `u : Uniform<T>` (`Distribution<T> for Uniform<T>`): value of the next primitive draw from `u`, and the advanced generator -/
def Uniform.sample {α : Type} (u : Uniform α) (r : Rng α) : α × Rng α := (r.draw u r.pos, r.skip 1)

/-- a colour struct with ONE non-phantom component (`Luma { luma, standard: PhantomData }`); three components: `V3` -/
structure C1 (α : Type) where
  c0 : α

def C1.toList {α : Type} (c : C1 α) : List α := [c.c0]

end Prim.Rand
