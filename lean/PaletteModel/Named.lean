/-
  Model of `palette/src/named.rs`: `from_str(name) = COLORS.get(name).copied()` and `entries()`, over the
  tables `tools/extract.py` regenerates from `named/codegen.rs` (`Gen/Named.lean`).

  `phf::Map::get` is modelled as what it is: one SipHash-1-3 probe into the generated `disps`/`entries` arrays
  followed by a key comparison (`PaletteModel/Phf.lean`).  That this equals an association-list lookup (`lookup2`)
  for *every* string is a theorem (`C12_Named.fromStrNat_eq_lookup`), not an assumption.  The identifier each entry
  refers to is resolved through the list of `pub const` items, as the compiler does.
-/
import PaletteModel.Gen.Named
import PaletteModel.Phf

namespace Named

/-- first value whose key equals `k` in two parallel lists -/
def lookup2 (k : List Nat) : List (List Nat) → List (List Nat) → Option (List Nat)
  | key :: ks, v :: vs => if key = k then some v else lookup2 k ks vs
  | _, _ => none

/-- value of the constant `ident` -/
def constColor (ident : List Nat) : Option (List Nat) := lookup2 ident Gen.Named.constIdents Gen.Named.constColors

/-- the map's `entries` with the identifiers resolved: colours parallel to `Gen.Named.phfKeys`
    (an unresolved identifier would not compile; it shows up here as `[]`) -/
def phfColors : List (List Nat) := Gen.Named.phfIdents.map fun i => (constColor i).getD []

/-- `COLORS.get(name).copied()` on the byte values of the name -/
def fromStrNat (name : List Nat) : Option (List Nat) :=
  Phf.get Gen.Named.phfKey Gen.Named.phfDisps1 Gen.Named.phfDisps2 Gen.Named.phfKeys phfColors name

/-- `palette::named::from_str` on the bytes of the name -/
def fromStr (name : List UInt8) : Option (List Nat) := fromStrNat (name.map UInt8.toNat)

/-- `str::to_ascii_lowercase` on ASCII codes -/
def lower (s : List Nat) : List Nat := s.map fun c => if 65 ≤ c ∧ c ≤ 90 then c + 32 else c

end Named
