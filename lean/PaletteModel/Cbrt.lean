/-
  `cbrt` as the Rust side computes it.  rustc's `f64::cbrt` / `f32::cbrt` do **not** call the system libm: they resolve to
  the `libm` port inside `compiler-builtins` (no `cbrt`/`cbrtf` among the harness's dynamic symbols), which is
  * `cbrt`  (f64): CORE-MATH's **correctly rounded** cube root — so any correctly rounded implementation is bit-identical;
  * `cbrtf` (f32): FreeBSD `s_cbrtf.c` (bit trick + two Newton steps in double, rounded once).
  glibc's `cbrt` (what Lean's `Float.cbrt` calls) differs from the former by 1 ulp on ≈ 50 % of the inputs and `cbrtf` on ≈ 10 %
  (probe: 20 000 points), which ill-conditioned formulas (Okhsl/Okhsv inverse) amplify beyond the driver's 8 ulps.  Hence:
  * `cbrt64` = glibc's result corrected to the nearest double by exact integer comparison with the cubes of the two
    neighbouring midpoints (a tie is impossible: a midpoint has an odd 54-bit significand, its cube is not a double);
  * `cbrt32` = a transcription of `cbrtf`.
  Core Lean only.
-/

namespace Cbrt

/-- positive finite double as `m · 2^e` -/
def toME (f : Float) : Nat × Int :=
  let b := f.toBits.toNat
  let E := (b >>> 52) % 2048
  let M := b % (2 ^ 52)
  if E == 0 then (M, -1074) else (M + 2 ^ 52, (E : Int) - 1075)

/-- `x  ?  ((a + b)/2)³` for positive finite doubles: `.lt`, `.eq`, `.gt` — exact -/
def cmpMidCube (x a b : Float) : Ordering :=
  let (mx, ex) := toME x
  let (ma, ea) := toME a
  let (mb, eb) := toME b
  let e := if ea < eb then ea else eb
  let s := ma * 2 ^ (ea - e).toNat + mb * 2 ^ (eb - e).toNat      -- (a + b) = s · 2^e, midpoint = s · 2^(e-1)
  let c := s * s * s                                               -- midpoint³ = c · 2^(3e-3)
  let d := ex - (3 * e - 3)
  if d ≥ 0 then compare (mx * 2 ^ d.toNat) c else compare mx (c * 2 ^ (-d).toNat)

def next (y : Float) : Float := Float.ofBits (y.toBits + 1)
def prev (y : Float) : Float := Float.ofBits (y.toBits - 1)

/-- correctly rounded cube root of a positive finite double -/
def cbrtPos (x : Float) : Float := Id.run do
  let mut y := Float.cbrt x
  for _ in [0:4] do
    if cmpMidCube x y (next y) == .gt then y := next y
    else if cmpMidCube x (prev y) y == .lt then y := prev y
    else break
  return y

def cbrt64 (x : Float) : Float :=
  if x.isNaN || x.isInf || x == 0.0 then x + x
  else if x < 0.0 then -(cbrtPos (-x)) else cbrtPos x

/-- `libm::cbrtf` (FreeBSD `s_cbrtf.c`) -/
def cbrt32 (x : Float32) : Float32 :=
  let B1 : UInt32 := 709958130
  let B2 : UInt32 := 642849266
  let ui := x.toBits
  let hx := ui &&& 0x7fffffff
  if hx ≥ 0x7f800000 then x + x
  else if hx == 0 then x
  else
    let (ui, hx) :=
      if hx < 0x00800000 then
        let ui := (x * Float32.ofBits 0x4b800000).toBits
        (ui, (ui &&& 0x7fffffff) / 3 + B2)
      else (ui, hx / 3 + B1)
    let ui := (ui &&& 0x80000000) ||| hx
    let xd := x.toFloat
    let t := (Float32.ofBits ui).toFloat
    let r := t * t * t
    let t := t * (xd + xd + r) / (xd + r + r)
    let r := t * t * t
    let t := t * (xd + xd + r) / (xd + r + r)
    t.toFloat32

end Cbrt
