import PaletteModel.Proto
import PaletteModel.Soa
import PaletteModel.SoaNested
import PaletteModel.Gen.Soa

/-!
  `soa <Type> <f32|f64|u8|u16> <hue 0|1> <#elements> <alpha 0|1> | <history> | <observations>`
  One line is one whole history from the empty collection (self-contained, replays exactly).
  history  := op*            op := push ROW | pop | extend N ROW^N | collect N ROW^N | new CAP | clear
                                 | drain RNG SCRIPT | get I | getr RNG SCRIPT | getm I ROW | getmr RNG SCRIPT
                                 | iter SCRIPT | iterm SCRIPT | rev | into | len | forget RNG SCRIPT   (each op may carry `@form`)
  RNG      := r A B | f A | t B | u | i A B | ti B
  SCRIPT   := M step^M       step := n | b | l | h | c | N ROW | B ROW     (`c` = `count()`, consumes the iterator: only as the
                                                                            last step, and never before a `forget`)
  ROW      := k values in column order hue, elements.., alpha (floats as bit patterns)
  observations := per op:  u | S ROW | Z | T M (S ROW | Z | # LEN | H LO (HI | -) | C COUNT)^M | N | P | Ln ITERLEN LEN^k
  `soatypes | <names..> |` : the harness' list of covered types, compared with the extracted table.
-/
namespace Soa
open Proto

def val? (tok : String) : Option Nat :=
  match tok.toList with
  | 'x' :: r => hexNat? r
  | 'X' :: r => hexNat? r
  | _ => tok.toNat?

def showVal (ty : String) (n : Nat) : String :=
  if ty == "f32" then "x" ++ hexOfNat n 8 else if ty == "f64" then "X" ++ hexOfNat n 16 else toString n

def takeRow (k : Nat) (ts : List String) : Option (Row Nat k × List String) :=
  let vals := ((ts.take k).filterMap val?).toArray
  if h : vals.size = k then some (⟨vals, h⟩, ts.drop k) else none

def takeRows (k : Nat) : Nat → List String → Option (List (Row Nat k) × List String)
  | 0, ts => some ([], ts)
  | n + 1, ts => do
    let (r, ts) ← takeRow k ts
    let (rs, ts) ← takeRows k n ts
    pure (r :: rs, ts)

def takeRng : List String → Option (Rng × List String)
  | "r" :: a :: b :: ts => do pure (.range (← a.toNat?) (← b.toNat?), ts)
  | "f" :: a :: ts => do pure (.from (← a.toNat?), ts)
  | "t" :: b :: ts => do pure (.to (← b.toNat?), ts)
  | "u" :: ts => some (.full, ts)
  | "i" :: a :: b :: ts => do pure (.incl (← a.toNat?) (← b.toNat?), ts)
  | "ti" :: b :: ts => do pure (.toIncl (← b.toNat?), ts)
  | _ => none

def takeSteps (k : Nat) : Nat → List String → Option (List (Step Nat k) × List String)
  | 0, ts => some ([], ts)
  | n + 1, ts => do
    let (s, ts) ← (match ts with
      | "n" :: ts => some (Step.next none, ts)
      | "b" :: ts => some (Step.nextBack none, ts)
      | "l" :: ts => some (Step.len, ts)
      | "h" :: ts => some (Step.sizeHint, ts)
      | "c" :: ts => some (Step.count, ts)
      | "N" :: ts => (takeRow k ts).map fun (r, ts) => (Step.next (some r), ts)
      | "B" :: ts => (takeRow k ts).map fun (r, ts) => (Step.nextBack (some r), ts)
      | _ => none)
    let (ss, ts) ← takeSteps k n ts
    pure (s :: ss, ts)

def isCount {k : Nat} : Step Nat k → Bool
  | .count => true
  | _ => false

/-- `count()` consumes the iterator: a script is executable Rust only if `count` is its last step -/
def countLast {k : Nat} (sc : List (Step Nat k)) : Bool := !(sc.dropLast.any isCount)

def takeScript (k : Nat) : List String → Option (List (Step Nat k) × List String)
  | m :: ts => do
    let (sc, ts) ← takeSteps k (← m.toNat?) ts
    if countLast sc then pure (sc, ts) else none
  | _ => none

def opName (tok : String) : String := (tok.splitOn "@").headD ""

def takeOp (k : Nat) : List String → Option (Op Nat k × List String)
  | [] => none
  | tok :: ts =>
    match opName tok with
    | "push" => (takeRow k ts).map fun (r, ts) => (.push r, ts)
    | "pop" => some (.pop, ts)
    | "extend" => match ts with
      | n :: ts => do let (rs, ts) ← takeRows k (← n.toNat?) ts; pure (.extend rs, ts)
      | _ => none
    | "collect" => match ts with
      | n :: ts => do let (rs, ts) ← takeRows k (← n.toNat?) ts; pure (.collect rs, ts)
      | _ => none
    | "new" => match ts with
      | c :: ts => c.toNat?.map fun _ => (.withCapacity, ts)
      | _ => none
    | "clear" => some (.clear, ts)
    | "drain" => do let (r, ts) ← takeRng ts; let (sc, ts) ← takeScript k ts; pure (.drain r sc, ts)
    | "get" => match ts with
      | i :: ts => i.toNat?.map fun i => (.get i, ts)
      | _ => none
    | "getr" => do let (r, ts) ← takeRng ts; let (sc, ts) ← takeScript k ts; pure (.getRange r sc, ts)
    | "getm" => match ts with
      | i :: ts => do let i ← i.toNat?; let (r, ts) ← takeRow k ts; pure (.getMut i r, ts)
      | _ => none
    | "getmr" => do let (r, ts) ← takeRng ts; let (sc, ts) ← takeScript k ts; pure (.getMutRange r sc, ts)
    | "iter" => do let (sc, ts) ← takeScript k ts; pure (.iter sc, ts)
    | "iterm" => do let (sc, ts) ← takeScript k ts; pure (.iterMut sc, ts)
    | "rev" => some (.rev, ts)
    | "into" => some (.intoIter, ts)
    | "len" => some (.len, ts)
    | "forget" => do
      let (r, ts) ← takeRng ts; let (sc, ts) ← takeScript k ts
      -- after `count()` there is no `Drain` left to forget
      if sc.any isCount then none else pure (.forgetDrain r sc, ts)
    | _ => none

/-- returns the operations and the op tokens (with their `@form`) for the branch statistics -/
partial def takeOps (k : Nat) (ts : List String) (acc : List (Op Nat k)) (names : List String) : Option (List (Op Nat k) × List String) :=
  match ts with
  | [] => some (acc.reverse, names.reverse)
  | tok :: _ =>
    match takeOp k ts with
    | none => none
    | some (op, rest) => takeOps k rest (op :: acc) (if names.contains tok then names else tok :: names)

def showRow (ty : String) {k : Nat} (r : Row Nat k) : List String := r.toList.map (showVal ty)

def showItem (ty : String) {k : Nat} : Option (Row Nat k) → List String
  | none => ["Z"]
  | some r => "S" :: showRow ty r

def showSObs (ty : String) {k : Nat} : SObs Nat k → List String
  | .item o => showItem ty o
  | .len n => ["#", toString n]
  | .hint lo hi => ["H", toString lo, match hi with | some h => toString h | none => "-"]
  | .count n => ["C", toString n]

def showObs (ty : String) {k : Nat} : Obs Nat k → List String
  | .unit => ["u"]
  | .item o => showItem ty o
  | .steps l => "T" :: toString l.length :: (l.map (showSObs ty)).flatten
  | .noSlice => ["N"]
  | .panic => ["P"]
  | .lens n cols => "Ln" :: toString n :: cols.toList.map toString

def obsTag {k : Nat} : Obs Nat k → Option String
  | .noSlice => some "range-none"
  | .panic => some "drain-panic"
  | .item none => some "item-none"
  | _ => none

def firstDiff : List String → List String → Nat → String
  | a :: as, b :: bs, i => if a == b then firstDiff as bs (i + 1) else s!"token {i}: model {a} impl {b}"
  | [], [], _ => "equal"
  | [], b :: _, i => s!"token {i}: model ends, impl {b}"
  | a :: _, [], i => s!"token {i}: model {a}, impl ends"

def typeOk (name : String) (hue : Bool) (nelem : Nat) : Bool :=
  let ok (tbl : List (String × Bool × List String × String)) :=
    match tbl.find? (·.1 == name) with
    | some (_, h, fields, _) => h == hue && fields.length == nelem
    | none => false
  ok Gen.Soa.methods && ok Gen.Soa.traits && Gen.Soa.hueFirstAlphaLast

/-- `+alpha` configurations: the same history through the nested model (`Alpha { color: <k0 columns>, alpha }`,
    `SoaNested.lean`); its observations must be the implementation's and its final state the flat model's -/
def nestedCheck (ty : String) (k0 : Nat) (inp outp : List String) : Option String :=
  match takeOps (k0 + 1) inp [] [] with
  | none => some "unparsable history"
  | some (ops, _) =>
    let (nN, obsN) := nrun (emptyNest Nat k0) ops
    let tN := (obsN.map (showObs ty)).flatten
    if tN != outp then some ("nested model vs impl: " ++ firstDiff tN outp 0)
    else if nN.flat.toList != (run (emptyCols Nat (k0 + 1)) ops).1.toList then some "final nested state is not the flat model's state"
    else none

def handle (cfg inp outp : List String) : Verdict :=
  match cfg with
  | [name, ty, hue, nelem, alpha] =>
    match hue.toNat?, nelem.toNat?, alpha.toNat? with
    | some h, some ne, some a =>
      if !(typeOk name (h == 1) ne) then .disagree s!"type {name}: hue/field list differs from the extracted table" else
      let k := h + ne + a
      match takeOps k inp [] [] with
      | none => .bad "unparsable history"
      | some (ops, names) =>
        let (sM, obsM) := run (emptyCols Nat k) ops
        let (sR, obsR) := runRef ([] : List (Row Nat k)) ops
        let tM := (obsM.map (showObs ty)).flatten
        let tR := (obsR.map (showObs ty)).flatten
        if tM != outp then .disagree ("model vs impl: " ++ firstDiff tM outp 0)
        else if tR != outp then .disagree ("reference vs impl: " ++ firstDiff tR outp 0)
        else if sM.toList != (colsOf sR).toList then .disagree "final model state is not the transposed reference state"
        else if a == 1 then
          match nestedCheck ty (h + ne) inp outp with
          | some msg => .disagree msg
          | none => .agree ("nested" :: names ++ obsM.filterMap obsTag |>.eraseDups)
        else .agree (names ++ obsM.filterMap obsTag |>.eraseDups)
    | _, _, _ => .bad "malformed soa config"
  | _ => .bad "malformed soa line"

/-- `soatypes | names.. |` -/
def handleTypes (inp : List String) : Verdict :=
  let want := Gen.Soa.methods.map (·.1)
  if inp.all want.contains && want.all inp.contains then .agree ["types"]
  else .disagree s!"harness covers {inp}, extracted table has {want}"

end Soa
