/-
  C04 — the cast functions *form by form*: one explicit model function per Rust function of `cast/array.rs` / `cast/uint.rs`, built from the
  functions of `PaletteModel/Cast.lean` (which the driver executes and `PaletteProofs/C04_Cast.lean` is about) plus what `Cast.lean` leaves
  implicit: the crate's run-time layout asserts, which come *before* the length arithmetic in every function except
  `try_from_component_slice_box` (there the length test comes first, so a rejected box is handed back whatever the layout).

  `Cast.lean` has one function for several Rust forms (`&[T]`, `&mut [T]`, `Box<[T]>` share `tryFromComponentSlice`, ...); the typed readings of
  the translator (`PaletteModel/BodyPrimCast.lean`: `CPrim.Slice`, `CPrim.Ptr`, `Cast.Buf`, `CPrim.Res`, `Except`) are mapped into the model's
  `Buf` / `Outcome` by the `out*` functions below (all injective: nothing the code returns is forgotten).
  `PaletteProofs/Tie_Cast.lean` proves `out* (Gen.BodyCast.<fn> ..) = CastForms.<form> ..` for every layout, `n`, length and capacity, and
  `guard_pos` / `*_of_layout` there give the `Cast.*` function itself once the asserts hold (they hold for every castable type: the harness
  prints `size_of` / `align_of`, `c04layout` lines).  No Mathlib import.
-/
import PaletteModel.BodyPrimCast

namespace CastForms
open Cast CPrim

variable {α : Type}

/-! ## typed raw parts → the model's `Buf` -/

/-- a slice / boxed slice has no capacity of its own: `cap = len` (header of `Cast.Buf`) -/
def sliceBuf (s : Slice α) : Buf α := { id := s.id, len := s.len, cap := s.len, mem := s.mem }
/-- a single value behind `&`, `&mut`, `Box`: `len = cap = 1` -/
def ptrBuf (p : Ptr α) : Buf α := { id := p.id, len := 1, cap := 1, mem := p.mem }

def outVec : Res (Buf α) → Outcome α
  | .val b => .ok b
  | .panic => .panic
def outSlice : Res (Slice α) → Outcome α
  | .val s => .ok (sliceBuf s)
  | .panic => .panic
def outPtr : Res (Ptr α) → Outcome α
  | .val p => .ok (ptrBuf p)
  | .panic => .panic
/-- `Result<&[T], SliceCastError>`: the error carries nothing -/
def outTrySlice : Res (Except SliceCastError (Slice α)) → Outcome α
  | .val (.ok s) => .ok (sliceBuf s)
  | .val (.error _) => .err .slice none
  | .panic => .panic
/-- `Result<Box<[T]>, BoxedSliceCastError<_>>`: the error carries the rejected box -/
def outTryBox : Res (Except (BoxedSliceCastError α) (Slice α)) → Outcome α
  | .val (.ok s) => .ok (sliceBuf s)
  | .val (.error e) => .err .boxedSlice (some (sliceBuf e.values))
  | .panic => .panic
def errKind : VecCastErrorKind → ErrKind
  | .lengthMismatch => .lengthMismatch
  | .capacityMismatch => .capacityMismatch
/-- `Result<Vec<T>, VecCastError<_>>`: the error carries the kind and the rejected vector -/
def outTryVec : Res (Except (VecCastError α) (Buf α)) → Outcome α
  | .val (.ok b) => .ok b
  | .val (.error e) => .err (errKind e.kind) (some e.values)
  | .panic => .panic
/-- `Result<[C; M], Infallible>` -/
def outTryArray : Res (Except Empty (Buf α)) → Outcome α
  | .val (.ok b) => .ok b
  | .val (.error e) => nomatch e
  | .panic => .panic

/-! ## the layout asserts -/

/-- `size_of::<T::Array>() == size_of::<T>()` (by-value casts assert the size only) -/
def arraySize (sizeOf : Ty → Nat) : Prop := sizeOf (.array (.var 0)) = sizeOf (.var 0)
/-- ... and `align_of::<T::Array>() == align_of::<T>()` (every cast behind a pointer) -/
def arrayLayout (sizeOf alignOf : Ty → Nat) : Prop := sizeOf (.array (.var 0)) = sizeOf (.var 0) ∧ alignOf (.array (.var 0)) = alignOf (.var 0)
def uintSize (sizeOf : Ty → Nat) : Prop := sizeOf (.uint (.var 0)) = sizeOf (.var 0)
def uintLayout (sizeOf alignOf : Ty → Nat) : Prop := sizeOf (.uint (.var 0)) = sizeOf (.var 0) ∧ alignOf (.uint (.var 0)) = alignOf (.var 0)
/-- `into_component_array::<T, N, M>`: additionally `[T; N]` and `[Item; M]` have the same size and alignment -/
def intoComponentArrayLayout (sizeOf alignOf : Ty → Nat) (N M : Nat) : Prop :=
  arrayLayout sizeOf alignOf ∧ sizeOf (.arr (.var 0) N) = sizeOf (.arr (.item (.var 0)) M) ∧ alignOf (.arr (.var 0) N) = alignOf (.arr (.item (.var 0)) M)
def fromComponentArrayLayout (sizeOf alignOf : Ty → Nat) (N M : Nat) : Prop :=
  arrayLayout sizeOf alignOf ∧ sizeOf (.arr (.item (.var 0)) N) = sizeOf (.arr (.var 0) M) ∧ alignOf (.arr (.item (.var 0)) N) = alignOf (.arr (.var 0) M)

instance (sizeOf : Ty → Nat) : Decidable (arraySize sizeOf) := by unfold arraySize; infer_instance
instance (sizeOf alignOf : Ty → Nat) : Decidable (arrayLayout sizeOf alignOf) := by unfold arrayLayout; infer_instance
instance (sizeOf : Ty → Nat) : Decidable (uintSize sizeOf) := by unfold uintSize; infer_instance
instance (sizeOf alignOf : Ty → Nat) : Decidable (uintLayout sizeOf alignOf) := by unfold uintLayout; infer_instance
instance (sizeOf alignOf : Ty → Nat) (N M : Nat) : Decidable (intoComponentArrayLayout sizeOf alignOf N M) := by unfold intoComponentArrayLayout; infer_instance
instance (sizeOf alignOf : Ty → Nat) (N M : Nat) : Decidable (fromComponentArrayLayout sizeOf alignOf N M) := by unfold fromComponentArrayLayout; infer_instance

/-- a failed assert is a panic, whatever would have followed -/
def guard (ok : Prop) [Decidable ok] (o : Outcome α) : Outcome α := if ok then o else .panic

/-! ## one model function per shape of Rust function (`ok` = the conjunction of that function's asserts) -/

/-- `into_array*`, `from_array*`, `into_uint*`, `from_uint*` in all forms: asserts, then nothing changes -/
def sameUnit (ok : Prop) [Decidable ok] (b : Buf α) : Outcome α := guard ok (.ok (Cast.sameUnit b))
/-- `into_component_slice(_mut)`, `into_component_slice_box`, `into_component_vec` -/
def intoComponents (ok : Prop) [Decidable ok] (n : Nat) (b : Buf α) : Outcome α := guard ok (.ok (Cast.intoComponents n b))
/-- `try_from_component_slice(_mut)` -/
def tryFromComponentSlice (ok : Prop) [Decidable ok] (n : Nat) (b : Buf α) : Outcome α := guard ok (Cast.tryFromComponentSlice n b)
/-- `from_component_slice(_mut)` = `try_..(values).unwrap()` -/
def fromComponentSlice (ok : Prop) [Decidable ok] (n : Nat) (b : Buf α) : Outcome α := Cast.unwrap (tryFromComponentSlice ok n b)
/-- `try_from_component_slice_box`: the length test comes first and needs no layout; the asserts are those of the inner
    `from_component_slice_mut` and are reached by accepted lengths only -/
def tryFromComponentSliceBox (ok : Prop) [Decidable ok] (n : Nat) (b : Buf α) : Outcome α :=
  if b.len % n ≠ 0 then Cast.tryFromComponentSliceBox n b else guard ok (Cast.tryFromComponentSliceBox n b)
def fromComponentSliceBox (ok : Prop) [Decidable ok] (n : Nat) (b : Buf α) : Outcome α := Cast.unwrap (tryFromComponentSliceBox ok n b)
/-- `try_from_component_vec` -/
def tryFromComponentVec (ok : Prop) [Decidable ok] (n : Nat) (b : Buf α) : Outcome α := guard ok (Cast.tryFromComponentVec n b)
def fromComponentVec (ok : Prop) [Decidable ok] (n : Nat) (b : Buf α) : Outcome α := Cast.unwrap (tryFromComponentVec ok n b)
/-- `into_component_array::<T, N, M>` (every failing assert is the same panic: the order of the asserts is not observable) -/
def intoComponentArray (ok : Prop) [Decidable ok] (n N M : Nat) (b : Buf α) : Outcome α := guard ok (Cast.intoComponentArray n N M b)
def fromComponentArray (ok : Prop) [Decidable ok] (n N M : Nat) (b : Buf α) : Outcome α := guard ok (Cast.fromComponentArray n N M b)

end CastForms
