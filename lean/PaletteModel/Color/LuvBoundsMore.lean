/-
  `luv_bounds.rs`, the functions the model of Color/Cie.lean had only implicitly (inlined into `Cie.chromaStep` / `Cie.maxChroma`)
  or not at all (`distance_to_origin`, `max_safe_chroma`: `#[allow(unused)]` in palette, no caller).  They are the right-hand
  sides of `PaletteProofs/Tie_LuvBounds.lean`; `PaletteProofs/Tie_LuvBounds.lean` also proves them equal to what the existing
  theorems (C02_HsluvGamut, C15_HsluvGamut, C01_Cie) use: `chromaStep_eq_intersect`, `maxChroma_eq_ofBounds`.

  No Mathlib import (the driver links `PaletteModel`).
-/
import PaletteModel.Color.Cie

namespace Cie
open Scalar

section bounds
variable {β : Type} [Scalar β]

/-- `BoundaryLine::intersect_length_at_angle`: the signed length at which the ray at angle `theta` meets the line,
    `None` when the ray is (nearly) parallel to it: `|sin θ − slope·cos θ| ≤ 1e-6` -/
def intersectLengthAtAngle (b : BoundaryLine β) (theta : β) : Option β :=
  let sinTheta := sin theta; let cosTheta := cos theta
  let denom := sinTheta - b.slope * cosTheta
  if 1.0e-6 < abs denom then some (b.intercept / denom) else none

/-- the body of the loop of `max_chroma_at_hue`, with `intersect_length_at_angle` as a call (not inlined as in `chromaStep`) -/
def chromaStepOpt (theta : β) (minChroma : β) (b : BoundaryLine β) : β :=
  match intersectLengthAtAngle b theta with
  | some t => if 0.0 ≤ t ∧ t < minChroma then t else minChroma
  | none => minChroma

/-- `BoundaryLine::distance_to_origin` = `|intercept| / √(slope² + 1)` -/
def distanceToOrigin (b : BoundaryLine β) : β :=
  abs b.intercept / sqrt (b.slope * b.slope + 1.0)

/-- one step of the loop of `max_safe_chroma`: kept iff `min_dist > d` -/
def safeStep (minDist : β) (b : BoundaryLine β) : β :=
  let d := distanceToOrigin b
  if d < minDist then d else minDist
end bounds

/-- `LuvBounds::max_chroma_at_hue(&self, hue)` for given boundary lines: `h = hue.into_raw_radians().into()`, fold, `T::from_f64` -/
def maxChromaOfBounds {α : Type} [Scalar α] [Angle α] {β : Type} [Scalar β] [ViaF64 α β] (bs : List (BoundaryLine β)) (hue : α) : α :=
  ViaF64.down (bs.foldl (chromaStep (ViaF64.up (Angle.degToRad hue))) f64Max)

/-- `LuvBounds::max_safe_chroma(&self)` for given boundary lines (dead code in palette: `#[allow(unused)]`) -/
def maxSafeChromaOfBounds {α : Type} {β : Type} [Scalar β] [ViaF64 α β] (bs : List (BoundaryLine β)) : α :=
  ViaF64.down (bs.foldl safeStep f64Max)

/-- `LuvBounds::from_lightness(l)` as seen from `T`: `l.into()` first -/
def luvBoundsOf {α : Type} {β : Type} [Scalar β] [ViaF64 α β] (l : α) : List (BoundaryLine β) := luvBounds (ViaF64.up l)

end Cie
