/-
  Ottosson's spaces: Oklab, Oklch, Okhsl, Okhsv, Okhwb — every hand-written `FromColorUnclamped` edge of the family and
  everything they use in `ok_utils.rs`, expression for expression (same association, same branch order).
  Component order = struct field order: Oklab (l, a, b), Oklch (l, chroma, hue), Okhsl (hue, saturation, lightness),
  Okhsv (hue, saturation, value), Okhwb (hue, whiteness, blackness); hues are the raw stored degrees.

  Numbers: matrices and the direct sRGB coefficients from `Gen/Matrices.lean`, every `T::from_f64(..)` of `ok_utils.rs`
  from `Gen/OkUtils.lean` *by position* (`kAt list i` = the i-th `from_f64` argument of that Rust function, in order of
  appearance).  `T::one()`/`T::zero()` are `1.0`/`0.0`; `x.powi(2)` is `x*x`, `x.powi(3)` is `x*x*x` (LLVM expands `powi`
  with a constant exponent into the square-and-multiply chain `x*(x*x)`, bit-identical by commutativity of `*`).
-/
import PaletteModel.Color.Basic
import PaletteModel.Color.Angle
import PaletteModel.Gen.OkUtils

namespace Ok
open Scalar
variable {α : Type} [Scalar α] [Angle α]

/-- the `i`-th `T::from_f64(..)` of a Rust function (position in the generated list) -/
def kAt (l : List K) (i : Nat) : α := const (l.getD i (0.0 : K))

/-! ### hues (`hues.rs`, `make_hues!` — `OklabHue`) -/

/-- `OklabHue::from_cartesian(a, b)`: `from_radians(T::from_f64(PI) + atan2(-b, -a))`, stored in degrees in `[0, 360]` -/
def hueFromCartesian (a b : α) : α := Angle.radToDeg (Angle.pi + atan2 (-b) (-a))

/-- `OklabHue::into_cartesian`: `let (b, a) = self.into_raw_radians().sin_cos(); (a, b)` -/
def hueIntoCartesian (h : α) : α × α :=
  let r := Angle.degToRad h
  (cos r, sin r)

/-- `Oklab::get_chroma` -/
def chromaOf (a b : α) : α := Angle.hypot a b

/-! ### Xyz<D65> ↔ Oklab (oklab.rs, xyz.rs) -/

def m1 : M3 α := M3.ofK Gen.Mat.oklabM1
def m1Inv : M3 α := M3.ofK Gen.Mat.oklabM1Inv
def m2 : M3 α := M3.ofK Gen.Mat.oklabM2
def m2Inv : M3 α := M3.ofK Gen.Mat.oklabM2Inv

/-- `impl FromColorUnclamped<Xyz<D65,T>> for Oklab<T>` -/
def xyzToOklab (c : V3 α) : V3 α :=
  let lms := M3.mulVec m1 c
  M3.mulVec m2 ⟨cbrt lms.c0, cbrt lms.c1, cbrt lms.c2⟩

def cube (x : α) : α := x * x * x

/-- `impl FromColorUnclamped<Oklab<T>> for Xyz<D65,T>` -/
def oklabToXyz (c : V3 α) : V3 α :=
  let lms := M3.mulVec m2Inv c
  M3.mulVec m1Inv ⟨cube lms.c0, cube lms.c1, cube lms.c2⟩

/-! ### linear sRGB ↔ Oklab, direct (oklab.rs) -/

/-- `linear_srgb_to_oklab` -/
def linSrgbToOklab (c : V3 α) : V3 α :=
  let k : Nat → α := kAt Gen.Mat.linSrgbToOklabCoeffs
  let l := k 0 * c.c0 + k 1 * c.c1 + k 2 * c.c2
  let m := k 3 * c.c0 + k 4 * c.c1 + k 5 * c.c2
  let s := k 6 * c.c0 + k 7 * c.c1 + k 8 * c.c2
  let l_ := cbrt l
  let m_ := cbrt m
  let s_ := cbrt s
  ⟨k 9 * l_ + k 10 * m_ - k 11 * s_,
   k 12 * l_ - k 13 * m_ + k 14 * s_,
   k 15 * l_ + k 16 * m_ - k 17 * s_⟩

/-- `oklab_to_linear_srgb` -/
def oklabToLinSrgb (c : V3 α) : V3 α :=
  let k : Nat → α := kAt Gen.Mat.oklabToLinSrgbCoeffs
  let l_ := c.c0 + k 0 * c.c1 + k 1 * c.c2
  let m_ := c.c0 - k 2 * c.c1 - k 3 * c.c2
  let s_ := c.c0 - k 4 * c.c1 - k 5 * c.c2
  let l := l_ * l_ * l_
  let m := m_ * m_ * m_
  let s := s_ * s_ * s_
  ⟨k 6 * l - k 7 * m + k 8 * s,
   k 9 * l + k 10 * m - k 11 * s,
   k 12 * l - k 13 * m + k 14 * s⟩

/-- `Xyz<Wp,T>: FromColorUnclamped<Rgb<S,T>>` for a space with hard-coded matrices:
    `matrix_map(rgb_to_xyz_matrix, from_f64)` applied to `color.into_linear()` -/
def rgbToXyzHard (sp : Color.RgbSpaceData) (tf : Transfer.Fn) (c : V3 α) : V3 α :=
  M3.mulVec (M3.ofK sp.rgbToXyz) (c.map (Transfer.intoLinear tf))

/-- `Rgb<S,T>: FromColorUnclamped<Xyz<Wp,T>>` for a space with hard-coded matrices -/
def xyzToRgbHard (sp : Color.RgbSpaceData) (tf : Transfer.Fn) (c : V3 α) : V3 α :=
  (M3.mulVec (M3.ofK sp.xyzToRgb) c).map (Transfer.fromLinear tf)

/-- `impl FromColorUnclamped<Rgb<S,T>> for Oklab<T>`: `TypeId::of::<S::Space>() == TypeId::of::<Srgb>()` → direct, else via XYZ -/
def rgbToOklab (sp : Color.RgbSpaceData) (tf : Transfer.Fn) (c : V3 α) : V3 α :=
  if sp.name == "Srgb" then linSrgbToOklab (c.map (Transfer.intoLinear tf))
  else xyzToOklab (rgbToXyzHard sp tf c)

/-- `impl FromColorUnclamped<Oklab<T>> for Rgb<S,T>`; the final `LinSrgb → Rgb<S>` hop is `reinterpret_as` for `S = Linear<Srgb>`
    and `from_linear` for the other standards on sRGB primaries (`Transfer.fromLinear .linear = id`) -/
def oklabToRgb (sp : Color.RgbSpaceData) (tf : Transfer.Fn) (c : V3 α) : V3 α :=
  if sp.name == "Srgb" then (oklabToLinSrgb c).map (Transfer.fromLinear tf)
  else xyzToRgbHard sp tf (oklabToXyz c)

/-! ### Oklab ↔ Oklch -/

/-- `impl FromColorUnclamped<Oklab<T>> for Oklch<T>` — `(l, chroma, hue)` -/
def oklabToOklch (c : V3 α) : V3 α :=
  let hue := hueFromCartesian c.c1 c.c2
  let chroma := chromaOf c.c1 c.c2
  ⟨c.c0, chroma, hue⟩

/-- `impl FromColorUnclamped<Oklch<T>> for Oklab<T>` -/
def oklchToOklab (c : V3 α) : V3 α :=
  let ab := hueIntoCartesian c.c2
  let chroma := Scalar.max c.c1 0.0
  ⟨c.c0, ab.1 * chroma, ab.2 * chroma⟩

/-! ### ok_utils.rs -/

/-- `toe` -/
def toe (x : α) : α :=
  let c : Nat → α := kAt Gen.Ok.toe
  let k_1 := c 0
  let k_2 := c 1
  let k_3 := (1.0 + k_1) / (1.0 + k_2)
  c 2 * (k_3 * x - k_1 + sqrt ((k_3 * x - k_1) * (k_3 * x - k_1) + c 3 * k_2 * k_3 * x))

/-- `toe_inv` -/
def toeInv (x : α) : α :=
  let c : Nat → α := kAt Gen.Ok.toeInv
  let k_1 := c 0
  let k_2 := c 1
  let k_3 := (1.0 + k_1) / (1.0 + k_2)
  (x * x + k_1 * x) / (k_3 * (x + k_2))

structure LC (α : Type) where
  lightness : α
  chroma : α

structure ST (α : Type) where
  s : α
  t : α

/-- `impl From<LC<T>> for ST<T>` -/
def stOfLC (lc : LC α) : ST α := ⟨lc.chroma / lc.lightness, lc.chroma / (1.0 - lc.lightness)⟩

/-- `ST::mid` -/
def stMid (a_ b_ : α) : ST α :=
  let c : Nat → α := kAt Gen.Ok.stMid
  let s := c 0 + 1.0 / (c 1 + c 2 * b_
            + a_ * (c 3 + c 4 * b_
            + a_ * (c 5 - c 6 * b_
            + a_ * (c 7 + c 8 * b_ + c 9 * a_))))
  let t := c 10 + 1.0 / (c 11 - c 12 * b_
            + a_ * (c 13 + c 14 * b_
            + a_ * (c 15 + c 16 * b_
            + a_ * (c 17 - c 18 * b_ - c 19 * a_))))
  ⟨s, t⟩

/-- one pass of the loop body of `LC::max_saturation` (Halley's method) -/
def maxSaturationStep (wl wm ws k_l k_m k_s : α) (sat : α) : α :=
  let c : Nat → α := kAt Gen.Ok.maxSaturation
  let l_ := 1.0 + sat * k_l
  let m_ := 1.0 + sat * k_m
  let s_ := 1.0 + sat * k_s
  let l := l_ * l_ * l_
  let m := m_ * m_ * m_
  let s := s_ * s_ * s_
  let l_ds := c 34 * k_l * (l_ * l_)
  let m_ds := c 35 * k_m * (m_ * m_)
  let s_ds := c 36 * k_s * (s_ * s_)
  let l_ds2 := c 37 * (k_l * k_l) * l_
  let m_ds2 := c 38 * (k_m * k_m) * m_
  let s_ds2 := c 39 * (k_s * k_s) * s_
  let f := wl * l + wm * m + ws * s
  let f1 := wl * l_ds + wm * m_ds + ws * s_ds
  let f2 := wl * l_ds2 + wm * m_ds2 + ws * s_ds2
  sat - f * f1 / (f1 * f1 - c 40 * f * f2)

def iter {β : Type} (f : β → β) : Nat → β → β
  | 0, x => x
  | n + 1, x => iter f n (f x)

/-- which sRGB component reaches zero first: the three coefficient sets of `max_saturation` (0 red, 1 green, 2 blue) -/
def maxSaturationCase (a b : α) : Nat :=
  let c : Nat → α := kAt Gen.Ok.maxSaturation
  if 1.0 < c 0 * a - c 1 * b then 0
  else if 1.0 < c 10 * a - c 11 * b then 1
  else 2

/-- `LC::max_saturation` -/
def maxSaturation (a b : α) : α :=
  let c : Nat → α := kAt Gen.Ok.maxSaturation
  let o := match maxSaturationCase a b with
    | 0 => 2
    | 1 => 12
    | _ => 20
  let k0 := c o; let k1 := c (o + 1); let k2 := c (o + 2); let k3 := c (o + 3); let k4 := c (o + 4)
  let wl := c (o + 5); let wm := c (o + 6); let ws := c (o + 7)
  let approx := k0 + k1 * a + k2 * b + k3 * (a * a) + k4 * a * b
  let k_l := c 28 * a + c 29 * b
  let k_m := c 30 * a - c 31 * b
  let k_s := c 32 * a - c 33 * b
  iter (maxSaturationStep wl wm ws k_l k_m k_s) Gen.Ok.maxSaturationIter approx

/-- `LC::find_cusp` -/
def findCusp (a b : α) : LC α :=
  let sat := maxSaturation a b
  let rgb := oklabToLinSrgb ⟨1.0, sat * a, sat * b⟩
  let lmax := cbrt (1.0 / Scalar.max (Scalar.max rgb.c0 rgb.c1) rgb.c2)
  ⟨lmax, lmax * sat⟩

/-- `find_gamut_intersection(a, b, l1, c1, l0, cusp)` -/
def findGamutIntersection (a b l1 c1 l0 : α) (cusp : LC α) : α :=
  let c : Nat → α := kAt Gen.Ok.findGamutIntersection
  if (l1 - l0) * cusp.chroma - (cusp.lightness - l0) * c1 ≤ 0.0 then
    cusp.chroma * l0 / (c1 * cusp.lightness + cusp.chroma * (l0 - l1))
  else
    let t := cusp.chroma * (l0 - 1.0) / (c1 * (cusp.lightness - 1.0) + cusp.chroma * (l0 - l1))
    let dl := l1 - l0
    let dc := c1
    let k_l := c 0 * a + c 1 * b
    let k_m := -(c 2) * a - c 3 * b
    let k_s := -(c 4) * a - c 5 * b
    let l_dt := dl + dc * k_l
    let m_dt := dl + dc * k_m
    let s_dt := dl + dc * k_s
    let lightness := l0 * (1.0 - t) + t * l1
    let chroma := t * c1
    let l_ := lightness + chroma * k_l
    let m_ := lightness + chroma * k_m
    let s_ := lightness + chroma * k_s
    let l := l_ * l_ * l_
    let m := m_ * m_ * m_
    let s := s_ * s_ * s_
    let ldt := c 6 * l_dt * l_ * l_
    let mdt := c 7 * m_dt * m_ * m_
    let sdt := c 8 * s_dt * s_ * s_
    let ldt2 := c 9 * l_dt * l_dt * l_
    let mdt2 := c 10 * m_dt * m_dt * m_
    let sdt2 := c 11 * s_dt * s_dt * s_
    let r := c 12 * l - c 13 * m + c 14 * s - 1.0
    let r1 := c 15 * ldt - c 16 * mdt + c 17 * sdt
    let r2 := c 18 * ldt2 - c 19 * mdt2 + c 20 * sdt2
    let u_r := r1 / (r1 * r1 - c 21 * r * r2)
    let t_r := -r * u_r
    let g := -(c 22) * l + c 23 * m - c 24 * s - 1.0
    let g1 := -(c 25) * ldt + c 26 * mdt - c 27 * sdt
    let g2 := -(c 28) * ldt2 + c 29 * mdt2 - c 30 * sdt2
    let u_g := g1 / (g1 * g1 - c 31 * g * g2)
    let t_g := -g * u_g
    let b' := -(c 32) * l - c 33 * m + c 34 * s - 1.0
    let b1 := -(c 35) * ldt - c 36 * mdt + c 37 * sdt
    let b2 := -(c 38) * ldt2 - c 39 * mdt2 + c 40 * sdt2
    let u_b := b1 / (b1 * b1 - c 41 * b' * b2)
    let t_b := -b' * u_b
    let flt_max := c 42
    let t_r := if 0.0 ≤ u_r then t_r else flt_max
    let t_g := if 0.0 ≤ u_g then t_g else flt_max
    let t_b := if 0.0 ≤ u_b then t_b else flt_max
    t + Scalar.min t_r (Scalar.min t_g t_b)

structure Cs (α : Type) where
  zero : α
  mid : α
  max : α

/-- `ChromaValues::from_normalized` (`get_Cs` of the reference) -/
def fromNormalized (lightness a_ b_ : α) : Cs α :=
  let c : Nat → α := kAt Gen.Ok.fromNormalized
  let cusp := findCusp a_ b_
  let max_chroma := findGamutIntersection a_ b_ lightness 1.0 lightness cusp
  let st_max := stOfLC cusp
  let k := max_chroma / Scalar.min (lightness * st_max.s) ((1.0 - lightness) * st_max.t)
  let c_mid :=
    let st_mid := stMid a_ b_
    let c_a := lightness * st_mid.s
    let c_b := (1.0 - lightness) * st_mid.t
    c 0 * k * sqrt (sqrt (1.0 / (1.0 / (c_a * c_a * c_a * c_a) + 1.0 / (c_b * c_b * c_b * c_b))))
  let c_0 :=
    let c_a := lightness * c 1
    let c_b := (1.0 - lightness) * c 2
    sqrt (1.0 / (1.0 / (c_a * c_a) + 1.0 / (c_b * c_b)))
  ⟨c_0, c_mid, max_chroma⟩

/-! ### Oklab ↔ Okhsl (oklab.rs, okhsl.rs) -/

/-- the interpolation of `okhsl_to_srgb` (`C = 0`, slope `C_0` at `s = 0`; `C_mid` at `s = 0.8`; `C_max` at `s = 1`) — the block
    `let chroma = if s < mid {…} else {…}` of `impl FromColorUnclamped<Okhsl<T>> for Oklab<T>` -/
def okhslChroma (cs : Cs α) (s : α) : α :=
  let mid : α := const 0.8
  let mid_inv : α := const 1.25
  if s < mid then
    let t := mid_inv * s
    let k_1 := mid * cs.zero
    let k_2 := 1.0 - k_1 / cs.mid
    t * k_1 / (1.0 - k_2 * t)
  else
    let t := (s - mid) / (1.0 - mid)
    let k_0 := cs.mid
    let k_1 := (1.0 - mid) * cs.mid * cs.mid * mid_inv * mid_inv / cs.zero
    let k_2 := 1.0 - k_1 / (cs.max - cs.mid)
    k_0 + t * k_1 / (1.0 - k_2 * t)

/-- its inverse as written in `impl FromColorUnclamped<Oklab<T>> for Okhsl<T>` (`let s = if chroma < cs.mid {…} else {…}`) -/
def okhslSaturation (cs : Cs α) (chroma : α) : α :=
  let mid : α := const 0.8
  let mid_inv : α := const 1.25
  if chroma < cs.mid then
    let k_1 := mid * cs.zero
    let k_2 := 1.0 - k_1 / cs.mid
    let t := chroma / (k_1 + k_2 * chroma)
    t * mid
  else
    let k_0 := cs.mid
    let k_1 := (1.0 - mid) * ((cs.mid * mid_inv) * (cs.mid * mid_inv)) / cs.zero
    let k_2 := 1.0 - k_1 / (cs.max - cs.mid)
    let t := (chroma - k_0) / (k_1 + k_2 * (chroma - k_0))
    mid + (1.0 - mid) * t

/-- `impl FromColorUnclamped<Okhsl<T>> for Oklab<T>` -/
def okhslToOklab (c : V3 α) : V3 α :=
  let h := c.c0; let s := c.c1; let l := c.c2
  if eqv l 1.0 then ⟨1.0, 0.0, 0.0⟩
  else if eqv l 0.0 then ⟨0.0, 0.0, 0.0⟩
  else
    let ab := hueIntoCartesian h
    let a_ := ab.1; let b_ := ab.2
    let oklab_lightness := toeInv l
    -- `toe_inv` rounds to exactly 1 for the lightness next below 1; `ChromaValues::from_normalized` divides by `1 − L` (guard added by the C15 repair)
    if eqv oklab_lightness 1.0 then ⟨1.0, 0.0, 0.0⟩ else
    let cs := fromNormalized oklab_lightness a_ b_
    let chroma := okhslChroma cs s
    ⟨oklab_lightness, chroma * a_, chroma * b_⟩

/-- `impl FromColorUnclamped<Oklab<T>> for Okhsl<T>` -/
def oklabToOkhsl (c : V3 α) : V3 α :=
  let l := toe c.c0
  let chroma := chromaOf c.c1 c.c2
  if !isValidDivisor chroma || decide (eqv c.c0 1.0) || !isValidDivisor c.c0 then ⟨0.0, 0.0, l⟩
  else
    let hue := hueFromCartesian c.c1 c.c2
    let cs := fromNormalized c.c0 (c.c1 / chroma) (c.c2 / chroma)
    let s := okhslSaturation cs chroma
    ⟨hue, s, l⟩

/-! ### Oklab ↔ Okhsv (oklab.rs, okhsv.rs) -/

/-- `cbrt(1 / max(max(r, g), max(b, 0)))` of the linear sRGB colour of `(l_vt, a_·c_vt, b_·c_vt)` -/
def lightnessScaleFactor (l_vt a_ b_ c_vt : α) : α :=
  let rgb := oklabToLinSrgb ⟨l_vt, a_ * c_vt, b_ * c_vt⟩
  cbrt (1.0 / Scalar.max (Scalar.max rgb.c0 rgb.c1) (Scalar.max rgb.c2 0.0))

/-- `impl FromColorUnclamped<Okhsv<T>> for Oklab<T>` -/
def okhsvToOklab (c : V3 α) : V3 α :=
  let hue := c.c0; let sat := c.c1; let value := c.c2
  if eqv value 0.0 then ⟨0.0, 0.0, 0.0⟩
  else if eqv sat 0.0 then ⟨toeInv value, 0.0, 0.0⟩
  else
    let h_radians := Angle.degToRad hue
    let a_ := cos h_radians
    let b_ := sin h_radians
    let cusp := stOfLC (findCusp a_ b_)
    let s_0 : α := const 0.5
    let k := 1.0 - s_0 / cusp.s
    let l_v := 1.0 - sat * s_0 / (s_0 + cusp.t - cusp.t * k * sat)
    let c_v := sat * cusp.t * s_0 / (s_0 + cusp.t - cusp.t * k * sat)
    let l_vt := toeInv l_v
    let c_vt := c_v * l_vt / l_v
    let lightness := value * l_v
    let chroma := value * c_v
    let lightness_new := toeInv lightness
    let chroma := chroma * lightness_new / lightness
    let f := lightnessScaleFactor l_vt a_ b_ c_vt
    let lightness := lightness_new * f
    let chroma := chroma * f
    ⟨lightness, chroma * a_, chroma * b_⟩

/-- `impl FromColorUnclamped<Oklab<T>> for Okhsv<T>` -/
def oklabToOkhsv (c : V3 α) : V3 α :=
  if eqv c.c0 0.0 then ⟨0.0, 0.0, 0.0⟩
  else
    let chroma := chromaOf c.c1 c.c2
    let hue := hueFromCartesian c.c1 c.c2
    if isValidDivisor chroma then
      let a_ := c.c1 / chroma
      let b_ := c.c2 / chroma
      let st_max := stOfLC (findCusp a_ b_)
      let s_0 : α := const 0.5
      let k := 1.0 - s_0 / st_max.s
      let t := st_max.t / (chroma + c.c0 * st_max.t)
      let l_v := t * c.c0
      let c_v := t * chroma
      let l_vt := toeInv l_v
      let c_vt := c_v * l_vt / l_v
      let f := lightnessScaleFactor l_vt a_ b_ c_vt
      let l_r := toe (c.c0 / f)
      let v := l_r / l_v
      let s := (s_0 + st_max.t) * c_v / ((st_max.t * s_0) + st_max.t * k * c_v)
      ⟨hue, s, v⟩
    else ⟨0.0, 0.0, toe c.c0⟩

/-! ### Okhsv ↔ Okhwb (okhwb.rs, okhsv.rs) -/

/-- `impl FromColorUnclamped<Okhsv<T>> for Okhwb<T>` -/
def okhsvToOkhwb (c : V3 α) : V3 α := ⟨c.c0, (1.0 - c.c1) * c.c2, 1.0 - c.c2⟩

/-- `impl FromColorUnclamped<Okhwb<T>> for Okhsv<T>` -/
def okhwbToOkhsv (c : V3 α) : V3 α :=
  let value := 1.0 - c.c2
  let saturation := if isValidDivisor value then 1.0 - (c.c1 / value) else 0.0
  ⟨c.c0, saturation, value⟩

end Ok
