/-
  Shared vocabulary of the colour-space models.  A colour is its component triple **in the field order of the Rust
  struct** (the order `palette::cast::into_array` exposes), e.g. `Hsv = (hue, saturation, value)`, `Lch = (l, chroma, hue)`,
  `Yxy = (x, y, luma)`.  Standards, white points and matrices come from `Gen/Matrices.lean`.
-/
import PaletteModel.Scalar
import PaletteModel.Gen.Matrices
import PaletteModel.Color.Transfer

structure V3 (α : Type) where
  c0 : α
  c1 : α
  c2 : α
deriving Repr

namespace V3
def toList {α} (v : V3 α) : List α := [v.c0, v.c1, v.c2]
def ofList? {α} : List α → Option (V3 α)
  | [a, b, c] => some ⟨a, b, c⟩
  | _ => none
def map {α β} (f : α → β) (v : V3 α) : V3 β := ⟨f v.c0, f v.c1, f v.c2⟩
end V3

/-- row-major 3×3 matrix, as `Mat3<T> = [T; 9]` -/
structure M3 (α : Type) where
  m0 : α
  m1 : α
  m2 : α
  m3 : α
  m4 : α
  m5 : α
  m6 : α
  m7 : α
  m8 : α

namespace M3
variable {α : Type} [Scalar α]

/-- `matrix::multiply_3x3_and_vec3` (same association: `(x1 + x2) + x3`) -/
def mulVec (m : M3 α) (v : V3 α) : V3 α :=
  ⟨m.m0 * v.c0 + m.m1 * v.c1 + m.m2 * v.c2,
   m.m3 * v.c0 + m.m4 * v.c1 + m.m5 * v.c2,
   m.m6 * v.c0 + m.m7 * v.c1 + m.m8 * v.c2⟩

/-- `matrix::multiply_3x3` -/
def mul (c f : M3 α) : M3 α :=
  ⟨c.m0 * f.m0 + c.m1 * f.m3 + c.m2 * f.m6, c.m0 * f.m1 + c.m1 * f.m4 + c.m2 * f.m7, c.m0 * f.m2 + c.m1 * f.m5 + c.m2 * f.m8,
   c.m3 * f.m0 + c.m4 * f.m3 + c.m5 * f.m6, c.m3 * f.m1 + c.m4 * f.m4 + c.m5 * f.m7, c.m3 * f.m2 + c.m4 * f.m5 + c.m5 * f.m8,
   c.m6 * f.m0 + c.m7 * f.m3 + c.m8 * f.m6, c.m6 * f.m1 + c.m7 * f.m4 + c.m8 * f.m7, c.m6 * f.m2 + c.m7 * f.m5 + c.m8 * f.m8⟩

/-- `T::from_f64` applied to nine constants (`matrix_map(m, T::from_f64)`); a malformed table reads as zeros, which the
    theorems about the generated tables exclude -/
def ofK : List K → M3 α
  | [a, b, c, d, e, f, g, h, i] => ⟨Scalar.const a, Scalar.const b, Scalar.const c, Scalar.const d, Scalar.const e, Scalar.const f, Scalar.const g, Scalar.const h, Scalar.const i⟩
  | _ => ⟨0.0, 0.0, 0.0, 0.0, 0.0, 0.0, 0.0, 0.0, 0.0⟩
end M3

namespace Color
variable {α : Type} [Scalar α]

def v3OfK : List K → V3 α
  | [a, b, c] => ⟨Scalar.const a, Scalar.const b, Scalar.const c⟩
  | _ => ⟨0.0, 0.0, 0.0⟩

/-- `Wp::get_xyz()` -/
def whitePoint (name : String) : V3 α :=
  match Gen.Mat.whitePoints.find? (·.1 == name) with
  | some (_, ks) => v3OfK ks
  | none => ⟨0.0, 0.0, 0.0⟩

structure RgbSpaceData where
  name : String
  wp : String
  rgbToXyz : List K
  xyzToRgb : List K
  primaries : List (List K)

def rgbSpace? (name : String) : Option RgbSpaceData :=
  (Gen.Mat.rgbSpaces.find? (·.1 == name)).map fun (n, w, a, b, p) => ⟨n, w, a, b, p⟩

/-- an RGB standard as the harness names it: (space, transfer function).  `Linear<S>` keeps the space and uses the identity. -/
def standard? (name : String) : Option (String × Transfer.Fn) :=
  match name with
  | "Srgb" => some ("Srgb", .srgb)
  | "LinSrgb" => some ("Srgb", .linear)
  | "Rec709" => some ("Srgb", .recOetf)
  | "Rec2020" => some ("Rec2020", .recOetf)
  | "LinRec2020" => some ("Rec2020", .linear)
  | "AdobeRgb" => some ("AdobeRgb", .adobeRgb)
  | "LinAdobeRgb" => some ("AdobeRgb", .linear)
  | "DisplayP3" => some ("DisplayP3", .srgb)
  | "LinDisplayP3" => some ("DisplayP3", .linear)
  | "DciP3" => some ("DciP3", .p3Gamma)
  | "LinDciP3" => some ("DciP3", .linear)
  | "ProPhotoRgb" => some ("ProPhotoRgb", .prophoto)
  | "LinProPhotoRgb" => some ("ProPhotoRgb", .linear)
  | "GammaSrgb" => some ("Srgb", .gamma22)
  | _ => none

end Color
