/-
  Generic float transfer curves: `impl IntoLinear<T, T>` / `FromLinear<T, T>` of
  `encoding/{srgb,rec_standards,adobe,p3,prophoto,gamma,linear}.rs`, expression for expression.
-/
import PaletteModel.Scalar

namespace Transfer
open Scalar
variable {α : Type} [Scalar α]

/-- the curves palette implements -/
inductive Fn | srgb | recOetf | adobeRgb | p3Gamma | prophoto | gamma22 | linear
deriving DecidableEq, Repr

def ALPHA : K := 1.09929682680944
def BETA : K := 0.018053968510807

def srgbIntoLinear (x : α) : α :=
  if x ≤ 0.04045 then const (1.0 / 12.92) * x
  else powf (mulAdd x (const (1.0 / 1.055)) (const (0.055 / 1.055))) 2.4

def srgbFromLinear (x : α) : α :=
  if x ≤ 0.0031308 then 12.92 * x
  else mulSub (powf x (const (1.0 / 2.4))) 1.055 0.055

def recIntoLinear (x : α) : α :=
  if x < const (4.5 * BETA) then const (1.0 / 4.5) * x
  else powf (mulAdd x (const (1.0 / ALPHA)) (const (1.0 - 1.0 / ALPHA))) (const (1.0 / 0.45))

def recFromLinear (x : α) : α :=
  if x < const BETA then 4.5 * x
  else mulSub (powf x 0.45) (const ALPHA) (const (ALPHA - 1.0))

def adobeIntoLinear (x : α) : α := powf x (const (563.0 / 256.0))
def adobeFromLinear (x : α) : α := powf x (const (256.0 / 563.0))

def p3IntoLinear (x : α) : α := powf x 2.6
def p3FromLinear (x : α) : α := powf x (const (1.0 / 2.6))

def prophotoIntoLinear (x : α) : α :=
  if x < 0.03125 then const (1.0 / 16.0) * x else powf x 1.8
def prophotoFromLinear (x : α) : α :=
  if x < 0.001953125 then 16.0 * x else powf x (const (1.0 / 1.8))

/-- `GammaFn<F2p2>`: `into_linear(x) = x.powf(T::one() / T::from_f64(2.2))`, `from_linear(x) = x.powf(2.2)` -/
def gammaIntoLinear (x : α) : α := powf x (1.0 / 2.2)
def gammaFromLinear (x : α) : α := powf x 2.2

def intoLinear : Fn → α → α
  | .srgb => srgbIntoLinear | .recOetf => recIntoLinear | .adobeRgb => adobeIntoLinear | .p3Gamma => p3IntoLinear
  | .prophoto => prophotoIntoLinear | .gamma22 => gammaIntoLinear | .linear => id
def fromLinear : Fn → α → α
  | .srgb => srgbFromLinear | .recOetf => recFromLinear | .adobeRgb => adobeFromLinear | .p3Gamma => p3FromLinear
  | .prophoto => prophotoFromLinear | .gamma22 => gammaFromLinear | .linear => id

def Fn.ofString? : String → Option Fn
  | "srgb" => some .srgb | "rec" => some .recOetf | "adobe" => some .adobeRgb | "p3" => some .p3Gamma
  | "prophoto" => some .prophoto | "gamma22" => some .gamma22 | "linear" => some .linear | _ => none

end Transfer
