/-
  What the hue code needs beyond `Scalar`: π as `T::from_f64(core::f64::consts::PI)`, `RealAngle::{radians_to_degrees,
  degrees_to_radians}` (= `f32/f64::to_degrees / to_radians`) and `Hypot::hypot`.  A separate small class because the three
  are *per type* in Rust (not expressible as one `K` constant expression evaluated in f64 and rounded):

  * `f64::to_degrees(x) = x * (180.0f64 / PI)`, `f64::to_radians(x) = x * (PI / 180.0)`;
  * `f32::to_degrees(x) = x * 57.2957795130823208767981548141051703_f32` (a literal, "for better precision"),
    `f32::to_radians(x) = x * (PI_f32 / 180.0f32)` (the quotient is computed in `f32`);
  * at ℝ (instance in `PaletteProofs/RealAngle.lean`) `pi` is the real number π — the exact reading of the code's intent;
    with the 16-digit rational instead, `into_cartesian ∘ from_cartesian` would not be the identity.
  * `hypot`: Lean's `Float` has no `hypot`; the `Float`/`Float32` instances transcribe glibc's `hypot`/`hypotf` (libm is a
    parameter of the model with its behaviour written down, DESIGN §2.9-2), at ℝ it is `√(a² + b²)`.

  No Mathlib import (driver links this).
-/
import PaletteModel.Scalar

class Angle (α : Type) where
  /-- `T::from_f64(core::f64::consts::PI)` -/
  pi : α
  /-- `RealAngle::radians_to_degrees` -/
  radToDeg : α → α
  /-- `RealAngle::degrees_to_radians` -/
  degToRad : α → α
  /-- `Hypot::hypot` -/
  hypot : α → α → α

namespace Angle

def piF64 : Float := 3.141592653589793   -- nearest double to π = `core::f64::consts::PI` (0x400921FB54442D18)

/-- glibc ≥ 2.35 `__hypot` (sysdeps/ieee754/dbl-64/e_hypot.c, the kernel without `__FP_FAST_FMA`, which is what the generic
    x86-64 build runs), transcribed: `sqrt(ax² + ay²)` followed by one correction step.  It is *not* always correctly rounded
    (≈1 % of inputs are 1 ulp off), and the Okhsl/Okhsv inverse formulas amplify a 1-ulp change of the chroma beyond the
    driver's 8 ulps, so the model follows the library bit for bit (checked: 0 mismatches on 2520 `Oklab → Oklch` cases). -/
def hypotKernel64 (ax ay : Float) : Float :=
  let h := Float.sqrt (ax * ax + ay * ay)
  let t :=
    if h ≤ 2.0 * ay then
      let delta := h - ay
      (ax * (2.0 * delta - ax), (delta - 2.0 * (ax - ay)) * delta)
    else
      let delta := h - ax
      (2.0 * delta * (ax - 2.0 * ay), (4.0 * delta - ay) * ay + delta * delta)
  h - (t.1 + t.2) / (2.0 * h)

def hypot64 (x y : Float) : Float :=
  if !x.isFinite || !y.isFinite then (if x.isInf || y.isInf then Float.abs (if x.isInf then x else y) else x + y) else
  let x := Float.abs x
  let y := Float.abs y
  let ax := if x < y then y else x
  let ay := if x < y then x else y
  let scale : Float := Float.scaleB 1.0 (-600)
  let eps : Float := Float.scaleB 1.0 (-54)
  if ax > Float.scaleB 1.0 511 then
    if ay ≤ ax * eps then ax + ay else hypotKernel64 (ax * scale) (ay * scale) / scale
  else if ay < Float.scaleB 1.0 (-459) then
    if ax ≥ ay / eps then ax + ay else hypotKernel64 (ax / scale) (ay / scale) * scale
  else if ax ≥ ay / eps then ax + ay
  else hypotKernel64 ax ay

instance : Angle Float where
  pi := piF64
  radToDeg := fun x => x * (180.0 / piF64)
  degToRad := fun x => x * (piF64 / 180.0)
  hypot := hypot64

def piF32 : Float32 := piF64.toFloat32

instance : Angle Float32 where
  pi := piF32
  radToDeg := fun x => x * (57.2957795130823208767981548141051703 : Float).toFloat32
  degToRad := fun x => x * (piF32 / (180.0 : Float).toFloat32)
  -- glibc `__hypotf`: computed in double (`sqrt((double) x * x + (double) y * y)`) and rounded once; 0 mismatches on 2520 cases
  hypot := fun a b =>
    let x := a.toFloat; let y := b.toFloat
    (Float.sqrt (x * x + y * y)).toFloat32

end Angle
