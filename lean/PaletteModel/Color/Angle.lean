/-
  What the hue code needs beyond `Scalar`: π as `T::from_f64(core::f64::consts::PI)`, `RealAngle::{radians_to_degrees,
  degrees_to_radians}` (= `f32/f64::to_degrees / to_radians`) and `Hypot::hypot`.  A separate small class because the three
  are *per type* in Rust (not expressible as one `K` constant expression evaluated in f64 and rounded):

  * `f64::to_degrees(x) = x * (180.0f64 / PI)`, `f64::to_radians(x) = x * (PI / 180.0)`;
  * `f32::to_degrees(x) = x * 57.2957795130823208767981548141051703_f32` (a literal, "for better precision"),
    `f32::to_radians(x) = x * (PI_f32 / 180.0f32)` (the quotient is computed in `f32`);
  * at ℝ (instance in `PaletteProofs/RealAngle.lean`) `pi` is the real number π — the exact reading of the code's intent;
    with the 16-digit rational instead, `into_cartesian ∘ from_cartesian` would not be the identity.
  * `hypot`: Lean's `Float` has no `hypot`; the instances compute `m·sqrt((a/m)² + (b/m)²)` with `m = max |a| |b|` (no
    spurious under/overflow, ≤ 3 ulps from libm's correctly rounded `hypot`; the driver allows 8), at ℝ `√(a² + b²)`.

  No Mathlib import (driver links this).
-/
import PaletteModel.Scalar

class Angle (α : Type) where
  /-- `T::from_f64(core::f64::consts::PI)` -/
  pi : α
  /-- `RealAngle::radians_to_degrees` -/
  radToDeg : α → α
  /-- `RealAngle::degrees_to_radians` -/
  degToRad : α → α
  /-- `Hypot::hypot` -/
  hypot : α → α → α

namespace Angle

def piF64 : Float := 3.141592653589793   -- nearest double to π = `core::f64::consts::PI` (0x400921FB54442D18)

def hypot64 (a b : Float) : Float :=
  let m := if Float.abs a < Float.abs b then Float.abs b else Float.abs a
  if m.isNormalB then
    let x := a / m; let y := b / m
    m * Float.sqrt (x * x + y * y)
  else if a.isNaN || b.isNaN then (if a.isInf || b.isInf then Float.abs (if a.isInf then a else b) else a + b)
  else m   -- 0, subnormal (error ≤ √2−1 relative, never a valid divisor anyway) or infinite

instance : Angle Float where
  pi := piF64
  radToDeg := fun x => x * (180.0 / piF64)
  degToRad := fun x => x * (piF64 / 180.0)
  hypot := hypot64

def piF32 : Float32 := piF64.toFloat32

instance : Angle Float32 where
  pi := piF32
  radToDeg := fun x => x * (57.2957795130823208767981548141051703 : Float).toFloat32
  degToRad := fun x => x * (piF32 / (180.0 : Float).toFloat32)
  -- computed in double and rounded once: within 1 ulp of `hypotf`
  hypot := fun a b =>
    let x := a.toFloat; let y := b.toFloat
    (Float.sqrt (x * x + y * y)).toFloat32

end Angle
