/-
  RGB family: Rgb, Hsv, Hsl, Hwb, Luma and their edges to Xyz / Yxy — every hand-written `FromColorUnclamped` edge,
  expression for expression.  Component order = struct field order:
    Rgb = (red, green, blue), Hsv = (hue, saturation, value), Hsl = (hue, saturation, lightness),
    Hwb = (hue, whiteness, blackness), Luma = (luma) carried as `(luma, 0, 0)`.
  `T::zero()` / `T::one()` are the literals `0.0` / `1.0`; hues are the raw degrees the code stores.
-/
import PaletteModel.Color.Basic
import PaletteModel.Color.Cie

namespace RgbFam
open Scalar
variable {α : Type} [Scalar α]

/-! ### RGB standards (type-level data of `RgbStandard` / `RgbSpace` / `LumaStandard`) -/

/-- an RGB (or luma) standard: its type name, the name of its `Space` (every space in the crate is its own `Primaries`
    type, so "same primaries" is "same space name"), its `TransferFn`, the white point and the two hard-coded matrices
    `RgbSpace::{rgb_to_xyz_matrix, xyz_to_rgb_matrix}` (all `Some` — `extract.py` fails otherwise). -/
structure Std where
  name : String
  space : String
  tf : Transfer.Fn
  wp : String
  toXyz : List K
  fromXyz : List K

def Std.of? (name : String) : Option Std :=
  match Color.standard? name with
  | none => none
  | some (sp, tf) =>
    match Color.rgbSpace? sp with
    | none => none
    | some d => some ⟨name, sp, tf, d.wp, d.rgbToXyz, d.xyzToRgb⟩

/-! ### Rgb ↔ Xyz (xyz.rs:263, rgb/rgb.rs:845) -/

/-- `Rgb::into_linear`: the transfer function on each component -/
def intoLinear (tf : Transfer.Fn) (c : V3 α) : V3 α := c.map (Transfer.intoLinear tf)
/-- `Rgb::from_linear` -/
def fromLinear (tf : Transfer.Fn) (c : V3 α) : V3 α := c.map (Transfer.fromLinear tf)

/-- `Xyz::matrix_from_rgb::<Linear<S::Space>>().convert_once(color.into_linear())`:
    `matrix_map(Some(matrix), T::Scalar::from_f64)`, `matrix_map(_, T::from_scalar)` (identity / splat), then
    `multiply_3x3_and_vec3`. -/
def rgbToXyz (m : List K) (tf : Transfer.Fn) (c : V3 α) : V3 α := (M3.ofK m).mulVec (intoLinear tf c)

/-- `Self::from_linear(Rgb::<Linear<S::Space>, T>::matrix_from_xyz().convert_once(color))` -/
def xyzToRgb (m : List K) (tf : Transfer.Fn) (c : V3 α) : V3 α := fromLinear tf ((M3.ofK m).mulVec c)

/-- `impl FromColorUnclamped<Rgb<S2,T>> for Rgb<S1,T>` (rgb/rgb.rs:821): `src = S2`, `dst = S1`.
    same standard → reinterpret; same primaries → transfer functions only; else through `Xyz`. -/
def rgbToRgb (src dst : Std) (c : V3 α) : V3 α :=
  if src.name == dst.name then c
  else if src.space == dst.space then fromLinear dst.tf (intoLinear src.tf c)
  else xyzToRgb dst.fromXyz dst.tf (rgbToXyz src.toXyz src.tf c)

/-! ### Rgb → Hsv / Hsl (hsv.rs:269, hsl.rs:269) -/

/-- `rgb.red.max(T::zero())` -/
def max0 (x : α) : α := Scalar.max x 0.0

structure MaxMin (α : Type) where
  max : α
  min : α
  sep : α
  coeff : α

/-- the `(max, min, sep, coeff)` block shared by the scalar branches of `Hsv`/`Hsl` from `Rgb` -/
def maxMinSep (red green blue : α) : MaxMin α :=
  let p : MaxMin α := if green < red then ⟨red, green, green - blue, 0.0⟩ else ⟨green, red, blue - red, 2.0⟩
  if p.max < blue then ⟨blue, p.min, red - green, 4.0⟩
  else ⟨p.max, if blue < p.min then blue else p.min, p.sep, p.coeff⟩

/-- scalar branch (`T::Mask == bool`) of `Hsv ← Rgb` -/
def rgbToHsv (c : V3 α) : V3 α :=
  let red := max0 c.c0
  let green := max0 c.c1
  let blue := max0 c.c2
  let p := maxMinSep red green blue
  if ¬ eqv p.max p.min then
    let d := p.max - p.min
    let h := (p.sep / d + p.coeff) * 60.0
    let s := d / p.max
    ⟨h, s, p.max⟩
  else ⟨0.0, 0.0, p.max⟩

/-- the branch-free hue of the mask-generic branches (Kobalicek & Bliznak), multiplied by 6, already reduced to `[0,6)` -/
def maskHue (red green blue value chroma : α) : α :=
  let six : α := 6.0
  let x : Bool := decide (¬ eqv value red)
  let y : Bool := decide (eqv value red) || decide (¬ eqv value green)
  let z : Bool := decide (eqv value red) || decide (eqv value green)
  let hueBase := (if x then (if z then -4.0 else 4.0) else 0.0) + six
  let redM := if x then (if y then red else -red) else 0.0
  let greenM := if y then (if z then green else -green) else 0.0
  let blueM := if z then (if y then -blue else blue) else 0.0
  let hue := if eqv chroma 0.0 then 0.0 else hueBase + (redM + greenM + blueM) / chroma
  let hueSub := if six ≤ hue then six else 0.0
  hue - hueSub

/-- mask-generic branch of `Hsv ← Rgb` (what `wide::f32x4` etc. run, lane by lane) -/
def rgbToHsvMask (c : V3 α) : V3 α :=
  let red := max0 c.c0
  let green := max0 c.c1
  let blue := max0 c.c2
  let value := Scalar.max (Scalar.max red green) blue
  let min := Scalar.min (Scalar.min red green) blue
  let chroma := value - min
  let saturation := if eqv chroma 0.0 then 0.0 else chroma / value
  let hue := maskHue red green blue value chroma
  ⟨hue * 60.0, saturation, value⟩

/-- scalar branch of `Hsl ← Rgb` -/
def rgbToHsl (c : V3 α) : V3 α :=
  let red := max0 c.c0
  let green := max0 c.c1
  let blue := max0 c.c2
  let p := maxMinSep red green blue
  let sum := p.max + p.min
  let l := sum / 2.0
  if ¬ eqv p.max p.min then
    let d := p.max - p.min
    -- `(1 − max) + (1 − min)` instead of `2 − sum` (repair: `2 − sum` rounds to 0 next to white);
    -- saturation 0 when the selected divisor is 0 (repair c404fc5: out-of-gamut `max = 1 + δ`, `min = 1 − δ`)
    let divisor := if 1.0 < sum then (1.0 - p.max) + (1.0 - p.min) else sum
    let s := if eqv divisor 0.0 then 0.0 else d / divisor
    let h := (p.sep / d + p.coeff) * 60.0
    ⟨h, s, l⟩
  else ⟨0.0, 0.0, l⟩

/-- mask-generic branch of `Hsl ← Rgb` -/
def rgbToHslMask (c : V3 α) : V3 α :=
  let red := max0 c.c0
  let green := max0 c.c1
  let blue := max0 c.c2
  let max := Scalar.max (Scalar.max red green) blue
  let min := Scalar.min (Scalar.min red green) blue
  let sum := max + min
  let lightness := 0.5 * sum
  let chroma := max - min
  -- saturation 0 also when the selected divisor is 0 (repair c404fc5, as in the scalar branch)
  let divisor := if 1.0 < sum then (1.0 - max) + (1.0 - min) else sum
  let saturation := if decide (eqv min max) || decide (eqv divisor 0.0) then 0.0 else chroma / divisor
  let hue := maskHue red green blue max chroma
  ⟨hue * 60.0, saturation, lightness⟩

/-! ### Hsv / Hsl → Rgb (rgb/rgb.rs:867-976) -/

/-- `UnsignedAngle::normalize_unsigned_angle` (`RgbHue::into_positive_degrees`) -/
def normalizeUnsigned (h : α) : α := h - (floor (h / 360.0) * 360.0)

/-- the zone selection written out (identically) in both `Rgb ← Hsl` and `Rgb ← Hsv`; `h` = hue / 60 -/
def zones (h c x m : α) : V3 α :=
  let z0 : Bool := decide (0.0 ≤ h) && decide (h < 1.0)
  let z1 : Bool := decide (1.0 ≤ h) && decide (h < 2.0)
  let z2 : Bool := decide (2.0 ≤ h) && decide (h < 3.0)
  let z3 : Bool := decide (3.0 ≤ h) && decide (h < 4.0)
  let z4 : Bool := decide (4.0 ≤ h) && decide (h < 5.0)
  let red := if z1 || z4 then x else if z2 || z3 then 0.0 else c
  let green := if z0 || z3 then x else if z1 || z2 then c else 0.0
  let blue := if z0 || z1 then 0.0 else if z3 || z4 then c else x
  ⟨red + m, green + m, blue + m⟩

/-- `h_mod_two = h − floor(h·0.5)·2`, `x = c·(1 − |h_mod_two − 1|)` -/
def hexX (h c : α) : α :=
  let hModTwo := h - floor (h * 0.5) * 2.0
  c * (1.0 - abs (hModTwo - 1.0))

def hsvToRgb (c : V3 α) : V3 α :=
  let hue := c.c0; let saturation := c.c1; let value := c.c2
  let ch := value * saturation
  let h := normalizeUnsigned hue / 60.0
  let x := hexX h ch
  let m := value - ch
  zones h ch x m

def hslToRgb (c : V3 α) : V3 α :=
  let hue := c.c0; let saturation := c.c1; let lightness := c.c2
  let ch := (1.0 - abs (lightness * 2.0 - 1.0)) * saturation
  let h := normalizeUnsigned hue / 60.0
  let x := hexX h ch
  let m := lightness - ch * 0.5
  zones h ch x m

/-! ### Hsl ↔ Hsv direct (hsv.rs:394, hsl.rs:403), Hsv ↔ Hwb (hwb.rs:275, hsv.rs:423) -/

def hslToHsv (c : V3 α) : V3 α :=
  let hue := c.c0; let saturation := c.c1; let lightness := c.c2
  let x := (if lightness < 0.5 then lightness else 1.0 - lightness) * saturation
  let value := lightness + x
  let s := if isValidDivisor value then x * 2.0 / value else 0.0
  ⟨hue, s, value⟩

def hsvToHsl (c : V3 α) : V3 α :=
  let hue := c.c0; let saturation := c.c1; let value := c.c2
  let x := (2.0 - saturation) * value
  let s :=
    if ¬ isValidDivisor value then 0.0
    else if x < 1.0 then (if isValidDivisor x then saturation * value / x else 0.0)
    else
      let denom := 2.0 - x
      if isValidDivisor denom then saturation * value / denom else 0.0
  ⟨hue, s, x / 2.0⟩

def hsvToHwb (c : V3 α) : V3 α :=
  ⟨c.c0, (1.0 - c.c1) * c.c2, 1.0 - c.c2⟩

def hwbToHsv (c : V3 α) : V3 α :=
  let hue := c.c0; let whiteness := c.c1; let blackness := c.c2
  let value := 1.0 - blackness
  let s := if isValidDivisor value then 1.0 - (whiteness / value) else 0.0
  ⟨hue, s, value⟩

/-! ### standard-changing Hsl → Hsl, Hsv → Hsv, Hwb → Hwb (TypeId equal → reinterpret, else via Rgb / Hsv) -/

/-- `impl FromColorUnclamped<Hsv<S1,T>> for Hsv<S2,T>`: `src = S1`, `dst = S2` -/
def hsvToHsv (src dst : Std) (c : V3 α) : V3 α :=
  if src.name == dst.name then c else rgbToHsv (rgbToRgb src dst (hsvToRgb c))

def hslToHsl (src dst : Std) (c : V3 α) : V3 α :=
  if src.name == dst.name then c else rgbToHsl (rgbToRgb src dst (hslToRgb c))

def hwbToHwb (src dst : Std) (c : V3 α) : V3 α :=
  if src.name == dst.name then c else hsvToHwb (hsvToHsv src dst (hwbToHsv c))

/-! ### Luma (luma/luma.rs:516-560, xyz.rs:393, yxy.rs:201, rgb/rgb.rs:978); a luma is carried as `(luma, 0, 0)` -/

def ofLuma (l : α) : V3 α := ⟨l, 0.0, 0.0⟩

/-- `impl FromColorUnclamped<Luma<S2,T>> for Luma<S1,T>`: same standard → reinterpret, else transfer functions -/
def lumaToLuma (src dst : Std) (c : V3 α) : V3 α :=
  if src.name == dst.name then ofLuma c.c0
  else ofLuma (Transfer.fromLinear dst.tf (Transfer.intoLinear src.tf c.c0))

/-- `Luma ← Xyz`: `from_linear(color.y)` -/
def xyzToLuma (dst : Std) (c : V3 α) : V3 α := ofLuma (Transfer.fromLinear dst.tf c.c1)
/-- `Luma ← Yxy`: `from_linear(color.luma)` -/
def yxyToLuma (dst : Std) (c : V3 α) : V3 α := ofLuma (Transfer.fromLinear dst.tf c.c2)

/-- `Xyz ← Luma`: `Wp::get_xyz() * color.into_linear().luma` (component `* c`) -/
def lumaToXyz (src : Std) (c : V3 α) : V3 α :=
  let w : V3 α := Color.whitePoint src.wp
  let l := Transfer.intoLinear src.tf c.c0
  ⟨w.c0 * l, w.c1 * l, w.c2 * l⟩

/-- `Yxy ← Luma`: `Yxy { luma: luma.into_linear().luma, ..Default::default() }`, the default being the white point
    pushed through `Yxy ← Xyz` -/
def lumaToYxy (src : Std) (c : V3 α) : V3 α :=
  let d := Cie.xyzToYxy (Color.whitePoint src.wp : V3 α)
  ⟨d.c0, d.c1, Transfer.intoLinear src.tf c.c0⟩

/-- `Rgb ← Luma`: equal `TransferFn` types → copy the encoded value, else decode and re-encode -/
def lumaToRgb (src dst : Std) (c : V3 α) : V3 α :=
  if src.tf = dst.tf then ⟨c.c0, c.c0, c.c0⟩
  else
    let l := Transfer.intoLinear src.tf c.c0
    fromLinear dst.tf ⟨l, l, l⟩

end RgbFam

/-! ### `matrix.rs` over plain arithmetic (no `Scalar` needed): `matrix_inverse`, `multiply_3x3`, `rgb_to_xyz_matrix`.
    None of the RGB spaces in the crate takes this path at run time (all have hard-coded matrices); the functions are
    modelled so that the hard-coded tables can be compared, over `Rat`, with what the crate itself would derive. -/
namespace MatArith
variable {β : Type} [Add β] [Sub β] [Mul β] [Div β] [Neg β] [OfScientific β]

def ofK (ks : List K) : List β := ks.map K.eval

def m3? : List β → Option (M3 β)
  | [a, b, c, d, e, f, g, h, i] => some ⟨a, b, c, d, e, f, g, h, i⟩
  | _ => none

def toList (m : M3 β) : List β := [m.m0, m.m1, m.m2, m.m3, m.m4, m.m5, m.m6, m.m7, m.m8]

/-- `multiply_3x3_and_vec3` -/
def mulVec (m : M3 β) (v : V3 β) : V3 β :=
  ⟨m.m0 * v.c0 + m.m1 * v.c1 + m.m2 * v.c2, m.m3 * v.c0 + m.m4 * v.c1 + m.m5 * v.c2, m.m6 * v.c0 + m.m7 * v.c1 + m.m8 * v.c2⟩

/-- `multiply_3x3` -/
def mul (c f : M3 β) : M3 β :=
  ⟨c.m0 * f.m0 + c.m1 * f.m3 + c.m2 * f.m6, c.m0 * f.m1 + c.m1 * f.m4 + c.m2 * f.m7, c.m0 * f.m2 + c.m1 * f.m5 + c.m2 * f.m8,
   c.m3 * f.m0 + c.m4 * f.m3 + c.m5 * f.m6, c.m3 * f.m1 + c.m4 * f.m4 + c.m5 * f.m7, c.m3 * f.m2 + c.m4 * f.m5 + c.m5 * f.m8,
   c.m6 * f.m0 + c.m7 * f.m3 + c.m8 * f.m6, c.m6 * f.m1 + c.m7 * f.m4 + c.m8 * f.m7, c.m6 * f.m2 + c.m7 * f.m5 + c.m8 * f.m8⟩

/-- `matrix_inverse` (the `is_valid_divisor` panic is a separate, decided fact: the determinants are non-zero) -/
def det (a : M3 β) : β :=
  let d0 := a.m4 * a.m8 - a.m5 * a.m7
  let d1 := a.m3 * a.m8 - a.m5 * a.m6
  let d2 := a.m3 * a.m7 - a.m4 * a.m6
  a.m0 * d0 - a.m1 * d1 + a.m2 * d2

def inverse (a : M3 β) : M3 β :=
  let d0 := a.m4 * a.m8 - a.m5 * a.m7
  let d1 := a.m3 * a.m8 - a.m5 * a.m6
  let d2 := a.m3 * a.m7 - a.m4 * a.m6
  let det := a.m0 * d0 - a.m1 * d1 + a.m2 * d2
  let d3 := a.m1 * a.m8 - a.m2 * a.m7
  let d4 := a.m0 * a.m8 - a.m2 * a.m6
  let d5 := a.m0 * a.m7 - a.m1 * a.m6
  let d6 := a.m1 * a.m5 - a.m2 * a.m4
  let d7 := a.m0 * a.m5 - a.m2 * a.m3
  let d8 := a.m0 * a.m4 - a.m1 * a.m3
  let det := 1.0 / det
  ⟨d0 * det, -d3 * det, d6 * det, -d1 * det, d4 * det, -d7 * det, d2 * det, -d5 * det, d8 * det⟩

/-- `Xyz ← Yxy` on a primary (its `y` is a valid divisor — decided on the table) -/
def primaryXyz (p : V3 β) : V3 β := ⟨p.c0 / p.c1 * p.c2, 1.0 * p.c2, (1.0 - p.c0 - p.c1) / p.c1 * p.c2⟩

/-- `rgb_to_xyz_matrix::<S, T>()` from the primaries (as `Yxy`) and the white point -/
def rgbToXyzMatrix (red green blue wp : V3 β) : M3 β :=
  let r := primaryXyz red
  let g := primaryXyz green
  let b := primaryXyz blue
  let matrix : M3 β := ⟨r.c0, g.c0, b.c0, r.c1, g.c1, b.c1, r.c2, g.c2, b.c2⟩
  let s := mulVec (inverse matrix) wp
  ⟨matrix.m0 * s.c0, matrix.m1 * s.c1, matrix.m2 * s.c2,
   matrix.m3 * s.c0, matrix.m4 * s.c1, matrix.m5 * s.c2,
   matrix.m6 * s.c0, matrix.m7 * s.c1, matrix.m8 * s.c2⟩

end MatArith
