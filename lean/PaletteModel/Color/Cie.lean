/-
  CIE family: Xyz, Yxy, Lab, Lch, Luv, Lchuv, Hsluv, Lms — every hand-written `FromColorUnclamped` edge,
  expression for expression.  Component order = struct field order.
-/
import PaletteModel.Color.Basic

namespace Cie
open Scalar
variable {α : Type} [Scalar α]

/-- `impl FromColorUnclamped<Xyz<Wp,T>> for Yxy<Wp,T>` (yxy.rs) — result `(x, y, luma)` -/
def xyzToYxy (c : V3 α) : V3 α :=
  let sum := c.c0 + c.c1 + c.c2
  if isValidDivisor sum then ⟨c.c0 / sum, c.c1 / sum, c.c1⟩ else ⟨0.0, 0.0, c.c1⟩

/-- `impl FromColorUnclamped<Yxy<Wp,T>> for Xyz<Wp,T>` (xyz.rs): `Xyz{x/y, 1, (1−x−y)/y} * luma` -/
def yxyToXyz (c : V3 α) : V3 α :=
  let x := c.c0; let y := c.c1; let luma := c.c2
  if isValidDivisor y then ⟨x / y * luma, 1.0 * luma, (1.0 - x - y) / y * luma⟩
  else ⟨0.0 * luma, 1.0 * luma, 0.0 * luma⟩

end Cie
