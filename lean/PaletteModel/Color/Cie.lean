/-
  CIE family: Xyz, Yxy, Lab, Lch, Luv, Lchuv, Hsluv, Lms — every hand-written `FromColorUnclamped` edge,
  expression for expression.  Component order = struct field order:
  `Lab = (l, a, b)`, `Lch = (l, chroma, hue)`, `Luv = (l, u, v)`, `Lchuv = (l, chroma, hue)`, `Hsluv = (hue, saturation, l)`,
  `Lms = (long, medium, short)`, `Yxy = (x, y, luma)`.  Hues are the stored raw degrees.
-/
import PaletteModel.Color.Basic
import PaletteModel.Color.Angle

/-- `luv_bounds.rs` works in `f64` whatever the component type is: `l.into()`, `hue.into_raw_radians().into()` on the way in,
    `T::from_f64(min_chroma)` on the way out.  `β` is the type that computation runs in (`Float` for `Float32` and `Float`,
    `ℝ` for `ℝ`). -/
class ViaF64 (α : Type) (β : outParam Type) where
  /-- `Into<f64>` -/
  up : α → β
  /-- `T::from_f64` -/
  down : β → α

instance : ViaF64 Float Float := ⟨id, id⟩
instance : ViaF64 Float32 Float := ⟨Float32.toFloat, Float.toFloat32⟩

namespace Cie
open Scalar
variable {α : Type} [Scalar α]

/-- `Powi::powi(self, 3)` for `f32`/`f64` (`llvm.powi`, expanded to two multiplications; `x*(x*x)` and `(x*x)*x` are the same float) -/
def cube (x : α) : α := x * x * x
/-- `Recip::recip` = `1 / self` -/
def recip (x : α) : α := 1.0 / x

/-- `impl FromColorUnclamped<Xyz<Wp,T>> for Yxy<Wp,T>` (yxy.rs) — result `(x, y, luma)` -/
def xyzToYxy (c : V3 α) : V3 α :=
  let sum := c.c0 + c.c1 + c.c2
  if isValidDivisor sum then ⟨c.c0 / sum, c.c1 / sum, c.c1⟩ else ⟨0.0, 0.0, c.c1⟩

/-- `impl FromColorUnclamped<Yxy<Wp,T>> for Xyz<Wp,T>` (xyz.rs): `Xyz{x/y, 1, (1−x−y)/y} * luma` -/
def yxyToXyz (c : V3 α) : V3 α :=
  let x := c.c0; let y := c.c1; let luma := c.c2
  if isValidDivisor y then ⟨x / y * luma, 1.0 * luma, (1.0 - x - y) / y * luma⟩
  else ⟨0.0 * luma, 1.0 * luma, 0.0 * luma⟩

/-! ### Xyz ↔ Lab -/

/-- the closure `convert` of `impl FromColorUnclamped<Xyz> for Lab` (lab.rs) -/
def labF (c : α) : α :=
  let epsilon : α := cube (const (6.0 / 29.0))
  let kappa : α := const (841.0 / 108.0)
  let delta : α := const (4.0 / 29.0)
  if epsilon < c then cbrt c else kappa * c + delta

/-- `impl FromColorUnclamped<Xyz<Wp,T>> for Lab<Wp,T>` (lab.rs); `wp = Wp::get_xyz()` -/
def xyzToLab (wp : V3 α) (c : V3 α) : V3 α :=
  let x := labF (c.c0 / wp.c0)
  let y := labF (c.c1 / wp.c1)
  let z := labF (c.c2 / wp.c2)
  ⟨y * 116.0 - 16.0, (x - y) * 500.0, (y - z) * 200.0⟩

/-- the closure `convert` of `impl FromColorUnclamped<Lab> for Xyz` (xyz.rs) -/
def labFInv (c : α) : α :=
  let epsilon : α := const (6.0 / 29.0)
  let kappa : α := const (108.0 / 841.0)
  let delta : α := const (4.0 / 29.0)
  if epsilon < c then cube c else (c - delta) * kappa

/-- `impl FromColorUnclamped<Lab<Wp,T>> for Xyz<Wp,T>` (xyz.rs) -/
def labToXyz (wp : V3 α) (c : V3 α) : V3 α :=
  let y := (c.c0 + 16.0) * recip 116.0
  let x := y + c.c1 * recip 500.0
  let z := y - c.c2 * recip 200.0
  ⟨labFInv x * wp.c0, labFInv y * wp.c1, labFInv z * wp.c2⟩

/-! ### cartesian ↔ polar (hues.rs) -/
variable [Angle α]

/-- `LabHue::from_cartesian(a, b)` / `LuvHue::from_cartesian(u, v)`: `from_radians(π + atan2(−b, −a))`, stored in degrees -/
def hueFromCartesian (a b : α) : α := Angle.radToDeg (Angle.pi + atan2 (-b) (-a))

/-- `impl FromColorUnclamped<Lab<Wp,T>> for Lch<Wp,T>` (lch.rs) — `(l, chroma, hue)` -/
def labToLch (c : V3 α) : V3 α := ⟨c.c0, Angle.hypot c.c1 c.c2, hueFromCartesian c.c1 c.c2⟩

/-- `impl FromColorUnclamped<Lch<Wp,T>> for Lab<Wp,T>` (lab.rs): `(a, b) = hue.into_cartesian()` = `(cos, sin)` of the raw radians -/
def lchToLab (c : V3 α) : V3 α :=
  let r := Angle.degToRad c.c2
  let a := cos r; let b := sin r
  let chroma := Scalar.max c.c1 0.0
  ⟨c.c0, a * chroma, b * chroma⟩

/-- `impl FromColorUnclamped<Luv<Wp,T>> for Lchuv<Wp,T>` (lchuv.rs) -/
def luvToLchuv (c : V3 α) : V3 α := ⟨c.c0, Angle.hypot c.c1 c.c2, hueFromCartesian c.c1 c.c2⟩

/-- `impl FromColorUnclamped<Lchuv<Wp,T>> for Luv<Wp,T>` (luv.rs): `Luv::new(l, chroma * cos, chroma * sin)` -/
def lchuvToLuv (c : V3 α) : V3 α :=
  let r := Angle.degToRad c.c2
  let sinHue := sin r; let cosHue := cos r
  let chroma := Scalar.max c.c1 0.0
  ⟨c.c0, chroma * cosHue, chroma * sinHue⟩

/-! ### Xyz ↔ Luv -/

/-- `impl FromColorUnclamped<Xyz<Wp,T>> for Luv<Wp,T>` (luv.rs) -/
def xyzToLuv (w : V3 α) (c : V3 α) : V3 α :=
  let kappa : α := cube (const (29.0 / 3.0))
  let epsilon : α := cube (const (6.0 / 29.0))
  let primeDenom := c.c0 + 15.0 * c.c1 + 3.0 * c.c2
  if eqv primeDenom 0.0 then ⟨0.0, 0.0, 0.0⟩ else
  let primeDenomRecip := recip primeDenom
  let primeRefDenomRecip := recip (w.c0 + 15.0 * w.c1 + 3.0 * w.c2)
  let uPrime := 4.0 * c.c0 * primeDenomRecip
  let uRefPrime := 4.0 * w.c0 * primeRefDenomRecip
  let vPrime := 9.0 * c.c1 * primeDenomRecip
  let vRefPrime := 9.0 * w.c1 * primeRefDenomRecip
  let yR := c.c1 / w.c1
  let l := if epsilon < yR then 116.0 * powf yR (const (1.0 / 3.0)) - 16.0 else kappa * yR
  ⟨l, 13.0 * l * (uPrime - uRefPrime), 13.0 * l * (vPrime - vRefPrime)⟩

/-- `impl FromColorUnclamped<Luv<Wp,T>> for Xyz<Wp,T>` (xyz.rs) -/
def luvToXyz (w : V3 α) (c : V3 α) : V3 α :=
  let kappa : α := cube (const (29.0 / 3.0))
  let refDenomRecip := recip (w.c0 + 15.0 * w.c1 + 3.0 * w.c2)
  let uRef := 4.0 * w.c0 * refDenomRecip
  let vRef := 9.0 * w.c1 * refDenomRecip
  if c.c0 < 1e-5 then ⟨0.0, 0.0, 0.0⟩ else
  let y := (if 8.0 < c.c0 then cube ((c.c0 + 16.0) * recip 116.0) else c.c0 * recip kappa) * w.c1
  let uPrime := c.c1 / (13.0 * c.c0) + uRef
  let vPrime := c.c2 / (13.0 * c.c0) + vRef
  let x := y * 2.25 * uPrime / vPrime
  let z := y * (3.0 - 0.75 * uPrime - 5.0 * vPrime) / vPrime
  ⟨x, y, z⟩

/-! ### HSLuv: `luv_bounds.rs` (always in `f64`, see `ViaF64`) -/

structure BoundaryLine (β : Type) where
  slope : β
  intercept : β

section bounds
variable {β : Type} [Scalar β]

/-- the closure `line` of `LuvBounds::from_lightness`; `m` = row `c` of `M` (`Gen.Mat.hsluvM`) -/
def boundaryLine (m0 m1 m2 l sub2 t : β) : BoundaryLine β :=
  let top1 := (284517.0 * m0 - 94839.0 * m2) * sub2
  let top2 := (838422.0 * m2 + 769860.0 * m1 + 731718.0 * m0) * l * sub2 - 769860.0 * t * l
  let bottom := (632260.0 * m2 - 126452.0 * m1) * sub2 + 126452.0 * t
  ⟨top1 / bottom, top2 / bottom⟩

/-- `LuvBounds::from_lightness` (constants `M`, `KAPPA`, `EPSILON` extracted into `Gen.Mat`) -/
def luvBounds (l : β) : List (BoundaryLine β) :=
  let sub1 := cube (l + 16.0) / 1560896.0
  let sub2 := if (const Gen.Mat.hsluvEpsilon : β) < sub1 then sub1 else l / const Gen.Mat.hsluvKappa
  let m : M3 β := M3.ofK Gen.Mat.hsluvM
  [boundaryLine m.m0 m.m1 m.m2 l sub2 0.0, boundaryLine m.m0 m.m1 m.m2 l sub2 1.0,
   boundaryLine m.m3 m.m4 m.m5 l sub2 0.0, boundaryLine m.m3 m.m4 m.m5 l sub2 1.0,
   boundaryLine m.m6 m.m7 m.m8 l sub2 0.0, boundaryLine m.m6 m.m7 m.m8 l sub2 1.0]

/-- one step of the loop of `max_chroma_at_hue` with `intersect_length_at_angle` inlined:
    `denom = sin θ − slope·cos θ`; `Some(intercept/denom)` iff `|denom| > 1e-6`; kept iff `t ≥ 0 ∧ min > t` -/
def chromaStep (theta : β) (minChroma : β) (b : BoundaryLine β) : β :=
  let sinTheta := sin theta; let cosTheta := cos theta
  let denom := sinTheta - b.slope * cosTheta
  if 1.0e-6 < abs denom then
    let t := b.intercept / denom
    if 0.0 ≤ t ∧ t < minChroma then t else minChroma
  else minChroma

/-- `f64::MAX` -/
def f64Max : β := 1.7976931348623157e308

/-- `LuvBounds::from_lightness(l).max_chroma_at_hue(hue)` on the `f64` side (`theta` = raw radians) -/
def maxChromaAtHue (l theta : β) : β := (luvBounds l).foldl (chromaStep theta) f64Max
end bounds

variable {β : Type} [Scalar β] [ViaF64 α β]

/-- `LuvBounds::from_lightness(color.l).max_chroma_at_hue(color.hue)` as seen from `T` -/
def maxChroma (l hue : α) : α := ViaF64.down (maxChromaAtHue (ViaF64.up l) (ViaF64.up (Angle.degToRad hue)))

/-- `impl FromColorUnclamped<Lchuv<Wp,T>> for Hsluv<Wp,T>` (hsluv.rs) — `(hue, saturation, l)` from `(l, chroma, hue)` -/
def lchuvToHsluv (c : V3 α) : V3 α :=
  let mc := maxChroma c.c0 c.c2
  ⟨c.c2, c.c1 / mc * 100.0, c.c0⟩

/-- `impl FromColorUnclamped<Hsluv<Wp,T>> for Lchuv<Wp,T>` (lchuv.rs) — `(l, chroma, hue)` from `(hue, saturation, l)` -/
def hsluvToLchuv (c : V3 α) : V3 α :=
  let mc := maxChroma c.c2 c.c0
  ⟨c.c2, c.c1 * mc * 0.01, c.c0⟩

/-! ### Xyz ↔ Lms (lms/lms.rs, xyz.rs): `Matrix3::from_array(M::xyz_to_lms_matrix()).convert_once(val)` = `multiply_3x3_and_vec3` -/

def coneMatrix? (name : String) : Option (List K × List K) :=
  (Gen.Mat.coneMatrices.find? (·.1 == name)).map fun (_, a, b) => (a, b)

def xyzToLms (toLms : List K) (c : V3 α) : V3 α := (M3.ofK toLms : M3 α).mulVec c
def lmsToXyz (toXyz : List K) (c : V3 α) : V3 α := (M3.ofK toXyz : M3 α).mulVec c

end Cie
