/-
  C19 — explicit forms of what the sampling CODE does, beside the list-shaped model of `PaletteModel/Sampling.lean`, so that the source-text
  ties of `PaletteProofs/Tie_Rand.lean` can be stated (`tools/rust2lean_rand.py` translates the bodies with the RNG as a state-passing
  parameter `Prim.Rand.Rng`; `Sampling.standard` / `uniformEnds` / `uniformSample` take the LIST of primitive draws / return the LIST of
  intervals in consumption order).  Nothing here changes an existing model function.

    * `gens rng n`        the next `n` primitive `rng.gen::<T>()` values of a generator, in order  (what `Sampling.standard` is given)
    * `draws rng us`      the next primitive draws when they are taken from the `Uniform`s `us`, in order  (what `Sampling.uniformSample` is given)
    * `ofIvs incl ivs`    the model's interval list as the `Uniform`s built by `Uniform::new` (`incl = false`) / `new_inclusive` (`true`)
    * `minMaxCode`        `MinMax::min_max` for f32/f64 AS WRITTEN in num.rs (`if self > other { (other, self) } else { (self, other) }`);
                          `Sampling.minMax` states it as `(min, max)`, which is the same function in a linear order (`Tie.minMaxCode_eq_real`)
                          but not for an arbitrary `Scalar` (NaN: `(NaN, x)` against `(x, x)`) - the ties of the HWB constructors therefore
                          take `minMaxCode = minMax` as a hypothesis and `Tie.tie_hwbNew_real` discharges it at ℝ, where C19's theorems live
    * `uniformEndsCode`   `Sampling.uniformEnds` with `minMaxCode` in place of `minMax` (the HWB branch; every other branch is `uniformEnds`)

  No Mathlib import.
-/
import PaletteModel.Sampling
import PaletteModel.BodyPrimRand

namespace Sampling
open Scalar Gen.Sampling Prim.Rand

variable {α : Type}

/-- the `n` primitive `Standard` draws starting at position `p` -/
def gensAt (gen : Nat → α) : Nat → Nat → List α
  | _, 0 => []
  | p, n + 1 => gen p :: gensAt gen (p + 1) n

/-- the next `n` values of `rng.gen::<T>()` -/
def gens (r : Rng α) (n : Nat) : List α := gensAt r.gen r.pos n

/-- primitive draws from the `Uniform`s `us`, in this order, starting at position `p` -/
def drawsAt (draw : Uniform α → Nat → α) : Nat → List (Uniform α) → List α
  | _, [] => []
  | p, u :: us => draw u p :: drawsAt draw (p + 1) us

/-- the next `us.length` values of `u.sample(rng)` for `u` running through `us` -/
def draws (r : Rng α) (us : List (Uniform α)) : List α := drawsAt r.draw r.pos us

/-- the model's intervals as rand's `Uniform`s -/
def ofIvs (inclusive : Bool) (ivs : List (Iv α)) : List (Uniform α) := ivs.map fun iv => ⟨iv.lo, iv.hi, inclusive⟩

variable [Scalar α]

/-- `MinMax::min_max` for f32/f64 as written in num.rs (`impl_float!`) -/
def minMaxCode (a b : α) : α × α := if b < a then (b, a) else (a, b)

/-- the HWB branch of `uniformEnds` with `min_max` as the code writes it -/
def hwbEndsCode (hueLo wLo bLo hueHi wHi bHi : α) : List (Iv α) :=
  let (sA, vA) := hwbToHsv wLo bLo
  let (sB, vB) := hwbToHsv wHi bHi
  let (sLo, sHi) := minMaxCode sA sB
  let (vLo, vHi) := minMaxCode vA vB
  hsvEnds hueLo sLo vLo hueHi sHi vHi

/-- `uniformEnds` with `min_max` as the code writes it (differs from `uniformEnds` in the HWB branch only) -/
def uniformEndsCode (ty : Ty) (low high : List α) : List (Iv α) :=
  match family ty, low, high with
  | .hwb_cone, [hueLo, wLo, bLo], [hueHi, wHi, bHi] => hwbEndsCode hueLo wLo bLo hueHi wHi bHi
  | _, low, high => uniformEnds ty low high

end Sampling
