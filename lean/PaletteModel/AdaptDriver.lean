import PaletteModel.Proto
import PaletteModel.Adapt

namespace Adapt
open Proto

def modelMatrix {α} [Scalar α] (i o m : String) : Option (List α) :=
  match coneMatrices? m with
  | some (a, b) => some (M3.toList (adaptationMatrix (M3.ofK a) (M3.ofK b) (Color.whitePoint i) (Color.whitePoint o)))
  | none => none

/-- `adapt <I> <O> <M> | | m0..m8` (matrix of `adaptation_matrix::<T,I,O,M>(None, None)`);
    `rgbwhite <Std> | | x y z` (XYZ of RGB white: row sums of the standard's hard-coded matrix after `T::from_f64`) -/
def handle (op : String) (cfg _inp outp : List String) : Verdict :=
  match op, cfg with
  | "adapt", [i, o, m] =>
    if !(Gen.Mat.whitePoints.any (·.1 == i)) || !(Gen.Mat.whitePoints.any (·.1 == o)) then .bad "adapt: unknown white point" else
    match outp.mapM f32? with
    | some xs =>
      match modelMatrix (α := Float32) i o m with
      | some ms => if ms.length == xs.length && (List.zipWith (fun a b => closeAbs32 a b (Float32.ofScientific 1 false 0) 8) ms xs).all id then .agree ["adapt:" ++ m ++ ":f32"]
                   else .disagree s!"model={ms.map showF32}"
      | none => .bad "adapt: unknown cone matrix"
    | none => match outp.mapM f64? with
      | some xs =>
        match modelMatrix (α := Float) i o m with
        | some ms => if ms.length == xs.length && (List.zipWith (fun a b => closeAbs64 a b (Float.ofScientific 1 false 0) 8) ms xs).all id then .agree ["adapt:" ++ m ++ ":f64"]
                     else .disagree s!"model={ms.map showF64}"
        | none => .bad "adapt: unknown cone matrix"
      | none => .bad "adapt: unparsable"
  | "rgbwhite", [std] =>
    -- a standard as the harness names it, or (coverage audit C14: DciP3Plus<F> has a matrix pair of its own but no entry in `standard?`) an RGB space by its own name
    match (match Color.standard? std with
           | some (space, _) => some space
           | none => if (Color.rgbSpace? std).isSome then some std else none) with
    | none => .bad "rgbwhite: unknown standard"
    | some space =>
      match Color.rgbSpace? space with
      | none => .bad "rgbwhite: unknown space"
      | some sp =>
        match outp.mapM f32? with
        | some [x, y, z] =>
          let w := (M3.ofK (α := Float32) sp.rgbToXyz).mulVec ⟨1.0, 1.0, 1.0⟩
          if closeAbs32 w.c0 x 1.0 8 && closeAbs32 w.c1 y 1.0 8 && closeAbs32 w.c2 z 1.0 8 then .agree ["rgbwhite:f32"] else .disagree s!"model={showF32 w.c0} {showF32 w.c1} {showF32 w.c2}"
        | _ => match outp.mapM f64? with
          | some [x, y, z] =>
            let w := (M3.ofK (α := Float) sp.rgbToXyz).mulVec ⟨1.0, 1.0, 1.0⟩
            if closeAbs64 w.c0 x 1.0 8 && closeAbs64 w.c1 y 1.0 8 && closeAbs64 w.c2 z 1.0 8 then .agree ["rgbwhite:f64"] else .disagree s!"model={showF64 w.c0} {showF64 w.c1} {showF64 w.c2}"
          | _ => .bad "rgbwhite: unparsable"
  | _, _ => .bad "malformed adapt line"

end Adapt
